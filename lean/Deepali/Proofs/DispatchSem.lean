/-
  Proofs/DispatchSem.lean — C19: facts about `torchSem` (shape / dim-0 provenance of plain torch operations)
  used by the alignment proofs: which operations leave the dim-0 provenance untouched (`Stable`) and which
  produce only entries that come from entries of their argument (`ProvLe`).
-/
import Deepali.Proofs.Dispatch

set_option linter.unusedSectionVars false

namespace Deepali.Dispatch

/-- every dim-0 entry of `r` holds data of an entry of `t` or of nothing -/
def ProvLe (r t : Raw) : Prop := ∀ p ∈ r.prov, p ∈ t.prov ∨ p = .none

def ProvLeRes (res : RawRes) (t : Raw) : Prop :=
  match res with
  | .t r => ProvLe r t
  | .ts l => ∀ r ∈ l, ProvLe r t
  | .err => True

theorem provLe_refl (t : Raw) : ProvLe t t := fun _ hp => Or.inl hp

theorem provLe_of_subset {r t : Raw} (h : ∀ p ∈ r.prov, p ∈ t.prov) : ProvLe r t := fun p hp => Or.inl (h p hp)

theorem getD_mem_or_none (l : List Prov) (i : Nat) : l.getD i .none ∈ l ∨ l.getD i .none = .none := by
  by_cases h : i < l.length
  · left
    have : l.getD i .none = l[i] := by simp [List.getD, h]
    rw [this]
    exact List.getElem_mem h
  · right
    simp [List.getD, Nat.le_of_not_lt h]

theorem repl0_provLe (sh : List Nat) (l : List Prov) (i : Nat) :
    ∀ p ∈ repl0 sh (l.getD i .none), p ∈ l ∨ p = .none := by
  intro p hp
  unfold repl0 at hp
  rw [List.mem_replicate] at hp
  rw [hp.2]
  exact getD_mem_or_none l i

/-! ### normDim -/

theorem normDim_lt {n : Nat} {d : Int} {k : Nat} (h : normDim n d = some k) : k < n := by
  unfold normDim at h
  split at h
  · split at h
    · cases h; assumption
    · cases h
  · split at h
    · cases h; omega
    · cases h

theorem normDim_pos {n : Nat} {d : Int} {k : Nat} (h : normDim n d = some k) (hd : 1 ≤ d) : k ≠ 0 := by
  unfold normDim at h
  split at h
  · split at h
    · cases h; omega
    · cases h
  · omega

theorem normDim_zero {n : Nat} {k : Nat} (h : normDim n 0 = some k) : k = 0 := by
  unfold normDim at h
  simp at h
  omega

theorem mapM_normDim_pos (n : Nat) (ds : List Int) (l : List Nat) (h : ds.mapM (normDim n) = some l)
    (hd : ∀ d ∈ ds, 1 ≤ d) : ∀ k ∈ l, k ≠ 0 := by
  induction ds generalizing l with
  | nil => simp at h; subst h; simp
  | cons d ds ih =>
    rw [List.mapM_cons] at h
    cases h1 : normDim n d with
    | none => simp [h1] at h
    | some k =>
      cases h2 : ds.mapM (normDim n) with
      | none => simp [h1, h2] at h
      | some ks =>
        simp [h1, h2] at h
        subst h
        intro k' hk'
        rcases List.mem_cons.mp hk' with h3 | h3
        · subst h3; exact normDim_pos h1 (hd d (by simp))
        · exact ih ks h2 (fun d' hd' => hd d' (by simp [hd'])) k' h3

theorem mapM_normDim_lt (n : Nat) (ds : List Int) (l : List Nat) (h : ds.mapM (normDim n) = some l) :
    ∀ k ∈ l, k < n := by
  induction ds generalizing l with
  | nil => simp at h; subst h; simp
  | cons d ds ih =>
    rw [List.mapM_cons] at h
    cases h1 : normDim n d with
    | none => simp [h1] at h
    | some k =>
      cases h2 : ds.mapM (normDim n) with
      | none => simp [h1, h2] at h
      | some ks =>
        simp [h1, h2] at h
        subst h
        intro k' hk'
        rcases List.mem_cons.mp hk' with h3 | h3
        · subst h3; exact normDim_lt h1
        · exact ih ks h2 k' h3

theorem normDims_pos (n : Nat) (dims : List Int) (ds : List Nat) (h : normDims n dims = some ds)
    (hd : ∀ d ∈ dims, 1 ≤ d) : ds.contains 0 = false := by
  unfold normDims at h
  cases hm : dims.mapM (normDim n) with
  | none => simp [hm] at h
  | some l =>
    simp only [hm] at h
    split at h
    · cases h
    · cases h
      have := mapM_normDim_pos n dims ds hm hd
      cases hc : ds.contains 0 with
      | false => rfl
      | true =>
        exfalso
        rw [List.contains_iff_mem] at hc
        exact this 0 hc rfl

/-! ### equations of `torchSem` for the operation classes of `goodOp` -/

theorem torchSem_ew (cur : Raw) (o : Option Raw) : torchSem .ew cur o = .t cur := rfl

theorem torchSem_flip (dims : List Int) (cur : Raw) (o : Option Raw) :
    torchSem (.flip dims) cur o =
      match normDims cur.ndim dims with
      | none => .err
      | some ds => .t ⟨cur.shape, if ds.contains 0 then cur.prov.reverse else cur.prov⟩ := rfl

theorem torchSem_roll (shift dim : Int) (cur : Raw) (o : Option Raw) :
    torchSem (.roll shift dim) cur o =
      match normDim cur.ndim dim with
      | none => .err
      | some d =>
        if d ≠ 0 ∨ cur.shape.headD 1 = 0 then .t cur else
        let s := (shift % ((cur.shape.headD 1 : Nat) : Int)).toNat
        .t ⟨cur.shape, (List.range (cur.shape.headD 1)).map
          (fun i => cur.prov.getD ((i + cur.shape.headD 1 - s) % cur.shape.headD 1) .none)⟩ := rfl

theorem torchSem_getitem_single (i : Ix) (cur : Raw) (o : Option Raw) :
    torchSem (.getitem (.single i)) cur o = match rawIndex cur [i] with | some r => .t r | none => .err := rfl

theorem torchSem_getitem_tuple (l : List Ix) (cur : Raw) (o : Option Raw) :
    torchSem (.getitem (.tuple l)) cur o = match rawIndex cur l with | some r => .t r | none => .err := rfl

theorem torchSem_iter (cur : Raw) (o : Option Raw) :
    torchSem .iter cur o =
      if cur.ndim = 0 then .err else .ts ((List.range (cur.shape.headD 1)).map (fun k => selectRaw cur 0 k)) := rfl

theorem torchSem_split (size : Nat) (dim : DimArg) (cur : Raw) (o : Option Raw) :
    torchSem (.split size dim) cur o =
      match normDim cur.ndim dim.val with
      | none => .err
      | some d =>
        let n := cur.shape.getD d 0
        if size = 0 ∧ n ≠ 0 then .err else
        if size = 0 ∨ n = 0 then .ts [⟨cur.shape, cur.prov⟩] else
        .ts ((List.range ((n + size - 1) / size)).map (fun k => piece cur d (k * size) (min size (n - k * size)))) := rfl

theorem torchSem_tsplitL (idx : List Nat) (dim : DimArg) (cur : Raw) (o : Option Raw) :
    torchSem (.tsplitL idx dim) cur o =
      match normDim cur.ndim dim.val with
      | none => .err
      | some d =>
        let len := cur.shape.getD d 0
        let starts := (0 :: idx).map (fun s => min s len)
        let ends := (idx ++ [len]).map (fun e => min e len)
        .ts ((starts.zip ends).map (fun (se : Nat × Nat) => piece cur d se.1 (se.2 - se.1))) := rfl

theorem torchSem_cat (ops : List Operand) (dim : DimArg) (cur : Raw) (other : Option Raw) :
    torchSem (.cat ops dim) cur other =
      match resolveOps ops cur other with
      | none => .err
      | some [] => .err
      | some (a :: rest) =>
        match normDim a.ndim dim.val with
        | none => .err
        | some d =>
          if rest.any (fun r => r.ndim ≠ a.ndim ∨ removeAt r.shape d ≠ removeAt a.shape d) then .err else
          let total := ((a :: rest).map (fun r => r.shape.getD d 0)).foldr (· + ·) 0
          let prov := if d = 0 then ((a :: rest).map (·.prov)).flatten
                      else rest.foldl (fun acc r => List.zipWith Prov.join acc r.prov) a.prov
          .t ⟨setAt a.shape d total, prov⟩ := rfl

/-! ### provenance facts -/

theorem provLeRes_flip (dims : List Int) (cur : Raw) (o : Option Raw) :
    ProvLeRes (torchSem (.flip dims) cur o) cur := by
  rw [torchSem_flip]
  cases normDims cur.ndim dims with
  | none => trivial
  | some ds =>
    simp only [ProvLeRes]
    apply provLe_of_subset
    intro p hp
    simp only [] at hp
    split at hp
    · exact List.mem_reverse.mp hp
    · exact hp

theorem provLeRes_roll (shift dim : Int) (cur : Raw) (o : Option Raw) :
    ProvLeRes (torchSem (.roll shift dim) cur o) cur := by
  rw [torchSem_roll]
  cases normDim cur.ndim dim with
  | none => trivial
  | some d =>
    simp only []
    split
    · exact provLe_refl cur
    · simp only [ProvLeRes]
      intro p hp
      simp only [List.mem_map] at hp
      obtain ⟨i, _, rfl⟩ := hp
      exact getD_mem_or_none _ _

theorem provLe_piece (t : Raw) (d start len : Nat) : ProvLe (piece t d start len) t := by
  apply provLe_of_subset
  intro p hp
  unfold piece at hp
  simp only [] at hp
  split at hp
  · exact List.mem_of_mem_drop (List.mem_of_mem_take hp)
  · exact hp

theorem provLe_selectRaw (t : Raw) (d k : Nat) : ProvLe (selectRaw t d k) t := by
  intro p hp
  unfold selectRaw at hp
  simp only [] at hp
  split at hp
  · exact repl0_provLe _ _ _ p hp
  · exact Or.inl hp

theorem provLe_indexFirst (n0 : Nat) (prov : List Prov) (ro : List Nat) (ix : Ix) (r : Raw)
    (h : indexFirst n0 prov ro ix = some r) : ∀ p ∈ r.prov, p ∈ prov ∨ p = .none := by
  cases ix with
  | int i =>
    simp only [indexFirst] at h
    cases hk : normDim n0 i with
    | none => simp [hk] at h
    | some k =>
      simp only [hk] at h
      cases h
      exact repl0_provLe _ _ _
  | slice a b st =>
    simp only [indexFirst] at h
    split at h
    · cases h
    · cases h
      intro p hp
      exact Or.inl (pick_mem _ _ _ hp)
  | list l =>
    simp only [indexFirst] at h
    cases hm : l.mapM (normDim n0) with
    | none => simp [hm] at h
    | some sel =>
      simp only [hm] at h
      cases h
      intro p hp
      exact Or.inl (pick_mem _ _ _ hp)
  | mask m =>
    simp only [indexFirst] at h
    split at h
    · cases h
    · cases h
      intro p hp
      exact Or.inl (pick_mem _ _ _ hp)
  | ell => simp [indexFirst] at h

theorem provLe_rawIndex (t : Raw) (idx : List Ix) (r : Raw) (h : rawIndex t idx = some r) : ProvLe r t := by
  unfold rawIndex at h
  split at h
  · split at h
    · cases h
    · exact provLe_indexFirst _ _ _ _ _ h
  · cases h

theorem provLeRes_getitem (idx : Index) (cur : Raw) (o : Option Raw) :
    ProvLeRes (torchSem (.getitem idx) cur o) cur := by
  cases idx with
  | single i =>
    rw [torchSem_getitem_single]
    cases h : rawIndex cur [i] with
    | none => trivial
    | some r => exact provLe_rawIndex cur _ r h
  | tuple l =>
    rw [torchSem_getitem_tuple]
    cases h : rawIndex cur l with
    | none => trivial
    | some r => exact provLe_rawIndex cur _ r h

theorem provLeRes_iter (cur : Raw) (o : Option Raw) : ProvLeRes (torchSem .iter cur o) cur := by
  rw [torchSem_iter]
  split
  · trivial
  · simp only [ProvLeRes]
    intro r hr
    rw [List.mem_map] at hr
    obtain ⟨k, _, rfl⟩ := hr
    exact provLe_selectRaw cur 0 k

theorem provLeRes_split (size : Nat) (dim : DimArg) (cur : Raw) (o : Option Raw) :
    ProvLeRes (torchSem (.split size dim) cur o) cur := by
  rw [torchSem_split]
  cases normDim cur.ndim dim.val with
  | none => trivial
  | some d =>
    simp only []
    split
    · trivial
    · split
      · simp only [ProvLeRes]
        intro r hr
        simp at hr
        subst hr
        exact provLe_refl cur
      · simp only [ProvLeRes]
        intro r hr
        rw [List.mem_map] at hr
        obtain ⟨k, _, rfl⟩ := hr
        exact provLe_piece cur d _ _

theorem provLeRes_tsplitL (idx : List Nat) (dim : DimArg) (cur : Raw) (o : Option Raw) :
    ProvLeRes (torchSem (.tsplitL idx dim) cur o) cur := by
  rw [torchSem_tsplitL]
  cases normDim cur.ndim dim.val with
  | none => trivial
  | some d =>
    simp only [ProvLeRes]
    intro r hr
    rw [List.mem_map] at hr
    obtain ⟨se, _, rfl⟩ := hr
    exact provLe_piece cur d _ _

end Deepali.Dispatch
