/-
  Proofs/DispatchSem.lean — C19: facts about `torchSem` (shape / dim-0 provenance of plain torch operations)
  used by the alignment proofs: which operations leave the dim-0 provenance untouched (`Stable`) and which
  produce only entries that come from entries of their argument (`ProvLe`).
-/
import Deepali.Proofs.Dispatch

set_option linter.unusedSectionVars false

namespace Deepali.Dispatch

/-- every dim-0 entry of `r` holds data of an entry of `t` or of nothing -/
def ProvLe (r t : Raw) : Prop := ∀ p ∈ r.prov, p ∈ t.prov ∨ p = .none

def ProvLeRes (res : RawRes) (t : Raw) : Prop :=
  match res with
  | .t r => ProvLe r t
  | .ts l => ∀ r ∈ l, ProvLe r t
  | .err => True

theorem provLe_refl (t : Raw) : ProvLe t t := fun _ hp => Or.inl hp

theorem provLe_of_subset {r t : Raw} (h : ∀ p ∈ r.prov, p ∈ t.prov) : ProvLe r t := fun p hp => Or.inl (h p hp)

theorem getD_mem_or_none (l : List Prov) (i : Nat) : l.getD i .none ∈ l ∨ l.getD i .none = .none := by
  by_cases h : i < l.length
  · left
    have : l.getD i .none = l[i] := by simp [List.getD, h]
    rw [this]
    exact List.getElem_mem h
  · right
    simp [List.getD, Nat.le_of_not_lt h]

theorem repl0_provLe (sh : List Nat) (l : List Prov) (i : Nat) :
    ∀ p ∈ repl0 sh (l.getD i .none), p ∈ l ∨ p = .none := by
  intro p hp
  unfold repl0 at hp
  rw [List.mem_replicate] at hp
  rw [hp.2]
  exact getD_mem_or_none l i

/-! ### normDim -/

theorem normDim_lt {n : Nat} {d : Int} {k : Nat} (h : normDim n d = some k) : k < n := by
  unfold normDim at h
  split at h
  · split at h
    · cases h; assumption
    · cases h
  · split at h
    · cases h; omega
    · cases h

theorem normDim_pos {n : Nat} {d : Int} {k : Nat} (h : normDim n d = some k) (hd : 1 ≤ d) : k ≠ 0 := by
  unfold normDim at h
  split at h
  · split at h
    · cases h; omega
    · cases h
  · omega

theorem normDim_zero {n : Nat} {k : Nat} (h : normDim n 0 = some k) : k = 0 := by
  unfold normDim at h
  simp at h
  omega

theorem mapM_normDim_pos (n : Nat) (ds : List Int) (l : List Nat) (h : ds.mapM (normDim n) = some l)
    (hd : ∀ d ∈ ds, 1 ≤ d) : ∀ k ∈ l, k ≠ 0 := by
  induction ds generalizing l with
  | nil => simp at h; subst h; simp
  | cons d ds ih =>
    rw [List.mapM_cons] at h
    cases h1 : normDim n d with
    | none => simp [h1] at h
    | some k =>
      cases h2 : ds.mapM (normDim n) with
      | none => simp [h1, h2] at h
      | some ks =>
        simp [h1, h2] at h
        subst h
        intro k' hk'
        rcases List.mem_cons.mp hk' with h3 | h3
        · subst h3; exact normDim_pos h1 (hd d (by simp))
        · exact ih ks h2 (fun d' hd' => hd d' (by simp [hd'])) k' h3

theorem mapM_normDim_lt (n : Nat) (ds : List Int) (l : List Nat) (h : ds.mapM (normDim n) = some l) :
    ∀ k ∈ l, k < n := by
  induction ds generalizing l with
  | nil => simp at h; subst h; simp
  | cons d ds ih =>
    rw [List.mapM_cons] at h
    cases h1 : normDim n d with
    | none => simp [h1] at h
    | some k =>
      cases h2 : ds.mapM (normDim n) with
      | none => simp [h1, h2] at h
      | some ks =>
        simp [h1, h2] at h
        subst h
        intro k' hk'
        rcases List.mem_cons.mp hk' with h3 | h3
        · subst h3; exact normDim_lt h1
        · exact ih ks h2 k' h3

theorem normDims_pos (n : Nat) (dims : List Int) (ds : List Nat) (h : normDims n dims = some ds)
    (hd : ∀ d ∈ dims, 1 ≤ d) : ds.contains 0 = false := by
  unfold normDims at h
  cases hm : dims.mapM (normDim n) with
  | none => simp [hm] at h
  | some l =>
    simp only [hm] at h
    split at h
    · cases h
    · cases h
      have := mapM_normDim_pos n dims ds hm hd
      cases hc : ds.contains 0 with
      | false => rfl
      | true =>
        exfalso
        rw [List.contains_iff_mem] at hc
        exact this 0 hc rfl

/-! ### equations of `torchSem` for the operation classes of `goodOp` -/

theorem torchSem_ew (cur : Raw) (o : Option Raw) : torchSem .ew cur o = .t cur := rfl

theorem torchSem_flip (dims : List Int) (cur : Raw) (o : Option Raw) :
    torchSem (.flip dims) cur o =
      match normDims cur.ndim dims with
      | none => .err
      | some ds => .t ⟨cur.shape, if ds.contains 0 then cur.prov.reverse else cur.prov⟩ := rfl

theorem torchSem_roll_dims (shifts ds : List Int) (cur : Raw) (o : Option Raw) :
    torchSem (.roll shifts (some ds)) cur o =
      if shifts.length ≠ ds.length then .err else
      match ds.mapM (normDim cur.ndim) with
      | none => .err
      | some nds =>
        .t ⟨cur.shape, (shifts.zip nds).foldl (fun p (sd : Int × Nat) => if sd.2 = 0 then rotR p sd.1 else p) cur.prov⟩ := rfl

theorem torchSem_roll_flat (shifts : List Int) (cur : Raw) (o : Option Raw) :
    torchSem (.roll shifts none) cur o =
      match shifts with
      | [s] =>
          let total := numel cur.shape
          if cur.ndim = 0 ∨ total = 0 then .t cur else
          let m := total / cur.shape.headD 1
          let s' := (s % (total : Int)).toNat
          let q := s' / m
          let r := s' % m
          .t ⟨cur.shape, (List.range (cur.shape.headD 1)).map (fun i =>
            let a := cur.prov.getD ((i + cur.shape.headD 1 - q) % cur.shape.headD 1) .none
            if r = 0 then a else Prov.join a (cur.prov.getD ((i + 2 * cur.shape.headD 1 - q - 1) % cur.shape.headD 1) .none))⟩
      | _ => .err := by
  cases shifts with
  | nil => rfl
  | cons s rest => cases rest <;> rfl

theorem torchSem_permute (perm : List Int) (cur : Raw) (o : Option Raw) :
    torchSem (.permute perm) cur o =
      match normDims cur.ndim perm with
      | none => .err
      | some p =>
        if p.length ≠ cur.ndim then .err else
        let sh := p.map (fun i => cur.shape.getD i 0)
        if p.head? = some 0 then .t ⟨sh, cur.prov⟩ else .t ⟨sh, repl0 sh (joinAll cur.prov)⟩ := rfl

theorem torchSem_transpose (d0 d1 : Int) (cur : Raw) (o : Option Raw) :
    torchSem (.transpose d0 d1) cur o =
      match normDim cur.ndim d0, normDim cur.ndim d1 with
      | some a, some b =>
        let sh := (List.range cur.ndim).map (fun i => cur.shape.getD (if i = a then b else if i = b then a else i) 0)
        if a = b ∨ (a ≠ 0 ∧ b ≠ 0) then .t ⟨sh, cur.prov⟩ else .t ⟨sh, repl0 sh (joinAll cur.prov)⟩
      | _, _ => .err := rfl

theorem torchSem_getitem_single (i : Ix) (cur : Raw) (o : Option Raw) :
    torchSem (.getitem (.single i)) cur o = match rawIndex cur [i] with | some r => .t r | none => .err := rfl

theorem torchSem_getitem_tuple (l : List Ix) (cur : Raw) (o : Option Raw) :
    torchSem (.getitem (.tuple l)) cur o = match rawIndex cur l with | some r => .t r | none => .err := rfl

theorem torchSem_iter (cur : Raw) (o : Option Raw) :
    torchSem .iter cur o =
      if cur.ndim = 0 then .err else .ts ((List.range (cur.shape.headD 1)).map (fun k => selectRaw cur 0 k)) := rfl

theorem torchSem_split (size : Nat) (dim : DimArg) (cur : Raw) (o : Option Raw) :
    torchSem (.split size dim) cur o =
      match normDim cur.ndim dim.val with
      | none => .err
      | some d =>
        let n := cur.shape.getD d 0
        if size = 0 ∧ n ≠ 0 then .err else
        if size = 0 ∨ n = 0 then .ts [⟨cur.shape, cur.prov⟩] else
        .ts ((List.range ((n + size - 1) / size)).map (fun k => piece cur d (k * size) (min size (n - k * size)))) := rfl

theorem torchSem_tsplitL (idx : List Nat) (dim : DimArg) (cur : Raw) (o : Option Raw) :
    torchSem (.tsplitL idx dim) cur o =
      match normDim cur.ndim dim.val with
      | none => .err
      | some d =>
        let len := cur.shape.getD d 0
        let starts := (0 :: idx).map (fun s => min s len)
        let ends := (idx ++ [len]).map (fun e => min e len)
        .ts ((starts.zip ends).map (fun (se : Nat × Nat) => piece cur d se.1 (se.2 - se.1))) := rfl

theorem torchSem_cat (ops : List Operand) (dim : DimArg) (cur : Raw) (other : Option Raw) :
    torchSem (.cat ops dim) cur other =
      match resolveOps ops cur other with
      | none => .err
      | some [] => .err
      | some (a :: rest) =>
        match normDim a.ndim dim.val with
        | none => .err
        | some d =>
          if rest.any (fun r => r.ndim ≠ a.ndim ∨ removeAt r.shape d ≠ removeAt a.shape d) then .err else
          let total := ((a :: rest).map (fun r => r.shape.getD d 0)).foldr (· + ·) 0
          let prov := if d = 0 then ((a :: rest).map (·.prov)).flatten
                      else rest.foldl (fun acc r => List.zipWith Prov.join acc r.prov) a.prov
          .t ⟨setAt a.shape d total, prov⟩ := rfl

/-! ### provenance facts -/

theorem provLeRes_flip (dims : List Int) (cur : Raw) (o : Option Raw) :
    ProvLeRes (torchSem (.flip dims) cur o) cur := by
  rw [torchSem_flip]
  cases normDims cur.ndim dims with
  | none => trivial
  | some ds =>
    simp only [ProvLeRes]
    apply provLe_of_subset
    intro p hp
    simp only [] at hp
    split at hp
    · exact List.mem_reverse.mp hp
    · exact hp

/-! ### single-source provenance (images): every entry holds data of item `k` or of nothing -/

def ProvIn (k : Nat) (l : List Prov) : Prop := ∀ p ∈ l, p = .item k ∨ p = .none

def ProvInRes (k : Nat) (res : RawRes) : Prop :=
  match res with
  | .t r => ProvIn k r.prov
  | .ts l => ∀ r ∈ l, ProvIn k r.prov
  | .err => True

theorem provIn_of_provLe {k : Nat} {r t : Raw} (ht : ProvIn k t.prov) (h : ProvLe r t) : ProvIn k r.prov := by
  intro p hp
  rcases h p hp with h1 | h1
  · exact ht p h1
  · exact Or.inr h1

theorem provInRes_of_provLeRes {k : Nat} {res : RawRes} {t : Raw} (ht : ProvIn k t.prov) (h : ProvLeRes res t) :
    ProvInRes k res := by
  cases res with
  | err => trivial
  | t r => exact provIn_of_provLe ht h
  | ts l => exact fun r hr => provIn_of_provLe ht (h r hr)

theorem provIn_getD {k : Nat} {l : List Prov} (h : ProvIn k l) (i : Nat) :
    l.getD i .none = .item k ∨ l.getD i .none = .none := by
  rcases getD_mem_or_none l i with h1 | h1
  · exact h _ h1
  · exact Or.inr h1

theorem join_single_source {k : Nat} {a b : Prov} (ha : a = .item k ∨ a = .none) (hb : b = .item k ∨ b = .none) :
    Prov.join a b = .item k ∨ Prov.join a b = .none := by
  rcases ha with ha | ha <;> rcases hb with hb | hb <;> simp [ha, hb, Prov.join]

theorem joinAll_single_source (l : List Prov) (k : Nat) (h : ProvIn k l) :
    joinAll l = .item k ∨ joinAll l = .none := by
  induction l with
  | nil => right; rfl
  | cons p ps ih =>
    have ih' := ih (fun q hq => h q (by simp [hq]))
    simp only [joinAll, List.foldr_cons] at ih' ⊢
    exact join_single_source (h p (by simp)) ih'

theorem mem_rotR {α : Type} (l : List α) (s : Int) (x : α) (h : x ∈ rotR l s) : x ∈ l := by
  unfold rotR at h
  split at h
  · exact h
  · rcases List.mem_append.mp h with h1 | h1
    · exact List.mem_of_mem_drop h1
    · exact List.mem_of_mem_take h1

theorem provIn_rollFold (k : Nat) (zs : List (Int × Nat)) (p : List Prov) (h : ProvIn k p) :
    ProvIn k (zs.foldl (fun p (sd : Int × Nat) => if sd.2 = 0 then rotR p sd.1 else p) p) := by
  induction zs generalizing p with
  | nil => exact h
  | cons z zs ih =>
    simp only [List.foldl_cons]
    apply ih
    split
    · exact fun q hq => h q (mem_rotR _ _ _ hq)
    · exact h

theorem provIn_repl0 (k : Nat) (sh : List Nat) (p : Prov) (h : p = .item k ∨ p = .none) : ProvIn k (repl0 sh p) := by
  intro q hq
  unfold repl0 at hq
  rw [List.mem_replicate] at hq
  rw [hq.2]; exact h

theorem provInRes_roll (k : Nat) (shifts : List Int) (dims : Option (List Int)) (cur : Raw) (o : Option Raw)
    (h : ProvIn k cur.prov) : ProvInRes k (torchSem (.roll shifts dims) cur o) := by
  cases dims with
  | some ds =>
    rw [torchSem_roll_dims]
    split
    · trivial
    · cases ds.mapM (normDim cur.ndim) with
      | none => trivial
      | some nds => exact provIn_rollFold k _ _ h
  | none =>
    rw [torchSem_roll_flat]
    split
    · simp only []
      split
      · exact h
      · simp only [ProvInRes]
        intro p hp
        simp only [List.mem_map] at hp
        obtain ⟨i, _, rfl⟩ := hp
        split
        · exact provIn_getD h _
        · exact join_single_source (provIn_getD h _) (provIn_getD h _)
    · trivial

theorem provInRes_permute (k : Nat) (perm : List Int) (cur : Raw) (o : Option Raw) (h : ProvIn k cur.prov) :
    ProvInRes k (torchSem (.permute perm) cur o) := by
  rw [torchSem_permute]
  cases normDims cur.ndim perm with
  | none => trivial
  | some p =>
    simp only []
    split
    · trivial
    · split
      · exact h
      · exact provIn_repl0 k _ _ (joinAll_single_source _ k h)

theorem provInRes_transpose (k : Nat) (d0 d1 : Int) (cur : Raw) (o : Option Raw) (h : ProvIn k cur.prov) :
    ProvInRes k (torchSem (.transpose d0 d1) cur o) := by
  rw [torchSem_transpose]
  split
  · simp only []
    split
    · exact h
    · exact provIn_repl0 k _ _ (joinAll_single_source _ k h)
  · trivial

theorem provLe_piece (t : Raw) (d start len : Nat) : ProvLe (piece t d start len) t := by
  apply provLe_of_subset
  intro p hp
  unfold piece at hp
  simp only [] at hp
  split at hp
  · exact List.mem_of_mem_drop (List.mem_of_mem_take hp)
  · exact hp

theorem provLe_selectRaw (t : Raw) (d k : Nat) : ProvLe (selectRaw t d k) t := by
  intro p hp
  unfold selectRaw at hp
  simp only [] at hp
  split at hp
  · exact repl0_provLe _ _ _ p hp
  · exact Or.inl hp

theorem provLe_indexFirst (n0 : Nat) (prov : List Prov) (ro : List Nat) (ix : Ix) (r : Raw)
    (h : indexFirst n0 prov ro ix = some r) : ∀ p ∈ r.prov, p ∈ prov ∨ p = .none := by
  cases ix with
  | int i =>
    simp only [indexFirst] at h
    cases hk : normDim n0 i with
    | none => simp [hk] at h
    | some k =>
      simp only [hk] at h
      cases h
      exact repl0_provLe _ _ _
  | slice a b st =>
    simp only [indexFirst] at h
    split at h
    · cases h
    · cases h
      intro p hp
      exact Or.inl (pick_mem _ _ _ hp)
  | list l =>
    simp only [indexFirst] at h
    cases hm : l.mapM (normDim n0) with
    | none => simp [hm] at h
    | some sel =>
      simp only [hm] at h
      cases h
      intro p hp
      exact Or.inl (pick_mem _ _ _ hp)
  | mask m =>
    simp only [indexFirst] at h
    split at h
    · cases h
    · cases h
      intro p hp
      exact Or.inl (pick_mem _ _ _ hp)
  | ell => simp [indexFirst] at h

theorem provLe_rawIndex (t : Raw) (idx : List Ix) (r : Raw) (h : rawIndex t idx = some r) : ProvLe r t := by
  unfold rawIndex at h
  split at h
  · split at h
    · cases h
    · exact provLe_indexFirst _ _ _ _ _ h
  · cases h

theorem provLeRes_getitem (idx : Index) (cur : Raw) (o : Option Raw) :
    ProvLeRes (torchSem (.getitem idx) cur o) cur := by
  cases idx with
  | single i =>
    rw [torchSem_getitem_single]
    cases h : rawIndex cur [i] with
    | none => trivial
    | some r => exact provLe_rawIndex cur _ r h
  | tuple l =>
    rw [torchSem_getitem_tuple]
    cases h : rawIndex cur l with
    | none => trivial
    | some r => exact provLe_rawIndex cur _ r h

theorem provLeRes_iter (cur : Raw) (o : Option Raw) : ProvLeRes (torchSem .iter cur o) cur := by
  rw [torchSem_iter]
  split
  · trivial
  · simp only [ProvLeRes]
    intro r hr
    rw [List.mem_map] at hr
    obtain ⟨k, _, rfl⟩ := hr
    exact provLe_selectRaw cur 0 k

theorem provLeRes_split (size : Nat) (dim : DimArg) (cur : Raw) (o : Option Raw) :
    ProvLeRes (torchSem (.split size dim) cur o) cur := by
  rw [torchSem_split]
  cases normDim cur.ndim dim.val with
  | none => trivial
  | some d =>
    simp only []
    split
    · trivial
    · split
      · simp only [ProvLeRes]
        intro r hr
        simp at hr
        subst hr
        exact provLe_refl cur
      · simp only [ProvLeRes]
        intro r hr
        rw [List.mem_map] at hr
        obtain ⟨k, _, rfl⟩ := hr
        exact provLe_piece cur d _ _

theorem provLeRes_tsplitL (idx : List Nat) (dim : DimArg) (cur : Raw) (o : Option Raw) :
    ProvLeRes (torchSem (.tsplitL idx dim) cur o) cur := by
  rw [torchSem_tsplitL]
  cases normDim cur.ndim dim.val with
  | none => trivial
  | some d =>
    simp only [ProvLeRes]
    intro r hr
    rw [List.mem_map] at hr
    obtain ⟨se, _, rfl⟩ := hr
    exact provLe_piece cur d _ _

end Deepali.Dispatch
