/-
  Proofs/DispatchSplit.lean — C19: `split(int)` and `tensor_split(indices)` along the batch dimension keep
  image batches aligned (each piece gets the grids of its own items); for flow-field batches the call raises.
-/
import Deepali.Proofs.DispatchCat

set_option linter.unusedSectionVars false

namespace Deepali.Dispatch

theorem mem_zip_map_map {α β γ : Type} (l : List γ) (f : γ → α) (g : γ → β) (x : α × β)
    (h : x ∈ (l.map f).zip (l.map g)) : ∃ k ∈ l, x = (f k, g k) := by
  induction l with
  | nil => simp at h
  | cons a as ih =>
    simp only [List.map_cons, List.zip_cons_cons, List.mem_cons] at h
    rcases h with h | h
    · exact ⟨a, by simp, h⟩
    · obtain ⟨k, hk, hx⟩ := ih h
      exact ⟨k, by simp [hk], hx⟩

theorem take_min_length {α : Type} (l : List α) (m : Nat) : l.take (min m l.length) = l.take m := by
  rcases Nat.le_total m l.length with h | h
  · rw [Nat.min_eq_left h]
  · rw [Nat.min_eq_right h, List.take_length, List.take_of_length_le h]

theorem piece_prov_aligned (t : Raw) (gs : List GridTag) (hprov : t.prov = gs.map itemOf) (start len : Nat) :
    (piece t 0 start len).prov = (pySlice gs start len).map itemOf := by
  simp only [piece, pySlice, if_true, hprov, List.map_take, List.map_drop]

theorem piece_prov_subset (t : Raw) (d start len : Nat) : ∀ p ∈ (piece t d start len).prov, p ∈ t.prov := by
  intro p hp
  unfold piece at hp
  simp only [] at hp
  split at hp
  · exact List.mem_of_mem_drop (List.mem_of_mem_take hp)
  · exact hp

theorem alignedV_ffResult_nil (a0 : Nat) (data : Raw) (a : Nat) (h2 : data.prov = []) (ha : a = a0) :
    AlignedV a0 (ffResult data (some []) (some a)) := by
  unfold ffResult
  simp only []
  split
  · rename_i hc
    exact alignedV_ofExcept_mkFlowFields a0 data [] a (by rw [hc.2]; rfl) (by simp [h2]) ha
  · exact alignedV_ibResult a0 data [] (by simp [h2])

/-- split family on a FlowFields batch: every piece is handed the whole nested grid list -/
theorem alignedV_batchTF_flow_split (a0 : Nat) (op : TOp) (t : Raw) (gs : List GridTag) (a : Nat)
    (other : Option SVal)
    (hsf : isSplitFamily op = true)
    (hargs : callArgs op (.batch true t gs a) other = some [.batch true t gs a])
    (hal : AlignedS a0 (.batch true t gs a))
    (hgrid : torchFunctionGrid op [gs] = none ∨ ∃ l, torchFunctionGrid op [gs] = some (.nested l) ∧
      (l = [] → (∃ ds, torchSem op t (other.map SVal.raw) = .ts ds) → gs = []))
    (hsub : ∀ ds, torchSem op t (other.map SVal.raw) = .ts ds → ∀ d ∈ ds, ∀ p ∈ d.prov, p ∈ t.prov) :
    AlignedV a0 (batchTorchFunction op (.batch true t gs a) other) := by
  obtain ⟨_, _, hprov, hax⟩ := hal
  unfold batchTorchFunction
  cases hsem : torchSem op (SVal.batch true t gs a).raw (other.map SVal.raw) with
  | err => exact alignedV_err a0 _
  | t d =>
    simp only [hargs, List.any_cons, List.any_nil, SVal.isFlow, Bool.or_false, if_true, hsf]
    apply alignedV_ite _ _ _ _ (alignedV_err a0 _)
    simp only [torchFunctionAxes, List.filterMap_cons, List.filterMap_nil, axes?, List.any_nil, Bool.false_eq_true,
      if_false]
    exact alignedV_err a0 _
  | ts ds =>
    have hsub' := hsub ds hsem
    simp only [hargs, List.any_cons, List.any_nil, SVal.isFlow, Bool.or_false, if_true, hsf]
    apply alignedV_ite _ _ _ _ (alignedV_err a0 _)
    simp only [torchFunctionAxes, List.filterMap_cons, List.filterMap_nil, axes?, List.any_nil, Bool.false_eq_true,
      if_false, batchGrids?]
    apply alignedV_collect
    intro v hv
    rw [List.mem_map] at hv
    obtain ⟨d, hd, rfl⟩ := hv
    rcases hgrid with hg | ⟨l, hg, hl⟩
    · rw [hg]
      simp only [ffResult]
      exact alignedV_ibResult_none a0 d
    · rw [hg]
      cases l with
      | nil =>
        simp only []
        have hgs : gs = [] := hl rfl ⟨ds, hsem⟩
        have htp : t.prov = [] := by rw [hprov, hgs]; rfl
        have hdp : d.prov = [] := by
          cases hdp : d.prov with
          | nil => rfl
          | cons p ps =>
            have := hsub' d hd p (by rw [hdp]; simp)
            rw [htp] at this
            simp at this
        exact alignedV_ffResult_nil a0 d a hdp (hax rfl)
      | cons x xs => exact alignedV_err a0 _

theorem callArgs_single (op : TOp) (cur : SVal) (other : Option SVal)
    (h : ∀ ops d, op ≠ .cat ops d ∧ op ≠ .stack ops d) : callArgs op cur other = some [cur] := by
  cases op <;> first | rfl | (exfalso; first | exact (h _ _).1 rfl | exact (h _ _).2 rfl)

theorem kwDimIsZero_split (size : Nat) (d : DimArg) (h : dim0 d = true) : kwDimIsZero (.split size d) = true := by
  simp only [kwDimIsZero, dim0_val d h]
  rfl

theorem kwDimIsZero_tsplitL (idx : List Nat) (d : DimArg) (h : dim0 d = true) : kwDimIsZero (.tsplitL idx d) = true := by
  cases d with
  | dflt => rfl
  | pos v => rfl
  | kw v => simpa [kwDimIsZero, dim0] using h

/-- `split(size)` along dim 0 -/
theorem alignedV_batchTF_split (a0 : Nat) (size : Nat) (d : DimArg) (f : Bool) (t : Raw) (gs : List GridTag)
    (a : Nat) (other : Option SVal) (hd : dim0 d = true) (hal : AlignedS a0 (.batch f t gs a)) :
    AlignedV a0 (batchTorchFunction (.split size d) (.batch f t gs a) other) := by
  have hargs : callArgs (.split size d) (.batch f t gs a) other = some [.batch f t gs a] := rfl
  cases size with
  | zero =>
    unfold batchTorchFunction
    cases hsem : torchSem (.split 0 d) (SVal.batch f t gs a).raw (other.map SVal.raw) with
    | err => exact alignedV_err a0 _
    | t r => simp only [hargs, rangeStepZero, kwDimIsZero_split 0 d hd, Bool.and_self, if_true]; exact alignedV_err a0 _
    | ts r => simp only [hargs, rangeStepZero, kwDimIsZero_split 0 d hd, Bool.and_self, if_true]; exact alignedV_err a0 _
  | succ m =>
    have hgridEq : torchFunctionGrid (.split (m + 1) d) [gs] =
        some (.nested ((List.range ((gs.length + (m + 1) - 1) / (m + 1))).map (fun k => pySlice gs (k * (m + 1)) (m + 1)))) := by
      simp only [torchFunctionGrid, kwDimIsZero_split (m + 1) d hd, if_true]
      simp
    cases f with
    | true =>
      apply alignedV_batchTF_flow_split a0 _ t gs a other rfl hargs hal
      · right
        refine ⟨_, hgridEq, ?_⟩
        intro hnil _
        have hlen : (gs.length + (m + 1) - 1) / (m + 1) = 0 := by
          have := congrArg List.length hnil
          simpa using this
        have : gs.length + (m + 1) - 1 < m + 1 := by
          rcases Nat.lt_or_ge (gs.length + (m + 1) - 1) (m + 1) with h | h
          · exact h
          · have := Nat.div_pos h (Nat.succ_pos m)
            omega
        have h0 : gs.length = 0 := by omega
        exact List.length_eq_zero_iff.mp h0
      · intro ds hds d' hd' p hp
        rw [torchSem_split] at hds
        split at hds
        · cases hds
        · simp only [] at hds
          split at hds
          · cases hds
          · split at hds
            · cases hds
              simp at hd'
              subst hd'
              exact hp
            · cases hds
              rw [List.mem_map] at hd'
              obtain ⟨k, _, rfl⟩ := hd'
              exact piece_prov_subset t _ _ _ p hp
    | false =>
      obtain ⟨hcount, _, hprov, _⟩ := hal
      unfold batchTorchFunction
      cases hsem : torchSem (.split (m + 1) d) (SVal.batch false t gs a).raw (other.map SVal.raw) with
      | err => exact alignedV_err a0 _
      | t r =>
        simp only [hargs, rangeStepZero, Bool.false_and, Bool.false_eq_true, if_false, List.any_cons, List.any_nil,
          SVal.isFlow, Bool.or_false, isSplitFamily, if_true]
        exact alignedV_err a0 _
      | ts ds =>
        simp only [hargs, rangeStepZero, Bool.false_and, Bool.false_eq_true, if_false, List.any_cons, List.any_nil,
          SVal.isFlow, Bool.or_false, isSplitFamily, if_true, List.filterMap_cons, List.filterMap_nil, batchGrids?,
          hgridEq]
        apply alignedV_ite _ _ _ _ (alignedV_err a0 _)
        apply alignedV_ite _ _ _ _ (alignedV_err a0 _)
        apply alignedV_collect
        intro v hv
        rw [List.mem_map] at hv
        obtain ⟨⟨d', g'⟩, hdg, rfl⟩ := hv
        simp only []
        apply alignedV_ibResult
        -- which pieces
        have hsem' : torchSem (.split (m + 1) d) t (other.map SVal.raw) = .ts ds := hsem
        rw [torchSem_split, dim0_val d hd] at hsem'
        cases hn : normDim t.ndim 0 with
        | none => simp [hn] at hsem'
        | some k =>
          have hk : k = 0 := normDim_zero hn
          subst hk
          simp only [hn] at hsem'
          have hn0 : t.shape.getD 0 0 = gs.length := by
            rw [hcount]; cases t.shape <;> rfl
          rw [hn0] at hsem'
          split at hsem'
          · cases hsem'
          · split at hsem'
            · rename_i hz
              have hz' : gs.length = 0 := by omega
              cases hsem'
              have hdiv : m / (m + 1) = 0 := Nat.div_eq_of_lt (Nat.lt_succ_self m)
              rw [hz'] at hdg
              simp [hdiv] at hdg
            · cases hsem'
              obtain ⟨k, _, hkk⟩ := mem_zip_map_map _ _ _ _ hdg
              cases hkk
              rw [piece_prov_aligned t gs hprov]
              congr 1
              unfold pySlice
              have hl : (gs.drop (k * (m + 1))).length = gs.length - k * (m + 1) := List.length_drop
              rw [← hl, take_min_length]

theorem zip_bounds_ne_nil (idx : List Nat) (len : Nat) : (0 :: idx).zip (idx ++ [len]) ≠ [] := by
  cases idx <;> simp

/-- `tensor_split(indices)` along dim 0 -/
theorem alignedV_batchTF_tsplitL (a0 : Nat) (idx : List Nat) (d : DimArg) (f : Bool) (t : Raw)
    (gs : List GridTag) (a : Nat) (other : Option SVal) (hd : dim0 d = true)
    (hal : AlignedS a0 (.batch f t gs a)) :
    AlignedV a0 (batchTorchFunction (.tsplitL idx d) (.batch f t gs a) other) := by
  have hargs : callArgs (.tsplitL idx d) (.batch f t gs a) other = some [.batch f t gs a] := rfl
  have hgridEq : torchFunctionGrid (.tsplitL idx d) [gs] =
      some (.nested (((0 :: idx).zip (idx ++ [gs.length])).map (fun (se : Nat × Nat) =>
        pySlice gs (min se.1 gs.length) (min se.2 gs.length - min se.1 gs.length)))) := by
    simp only [torchFunctionGrid, kwDimIsZero_tsplitL idx d hd, if_true]
  cases f with
  | true =>
    apply alignedV_batchTF_flow_split a0 _ t gs a other rfl hargs hal
    · right
      refine ⟨_, hgridEq, ?_⟩
      intro hnil _
      exact absurd (List.map_eq_nil_iff.mp hnil) (zip_bounds_ne_nil idx gs.length)
    · intro ds hds d' hd' p hp
      rw [torchSem_tsplitL] at hds
      split at hds
      · cases hds
      · cases hds
        rw [List.mem_map] at hd'
        obtain ⟨se, _, rfl⟩ := hd'
        exact piece_prov_subset t _ _ _ p hp
  | false =>
    obtain ⟨hcount, _, hprov, _⟩ := hal
    unfold batchTorchFunction
    cases hsem : torchSem (.tsplitL idx d) (SVal.batch false t gs a).raw (other.map SVal.raw) with
    | err => exact alignedV_err a0 _
    | t r =>
      simp only [hargs, rangeStepZero, Bool.false_and, Bool.false_eq_true, if_false, List.any_cons, List.any_nil,
        SVal.isFlow, Bool.or_false, isSplitFamily, if_true]
      exact alignedV_err a0 _
    | ts ds =>
      simp only [hargs, rangeStepZero, Bool.false_and, Bool.false_eq_true, if_false, List.any_cons, List.any_nil,
        SVal.isFlow, Bool.or_false, isSplitFamily, if_true, List.filterMap_cons, List.filterMap_nil, batchGrids?,
        hgridEq]
      apply alignedV_ite _ _ _ _ (alignedV_err a0 _)
      apply alignedV_ite _ _ _ _ (alignedV_err a0 _)
      apply alignedV_collect
      intro v hv
      rw [List.mem_map] at hv
      obtain ⟨⟨d', g'⟩, hdg, rfl⟩ := hv
      simp only []
      apply alignedV_ibResult
      have hsem' : torchSem (.tsplitL idx d) t (other.map SVal.raw) = .ts ds := hsem
      rw [torchSem_tsplitL, dim0_val d hd] at hsem'
      cases hn : normDim t.ndim 0 with
      | none => simp [hn] at hsem'
      | some k =>
        have hk : k = 0 := normDim_zero hn
        subst hk
        simp only [hn] at hsem'
        have hn0 : t.shape.getD 0 0 = gs.length := by
          rw [hcount]; cases t.shape <;> rfl
        rw [hn0] at hsem'
        cases hsem'
        have hZ : ((0 :: idx).map (fun s => min s gs.length)).zip ((idx ++ [gs.length]).map (fun s => min s gs.length)) =
            ((0 :: idx).zip (idx ++ [gs.length])).map (Prod.map (fun s => min s gs.length) (fun s => min s gs.length)) := by
          rw [List.zip_map]
        rw [hZ, List.map_map] at hdg
        obtain ⟨se, _, hkk⟩ := mem_zip_map_map _ _ _ _ hdg
        cases hkk
        simp only [Function.comp, Prod.map]
        exact piece_prov_aligned t gs hprov _ _

/-! ### split(sections) / split_with_sizes along dim 0 (repaired in /repo: `start += num`) -/

theorem torchSem_splitL (secs : List Nat) (dim : DimArg) (cur : Raw) (o : Option Raw) :
    torchSem (.splitL secs dim) cur o =
      match normDim cur.ndim dim.val with
      | none => .err
      | some d => if secs.foldr (· + ·) 0 ≠ cur.shape.getD d 0 then .err else .ts (pieces cur d secs) := rfl

theorem torchSem_splitWS (secs : List Nat) (dim : DimArg) (cur : Raw) (o : Option Raw) :
    torchSem (.splitWS secs dim) cur o =
      match normDim cur.ndim dim.val with
      | none => .err
      | some d => if secs.foldr (· + ·) 0 ≠ cur.shape.getD d 0 then .err else .ts (pieces cur d secs) := rfl

theorem provLeRes_pieces (cur : Raw) (d : Nat) (secs : List Nat) : ∀ r ∈ pieces cur d secs, ∀ p ∈ r.prov, p ∈ cur.prov := by
  intro r hr p hp
  unfold pieces at hr
  rw [List.mem_map] at hr
  obtain ⟨la, _, rfl⟩ := hr
  exact piece_prov_subset cur _ _ _ p hp

theorem kwDimIsZero_splitL (secs : List Nat) (d : DimArg) (h : dim0 d = true) : kwDimIsZero (.splitL secs d) = true := by
  simp only [kwDimIsZero, dim0_val d h]
  rfl

theorem kwDimIsZero_splitWS (secs : List Nat) (d : DimArg) (h : dim0 d = true) : kwDimIsZero (.splitWS secs d) = true := by
  cases d with
  | dflt => rfl
  | pos v => rfl
  | kw v => simpa [kwDimIsZero, dim0] using h

/-- common part of `split([sections])` and `split_with_sizes` along dim 0 -/
theorem alignedV_batchTF_sections (a0 : Nat) (op : TOp) (secs : List Nat) (f : Bool) (t : Raw)
    (gs : List GridTag) (a : Nat) (other : Option SVal)
    (hargs : callArgs op (.batch f t gs a) other = some [.batch f t gs a])
    (hsf : isSplitFamily op = true) (hzero : rangeStepZero op = false)
    (hgridEq : torchFunctionGrid op [gs] =
      some (.nested ((secs.zip (offsets secs 0)).map (fun (na : Nat × Nat) => pySlice gs na.2 na.1))))
    (hsemEq : torchSem op t (other.map SVal.raw) =
      match normDim t.ndim 0 with
      | none => .err
      | some d => if secs.foldr (· + ·) 0 ≠ t.shape.getD d 0 then .err else .ts (pieces t d secs))
    (hal : AlignedS a0 (.batch f t gs a)) :
    AlignedV a0 (batchTorchFunction op (.batch f t gs a) other) := by
  cases f with
  | true =>
    apply alignedV_batchTF_flow_split a0 _ t gs a other hsf hargs hal
    · right
      refine ⟨_, hgridEq, ?_⟩
      intro hnil hts
      obtain ⟨ds, hds⟩ := hts
      rw [hsemEq] at hds
      have hsecs : secs = [] := by
        cases secs with
        | nil => rfl
        | cons x xs => simp [offsets] at hnil
      subst hsecs
      cases hn : normDim t.ndim 0 with
      | none => simp [hn] at hds
      | some k =>
        have hk : k = 0 := normDim_zero hn
        subst hk
        simp only [hn] at hds
        split at hds
        · cases hds
        · rename_i hsum
          have h0 : t.shape.getD 0 0 = 0 := (Decidable.not_not.mp hsum).symm
          have hcount := hal.1
          have : gs.length = 0 := by
            rw [hcount]
            cases hsh : t.shape with
            | nil => rfl
            | cons x xs => rw [hsh] at h0; simpa using h0
          exact List.length_eq_zero_iff.mp this
    · intro ds hds d' hd' p hp
      rw [hsemEq] at hds
      split at hds
      · cases hds
      · split at hds
        · cases hds
        · cases hds
          exact provLeRes_pieces t _ secs d' hd' p hp
  | false =>
    obtain ⟨hcount, _, hprov, _⟩ := hal
    unfold batchTorchFunction
    cases hsem : torchSem op (SVal.batch false t gs a).raw (other.map SVal.raw) with
    | err => exact alignedV_err a0 _
    | t r =>
      simp only [hargs, hzero, Bool.false_and, Bool.false_eq_true, if_false, List.any_cons, List.any_nil,
        SVal.isFlow, Bool.or_false, hsf, if_true]
      exact alignedV_err a0 _
    | ts ds =>
      simp only [hargs, hzero, Bool.false_and, Bool.false_eq_true, if_false, List.any_cons, List.any_nil,
        SVal.isFlow, Bool.or_false, hsf, if_true, List.filterMap_cons, List.filterMap_nil, batchGrids?, hgridEq]
      apply alignedV_ite _ _ _ _ (alignedV_err a0 _)
      apply alignedV_ite _ _ _ _ (alignedV_err a0 _)
      apply alignedV_collect
      intro v hv
      rw [List.mem_map] at hv
      obtain ⟨⟨d', g'⟩, hdg, rfl⟩ := hv
      simp only []
      apply alignedV_ibResult
      have hsem' : torchSem op t (other.map SVal.raw) = .ts ds := hsem
      rw [hsemEq] at hsem'
      cases hn : normDim t.ndim 0 with
      | none => simp [hn] at hsem'
      | some k =>
        have hk : k = 0 := normDim_zero hn
        subst hk
        simp only [hn] at hsem'
        split at hsem'
        · cases hsem'
        · cases hsem'
          unfold pieces at hdg
          obtain ⟨la, _, hkk⟩ := mem_zip_map_map _ _ _ _ hdg
          cases hkk
          exact piece_prov_aligned t gs hprov _ _

theorem alignedV_batchTF_splitL (a0 : Nat) (secs : List Nat) (d : DimArg) (f : Bool) (t : Raw) (gs : List GridTag)
    (a : Nat) (other : Option SVal) (hd : dim0 d = true) (hal : AlignedS a0 (.batch f t gs a)) :
    AlignedV a0 (batchTorchFunction (.splitL secs d) (.batch f t gs a) other) := by
  apply alignedV_batchTF_sections a0 _ secs f t gs a other rfl rfl rfl _ _ hal
  · simp only [torchFunctionGrid, kwDimIsZero_splitL secs d hd, if_true]
  · rw [torchSem_splitL, dim0_val d hd]

theorem alignedV_batchTF_splitWS (a0 : Nat) (secs : List Nat) (d : DimArg) (f : Bool) (t : Raw) (gs : List GridTag)
    (a : Nat) (other : Option SVal) (hd : dim0 d = true) (hal : AlignedS a0 (.batch f t gs a)) :
    AlignedV a0 (batchTorchFunction (.splitWS secs d) (.batch f t gs a) other) := by
  apply alignedV_batchTF_sections a0 _ secs f t gs a other rfl rfl rfl _ _ hal
  · simp only [torchFunctionGrid, kwDimIsZero_splitWS secs d hd, if_true]
  · rw [torchSem_splitWS, dim0_val d hd]

end Deepali.Dispatch
