/-
  Proofs/DispatchStable.lean — C19: operations that act on non-batch dimensions only (narrow / select /
  index_select with a positive dim literal, interpolate, pooling) leave the dim-0 provenance untouched, and
  chunk / unbind return tuples of plain tensors.
-/
import Deepali.Proofs.DispatchSplit

set_option linter.unusedSectionVars false

namespace Deepali.Dispatch

/-- the operation returns one tensor whose dim-0 entries are those of its argument -/
def Stable (res : RawRes) (t : Raw) : Prop :=
  match res with
  | .t r => r.prov = t.prov ∧ r.shape.headD 0 = t.shape.headD 0
  | .ts _ => False
  | .err => True

/-- the operation returns a tuple (never a single tensor) -/
def TupleOnly (res : RawRes) : Prop :=
  match res with
  | .t _ => False
  | _ => True

theorem stable_ite_err (c : Prop) [Decidable c] (x : RawRes) (t : Raw) (h : Stable x t) :
    Stable (if c then .err else x) t := by
  split
  · trivial
  · exact h

theorem headD_setAt (l : List Nat) (d v : Nat) (hd : 1 ≤ d) (hl : d < l.length) :
    (setAt l d v).headD 0 = l.headD 0 := by
  cases l with
  | nil => simp at hl
  | cons x xs =>
    cases d with
    | zero => omega
    | succ d' => simp [setAt]

theorem headD_removeAt (l : List Nat) (d : Nat) (hd : 1 ≤ d) (hl : d < l.length) :
    (removeAt l d).headD 0 = l.headD 0 := by
  cases l with
  | nil => simp at hl
  | cons x xs =>
    cases d with
    | zero => omega
    | succ d' => simp [removeAt]

theorem torchSem_narrowF (dim start len : Int) (cur : Raw) (o : Option Raw) :
    torchSem (.narrowF dim start len) cur o =
      match normDim cur.ndim dim with
      | none => .err
      | some d =>
        let n := cur.shape.getD d 0
        let s := if start < 0 then start + (n : Int) else start
        if s < 0 ∨ len < 0 ∨ s + len > (n : Int) then .err else
        .t ⟨setAt cur.shape d len.toNat, if d = 0 then (cur.prov.drop s.toNat).take len.toNat else cur.prov⟩ := rfl

theorem torchSem_select (dim idx : Int) (cur : Raw) (o : Option Raw) :
    torchSem (.select dim idx) cur o =
      match normDim cur.ndim dim with
      | none => .err
      | some d =>
        match normDim (cur.shape.getD d 0) idx with
        | none => .err
        | some k => .t (selectRaw cur d k) := rfl

theorem torchSem_indexSelect (dim : Int) (idx : List Int) (cur : Raw) (o : Option Raw) :
    torchSem (.indexSelect dim idx) cur o =
      match normDim cur.ndim dim with
      | none => .err
      | some d =>
        let n := cur.shape.getD d 0
        if idx.any (fun i => i < 0 ∨ i ≥ (n : Int)) then .err else
        let sel := idx.map Int.toNat
        .t ⟨setAt cur.shape d sel.length, if d = 0 then pick cur.prov sel else cur.prov⟩ := rfl

theorem torchSem_interp (size : List Nat) (cur : Raw) (o : Option Raw) :
    torchSem (.interp size) cur o =
      if cur.ndim < 3 ∨ size.length ≠ cur.ndim - 2 ∨ size.any (· = 0) ∨ (cur.shape.drop 1).any (· = 0) then .err else
      .t ⟨cur.shape.take 2 ++ size, cur.prov⟩ := rfl

theorem torchSem_pool (sd k s : Nat) (cur : Raw) (o : Option Raw) :
    torchSem (.pool sd k s) cur o =
      if (cur.ndim ≠ sd + 2 ∧ cur.ndim ≠ sd + 1) ∨ sd = 0 ∨ k = 0 ∨ s = 0 then .err else
      let lead := cur.shape.take (cur.ndim - sd)
      let sp := cur.shape.drop (cur.ndim - sd)
      if sp.any (· < k) ∨ (if cur.ndim = sd + 2 then lead.drop 1 else lead).any (· = 0) then .err else
      .t ⟨lead ++ sp.map (fun n => (n - k) / s + 1), cur.prov⟩ := rfl

theorem stable_narrowF (dim start len : Int) (hd : 1 ≤ dim) (cur : Raw) (o : Option Raw) :
    Stable (torchSem (.narrowF dim start len) cur o) cur := by
  rw [torchSem_narrowF]
  cases hn : normDim cur.ndim dim with
  | none => trivial
  | some d =>
    have hd0 : d ≠ 0 := normDim_pos hn hd
    have hlt : d < cur.shape.length := normDim_lt hn
    simp only []
    apply stable_ite_err
    exact ⟨by simp [hd0], headD_setAt _ _ _ (by omega) hlt⟩

theorem stable_indexSelect (dim : Int) (idx : List Int) (hd : 1 ≤ dim) (cur : Raw) (o : Option Raw) :
    Stable (torchSem (.indexSelect dim idx) cur o) cur := by
  rw [torchSem_indexSelect]
  cases hn : normDim cur.ndim dim with
  | none => trivial
  | some d =>
    have hd0 : d ≠ 0 := normDim_pos hn hd
    have hlt : d < cur.shape.length := normDim_lt hn
    simp only []
    apply stable_ite_err
    exact ⟨by simp [hd0], headD_setAt _ _ _ (by omega) hlt⟩

theorem stable_select (dim idx : Int) (hd : 1 ≤ dim) (cur : Raw) (o : Option Raw) :
    Stable (torchSem (.select dim idx) cur o) cur := by
  rw [torchSem_select]
  cases hn : normDim cur.ndim dim with
  | none => trivial
  | some d =>
    have hd0 : d ≠ 0 := normDim_pos hn hd
    have hlt : d < cur.shape.length := normDim_lt hn
    simp only []
    cases normDim (cur.shape.getD d 0) idx with
    | none => trivial
    | some k =>
      simp only [Stable, selectRaw, hd0, if_false]
      exact ⟨trivial, headD_removeAt _ _ (by omega) hlt⟩

theorem stable_interp (size : List Nat) (cur : Raw) (o : Option Raw) :
    Stable (torchSem (.interp size) cur o) cur := by
  rw [torchSem_interp]
  split
  · trivial
  · rename_i hc
    refine ⟨rfl, ?_⟩
    have h3 : ¬ cur.ndim < 3 := fun h => hc (Or.inl h)
    unfold Raw.ndim at h3
    cases hs : cur.shape with
    | nil => simp [hs] at h3
    | cons x xs => simp

theorem stable_pool (sd k s : Nat) (cur : Raw) (o : Option Raw) :
    Stable (torchSem (.pool sd k s) cur o) cur := by
  rw [torchSem_pool]
  split
  · trivial
  · rename_i hc
    simp only []
    apply stable_ite_err
    · refine ⟨rfl, ?_⟩
      have hnd : cur.ndim = sd + 2 ∨ cur.ndim = sd + 1 := by
        by_cases h1 : cur.ndim = sd + 2
        · exact Or.inl h1
        · by_cases h2 : cur.ndim = sd + 1
          · exact Or.inr h2
          · exact absurd (Or.inl ⟨h1, h2⟩) hc
      have hpos : 1 ≤ cur.ndim - sd := by omega
      unfold Raw.ndim at hpos ⊢
      cases hs : cur.shape with
      | nil => simp [hs] at hpos
      | cons x xs =>
        rw [hs] at hpos
        obtain ⟨m, hm⟩ : ∃ m, (x :: xs).length - sd = m + 1 := ⟨(x :: xs).length - sd - 1, by omega⟩
        rw [hm]
        simp

theorem torchSem_reduce (dims : List Int) (keepdim : Bool) (cur : Raw) (o : Option Raw) :
    torchSem (.reduce false dims keepdim) cur o =
      match normDims cur.ndim dims with
      | none => .err
      | some ds =>
        let idxShape := (List.range cur.ndim).zip cur.shape
        let sh := if keepdim then idxShape.map (fun (p : Nat × Nat) => if ds.contains p.1 then 1 else p.2)
                  else (idxShape.filter (fun (p : Nat × Nat) => !ds.contains p.1)).map (·.2)
        if ds.contains 0 then .t ⟨sh, repl0 sh (joinAll cur.prov)⟩ else .t ⟨sh, cur.prov⟩ := rfl

theorem stable_reduce (dims : List Int) (keepdim : Bool) (hd : ∀ d ∈ dims, 1 ≤ d) (cur : Raw) (o : Option Raw) :
    Stable (torchSem (.reduce false dims keepdim) cur o) cur := by
  rw [torchSem_reduce]
  cases hn : normDims cur.ndim dims with
  | none => trivial
  | some ds =>
    have h0 : ds.contains 0 = false := normDims_pos cur.ndim dims ds hn hd
    simp only [h0, Bool.false_eq_true, if_false]
    refine ⟨rfl, ?_⟩
    unfold Raw.ndim
    cases hs : cur.shape with
    | nil => cases keepdim <;> simp
    | cons x xs =>
      have h0' : ¬ 0 ∈ ds := by
        intro hm
        have := List.contains_iff_mem.mpr hm
        rw [h0] at this
        cases this
      cases keepdim with
      | true => simp [List.range_succ_eq_map, h0']
      | false => simp [List.range_succ_eq_map, h0']

theorem torchSem_chunk (n : Nat) (dim : DimArg) (cur : Raw) (o : Option Raw) :
    torchSem (.chunk n dim) cur o =
      match normDim cur.ndim dim.val with
      | none => .err
      | some d =>
        let len := cur.shape.getD d 0
        if n = 0 then .err else
        let size := (len + n - 1) / n
        if size = 0 then .ts (pieces cur d (List.replicate n 0)) else .ts (pieces cur d (splitLens len size)) := rfl

theorem torchSem_unbind (dim : DimArg) (cur : Raw) (o : Option Raw) :
    torchSem (.unbind dim) cur o =
      match normDim cur.ndim dim.val with
      | none => .err
      | some d => .ts ((List.range (cur.shape.getD d 0)).map (fun k => selectRaw cur d k)) := rfl

theorem tupleOnly_chunk (n : Nat) (dim : DimArg) (cur : Raw) (o : Option Raw) :
    TupleOnly (torchSem (.chunk n dim) cur o) := by
  rw [torchSem_chunk]
  cases normDim cur.ndim dim.val with
  | none => trivial
  | some d =>
    simp only []
    split
    · trivial
    · split <;> trivial

theorem tupleOnly_unbind (dim : DimArg) (cur : Raw) (o : Option Raw) :
    TupleOnly (torchSem (.unbind dim) cur o) := by
  rw [torchSem_unbind]
  cases normDim cur.ndim dim.val <;> trivial

/-! ### dispatch of stable / tuple-only operations -/

theorem alignedV_batchTF_of_stable (a0 : Nat) (op : TOp) (f : Bool) (t : Raw) (gs : List GridTag) (a : Nat)
    (other : Option SVal)
    (hst : Stable (torchSem op t (other.map SVal.raw)) t)
    (hargs : callArgs op (.batch f t gs a) other = some [.batch f t gs a])
    (hgrid : torchFunctionGrid op [gs] = some (.flat gs))
    (hsplit : isSplitFamily op = false) (hzero : rangeStepZero op = false)
    (hal : AlignedS a0 (.batch f t gs a)) :
    AlignedV a0 (batchTorchFunction op (.batch f t gs a) other) := by
  cases hsem : torchSem op t (other.map SVal.raw) with
  | err => rw [batchTF_err _ _ _ hsem]; exact alignedV_err a0 _
  | ts l => rw [hsem] at hst; exact absurd hst (by simp [Stable])
  | t r =>
    rw [hsem] at hst
    exact alignedV_batchTF_stable a0 op f t gs a other r hsem hargs hgrid hsplit hzero hal hst.1 hst.2

theorem alignedV_imageTF_of_stable (a0 : Nat) (op : TOp) (f : Bool) (t : Raw) (g : GridTag) (a : Nat)
    (other : Option SVal)
    (hst : Stable (torchSem op t (other.map SVal.raw)) t)
    (hargs : callArgs op (.image f t g a) other = some [.image f t g a])
    (hal : AlignedS a0 (.image f t g a)) :
    AlignedV a0 (imageTorchFunction op (.image f t g a) other) := by
  apply alignedV_imageTF_single a0 op f t g a other hargs hal
  cases hsem : torchSem op t (other.map SVal.raw) with
  | err => trivial
  | ts l => rw [hsem] at hst; exact absurd hst (by simp [Stable])
  | t r =>
    rw [hsem] at hst
    simp only [ProvLeRes]
    intro p hp
    rw [hst.1] at hp
    exact Or.inl hp

/-- an operation that returns a tuple and is not in the split family: members are returned as plain tensors -/
theorem alignedV_batchTF_of_tupleOnly (a0 : Nat) (op : TOp) (cur : SVal) (other : Option SVal)
    (htu : TupleOnly (torchSem op cur.raw (other.map SVal.raw))) (hsplit : isSplitFamily op = false) :
    AlignedV a0 (batchTorchFunction op cur other) := by
  unfold batchTorchFunction
  cases hsem : torchSem op cur.raw (other.map SVal.raw) with
  | err => exact alignedV_err a0 _
  | t r => rw [hsem] at htu; exact absurd htu (by simp [TupleOnly])
  | ts ds =>
    simp only []
    cases callArgs op cur other with
    | none => exact alignedV_err a0 _
    | some args =>
      simp only [hsplit, Bool.false_eq_true, if_false]
      apply alignedV_ite _ _ _ _ (alignedV_err a0 _)
      apply alignedV_ite
      · cases torchFunctionAxes args with
        | error e => exact alignedV_err a0 _
        | ok axes => exact alignedV_many_plain a0 ds
      · exact alignedV_many_plain a0 ds

theorem alignedV_imageTF_of_tupleOnly (a0 : Nat) (op : TOp) (cur : SVal) (other : Option SVal)
    (htu : TupleOnly (torchSem op cur.raw (other.map SVal.raw))) (hsplit : isSplitFamily op = false) :
    AlignedV a0 (imageTorchFunction op cur other) := by
  unfold imageTorchFunction
  cases hsem : torchSem op cur.raw (other.map SVal.raw) with
  | err => exact alignedV_err a0 _
  | t r => rw [hsem] at htu; exact absurd htu (by simp [TupleOnly])
  | ts ds =>
    simp only []
    cases callArgs op cur other with
    | none => exact alignedV_err a0 _
    | some args =>
      simp only [hsplit, Bool.false_eq_true, if_false]
      apply alignedV_ite _ _ _ _ (alignedV_err a0 _)
      cases (if args.any SVal.isFlow = true then torchFunctionAxes args else Except.ok none) with
      | error e => exact alignedV_err a0 _
      | ok axes => exact alignedV_many_plain a0 ds

end Deepali.Dispatch
