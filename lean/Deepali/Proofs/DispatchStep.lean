/-
  Proofs/DispatchStep.lean — C19: one program step with an operation of the classes in `goodOp` keeps `AlignedV`.
-/
import Deepali.Proofs.DispatchReorder

set_option linter.unusedSectionVars false

namespace Deepali.Dispatch

/-! ### single images: every result comes from the one input item -/

theorem fiResult_none_axes (data : Raw) (g : Option GridTag) : fiResult data g none = imResult data g := by
  unfold fiResult
  cases g <;> rfl

/-- `torch.cat` of copies of one image (another operand is a batch: not applicable) -/
theorem alignedV_imageTF_cat (a0 : Nat) (ops : List Operand) (d : DimArg) (f : Bool) (t : Raw) (g : GridTag)
    (a : Nat) (other : Option SVal) (hd : dim0 d = true)
    (hal : AlignedS a0 (.image f t g a)) (hother : OtherOK a0 other) :
    AlignedV a0 (imageTorchFunction (.cat ops d) (.image f t g a) other) := by
  cases hsem : torchSem (.cat ops d) (SVal.image f t g a).raw (other.map SVal.raw) with
  | err => rw [imageTF_err _ _ _ hsem]; exact alignedV_err a0 _
  | ts l =>
    rw [torchSem_cat] at hsem
    repeat' (split at hsem <;> try cases hsem)
  | t data =>
    unfold imageTorchFunction
    simp only [hsem, callArgs_cat]
    cases hargs : ops.mapM (argSel (.image f t g a) other) with
    | none => exact alignedV_err a0 _
    | some args =>
      simp only []
      by_cases hb : (args.any SVal.isBatch) = true
      · rw [if_pos hb]; exact alignedV_err a0 _
      · rw [if_neg hb]
        have hall : ∀ s ∈ args, s = SVal.image f t g a := by
          intro s hs
          rcases mapM_argSel_mem ops _ other args hargs s hs with h1 | h1
          · exact h1
          · exfalso
            apply hb
            rw [List.any_eq_true]
            obtain ⟨⟨f', t', g', a', rfl⟩, _⟩ := hother s h1
            exact ⟨_, hs, rfl⟩
        -- the data
        have hsem' := hsem
        rw [torchSem_cat, resolveOps_eq, hargs] at hsem'
        simp only [Option.map_some] at hsem'
        cases args with
        | nil => simp at hsem'
        | cons s ss =>
          have hs : s = SVal.image f t g a := hall s (by simp)
          subst hs
          simp only [List.map_cons] at hsem'
          rw [dim0_val d hd] at hsem'
          cases hn : normDim (SVal.image f t g a).raw.ndim 0 with
          | none => simp [hn] at hsem'
          | some k =>
            have hk : k = 0 := normDim_zero hn
            subst hk
            simp only [hn] at hsem'
            split at hsem'
            · cases hsem'
            · simp only [if_true, RawRes.t.injEq] at hsem'
              have hle : ProvLe data t := by
                apply provLe_of_subset
                intro p hp
                rw [← hsem'] at hp
                simp only [List.mem_flatten] at hp
                obtain ⟨l, hl, hpl⟩ := hp
                simp only [List.map_cons, List.map_map, List.mem_cons, List.mem_map, Function.comp] at hl
                rcases hl with h | ⟨x, hx, h⟩
                · rw [h] at hpl; exact hpl
                · rw [← h, hall x (by simp [hx])] at hpl; exact hpl
              have hpl := provLe_single a0 hal hle
              simp only [List.filterMap_cons, imageGrid?, List.head?_cons]
              cases hfl : ((SVal.image f t g a :: ss).any SVal.isFlow) with
              | false =>
                simp only [Bool.false_eq_true, if_false, isSplitFamily]
                exact alignedV_imResult a0 data g hpl
              | true =>
                simp only [if_true]
                cases hax : torchFunctionAxes (SVal.image f t g a :: ss) with
                | error e => exact alignedV_err a0 _
                | ok axes =>
                  simp only [isSplitFamily]
                  cases axes with
                  | none => rw [fiResult_none_axes]; exact alignedV_imResult a0 data g hpl
                  | some a' =>
                    obtain ⟨x, hx, hxa⟩ := torchFunctionAxes_some _ a' hax
                    rw [hall x hx] at hxa
                    cases f with
                    | false => simp [axes?] at hxa
                    | true =>
                      simp only [axes?, Option.some.injEq] at hxa
                      subst hxa
                      exact alignedV_fiResult a0 data g a hpl (hal.2.2 rfl)

theorem callArgs_self (op : TOp) (cur : SVal) (other : Option SVal)
    (h : (match op with | .cat .. => false | .stack .. => false | _ => true) = true) :
    callArgs op cur other = some [cur] := by
  cases op <;> first | rfl | simp at h

/-! ### the step lemma -/

theorem alignedV_stepOne_image (a0 : Nat) (other : Option SVal) (op : TOp) (f : Bool) (t : Raw) (g : GridTag)
    (a : Nat) (hother : OtherOK a0 other) (hgood : goodOp op = true) (hal : AlignedS a0 (.image f t g a)) :
    AlignedV a0 (stepOne other op (.image f t g a)) := by
  have hgen : ∀ op', callArgs op' (.image f t g a) other = some [.image f t g a] →
      ProvLeRes (torchSem op' t (other.map SVal.raw)) t →
      AlignedV a0 (imageTorchFunction op' (.image f t g a) other) :=
    fun op' h1 h2 => alignedV_imageTF_single a0 op' f t g a other h1 hal h2
  cases op <;> simp only [goodOp, Bool.false_eq_true] at hgood <;> simp only [stepOne]
  case ew => exact hgen .ew rfl (by rw [torchSem_ew]; exact provLe_refl t)
  case flip dims => exact hgen _ rfl (provLeRes_flip dims t _)
  case roll sh dm =>
    exact alignedV_imageTF_single_in a0 _ f t g a other rfl hal (provInRes_roll g.src sh dm t _ hal.2.1)
  case permute pm =>
    exact alignedV_imageTF_single_in a0 _ f t g a other rfl hal (provInRes_permute g.src pm t _ hal.2.1)
  case transpose x y =>
    exact alignedV_imageTF_single_in a0 _ f t g a other rfl hal (provInRes_transpose g.src x y t _ hal.2.1)
  case getitem idx => exact hgen _ rfl (provLeRes_getitem idx t _)
  case iter => exact hgen _ rfl (provLeRes_iter t _)
  case split n dm => exact hgen _ rfl (provLeRes_split n dm t _)
  case splitL secs dm =>
    refine hgen _ rfl ?_
    rw [torchSem_splitL]
    cases normDim t.ndim dm.val with
    | none => trivial
    | some d' =>
      simp only []
      split
      · trivial
      · exact fun r hr p hp => Or.inl (provLeRes_pieces t d' secs r hr p hp)
  case splitWS secs dm =>
    refine hgen _ rfl ?_
    rw [torchSem_splitWS]
    cases normDim t.ndim dm.val with
    | none => trivial
    | some d' =>
      simp only []
      split
      · trivial
      · exact fun r hr p hp => Or.inl (provLeRes_pieces t d' secs r hr p hp)
  case narrowM dm st ln => exact alignedV_image_narrow a0 other f t g a dm st ln hal
  case tsplitL idx dm => exact hgen _ rfl (provLeRes_tsplitL idx dm t _)
  case cat ops dm => exact alignedV_imageTF_cat a0 ops dm f t g a other hgood hal hother
  case narrowF dm st ln =>
    exact alignedV_imageTF_of_stable a0 _ f t g a other (stable_narrowF dm st ln (by simpa using hgood) t _) rfl hal
  case indexSelect dm idx =>
    refine hgen _ rfl ?_
    rw [torchSem_indexSelect]
    cases normDim t.ndim dm with
    | none => trivial
    | some d' =>
      simp only []
      split
      · trivial
      · apply provLe_of_subset
        intro p hp
        simp only [] at hp
        split at hp
        · exact pick_mem _ _ _ hp
        · exact hp
  case select dm idx =>
    exact alignedV_imageTF_of_stable a0 _ f t g a other (stable_select dm idx (by simpa using hgood) t _) rfl hal
  case reduce al dims kd =>
    cases al with
    | true => simp at hgood
    | false =>
      exact alignedV_imageTF_of_stable a0 _ f t g a other
        (stable_reduce dims kd (by simpa using hgood) t _) rfl hal
  case interp sz => exact alignedV_imageTF_of_stable a0 _ f t g a other (stable_interp sz t _) rfl hal
  case pool sd k st => exact alignedV_imageTF_of_stable a0 _ f t g a other (stable_pool sd k st t _) rfl hal
  case chunk n dm => exact alignedV_imageTF_of_tupleOnly a0 _ _ other (tupleOnly_chunk n dm t _) rfl
  case unbind dm => exact alignedV_imageTF_of_tupleOnly a0 _ _ other (tupleOnly_unbind dm t _) rfl
  case copy =>
    cases f with
    | false => simp only [copyVal]; exact alignedV_ofExcept_mkImage a0 t g hal.2.1
    | true => simp only [copyVal]; exact alignedV_ofExcept_mkFlowField a0 t g a hal.2.1 (hal.2.2 rfl)
  case append => exact alignedV_err a0 _
  case deepcopy =>
    cases f with
    | false => simp only [deepcopyVal]; exact alignedV_ofExcept_mkImage a0 t g hal.2.1
    | true => simp only [deepcopyVal]; exact alignedV_ofExcept_mkFlowField a0 t g a hal.2.1 (hal.2.2 rfl)
  case pickle => simp only [pickleVal]; exact hal
  case pick j => exact alignedV_err a0 _

theorem alignedV_stepOne_batch (a0 : Nat) (other : Option SVal) (op : TOp) (f : Bool) (t : Raw)
    (gs : List GridTag) (a : Nat) (hother : OtherOK a0 other) (hgood : goodOp op = true)
    (hal : AlignedS a0 (.batch f t gs a)) : AlignedV a0 (stepOne other op (.batch f t gs a)) := by
  cases op <;> simp only [goodOp, Bool.false_eq_true] at hgood <;> simp only [stepOne]
  case ew =>
    exact alignedV_batchTF_stable a0 .ew f t gs a other t rfl rfl rfl rfl rfl hal rfl rfl
  case flip dims => exact alignedV_batchTF_flip a0 dims f t gs a other hal
  case roll sh dm => exact alignedV_batchTF_roll a0 sh dm f t gs a other hal
  case permute pm =>
    exact alignedV_batchTF_nogrid a0 _ f t gs a other rfl rfl rfl rfl (torchSem_permute_not_ts pm t _) hal
  case transpose x y =>
    exact alignedV_batchTF_nogrid a0 _ f t gs a other rfl rfl rfl rfl (torchSem_transpose_not_ts x y t _) hal
  case getitem idx => exact alignedV_batchGetitem a0 f a t gs idx (by cases idx <;> simpa [goodOp] using hgood) hal
  case iter => exact alignedV_batchIter a0 f a t gs hal
  case split n dm => exact alignedV_batchTF_split a0 n dm f t gs a other hgood hal
  case splitL secs dm => exact alignedV_batchTF_splitL a0 secs dm f t gs a other hgood hal
  case splitWS secs dm => exact alignedV_batchTF_splitWS a0 secs dm f t gs a other hgood hal
  case narrowM dm st ln =>
    exact alignedV_batchNarrow a0 f a t gs dm st ln (by simpa using hgood) hal
  case tsplitL idx dm => exact alignedV_batchTF_tsplitL a0 idx dm f t gs a other hgood hal
  case cat ops dm => exact alignedV_batchTF_cat a0 ops dm f t gs a other hgood hal hother
  case narrowF dm st ln =>
    exact alignedV_batchTF_of_stable a0 _ f t gs a other (stable_narrowF dm st ln (by simpa using hgood) t _)
      rfl rfl rfl rfl hal
  case indexSelect dm idx => exact alignedV_batchTF_indexSelect a0 dm idx f t gs a other hal
  case select dm idx =>
    exact alignedV_batchTF_of_stable a0 _ f t gs a other (stable_select dm idx (by simpa using hgood) t _)
      rfl rfl rfl rfl hal
  case reduce al dims kd =>
    cases al with
    | true => simp at hgood
    | false =>
      exact alignedV_batchTF_of_stable a0 _ f t gs a other
        (stable_reduce dims kd (by simpa using hgood) t _)
        rfl rfl rfl rfl hal
  case interp sz => exact alignedV_batchTF_of_stable a0 _ f t gs a other (stable_interp sz t _) rfl rfl rfl rfl hal
  case pool sd k st => exact alignedV_batchTF_of_stable a0 _ f t gs a other (stable_pool sd k st t _) rfl rfl rfl rfl hal
  case chunk n dm => exact alignedV_batchTF_of_tupleOnly a0 _ _ other (tupleOnly_chunk n dm t _) rfl
  case unbind dm => exact alignedV_batchTF_of_tupleOnly a0 _ _ other (tupleOnly_unbind dm t _) rfl
  case copy =>
    cases f with
    | false => simp only [copyVal]; exact alignedV_ofExcept_mkImageBatch a0 t gs hal.1 hal.2.2.1
    | true => simp only [copyVal]; exact alignedV_makeInstance a0 true a t gs hal.2.2.2 hal.1 hal.2.2.1
  case append => exact alignedV_batchAppend a0 f a t gs other hal hother
  case deepcopy =>
    simp only [deepcopyVal]
    exact alignedV_makeInstance a0 f a t gs hal.2.2.2 hal.1 hal.2.2.1
  case pickle => simp only [pickleVal]; exact hal
  case pick j => exact alignedV_err a0 _

/-- one program step with an operation of the good classes keeps alignment -/
theorem alignedV_step (a0 : Nat) (other : Option SVal) (op : TOp) (v : Val) (hother : OtherOK a0 other)
    (hgood : goodOp op = true) (hv : AlignedV a0 v) : AlignedV a0 (step other op v) := by
  cases v with
  | err e => exact alignedV_err a0 e
  | many l =>
    simp only [step]
    cases op <;> simp only [stepMany] <;> try exact alignedV_err a0 _
    case pick j =>
      cases hj : l[j]? with
      | none => exact alignedV_err a0 _
      | some s => exact hv s (List.mem_of_getElem? hj)
    all_goals simp [goodOp] at hgood
  | one s =>
    simp only [step]
    cases s with
    | plain t => exact alignedV_stepOne_plain a0 other op t
    | batch f t gs a => exact alignedV_stepOne_batch a0 other op f t gs a hother hgood hv
    | image f t g a => exact alignedV_stepOne_image a0 other op f t g a hother hgood hv

/-- programs (unbounded length) built from the good operation classes keep alignment -/
theorem alignedV_runProg (a0 : Nat) (other : Option SVal) (prog : List TOp) (v : Val) (hother : OtherOK a0 other)
    (hgood : ∀ op ∈ prog, goodOp op = true) (hv : AlignedV a0 v) : AlignedV a0 (runProg other prog v) := by
  unfold runProg
  induction prog generalizing v with
  | nil => exact hv
  | cons op ops ih =>
    simp only [List.foldl_cons]
    exact ih (step other op v) (fun o ho => hgood o (by simp [ho]))
      (alignedV_step a0 other op v hother (hgood op (by simp)) hv)

end Deepali.Dispatch
