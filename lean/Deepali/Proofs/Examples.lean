/-
  Proofs/Examples.lean — concrete instances used by the non-vacuity examples of the Props files.
-/
import Deepali.Proofs.SamplePipe
import Mathlib.Data.Rat.Floor
import Mathlib.Tactic.FinCases
import Mathlib.Tactic.NormNum

set_option linter.unusedSectionVars false

namespace Deepali
open Matrix

/-- 5×4 samples, spacing (2, 1/2), rotated by 90°, centred at (1, −3). -/
def exampleGrid : Grid 2 ℚ :=
  ⟨![5, 4], ![1, -3], ![2, 1 / 2], ![![0, -1], ![1, 0]], true⟩

/-- 3×6 samples, spacing (1/3, 4), axes flipped/permuted, centred at (0, 2), align_corners=False. -/
def exampleGrid2 : Grid 2 ℚ :=
  ⟨![3, 6], ![0, 2], ![1 / 3, 4], ![![0, 1], ![-1, 0]], false⟩

theorem exampleGrid_size : exampleGrid.sizeTensor = ![5, 4] := by
  funext i; fin_cases i <;> simp [Grid.sizeTensor, exampleGrid, HasFloor.ceil]

theorem exampleGrid2_size : exampleGrid2.sizeTensor = ![3, 6] := by
  funext i; fin_cases i <;> simp [Grid.sizeTensor, exampleGrid2, HasFloor.ceil]

theorem exampleGrid_valid : exampleGrid.Valid := by
  refine ⟨?_, ?_, ?_⟩
  · intro i; fin_cases i <;> simp [exampleGrid]
  · ext i j
    rw [Matrix.mul_apply, Fin.sum_univ_two]
    simp only [Matrix.transpose_apply, toM_apply]
    fin_cases i <;> fin_cases j <;> simp [exampleGrid]
  · intro i; rw [exampleGrid_size]; fin_cases i <;> simp

theorem exampleGrid2_valid : exampleGrid2.Valid := by
  refine ⟨?_, ?_, ?_⟩
  · intro i; fin_cases i <;> simp [exampleGrid2]
  · ext i j
    rw [Matrix.mul_apply, Fin.sum_univ_two]
    simp only [Matrix.transpose_apply, toM_apply]
    fin_cases i <;> fin_cases j <;> simp [exampleGrid2]
  · intro i; rw [exampleGrid2_size]; fin_cases i <;> simp

theorem exampleGrid_cornersOK : ∀ a, exampleGrid.CornersOK a := by
  intro a _ i; rw [exampleGrid_size]; fin_cases i <;> simp

theorem exampleGrid_hasSize : exampleGrid.HasSize ![5, 4] := by
  intro i; rw [exampleGrid_size]; fin_cases i <;> simp

theorem exampleGrid2_hasSize : exampleGrid2.HasSize ![3, 6] := by
  intro i; rw [exampleGrid2_size]; fin_cases i <;> simp

end Deepali
