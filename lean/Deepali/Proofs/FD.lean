/-
  Proofs/FD.lean — the finite-difference stencils of Model/FD.lean at points where the padding is
  not touched, and their exactness on sampled affine functions.
-/
import Deepali.Model.FlowCalc
import Deepali.Proofs.VecBridge
import Mathlib.Algebra.Field.Basic
import Mathlib.Algebra.CharZero.Defs
import Mathlib.Data.Int.Cast.Lemmas
import Mathlib.Tactic.FieldSimp
import Mathlib.Tactic.Ring
import Mathlib.Tactic.Linarith
import Mathlib.Tactic.Push
import Mathlib.Algebra.BigOperators.Group.Finset.Basic

set_option linter.unusedSectionVars false

namespace Deepali
namespace FD

variable {K : Type} [Field K]

theorem clampIdx_of_mem {n : Nat} {i : Int} (h0 : 0 ≤ i) (h1 : i < n) : clampIdx n i = i := by
  unfold clampIdx; split_ifs <;> omega

/-! ### the four schemes where the padding is not read (any dilation) -/

theorem fd_forward_eq (n dil : Nat) (h : K) (f : Int → K) (k : Int) (h0 : 0 ≤ k) (h1 : k + dil < n) :
    finiteDifferences .forward n dil h f k = (f (k + dil) - f k) / (h * (dil : K)) := by
  simp only [finiteDifferences, finiteDifference, padReplicate]
  rw [clampIdx_of_mem (by omega) (by omega), clampIdx_of_mem (by omega) (by omega)]
  have e1 : (dil : Int) + k - ((0 : Nat) : Int) = k + dil := by push_cast; ring
  have e2 : (0 : Int) + k - ((0 : Nat) : Int) = k := by push_cast; ring
  rw [e1, e2]; push_cast; simp

theorem fd_backward_eq (n dil : Nat) (h : K) (f : Int → K) (k : Int) (h0 : (dil : Int) ≤ k) (h1 : k < n) :
    finiteDifferences .backward n dil h f k = (f k - f (k - dil)) / (h * (dil : K)) := by
  simp only [finiteDifferences, finiteDifference, padReplicate]
  rw [clampIdx_of_mem (by omega) (by omega), clampIdx_of_mem (by omega) (by omega)]
  have e1 : (dil : Int) + k - (dil : Int) = k := by ring
  have e2 : (0 : Int) + k - (dil : Int) = k - dil := by ring
  rw [e1, e2]; push_cast; simp

theorem fd_central_eq (n dil : Nat) (h : K) (f : Int → K) (k : Int) (h0 : (dil : Int) ≤ k) (h1 : k + dil < n) :
    finiteDifferences .central n dil h f k = (f (k + dil) - f (k - dil)) / (h * (2 * (dil : K))) := by
  simp only [finiteDifferences, finiteDifference, padReplicate]
  rw [clampIdx_of_mem (by omega) (by omega), clampIdx_of_mem (by omega) (by omega)]
  have e1 : 2 * (dil : Int) + k - (dil : Int) = k + dil := by ring
  have e2 : (0 : Int) + k - (dil : Int) = k - dil := by ring
  rw [e1, e2]; push_cast; simp

theorem fd_fcb_lower (n dil : Nat) (h : K) (f : Int → K) (k : Int) (h1 : k < dil) :
    finiteDifferences .fcb n dil h f k = (f (k + dil) - f k) / (h * (dil : K)) := by
  simp only [finiteDifferences, finiteDifference, if_pos h1]
  have e1 : (dil : Int) + k = k + dil := by ring
  rw [e1]; push_cast; simp

theorem fd_fcb_mid (n dil : Nat) (h : K) (f : Int → K) (k : Int) (h0 : (dil : Int) ≤ k) (h1 : k + dil < n) :
    finiteDifferences .fcb n dil h f k = (f (k + dil) - f (k - dil)) / (h * (2 * (dil : K))) := by
  have a1 : ¬ k < (dil : Int) := by omega
  have a2 : k < (n : Int) - (dil : Int) := by omega
  simp only [finiteDifferences, finiteDifference, if_neg a1, if_pos a2]
  have e1 : 2 * (dil : Int) + (k - dil) = k + dil := by ring
  rw [e1]; push_cast; simp

theorem fd_fcb_upper (n dil : Nat) (h : K) (f : Int → K) (k : Int) (h0 : (dil : Int) ≤ k) (h1 : (n : Int) ≤ k + dil) :
    finiteDifferences .fcb n dil h f k = (f k - f (k - dil)) / (h * (dil : K)) := by
  have a1 : ¬ k < (dil : Int) := by omega
  have a2 : ¬ k < (n : Int) - (dil : Int) := by omega
  simp only [finiteDifferences, finiteDifference, if_neg a1, if_neg a2]
  have e1 : (n : Int) - dil + (k - (n - dil)) = k := by ring
  have e2 : (n : Int) - 2 * dil + (k - (n - dil)) = k - dil := by ring
  have e3 : (n : Int) - dil - (n - 2 * dil) = dil := by ring
  rw [e1, e2, e3]; push_cast; rfl

/-! ### sampled affine functions: `f k = m * k + c` -/

variable [CharZero K]

/-- a 1-D signal that is affine in the index with slope `m` (per index step). -/
def IsAffine1 (f : Int → K) (m : K) : Prop := ∀ k l : Int, f k - f l = m * ((k : K) - (l : K))

theorem fd_forward_affine {n dil : Nat} {h m : K} {f : Int → K} (hf : IsAffine1 f m) (hh : h ≠ 0) (hd : 0 < dil)
    {k : Int} (h0 : 0 ≤ k) (h1 : k + dil < n) : finiteDifferences .forward n dil h f k = m / h := by
  have hd' : (dil : K) ≠ 0 := by exact_mod_cast (Nat.pos_iff_ne_zero.mp hd)
  rw [fd_forward_eq n dil h f k h0 h1, hf]; push_cast; field_simp; ring

theorem fd_backward_affine {n dil : Nat} {h m : K} {f : Int → K} (hf : IsAffine1 f m) (hh : h ≠ 0) (hd : 0 < dil)
    {k : Int} (h0 : (dil : Int) ≤ k) (h1 : k < n) : finiteDifferences .backward n dil h f k = m / h := by
  have hd' : (dil : K) ≠ 0 := by exact_mod_cast (Nat.pos_iff_ne_zero.mp hd)
  rw [fd_backward_eq n dil h f k h0 h1, hf]; push_cast; field_simp; ring

theorem fd_central_affine {n dil : Nat} {h m : K} {f : Int → K} (hf : IsAffine1 f m) (hh : h ≠ 0) (hd : 0 < dil)
    {k : Int} (h0 : (dil : Int) ≤ k) (h1 : k + dil < n) : finiteDifferences .central n dil h f k = m / h := by
  have hd' : (dil : K) ≠ 0 := by exact_mod_cast (Nat.pos_iff_ne_zero.mp hd)
  rw [fd_central_eq n dil h f k h0 h1, hf]; push_cast; field_simp; ring

/-- forward_central_backward is exact on affine signals at EVERY index `0 ≤ k < n` (n ≥ 2·dil). -/
theorem fd_fcb_affine {n dil : Nat} {h m : K} {f : Int → K} (hf : IsAffine1 f m) (hh : h ≠ 0) (hd : 0 < dil)
    (hn : 2 * dil ≤ n) {k : Int} (h0 : 0 ≤ k) (h1 : k < n) : finiteDifferences .fcb n dil h f k = m / h := by
  have hd' : (dil : K) ≠ 0 := by exact_mod_cast (Nat.pos_iff_ne_zero.mp hd)
  by_cases c1 : k < (dil : Int)
  · rw [fd_fcb_lower n dil h f k c1, hf]; push_cast; field_simp; ring
  · by_cases c2 : k + dil < n
    · rw [fd_fcb_mid n dil h f k (by omega) c2, hf]; push_cast; field_simp; ring
    · rw [fd_fcb_upper n dil h f k (by omega) (by omega), hf]; push_cast; field_simp; ring

end FD
end Deepali
