/-
  Proofs/FDAffine2.lean — second derivatives (two `sdStep`s) of a sampled AFFINE field vanish at every
  grid point for the schemes that are exact on affine fields everywhere: forward_central_backward and,
  since the repair of F-17d (replicate-padded averaging), prewitt and sobel.
-/
import Deepali.Proofs.FDField

set_option linter.unusedSectionVars false

namespace Deepali
namespace FD

variable {K : Type} [Field K] [CharZero K] {D : Nat}

/-- forward_central_backward at an in-range index reads two in-range samples. -/
theorem fd_fcb_reads (n : Nat) (hn : 2 ≤ n) (h : K) (f : Int → K) (k : Int) (h0 : 0 ≤ k) (h1 : k < n) :
    ∃ p q : Int, (0 ≤ p ∧ p < n) ∧ (0 ≤ q ∧ q < n) ∧ ∃ c : K, finiteDifferences .fcb n 1 h f k = (f p - f q) / c := by
  by_cases c1 : k < ((1 : Nat) : Int)
  · exact ⟨k + ((1 : Nat) : Int), k, ⟨by push_cast; omega, by push_cast; omega⟩, ⟨h0, h1⟩, _, fd_fcb_lower n 1 h f k c1⟩
  · by_cases c2 : k + ((1 : Nat) : Int) < n
    · exact ⟨k + ((1 : Nat) : Int), k - ((1 : Nat) : Int), ⟨by push_cast; omega, c2⟩,
        ⟨by push_cast at c1 ⊢; omega, by push_cast; omega⟩, _, fd_fcb_mid n 1 h f k (by omega) c2⟩
    · exact ⟨k, k - ((1 : Nat) : Int), ⟨h0, h1⟩, ⟨by push_cast at c1 ⊢; omega, by push_cast; omega⟩, _,
        fd_fcb_upper n 1 h f k (by omega) (by omega)⟩

/-- replicate-padded normalised averaging keeps a field that is constant on the slab
    `0 ≤ j a < sz a` constant on that slab (the padded samples are copies of slab samples). -/
theorem avgPerp_const_slab (sz : Fin D → Nat) (w : K × K × K) (hsum : w.1 + w.2.1 + w.2.2 = 1) (a b : Fin D) (c0 : K) :
    ∀ (l : List (Fin D)) (R : Arr D K), (∀ j : Idx D, 0 ≤ j a → j a < sz a → R j = c0) →
      ∀ j : Idx D, 0 ≤ j a → j a < sz a → avgPerp sz w b l R j = c0 := by
  intro l
  induction l with
  | nil => intro R hR j h0 h1; exact hR j h0 h1
  | cons d l ih =>
    intro R hR j h0 h1
    show avgPerp sz w b l (if d = b then R else alongAxis d (conv3 (sz d) w.1 w.2.1 w.2.2) R) j = c0
    refine ih _ ?_ j h0 h1
    by_cases hdb : d = b
    · rw [if_pos hdb]; exact hR
    · rw [if_neg hdb]
      intro i i0 i1
      simp only [alongAxis, conv3]
      have key : ∀ t : Int, (d = a → 0 ≤ t ∧ t < sz a) → R (setIdx i d t) = c0 := by
        intro t ht
        by_cases hda : d = a
        · subst hda
          apply hR <;> rw [setIdx_same]
          · exact (ht rfl).1
          · exact (ht rfl).2
        · have had : a ≠ d := fun e => hda e.symm
          apply hR <;> rw [setIdx_ne i t had]
          · exact i0
          · exact i1
      rw [key _ (by intro e; subst e; split_ifs <;> omega), key _ (by intro e; subst e; exact ⟨i0, i1⟩),
        key _ (by intro e; subst e; split_ifs <;> omega)]
      have : w.1 * c0 + w.2.1 * c0 + w.2.2 * c0 = (w.1 + w.2.1 + w.2.2) * c0 := by ring
      rw [this, hsum, one_mul]

/-- a derivative step along `b` of a field that is constant on the slab `0 ≤ j a < sz a`
    vanishes at every in-box point, for the forward_central_backward family (fcb, prewitt, sobel). -/
theorem sdStep_const_slab (mode : SDMode) (hfd : mode.fdMode = .fcb)
    (hw : ∀ w : K × K × K, (mode.avgKernel : Option (K × K × K)) = some w → w.1 + w.2.1 + w.2.2 = 1)
    (sz : Fin D → Nat) (hsz : ∀ d, 2 ≤ sz d) (h : Fin D → K) (a b : Fin D) (c0 : K) (G : Arr D K)
    (hG : ∀ j : Idx D, 0 ≤ j a → j a < sz a → G j = c0)
    (idx : Idx D) (hbox : ∀ d, 0 ≤ idx d ∧ idx d < (sz d : Int)) :
    sdStep mode sz h b G idx = 0 := by
  -- the field the difference scheme is applied to is constant on the slab as well
  have hR : ∃ R : Arr D K, (∀ j : Idx D, 0 ≤ j a → j a < sz a → R j = c0) ∧
      sdStep mode sz h b G idx = finiteDifferences .fcb (sz b) 1 (h b) (fun k => R (setIdx idx b k)) (idx b) := by
    cases hk : (mode.avgKernel : Option (K × K × K)) with
    | none => exact ⟨G, hG, by simp only [sdStep, hk, alongAxis, hfd]⟩
    | some w =>
      exact ⟨avgPerp sz w b (List.finRange D) G, avgPerp_const_slab sz w (hw w hk) a b c0 _ G hG,
        by simp only [sdStep, hk, alongAxis, hfd]⟩
  obtain ⟨R, hRc, e⟩ := hR
  rw [e]
  obtain ⟨p, q, hp, hq, c, ec⟩ := fd_fcb_reads (sz b) (hsz b) (h b) (fun k => R (setIdx idx b k)) (idx b)
    (hbox b).1 (hbox b).2
  rw [ec]
  have val : ∀ t : Int, 0 ≤ t ∧ t < sz b → R (setIdx idx b t) = c0 := by
    intro t ht
    by_cases hab : a = b
    · subst hab; apply hRc <;> rw [setIdx_same]
      · exact ht.1
      · exact ht.2
    · apply hRc <;> rw [setIdx_ne idx t hab]
      · exact (hbox a).1
      · exact (hbox a).2
  simp only [val p hp, val q hq, sub_self, zero_div]

end FD
end Deepali
