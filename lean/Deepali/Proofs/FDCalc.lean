/-
  Proofs/FDCalc.lean — pointwise flow calculus (determinant closed forms, divergence, curl,
  Lie bracket) bridged to Mathlib matrices, and the first-order derivative dictionaries of
  `flow_derivatives` for D = 2, 3 (evaluated by the kernel on the concrete key lists).
-/
import Deepali.Proofs.FDField
import Mathlib.LinearAlgebra.Matrix.Determinant.Basic
import Mathlib.LinearAlgebra.Matrix.Trace
import Mathlib.Data.Matrix.Mul

set_option linter.unusedSectionVars false

namespace Deepali
namespace FD
open Matrix

variable {K : Type} [Field K] {D : Nat}

/-! ### closed forms -/

theorem det2_eq (J : Fin 2 → Fin 2 → K) :
    det2 (J 0 0) (J 0 1) (J 1 0) (J 1 1) = Matrix.det (toM J) := by
  rw [Matrix.det_fin_two]; simp [det2, toM]

theorem det3_eq (J : Fin 3 → Fin 3 → K) :
    det3 (J 0 0) (J 0 1) (J 0 2) (J 1 0) (J 1 1) (J 1 2) (J 2 0) (J 2 1) (J 2 2) = Matrix.det (toM J) := by
  rw [Matrix.det_fin_three]; simp only [det3, toM]; ring

theorem addIdentityPt_eq (flag : Bool) (J : Fin D → Fin D → K) :
    toM (addIdentityPt flag J) = toM J + (if flag then 1 else 0) := by
  ext i j
  rw [Matrix.add_apply, toM_apply, toM_apply]
  cases flag <;> by_cases h : i = j <;> simp [addIdentityPt, h, Matrix.one_apply]

theorem foldl_add_eq (g : Fin D → K) (l : List (Fin D)) (w0 : K) :
    l.foldl (fun w j => w + g j) w0 = w0 + (l.map g).sum := by
  induction l generalizing w0 with
  | nil => simp
  | cons a l ih => simp [ih, add_assoc]

theorem foldl_sub_eq (g : Fin D → K) (l : List (Fin D)) (w0 : K) :
    l.foldl (fun w j => w - g j) w0 = w0 - (l.map g).sum := by
  induction l generalizing w0 with
  | nil => simp
  | cons a l ih => simp [ih, sub_sub]

theorem sum_finRange (g : Fin D → K) : ((List.finRange D).map g).sum = ∑ j, g j :=
  (Fin.sum_univ_def g).symm

theorem divergencePt_eq (J : Fin (D + 1) → Fin (D + 1) → K) :
    divergencePt J = some (Matrix.trace (toM J)) := by
  unfold divergencePt
  have h : List.finRange (D + 1) = 0 :: (List.finRange D).map Fin.succ := List.finRange_succ
  have hs : Matrix.trace (toM J) = ((List.finRange (D + 1)).map (fun k => J k k)).sum := by
    rw [sum_finRange]; rfl
  rw [hs, h]
  simp only [foldl_add_eq, List.map_cons, List.sum_cons]

theorem lieBracketPt_eq (Jv Ju : Fin D → Fin D → K) (v u : Fin D → K) :
    lieBracketPt Jv Ju v u = (toM Jv) *ᵥ u - (toM Ju) *ᵥ v := by
  funext i
  simp only [lieBracketPt, foldl_add_eq, foldl_sub_eq, sum_finRange, Matrix.mulVec, dotProduct, toM, Pi.sub_apply]
  push_cast; ring

/-- value of the sampled affine flow `u(x) = A x + t`, `x_j = h_j · idx_j`. -/
def affFlow (A : Fin D → Fin D → K) (h t : Fin D → K) : Fin D → Arr D K := fun i => affField (A i) h (t i)

/-- physical coordinates of a grid point. -/
def coordOf (h : Fin D → K) (idx : Idx D) : Fin D → K := fun j => h j * (idx j : K)

theorem affFlow_apply (A : Fin D → Fin D → K) (h t : Fin D → K) (idx : Idx D) :
    (fun i => affFlow A h t i idx) = (toM A) *ᵥ (coordOf h idx) + t := by
  funext i; simp [affFlow, affField, Matrix.mulVec, dotProduct, coordOf, toM]

/-- Lie bracket of affine fields, pointwise algebra (any dimension): with `v = A x + a`, `u = B x + b`,
    `Jac(v) u − Jac(u) v = (AB − BA) x + (A b − B a)`. -/
theorem lie_affine_algebra (A B : Matrix (Fin D) (Fin D) K) (a b x : Fin D → K) :
    A *ᵥ (B *ᵥ x + b) - B *ᵥ (A *ᵥ x + a) = (A * B - B * A) *ᵥ x + (A *ᵥ b - B *ᵥ a) := by
  simp only [Matrix.mulVec_add, Matrix.sub_mulVec, ← Matrix.mulVec_mulVec]; abel

/-! ### first-order dictionaries for D = 2, 3 (the key lists are concrete: kernel evaluation) -/

section Dict
variable {A : Type}

theorem entriesAt_jac2 (ev : A → Arr 2 K) (step : Fin 2 → A → A) (u : Fin 2 → A) (idx : Idx 2) :
    entriesAt ev (jacobianDict step u) (jacobianKeys 2) idx = some (fun i j => ev (step j (u i)) idx) := by
  have h : (jacobianKeys 2).all (fun k => (assoc k (jacobianDict step u)).join.isSome) = true := rfl
  unfold entriesAt; rw [if_pos h]; congr 1; funext i j
  fin_cases i <;> fin_cases j <;> rfl

theorem entriesAt_jac3 (ev : A → Arr 3 K) (step : Fin 3 → A → A) (u : Fin 3 → A) (idx : Idx 3) :
    entriesAt ev (jacobianDict step u) (jacobianKeys 3) idx = some (fun i j => ev (step j (u i)) idx) := by
  have h : (jacobianKeys 3).all (fun k => (assoc k (jacobianDict step u)).join.isSome) = true := rfl
  unfold entriesAt; rw [if_pos h]; congr 1; funext i j
  fin_cases i <;> fin_cases j <;> rfl

theorem divergence_eq2 (ev : A → Arr 2 K) (step : Fin 2 → A → A) (u : Fin 2 → A) (idx : Idx 2) :
    divergence ev step u idx = some (ev (step 0 (u 0)) idx + ev (step 1 (u 1)) idx) := rfl

theorem divergence_eq3 (ev : A → Arr 3 K) (step : Fin 3 → A → A) (u : Fin 3 → A) (idx : Idx 3) :
    divergence ev step u idx = some (ev (step 0 (u 0)) idx + ev (step 1 (u 1)) idx + ev (step 2 (u 2)) idx) := rfl

theorem curl_eq2 (ev : A → Arr 2 K) (step : Fin 2 → A → A) (u : Fin 2 → A) (idx : Idx 2) :
    curl ev step u idx = some [ev (step 0 (u 1)) idx - ev (step 1 (u 0)) idx] := rfl

theorem curl_eq3 (ev : A → Arr 3 K) (step : Fin 3 → A → A) (u : Fin 3 → A) (idx : Idx 3) :
    curl ev step u idx = some [ev (step 1 (u 2)) idx - ev (step 2 (u 1)) idx,
                               ev (step 2 (u 0)) idx - ev (step 0 (u 2)) idx,
                               ev (step 0 (u 1)) idx - ev (step 1 (u 0)) idx] := rfl

end Dict

end FD
end Deepali
