/-
  Proofs/FDCurlSpacing.lean — the default `spacing` of `FlowFields.curl` (Model/CurlSpacing) is the step between
  neighbouring grid points in the axes of the flow field (`fromGrid`, Proofs/GridMaps), and an affine field given in
  axis-aligned axes is one of the sampled affine fields (`affFlow`) the C12 exactness theorems are about.
-/
import Deepali.Model.CurlSpacing
import Deepali.Proofs.SamplePipe
import Deepali.Proofs.FDCalc
import Mathlib.Tactic.FieldSimp
import Mathlib.Tactic.Ring

set_option linter.unusedSectionVars false

namespace Deepali
open Matrix FD
variable {K : Type} [Field K] [LinearOrder K] [IsStrictOrderedRing K] [FloorRing K] {d : Nat}

/-- `Grid.size()` (Python ints) and `Grid.size_tensor()` (floats) are the same numbers. -/
theorem sizeTensor_eq_sizeInt (g : Grid d K) (i : Fin d) : g.sizeTensor i = ((g.sizeInt i : Int) : K) := by
  unfold Grid.sizeTensor Grid.sizeInt
  split_ifs <;> simp

/-- the if / elif chain, one axes at a time, in terms of the rounded size. -/
theorem curlDefaultSpacing_grid (g : Grid d K) (i : Fin d) : curlDefaultSpacing g .grid i = 1 := by
  simp [curlDefaultSpacing, curlDefaultSpacingAt]

theorem curlDefaultSpacing_world (g : Grid d K) (i : Fin d) : curlDefaultSpacing g .world i = g.spacing i := by
  simp [curlDefaultSpacing, curlDefaultSpacingAt]

theorem curlDefaultSpacing_cube (g : Grid d K) (i : Fin d) : curlDefaultSpacing g .cube i = 2 / g.sizeTensor i := by
  simp [curlDefaultSpacing, curlDefaultSpacingAt, sizeTensor_eq_sizeInt]

theorem curlDefaultSpacing_cubeCorners (g : Grid d K) (i : Fin d) :
    curlDefaultSpacing g .cubeCorners i = 2 / (g.sizeTensor i - 1) := by
  simp [curlDefaultSpacing, curlDefaultSpacingAt, sizeTensor_eq_sizeInt]

/-- the step of the lattice of grid points, in any axes: `fromGrid` is affine with linear part `fromGridLin`. -/
theorem fromGrid_step (g : Grid d K) (a : Axes) (j w : Vec d K) :
    fromGrid g a (j + w) - fromGrid g a j = fromGridLin g a w := by
  rw [fromGrid_add]; abel

/-- GRID, CUBE, CUBE_CORNERS: the linear part is the diagonal scaling by the default spacing. -/
theorem fromGridLin_eq_spacing (g : Grid d K) (a : Axes) (ha : a ≠ .world) (w : Vec d K) (i : Fin d) :
    fromGridLin g a w i = curlDefaultSpacing g a i * w i := by
  cases a with
  | grid => simp [fromGridLin, curlDefaultSpacing_grid]
  | cube => simp [fromGridLin, curlDefaultSpacing_cube]
  | cubeCorners => simp [fromGridLin, curlDefaultSpacing_cubeCorners]
  | world => exact absurd rfl ha

/-- WORLD: the step along grid axis `i` is column `i` of `direction · diag(spacing)`. -/
theorem affine_mulVec_single (g : Grid d K) (i k : Fin d) :
    g.affine.mulVec (Pi.single i 1) k = g.spacing i * g.direction k i := by
  rw [mulVec_eq, Matrix.mulVec_single_one, Matrix.col_apply, affine_eq, Matrix.mul_diagonal, toM_apply, mul_comm]

/-- an orthonormal direction has unit columns. -/
theorem direction_col_sq {g : Grid d K} (h : g.Valid) (i : Fin d) : ∑ k, g.direction k i * g.direction k i = 1 := by
  have := congrFun (congrFun h.orth i) i
  simpa [Matrix.mul_apply, Matrix.transpose_apply] using this

/-- the default spacing is non-zero on the grids the property quantifies over. -/
theorem curlDefaultSpacing_ne {g : Grid d K} {n : Fin d → Nat} (hv : g.Valid) (hn : g.HasSize n) (a : Axes)
    (h2 : a = .cubeCorners → ∀ i, 2 ≤ n i) (i : Fin d) : curlDefaultSpacing g a i ≠ 0 := by
  cases a with
  | grid => rw [curlDefaultSpacing_grid]; exact one_ne_zero
  | world => rw [curlDefaultSpacing_world]; exact hv.spacing_ne i
  | cube => rw [curlDefaultSpacing_cube]; exact div_ne_zero two_ne_zero (hv.size_ne i)
  | cubeCorners =>
      rw [curlDefaultSpacing_cubeCorners]
      exact div_ne_zero two_ne_zero (sub_ne_zero.mpr (hn.cornersOK (h2 rfl) .cubeCorners rfl i))

/-- the grid point with integer index `idx`, as a continuous grid index. -/
def idxVec (idx : Idx d) : Vec d K := fun k => ((idx k : Int) : K)

/-- an affine field `v(x) = A x + t` of the coordinates `x = fromGrid g a idx` of the grid points in axis-aligned
    axes `a`, sampled at the grid points, IS the sampled affine field `affFlow A h t'` with `h` the default spacing of
    `FlowFields.curl` (the offset of the axes is absorbed in the constant). -/
theorem axesField_eq_affFlow (g : Grid d K) (a : Axes) (ha : a ≠ .world) (A : Fin d → Fin d → K) (t : Fin d → K) :
    (fun (i : Fin d) (idx : Idx d) => ((toM A) *ᵥ (fromGrid g a (idxVec idx)) + t) i)
      = affFlow A (curlDefaultSpacing g a) ((toM A) *ᵥ (fromGrid g a 0) + t) := by
  funext i idx
  have e : fromGrid g a (idxVec idx) = fromGrid g a 0 + fromGridLin g a (idxVec idx) := by
    rw [← fromGrid_add, zero_add]
  have e' : fromGridLin g a (idxVec idx) = coordOf (curlDefaultSpacing g a) idx := by
    funext k; rw [fromGridLin_eq_spacing g a ha]; rfl
  have := congrFun (affFlow_apply A (curlDefaultSpacing g a) ((toM A) *ᵥ (fromGrid g a 0) + t) idx) i
  rw [this, e, e', Matrix.mulVec_add]
  simp only [Pi.add_apply]; ring

end Deepali
