/-
  Proofs/FDDict.lean — the dictionary loop of `spatial_derivatives` computes, for every requested
  key, the chain of first-derivative steps along the sorted letters — whatever else is requested.
-/
import Deepali.Model.FlowCalc
import Mathlib.Data.List.Basic
import Mathlib.Tactic.Linarith

set_option linter.unusedSectionVars false

namespace Deepali
namespace FD

variable {D : Nat} {A : Type}

section Assoc
variable {κ : Type} [DecidableEq κ]

theorem assoc_append (k : κ) (l1 l2 : List (κ × A)) :
    assoc k (l1 ++ l2) = match assoc k l1 with | some x => some x | none => assoc k l2 := by
  induction l1 with
  | nil => simp [assoc]
  | cons e l ih =>
    obtain ⟨k0, v0⟩ := e
    by_cases h : k0 = k
    · simp [assoc, h]
    · simp [assoc, h, ih]

theorem assoc_map_self (f : κ → A) (l : List κ) (k : κ) (hk : k ∈ l) :
    assoc k (l.map (fun x => (x, f x))) = some (f k) := by
  induction l with
  | nil => simp at hk
  | cons x l ih =>
    by_cases h : x = k
    · subst h; simp [assoc]
    · have : k ∈ l := by
        rcases List.mem_cons.mp hk with e | e
        · exact absurd e.symm h
        · exact e
      simp [assoc, h, ih this]

theorem mem_dedup {β : Type} [DecidableEq β] (x : β) (l : List β) : x ∈ dedup l ↔ x ∈ l := by
  induction l with
  | nil => simp [dedup]
  | cons y l ih =>
    simp only [dedup]
    by_cases hy : y ∈ l
    · rw [if_pos hy, ih]
      constructor
      · intro h; exact List.mem_cons_of_mem _ h
      · intro h
        rcases List.mem_cons.mp h with e | e
        · subst e; exact hy
        · exact e
    · rw [if_neg hy, List.mem_cons, List.mem_cons, ih]

theorem mem_dedupFirst {β : Type} [DecidableEq β] (x : β) (l : List β) : x ∈ dedupFirst l ↔ x ∈ l := by
  simp [dedupFirst, mem_dedup]

end Assoc

theorem length_insertSorted (c : Fin D) (k : DKey D) : (insertSorted c k).length = k.length + 1 := by
  induction k with
  | nil => simp [insertSorted]
  | cons x xs ih => simp only [insertSorted]; split_ifs <;> simp [ih]

theorem length_sortKey (k : DKey D) : (sortKey k).length = k.length := by
  induction k with
  | nil => simp [sortKey]
  | cons x xs ih =>
    have : sortKey (x :: xs) = insertSorted x (sortKey xs) := by simp [sortKey]
    rw [this, length_insertSorted, ih]; simp

theorem le_foldl_max {β : Type} (ks : List (List β)) (m0 : Nat) :
    m0 ≤ ks.foldl (fun m k => max m k.length) m0 ∧
    ∀ k ∈ ks, k.length ≤ ks.foldl (fun m k => max m k.length) m0 := by
  induction ks generalizing m0 with
  | nil => simp
  | cons x xs ih =>
    simp only [List.foldl_cons]
    obtain ⟨h1, h2⟩ := ih (max m0 x.length)
    refine ⟨le_trans (le_max_left _ _) h1, ?_⟩
    intro k hk
    rcases List.mem_cons.mp hk with e | e
    · subst e; exact le_trans (le_max_right _ _) h1
    · exact h2 k e

theorem le_maxOrder {β : Type} (ks : List (List β)) (k : List β) (hk : k ∈ ks) : k.length ≤ maxOrder ks :=
  (le_foldl_max ks 0).2 k hk

section Loop
variable (step : Fin D → A → A) (data : A)

/-- every stored value is the chain of steps along its own key. -/
def Good (derivs : List (DKey D × A)) : Prop := ∀ k v, assoc k derivs = some v → v = chain step k data

theorem chain_append (k : DKey D) (c : Fin D) : chain step (k ++ [c]) data = step c (chain step k data) := by
  simp [chain, List.foldl_append]

theorem inner_cases (i : Nat) (derivs : List (DKey D × A)) (code : DKey D) :
    derivInner step data i derivs code = derivs ∨
    ∃ c prev, code[i]? = some c ∧ assoc (code.take (i + 1)) derivs = none ∧
      (if i = 0 then some data else assoc (code.take i) derivs) = some prev ∧
      derivInner step data i derivs code = derivs ++ [(code.take (i + 1), step c prev)] := by
  unfold derivInner
  simp only
  by_cases hc : i < code.length ∧ (assoc (code.take (i + 1)) derivs).isNone = true
  · rw [if_pos hc]
    obtain ⟨hlt, hnone⟩ := hc
    have hnone' : assoc (code.take (i + 1)) derivs = none := by
      cases h : assoc (code.take (i + 1)) derivs with
      | none => rfl
      | some x => rw [h] at hnone; simp at hnone
    generalize hp : (if i = 0 then some data else assoc (code.take i) derivs) = p
    cases hci : code[i]? with
    | none => left; rfl
    | some c =>
      cases p with
      | none => left; rfl
      | some prev => right; exact ⟨c, prev, rfl, hnone', rfl, rfl⟩
  · rw [if_neg hc]; left; rfl

theorem inner_good (i : Nat) (derivs : List (DKey D × A)) (code : DKey D) (hg : Good step data derivs) :
    Good step data (derivInner step data i derivs code) := by
  rcases inner_cases step data i derivs code with e | ⟨c, prev, hc, hnone, hprev, e⟩
  · rw [e]; exact hg
  · rw [e]
    intro k v hk
    rw [assoc_append] at hk
    cases hk1 : assoc k derivs with
    | some x => rw [hk1] at hk; simp at hk; subst hk; exact hg k x hk1
    | none =>
      rw [hk1] at hk
      simp only [assoc] at hk
      split_ifs at hk with hkey
      · simp at hk
        have hprev' : prev = chain step (code.take i) data := by
          by_cases hi : i = 0
          · subst hi; simp at hprev; subst hprev; simp [chain]
          · rw [if_neg hi] at hprev; exact hg _ _ hprev
        have htake : code.take (i + 1) = code.take i ++ [c] := by
          rw [List.take_add_one, hc]; rfl
        rw [← hk, ← hkey, htake, chain_append, hprev']

theorem inner_mono (i : Nat) (derivs : List (DKey D × A)) (code : DKey D) (k : DKey D) (v : A)
    (h : assoc k derivs = some v) : assoc k (derivInner step data i derivs code) = some v := by
  rcases inner_cases step data i derivs code with e | ⟨c, prev, _, _, _, e⟩
  · rw [e]; exact h
  · rw [e, assoc_append, h]

theorem inner_cover (i : Nat) (derivs : List (DKey D × A)) (code : DKey D) (hlt : i < code.length)
    (hpre : i = 0 ∨ (assoc (code.take i) derivs).isSome) :
    (assoc (code.take (i + 1)) (derivInner step data i derivs code)).isSome := by
  unfold derivInner
  simp only
  by_cases hnone : (assoc (code.take (i + 1)) derivs).isNone
  · rw [if_pos ⟨hlt, hnone⟩]
    have hc : code[i]? = some code[i] := List.getElem?_eq_getElem hlt
    rw [hc]
    have : ∃ prev, (if i = 0 then some data else assoc (code.take i) derivs) = some prev := by
      rcases hpre with h0 | hs
      · exact ⟨data, by simp [h0]⟩
      · by_cases h0 : i = 0
        · exact ⟨data, by simp [h0]⟩
        · obtain ⟨p, hp⟩ := Option.isSome_iff_exists.mp hs
          exact ⟨p, by simp [h0, hp]⟩
    obtain ⟨prev, hp⟩ := this
    rw [hp]
    simp only
    rw [assoc_append]
    have : assoc (code.take (i + 1)) derivs = none := by
      cases h : assoc (code.take (i + 1)) derivs with
      | none => rfl
      | some x => rw [h] at hnone; simp at hnone
    rw [this]; simp [assoc]
  · have : ¬ (i < code.length ∧ (assoc (code.take (i + 1)) derivs).isNone = true) := fun h => hnone h.2
    rw [if_neg this]
    cases h : assoc (code.take (i + 1)) derivs with
    | none => rw [h] at hnone; simp at hnone
    | some x => simp

theorem fold_good (i : Nat) (codes : List (DKey D)) (derivs : List (DKey D × A)) (hg : Good step data derivs) :
    Good step data (codes.foldl (derivInner step data i) derivs) := by
  induction codes generalizing derivs with
  | nil => exact hg
  | cons c cs ih => exact ih _ (inner_good step data i derivs c hg)

theorem fold_mono (i : Nat) (codes : List (DKey D)) (derivs : List (DKey D × A)) (k : DKey D)
    (h : (assoc k derivs).isSome) : (assoc k (codes.foldl (derivInner step data i) derivs)).isSome := by
  induction codes generalizing derivs with
  | nil => exact h
  | cons c cs ih =>
    obtain ⟨v, hv⟩ := Option.isSome_iff_exists.mp h
    exact ih _ (by rw [inner_mono step data i derivs c k v hv]; rfl)

theorem fold_cover (i : Nat) (codes : List (DKey D)) (derivs : List (DKey D × A)) (code : DKey D)
    (hmem : code ∈ codes) (hlt : i < code.length) (hpre : i = 0 ∨ (assoc (code.take i) derivs).isSome) :
    (assoc (code.take (i + 1)) (codes.foldl (derivInner step data i) derivs)).isSome := by
  induction codes generalizing derivs with
  | nil => simp at hmem
  | cons c cs ih =>
    rcases List.mem_cons.mp hmem with e | e
    · subst e
      exact fold_mono step data i cs _ _ (inner_cover step data i derivs code hlt hpre)
    · refine ih _ e ?_
      rcases hpre with h0 | hs
      · exact Or.inl h0
      · obtain ⟨v, hv⟩ := Option.isSome_iff_exists.mp hs
        exact Or.inr (by rw [inner_mono step data i derivs c _ v hv]; rfl)

theorem loop_spec (uniq : List (DKey D)) (n : Nat) :
    Good step data (derivLoop step data uniq n) ∧
    ∀ code ∈ uniq, ∀ j, j < n → j < code.length →
      (assoc (code.take (j + 1)) (derivLoop step data uniq n)).isSome := by
  induction n with
  | zero =>
    refine ⟨?_, fun _ _ j hj => absurd hj (Nat.not_lt_zero j)⟩
    intro k v h; simp [derivLoop, assoc] at h
  | succ n ih =>
    obtain ⟨hg, hc⟩ := ih
    have hstep : derivLoop step data uniq (n + 1)
        = uniq.foldl (derivInner step data n) (derivLoop step data uniq n) := by
      simp [derivLoop, List.range_succ, List.foldl_append]
    rw [hstep]
    refine ⟨fold_good step data n uniq _ hg, ?_⟩
    intro code hmem j hj hlen
    by_cases hjn : j = n
    · subst hjn
      refine fold_cover step data j uniq _ code hmem hlen ?_
      by_cases h0 : j = 0
      · exact Or.inl h0
      · right
        have := hc code hmem (j - 1) (by omega) (by omega)
        have e : j - 1 + 1 = j := by omega
        rwa [e] at this
    · exact fold_mono step data n uniq _ _ (hc code hmem j (by omega) hlen)

/-- the value stored for a requested key is the chain of derivative steps along its sorted
    letters, independent of the other requested keys. -/
theorem spatialDerivativesFD_spec (which : List (DKey D)) (k : DKey D) (hk : k ∈ which) (hne : k ≠ []) :
    assoc k (spatialDerivativesFD step data which) = some (some (chain step (sortKey k) data)) := by
  unfold spatialDerivativesFD
  simp only
  rw [assoc_map_self _ _ k ((mem_dedupFirst k which).mpr hk)]
  congr 1
  obtain ⟨hg, hc⟩ := loop_spec step data (uniqueKeys which) (maxOrder which)
  have hmem : sortKey k ∈ uniqueKeys which := by
    unfold uniqueKeys
    rw [mem_dedupFirst]
    exact List.mem_map_of_mem hk
  have hlen : (sortKey k).length = k.length := length_sortKey k
  have hpos : 0 < k.length := List.length_pos_iff.mpr hne
  have hmo : k.length ≤ maxOrder which := le_maxOrder which k hk
  have := hc (sortKey k) hmem (k.length - 1) (by omega) (by omega)
  have e : k.length - 1 + 1 = (sortKey k).length := by omega
  rw [e, List.take_length] at this
  obtain ⟨v, hv⟩ := Option.isSome_iff_exists.mp this
  rw [hv, hg _ _ hv]

end Loop

/-! ### `flow_derivatives`: grouping per component, sorted unique keys, lookup by sorted key -/

theorem insertSorted_of_le (c : Fin D) (l : DKey D) (h : ∀ x ∈ l, c.val ≤ x.val) : insertSorted c l = c :: l := by
  induction l with
  | nil => rfl
  | cons x xs ih =>
    simp only [insertSorted]
    by_cases hlt : c.val < x.val
    · rw [if_pos hlt]
    · rw [if_neg hlt]
      have hx : c.val ≤ x.val := h x (by simp)
      have hcx : c = x := Fin.ext (by omega)
      rw [ih (fun y hy => h y (List.mem_cons_of_mem _ hy)), hcx]

theorem mem_insertSorted (c y : Fin D) (l : DKey D) : y ∈ insertSorted c l ↔ y = c ∨ y ∈ l := by
  induction l with
  | nil => simp [insertSorted]
  | cons x xs ih =>
    simp only [insertSorted]
    split_ifs
    · simp
    · simp only [List.mem_cons, ih]; tauto

def SortedKey (l : DKey D) : Prop := l.Pairwise (fun a b => a.val ≤ b.val)

theorem sorted_insertSorted (c : Fin D) (l : DKey D) (h : SortedKey l) : SortedKey (insertSorted c l) := by
  induction l with
  | nil => simp [insertSorted, SortedKey]
  | cons x xs ih =>
    have hx := List.pairwise_cons.mp h
    simp only [insertSorted]
    split_ifs with hlt
    · refine List.pairwise_cons.mpr ⟨?_, h⟩
      intro y hy
      rcases List.mem_cons.mp hy with e | e
      · subst e; omega
      · have := hx.1 y e; omega
    · refine List.pairwise_cons.mpr ⟨?_, ih hx.2⟩
      intro y hy
      rcases (mem_insertSorted c y xs).mp hy with e | e
      · subst e; omega
      · exact hx.1 y e

theorem sorted_sortKey (k : DKey D) : SortedKey (sortKey k) := by
  induction k with
  | nil => simp [sortKey, SortedKey]
  | cons x xs ih =>
    have : sortKey (x :: xs) = insertSorted x (sortKey xs) := by simp [sortKey]
    rw [this]; exact sorted_insertSorted x _ ih

theorem sortKey_of_sorted (l : DKey D) (h : SortedKey l) : sortKey l = l := by
  induction l with
  | nil => rfl
  | cons x xs ih =>
    have hx := List.pairwise_cons.mp h
    have : sortKey (x :: xs) = insertSorted x (sortKey xs) := by simp [sortKey]
    rw [this, ih hx.2, insertSorted_of_le x xs hx.1]

theorem sortKey_idem (k : DKey D) : sortKey (sortKey k) = sortKey k := sortKey_of_sorted _ (sorted_sortKey k)

theorem mem_insertDKey (k y : DKey D) (l : List (DKey D)) : y ∈ insertDKey k l ↔ y = k ∨ y ∈ l := by
  induction l with
  | nil => simp [insertDKey]
  | cons x xs ih =>
    simp only [insertDKey]
    split_ifs
    · simp
    · simp only [List.mem_cons, ih]; tauto

theorem mem_foldr_insertDKey (y : DKey D) (l : List (DKey D)) : y ∈ l.foldr insertDKey [] ↔ y ∈ l := by
  induction l with
  | nil => simp
  | cons x xs ih => simp only [List.foldr_cons, mem_insertDKey, ih, List.mem_cons]

theorem assoc_map_pair_ne {B : Type} (i i' : Fin D) (k : DKey D) (f : DKey D → B) (ks : List (DKey D)) (h : i' ≠ i) :
    assoc (i, k) (ks.map (fun k' => ((i', k'), f k'))) = none := by
  induction ks with
  | nil => rfl
  | cons x xs ih =>
    have : ¬ ((i', x) = (i, k)) := fun e => h (Prod.mk.inj e).1
    simp [assoc, this, ih]

theorem assoc_map_pair_eq {B : Type} (i : Fin D) (k : DKey D) (f : DKey D → B) (ks : List (DKey D)) (h : k ∈ ks) :
    assoc (i, k) (ks.map (fun k' => ((i, k'), f k'))) = some (f k) := by
  induction ks with
  | nil => simp at h
  | cons x xs ih =>
    by_cases hx : x = k
    · subst hx; simp [assoc]
    · have hk : k ∈ xs := by
        rcases List.mem_cons.mp h with e | e
        · exact absurd e.symm hx
        · exact e
      have : ¬ ((i, x) = (i, k)) := fun e => hx (Prod.mk.inj e).2
      simp [assoc, this, ih hk]

/-- generic form: whatever `spatial_derivatives` branch `sd` is used, if it returns `v` for the sorted
    key whenever that key is requested, `flow_derivatives` returns `v` for `d<i>/d<k>`. -/
theorem flowDerivatives_spec_gen (sd : Fin D → List (DKey D) → List (DKey D × Option A)) (which : List (FKey D))
    (i : Fin D) (k : DKey D) (v : A) (hk : (i, k) ∈ which)
    (hsd : ∀ keys, sortKey k ∈ keys → assoc (sortKey k) (sd i keys) = some (some v)) :
    assoc (i, k) (flowDerivatives sd which) = some (some v) := by
  unfold flowDerivatives
  simp only
  rw [assoc_map_self _ _ (i, k) ((mem_dedupFirst (i, k) which).mpr hk)]
  congr 1
  set keysOf : Fin D → List (DKey D) := fun i' => (which.filter (fun q => q.1 = i')).map (·.2) with hkeys
  set val : Fin D → DKey D → Option A := fun i' k' =>
    (assoc (sortKey k') (sd i' ((uniqueKeys (keysOf i')).foldr insertDKey []))).join with hval
  have hmemk : k ∈ keysOf i := by
    simp only [hkeys, List.mem_map, List.mem_filter]
    exact ⟨(i, k), ⟨hk, by simp⟩, rfl⟩
  have hv : val i k = some v := by
    simp only [hval]
    have hmem : sortKey k ∈ (uniqueKeys (keysOf i)).foldr insertDKey [] := by
      rw [mem_foldr_insertDKey]; unfold uniqueKeys; rw [mem_dedupFirst]; exact List.mem_map_of_mem hmemk
    rw [hsd _ hmem]; rfl
  have hflat : ∀ l : List (Fin D), i ∈ l →
      assoc (i, k) (l.flatMap (fun i' => (keysOf i').map (fun k' => ((i', k'), val i' k')))) = some (val i k) := by
    intro l
    induction l with
    | nil => intro h; simp at h
    | cons i0 rest ih =>
      intro hmem
      rw [List.flatMap_cons, assoc_append]
      by_cases h0 : i0 = i
      · subst h0; rw [assoc_map_pair_eq i0 k (val i0) (keysOf i0) hmemk]
      · rw [assoc_map_pair_ne i i0 k (val i0) (keysOf i0) h0]
        rcases List.mem_cons.mp hmem with e | e
        · exact absurd e.symm h0
        · exact ih e
  have := hflat (List.finRange D) (List.mem_finRange i)
  simp only [hkeys, hval] at this hv
  rw [this, hv]; rfl

/-- the value `flow_derivatives` returns for `d<i>/d<k>` is the chain of derivative steps along the
    sorted letters of `k`, applied to component `i` — whatever else is requested. -/
theorem flowDerivatives_spec (step : Fin D → A → A) (u : Fin D → A) (which : List (FKey D)) (i : Fin D) (k : DKey D)
    (hk : (i, k) ∈ which) (hne : k ≠ []) :
    assoc (i, k) (flowDerivatives (fun i keys => spatialDerivativesFD step (u i) keys) which)
      = some (some (chain step (sortKey k) (u i))) := by
  refine flowDerivatives_spec_gen _ which i k _ hk ?_
  intro keys hmem
  have hne' : sortKey k ≠ [] := by
    intro e
    have := length_sortKey k
    rw [e] at this
    exact hne (List.length_eq_zero_iff.mp this.symm)
  rw [spatialDerivativesFD_spec step (u i) keys (sortKey k) hmem hne', sortKey_idem]

/-! ### B-spline branch: dictionary logic with the derivative values given -/

/-- `spatial_derivatives(mode="bspline")` returns, for every requested key, the value computed for its
    sorted code — whatever else is requested (no condition on the key). -/
theorem spatialDerivativesBSpline_spec (deriv : DKey D → A) (which : List (DKey D)) (k : DKey D) (hk : k ∈ which) :
    assoc k (spatialDerivativesBSpline deriv which) = some (some (deriv (sortKey k))) := by
  unfold spatialDerivativesBSpline
  simp only
  rw [assoc_map_self _ _ k ((mem_dedupFirst k which).mpr hk)]
  congr 1
  have hmem : sortKey k ∈ uniqueKeys which := by
    unfold uniqueKeys; rw [mem_dedupFirst]; exact List.mem_map_of_mem hk
  exact assoc_map_self (fun c => deriv c) (uniqueKeys which) (sortKey k) hmem

theorem flowDerivativesBSpline_spec (deriv : Fin D → DKey D → A) (which : List (FKey D)) (i : Fin D) (k : DKey D)
    (hk : (i, k) ∈ which) :
    assoc (i, k) (flowDerivatives (fun i keys => spatialDerivativesBSpline (deriv i) keys) which)
      = some (some (deriv i (sortKey k))) := by
  refine flowDerivatives_spec_gen _ which i k _ hk ?_
  intro keys hmem
  rw [spatialDerivativesBSpline_spec (deriv i) keys (sortKey k) hmem, sortKey_idem]

end FD
end Deepali
