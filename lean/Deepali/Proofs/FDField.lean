/-
  Proofs/FDField.lean — D-dimensional sampled affine fields and one `spatial_derivatives` step
  (`sdStep`) on them, for every mode, in any dimension.
-/
import Deepali.Proofs.FD
import Mathlib.Algebra.BigOperators.Fin
import Mathlib.Algebra.BigOperators.Ring.Finset
import Mathlib.Tactic.FinCases

set_option linter.unusedSectionVars false

namespace Deepali
namespace FD

variable {K : Type} [Field K] {D : Nat}

/-- grid samples of the affine function `x ↦ Σ_j s_j x_j + c` at `x_j = h_j · idx_j`
    (a grid origin is absorbed in `c`): `s_j` is the analytic partial derivative w.r.t. `x_j`. -/
def affField (s h : Fin D → K) (c : K) : Arr D K := fun idx => (∑ j, s j * (h j * (idx j : K))) + c

@[simp] theorem setIdx_same (idx : Idx D) (a : Fin D) (k : Int) : setIdx idx a k a = k := by simp [setIdx]
theorem setIdx_ne (idx : Idx D) {a d : Fin D} (k : Int) (h : d ≠ a) : setIdx idx a k d = idx d := by simp [setIdx, h]
@[simp] theorem setIdx_self (idx : Idx D) (a : Fin D) : setIdx idx a (idx a) = idx := by
  funext j; by_cases h : j = a <;> simp [setIdx, h]

theorem setIdx_comm (idx : Idx D) {a b : Fin D} (hab : a ≠ b) (k l : Int) :
    setIdx (setIdx idx a k) b l = setIdx (setIdx idx b l) a k := by
  funext j
  by_cases hja : j = a
  · subst hja; simp [setIdx, hab]
  · by_cases hjb : j = b
    · subst hjb; simp [setIdx, hja]
    · simp [setIdx, hja, hjb]

theorem affField_setIdx (s h : Fin D → K) (c : K) (idx : Idx D) (a : Fin D) (k : Int) :
    affField s h c (setIdx idx a k) = affField s h c idx + s a * h a * ((k : K) - (idx a : K)) := by
  unfold affField
  have : ∀ j ∈ Finset.univ, s j * (h j * ((setIdx idx a k j : Int) : K))
      = s j * (h j * (idx j : K)) + (if j = a then s a * h a * ((k : K) - (idx a : K)) else 0) := by
    intro j _
    by_cases hj : j = a
    · subst hj; simp; ring
    · simp [setIdx, hj]
  rw [Finset.sum_congr rfl this, Finset.sum_add_distrib, Finset.sum_ite_eq' Finset.univ a]
  simp; ring

/-- a field is affine along axis `a` with slope `m` per index step. -/
def AffineAlong (F : Arr D K) (a : Fin D) (m : K) : Prop :=
  ∀ idx k, F (setIdx idx a k) = F idx + m * ((k : K) - (idx a : K))

theorem affField_affineAlong (s h : Fin D → K) (c : K) (a : Fin D) : AffineAlong (affField s h c) a (s a * h a) :=
  fun idx k => affField_setIdx s h c idx a k

theorem AffineAlong.line {F : Arr D K} {a : Fin D} {m : K} (hF : AffineAlong F a m) (idx : Idx D) :
    IsAffine1 (fun k => F (setIdx idx a k)) m := by
  intro k l; simp only [hF idx k, hF idx l]; ring

variable [CharZero K]

/-- one derivative step without averaging is the 1-D scheme on the line through `idx`. -/
theorem sdStep_noavg (mode : SDMode) (hm : (mode.avgKernel : Option (K × K × K)) = none) (sz : Fin D → Nat)
    (sp : Fin D → K) (a : Fin D) (A : Arr D K) (idx : Idx D) :
    sdStep mode sz sp a A idx
      = finiteDifferences mode.fdMode (sz a) 1 (sp a) (fun k => A (setIdx idx a k)) (idx a) := by
  simp only [sdStep, hm, alongAxis]

/-- perpendicular interior: the 3-tap zero-padded average does not read the padding. -/
def PerpInterior (sz : Fin D → Nat) (a : Fin D) (idx : Idx D) (l : List (Fin D)) : Prop :=
  ∀ d ∈ l, d ≠ a → 1 ≤ idx d ∧ idx d + 1 < (sz d : Int)

theorem conv3_interior (n : Nat) (w0 w1 w2 : K) (f : Int → K) (k : Int) (h0 : 1 ≤ k) (h1 : k + 1 < n) :
    conv3 n w0 w1 w2 f k = w0 * f (k - 1) + w1 * f k + w2 * f (k + 1) := by
  simp only [conv3]
  rw [if_neg (by omega), if_neg (by omega)]

/-- the model's `conv3` is replicate padding by one sample on both sides followed by the
    un-padded 3-tap cross-correlation, on the output range `0 ≤ k < n`. -/
theorem conv3_eq_padReplicate (n : Nat) (w0 w1 w2 : K) (f : Int → K) (k : Int) (h0 : 0 ≤ k) (h1 : k < n) :
    conv3 n w0 w1 w2 f k
      = w0 * padReplicate n 1 f k + w1 * padReplicate n 1 f (k + 1) + w2 * padReplicate n 1 f (k + 2) := by
  simp only [conv3, padReplicate, clampIdx]
  have e1 : k + 1 - ((1 : Nat) : Int) = k := by push_cast; ring
  have e2 : k + 2 - ((1 : Nat) : Int) = k + 1 := by push_cast; ring
  have e0 : k - ((1 : Nat) : Int) = k - 1 := by push_cast; ring
  rw [e0, e1, e2]
  have a1 : ¬ k < 0 := by omega
  have a2 : ¬ (n : Int) ≤ k := by omega
  have a3 : ¬ k + 1 < 0 := by omega
  rw [if_neg a1, if_neg a2, if_neg a3]
  by_cases c1 : k - 1 < 0
  · have c1' : ¬ (n : Int) ≤ k - 1 := by omega
    by_cases c2 : (n : Int) ≤ k + 1 <;> simp [c1, c2]
  · have c1' : ¬ (n : Int) ≤ k - 1 := by omega
    by_cases c2 : (n : Int) ≤ k + 1 <;> simp [c1, c1', c2]

theorem conv3_add_const (n : Nat) (w0 w1 w2 : K) (g : Int → K) (c : K) (k : Int) :
    conv3 n w0 w1 w2 (fun t => g t + c) k = conv3 n w0 w1 w2 g k + (w0 + w1 + w2) * c := by
  simp only [conv3]; ring

/-- replicate-padded normalised averaging along the other axes keeps a field affine along `a`
    with the same slope — at every point, boundary layers included (the padded samples are copies
    of in-range samples, so only an `idx_a`-independent offset is added). -/
theorem avgPerp_affineAlong (sz : Fin D → Nat) (w : K × K × K) (hsum : w.1 + w.2.1 + w.2.2 = 1) (a : Fin D) (m : K) :
    ∀ (l : List (Fin D)) (R : Arr D K), AffineAlong R a m → AffineAlong (avgPerp sz w a l R) a m := by
  intro l
  induction l with
  | nil => intro R hR; exact hR
  | cons d l ih =>
    intro R hR
    show AffineAlong (avgPerp sz w a l (if d = a then R else alongAxis d (conv3 (sz d) w.1 w.2.1 w.2.2) R)) a m
    apply ih
    by_cases hda : d = a
    · rw [if_pos hda]; exact hR
    · rw [if_neg hda]
      intro idx k
      have had : a ≠ d := fun e => hda e.symm
      simp only [alongAxis]
      rw [setIdx_ne idx k hda]
      have : (fun t => R (setIdx (setIdx idx a k) d t))
          = fun t => R (setIdx idx d t) + m * ((k : K) - (idx a : K)) := by
        funext t
        rw [setIdx_comm idx had k t, hR (setIdx idx d t) k, setIdx_ne idx t had]
      rw [this, conv3_add_const, hsum, one_mul]

/-- symmetric normalised 3-tap averaging reproduces a field that is affine along every axis,
    at the points whose perpendicular coordinates are interior. -/
theorem avgPerp_affine (sz : Fin D → Nat) (w : K × K × K) (hsum : w.1 + w.2.1 + w.2.2 = 1) (hsym : w.1 = w.2.2)
    (a : Fin D) (F : Arr D K) (m : Fin D → K) (hF : ∀ d, AffineAlong F d (m d)) :
    ∀ (l done : List (Fin D)) (R : Arr D K), (done ++ l).Nodup →
      (∀ idx, PerpInterior sz a idx done → R idx = F idx) →
      ∀ idx, PerpInterior sz a idx (done ++ l) → avgPerp sz w a l R idx = F idx := by
  intro l
  induction l with
  | nil => intro done R _ hR idx hP; simpa [avgPerp] using hR idx (by simpa using hP)
  | cons d l ih =>
    intro done R hnd hR idx hP
    have hnd' : ((done ++ [d]) ++ l).Nodup := by simpa [List.append_assoc] using hnd
    have hdn : d ∉ done := by
      have := List.nodup_append.mp hnd
      intro hmem
      exact (this.2.2 d hmem d (by simp)) rfl
    have hP' : PerpInterior sz a idx ((done ++ [d]) ++ l) := by simpa [List.append_assoc] using hP
    show avgPerp sz w a l (if d = a then R else alongAxis d (conv3 (sz d) w.1 w.2.1 w.2.2) R) idx = F idx
    refine ih (done ++ [d]) _ hnd' ?_ idx hP'
    intro j hj
    by_cases hda : d = a
    · rw [if_pos hda]; exact hR j (fun e he => hj e (by simp [he]))
    · rw [if_neg hda]
      have hint := hj d (by simp) hda
      have hline : ∀ k : Int, R (setIdx j d k) = F (setIdx j d k) := by
        intro k
        apply hR
        intro e he hea
        have hed : e ≠ d := fun h => hdn (h ▸ he)
        rw [setIdx_ne j k hed]
        exact hj e (by simp [he]) hea
      simp only [alongAxis]
      rw [conv3_interior _ _ _ _ _ _ hint.1 hint.2, hline, hline, hline, hF d j, hF d j, hF d j]
      have h2 : w.2.1 = 1 - w.1 - w.2.2 := by rw [← hsum]; ring
      rw [h2, hsym]; push_cast; ring

theorem avgKernel_prewitt_ok : ∀ w : K × K × K, (SDMode.prewitt.avgKernel : Option (K × K × K)) = some w →
    w.1 + w.2.1 + w.2.2 = 1 ∧ w.1 = w.2.2 := by
  intro w h
  simp only [SDMode.avgKernel, Option.some.injEq] at h
  subst h
  have h3 : (3 : K) ≠ 0 := by norm_num
  refine ⟨?_, rfl⟩
  push_cast; field_simp; norm_num

theorem avgKernel_sobel_ok : ∀ w : K × K × K, (SDMode.sobel.avgKernel : Option (K × K × K)) = some w →
    w.1 + w.2.1 + w.2.2 = 1 ∧ w.1 = w.2.2 := by
  intro w h
  simp only [SDMode.avgKernel, Option.some.injEq] at h
  subst h
  have h4 : (4 : K) ≠ 0 := by norm_num
  refine ⟨?_, rfl⟩
  push_cast; field_simp; norm_num

/-- one derivative step with averaging (prewitt / sobel) on a field affine along every axis:
    exact wherever the perpendicular coordinates are interior — on the differentiated axis every
    index `0 ≤ idx a < sz a` is fine (forward_central_backward). -/
theorem sdStep_avg_affine (mode : SDMode) (w : K × K × K) (hm : (mode.avgKernel : Option (K × K × K)) = some w)
    (hfd : mode.fdMode = .fcb) (hsum : w.1 + w.2.1 + w.2.2 = 1) (hsym : w.1 = w.2.2)
    (sz : Fin D → Nat) (sp : Fin D → K) (a : Fin D) (F : Arr D K) (m : Fin D → K)
    (hF : ∀ d, AffineAlong F d (m d)) (hh : sp a ≠ 0) (hn : 2 ≤ sz a) (idx : Idx D)
    (h0 : 0 ≤ idx a) (h1 : idx a < sz a) (hP : PerpInterior sz a idx (List.finRange D)) :
    sdStep mode sz sp a F idx = m a / sp a := by
  simp only [sdStep, hm, alongAxis, hfd]
  have hline : ∀ k : Int, avgPerp sz w a (List.finRange D) F (setIdx idx a k) = F (setIdx idx a k) := by
    intro k
    refine avgPerp_affine sz w hsum hsym a F m hF (List.finRange D) [] F (by simp [List.nodup_finRange])
      (fun _ _ => rfl) _ ?_
    intro d hd hda
    rw [setIdx_ne idx k hda]
    exact hP d (by simp) hda
  have : (fun k => avgPerp sz w a (List.finRange D) F (setIdx idx a k)) = fun k => F (setIdx idx a k) := funext hline
  rw [this]
  exact fd_fcb_affine ((hF a).line idx) hh (by norm_num) (by simpa using hn) h0 h1

/-- prewitt / sobel with the replicate-padded averaging (repair of F-17d): one derivative step on a
    field that is affine along the differentiated axis is exact at EVERY index `0 ≤ idx a < sz a`,
    whatever the other coordinates — no margin. -/
theorem sdStep_avg_affine_everywhere (mode : SDMode) (w : K × K × K)
    (hm : (mode.avgKernel : Option (K × K × K)) = some w) (hfd : mode.fdMode = .fcb)
    (hsum : w.1 + w.2.1 + w.2.2 = 1) (sz : Fin D → Nat) (sp : Fin D → K) (a : Fin D) (F : Arr D K) (m : K)
    (hF : AffineAlong F a m) (hh : sp a ≠ 0) (hn : 2 ≤ sz a) (idx : Idx D) (h0 : 0 ≤ idx a) (h1 : idx a < sz a) :
    sdStep mode sz sp a F idx = m / sp a := by
  simp only [sdStep, hm, alongAxis, hfd]
  have hR := avgPerp_affineAlong sz w hsum a m (List.finRange D) F hF
  exact fd_fcb_affine (hR.line idx) hh (by norm_num) (by simpa using hn) h0 h1

end FD
end Deepali
