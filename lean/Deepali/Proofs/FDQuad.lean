/-
  Proofs/FDQuad.lean — second derivatives (two `sdStep`s) of sampled quadratic fields, and
  commutation of the difference operators along different axes.
-/
import Deepali.Proofs.FDField

set_option linter.unusedSectionVars false

namespace Deepali
namespace FD

variable {K : Type} [Field K] {D : Nat}

/-- offsets `(p, q)` of the two samples read by a scheme at an interior index: `f (k+p) − f (k−q)`. -/
def SDMode.offs : FDMode → Int × Int
  | .forward => (1, 0)
  | .backward => (0, 1)
  | .central => (1, 1)
  | .fcb => (1, 1)

/-- all four schemes (dilation 1) at an interior index `1 ≤ k`, `k + 1 < n`. -/
theorem fd_interior (mode : FDMode) (n : Nat) (h : K) (f : Int → K) (k : Int) (h0 : 1 ≤ k) (h1 : k + 1 < n) :
    finiteDifferences mode n 1 h f k
      = (f (k + (SDMode.offs mode).1) - f (k - (SDMode.offs mode).2))
          / (h * (((SDMode.offs mode).1 + (SDMode.offs mode).2 : Int) : K)) := by
  cases mode
  · rw [fd_forward_eq n 1 h f k (by omega) (by simpa using h1)]; simp [SDMode.offs]
  · rw [fd_backward_eq n 1 h f k (by simpa using h0) (by omega)]; simp [SDMode.offs]
  · rw [fd_central_eq n 1 h f k (by simpa using h0) (by simpa using h1)]; simp [SDMode.offs]
  · rw [fd_fcb_mid n 1 h f k (by simpa using h0) (by simpa using h1)]; simp [SDMode.offs]

/-- grid samples of the quadratic function `x ↦ Σ_ij Q_ij x_i x_j + Σ_i L_i x_i + c`, `x_j = h_j idx_j`.
    Its analytic second derivative `∂_a ∂_b` is `Q_ab + Q_ba`. -/
def quadField (Q : Fin D → Fin D → K) (L h : Fin D → K) (c : K) : Arr D K := fun idx =>
  (∑ i, ∑ j, Q i j * ((h i * (idx i : K)) * (h j * (idx j : K)))) + (∑ i, L i * (h i * (idx i : K))) + c

/-- change per index step along axis `a` of a quadratic field: an affine field. -/
def quadGrad (Q : Fin D → Fin D → K) (L h : Fin D → K) (a : Fin D) : Arr D K :=
  affField (fun j => h a * (Q a j + Q j a)) h (h a * L a)

theorem quadField_setIdx (Q : Fin D → Fin D → K) (L h : Fin D → K) (c : K) (idx : Idx D) (a : Fin D) (k : Int) :
    quadField Q L h c (setIdx idx a k)
      = quadField Q L h c idx + ((k : K) - (idx a : K)) * quadGrad Q L h a idx
        + ((k : K) - (idx a : K)) ^ 2 * (h a ^ 2 * Q a a) := by
  set δ : K := h a * ((k : K) - (idx a : K)) with hδ
  have hx : ∀ j, h j * ((setIdx idx a k j : Int) : K) = h j * (idx j : K) + (if j = a then δ else 0) := by
    intro j
    by_cases hj : j = a
    · subst hj; simp [hδ]; ring
    · simp [setIdx, hj]
  unfold quadField quadGrad affField
  simp only [hx]
  have e1 : ∀ i j : Fin D, Q i j * ((h i * (idx i : K) + (if i = a then δ else 0)) * (h j * (idx j : K) + (if j = a then δ else 0)))
      = Q i j * ((h i * (idx i : K)) * (h j * (idx j : K)))
        + (if j = a then Q i j * (h i * (idx i : K)) * δ else 0)
        + (if i = a then Q i j * (h j * (idx j : K)) * δ else 0)
        + (if i = a then (if j = a then Q i j * δ * δ else 0) else 0) := by
    intro i j
    by_cases hi : i = a <;> by_cases hj : j = a <;> simp [hi, hj] <;> ring
  have e2 : ∀ i : Fin D, L i * (h i * (idx i : K) + (if i = a then δ else 0))
      = L i * (h i * (idx i : K)) + (if i = a then L i * δ else 0) := by
    intro i; by_cases hi : i = a <;> simp [hi]; ring
  simp only [e1, e2, Finset.sum_add_distrib, Finset.sum_ite_eq', Finset.sum_ite_eq, Finset.mem_univ, if_true,
    Finset.sum_const_zero]
  have e3 : (∑ i : Fin D, if i = a then ∑ j, Q i j * (h j * (idx j : K)) * δ else 0)
      = ∑ j, Q a j * (h j * (idx j : K)) * δ := by
    rw [Finset.sum_ite_eq' Finset.univ a]; simp
  have e4 : (∑ i : Fin D, if i = a then (∑ j : Fin D, if j = a then Q i j * δ * δ else 0) else 0) = Q a a * δ * δ := by
    rw [Finset.sum_ite_eq' Finset.univ a]; simp
  have e5 : (∑ i : Fin D, ∑ j : Fin D, if i = a then Q i j * (h j * (idx j : K)) * δ else 0)
      = ∑ j, Q a j * (h j * (idx j : K)) * δ := by
    rw [Finset.sum_comm]
    apply Finset.sum_congr rfl; intro j _
    rw [Finset.sum_ite_eq' Finset.univ a]; simp
  have e6 : (∑ i : Fin D, ∑ j : Fin D, if i = a then (if j = a then Q i j * δ * δ else 0) else 0) = Q a a * δ * δ := by
    rw [Finset.sum_comm]
    rw [Finset.sum_congr rfl (fun j _ => Finset.sum_ite_eq' Finset.univ a _)]
    simp
  simp only [e5, e6]
  have s1 : (∑ x, h a * (Q a x + Q x a) * (h x * (idx x : K)))
      = h a * (∑ j, Q a j * (h j * (idx j : K))) + h a * (∑ x, Q x a * (h x * (idx x : K))) := by
    rw [Finset.mul_sum, Finset.mul_sum, ← Finset.sum_add_distrib]
    apply Finset.sum_congr rfl; intros; ring
  have s2 : (∑ x, Q x a * (h x * (idx x : K)) * δ) = (∑ x, Q x a * (h x * (idx x : K))) * δ := by
    rw [Finset.sum_mul]
  have s3 : (∑ j, Q a j * (h j * (idx j : K)) * δ) = (∑ j, Q a j * (h j * (idx j : K))) * δ := by
    rw [Finset.sum_mul]
  rw [s1, s2, s3, hδ]; ring

variable [CharZero K]

theorem offs_cases (m : FDMode) :
    SDMode.offs m = (1, 0) ∨ SDMode.offs m = (0, 1) ∨ SDMode.offs m = (1, 1) := by
  cases m <;> simp [SDMode.offs]

/-- first step on a quadratic field at an index that is interior on the differentiated axis:
    the index-gradient divided by the spacing, plus the constant one-sided bias `(p − q) h_a Q_aa`. -/
theorem sdStep_quad_first (mode : SDMode) (hm : (mode.avgKernel : Option (K × K × K)) = none)
    (sz : Fin D → Nat) (Q : Fin D → Fin D → K) (L h : Fin D → K) (c : K) (a : Fin D) (hh : h a ≠ 0)
    (idx : Idx D) (h0 : 1 ≤ idx a) (h1 : idx a + 1 < sz a) :
    sdStep mode sz h a (quadField Q L h c) idx
      = quadGrad Q L h a idx / h a
        + ((((SDMode.offs mode.fdMode).1 - (SDMode.offs mode.fdMode).2 : Int) : K)) * (h a * Q a a) := by
  rw [sdStep_noavg mode hm, fd_interior _ _ _ _ _ h0 h1, quadField_setIdx, quadField_setIdx]
  rcases offs_cases mode.fdMode with e | e | e <;> rw [e] <;> push_cast <;> field_simp <;> ring

/-- second derivatives by two derivative steps (as `spatial_derivatives` composes them) of a quadratic
    field, for the four schemes without averaging: exact (`Q_ab + Q_ba`) at margin-2 interior points. -/
theorem sdStep_quad_second (mode : SDMode) (hm : (mode.avgKernel : Option (K × K × K)) = none)
    (sz : Fin D → Nat) (Q : Fin D → Fin D → K) (L h : Fin D → K) (c : K) (a b : Fin D)
    (ha : h a ≠ 0) (hb : h b ≠ 0) (idx : Idx D)
    (hia : 2 ≤ idx a ∧ idx a + 2 < sz a) (hib : 2 ≤ idx b ∧ idx b + 2 < sz b) :
    sdStep mode sz h b (sdStep mode sz h a (quadField Q L h c)) idx = Q a b + Q b a := by
  rw [sdStep_noavg mode hm, fd_interior _ _ _ _ _ (by omega) (by omega)]
  have hint : ∀ k : Int, idx b - 1 ≤ k → k ≤ idx b + 1 →
      1 ≤ setIdx idx b k a ∧ setIdx idx b k a + 1 < sz a := by
    intro k hk0 hk1
    by_cases hab : a = b
    · subst hab; rw [setIdx_same]; omega
    · rw [setIdx_ne idx k hab]; omega
  have hpq : ∀ m : FDMode, 0 ≤ (SDMode.offs m).1 ∧ (SDMode.offs m).1 ≤ 1 ∧ 0 ≤ (SDMode.offs m).2 ∧ (SDMode.offs m).2 ≤ 1 := by
    intro m; cases m <;> simp [SDMode.offs]
  obtain ⟨p0, p1, q0, q1⟩ := hpq mode.fdMode
  obtain ⟨i1, i2⟩ := hint (idx b + (SDMode.offs mode.fdMode).1) (by omega) (by omega)
  obtain ⟨j1, j2⟩ := hint (idx b - (SDMode.offs mode.fdMode).2) (by omega) (by omega)
  rw [sdStep_quad_first mode hm sz Q L h c a ha _ i1 i2, sdStep_quad_first mode hm sz Q L h c a ha _ j1 j2]
  unfold quadGrad
  rw [affField_setIdx, affField_setIdx]
  rcases offs_cases mode.fdMode with e | e | e <;> rw [e] <;> push_cast <;> field_simp <;> ring

/-! ### difference operators along different axes commute (any field, any point) -/

/-- every scheme reads two samples whose positions depend only on (mode, n, dil, k):
    `finiteDifferences … f k = (f (P k) − f (M k)) / (h · C k)`. -/
theorem fd_two_point (mode : FDMode) (n dil : Nat) :
    ∃ (P M : Int → Int) (C : Int → Int), ∀ (h : K) (f : Int → K) (k : Int),
      finiteDifferences mode n dil h f k = (f (P k) - f (M k)) / (h * ((C k : Int) : K)) := by
  cases mode
  · exact ⟨_, _, _, fun h f k => rfl⟩
  · exact ⟨_, _, _, fun h f k => rfl⟩
  · exact ⟨_, _, _, fun h f k => rfl⟩
  · refine ⟨fun k => if k < (dil : Int) then (dil : Int) + k else if k < (n : Int) - (dil : Int)
        then 2 * (dil : Int) + (k - (dil : Int)) else (n : Int) - (dil : Int) + (k - ((n : Int) - (dil : Int))),
      fun k => if k < (dil : Int) then 0 + k else if k < (n : Int) - (dil : Int)
        then 0 + (k - (dil : Int)) else (n : Int) - 2 * (dil : Int) + (k - ((n : Int) - (dil : Int))),
      fun k => if k < (dil : Int) then (dil : Int) - 0 else if k < (n : Int) - (dil : Int)
        then 2 * (dil : Int) - 0 else (n : Int) - (dil : Int) - ((n : Int) - 2 * (dil : Int)), ?_⟩
    intro h f k
    simp only [finiteDifferences, finiteDifference]
    split_ifs <;> rfl

theorem alongAxis_comm_fd (m1 m2 : FDMode) (n1 n2 d1 d2 : Nat) (h1 h2 : K) {a b : Fin D} (hab : a ≠ b)
    (F : Arr D K) :
    alongAxis b (finiteDifferences m2 n2 d2 h2) (alongAxis a (finiteDifferences m1 n1 d1 h1) F)
      = alongAxis a (finiteDifferences m1 n1 d1 h1) (alongAxis b (finiteDifferences m2 n2 d2 h2) F) := by
  obtain ⟨P1, M1, C1, e1⟩ := fd_two_point (K := K) m1 n1 d1
  obtain ⟨P2, M2, C2, e2⟩ := fd_two_point (K := K) m2 n2 d2
  funext idx
  simp only [alongAxis, e1, e2]
  have hba : b ≠ a := fun h => hab h.symm
  simp only [setIdx_ne _ _ hab, setIdx_ne _ _ hba, setIdx_comm idx hab]
  ring

end FD
end Deepali
