/-
  Proofs/FDQuadAvg.lean — prewitt / sobel on quadratic fields: the zero-padded 3-tap averaging adds
  a constant to a sampled quadratic (away from the padding), so first and second derivatives stay
  exact at interior points.
-/
import Deepali.Proofs.FDQuad

set_option linter.unusedSectionVars false

namespace Deepali
namespace FD

variable {K : Type} [Field K] {D : Nat}

theorem quadField_add_const (Q : Fin D → Fin D → K) (L h : Fin D → K) (c x : K) (idx : Idx D) :
    quadField Q L h (c + x) idx = quadField Q L h c idx + x := by
  unfold quadField; ring

/-- constant added by averaging along the axes of `l` other than `a`. -/
def avgConst (w : K × K × K) (Q : Fin D → Fin D → K) (h : Fin D → K) (a : Fin D) (l : List (Fin D)) : K :=
  (l.map (fun d => if d = a then 0 else (w.1 + w.2.2) * (h d ^ 2 * Q d d))).sum

variable [CharZero K]

theorem avgPerp_quad (sz : Fin D → Nat) (w : K × K × K) (hsum : w.1 + w.2.1 + w.2.2 = 1) (hsym : w.1 = w.2.2)
    (a : Fin D) (Q : Fin D → Fin D → K) (L h : Fin D → K) :
    ∀ (l done : List (Fin D)) (R : Arr D K) (c0 : K), (done ++ l).Nodup →
      (∀ idx, PerpInterior sz a idx done → R idx = quadField Q L h c0 idx) →
      ∀ idx, PerpInterior sz a idx (done ++ l) →
        avgPerp sz w a l R idx = quadField Q L h (c0 + avgConst w Q h a l) idx := by
  intro l
  induction l with
  | nil =>
    intro done R c0 _ hR idx hP
    simp only [avgPerp, List.foldl_nil, avgConst, List.map_nil, List.sum_nil, add_zero]
    exact hR idx (by simpa using hP)
  | cons d l ih =>
    intro done R c0 hnd hR idx hP
    have hnd' : ((done ++ [d]) ++ l).Nodup := by simpa [List.append_assoc] using hnd
    have hdn : d ∉ done := by
      have := List.nodup_append.mp hnd
      intro hmem
      exact (this.2.2 d hmem d (by simp)) rfl
    have hP' : PerpInterior sz a idx ((done ++ [d]) ++ l) := by simpa [List.append_assoc] using hP
    have hc : avgConst w Q h a (d :: l)
        = (if d = a then 0 else (w.1 + w.2.2) * (h d ^ 2 * Q d d)) + avgConst w Q h a l := by
      simp [avgConst]
    show avgPerp sz w a l (if d = a then R else alongAxis d (conv3 (sz d) w.1 w.2.1 w.2.2) R) idx = _
    rw [hc, ← add_assoc]
    refine ih (done ++ [d]) _ _ hnd' ?_ idx hP'
    intro j hj
    by_cases hda : d = a
    · rw [if_pos hda, if_pos hda, add_zero]; exact hR j (fun e he => hj e (by simp [he]))
    · rw [if_neg hda, if_neg hda]
      have hint := hj d (by simp) hda
      have hline : ∀ k : Int, R (setIdx j d k) = quadField Q L h c0 (setIdx j d k) := by
        intro k
        apply hR
        intro e he hea
        have hed : e ≠ d := fun h => hdn (h ▸ he)
        rw [setIdx_ne j k hed]
        exact hj e (by simp [he]) hea
      simp only [alongAxis]
      rw [conv3_interior _ _ _ _ _ _ hint.1 hint.2, hline, hline, hline, quadField_setIdx, quadField_setIdx,
        quadField_setIdx, quadField_add_const]
      have h2 : w.2.1 = 1 - w.1 - w.2.2 := by rw [← hsum]; ring
      rw [h2, hsym]; push_cast; ring

/-- first derivative step with averaging on a quadratic field at margin-1 interior points:
    the index-gradient over the spacing (central part of forward_central_backward: no bias). -/
theorem sdStep_avg_quad_first (mode : SDMode) (w : K × K × K) (hm : (mode.avgKernel : Option (K × K × K)) = some w)
    (hfd : mode.fdMode = .fcb) (hsum : w.1 + w.2.1 + w.2.2 = 1) (hsym : w.1 = w.2.2)
    (sz : Fin D → Nat) (Q : Fin D → Fin D → K) (L h : Fin D → K) (c : K) (a : Fin D) (hh : h a ≠ 0)
    (idx : Idx D) (h0 : 1 ≤ idx a) (h1 : idx a + 1 < sz a) (hP : PerpInterior sz a idx (List.finRange D)) :
    sdStep mode sz h a (quadField Q L h c) idx = quadGrad Q L h a idx / h a := by
  simp only [sdStep, hm, alongAxis, hfd]
  have hline : ∀ k : Int, avgPerp sz w a (List.finRange D) (quadField Q L h c) (setIdx idx a k)
      = quadField Q L h (c + avgConst w Q h a (List.finRange D)) (setIdx idx a k) := by
    intro k
    refine avgPerp_quad sz w hsum hsym a Q L h (List.finRange D) [] _ c (by simp [List.nodup_finRange])
      (fun _ _ => rfl) _ ?_
    intro d hd hda
    rw [setIdx_ne idx k hda]
    exact hP d (by simp) hda
  rw [funext hline, fd_fcb_mid _ 1 _ _ _ (by simpa using h0) (by simpa using h1), quadField_setIdx, quadField_setIdx]
  push_cast; field_simp; ring

/-- averaging perpendicular to `b` of a field that coincides with an all-axes-affine field on the
    3^(D−1) box around `idx` (and whose box avoids the padding) reproduces the affine value. -/
theorem avgPerp_box (sz : Fin D → Nat) (w : K × K × K) (hsum : w.1 + w.2.1 + w.2.2 = 1) (hsym : w.1 = w.2.2)
    (b : Fin D) (Gaff : Arr D K) (m : Fin D → K) (hG : ∀ d, AffineAlong Gaff d (m d)) (idx : Idx D) :
    ∀ (l : List (Fin D)) (R : Arr D K), l.Nodup →
      (∀ j : Idx D, (∀ d, d ∈ l ∧ d ≠ b → idx d - 1 ≤ j d ∧ j d ≤ idx d + 1) →
          (∀ d, ¬ (d ∈ l ∧ d ≠ b) → j d = idx d) → R j = Gaff j) →
      (∀ d ∈ l, d ≠ b → 1 ≤ idx d ∧ idx d + 1 < (sz d : Int)) →
      avgPerp sz w b l R idx = Gaff idx := by
  intro l
  induction l with
  | nil =>
    intro R _ H _
    simp only [avgPerp, List.foldl_nil]
    exact H idx (fun d hd => absurd hd.1 (by simp)) (fun _ _ => rfl)
  | cons d l ih =>
    intro R hnd H hint
    have hdl : d ∉ l := (List.nodup_cons.mp hnd).1
    show avgPerp sz w b l (if d = b then R else alongAxis d (conv3 (sz d) w.1 w.2.1 w.2.2) R) idx = _
    refine ih _ (List.nodup_cons.mp hnd).2 ?_ (fun e he heb => hint e (List.mem_cons_of_mem _ he) heb)
    intro j hbox hfix
    by_cases hdb : d = b
    · rw [if_pos hdb]
      refine H j ?_ ?_
      · intro e he
        rcases List.mem_cons.mp he.1 with e1 | e1
        · exact absurd (e1.trans hdb) he.2
        · exact hbox e ⟨e1, he.2⟩
      · intro e he
        exact hfix e (fun hh => he ⟨List.mem_cons_of_mem _ hh.1, hh.2⟩)
    · rw [if_neg hdb]
      have hjd : j d = idx d := hfix d (fun hh => hdl hh.1)
      have hid := hint d (by simp) hdb
      have hline : ∀ t : Int, -1 ≤ t → t ≤ 1 → R (setIdx j d (j d + t)) = Gaff (setIdx j d (j d + t)) := by
        intro t t0 t1
        refine H _ ?_ ?_
        · intro e he
          by_cases hed : e = d
          · subst hed; rw [setIdx_same, hjd]; omega
          · rw [setIdx_ne j _ hed]
            rcases List.mem_cons.mp he.1 with e1 | e1
            · exact absurd e1 hed
            · exact hbox e ⟨e1, he.2⟩
        · intro e he
          have hed : e ≠ d := fun hh => he ⟨by rw [hh]; simp, by rw [hh]; exact hdb⟩
          rw [setIdx_ne j _ hed]
          exact hfix e (fun hh => he ⟨List.mem_cons_of_mem _ hh.1, hh.2⟩)
      simp only [alongAxis]
      rw [conv3_interior _ _ _ _ _ _ (by rw [hjd]; exact hid.1) (by rw [hjd]; exact hid.2)]
      have e1 := hline (-1) (by norm_num) (by norm_num)
      have e2 := hline 0 (by norm_num) (by norm_num)
      have e3 := hline 1 (by norm_num) (by norm_num)
      have a1 : j d + -1 = j d - 1 := by ring
      have a2 : j d + 0 = j d := by ring
      rw [a1] at e1; rw [a2] at e2
      rw [e1, e2, e3, hG d j, hG d j, hG d j]
      have h2 : w.2.1 = 1 - w.1 - w.2.2 := by rw [← hsum]; ring
      rw [h2, hsym]; push_cast; ring

/-- second derivatives with prewitt / sobel of a quadratic field at margin-2 interior points. -/
theorem sdStep_avg_quad_second (mode : SDMode) (w : K × K × K) (hm : (mode.avgKernel : Option (K × K × K)) = some w)
    (hfd : mode.fdMode = .fcb) (hsum : w.1 + w.2.1 + w.2.2 = 1) (hsym : w.1 = w.2.2)
    (sz : Fin D → Nat) (Q : Fin D → Fin D → K) (L h : Fin D → K) (c : K) (a b : Fin D)
    (hh : ∀ d, h d ≠ 0) (idx : Idx D) (hint : ∀ d, 2 ≤ idx d ∧ idx d + 2 < (sz d : Int)) :
    sdStep mode sz h b (sdStep mode sz h a (quadField Q L h c)) idx = Q a b + Q b a := by
  set G : Arr D K := sdStep mode sz h a (quadField Q L h c) with hGdef
  set Gaff : Arr D K := fun j => quadGrad Q L h a j / h a with hGaff
  have hGa : ∀ d, AffineAlong Gaff d (h a * (Q a d + Q d a) * h d / h a) := by
    intro d j k
    simp only [hGaff, quadGrad]
    rw [affField_setIdx]; ring
  -- G = Gaff on the margin-1 region
  have hGeq : ∀ j : Idx D, (∀ d, 1 ≤ j d ∧ j d + 1 < (sz d : Int)) → G j = Gaff j := by
    intro j hj
    exact sdStep_avg_quad_first mode w hm hfd hsum hsym sz Q L h c a (hh a) j (hj a).1 (hj a).2
      (fun d _ _ => hj d)
  -- averaged G along the line through idx in direction b, at idx b − 1 and idx b + 1
  have hR2 : ∀ t : Int, -1 ≤ t → t ≤ 1 →
      avgPerp sz w b (List.finRange D) G (setIdx idx b (idx b + t)) = Gaff (setIdx idx b (idx b + t)) := by
    intro t t0 t1
    refine avgPerp_box sz w hsum hsym b Gaff _ hGa _ (List.finRange D) G (List.nodup_finRange D) ?_ ?_
    · intro j hbox hfix
      apply hGeq
      intro d
      by_cases hdb : d = b
      · have := hfix d (fun hh => hh.2 hdb)
        subst hdb
        rw [this, setIdx_same]; have := hint d; omega
      · have := hbox d ⟨by simp, hdb⟩
        rw [setIdx_ne idx _ hdb] at this
        have := hint d; omega
    · intro d _ hdb
      rw [setIdx_ne idx _ hdb]; have := hint d; omega
  simp only [sdStep, hm, alongAxis, hfd]
  have hb := hint b
  rw [fd_fcb_mid _ 1 _ _ _ (by push_cast; omega) (by push_cast; omega)]
  have e1 := hR2 1 (by norm_num) (by norm_num)
  have e2 := hR2 (-1) (by norm_num) (by norm_num)
  have a2 : idx b + -1 = idx b - 1 := by ring
  rw [a2] at e2
  have c1 : idx b + ((1 : Nat) : Int) = idx b + 1 := by push_cast; ring
  have c2 : idx b - ((1 : Nat) : Int) = idx b - 1 := by push_cast; ring
  rw [c1, c2]
  change (avgPerp sz w b (List.finRange D) G (setIdx idx b (idx b + 1))
      - avgPerp sz w b (List.finRange D) G (setIdx idx b (idx b - 1))) / _ = _
  rw [e1, e2, hGa b idx, hGa b idx]
  have ha := hh a
  have hb' := hh b
  push_cast; field_simp; ring

end FD
end Deepali
