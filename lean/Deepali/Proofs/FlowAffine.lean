/-
  Proofs/FlowAffine.lean — sampling / composing / exponentiating *affine* displacement fields
  on a grid is exact as long as the sample hull is mapped into itself.
-/
import Deepali.Model.FlowOps
import Deepali.Proofs.SamplePipe
import Mathlib.Logic.Function.Iterate

set_option linter.unusedSectionVars false

namespace Deepali
open Matrix
variable {K : Type} [Field K] [LinearOrder K] [IsStrictOrderedRing K] [FloorRing K] {d : Nat}

/-- integral index inside the image box. -/
def InBox (n : Fin d → Nat) (idx : Fin d → Int) : Prop := ∀ i, 0 ≤ idx i ∧ idx i < (n i : Int)

/-- a normalised point whose continuous index lies in the sample hull `[0, n−1]^d`. -/
def InHull (ac : Bool) (n : Fin d → Nat) (p : Vec d K) : Prop :=
  ∀ i, 0 ≤ unnormalize ac ((n i : Nat) : K) (p i) ∧ unnormalize ac ((n i : Nat) : K) (p i) ≤ ((n i : Nat) : K) - 1

theorem coordAt_affine (n : Nat) (h2 : 2 ≤ n) (ac : Bool) (k : K) :
    coordAt n ac k = (if ac then (-1 : K) else -1 + 1 / (n : K)) + (if ac then 2 / ((n : K) - 1) else 2 / (n : K)) * k := by
  have hn1 : n ≠ 1 := by omega
  have h2' : (2 : K) ≤ (n : K) := by exact_mod_cast h2
  have h0 : (n : K) ≠ 0 := by intro e; rw [e] at h2'; linarith
  cases ac <;> simp only [coordAt, hn1, Bool.false_eq_true, if_false, if_true, Nat.cast_one, Nat.cast_ofNat]
  · field_simp
  · ring

theorem coordAt_unnormalize (n : Nat) (h2 : 2 ≤ n) (ac : Bool) (p : K) :
    coordAt n ac (unnormalize ac (n : K) p) = p := by
  have h2' : (2 : K) ≤ (n : K) := by exact_mod_cast h2
  have h0 : (n : K) ≠ 0 := by intro e; rw [e] at h2'; linarith
  have h1 : (n : K) - 1 ≠ 0 := by intro e; linarith
  rw [coordAt_affine n h2]
  cases ac <;> simp only [unnormalize, Bool.false_eq_true, if_false, if_true, Nat.cast_one, Nat.cast_ofNat] <;>
    field_simp <;> ring

theorem unnormalize_coordAt (n : Nat) (h2 : 2 ≤ n) (ac : Bool) (k : K) :
    unnormalize ac (n : K) (coordAt n ac k) = k := by
  have h2' : (2 : K) ≤ (n : K) := by exact_mod_cast h2
  have h0 : (n : K) ≠ 0 := by intro e; rw [e] at h2'; linarith
  have h1 : (n : K) - 1 ≠ 0 := by intro e; linarith
  rw [coordAt_affine n h2]
  cases ac <;> simp only [unnormalize, Bool.false_eq_true, if_false, if_true, Nat.cast_one, Nat.cast_ofNat] <;>
    field_simp <;> ring

/-- lattice points are in the hull. -/
theorem latticePoint_inHull (ac : Bool) (n : Fin d → Nat) (h2 : ∀ i, 2 ≤ n i) (idx : Fin d → Int)
    (hb : InBox n idx) : InHull ac n (latticePoint ac n idx : Vec d K) := by
  intro i
  simp only [latticePoint, unnormalize_coordAt _ (h2 i)]
  have h0 : (0 : K) ≤ ((idx i : Int) : K) := by exact_mod_cast (hb i).1
  have h1 : ((idx i : Int) : K) + 1 ≤ ((n i : Int) : K) := by exact_mod_cast Int.add_one_le_of_lt (hb i).2
  push_cast at h1
  exact ⟨h0, by linarith⟩

theorem clampCoord_inside (n : Nat) (x : K) (h0 : 0 ≤ x) (h1 : x ≤ (n : K) - 1) : clampCoord n x = x := by
  simp only [clampCoord, Nat.cast_zero, Nat.cast_one, not_lt.mpr h0, not_lt.mpr h1, if_false]

/-- interpolating samples of an affine function *of the lattice coordinates*. -/
theorem interpLin_affine_lattice (a : Fin d → K) (b : K) (α β : Fin d → K) (x : Fin d → K) :
    interpLin d (fun idx => ∑ i, a i * (α i + β i * ((idx i : Int) : K)) + b) x
      = ∑ i, a i * (α i + β i * x i) + b := by
  have h : (fun idx : Fin d → Int => ∑ i, a i * (α i + β i * ((idx i : Int) : K)) + b)
      = fun idx => ∑ i, (a i * β i) * ((idx i : Int) : K) + (∑ i, a i * α i + b) := by
    funext idx
    rw [← add_assoc, ← Finset.sum_add_distrib]
    congr 1; apply Finset.sum_congr rfl; intro i _; ring
  rw [h, interpLin_affine]
  rw [← add_assoc, ← Finset.sum_add_distrib]
  congr 1; apply Finset.sum_congr rfl; intro i _; ring

/-- **sampling an affine vector field inside the hull is exact** (either padding mode, either
    convention): if `f` agrees on the box with `x ↦ B x + b` evaluated at the lattice points,
    sampling at any hull point `p` returns `B p + b`. -/
theorem sampleVField_affine (ac : Bool) (pad : Padding) (n : Fin d → Nat) (h2 : ∀ i, 2 ≤ n i)
    (B : Mat d K) (b : Vec d K) (f : VField d K)
    (hf : ∀ idx, InBox n idx → f idx = (B.mulVec (latticePoint ac n idx)).add b)
    (p : Vec d K) (hp : InHull ac n p) :
    sampleVField ac pad n f p = (B.mulVec p).add b := by
  funext c
  have hx : ∀ i, 0 ≤ unnormalize ac ((n i : Nat) : K) (p i) ∧
      unnormalize ac ((n i : Nat) : K) (p i) ≤ ((n i : Nat) : K) - 1 := hp
  have hcl : (fun i => clampCoord (n i) (unnormalize ac ((n i : Nat) : K) (p i)))
      = fun i => unnormalize ac ((n i : Nat) : K) (p i) := by
    funext i; exact clampCoord_inside _ _ (hx i).1 (hx i).2
  have hmain : interpLin d (extZero n (fun idx => f idx c)) (fun i => unnormalize ac ((n i : Nat) : K) (p i))
      = (B.mulVec p).add b c := by
    -- replace the zero-extended samples by the affine formula on the used corners
    have hcongr := interpLin_congr d (extZero n (fun idx => f idx c))
      (fun idx => ∑ i, B c i * ((if ac then (-1 : K) else -1 + 1 / (n i : K))
          + (if ac then 2 / ((n i : K) - 1) else 2 / (n i : K)) * ((idx i : Int) : K)) + b c)
      (fun i => unnormalize ac ((n i : Nat) : K) (p i)) (by
        intro idx hu
        have hb : InBox n idx := usedCorner_inBounds n _ hx idx hu
        simp only [extZero, Nat.cast_zero]
        rw [if_pos (show ∀ i, 0 ≤ idx i ∧ idx i < (n i : Int) from hb), hf idx hb]
        simp only [vadd_eq, Pi.add_apply, Mat.mulVec, sumFin_eq, latticePoint]
        congr 1; apply Finset.sum_congr rfl; intro i _
        rw [coordAt_affine _ (h2 i)])
    rw [hcongr, interpLin_affine_lattice]
    simp only [vadd_eq, Pi.add_apply, Mat.mulVec, sumFin_eq]
    congr 1; apply Finset.sum_congr rfl; intro i _
    rw [← coordAt_affine _ (h2 i), coordAt_unnormalize _ (h2 i)]
  cases pad
  · simpa only [sampleVField, gridSampleLin] using hmain
  · simp only [sampleVField, gridSampleLin, hcl]; exact hmain

/-- an affine map of normalised coordinates and its displacement. -/
def affMap (M : Mat d K) (t : Vec d K) : Vec d K → Vec d K := fun x => (M.mulVec x).add t
def dispOf (φ : Vec d K → Vec d K) (x : Vec d K) : Vec d K := (φ x).sub x

def matSubOne (M : Mat d K) : Mat d K := fun i j => M i j - (Mat.one : Mat d K) i j

theorem dispOf_affMap (M : Mat d K) (t x : Vec d K) :
    dispOf (affMap M t) x = ((matSubOne M).mulVec x).add t := by
  funext c
  simp only [dispOf, affMap, matSubOne, vadd_eq, vsub_eq, Pi.add_apply, Pi.sub_apply, Mat.mulVec, sumFin_eq, sub_mul,
    Finset.sum_sub_distrib]
  have : ∑ j, (Mat.one : Mat d K) c j * x j = x c := by
    simp [Mat.one, Finset.sum_ite_eq]
  rw [this]; ring

/-- **composition of affine displacement fields is exact**: if `u`, `v` are the sampled
    displacements of affine maps `φu`, `φv` and `φu` keeps every lattice point in the hull, then
    `compose_flows(u, v)` is the sampled displacement of `φv ∘ φu`. -/
theorem composeFlows_affine (ac : Bool) (n : Fin d → Nat) (h2 : ∀ i, 2 ≤ n i)
    (Mu Mv : Mat d K) (tu tv : Vec d K) (u v : VField d K)
    (hu : ∀ idx, InBox n idx → u idx = dispOf (affMap Mu tu) (latticePoint ac n idx))
    (hv : ∀ idx, InBox n idx → v idx = dispOf (affMap Mv tv) (latticePoint ac n idx))
    (hull : ∀ idx, InBox n idx → InHull ac n (affMap Mu tu (latticePoint ac n idx)))
    (idx : Fin d → Int) (hb : InBox n idx) :
    composeFlows ac n u v idx = dispOf (affMap Mv tv ∘ affMap Mu tu) (latticePoint ac n idx) := by
  have hp : (latticePoint ac n idx : Vec d K).add (u idx) = affMap Mu tu (latticePoint ac n idx) := by
    rw [hu idx hb]; simp only [dispOf, vadd_eq, vsub_eq]; abel
  have hs := sampleVField_affine ac .border n h2 _ tv v
    (fun idx hb => by rw [hv idx hb, dispOf_affMap]) _ (hull idx hb)
  unfold composeFlows
  rw [hp, hs, ← dispOf_affMap, hu idx hb]
  simp only [dispOf, Function.comp, vadd_eq, vsub_eq]; abel

/-- one squaring step of `expv` on the sampled displacement of an affine map `φ` that keeps
    the lattice in the hull yields the sampled displacement of `φ ∘ φ` (either padding). -/
theorem expvStep_affine (ac : Bool) (pad : Padding) (n : Fin d → Nat) (h2 : ∀ i, 2 ≤ n i)
    (M : Mat d K) (t : Vec d K) (disp : VField d K)
    (hd : ∀ idx, InBox n idx → disp idx = dispOf (affMap M t) (latticePoint ac n idx))
    (hull : ∀ idx, InBox n idx → InHull ac n (affMap M t (latticePoint ac n idx)))
    (idx : Fin d → Int) (hb : InBox n idx) :
    expvStep ac pad n disp idx = dispOf (affMap M t ∘ affMap M t) (latticePoint ac n idx) := by
  have hp : (latticePoint ac n idx : Vec d K).add (disp idx) = affMap M t (latticePoint ac n idx) := by
    rw [hd idx hb]; simp only [dispOf, vadd_eq, vsub_eq]; abel
  have hs := sampleVField_affine ac pad n h2 _ t disp
    (fun idx hb => by rw [hd idx hb, dispOf_affMap]) _ (hull idx hb)
  unfold expvStep
  rw [hp, hs, ← dispOf_affMap, hd idx hb]
  simp only [dispOf, Function.comp, vadd_eq, vsub_eq]; abel

end Deepali

namespace Deepali
open Matrix
variable {K : Type} [Field K] [LinearOrder K] [IsStrictOrderedRing K] [FloorRing K] {d : Nat}

theorem affMap_comp (M N : Mat d K) (s t : Vec d K) :
    affMap M s ∘ affMap N t = affMap (M.mul N) ((M.mulVec t).add s) := by
  funext x
  simp only [Function.comp, affMap, mul_mulVec]
  rw [mulVec_add]; simp only [vadd_eq]; abel

theorem iter_succ' {β : Type} (f : β → β) (k : Nat) (x : β) : iter f (k + 1) x = iter f k (f x) := rfl

/-- `k` squaring steps on the sampled displacement of a hull-preserving affine map `φ` give the
    sampled displacement of `φ` iterated `2^k` times. -/
theorem iter_expvStep_affine (ac : Bool) (pad : Padding) (n : Fin d → Nat) (h2 : ∀ i, 2 ≤ n i) (k : Nat) :
    ∀ (M : Mat d K) (t : Vec d K) (disp : VField d K),
      (∀ idx, InBox n idx → disp idx = dispOf (affMap M t) (latticePoint ac n idx)) →
      (∀ p : Vec d K, InHull ac n p → InHull ac n (affMap M t p)) →
      ∀ idx, InBox n idx →
        iter (expvStep ac pad n) k disp idx = dispOf ((affMap M t)^[2 ^ k]) (latticePoint ac n idx) := by
  induction k with
  | zero => intro M t disp hd _ idx hb; simpa [iter] using hd idx hb
  | succ k ih =>
    intro M t disp hd hinv idx hb
    rw [iter_succ']
    have hstep : ∀ idx, InBox n idx → expvStep ac pad n disp idx
        = dispOf (affMap (M.mul M) ((M.mulVec t).add t)) (latticePoint ac n idx) := by
      intro idx hb
      rw [← affMap_comp]
      exact expvStep_affine ac pad n h2 M t disp hd
        (fun idx hb => hinv _ (latticePoint_inHull ac n h2 idx hb)) idx hb
    have hinv' : ∀ p : Vec d K, InHull ac n p → InHull ac n (affMap (M.mul M) ((M.mulVec t).add t) p) := by
      intro p hp; rw [← affMap_comp]; exact hinv _ (hinv _ hp)
    rw [ih _ _ _ hstep hinv' idx hb, ← affMap_comp]
    congr 1
    rw [pow_succ, Nat.mul_comm, Function.iterate_mul]
    rfl

end Deepali
