/-
  Proofs/FlowHull.lean — the sample hull in normalised coordinates and a sufficient condition
  for an affine map to keep it invariant.
-/
import Deepali.Proofs.FlowAffine
import Mathlib.Algebra.Order.BigOperators.Group.Finset
import Mathlib.Algebra.Order.AbsoluteValue.Basic
import Mathlib.Tactic.Positivity

set_option linter.unusedSectionVars false

namespace Deepali
open Matrix
variable {K : Type} [Field K] [LinearOrder K] [IsStrictOrderedRing K] [FloorRing K] {d : Nat}

/-- half side length of the sample hull along axis `i` in normalised coordinates:
    `1` for `align_corners=True`, `1 − 1/n` otherwise. -/
def hullRadius (ac : Bool) (n : Nat) : K := if ac then 1 else 1 - 1 / (n : K)

theorem inHull_iff (ac : Bool) (n : Fin d → Nat) (h2 : ∀ i, 2 ≤ n i) (p : Vec d K) :
    InHull ac n p ↔ ∀ i, |p i| ≤ hullRadius ac (n i) := by
  unfold InHull
  apply forall_congr'; intro i
  have h2' : (2 : K) ≤ (n i : K) := by exact_mod_cast h2 i
  have hn : (0 : K) < (n i : K) := by linarith
  have hn1 : (0 : K) < (n i : K) - 1 := by linarith
  rw [abs_le]
  cases ac <;> simp only [unnormalize, hullRadius, Bool.false_eq_true, if_false, if_true, Nat.cast_one, Nat.cast_ofNat]
  · constructor
    · rintro ⟨h0, h1⟩
      have e : (1 : K) / (n i : K) * (n i : K) = 1 := by field_simp
      constructor
      · by_contra hc; simp only [not_le] at hc
        have : (p i + 1) * (n i : K) < 1 := by
          have := mul_lt_mul_of_pos_right (by linarith : p i + 1 < 1 / (n i : K)) hn
          linarith
        linarith
      · by_contra hc; simp only [not_le] at hc
        have : (2 - 1 / (n i : K)) * (n i : K) < (p i + 1) * (n i : K) :=
          mul_lt_mul_of_pos_right (by linarith) hn
        have e2 : (2 - 1 / (n i : K)) * (n i : K) = 2 * (n i : K) - 1 := by rw [sub_mul, e]
        linarith
    · rintro ⟨h0, h1⟩
      have e : (1 : K) / (n i : K) * (n i : K) = 1 := by field_simp
      constructor
      · have : (1 / (n i : K)) * (n i : K) ≤ (p i + 1) * (n i : K) :=
          mul_le_mul_of_nonneg_right (by linarith) hn.le
        linarith
      · have : (p i + 1) * (n i : K) ≤ (2 - 1 / (n i : K)) * (n i : K) :=
          mul_le_mul_of_nonneg_right (by linarith) hn.le
        have e2 : (2 - 1 / (n i : K)) * (n i : K) = 2 * (n i : K) - 1 := by rw [sub_mul, e]
        linarith
  · constructor
    · rintro ⟨h0, h1⟩
      constructor
      · by_contra hc; simp only [not_le] at hc
        have : (p i + 1) / 2 * ((n i : K) - 1) < 0 := mul_neg_of_neg_of_pos (by linarith) hn1
        linarith
      · by_contra hc; simp only [not_le] at hc
        have : 1 * ((n i : K) - 1) < (p i + 1) / 2 * ((n i : K) - 1) :=
          mul_lt_mul_of_pos_right (by linarith) hn1
        linarith
    · rintro ⟨h0, h1⟩
      constructor
      · exact mul_nonneg (by linarith) hn1.le
      · have : (p i + 1) / 2 * ((n i : K) - 1) ≤ 1 * ((n i : K) - 1) :=
          mul_le_mul_of_nonneg_right (by linarith) hn1.le
        linarith

/-- if the rows of `M` are dominated in the weighted ∞-norm (`Σ_j |M i j|·r_j + |t_i| ≤ r_i`),
    the affine map `x ↦ M x + t` maps the hull into itself. -/
theorem affMap_hull_invariant (ac : Bool) (n : Fin d → Nat) (h2 : ∀ i, 2 ≤ n i) (M : Mat d K) (t : Vec d K)
    (hdom : ∀ i, ∑ j, |M i j| * hullRadius ac (n j) + |t i| ≤ hullRadius ac (n i))
    (p : Vec d K) (hp : InHull ac n p) : InHull ac n (affMap M t p) := by
  rw [inHull_iff ac n h2] at hp ⊢
  intro i
  simp only [affMap, vadd_eq, Pi.add_apply, Mat.mulVec, sumFin_eq]
  calc |∑ j, M i j * p j + t i| ≤ |∑ j, M i j * p j| + |t i| := abs_add_le _ _
    _ ≤ ∑ j, |M i j * p j| + |t i| := by gcongr; exact Finset.abs_sum_le_sum_abs _ _
    _ ≤ ∑ j, |M i j| * hullRadius ac (n j) + |t i| := by
        gcongr with j _
        rw [abs_mul]
        exact mul_le_mul_of_nonneg_left (hp j) (abs_nonneg _)
    _ ≤ hullRadius ac (n i) := hdom i

end Deepali
