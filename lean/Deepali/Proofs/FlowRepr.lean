/-
  Proofs/FlowRepr.lean — vector representations of a flow field: conversions are the grid's
  vector maps; sampling / exponentiation act on *index-space* displacements, which do not depend on
  the representation or the align_corners convention.
-/
import Deepali.Proofs.FlowHull

set_option linter.unusedSectionVars false

namespace Deepali
open Matrix
variable {K : Type} [Field K] [LinearOrder K] [IsStrictOrderedRing K] [FloorRing K] {d : Nat}

theorem toGridLin_fromGridLin {g : Grid d K} (h : g.Valid) (a : Axes) (hc : g.CornersOK a) (w : Vec d K) :
    toGridLin g a (fromGridLin g a w) = w := by
  have := toGrid_fromGrid h a hc (0 + w)
  rw [fromGrid_add, toGrid_add, toGrid_fromGrid h a hc] at this
  simpa using this

/-- interpolation is homogeneous in the image. -/
theorem interpLin_smul (d : Nat) (c : K) (img : (Fin d → Int) → K) (x : Fin d → K) :
    interpLin d (fun idx => c * img idx) x = c * interpLin d img x := by
  induction d with
  | zero => simp only [interpLin]
  | succ d ih =>
    rw [interpLin_succ, interpLin_succ, ih (fun idx => img (consIdx ⌊x 0⌋ idx)),
      ih (fun idx => img (consIdx (⌊x 0⌋ + 1) idx))]
    ring

theorem extZero_smul (n : Fin d → Nat) (c : K) (img : (Fin d → Int) → K) :
    extZero n (fun idx => c * img idx) = fun idx => c * extZero n img idx := by
  funext idx; simp only [extZero, Nat.cast_zero]; split <;> simp

/-- index-space version of one squaring step: `D(idx) + interp(D)(clamp(idx + D(idx)))`. -/
def expvStepIdx (n : Fin d → Nat) (D : VField d K) : VField d K :=
  fun idx => fun c => D idx c +
    interpLin d (extZero n (fun k => D k c)) (fun i => clampCoord (n i) (((idx i : Int) : K) + D idx i))

/-- cube(_corners) units ↔ index units of a displacement. -/
def idxScale (ac : Bool) (n : Fin d → Nat) (i : Fin d) : K := if ac then ((n i : K) - 1) / 2 else (n i : K) / 2

def toIdxUnits (ac : Bool) (n : Fin d → Nat) (f : VField d K) : VField d K := fun idx i => idxScale ac n i * f idx i
def fromIdxUnits (ac : Bool) (n : Fin d → Nat) (f : VField d K) : VField d K := fun idx i => f idx i / idxScale ac n i

theorem idxScale_ne (ac : Bool) (n : Fin d → Nat) (h2 : ∀ i, 2 ≤ n i) (i : Fin d) : (idxScale ac n i : K) ≠ 0 := by
  have h2' : (2 : K) ≤ (n i : K) := by exact_mod_cast h2 i
  cases ac <;> simp only [idxScale, Bool.false_eq_true, if_false, if_true]
  · intro e; have : (n i : K) = 0 := by linarith [e, (div_eq_zero_iff.mp e).resolve_right (by norm_num)]
    linarith
  · intro e; have : (n i : K) - 1 = 0 := (div_eq_zero_iff.mp e).resolve_right (by norm_num)
    linarith

/-- **conjugation**: a squaring step in either normalised convention is the index-space step. -/
theorem expvStep_conj (ac : Bool) (n : Fin d → Nat) (h2 : ∀ i, 2 ≤ n i) (disp : VField d K) :
    expvStep ac .border n disp = fromIdxUnits ac n (expvStepIdx n (toIdxUnits ac n disp)) := by
  funext idx c
  have hs := idxScale_ne (K := K) ac n h2
  have hpos : (fun i => clampCoord (n i) (unnormalize ac ((n i : Nat) : K)
        ((latticePoint ac n idx : Vec d K) i + disp idx i)))
      = fun i => clampCoord (n i) (((idx i : Int) : K) + idxScale ac n i * disp idx i) := by
    funext i
    congr 1
    have h2' : (2 : K) ≤ (n i : K) := by exact_mod_cast h2 i
    have h0 : (n i : K) ≠ 0 := by intro e; rw [e] at h2'; linarith
    have h1 : (n i : K) - 1 ≠ 0 := by intro e; linarith
    simp only [latticePoint, coordAt_affine _ (h2 i), idxScale]
    cases ac <;> simp only [unnormalize, Bool.false_eq_true, if_false, if_true, Nat.cast_one, Nat.cast_ofNat] <;>
      field_simp <;> ring
  simp only [expvStep, sampleVField, gridSampleLin, Vec.add, fromIdxUnits, expvStepIdx, toIdxUnits, hpos]
  rw [extZero_smul, interpLin_smul]
  field_simp [hs c]

theorem toIdx_fromIdx (ac : Bool) (n : Fin d → Nat) (h2 : ∀ i, 2 ≤ n i) (f : VField d K) :
    toIdxUnits ac n (fromIdxUnits ac n f) = f := by
  funext idx i; simp only [toIdxUnits, fromIdxUnits]; field_simp [idxScale_ne (K := K) ac n h2 i]

theorem iter_expvStep_conj (ac : Bool) (n : Fin d → Nat) (h2 : ∀ i, 2 ≤ n i) (k : Nat) (disp : VField d K) :
    iter (expvStep ac .border n) k disp
      = fromIdxUnits ac n (iter (expvStepIdx n) k (toIdxUnits ac n disp)) := by
  induction k generalizing disp with
  | zero =>
    funext idx i; simp only [iter, fromIdxUnits, toIdxUnits]
    field_simp [idxScale_ne (K := K) ac n h2 i]
  | succ k ih =>
    rw [iter_succ', iter_succ', ih, expvStep_conj ac n h2, toIdx_fromIdx ac n h2]

/-- `expv` in either convention = the same index-space computation on the index-unit field. -/
theorem expv_conj (ac : Bool) (n : Fin d → Nat) (h2 : ∀ i, 2 ≤ n i) (scale : K) (steps : Nat) (f : VField d K) :
    toIdxUnits ac n (expv ac .border n scale false steps f)
      = (if steps = 0 then (fun idx => Vec.smul scale (toIdxUnits ac n f idx))
         else iter (expvStepIdx n) steps (fun idx => Vec.smul (scale / ((2 ^ steps : Nat) : K)) (toIdxUnits ac n f idx))) := by
  unfold expv
  simp only [Bool.false_eq_true, if_false]
  split
  · funext idx i; simp only [toIdxUnits, Vec.smul]; ring
  · rw [iter_expvStep_conj ac n h2, toIdx_fromIdx ac n h2]
    congr 1; funext idx i; simp only [toIdxUnits, Vec.smul]; ring

end Deepali
