/-
  Proofs/GradCore.lean — calculus bridge for property C20: an exact expansion
  `f (x + t) = f x + t·g + t²·r t` (with `r` continuous at 0) gives `HasDerivAt f g x`;
  derivative at 0 of a quotient of two quadratics; `floor` is locally constant off the integers.
-/
import Mathlib.Analysis.Calculus.Deriv.Slope
import Mathlib.Analysis.Calculus.Deriv.Inv
import Mathlib.Analysis.Calculus.Deriv.Add
import Mathlib.Analysis.Calculus.Deriv.Mul
import Mathlib.Analysis.Calculus.Deriv.Pow
import Mathlib.Topology.Algebra.Order.Floor
import Mathlib.Tactic.Ring
import Mathlib.Tactic.FieldSimp
import Mathlib.Tactic.Linarith

set_option linter.unusedSectionVars false

namespace Deepali
open Filter Topology

/-- An exact expansion with quadratic remainder implies differentiability with derivative `g`. The
    expansion is only needed for `t` near 0 (so kinks at a positive distance are allowed). -/
theorem hasDerivAt_of_quadratic_remainder {f : ℝ → ℝ} {x g : ℝ} {r : ℝ → ℝ}
    (h : ∀ᶠ t in 𝓝 (0 : ℝ), f (x + t) = f x + t * g + t ^ 2 * r t) (hr : ContinuousAt r 0) :
    HasDerivAt f g x := by
  rw [hasDerivAt_iff_tendsto_slope_zero]
  have h1 : Tendsto (fun t : ℝ => g + t * r t) (𝓝 0) (𝓝 (g + 0 * r 0)) :=
    tendsto_const_nhds.add ((continuousAt_id.tendsto).mul hr.tendsto)
  simp only [zero_mul, add_zero] at h1
  refine (h1.mono_left nhdsWithin_le_nhds).congr' ?_
  have h2 : ∀ᶠ t in 𝓝[≠] (0 : ℝ), f (x + t) = f x + t * g + t ^ 2 * r t := h.filter_mono nhdsWithin_le_nhds
  filter_upwards [h2, self_mem_nhdsWithin] with t ht hne
  have hne' : t ≠ 0 := hne
  rw [ht, smul_eq_mul]
  field_simp
  ring

/-- global form: the expansion holds for every `t`. -/
theorem hasDerivAt_of_quadratic_remainder' {f : ℝ → ℝ} {x g : ℝ} {r : ℝ → ℝ}
    (h : ∀ t, f (x + t) = f x + t * g + t ^ 2 * r t) (hr : ContinuousAt r 0) : HasDerivAt f g x :=
  hasDerivAt_of_quadratic_remainder (Eventually.of_forall h) hr

/-- a function of the increment that is affine in it: `F t = F 0 + t·g` near 0. -/
theorem hasDerivAt_of_affine_near {F : ℝ → ℝ} {g : ℝ}
    (h : ∀ᶠ t in 𝓝 (0 : ℝ), F t = F 0 + t * g) : HasDerivAt F g 0 := by
  apply hasDerivAt_of_quadratic_remainder (r := fun _ => 0) _ continuousAt_const
  filter_upwards [h] with t ht
  simp only [zero_add, mul_zero, add_zero]
  exact ht

/-- derivative at 0 of `(a + t·b + t²·b₂)/(c + t·d + t²·e)` is `(b·c − a·d)/c²` when `c ≠ 0`. -/
theorem hasDerivAt_ratio (a b b2 c d e : ℝ) (hc : c ≠ 0) :
    HasDerivAt (fun t : ℝ => (a + t * b + t ^ 2 * b2) / (c + t * d + t ^ 2 * e)) ((b * c - a * d) / (c * c)) 0 := by
  have quad : ∀ p q q2 : ℝ, HasDerivAt (fun t : ℝ => p + t * q + t ^ 2 * q2) q 0 := by
    intro p q q2
    have h1 : HasDerivAt (fun t : ℝ => t * q) q 0 := by simpa using (hasDerivAt_id (0 : ℝ)).mul_const q
    have h2 : HasDerivAt (fun t : ℝ => t ^ 2 * q2) 0 0 := by
      have := ((hasDerivAt_id (0 : ℝ)).pow 2).mul_const q2
      simpa using this
    have h3 := ((hasDerivAt_const (0 : ℝ) p).add h1).add h2
    have e : (((fun _ : ℝ => p) + fun t => t * q) + fun t => t ^ 2 * q2) = fun t => p + t * q + t ^ 2 * q2 := by
      funext t; simp only [Pi.add_apply]
    rw [e] at h3
    exact h3.congr_deriv (by ring)
  have h0 : (fun t : ℝ => c + t * d + t ^ 2 * e) 0 ≠ 0 := by simpa using hc
  have := (quad a b b2).fun_div (quad c d e) h0
  refine this.congr_deriv ?_
  simp only [mul_zero, zero_mul, add_zero, ne_eq, OfNat.ofNat_ne_zero, not_false_eq_true, zero_pow]
  field_simp

/-- `1 − quotient` (the shape of NCC). -/
theorem hasDerivAt_neg_ratio_add_one (a b b2 c d e : ℝ) (hc : c ≠ 0) :
    HasDerivAt (fun t : ℝ => -((a + t * b + t ^ 2 * b2) / (c + t * d + t ^ 2 * e)) + 1)
      (-((b * c - a * d) / (c * c))) 0 := by
  have h2 := ((hasDerivAt_ratio a b b2 c d e hc).neg).add_const (1 : ℝ)
  exact h2

/-- off the integers `floor` is locally constant. -/
theorem floor_add_eventually_eq {x : ℝ} (hx : x ≠ (⌊x⌋ : ℝ)) :
    ∀ᶠ t in 𝓝 (0 : ℝ), ⌊x + t⌋ = ⌊x⌋ := by
  have hlt : (⌊x⌋ : ℝ) < x := lt_of_le_of_ne (Int.floor_le x) (Ne.symm hx)
  have hlt' : x < (⌊x⌋ : ℝ) + 1 := Int.lt_floor_add_one x
  have hopen : ∀ᶠ t in 𝓝 (0 : ℝ), (⌊x⌋ : ℝ) - x < t ∧ t < (⌊x⌋ : ℝ) + 1 - x := by
    apply Filter.Eventually.and
    · exact Ioi_mem_nhds (by linarith)
    · exact Iio_mem_nhds (by linarith)
  filter_upwards [hopen] with t ht
  rw [Int.floor_eq_iff]
  constructor <;> [linarith [ht.1]; linarith [ht.2]]

end Deepali
