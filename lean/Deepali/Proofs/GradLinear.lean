/-
  Proofs/GradLinear.lean — linear operations: cubic B-spline evaluation is linear in the coefficients
  with matrix `evalCoef`; finite-difference stencils, their separable N-D lifts and chains are linear
  maps; a quadratic form built from linear maps expands exactly with the model gradient.
-/
import Deepali.Model.Grad
import Deepali.Proofs.LossesBasic
import Mathlib.Tactic.Ring
import Mathlib.Tactic.Linarith

set_option linter.unusedSectionVars false

namespace Deepali.Grad
open Deepali Deepali.Loss Deepali.FD

section Field
variable {K : Type} [Field K]

/-! ### (e) B-spline evaluation -/

theorem getZ_bumpList {c : List K} {i : Nat} (hi : i < c.length) (t : K) (j : Nat) :
    getZ (bumpList i t c) j = if j = i then getZ c j + t else getZ c j := by
  unfold bumpList getZ
  by_cases h : j = i
  · subst h
    simp [List.getD_eq_getElem?_getD, List.getElem?_set, hi]
  · have h' : ¬ i = j := fun e => h e.symm
    simp [List.getD_eq_getElem?_getD, List.getElem?_set, h, h']

/-- `evalAt W · x` is linear in the coefficient list, with matrix entry `evalCoef W x i`. -/
theorem evalAt_bumpList (W : List (W4 K)) (c : List K) {i : Nat} (hi : i < c.length) (t : K) (x : Nat) :
    evalAt W (bumpList i t c) x = evalAt W c x + t * evalCoef W x i := by
  unfold evalAt evalCoef
  cases hW : W[x % W.length]? with
  | none => simp only [hW]; simp
  | some w =>
    simp only [hW, getZ_bumpList hi, W4.dot, Nat.cast_zero]
    split_ifs <;> first | ring1 | (exfalso; omega)

/-! ### (f) finite differences -/

/-- the 1-D stencil operator is linear in the signal (finite_differences @1729-1772). -/
theorem finiteDifferences_linear (mode : FDMode) (n dil : Nat) (h : K) (f g : Int → K) (t : K) (k : Int) :
    finiteDifferences mode n dil h (fun m => f m + t * g m) k
      = finiteDifferences mode n dil h f k + t * finiteDifferences mode n dil h g k := by
  cases mode <;> simp only [finiteDifferences, finiteDifference, padReplicate]
  · ring
  · ring
  · ring
  · split_ifs <;> ring

/-- … hence the coefficient of `f j` in output `k` is the impulse response `fdCoef`. -/
theorem finiteDifferences_impulse (mode : FDMode) (n dil : Nat) (h : K) (f : Int → K) (t : K) (k j : Int) :
    finiteDifferences mode n dil h (fun m => f m + t * (if m = j then 1 else 0)) k
      = finiteDifferences mode n dil h f k + t * fdCoef mode n dil h k j := by
  rw [finiteDifferences_linear]; simp only [fdCoef, Nat.cast_one, Nat.cast_zero]

/-- a linear operator on D-dimensional arrays. -/
def IsLinOp {D : Nat} (L : Arr D K → Arr D K) : Prop :=
  ∀ (A B : Arr D K) (t : K) (idx : Idx D), L (fun j => A j + t * B j) idx = L A idx + t * L B idx

theorem IsLinOp.id {D : Nat} : IsLinOp (K := K) (D := D) (fun A => A) := fun _ _ _ _ => rfl

theorem IsLinOp.comp {D : Nat} {L M : Arr D K → Arr D K} (hL : IsLinOp L) (hM : IsLinOp M) :
    IsLinOp (fun A => L (M A)) := by
  intro A B t idx
  have : M (fun j => A j + t * B j) = fun j => M A j + t * M B j := funext (hM A B t)
  show L (M (fun j => A j + t * B j)) idx = L (M A) idx + t * L (M B) idx
  rw [this]; exact hL (M A) (M B) t idx

theorem alongAxis_linear {D : Nat} (a : Fin D) (op : (Int → K) → (Int → K))
    (hop : ∀ (f g : Int → K) (t : K) (k : Int), op (fun m => f m + t * g m) k = op f k + t * op g k) :
    IsLinOp (alongAxis a op) := by
  intro A B t idx
  simp only [alongAxis, hop]

theorem conv3_linear (n : Nat) (w0 w1 w2 : K) (f g : Int → K) (t : K) (k : Int) :
    conv3 n w0 w1 w2 (fun m => f m + t * g m) k = conv3 n w0 w1 w2 f k + t * conv3 n w0 w1 w2 g k := by
  simp only [conv3, zeroPad, Nat.cast_zero]
  split_ifs <;> ring

theorem avgPerp_linear {D : Nat} (sz : Fin D → Nat) (w : K × K × K) (a : Fin D) (dims : List (Fin D)) :
    IsLinOp (avgPerp sz w a dims) := by
  induction dims using List.reverseRecOn with
  | nil => exact fun _ _ _ _ => rfl
  | append_singleton l d ih =>
    have e : avgPerp sz w a (l ++ [d]) = fun A =>
        (fun R => if d = a then R else alongAxis d (conv3 (sz d) w.1 w.2.1 w.2.2) R) (avgPerp sz w a l A) := by
      funext A; simp [avgPerp, List.foldl_append]
    rw [e]
    by_cases hd : d = a
    · simpa [hd] using ih
    · simp only [hd, if_false]
      exact IsLinOp.comp (alongAxis_linear d _ (conv3_linear _ _ _ _)) ih

/-- one derivative step of spatial_derivatives @1574-1586 is a linear operator. -/
theorem sdStep_linear {D : Nat} (mode : SDMode) (sz : Fin D → Nat) (sp : Fin D → K) (a : Fin D) :
    IsLinOp (sdStep mode sz sp a) := by
  have hfd := alongAxis_linear a _ (finiteDifferences_linear (K := K) mode.fdMode (sz a) 1 (sp a))
  unfold sdStep
  cases hk : (mode.avgKernel : Option (K × K × K)) with
  | none => simpa using hfd
  | some w => exact IsLinOp.comp hfd (avgPerp_linear sz w a _)

/-- a chain of derivative steps (a derivative key) is a linear operator. -/
theorem chain_linear {D : Nat} (step : Fin D → Arr D K → Arr D K) (hstep : ∀ a, IsLinOp (step a)) (k : DKey D) :
    IsLinOp (chain step k) := by
  induction k using List.reverseRecOn with
  | nil => exact fun _ _ _ _ => rfl
  | append_singleton l c ih =>
    have e : chain step (l ++ [c]) = fun A => step c (chain step l A) := by
      funext A; simp [chain, List.foldl_append]
    rw [e]; exact IsLinOp.comp (hstep c) ih

theorem sumIdx_add {D : Nat} (l : List (Idx D)) (f g : Idx D → K) :
    sumIdx l (fun i => f i + g i) = sumIdx l f + sumIdx l g := by
  induction l with
  | nil => simp [sumIdx, lsum]
  | cons a l ih => simp only [sumIdx, List.map_cons, lsum] at ih ⊢; rw [ih]; ring

theorem sumIdx_mul_left {D : Nat} (l : List (Idx D)) (c : K) (f : Idx D → K) :
    sumIdx l (fun i => c * f i) = c * sumIdx l f := by
  induction l with
  | nil => simp [sumIdx, lsum]
  | cons a l ih => simp only [sumIdx, List.map_cons, lsum] at ih ⊢; rw [ih]; ring

theorem sumIdx_congr {D : Nat} (l : List (Idx D)) {f g : Idx D → K} (h : ∀ i, f i = g i) : sumIdx l f = sumIdx l g := by
  have : f = g := funext h
  rw [this]

/-- gradient of a scalarised linear operator: cotangent contracted with the impulse response. -/
theorem gradLinear_expand {D : Nat} {L : Arr D K → Arr D K} (hL : IsLinOp L) (box : List (Idx D))
    (cot A : Arr D K) (j : Idx D) (t : K) :
    sumIdx box (fun idx => cot idx * L (fun i => A i + t * unitArr j i) idx)
      = sumIdx box (fun idx => cot idx * L A idx) + t * gradLinear L box cot j := by
  unfold gradLinear
  rw [← sumIdx_mul_left, ← sumIdx_add]
  apply sumIdx_congr; intro idx; rw [hL]; ring

/-- exact expansion of a quadratic regulariser built from linear operators. -/
theorem quadReg_expand {D : Nat} (terms : List (K × (Arr D K → Arr D K))) (hlin : ∀ p ∈ terms, IsLinOp p.2)
    (box : List (Idx D)) (A : Arr D K) (j : Idx D) (t : K) :
    quadReg terms box (fun i => A i + t * unitArr j i)
      = quadReg terms box A + t * gradQuadReg terms box A j + t ^ 2 * quadReg terms box (unitArr j) := by
  induction terms with
  | nil => simp [quadReg, gradQuadReg, lsum]
  | cons p ps ih =>
    have hp : IsLinOp p.2 := hlin p (List.mem_cons_self)
    have ih' := ih (fun q hq => hlin q (List.mem_cons_of_mem _ hq))
    simp only [quadReg, gradQuadReg, List.map_cons, lsum] at ih' ⊢
    rw [ih']
    have e : sumIdx box (fun idx => p.2 (fun i => A i + t * unitArr j i) idx * p.2 (fun i => A i + t * unitArr j i) idx)
        = sumIdx box (fun idx => p.2 A idx * p.2 A idx)
          + t * sumIdx box (fun idx => ((2 : Nat) : K) * (p.2 A idx * p.2 (unitArr j) idx))
          + t ^ 2 * sumIdx box (fun idx => p.2 (unitArr j) idx * p.2 (unitArr j) idx) := by
      rw [← sumIdx_mul_left, ← sumIdx_mul_left, ← sumIdx_add, ← sumIdx_add]
      apply sumIdx_congr; intro idx; rw [hp]; push_cast; ring
    rw [e]; ring

end Field
end Deepali.Grad
