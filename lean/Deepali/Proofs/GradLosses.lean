/-
  Proofs/GradLosses.lean — expansions `f(x + t·eᵢ) = f(x) + t·gᵢ + t²·r` for the element-wise
  losses with masks / reductions / norm, and the quotient structure of Dice, Tversky and NCC.
-/
import Deepali.Model.Grad
import Deepali.Proofs.LossesBasic
import Deepali.Proofs.LossesPointwise
import Deepali.Proofs.LossesCorr

set_option linter.unusedSectionVars false

namespace Deepali.Grad
open Deepali Deepali.Loss

section Field
variable {K : Type} [Field K]

@[simp] theorem bump_self (i : Nat) (t : K) (x : Nat → K) : bump i t x i = x i + t := by simp [bump]
theorem bump_ne {i j : Nat} (h : j ≠ i) (t : K) (x : Nat → K) : bump i t x j = x j := by simp [bump, h]
theorem bump_zero (i : Nat) (x : Nat → K) : bump i 0 x = x := by
  funext j; by_cases h : j = i <;> simp [bump, h]

/-- two summands that differ only at index `i < n`. -/
theorem sumTo_update {n i : Nat} (hi : i < n) {a b : Nat → K} (h : ∀ j, j ≠ i → a j = b j) :
    sumTo n a = sumTo n b + (a i - b i) := by
  induction n with
  | zero => omega
  | succ n ih =>
    simp only [sumTo]
    by_cases hin : i = n
    · subst hin
      have : sumTo i a = sumTo i b := sumTo_congr (fun j hj => h j (by omega))
      rw [this]; ring
    · rw [ih (by omega), h n (fun e => hin e.symm)]; ring

theorem scalarise_singleton (cot : Nat → K) (v : K) : scalarise cot [v] = cot 0 * v := by
  simp [scalarise, sumTo]

theorem scalarise_range_map (cot : Nat → K) (n : Nat) (f : Nat → K) :
    scalarise cot ((List.range n).map f) = sumTo n (fun k => cot k * f k) := by
  simp only [scalarise, List.length_map, List.length_range]
  apply sumTo_congr
  intro k hk
  simp [List.getD_eq_getElem?_getD, List.getElem?_map, List.getElem?_range hk]

theorem scalarise_map_div (cot : Nat → K) (v : List K) (c : K) :
    scalarise cot (v.map (fun l => l / c)) = scalarise cot v / c := by
  simp only [scalarise, List.length_map]
  rw [← sumTo_div]
  apply sumTo_congr
  intro k hk
  simp only [List.getD_eq_getElem?_getD, List.getElem?_map]
  cases h : v[k]? with
  | none => simp
  | some a => simp; ring

/-- scalarised reductions. -/
theorem scalarise_reduceLoss (cot : Nat → K) (red : Reduction) (n : Nat) (loss : Nat → K) (m : Option (Nat → K)) :
    scalarise cot (reduceLoss red n loss m) =
      match red with
      | .none => sumTo n (fun k => cot k * loss k)
      | .sum => cot 0 * sumTo n loss
      | .mean => cot 0 * (sumTo n loss / meanDenom n m) := by
  cases red <;> cases m <;>
    simp only [reduceLoss, scalarise_range_map, scalarise_singleton, meanDenom]

end Field

section Ordered
variable {K : Type} [Field K] [LinearOrder K] [IsStrictOrderedRing K]

/-- the factor that multiplies the pointwise derivative in `gradPointwise`. -/
def pwFactor (red : Reduction) (n : Nat) (m : Option (Nat → K)) (norm : Option K) (cot : Nat → K) (i : Nat) : K :=
  (match m with | none => 1 | some w => w i)
    * (match red with | .none => cot i | .sum => cot 0 | .mean => cot 0 / meanDenom n m)
    * (match norm with | none => 1 | some c => if 0 < c then 1 / c else 1)

theorem gradPointwise_eq (kind : Pointwise K) (red : Reduction) (n : Nat) (x y : Nat → K)
    (m : Option (Nat → K)) (norm : Option K) (cot : Nat → K) (i : Nat) :
    gradPointwise kind red n x y m norm cot i = dfn kind (x i) (y i) * pwFactor red n m norm cot i := by
  unfold gradPointwise gradPointwiseD pwFactor
  cases m <;> cases red <;> cases norm <;> simp only [Nat.cast_zero, Nat.cast_one] <;>
    first
      | ring1
      | (split_ifs <;> ring1)

/-- scalarised, normalised point-wise loss (what autograd differentiates). -/
def pwScalar (f : K → K → K) (red : Reduction) (n : Nat) (x y : Nat → K) (m : Option (Nat → K))
    (norm : Option K) (cot : Nat → K) : K :=
  scalarise cot (applyNorm norm (pointwiseCore f red n x y m))

theorem scalarise_applyNorm (cot : Nat → K) (norm : Option K) (v : List K) :
    scalarise cot (applyNorm norm v)
      = scalarise cot v * (match norm with | none => 1 | some c => if 0 < c then 1 / c else 1) := by
  cases norm with
  | none => simp [applyNorm]
  | some c =>
    by_cases hc : 0 < c
    · simp only [applyNorm_pos hc, scalarise_map_div, if_pos hc]; ring
    · simp only [applyNorm_nonpos hc, if_neg hc, mul_one]

/-- generic expansion: if the point-wise function expands at `(x i, y i)` then so does the
    scalarised, masked, reduced, normalised loss — with the same factor on both coefficients. -/
theorem pwScalar_expand (f : K → K → K) (red : Reduction) {n i : Nat} (hi : i < n) (x y : Nat → K)
    (m : Option (Nat → K)) (norm : Option K) (cot : Nat → K) (t d r : K)
    (hf : f (x i + t) (y i) = f (x i) (y i) + t * d + t ^ 2 * r) :
    pwScalar f red n (bump i t x) y m norm cot
      = pwScalar f red n x y m norm cot + t * (d * pwFactor red n m norm cot i)
        + t ^ 2 * (r * pwFactor red n m norm cot i) := by
  unfold pwScalar
  rw [scalarise_applyNorm, scalarise_applyNorm]
  unfold pointwiseCore pwFactor
  cases m with
  | none =>
    simp only [scalarise_reduceLoss]
    cases red <;> simp only
    · rw [sumTo_update hi (a := fun k => cot k * f (bump i t x k) (y k)) (b := fun k => cot k * f (x k) (y k))
        (fun j hj => by simp only [bump_ne hj])]
      simp only [bump_self, hf]; ring
    · rw [sumTo_update hi (a := fun k => f (bump i t x k) (y k)) (b := fun k => f (x k) (y k))
        (fun j hj => by simp only [bump_ne hj])]
      simp only [bump_self, hf]; ring
    · rw [sumTo_update hi (a := fun k => f (bump i t x k) (y k)) (b := fun k => f (x k) (y k))
        (fun j hj => by simp only [bump_ne hj])]
      simp only [bump_self, hf]; ring
  | some w =>
    simp only [scalarise_reduceLoss]
    cases red <;> simp only
    · rw [sumTo_update hi (a := fun k => cot k * (f (bump i t x k) (y k) * w k)) (b := fun k => cot k * (f (x k) (y k) * w k))
        (fun j hj => by simp only [bump_ne hj])]
      simp only [bump_self, hf]; ring
    · rw [sumTo_update hi (a := fun k => f (bump i t x k) (y k) * w k) (b := fun k => f (x k) (y k) * w k)
        (fun j hj => by simp only [bump_ne hj])]
      simp only [bump_self, hf]; ring
    · rw [sumTo_update hi (a := fun k => f (bump i t x k) (y k) * w k) (b := fun k => f (x k) (y k) * w k)
        (fun j hj => by simp only [bump_ne hj])]
      simp only [bump_self, hf]; ring

/-! ### the point-wise functions -/

theorem sqDiff_expand (a b t : K) : sqDiff (a + t) b = sqDiff a b + t * dSqDiff a b + t ^ 2 * 1 := by
  simp only [sqDiff, dSqDiff, Nat.cast_ofNat]; ring

theorem sgn_mul_self (d : K) : sgn d * d = |d| := by
  unfold sgn
  simp only [Nat.cast_zero, Nat.cast_one]
  split_ifs with h
  · rw [abs_of_neg h]; ring
  · rw [abs_of_nonneg (not_lt.mp h)]; ring

/-- the sign does not change while `|t| < |d|`. -/
theorem abs_add_of_small {d t : K} (h : |t| < |d|) : |d + t| = |d| + t * sgn d := by
  unfold sgn
  simp only [Nat.cast_zero, Nat.cast_one]
  have ht := abs_lt.mp h
  split_ifs with hd
  · rw [abs_of_neg hd] at ht ⊢
    rw [abs_of_neg (by linarith [ht.2])]; ring
  · have hd' : 0 ≤ d := not_lt.mp hd
    rw [abs_of_nonneg hd'] at ht ⊢
    rw [abs_of_nonneg (by linarith [ht.1])]; ring

theorem l1_expand {a b t : K} (h : |t| < |a - b|) : l1Fn (a + t) b = l1Fn a b + t * dL1 a b + t ^ 2 * 0 := by
  simp only [l1Fn, dL1, absv_eq]
  have : a + t - b = (a - b) + t := by ring
  rw [this, abs_add_of_small h]; ring

/-- Huber, quadratic zone: both `d` and `d + t` inside `(−δ, δ)`. -/
theorem huber_expand_inside {delta a b t : K} (h0 : |a - b| < delta) (h1 : |a - b + t| < delta) :
    huberFn delta (a + t) b = huberFn delta a b + t * dHuber delta a b + t ^ 2 * (1 / 2) := by
  have e : a + t - b = (a - b) + t := by ring
  simp only [huberFn, dHuber, absv_eq, e, if_pos h0, if_pos h1, Nat.cast_one, Nat.cast_ofNat]
  have s1 : |a - b + t| * |a - b + t| = (a - b + t) * (a - b + t) := abs_mul_abs_self _
  have s2 : |a - b| * |a - b| = (a - b) * (a - b) := abs_mul_abs_self _
  calc 1 / 2 * |a - b + t| * |a - b + t| = 1 / 2 * (|a - b + t| * |a - b + t|) := by ring
    _ = 1 / 2 * ((a - b + t) * (a - b + t)) := by rw [s1]
    _ = 1 / 2 * (|a - b| * |a - b|) + t * (a - b) + t ^ 2 * (1 / 2) := by rw [s2]; ring
    _ = 1 / 2 * |a - b| * |a - b| + t * (a - b) + t ^ 2 * (1 / 2) := by ring

/-- Huber, linear zone: both outside and the sign is kept. -/
theorem huber_expand_outside {delta a b t : K} (h0 : ¬ |a - b| < delta) (h1 : ¬ |a - b + t| < delta)
    (hs : |t| < |a - b|) :
    huberFn delta (a + t) b = huberFn delta a b + t * dHuber delta a b + t ^ 2 * 0 := by
  have e : a + t - b = (a - b) + t := by ring
  simp only [huberFn, dHuber, absv_eq, e, if_neg h0, if_neg h1, Nat.cast_one, Nat.cast_ofNat]
  rw [abs_add_of_small hs]; ring

/-- smooth-L1, quadratic zone. -/
theorem smoothL1_expand_inside {beta a b t : K} (hb : beta ≠ 0) (h0 : |a - b| < beta) (h1 : |a - b + t| < beta) :
    smoothL1Fn beta (a + t) b = smoothL1Fn beta a b + t * dSmoothL1 beta a b + t ^ 2 * (1 / (2 * beta)) := by
  have e : a + t - b = (a - b) + t := by ring
  simp only [smoothL1Fn, dSmoothL1, absv_eq, e, if_pos h0, if_pos h1, Nat.cast_one, Nat.cast_ofNat]
  have s1 : |a - b + t| * |a - b + t| = (a - b + t) * (a - b + t) := abs_mul_abs_self _
  have s2 : |a - b| * |a - b| = (a - b) * (a - b) := abs_mul_abs_self _
  have l : 1 / 2 * |a - b + t| * |a - b + t| / beta = 1 / 2 * (|a - b + t| * |a - b + t|) / beta := by ring
  have r : 1 / 2 * |a - b| * |a - b| / beta = 1 / 2 * (|a - b| * |a - b|) / beta := by ring
  rw [l, r, s1, s2]; field_simp; ring

theorem smoothL1_expand_outside {beta a b t : K} (h0 : ¬ |a - b| < beta) (h1 : ¬ |a - b + t| < beta)
    (hs : |t| < |a - b|) :
    smoothL1Fn beta (a + t) b = smoothL1Fn beta a b + t * dSmoothL1 beta a b + t ^ 2 * 0 := by
  have e : a + t - b = (a - b) + t := by ring
  simp only [smoothL1Fn, dSmoothL1, absv_eq, e, if_neg h0, if_neg h1, Nat.cast_one, Nat.cast_ofNat]
  rw [abs_add_of_small hs]; ring

end Ordered
end Deepali.Grad
