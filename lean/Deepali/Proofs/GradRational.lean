/-
  Proofs/GradRational.lean — Dice, Tversky and NCC along one coordinate are quotients of
  quadratics in the increment `t`; their derivative at 0 is the model gradient (`ratioDeriv`).
  Also: compose_flows w.r.t. the sampled field, 2-D rotation / scaling / translation of points.
-/
import Deepali.Proofs.GradCore
import Deepali.Proofs.GradLosses
import Deepali.Proofs.GradSample

set_option linter.unusedSectionVars false

namespace Deepali.Grad
open Deepali Deepali.Loss

section Field
variable {K : Type} [Field K]

theorem bump_flat {S k s s' : Nat} (t : K) (p : Nat → K) :
    bump (k * S + s) t p (k * S + s') = if s' = s then p (k * S + s') + t else p (k * S + s') := by
  unfold bump
  by_cases h : s' = s
  · subst h; simp
  · have : ¬ (k * S + s' = k * S + s) := by omega
    simp [h, this]

/-- `dot_channels` with the first factor bumped. -/
theorem dotCh_bump_left {S k s : Nat} (hs : s < S) (p y : Nat → K) (w : Option (Nat → K)) (t : K) :
    dotCh S (bump (k * S + s) t p) y w k = dotCh S p y w k + t * (y (k * S + s) * wAt w (k * S + s)) := by
  cases w with
  | none =>
    simp only [dotCh, wAt, Nat.cast_one]
    rw [sumTo_update hs (a := fun s' => bump (k * S + s) t p (k * S + s') * y (k * S + s'))
      (b := fun s' => p (k * S + s') * y (k * S + s')) (fun j hj => by simp only [bump_flat, if_neg hj])]
    simp only [bump_flat, if_true]; ring
  | some w =>
    simp only [dotCh, wAt]
    rw [sumTo_update hs (a := fun s' => bump (k * S + s) t p (k * S + s') * y (k * S + s') * w (k * S + s'))
      (b := fun s' => p (k * S + s') * y (k * S + s') * w (k * S + s')) (fun j hj => by simp only [bump_flat, if_neg hj])]
    simp only [bump_flat, if_true]; ring

/-- `dot_channels(p, p)` with `p` bumped: quadratic in `t`. -/
theorem dotCh_bump_both {S k s : Nat} (hs : s < S) (p : Nat → K) (w : Option (Nat → K)) (t : K) :
    dotCh S (bump (k * S + s) t p) (bump (k * S + s) t p) w k
      = dotCh S p p w k + t * (2 * (p (k * S + s) * wAt w (k * S + s))) + t ^ 2 * wAt w (k * S + s) := by
  cases w with
  | none =>
    simp only [dotCh, wAt, Nat.cast_one]
    rw [sumTo_update hs (a := fun s' => bump (k * S + s) t p (k * S + s') * bump (k * S + s) t p (k * S + s'))
      (b := fun s' => p (k * S + s') * p (k * S + s')) (fun j hj => by simp only [bump_flat, if_neg hj])]
    simp only [bump_flat, if_true]; ring
  | some w =>
    simp only [dotCh, wAt]
    rw [sumTo_update hs (a := fun s' => bump (k * S + s) t p (k * S + s') * bump (k * S + s) t p (k * S + s') * w (k * S + s'))
      (b := fun s' => p (k * S + s') * p (k * S + s') * w (k * S + s')) (fun j hj => by simp only [bump_flat, if_neg hj])]
    simp only [bump_flat, if_true]; ring

/-- `dot_channels(1 − p, y)` with `p` bumped. -/
theorem dotCh_bump_one_sub {S k s : Nat} (hs : s < S) (p y : Nat → K) (w : Option (Nat → K)) (t : K) :
    dotCh S (fun i => 1 - bump (k * S + s) t p i) y w k
      = dotCh S (fun i => 1 - p i) y w k - t * (y (k * S + s) * wAt w (k * S + s)) := by
  cases w with
  | none =>
    simp only [dotCh, wAt, Nat.cast_one]
    rw [sumTo_update hs (a := fun s' => (1 - bump (k * S + s) t p (k * S + s')) * y (k * S + s'))
      (b := fun s' => (1 - p (k * S + s')) * y (k * S + s')) (fun j hj => by simp only [bump_flat, if_neg hj])]
    simp only [bump_flat, if_true]; ring
  | some w =>
    simp only [dotCh, wAt]
    rw [sumTo_update hs (a := fun s' => (1 - bump (k * S + s) t p (k * S + s')) * y (k * S + s') * w (k * S + s'))
      (b := fun s' => (1 - p (k * S + s')) * y (k * S + s') * w (k * S + s')) (fun j hj => by simp only [bump_flat, if_neg hj])]
    simp only [bump_flat, if_true]; ring

/-- Dice along one prediction sample: a quotient of an affine and a quadratic function of `t`. -/
theorem diceAt_bump {S k s : Nat} (hs : s < S) (p y : Nat → K) (w : Option (Nat → K)) (eps t : K) :
    diceAt S (bump (k * S + s) t p) y w eps k
      = ((dotCh S p y w k * 2 + eps) + t * (2 * (y (k * S + s) * wAt w (k * S + s))) + t ^ 2 * 0)
        / ((dotCh S p p w k + dotCh S y y w k + eps) + t * (2 * (p (k * S + s) * wAt w (k * S + s)))
            + t ^ 2 * wAt w (k * S + s)) := by
  simp only [diceAt]
  rw [dotCh_bump_both hs, dotCh_bump_left hs]
  simp only [Nat.cast_ofNat]
  congr 1 <;> ring

/-- Tversky along one prediction sample: a quotient of two affine functions of `t`. -/
theorem tverskyAt_bump {S k s : Nat} (hs : s < S) (p y : Nat → K) (w : Option (Nat → K)) (alpha beta eps t : K) :
    tverskyAt S (bump (k * S + s) t p) y w alpha beta eps k
      = ((dotCh S p y w k + eps) + t * (y (k * S + s) * wAt w (k * S + s)) + t ^ 2 * 0)
        / ((dotCh S p y w k + eps + dotCh S p (fun i => 1 - y i) w k * alpha + dotCh S (fun i => 1 - p i) y w k * beta)
            + t * (y (k * S + s) * wAt w (k * S + s) + (1 - y (k * S + s)) * wAt w (k * S + s) * alpha
                    - y (k * S + s) * wAt w (k * S + s) * beta)
            + t ^ 2 * 0) := by
  simp only [tverskyAt, Nat.cast_one, dotCh_bump_left hs, dotCh_bump_one_sub hs]
  congr 1 <;> ring

/-- sum against an indicator. -/
theorem sumTo_indicator {n i : Nat} (hi : i < n) (f : Nat → K) :
    sumTo n (fun j => (if j = i then (1 : K) else 0) * f j) = f i := by
  rw [sumTo_update hi (a := fun j => (if j = i then (1 : K) else 0) * f j) (b := fun _ => 0)
    (fun j hj => by simp [hj])]
  simp [sumTo_zero]

theorem sumTo_bump {n i : Nat} (hi : i < n) (s : Nat → K) (t : K) : sumTo n (bump i t s) = sumTo n s + t := by
  rw [sumTo_update hi (a := bump i t s) (b := s) (fun j hj => bump_ne hj t s)]
  simp

/-- the centring direction `eᵢ − 1/n`. -/
def ctr (n i : Nat) (j : Nat) : K := (if j = i then (1 : K) else 0) - 1 / (n : K)

/-- `x − mean x`. -/
def center (n : Nat) (s : Nat → K) : Nat → K := fun j => s j - sumTo n s / (n : K)

/-- ncc_loss @569-574 on centred signals. -/
def nccCore (n : Nat) (x y : Nat → K) (eps : K) : K :=
  -((sumTo n (fun j => x j * y j) * sumTo n (fun j => x j * y j))
      / (sumTo n (fun j => x j * x j) * sumTo n (fun j => y j * y j) + eps)) + 1

theorem nccItem_eq_core (n : Nat) (s tt : Nat → K) (eps : K) :
    nccItem n s tt eps = nccCore n (center n s) (center n tt) eps := by
  simp only [nccItem, nccCore, center, Nat.cast_one]

theorem center_bump {n i : Nat} (hi : i < n) (s : Nat → K) (t : K) :
    center n (bump i t s) = fun j => center n s j + t * ctr n i j := by
  funext j
  simp only [center]
  rw [sumTo_bump hi]
  by_cases h : j = i
  · subst h; simp only [bump_self, ctr, if_true]; ring
  · simp only [bump_ne h, ctr, if_neg h]; ring

theorem nccCore_add (n : Nat) (x e y : Nat → K) (eps t : K) :
    nccCore n (fun j => x j + t * e j) y eps
      = -(((sumTo n (fun j => x j * y j) * sumTo n (fun j => x j * y j))
            + t * (2 * sumTo n (fun j => x j * y j) * sumTo n (fun j => e j * y j))
            + t ^ 2 * (sumTo n (fun j => e j * y j) * sumTo n (fun j => e j * y j)))
          / ((sumTo n (fun j => x j * x j) * sumTo n (fun j => y j * y j) + eps)
            + t * (2 * sumTo n (fun j => x j * e j) * sumTo n (fun j => y j * y j))
            + t ^ 2 * (sumTo n (fun j => e j * e j) * sumTo n (fun j => y j * y j)))) + 1 := by
  have ha : sumTo n (fun j => (x j + t * e j) * y j) = sumTo n (fun j => x j * y j) + t * sumTo n (fun j => e j * y j) := by
    have : (fun j => (x j + t * e j) * y j) = fun j => x j * y j + t * (e j * y j) := by funext j; ring
    rw [this, sumTo_add, sumTo_mul_left]
  have hb : sumTo n (fun j => (x j + t * e j) * (x j + t * e j))
      = sumTo n (fun j => x j * x j) + 2 * t * sumTo n (fun j => x j * e j) + t ^ 2 * sumTo n (fun j => e j * e j) := by
    have : (fun j => (x j + t * e j) * (x j + t * e j))
        = fun j => (x j * x j + (2 * t) * (x j * e j)) + t ^ 2 * (e j * e j) := by funext j; ring
    rw [this, sumTo_add, sumTo_add, sumTo_mul_left, sumTo_mul_left]
  simp only [nccCore, ha, hb]
  congr 2 <;> ring

theorem sumTo_ctr_mul {n i : Nat} (hi : i < n) (y : Nat → K) :
    sumTo n (fun j => ctr n i j * y j) = y i - sumTo n y / (n : K) := by
  have : (fun j => ctr (K := K) n i j * y j) = fun j => (if j = i then (1 : K) else 0) * y j - y j / (n : K) := by
    funext j; simp only [ctr]; ring
  rw [this, sumTo_sub, sumTo_indicator hi, sumTo_div]

theorem sumTo_mul_ctr {n i : Nat} (hi : i < n) (x : Nat → K) :
    sumTo n (fun j => x j * ctr n i j) = x i - sumTo n x / (n : K) := by
  have : (fun j => x j * ctr (K := K) n i j) = fun j => ctr n i j * x j := by funext j; ring
  rw [this, sumTo_ctr_mul hi]

/-- the model gradient of NCC in terms of the centred signals. -/
theorem dNccItem_eq (n : Nat) (s tt : Nat → K) (eps : K) (i : Nat) :
    dNccItem n s tt eps i =
      -(ratioDeriv (sumTo n (fun j => center n s j * center n tt j) * sumTo n (fun j => center n s j * center n tt j))
          (2 * sumTo n (fun j => center n s j * center n tt j) * (center n tt i - sumTo n (center n tt) / (n : K)))
          (sumTo n (fun j => center n s j * center n s j) * sumTo n (fun j => center n tt j * center n tt j) + eps)
          (2 * (center n s i - sumTo n (center n s) / (n : K)) * sumTo n (fun j => center n tt j * center n tt j))) := by
  simp only [dNccItem, Nat.cast_ofNat]
  rfl

end Field

/-! ### ℝ: the model gradients are the derivatives -/

theorem diceAt_hasDeriv {S k s : Nat} (hs : s < S) (p y : Nat → ℝ) (w : Option (Nat → ℝ)) (eps : ℝ)
    (hden : dotCh S p p w k + dotCh S y y w k + eps ≠ 0) :
    HasDerivAt (fun t => diceAt S (bump (k * S + s) t p) y w eps k) (dDiceAt S p y w eps k s) 0 := by
  have e : (fun t => diceAt S (bump (k * S + s) t p) y w eps k) = fun t =>
      ((dotCh S p y w k * 2 + eps) + t * (2 * (y (k * S + s) * wAt w (k * S + s))) + t ^ 2 * 0)
        / ((dotCh S p p w k + dotCh S y y w k + eps) + t * (2 * (p (k * S + s) * wAt w (k * S + s)))
            + t ^ 2 * wAt w (k * S + s)) := funext (fun t => diceAt_bump hs p y w eps t)
  rw [e]
  have := hasDerivAt_ratio (dotCh S p y w k * 2 + eps) (2 * (y (k * S + s) * wAt w (k * S + s))) 0
    (dotCh S p p w k + dotCh S y y w k + eps) (2 * (p (k * S + s) * wAt w (k * S + s))) (wAt w (k * S + s)) hden
  simpa only [dDiceAt, ratioDeriv, Nat.cast_ofNat] using this

theorem tverskyAt_hasDeriv {S k s : Nat} (hs : s < S) (p y : Nat → ℝ) (w : Option (Nat → ℝ)) (alpha beta eps : ℝ)
    (hden : dotCh S p y w k + eps + dotCh S p (fun i => 1 - y i) w k * alpha
              + dotCh S (fun i => 1 - p i) y w k * beta ≠ 0) :
    HasDerivAt (fun t => tverskyAt S (bump (k * S + s) t p) y w alpha beta eps k)
      (dTverskyAt S p y w alpha beta eps k s) 0 := by
  have e := funext (fun t => tverskyAt_bump (k := k) hs p y w alpha beta eps t)
  rw [e]
  have := hasDerivAt_ratio (dotCh S p y w k + eps) (y (k * S + s) * wAt w (k * S + s)) 0
    (dotCh S p y w k + eps + dotCh S p (fun i => 1 - y i) w k * alpha + dotCh S (fun i => 1 - p i) y w k * beta)
    (y (k * S + s) * wAt w (k * S + s) + (1 - y (k * S + s)) * wAt w (k * S + s) * alpha
      - y (k * S + s) * wAt w (k * S + s) * beta) 0 hden
  simpa only [dTverskyAt, ratioDeriv, Nat.cast_one] using this

theorem nccItem_hasDeriv {n i : Nat} (hi : i < n) (s tt : Nat → ℝ) (eps : ℝ)
    (hden : sumTo n (fun j => center n s j * center n s j) * sumTo n (fun j => center n tt j * center n tt j) + eps ≠ 0) :
    HasDerivAt (fun t => nccItem n (bump i t s) tt eps) (dNccItem n s tt eps i) 0 := by
  have e : (fun t => nccItem n (bump i t s) tt eps) = fun t => nccCore n (fun j => center n s j + t * ctr n i j) (center n tt) eps := by
    funext t; rw [nccItem_eq_core, center_bump hi]
  rw [e]
  have e2 := funext (fun t => nccCore_add n (center n s) (ctr n i) (center n tt) eps t)
  rw [e2]
  have h := hasDerivAt_neg_ratio_add_one
    (sumTo n (fun j => center n s j * center n tt j) * sumTo n (fun j => center n s j * center n tt j))
    (2 * sumTo n (fun j => center n s j * center n tt j) * sumTo n (fun j => ctr n i j * center n tt j))
    (sumTo n (fun j => ctr n i j * center n tt j) * sumTo n (fun j => ctr n i j * center n tt j))
    (sumTo n (fun j => center n s j * center n s j) * sumTo n (fun j => center n tt j * center n tt j) + eps)
    (2 * sumTo n (fun j => center n s j * ctr n i j) * sumTo n (fun j => center n tt j * center n tt j))
    (sumTo n (fun j => ctr n i j * ctr n i j) * sumTo n (fun j => center n tt j * center n tt j)) hden
  refine h.congr_deriv ?_
  rw [dNccItem_eq, sumTo_ctr_mul hi, sumTo_mul_ctr hi]
  simp only [ratioDeriv]

end Deepali.Grad
