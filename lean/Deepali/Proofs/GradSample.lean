/-
  Proofs/GradSample.lean — multilinear interpolation: linear in the image values (gradient =
  corner weight), affine in each coordinate inside a cell (gradient = `dInterpCell`), `floor`
  locally constant off the integers.
-/
import Deepali.Model.Grad
import Deepali.Proofs.Interp

set_option linter.unusedSectionVars false

namespace Deepali.Grad
open Deepali

/-- `x + t·eᵢ` on coordinate vectors. -/
def bumpV {d : Nat} {K : Type} [Add K] (i : Fin d) (t : K) (x : Fin d → K) : Fin d → K :=
  fun j => if j = i then x j + t else x j

/-- unit impulse image at `idx`. -/
def deltaImg {d : Nat} {K : Type} [Zero K] [One K] (idx : Fin d → Int) : (Fin d → Int) → K :=
  fun j => if ∀ a, j a = idx a then 1 else 0

section Field
variable {K : Type} [Field K]

theorem tailVec_bumpV_zero {d : Nat} (t : K) (x : Fin (d + 1) → K) : tailVec (bumpV 0 t x) = tailVec x := by
  funext j; simp [tailVec, bumpV, Fin.succ_ne_zero]

theorem tailVec_bumpV_succ {d : Nat} (i : Fin d) (t : K) (x : Fin (d + 1) → K) :
    tailVec (bumpV i.succ t x) = bumpV i t (tailVec x) := by
  funext j; simp [tailVec, bumpV, Fin.succ_inj]

theorem bumpV_succ_zero {d : Nat} (i : Fin d) (t : K) (x : Fin (d + 1) → K) : bumpV i.succ t x 0 = x 0 := by
  have : (0 : Fin (d + 1)) ≠ i.succ := (Fin.succ_ne_zero i).symm
  simp [bumpV, this]

theorem bumpV_zero_zero {d : Nat} (t : K) (x : Fin (d + 1) → K) : bumpV 0 t x 0 = x 0 + t := by simp [bumpV]

/-- the cell polynomial is affine in every coordinate: exact, no remainder. -/
theorem interpCell_bumpV (d : Nat) (k : Fin d → Int) (img : (Fin d → Int) → K) (x : Fin d → K) (i : Fin d) (t : K) :
    interpCell d k img (bumpV i t x) = interpCell d k img x + t * dInterpCell d k img x i := by
  induction d with
  | zero => exact i.elim0
  | succ d ih =>
    refine Fin.cases ?_ (fun i' => ?_) i
    · simp only [interpCell, dInterpCell, tailVec_bumpV_zero, bumpV_zero_zero, Fin.cases_zero, Nat.cast_one]
      ring
    · simp only [interpCell, dInterpCell, tailVec_bumpV_succ, bumpV_succ_zero, Fin.cases_succ, Nat.cast_one, ih]
      ring

/-- the cell polynomial is linear in the image. -/
theorem interpCell_linear (d : Nat) (k : Fin d → Int) (a b : (Fin d → Int) → K) (t : K) (x : Fin d → K) :
    interpCell d k (fun j => a j + t * b j) x = interpCell d k a x + t * interpCell d k b x := by
  induction d with
  | zero => simp only [interpCell]
  | succ d ih =>
    simp only [interpCell, Nat.cast_one]
    rw [ih, ih]; ring

theorem interpCell_zero (d : Nat) (k : Fin d → Int) (x : Fin d → K) :
    interpCell d k (fun _ => (0 : K)) x = 0 := by
  induction d with
  | zero => simp only [interpCell]
  | succ d ih => simp only [interpCell, ih]; ring

theorem deltaImg_cons {d : Nat} (idx : Fin (d + 1) → Int) (c : Int) :
    (fun rest : Fin d → Int => (deltaImg idx (consIdx c rest) : K))
      = if c = idx 0 then deltaImg (tailVec idx) else fun _ => 0 := by
  funext rest
  by_cases hc : c = idx 0
  · rw [if_pos hc]
    have hiff : (∀ a : Fin (d + 1), consIdx c rest a = idx a) ↔ ∀ a : Fin d, rest a = tailVec idx a := by
      constructor
      · intro h a; simpa [tailVec] using h a.succ
      · intro h a; refine Fin.cases ?_ (fun a => ?_) a
        · simpa using hc
        · simpa [tailVec] using h a
    by_cases h : ∀ a : Fin d, rest a = tailVec idx a
    · simp only [deltaImg]; rw [if_pos (hiff.mpr h), if_pos h]
    · simp only [deltaImg]; rw [if_neg (fun h' => h (hiff.mp h')), if_neg h]
  · rw [if_neg hc]
    have : ¬ ∀ a : Fin (d + 1), consIdx c rest a = idx a := fun h => hc (by simpa using h 0)
    simp only [deltaImg]; rw [if_neg this]

/-- the interpolated impulse is the corner weight. -/
theorem interpCell_delta (d : Nat) (k : Fin d → Int) (x : Fin d → K) (idx : Fin d → Int) :
    interpCell d k (deltaImg idx) x = cellWeight d k x idx := by
  induction d with
  | zero => simp [interpCell, cellWeight, deltaImg]
  | succ d ih =>
    simp only [interpCell, cellWeight, Nat.cast_one, Nat.cast_zero]
    rw [deltaImg_cons idx (k 0), deltaImg_cons idx (k 0 + 1)]
    by_cases h0 : idx 0 = k 0
    · have hA : k 0 = idx 0 := h0.symm
      have hB : ¬ (k 0 + 1 = idx 0) := by omega
      rw [if_pos hA, if_neg hB, if_pos h0, interpCell_zero, ih]; ring
    · by_cases h1 : idx 0 = k 0 + 1
      · have hA : ¬ (k 0 = idx 0) := by omega
        have hB : k 0 + 1 = idx 0 := h1.symm
        rw [if_neg hA, if_pos hB, if_neg h0, if_pos h1, interpCell_zero, ih]; ring
      · have hA : ¬ (k 0 = idx 0) := fun e => h0 e.symm
        have hB : ¬ (k 0 + 1 = idx 0) := fun e => h1 e.symm
        rw [if_neg hA, if_neg hB, if_neg h0, if_neg h1, interpCell_zero]; ring

end Field

section Floor
variable {K : Type} [Field K] [LinearOrder K] [IsStrictOrderedRing K] [FloorRing K]

theorem tailVec_cellOf {d : Nat} (x : Fin (d + 1) → K) : tailVec (cellOf x) = cellOf (tailVec x) := rfl

/-- `interpLin` is the cell polynomial of the cell that contains `x`. -/
theorem interpLin_eq_interpCell (d : Nat) (img : (Fin d → Int) → K) (x : Fin d → K) :
    interpLin d img x = interpCell d (cellOf x) img x := by
  induction d with
  | zero => simp only [interpLin, interpCell]
  | succ d ih =>
    rw [interpLin_succ]
    simp only [interpCell, tailVec_cellOf, Nat.cast_one, ih]
    rfl

/-- value gradient: `interpLin` is linear in the image and the impulse response is the corner weight. -/
theorem interpLin_value_expand (d : Nat) (img : (Fin d → Int) → K) (x : Fin d → K) (idx : Fin d → Int) (t : K) :
    interpLin d (fun j => img j + t * deltaImg idx j) x = interpLin d img x + t * cornerWeight d x idx := by
  rw [interpLin_eq_interpCell, interpLin_eq_interpCell, interpCell_linear, interpCell_delta]; rfl

/-- coordinate gradient inside a cell: as long as the bumped point stays in the cell of `x`,
    `interpLin` is affine along axis `i` with slope `dInterpLin`. -/
theorem interpLin_coord_expand (d : Nat) (img : (Fin d → Int) → K) (x : Fin d → K) (i : Fin d) (t : K)
    (hcell : cellOf (bumpV i t x) = cellOf x) :
    interpLin d img (bumpV i t x) = interpLin d img x + t * dInterpLin d img x i := by
  rw [interpLin_eq_interpCell, interpLin_eq_interpCell, hcell, interpCell_bumpV]; rfl

/-- two points of the same cell: `interpLin` at both is the same multilinear polynomial (the
    "fixed cell" form of the coordinate statement). -/
theorem interpLin_same_cell (d : Nat) (img : (Fin d → Int) → K) (x x' : Fin d → K) (h : cellOf x' = cellOf x) :
    interpLin d img x' = interpCell d (cellOf x) img x' := by
  rw [interpLin_eq_interpCell, h]

theorem cellOf_bumpV_of_floor {d : Nat} (x : Fin d → K) (i : Fin d) (t : K) (h : ⌊x i + t⌋ = ⌊x i⌋) :
    cellOf (bumpV i t x) = cellOf x := by
  funext j
  by_cases hj : j = i
  · subst hj; simp only [cellOf, bumpV, if_true, HasFloor.floor]; exact h
  · simp only [cellOf, bumpV, hj, if_false]

theorem unnormalize_add (ac : Bool) (n p t : K) :
    unnormalize ac n (p + t) = unnormalize ac n p + t * dUnnormalize ac n := by
  cases ac <;> simp only [unnormalize, dUnnormalize, Nat.cast_one, Nat.cast_ofNat, if_true, if_false, Bool.false_eq_true] <;> ring

/-- the un-normalised coordinates of a bumped normalised point. -/
theorem unnormalize_bumpV {d : Nat} (ac : Bool) (size : Fin d → Nat) (p : Fin d → K) (i : Fin d) (t : K) :
    (fun j => unnormalize ac ((size j : Nat) : K) (bumpV i t p j))
      = bumpV i (t * dUnnormalize ac ((size i : Nat) : K)) (fun j => unnormalize ac ((size j : Nat) : K) (p j)) := by
  funext j
  by_cases hj : j = i
  · subst hj; simp only [bumpV, if_true, unnormalize_add]
  · simp only [bumpV, hj, if_false]

theorem extZero_linear {d : Nat} (size : Fin d → Nat) (a b : (Fin d → Int) → K) (t : K) :
    extZero size (fun j => a j + t * b j) = fun j => extZero size a j + t * extZero size b j := by
  funext j; simp only [extZero, Nat.cast_zero]; split_ifs <;> ring

theorem extZero_delta {d : Nat} (size : Fin d → Nat) (idx : Fin d → Int)
    (hin : ∀ i, 0 ≤ idx i ∧ idx i < (size i : Int)) : extZero size (deltaImg (K := K) idx) = deltaImg idx := by
  funext j
  simp only [extZero, Nat.cast_zero]
  by_cases hb : ∀ i, 0 ≤ j i ∧ j i < (size i : Int)
  · rw [if_pos hb]
  · rw [if_neg hb]
    have : ¬ ∀ a, j a = idx a := fun h => hb (fun i => by rw [h i]; exact hin i)
    simp only [deltaImg, this, if_false]

/-- `gridSampleLin` w.r.t. an in-bounds image value, both padding modes. -/
theorem gridSampleLin_value_expand {d : Nat} (ac : Bool) (pad : Padding) (size : Fin d → Nat)
    (img : (Fin d → Int) → K) (p : Fin d → K) (idx : Fin d → Int)
    (hin : ∀ i, 0 ≤ idx i ∧ idx i < (size i : Int)) (t : K) :
    gridSampleLin ac pad size (fun j => img j + t * deltaImg idx j) p
      = gridSampleLin ac pad size img p + t * gradSampleValue ac pad size p idx := by
  cases pad <;>
    simp only [gridSampleLin, gradSampleValue, extZero_linear, extZero_delta size idx hin, interpLin_value_expand]

/-- `gridSampleLin` (zero padding) along coordinate `i` while the un-normalised point stays in its cell. -/
theorem gridSampleLin_coord_expand {d : Nat} (ac : Bool) (size : Fin d → Nat) (img : (Fin d → Int) → K)
    (p : Fin d → K) (i : Fin d) (t : K)
    (hfloor : ⌊unnormalize ac ((size i : Nat) : K) (p i) + t * dUnnormalize ac ((size i : Nat) : K)⌋
                = ⌊unnormalize ac ((size i : Nat) : K) (p i)⌋) :
    gridSampleLin ac .zeros size img (bumpV i t p)
      = gridSampleLin ac .zeros size img p + t * gradSampleCoord ac .zeros size img p i := by
  simp only [gridSampleLin, gradSampleCoord]
  rw [unnormalize_bumpV, interpLin_coord_expand _ _ _ _ _ (cellOf_bumpV_of_floor _ i _ hfloor)]
  ring

end Floor
end Deepali.Grad
