/-
  Proofs/GridMaps.lean — every branch of `Grid.transform` factors through grid-index
  coordinates: `T a b = fromGrid b ∘ toGrid a`. Round trip / composition / two-grid laws
  follow generically.
-/
import Deepali.Model.Grid
import Deepali.Proofs.VecBridge
import Deepali.Proofs.HomogLaws
import Mathlib.Algebra.Order.Floor.Ring
import Mathlib.LinearAlgebra.Matrix.NonsingularInverse
import Mathlib.Tactic.FieldSimp
import Mathlib.Tactic.Ring
import Mathlib.Tactic.LinearCombination

set_option linter.unusedSectionVars false

namespace Deepali
open Matrix

variable {K : Type} [Field K] [LinearOrder K] [IsStrictOrderedRing K] [FloorRing K] {d : Nat}

/-- the rounding primitives of the model, interpreted in an arbitrary floor ring. -/
instance (priority := high) instHasFloorK : HasFloor K := ⟨Int.floor, Int.ceil⟩

/-- a grid the property quantifies over: positive (non-zero) spacing, orthonormal direction,
    no empty axis. -/
structure Grid.Valid (g : Grid d K) : Prop where
  spacing_ne : ∀ i, g.spacing i ≠ 0
  orth : (toM g.direction)ᵀ * toM g.direction = 1
  size_ne : ∀ i, g.sizeTensor i ≠ 0

/-- maps touching CUBE_CORNERS divide by `n − 1`. -/
def Grid.CornersOK (g : Grid d K) (a : Axes) : Prop := a = .cubeCorners → ∀ i, g.sizeTensor i ≠ 1

theorem Grid.Valid.orth' {g : Grid d K} (h : g.Valid) : toM g.direction * (toM g.direction)ᵀ = 1 :=
  mul_eq_one_comm.mp h.orth

theorem affine_eq (g : Grid d K) : toM g.affine = toM g.direction * Matrix.diagonal g.spacing := by
  simp only [Grid.affine, mmul_eq, diag_eq]

theorem inverseAffine_eq (g : Grid d K) :
    toM g.inverseAffine = Matrix.diagonal (fun i => 1 / g.spacing i) * (toM g.direction)ᵀ := by
  simp only [Grid.inverseAffine, mmul_eq, diag_eq, transpose_eq]; simp

theorem affine_mul_inverse {g : Grid d K} (h : g.Valid) : toM g.affine * toM g.inverseAffine = 1 := by
  rw [affine_eq, inverseAffine_eq, Matrix.mul_assoc, ← Matrix.mul_assoc (diagonal g.spacing),
    Matrix.diagonal_mul_diagonal]
  have : (fun i => g.spacing i * (1 / g.spacing i)) = fun _ => (1 : K) := by
    funext i; field_simp [h.spacing_ne i]
  rw [this, Matrix.diagonal_one, Matrix.one_mul, h.orth']

theorem inverse_mul_affine {g : Grid d K} (h : g.Valid) : toM g.inverseAffine * toM g.affine = 1 := by
  rw [affine_eq, inverseAffine_eq, Matrix.mul_assoc, ← Matrix.mul_assoc ((toM g.direction)ᵀ), h.orth,
    Matrix.one_mul, Matrix.diagonal_mul_diagonal]
  have : (fun i => 1 / g.spacing i * g.spacing i) = fun _ => (1 : K) := by
    funext i; field_simp [h.spacing_ne i]
  rw [this, Matrix.diagonal_one]

theorem affine_inverse_mulVec {g : Grid d K} (h : g.Valid) (x : Vec d K) :
    g.affine.mulVec (g.inverseAffine.mulVec x) = x := by
  simp only [mulVec_eq, Matrix.mulVec_mulVec, affine_mul_inverse h, Matrix.one_mulVec]

theorem inverse_affine_mulVec {g : Grid d K} (h : g.Valid) (x : Vec d K) :
    g.inverseAffine.mulVec (g.affine.mulVec x) = x := by
  simp only [mulVec_eq, Matrix.mulVec_mulVec, inverse_mul_affine h, Matrix.one_mulVec]

/-- coordinates w.r.t. `a` ↦ continuous grid index. -/
def toGrid (g : Grid d K) : Axes → Vec d K → Vec d K
  | .grid, x => x
  | .cube, x => fun i => g.sizeTensor i / 2 * x i + (g.sizeTensor i / 2 - 1 / 2)
  | .cubeCorners, x => fun i => (g.sizeTensor i - 1) / 2 * x i + (g.sizeTensor i - 1) / 2
  | .world, x => g.inverseAffine.mulVec (x.sub g.origin)

/-- continuous grid index ↦ coordinates w.r.t. `a`. -/
def fromGrid (g : Grid d K) : Axes → Vec d K → Vec d K
  | .grid, y => y
  | .cube, y => fun i => 2 / g.sizeTensor i * y i + (1 / g.sizeTensor i - 1)
  | .cubeCorners, y => fun i => 2 / (g.sizeTensor i - 1) * y i - 1
  | .world, y => (g.affine.mulVec y).add g.origin

theorem fromGrid_toGrid {g : Grid d K} (h : g.Valid) (a : Axes) (hc : g.CornersOK a) (x : Vec d K) :
    fromGrid g a (toGrid g a x) = x := by
  cases a with
  | grid => rfl
  | cube =>
      funext i; have := h.size_ne i
      simp only [fromGrid, toGrid]; field_simp; ring
  | cubeCorners =>
      funext i; have h1 : g.sizeTensor i - 1 ≠ 0 := sub_ne_zero.mpr (hc rfl i)
      simp only [fromGrid, toGrid]; field_simp; ring
  | world =>
      simp only [fromGrid, toGrid, affine_inverse_mulVec h, vadd_eq, vsub_eq]; abel

theorem toGrid_fromGrid {g : Grid d K} (h : g.Valid) (a : Axes) (hc : g.CornersOK a) (y : Vec d K) :
    toGrid g a (fromGrid g a y) = y := by
  cases a with
  | grid => rfl
  | cube =>
      funext i; have := h.size_ne i
      simp only [fromGrid, toGrid]; field_simp; ring
  | cubeCorners =>
      funext i; have h1 : g.sizeTensor i - 1 ≠ 0 := sub_ne_zero.mpr (hc rfl i)
      simp only [fromGrid, toGrid]; field_simp; ring
  | world =>
      simp only [fromGrid, toGrid, vadd_eq, vsub_eq, add_sub_cancel_right, inverse_affine_mulVec h]

end Deepali

namespace Deepali
open Matrix
variable {K : Type} [Field K] [LinearOrder K] [IsStrictOrderedRing K] [FloorRing K] {d : Nat}

/-- linear parts of `toGrid` / `fromGrid`. -/
def toGridLin (g : Grid d K) : Axes → Vec d K → Vec d K
  | .grid, v => v
  | .cube, v => fun i => g.sizeTensor i / 2 * v i
  | .cubeCorners, v => fun i => (g.sizeTensor i - 1) / 2 * v i
  | .world, v => g.inverseAffine.mulVec v

def fromGridLin (g : Grid d K) : Axes → Vec d K → Vec d K
  | .grid, w => w
  | .cube, w => fun i => 2 / g.sizeTensor i * w i
  | .cubeCorners, w => fun i => 2 / (g.sizeTensor i - 1) * w i
  | .world, w => g.affine.mulVec w

theorem toGrid_add (g : Grid d K) (a : Axes) (x v : Vec d K) :
    toGrid g a (x + v) = toGrid g a x + toGridLin g a v := by
  cases a <;> funext i <;> simp only [toGrid, toGridLin, Pi.add_apply, vsub_eq, mulVec_eq]
  · ring
  · ring
  · rw [add_sub_right_comm, Matrix.mulVec_add]; rfl

theorem fromGrid_add (g : Grid d K) (a : Axes) (y w : Vec d K) :
    fromGrid g a (y + w) = fromGrid g a y + fromGridLin g a w := by
  cases a <;> funext i <;> simp only [fromGrid, fromGridLin, Pi.add_apply, vadd_eq, mulVec_eq]
  · ring
  · ring
  · rw [Matrix.mulVec_add]; simp only [Pi.add_apply]; ring

theorem wrap_apply (A : Mat d K) (t x : Vec d K) :
    ((H.aff A).homogeneousMatrix t).apply x = A.mulVec x + t := by
  rw [homogeneousMatrix_apply]; rfl

theorem world_to_grid_apply (g : Grid d K) (x : Vec d K) :
    ((H.aff g.inverseAffine).hmm (.trans g.origin.neg)).apply x = g.inverseAffine.mulVec (x.sub g.origin) := by
  rw [hmm_apply]; simp only [H.apply, vadd_eq, vsub_eq, vneg_eq, sub_eq_add_neg]

theorem aff_apply (A : Mat d K) (x : Vec d K) : (H.aff A).apply x = A.mulVec x := rfl
theorem trans_apply (t x : Vec d K) : (H.trans t).apply x = x + t := rfl

theorem diag_affine (s t x : Vec d K) : (Mat.diag s).mulVec x + t = fun i => s i * x i + t i := by
  funext i; simp only [Pi.add_apply, diag_mulVec]

/-- **Factorisation** of every branch of the point-map table (`vectors=False`). -/
theorem transform_apply {g : Grid d K} (h : g.Valid) (a b : Axes) (ha : g.CornersOK a) (hb : g.CornersOK b)
    (x : Vec d K) : (g.transform a b false).apply x = fromGrid g b (toGrid g a x) := by
  have hn := h.size_ne
  have e0 : (fun _ : Fin d => (0 : K)) = 0 := rfl
  have hid : ∀ c, g.CornersOK c → x + (fun _ : Fin d => (0 : K)) = fromGrid g c (toGrid g c x) := by
    intro c hc; rw [fromGrid_toGrid h c hc, e0, add_zero]
  cases a <;> cases b <;>
    simp only [Grid.transform, Bool.false_eq_true, if_false, hmm_apply, wrap_apply, trans_apply, aff_apply,
      one_mulVec, vadd_eq, vneg_eq, vsub_eq, Nat.cast_zero, Nat.cast_one, Nat.cast_ofNat]
  case grid.grid => exact hid _ ha
  case cube.cube => exact hid _ ha
  case cubeCorners.cubeCorners => exact hid _ ha
  case world.world => exact hid _ ha
  all_goals simp only [fromGrid, toGrid, vadd_eq, vsub_eq, diag_affine, ← sub_eq_add_neg]
  case cube.world => congr 2; funext i; ring
  case cubeCorners.world => congr 2; funext i; ring
  all_goals funext i
  all_goals have h0 := hn i
  case cube.cubeCorners =>
    have h1 : g.sizeTensor i - 1 ≠ 0 := sub_ne_zero.mpr (hb rfl i)
    rw [diag_mulVec]; field_simp; ring
  case cubeCorners.cube =>
    have h1 : g.sizeTensor i - 1 ≠ 0 := sub_ne_zero.mpr (ha rfl i)
    rw [diag_mulVec]; field_simp; ring
  all_goals first | rfl | ring

theorem aff_applyVec (A : Mat d K) (x : Vec d K) : (H.aff A).applyVec x = A.mulVec x := rfl

theorem diag_mulVec' (s x : Vec d K) : (Mat.diag s).mulVec x = fun i => s i * x i := by
  funext i; exact diag_mulVec s x i

theorem fromGridLin_toGridLin {g : Grid d K} (h : g.Valid) (a : Axes) (hc : g.CornersOK a) (v : Vec d K) :
    fromGridLin g a (toGridLin g a v) = v := by
  have := fromGrid_toGrid h a hc (0 + v)
  rw [toGrid_add, fromGrid_add, fromGrid_toGrid h a hc] at this
  simpa using this

/-- the `vectors=True` table is the linear part of the point table. -/
theorem transform_applyVec {g : Grid d K} (h : g.Valid) (a b : Axes) (ha : g.CornersOK a) (hb : g.CornersOK b)
    (v : Vec d K) : (g.transform a b true).applyVec v = fromGridLin g b (toGridLin g a v) := by
  have hn := h.size_ne
  have hid : ∀ c, g.CornersOK c → v = fromGridLin g c (toGridLin g c v) := by
    intro c hc; rw [fromGridLin_toGridLin h c hc]
  cases a <;> cases b <;>
    simp only [Grid.transform, if_true, matmul_applyVec, aff_applyVec, one_mulVec, Nat.cast_zero, Nat.cast_one,
      Nat.cast_ofNat]
  case grid.grid => exact hid _ ha
  case cube.cube => exact hid _ ha
  case cubeCorners.cubeCorners => exact hid _ ha
  case world.world => exact hid _ ha
  all_goals simp only [fromGridLin, toGridLin, diag_mulVec']
  case cube.world => congr 1; funext i; ring
  case cubeCorners.world => congr 1; funext i; ring
  all_goals funext i
  all_goals have h0 := hn i
  case cube.cubeCorners =>
    have h1 : g.sizeTensor i - 1 ≠ 0 := sub_ne_zero.mpr (hb rfl i)
    field_simp
  case cubeCorners.cube =>
    have h1 : g.sizeTensor i - 1 ≠ 0 := sub_ne_zero.mpr (ha rfl i)
    field_simp
  all_goals first | rfl | ring

theorem vmul_apply (v w : Vec d K) (i : Fin d) : v.mul w i = v i * w i := rfl

/-- the separate closed-form path of `Grid.transform_vectors` computes the same linear map. -/
theorem transformVectors_eq {g : Grid d K} (h : g.Valid) (a b : Axes) (ha : g.CornersOK a) (hb : g.CornersOK b)
    (v : Vec d K) : g.transformVectors a b v = fromGridLin g b (toGridLin g a v) := by
  have hn := h.size_ne
  have hid : ∀ c, g.CornersOK c → v = fromGridLin g c (toGridLin g c v) := by
    intro c hc; rw [fromGridLin_toGridLin h c hc]
  cases a <;> cases b <;> simp [Grid.transformVectors]
  case grid.grid => exact hid _ ha
  case cube.cube => exact hid _ ha
  case cubeCorners.cubeCorners => exact hid _ ha
  case world.world => exact hid _ ha
  all_goals simp only [fromGridLin, toGridLin, diag_mulVec', mul_mulVec]
  all_goals try (funext i)
  all_goals try (have h0 := hn i)
  all_goals try simp only [vmul_apply]
  case cube.cubeCorners =>
    have h1 : g.sizeTensor i - 1 ≠ 0 := sub_ne_zero.mpr (hb rfl i)
    field_simp
  case cubeCorners.cube =>
    have h1 : g.sizeTensor i - 1 ≠ 0 := sub_ne_zero.mpr (ha rfl i)
    field_simp
  all_goals first | rfl | ring

end Deepali

namespace Deepali
open Matrix
variable {K : Type} [Field K] [LinearOrder K] [IsStrictOrderedRing K] [FloorRing K] {d : Nat}

theorem applyTransform_eq {g : Grid d K} (h : g.Valid) (a b : Axes) (ha : g.CornersOK a) (hb : g.CornersOK b)
    (x : Vec d K) : g.applyTransform a b false x = fromGrid g b (toGrid g a x) := by
  unfold Grid.applyTransform
  split
  · next hab => subst hab; rw [fromGrid_toGrid h a ha]
  · simp only [H.applyAs, Bool.false_eq_true, if_false]; exact transform_apply h a b ha hb x

theorem applyTransform_vec_eq {g : Grid d K} (h : g.Valid) (a b : Axes) (ha : g.CornersOK a) (hb : g.CornersOK b)
    (v : Vec d K) : g.applyTransform a b true v = fromGridLin g b (toGridLin g a v) := by
  unfold Grid.applyTransform
  split
  · next hab => subst hab; rw [fromGridLin_toGridLin h a ha]
  · simp only [H.applyAs, if_true]; exact transform_applyVec h a b ha hb v

theorem applyTransformTo_eq {g g' : Grid d K} (h : g.Valid) (h' : g'.Valid) (a b : Axes) (ha : g.CornersOK a)
    (hb : g'.CornersOK b) (x : Vec d K) :
    g.applyTransformTo a g' b false x = fromGrid g' b (toGrid g' .world (fromGrid g .world (toGrid g a x))) := by
  have hw : ∀ g : Grid d K, g.CornersOK .world := fun _ hc => by cases hc
  simp only [Grid.applyTransformTo, Grid.transformTo, H.applyAs, Bool.false_eq_true, if_false, hmm_apply,
    transform_apply h a .world ha (hw g), transform_apply h' .world b (hw g') hb]

theorem applyTransformTo_vec_eq {g g' : Grid d K} (h : g.Valid) (h' : g'.Valid) (a b : Axes) (ha : g.CornersOK a)
    (hb : g'.CornersOK b) (v : Vec d K) :
    g.applyTransformTo a g' b true v
      = fromGridLin g' b (toGridLin g' .world (fromGridLin g .world (toGridLin g a v))) := by
  have hw : ∀ g : Grid d K, g.CornersOK .world := fun _ hc => by cases hc
  simp only [Grid.applyTransformTo, Grid.transformTo, H.applyAs, if_true, matmul_applyVec,
    transform_applyVec h a .world ha (hw g), transform_applyVec h' .world b (hw g') hb]

end Deepali
