/-
  Proofs/GridOps.lean — helper lemmas for property C03 (derived grids), part 1:
  `_resize` and the resizing family (resize, reshape, downsample, upsample, pyramid).
  Invariant `SameFrame ac g g'`: same center, direction, align_corners flag and the same
  cube extent in the convention `ac` (corner samples resp. physical extent).
-/
import Deepali.Model.GridOps
import Deepali.Proofs.GridMaps
import Mathlib.Tactic.Linarith
import Mathlib.Tactic.FieldSimp
import Mathlib.Tactic.Ring
import Mathlib.Tactic.Positivity
import Mathlib.Algebra.Order.Floor.Ring

set_option linter.unusedSectionVars false

namespace Deepali
open Matrix

variable {K : Type} [Field K] [LinearOrder K] [IsStrictOrderedRing K] [FloorRing K] {d : Nat}

theorem vecAll_iff (p : Fin d → Bool) : vecAll p = true ↔ ∀ i, p i = true := by
  simp [vecAll, List.all_eq_true]

theorem Grid.ext' {g g' : Grid d K} (h1 : g.size = g'.size) (h2 : g.center = g'.center)
    (h3 : g.spacing = g'.spacing) (h4 : g.direction = g'.direction) (h5 : g.alignCorners = g'.alignCorners) :
    g = g' := by
  cases g; cases g'; simp_all

theorem sizeTensor_eq (g : Grid d K) : g.sizeTensor = roundSize g.size := rfl

theorem roundSize_apply (s : Vec d K) (i : Fin d) :
    roundSize s i = if s i = 0 then 0 else ((⌈s i⌉ : Int) : K) := by
  simp only [roundSize, Nat.cast_zero, HasFloor.ceil]

theorem roundSize_pos {s : Vec d K} {i : Fin d} (h : 0 < s i) : 0 < roundSize s i := by
  rw [roundSize_apply, if_neg (ne_of_gt h)]
  exact_mod_cast Int.ceil_pos.mpr h

theorem roundSize_ne_zero {s : Vec d K} {i : Fin d} (h : 0 < s i) : roundSize s i ≠ 0 :=
  ne_of_gt (roundSize_pos h)

theorem roundSize_natCast (n : Fin d → Nat) : roundSize (fun i => ((n i : Nat) : K)) = fun i => ((n i : Nat) : K) := by
  funext i
  rw [roundSize_apply]
  split
  · next h => rw [h]
  · simp

theorem roundSize_intCast (n : Fin d → Int) : roundSize (fun i => ((n i : Int) : K)) = fun i => ((n i : Int) : K) := by
  funext i
  rw [roundSize_apply]
  split
  · next h => rw [h]
  · simp

/-- effective `align_corners` of a resizing call. -/
def effAc (ac : Option Bool) (g : Grid d K) : Bool := ac.getD g.alignCorners

theorem effAc_match (ac : Option Bool) (g : Grid d K) :
    (match ac with | some b => b | none => g.alignCorners) = effAc ac g := by
  cases ac <;> rfl

/-- cube extent in convention `ac`: `spacing · (n − 1)` (corner samples) resp. `spacing · n`. -/
def cubeExt (ac : Bool) (g : Grid d K) : Vec d K :=
  fun i => g.spacing i * (if ac then g.sizeTensor i - 1 else g.sizeTensor i)

theorem cubeExtent_eq (g : Grid d K) : g.cubeExtent = cubeExt g.alignCorners g := by
  funext i
  unfold Grid.cubeExtent cubeExt
  cases g.alignCorners <;> simp [Vec.mul]

theorem extent_eq (g : Grid d K) : g.extent = cubeExt false g := by
  funext i; simp [Grid.extent, cubeExt, Vec.mul]

/-- the resizing invariant. -/
structure SameFrame (ac : Bool) (g g' : Grid d K) : Prop where
  center : g'.center = g.center
  direction : g'.direction = g.direction
  flag : g'.alignCorners = g.alignCorners
  ext : ∀ i, cubeExt ac g' i = cubeExt ac g i

theorem SameFrame.refl (ac : Bool) (g : Grid d K) : SameFrame ac g g := ⟨rfl, rfl, rfl, fun _ => rfl⟩

theorem SameFrame.trans {ac : Bool} {g g' g'' : Grid d K} (h : SameFrame ac g g') (h' : SameFrame ac g' g'') :
    SameFrame ac g g'' :=
  ⟨h'.center.trans h.center, h'.direction.trans h.direction, h'.flag.trans h.flag,
    fun i => (h'.ext i).trans (h.ext i)⟩

/-! ### `_resize` -/

/-- the grid `_resize` builds when it does not return `self`. -/
def resizedGrid (g : Grid d K) (size : Vec d K) (ac : Bool) : Grid d K :=
  { g with
    size := size
    spacing := fun i =>
      if 0 < g.size i then
        (if ac then (g.extent i - g.spacing i) / (roundSize size i - 1) else g.extent i / roundSize size i)
      else g.spacing i }

theorem resizeCore_cases (g : Grid d K) (size : Vec d K) (ac : Option Bool) :
    ((∀ i, size i = g.size i) ∧ g.resizeCore size ac = g) ∨
    ((¬ ∀ i, size i = g.size i) ∧ g.resizeCore size ac = resizedGrid g size (effAc ac g)) := by
  unfold Grid.resizeCore
  simp only [effAc_match]
  by_cases h : ∀ i, size i = g.size i
  · left
    refine ⟨h, ?_⟩
    rw [if_pos]
    rw [vecAll_iff]; intro i; simpa using h i
  · right
    refine ⟨h, ?_⟩
    rw [if_neg]
    · unfold resizedGrid effAc
      cases ac with
      | none => simp only [Option.getD_none]; cases g.alignCorners <;> simp
      | some b => cases b <;> simp
    · rw [vecAll_iff]; intro h'; apply h; intro i; simpa using h' i

theorem resizeCore_size (g : Grid d K) (size : Vec d K) (ac : Option Bool) : (g.resizeCore size ac).size = size := by
  rcases resizeCore_cases g size ac with ⟨h, e⟩ | ⟨_, e⟩ <;> rw [e]
  · funext i; exact (h i).symm
  · rfl

theorem resizeCore_center (g : Grid d K) (size : Vec d K) (ac : Option Bool) :
    (g.resizeCore size ac).center = g.center := by
  rcases resizeCore_cases g size ac with ⟨_, e⟩ | ⟨_, e⟩ <;> rw [e]; rfl

theorem resizeCore_direction (g : Grid d K) (size : Vec d K) (ac : Option Bool) :
    (g.resizeCore size ac).direction = g.direction := by
  rcases resizeCore_cases g size ac with ⟨_, e⟩ | ⟨_, e⟩ <;> rw [e]; rfl

theorem resizeCore_flag (g : Grid d K) (size : Vec d K) (ac : Option Bool) :
    (g.resizeCore size ac).alignCorners = g.alignCorners := by
  rcases resizeCore_cases g size ac with ⟨_, e⟩ | ⟨_, e⟩ <;> rw [e]; rfl

theorem resizedGrid_sizeTensor (g : Grid d K) (size : Vec d K) (ac : Bool) :
    (resizedGrid g size ac).sizeTensor = roundSize size := rfl

theorem resizedGrid_size (g : Grid d K) (size : Vec d K) (ac : Bool) : (resizedGrid g size ac).size = size := rfl

theorem resizedGrid_spacing (g : Grid d K) (size : Vec d K) (ac : Bool) (i : Fin d) :
    (resizedGrid g size ac).spacing i =
      if 0 < g.size i then
        (if ac then (g.extent i - g.spacing i) / (roundSize size i - 1) else g.extent i / roundSize size i)
      else g.spacing i := rfl

theorem extent_apply (g : Grid d K) (i : Fin d) : g.extent i = g.spacing i * g.sizeTensor i := rfl

/-- `_resize` keeps the frame: valid source (positive size), rounded target size ≠ 1 when
    corners are aligned (the code divides by `n − 1`), ≠ 0 otherwise. -/
theorem resizeCore_frame (g : Grid d K) (size : Vec d K) (ac : Option Bool) (hpos : ∀ i, 0 < g.size i)
    (hn : ∀ i, roundSize size i ≠ (if effAc ac g then 1 else 0)) :
    SameFrame (effAc ac g) g (g.resizeCore size ac) := by
  rcases resizeCore_cases g size ac with ⟨_, e⟩ | ⟨_, e⟩ <;> rw [e]
  · exact SameFrame.refl _ _
  · refine ⟨rfl, rfl, rfl, fun i => ?_⟩
    have hi := hn i
    unfold cubeExt
    rw [resizedGrid_sizeTensor, resizedGrid_spacing, if_pos (hpos i), extent_apply]
    cases hb : effAc ac g <;> simp only [hb, Bool.false_eq_true, if_false, if_true] at hi ⊢
    · field_simp
    · have h1 : roundSize size i - 1 ≠ 0 := sub_ne_zero.mpr hi
      field_simp

/-- resizing and then resizing back to the original float-valued size restores the grid
    (spacing is recomputed from the extent both times and comes back exactly). -/
theorem resizeCore_back (g : Grid d K) (s1 : Vec d K) (ac : Option Bool) (hpos : ∀ i, 0 < g.size i)
    (hpos1 : ∀ i, 0 < s1 i)
    (hn : effAc ac g = true → ∀ i, roundSize s1 i ≠ 1 ∧ g.sizeTensor i ≠ 1) :
    (g.resizeCore s1 ac).resizeCore g.size ac = g := by
  have hflag : effAc ac (g.resizeCore s1 ac) = effAc ac g := by
    cases ac
    · exact resizeCore_flag g s1 none
    · rfl
  rcases resizeCore_cases g s1 ac with ⟨h1, e1⟩ | ⟨h1, e1⟩
  · rw [e1]
    rcases resizeCore_cases g g.size ac with ⟨_, e2⟩ | ⟨h2, _⟩
    · exact e2
    · exact absurd (fun _ => rfl) h2
  · rcases resizeCore_cases (g.resizeCore s1 ac) g.size ac with ⟨h2, _⟩ | ⟨_, e2⟩
    · rw [resizeCore_size] at h2
      exact absurd (fun i => (h2 i).symm) h1
    · rw [e2, hflag, e1]
      apply Grid.ext' <;> try rfl
      funext i
      have hn0 : roundSize s1 i ≠ 0 := roundSize_ne_zero (hpos1 i)
      have hg0 : g.sizeTensor i ≠ 0 := roundSize_ne_zero (hpos i)
      show (resizedGrid (resizedGrid g s1 (effAc ac g)) g.size (effAc ac g)).spacing i = g.spacing i
      rw [resizedGrid_spacing, resizedGrid_size, if_pos (hpos1 i), extent_apply, resizedGrid_sizeTensor,
        resizedGrid_spacing, if_pos (hpos i), extent_apply, sizeTensor_eq]
      cases hb : effAc ac g <;> simp only [Bool.false_eq_true, if_false, if_true]
      · rw [sizeTensor_eq] at hg0
        field_simp
      · obtain ⟨ha, hb'⟩ := hn hb i
        rw [sizeTensor_eq] at hb'
        have h1' : roundSize s1 i - 1 ≠ 0 := sub_ne_zero.mpr ha
        have h2' : roundSize g.size i - 1 ≠ 0 := sub_ne_zero.mpr hb'
        field_simp


/-! ### origin / corner samples from the frame -/

theorem indexToWorld_eq (g : Grid d K) (x : Vec d K) : g.indexToWorld x = g.affine.mulVec x + g.origin := by
  simp only [Grid.indexToWorld, Grid.applyTransform, Grid.transform, H.applyAs, Bool.false_eq_true, if_false,
    wrap_apply, reduceCtorEq]

theorem affine_mulVec (g : Grid d K) (x : Vec d K) :
    g.affine.mulVec x = g.direction.mulVec (fun i => g.spacing i * x i) := by
  unfold Grid.affine; rw [mul_mulVec, diag_mulVec']

theorem originOffset_eq (g : Grid d K) (hpos : ∀ i, 0 < g.size i) :
    g.originOffset = g.direction.mulVec (fun i => cubeExt true g i / 2) := by
  unfold Grid.originOffset
  rw [affine_mulVec]
  congr 1
  funext i
  have h := roundSize_pos (hpos i)
  rw [← sizeTensor_eq] at h
  simp only [Nat.cast_zero, Nat.cast_one, Nat.cast_ofNat, if_pos h, cubeExt, if_true]
  ring

theorem origin_eq (g : Grid d K) (hpos : ∀ i, 0 < g.size i) :
    g.origin = g.center - g.direction.mulVec (fun i => cubeExt true g i / 2) := by
  unfold Grid.origin; rw [originOffset_eq g hpos]; rfl

/-- world position of the last sample `n − 1`. -/
theorem lastSample_eq (g : Grid d K) (hpos : ∀ i, 0 < g.size i) :
    g.indexToWorld (fun i => g.sizeTensor i - 1) = g.center + g.direction.mulVec (fun i => cubeExt true g i / 2) := by
  rw [indexToWorld_eq, origin_eq g hpos, affine_mulVec]
  have : (fun i => g.spacing i * (g.sizeTensor i - 1)) = fun i => cubeExt true g i / 2 + cubeExt true g i / 2 := by
    funext i; simp only [cubeExt, if_true]; ring
  rw [this]
  have e : (fun i => cubeExt true g i / 2 + cubeExt true g i / 2)
      = (fun i => cubeExt true g i / 2) + (fun i => cubeExt true g i / 2) := rfl
  rw [e, mulVec_eq, mulVec_eq, Matrix.mulVec_add]
  abel

theorem SameFrame.origin_eq {g g' : Grid d K} (h : SameFrame true g g') (hpos : ∀ i, 0 < g.size i)
    (hpos' : ∀ i, 0 < g'.size i) : g'.origin = g.origin := by
  rw [Deepali.origin_eq g hpos, Deepali.origin_eq g' hpos', h.center, h.direction]
  congr 2; funext i; rw [h.ext i]

theorem SameFrame.lastSample_eq {g g' : Grid d K} (h : SameFrame true g g') (hpos : ∀ i, 0 < g.size i)
    (hpos' : ∀ i, 0 < g'.size i) :
    g'.indexToWorld (fun i => g'.sizeTensor i - 1) = g.indexToWorld (fun i => g.sizeTensor i - 1) := by
  rw [Deepali.lastSample_eq g hpos, Deepali.lastSample_eq g' hpos', h.center, h.direction]
  congr 2; funext i; rw [h.ext i]

theorem SameFrame.extent_eq {g g' : Grid d K} (h : SameFrame false g g') : g'.extent = g.extent := by
  rw [Deepali.extent_eq, Deepali.extent_eq]; funext i; exact h.ext i

theorem SameFrame.cubeExtent_eq {g g' : Grid d K} (h : SameFrame g.alignCorners g g') :
    g'.cubeExtent = g.cubeExtent := by
  rw [Deepali.cubeExtent_eq, Deepali.cubeExtent_eq, h.flag]; funext i; exact h.ext i

/-! ### downsample / upsample sizes -/

theorem pow2_natCast (l : Nat) : (pow2 (l : Int) : K) = 2 ^ l := by
  unfold pow2
  rw [if_pos (Int.natCast_nonneg l)]
  simp

theorem foldl_div (c : K) (dims : List (Fin d)) (s : Vec d K) (i : Fin d) :
    (dims.foldl (fun s k => fun i => if i = k then s i / c else s i) s) i = s i / c ^ (dims.count i) := by
  induction dims generalizing s with
  | nil => simp
  | cons k ks ih =>
      rw [List.foldl_cons, ih, List.count_cons]
      by_cases h : i = k
      · subst h; simp [pow_succ, div_div, mul_comm]
      · have : ¬ (k = i) := fun e => h e.symm
        simp [h, this]

theorem foldl_mul (c : K) (dims : List (Fin d)) (s : Vec d K) (i : Fin d) :
    (dims.foldl (fun s k => fun i => if i = k then s i * c else s i) s) i = s i * c ^ (dims.count i) := by
  induction dims generalizing s with
  | nil => simp
  | cons k ks ih =>
      rw [List.foldl_cons, ih, List.count_cons]
      by_cases h : i = k
      · subst h; simp [pow_succ]; ring
      · have : ¬ (k = i) := fun e => h e.symm
        simp [h, this]

/-- how often `downsample`/`upsample` scale axis `i` (`dims` empty = every axis once). -/
def dimCount (dims : List (Fin d)) (i : Fin d) : Nat := (allDims dims).count i

theorem upsampleSize_apply (g : Grid d K) (l : Nat) (dims : List (Fin d)) (i : Fin d) :
    g.upsampleSize (l : Int) dims i = g.size i * (2 ^ l) ^ dimCount dims i := by
  unfold Grid.upsampleSize
  simp only [pow2_natCast]
  exact foldl_mul _ _ _ _

theorem downsampleSize_apply (g : Grid d K) (l : Nat) (dims : List (Fin d)) (m : Nat) (i : Fin d)
    (hm : (m : K) ≤ g.size i / (2 ^ l) ^ dimCount dims i) :
    g.downsampleSize (l : Int) dims m i = g.size i / (2 ^ l) ^ dimCount dims i := by
  unfold Grid.downsampleSize
  simp only [pow2_natCast]
  rw [foldl_div]
  exact if_neg (not_lt.mpr hm)

/-- downsample then upsample (same levels, dims, align_corners argument) is the identity when no
    axis is clamped by `min_size`; with aligned corners the rounded sizes must not be 1. -/
theorem downsample_upsample (g : Grid d K) (l : Nat) (dims : List (Fin d)) (m : Nat) (ac : Option Bool)
    (hpos : ∀ i, 0 < g.size i)
    (hclamp : ∀ i, (m : K) ≤ g.size i / (2 ^ l) ^ dimCount dims i)
    (hn : effAc ac g = true →
      ∀ i, roundSize (fun i => g.size i / (2 ^ l) ^ dimCount dims i) i ≠ 1 ∧ g.sizeTensor i ≠ 1) :
    (g.downsample (l : Int) dims m ac).upsample (l : Int) dims ac = g := by
  have hs1 : g.downsampleSize (l : Int) dims m = fun i => g.size i / (2 ^ l) ^ dimCount dims i := by
    funext i; exact downsampleSize_apply g l dims m i (hclamp i)
  have hc : ∀ i, (0 : K) < (2 ^ l) ^ dimCount dims i := fun i => by positivity
  unfold Grid.upsample Grid.downsample
  have hs2 : (g.resizeCore (g.downsampleSize (l : Int) dims m) ac).upsampleSize (l : Int) dims = g.size := by
    funext i
    rw [upsampleSize_apply, resizeCore_size, hs1]
    have := (hc i).ne'
    field_simp
  rw [hs2, hs1]
  apply resizeCore_back g _ ac hpos
  · intro i; exact div_pos (hpos i) (hc i)
  · exact hn

end Deepali
