/-
  Proofs/GridOpsChain.lean — helper lemmas for property C03, part 4: operations as data.
  The resizing family all end in `_resize` (`GridOp.target`); the index family all end in
  `Grid(size, origin=index_to_world(first), …)` (`GridOp.offset`). Both invariants are closed
  under chains of arbitrary length.
-/
import Deepali.Proofs.GridOpsIndex
import Deepali.Proofs.GridOpsPyramid

set_option linter.unusedSectionVars false

namespace Deepali
open Matrix

variable {K : Type} [Field K] [LinearOrder K] [IsStrictOrderedRing K] [FloorRing K] {d : Nat}

/-- float-valued target size and `align_corners` argument an operation passes to `_resize`. -/
def GridOp.target (op : GridOp d K) (g : Grid d K) : Option (Vec d K × Option Bool) :=
  match op with
  | .resize n ac => some (fun i => ((n i : Nat) : K), ac)
  | .reshape s ac => some (fun i => ((s i.rev : Nat) : K), ac)
  | .downsample l dims m ac => some (g.downsampleSize l dims m, ac)
  | .upsample l dims ac => some (g.upsampleSize l dims, ac)
  | .pyramidLevel l dims m k => some (fun i => (((g.pyramidSizes l dims m k i).toNat : Nat) : K), none)
  | _ => none

theorem apply_of_target {op : GridOp d K} {g : Grid d K} {s : Vec d K} {ac : Option Bool}
    (h : op.target g = some (s, ac)) : op.apply g = g.resizeCore s ac := by
  cases op <;> simp [GridOp.target] at h <;> obtain ⟨rfl, rfl⟩ := h <;> rfl

/-- hypotheses of one resizing step in convention `b` (what the property's quantifier grants):
    the effective `align_corners` is `b`, the new float size is positive and its rounded value is
    not 1 (corners aligned: the code divides by `n − 1`) resp. not 0. -/
def ResizeStepOK (b : Bool) (op : GridOp d K) (g : Grid d K) : Prop :=
  ∃ s ac, op.target g = some (s, ac) ∧ effAc ac g = b ∧ (∀ i, 0 < s i) ∧
    (∀ i, roundSize s i ≠ (if b then 1 else 0))

def ResizeChainOK (b : Bool) : List (GridOp d K) → Grid d K → Prop
  | [], _ => True
  | op :: ops, g => ResizeStepOK b op g ∧ ResizeChainOK b ops (op.apply g)

theorem resize_step {b : Bool} {op : GridOp d K} {g : Grid d K} (hpos : ∀ i, 0 < g.size i)
    (h : ResizeStepOK b op g) : SameFrame b g (op.apply g) ∧ ∀ i, 0 < (op.apply g).size i := by
  obtain ⟨s, ac, ht, hb, hs, hn⟩ := h
  rw [apply_of_target ht]
  subst hb
  exact ⟨resizeCore_frame g s ac hpos hn, fun i => by rw [resizeCore_size]; exact hs i⟩

theorem resize_chain {b : Bool} (ops : List (GridOp d K)) (g : Grid d K) (hpos : ∀ i, 0 < g.size i)
    (h : ResizeChainOK b ops g) :
    SameFrame b g (GridOp.applyAll ops g) ∧ ∀ i, 0 < (GridOp.applyAll ops g).size i := by
  induction ops generalizing g with
  | nil => exact ⟨SameFrame.refl _ _, hpos⟩
  | cons op ops ih =>
      obtain ⟨h1, h2⟩ := h
      obtain ⟨f1, p1⟩ := resize_step hpos h1
      obtain ⟨f2, p2⟩ := ih (op.apply g) p1 h2
      exact ⟨f1.trans f2, p2⟩

/-! ### index family -/

def GridOp.IsIndex : GridOp d K → Prop
  | .crop _ | .pad _ | .centerCrop _ | .centerPad _ | .narrow _ _ _ | .roi _ _ => True
  | _ => False

/-- index (in the source grid) of sample 0 of the derived grid. -/
def GridOp.offset (op : GridOp d K) (g : Grid d K) : Vec d K :=
  match op with
  | .crop num => fun i => ((num.getD (2 * i.val) 0 : Int) : K)
  | .pad num => fun i => -((num.getD (2 * i.val) 0 : Int) : K)
  | .centerCrop n => fun i => (((g.sizeInt i - (if n i < g.sizeInt i then n i else g.sizeInt i)) / 2 : Int) : K)
  | .centerPad n => fun i => ((-(((if g.sizeInt i < n i then n i else g.sizeInt i) - g.sizeInt i) / 2) : Int) : K)
  | .narrow dim start _ => fun i => (((if i.val = dim then start else 0) : Int) : K)
  | .roi start _ => fun i => ((start i : Int) : K)
  | _ => 0

theorem index_op_shifted (op : GridOp d K) (h : op.IsIndex) (g : Grid d K) :
    Shifted g (op.apply g) (op.offset g) := by
  cases op <;> simp only [GridOp.IsIndex] at h
  · exact cropNum_shifted g _
  · exact padNum_shifted g _
  · exact centerCrop_shifted g _
  · exact centerPad_shifted g _
  · exact narrow_shifted g _ _ _
  · exact regionOfInterest_shifted g _ _

def chainOffset : List (GridOp d K) → Grid d K → Vec d K
  | [], _ => 0
  | op :: ops, g => op.offset g + chainOffset ops (op.apply g)

theorem index_chain (ops : List (GridOp d K)) (h : ∀ op ∈ ops, op.IsIndex) (g : Grid d K) :
    Shifted g (GridOp.applyAll ops g) (chainOffset ops g) := by
  induction ops generalizing g with
  | nil => exact Shifted.refl g
  | cons op ops ih =>
      have h1 := index_op_shifted op (h op (List.mem_cons_self)) g
      have h2 := ih (fun o ho => h o (List.mem_cons_of_mem _ ho)) (op.apply g)
      exact h1.trans h2

/-! ### every operation keeps direction and flag -/

theorem resample_direction (g : Grid d K) (sp : Vec d K) (m : Nat) :
    (g.resample sp m).direction = g.direction ∧ (g.resample sp m).alignCorners = g.alignCorners ∧
    (g.resample sp m).center = g.center := by
  unfold Grid.resample; split <;> exact ⟨rfl, rfl, rfl⟩

theorem apply_direction (op : GridOp d K) (g : Grid d K) :
    (op.apply g).direction = g.direction ∧ (op.apply g).alignCorners = g.alignCorners := by
  cases op
  case resize n ac => exact ⟨resizeCore_direction _ _ _, resizeCore_flag _ _ _⟩
  case reshape n ac => exact ⟨resizeCore_direction _ _ _, resizeCore_flag _ _ _⟩
  case resample sp m => exact ⟨(resample_direction g sp m).1, (resample_direction g sp m).2.1⟩
  case resampleIso mx m => exact ⟨(resample_direction g _ m).1, (resample_direction g _ m).2.1⟩
  case downsample l dims m ac => exact ⟨resizeCore_direction _ _ _, resizeCore_flag _ _ _⟩
  case upsample l dims ac => exact ⟨resizeCore_direction _ _ _, resizeCore_flag _ _ _⟩
  case pyramidLevel l dims m k => exact ⟨resizeCore_direction _ _ _, resizeCore_flag _ _ _⟩
  case crop num => exact ⟨(cropNum_shifted g num).direction, (cropNum_shifted g num).flag⟩
  case pad num => exact ⟨(padNum_shifted g num).direction, (padNum_shifted g num).flag⟩
  case centerCrop n => exact ⟨rfl, rfl⟩
  case centerPad n => exact ⟨rfl, rfl⟩
  case narrow dim s l => exact ⟨rfl, rfl⟩
  case roi s n => exact ⟨(regionOfInterest_shifted g s n).direction, (regionOfInterest_shifted g s n).flag⟩
  case pool ks c => exact ⟨rfl, rfl⟩

theorem applyAll_direction (ops : List (GridOp d K)) (g : Grid d K) :
    (GridOp.applyAll ops g).direction = g.direction ∧ (GridOp.applyAll ops g).alignCorners = g.alignCorners := by
  induction ops generalizing g with
  | nil => exact ⟨rfl, rfl⟩
  | cons op ops ih =>
      obtain ⟨a, b⟩ := ih (op.apply g)
      obtain ⟨a', b'⟩ := apply_direction op g
      exact ⟨a.trans a', b.trans b'⟩

end Deepali
