/-
  Proofs/GridOpsIndex.lean — helper lemmas for property C03, part 2: the index family
  (crop, pad, narrow, region of interest, center crop, center pad) and pooling.
  Invariant `Shifted g g' off`: same spacing, direction, flag and `g'.origin = g.indexToWorld off`,
  hence `g'.indexToWorld j = g.indexToWorld (j + off)` for every (continuous) index `j`.
-/
import Deepali.Proofs.GridOps
import Mathlib.Algebra.BigOperators.Group.Finset.Basic
import Mathlib.Algebra.BigOperators.Ring.Finset

set_option linter.unusedSectionVars false

namespace Deepali
open Matrix

variable {K : Type} [Field K] [LinearOrder K] [IsStrictOrderedRing K] [FloorRing K] {d : Nat}

structure Shifted (g g' : Grid d K) (off : Vec d K) : Prop where
  spacing : g'.spacing = g.spacing
  direction : g'.direction = g.direction
  flag : g'.alignCorners = g.alignCorners
  origin : g'.origin = g.indexToWorld off

theorem origin_withOrigin (g : Grid d K) (o : Vec d K) : (g.withOrigin o).origin = o := by
  have h : (g.withOrigin o).originOffset = g.originOffset := rfl
  unfold Grid.origin
  rw [h]
  funext i
  simp [Grid.withOrigin, Vec.add, Vec.sub]

theorem origin_fromOrigin (n o s : Vec d K) (D : Mat d K) (ac : Bool) : (Grid.fromOrigin n o s D ac).origin = o :=
  origin_withOrigin _ _

theorem origin_init (n o s : Vec d K) (D : Mat d K) (ac : Bool) : (Grid.init n o s D ac).origin = o :=
  origin_withOrigin _ _

theorem affine_congr {g g' : Grid d K} (hs : g'.spacing = g.spacing) (hd : g'.direction = g.direction) :
    g'.affine = g.affine := by
  unfold Grid.affine; rw [hs, hd]

theorem indexToWorld_zero (g : Grid d K) : g.indexToWorld 0 = g.origin := by
  rw [indexToWorld_eq, mulVec_eq, Matrix.mulVec_zero, zero_add]

theorem indexToWorld_add (g : Grid d K) (x y : Vec d K) :
    g.indexToWorld (x + y) = g.affine.mulVec x + g.indexToWorld y := by
  rw [indexToWorld_eq, indexToWorld_eq, mulVec_eq, mulVec_eq, mulVec_eq, Matrix.mulVec_add]
  abel

/-- every retained sample keeps its world position. -/
theorem Shifted.indexToWorld {g g' : Grid d K} {off : Vec d K} (h : Shifted g g' off) (j : Vec d K) :
    g'.indexToWorld j = g.indexToWorld (j + off) := by
  rw [indexToWorld_eq, h.origin, affine_congr h.spacing h.direction, indexToWorld_add]

theorem Shifted.refl (g : Grid d K) : Shifted g g 0 := ⟨rfl, rfl, rfl, (indexToWorld_zero g).symm⟩

theorem Shifted.trans {g g' g'' : Grid d K} {a b : Vec d K} (h : Shifted g g' a) (h' : Shifted g' g'' b) :
    Shifted g g'' (a + b) :=
  ⟨h'.spacing.trans h.spacing, h'.direction.trans h.direction, h'.flag.trans h.flag, by
    rw [h'.origin, h.indexToWorld, add_comm]⟩

/-- the constructor call all index operations end with. -/
theorem init_shifted (g : Grid d K) (size off : Vec d K) :
    Shifted g (Grid.init size (g.indexToWorld off) g.spacing g.direction g.alignCorners) off :=
  ⟨rfl, rfl, rfl, origin_init _ _ _ _ _⟩

theorem all_zero_getD (num : List Int) (h : num.all (· == 0) = true) (k : Nat) : num.getD k 0 = 0 := by
  rw [List.getD_eq_getElem?_getD]
  cases hk : num[k]? with
  | none => rfl
  | some v =>
      have hv : v ∈ num := List.mem_of_getElem? hk
      have := List.all_eq_true.mp h v hv
      simpa using this

theorem cropNum_shifted (g : Grid d K) (num : List Int) :
    Shifted g (g.cropNum num) (fun i => ((num.getD (2 * i.val) 0 : Int) : K)) := by
  unfold Grid.cropNum
  split
  · next h =>
    have : (fun i : Fin d => ((num.getD (2 * i.val) 0 : Int) : K)) = 0 := by
      funext i; rw [all_zero_getD num h]; simp
    rw [this]; exact Shifted.refl g
  · exact init_shifted g _ _

theorem padNum_shifted (g : Grid d K) (num : List Int) :
    Shifted g (g.padNum num) (fun i => -((num.getD (2 * i.val) 0 : Int) : K)) := by
  unfold Grid.padNum
  split
  · next h =>
    have : (fun i : Fin d => -((num.getD (2 * i.val) 0 : Int) : K)) = 0 := by
      funext i; rw [all_zero_getD num h]; simp
    rw [this]; exact Shifted.refl g
  · exact init_shifted g _ _

theorem centerCrop_shifted (g : Grid d K) (n : Fin d → Int) :
    Shifted g (g.centerCrop n)
      (fun i => (((g.sizeInt i - (if n i < g.sizeInt i then n i else g.sizeInt i)) / 2 : Int) : K)) :=
  init_shifted g _ _

theorem centerPad_shifted (g : Grid d K) (n : Fin d → Int) :
    Shifted g (g.centerPad n)
      (fun i => ((-(((if g.sizeInt i < n i then n i else g.sizeInt i) - g.sizeInt i) / 2) : Int) : K)) :=
  init_shifted g _ _

theorem narrow_shifted (g : Grid d K) (dim : Nat) (start length : Int) :
    Shifted g (g.narrow dim start length) (fun i => (((if i.val = dim then start else 0) : Int) : K)) :=
  init_shifted g _ _

theorem flatMap_pair_getD_even {ι : Type} (l : List ι) (a b : ι → Int) (k : Nat) :
    (l.flatMap (fun i => [a i, b i])).getD (2 * k) 0 = (l.map a).getD k 0 := by
  induction l generalizing k with
  | nil => simp
  | cons x xs ih =>
      cases k with
      | zero => simp
      | succ k =>
          have : 2 * (k + 1) = 2 * k + 1 + 1 := by ring
          simp only [List.flatMap_cons, List.map_cons, this, List.cons_append, List.nil_append,
            List.getD_cons_succ]
          exact ih k

theorem finRange_map_getD (a : Fin d → Int) (i : Fin d) : ((List.finRange d).map a).getD i.val 0 = a i := by
  rw [List.getD_eq_getElem?_getD, List.getElem?_map]
  simp [i.isLt]

theorem roiNum_getD_even (g : Grid d K) (start size : Fin d → Int) (i : Fin d) :
    (g.roiNum start size).getD (2 * i.val) 0 = start i := by
  unfold Grid.roiNum
  rw [flatMap_pair_getD_even, finRange_map_getD]

theorem regionOfInterest_shifted (g : Grid d K) (start size : Fin d → Int) :
    Shifted g (g.regionOfInterest start size) (fun i => ((start i : Int) : K)) := by
  have h := cropNum_shifted g (g.roiNum start size)
  simp only [roiNum_getD_even] at h
  exact h

/-! ### pooling -/

theorem pool_spacing (g : Grid d K) (ks : Fin d → Nat) (c : Bool) :
    (g.pool ks c).spacing = fun i => g.spacing i * (ks i : K) := rfl

theorem pool_direction (g : Grid d K) (ks : Fin d → Nat) (c : Bool) : (g.pool ks c).direction = g.direction := rfl

theorem pool_flag (g : Grid d K) (ks : Fin d → Nat) (c : Bool) : (g.pool ks c).alignCorners = g.alignCorners := rfl

theorem pool_origin (g : Grid d K) (ks : Fin d → Nat) (c : Bool) :
    (g.pool ks c).origin = g.indexToWorld (fun i => ((ks i : K) - 1) / 2) := by
  unfold Grid.pool
  rw [origin_init]
  simp only [Nat.cast_one, Nat.cast_ofNat]

/-- output sample `j` of a pooled grid sits at old index `k·j + (k−1)/2` on every axis. -/
theorem pool_indexToWorld (g : Grid d K) (ks : Fin d → Nat) (c : Bool) (j : Vec d K) :
    (g.pool ks c).indexToWorld j = g.indexToWorld (fun i => (ks i : K) * j i + ((ks i : K) - 1) / 2) := by
  rw [indexToWorld_eq, pool_origin]
  have e : (fun i => (ks i : K) * j i + ((ks i : K) - 1) / 2)
      = (fun i => (ks i : K) * j i) + (fun i => ((ks i : K) - 1) / 2) := rfl
  rw [e, indexToWorld_add, affine_mulVec, affine_mulVec, pool_direction, pool_spacing]
  congr 2
  funext i; ring

/-- `(k−1)/2` is the mean of the pooled offsets `0, …, k−1`. -/
theorem sum_range_cast (k : Nat) : (∑ r ∈ Finset.range k, (r : K)) = (k : K) * ((k : K) - 1) / 2 := by
  induction k with
  | zero => simp
  | succ k ih => rw [Finset.sum_range_succ, ih]; push_cast; ring

theorem pool_axis_mean (k : Nat) (hk : 0 < k) (j : K) :
    (∑ r ∈ Finset.range k, ((k : K) * j + (r : K))) / (k : K) = (k : K) * j + ((k : K) - 1) / 2 := by
  have hk' : (k : K) ≠ 0 := by exact_mod_cast hk.ne'
  rw [Finset.sum_add_distrib, sum_range_cast, Finset.sum_const, Finset.card_range, nsmul_eq_mul]
  field_simp

/-- the index → world map is affine: it maps the mean of finitely many indices to the mean of
    their world positions (so the world centroid of a pooled box is the map of its mean index). -/
theorem indexToWorld_mean (g : Grid d K) {ι : Type} (s : Finset ι) (hs : s.Nonempty) (x : ι → Vec d K) :
    g.indexToWorld (((s.card : K)⁻¹) • ∑ k ∈ s, x k) = ((s.card : K)⁻¹) • ∑ k ∈ s, g.indexToWorld (x k) := by
  classical
  have hc : (s.card : K) ≠ 0 := by exact_mod_cast (Finset.card_pos.mpr hs).ne'
  have hsum : ∀ t : Finset ι, (toM g.affine) *ᵥ (∑ k ∈ t, x k) = ∑ k ∈ t, (toM g.affine) *ᵥ (x k) := by
    intro t
    induction t using Finset.induction_on with
    | empty => simp
    | insert a t ha ih => rw [Finset.sum_insert ha, Finset.sum_insert ha, Matrix.mulVec_add, ih]
  simp only [indexToWorld_eq, mulVec_eq]
  rw [Matrix.mulVec_smul, hsum, Finset.sum_add_distrib, Finset.sum_const, smul_add, ← Nat.cast_smul_eq_nsmul K,
    smul_smul, inv_mul_cancel₀ hc, one_smul]

end Deepali
