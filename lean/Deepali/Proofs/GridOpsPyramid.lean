/-
  Proofs/GridOpsPyramid.lean — helper lemmas for property C03, part 3: the integer size
  recurrences of `Grid.pyramid` and the frame of every pyramid level.
-/
import Deepali.Proofs.GridOps
import Mathlib.Tactic.Ring
import Mathlib.Tactic.Linarith
import Mathlib.Tactic.Positivity

set_option linter.unusedSectionVars false

namespace Deepali

theorem pow2sum_eq (L : Nat) : pow2sum L = 2 ^ L - 1 := by
  induction L with
  | zero => rfl
  | succ k ih => rw [pow2sum, ih, pow_succ]; ring

theorem two_pow_pos (L : Nat) : (0 : Int) < 2 ^ L := by positivity

theorem one_le_two_pow (L : Nat) : (1 : Int) ≤ 2 ^ L := by
  have := two_pow_pos L; omega

theorem pyrUp_closed (top : Int) (k : Nat) : pyrUp top k = 2 ^ k * (top - 1) + 1 := by
  induction k with
  | zero => simp [pyrUp]
  | succ k ih => rw [pyrUp, ih, pow_succ]; ring

theorem pyrUp_ge (top : Int) (h : 1 ≤ top) (k : Nat) : top ≤ pyrUp top k := by
  induction k with
  | zero => exact le_refl _
  | succ k ih => rw [pyrUp]; omega

/-- without clamping the forward pass `(s+1)//2` reproduces the backward pass `2s−1`. -/
theorem pyrDown_eq (minSize top : Int) (L : Nat) (h1 : 1 ≤ top) (hm : minSize ≤ top) :
    ∀ l, l ≤ L → pyrDown minSize (pyrUp top L) l = pyrUp top (L - l) := by
  intro l
  induction l with
  | zero => intro _; rfl
  | succ l ih =>
      intro hl
      have ih' := ih (by omega)
      obtain ⟨k, hk⟩ : ∃ k, L - l = k + 1 := ⟨L - l - 1, by omega⟩
      have hk' : L - (l + 1) = k := by omega
      rw [hk']
      rw [hk] at ih'
      have hq := pyrUp_ge top h1 k
      simp only [pyrDown, ih', pyrUp]
      have : (2 * pyrUp top k - 1 + 1) / 2 = pyrUp top k := by omega
      rw [this, if_neg (by omega)]

theorem pyrTop_ge_two (n : Int) (L : Nat) (ac : Bool) (hn : 2 ^ (L + 1) ≤ n) : 2 ≤ pyrTop n L ac := by
  unfold pyrTop
  have hp := two_pow_pos L
  have hp1 : (0 : Int) < 2 ^ (L + 1) := two_pow_pos (L + 1)
  rw [Int.le_ediv_iff_mul_le hp1]
  have hm : (0 : Int) ≤ (if ac then pow2sum L else 0) := by
    split
    · rw [pow2sum_eq]; omega
    · exact le_refl _
  have e : (2 : Int) ^ (L + 1) = 2 * 2 ^ L := by rw [pow_succ]; ring
  rw [e] at hn ⊢
  nlinarith

/-- closed form of the level sizes when `min_size` does not clamp. -/
theorem pyramidSize_closed (n : Int) (L : Nat) (ac : Bool) (minSize : Int) (l : Nat) (hl : l ≤ L)
    (h1 : 1 ≤ pyrTop n L ac) (hm : minSize ≤ pyrTop n L ac) :
    pyramidSize n L ac minSize true l = 2 ^ (L - l) * (pyrTop n L ac - 1) + 1 := by
  unfold pyramidSize
  rw [if_pos rfl, pyrDown_eq minSize _ L h1 hm l hl, pyrUp_closed]

theorem pyramidSize_ge_two (n : Int) (L : Nat) (ac : Bool) (minSize : Int) (inDims : Bool) (l : Nat) (hl : l ≤ L)
    (hn : 2 ^ (L + 1) ≤ n) (hm : minSize ≤ 2) : 2 ≤ pyramidSize n L ac minSize inDims l := by
  have ht := pyrTop_ge_two n L ac hn
  cases inDims
  · unfold pyramidSize
    rw [if_neg (by simp)]
    have := one_le_two_pow L
    rw [pow_succ] at hn
    omega
  · rw [pyramidSize_closed n L ac minSize l hl (by omega) (by omega)]
    have := one_le_two_pow (L - l)
    nlinarith

variable {K : Type} [Field K] [LinearOrder K] [IsStrictOrderedRing K] [FloorRing K] {d : Nat}

/-- `resize` to integer sizes ≥ 2 keeps the frame in either convention. -/
theorem resize_frame (g : Grid d K) (n : Fin d → Nat) (ac : Option Bool) (hpos : ∀ i, 0 < g.size i)
    (hn : ∀ i, 2 ≤ n i) : SameFrame (effAc ac g) g (g.resize n ac) := by
  unfold Grid.resize
  apply resizeCore_frame g _ ac hpos
  intro i
  rw [roundSize_natCast]
  have h2 := hn i
  split
  · rw [Ne, Nat.cast_eq_one]; omega
  · rw [Ne, Nat.cast_eq_zero]; omega

/-- every pyramid level has the frame of the original grid (in the grid's own convention). -/
theorem pyramidLevel_frame (g : Grid d K) (L : Nat) (dims : List (Fin d)) (m : Int) (l : Nat)
    (hpos : ∀ i, 0 < g.size i) (hsz : ∀ i, 2 ≤ g.pyramidSizes L dims m l i) :
    SameFrame g.alignCorners g (g.pyramidLevel L dims m l) := by
  unfold Grid.pyramidLevel
  exact resize_frame g _ none hpos (fun i => by have := hsz i; omega)

theorem pyramidSizes_ge_two (g : Grid d K) (L : Nat) (dims : List (Fin d)) (m : Int) (l : Nat) (hl : l ≤ L)
    (hn : ∀ i, 2 ^ (L + 1) ≤ g.sizeInt i) (hm : m ≤ 2) (i : Fin d) : 2 ≤ g.pyramidSizes L dims m l i :=
  pyramidSize_ge_two _ L _ m _ l hl (hn i) hm

end Deepali
