/-
  Proofs/GridOpsResample.lean — helper lemmas for property C03, part 5: `resample` (extent is
  covered, by less than one new spacing) and `Cube.grid` (cube extent reproduced exactly).
-/
import Deepali.Proofs.GridOps
import Mathlib.Tactic.Linarith
import Mathlib.Tactic.FieldSimp

set_option linter.unusedSectionVars false

namespace Deepali
open Matrix

variable {K : Type} [Field K] [LinearOrder K] [IsStrictOrderedRing K] [FloorRing K] {d : Nat}

theorem extent_pos (g : Grid d K) (hpos : ∀ i, 0 < g.size i) (hsp : ∀ i, 0 < g.spacing i) (i : Fin d) :
    0 < g.extent i := by
  rw [extent_apply, sizeTensor_eq]; exact mul_pos (hsp i) (roundSize_pos (hpos i))

/-- the grid `resample` builds when the requested spacing differs and no axis is clamped. -/
theorem resample_cases (g : Grid d K) (sp : Vec d K) (m : Nat) (hpos : ∀ i, 0 < g.size i)
    (hm : ∀ i, (m : K) ≤ g.extent i / sp i) :
    g.resample sp m = g ∨ g.resample sp m = { g with size := fun i => g.extent i / sp i, spacing := sp } := by
  unfold Grid.resample
  split
  · left; rfl
  · right
    apply Grid.ext' <;> try rfl
    funext i
    show (if ((0 : Nat) : K) < g.size i then (if g.extent i / sp i < (m : K) then (m : K) else g.extent i / sp i)
      else g.extent i / sp i) = g.extent i / sp i
    rw [if_pos (by simpa using hpos i), if_neg (not_lt.mpr (hm i))]

theorem resample_extent (g : Grid d K) (sp : Vec d K) (m : Nat) (hpos : ∀ i, 0 < g.size i)
    (hspg : ∀ i, 0 < g.spacing i) (hsp : ∀ i, 0 < sp i) (hm : ∀ i, (m : K) ≤ g.extent i / sp i) (i : Fin d) :
    g.extent i ≤ (g.resample sp m).extent i ∧
    (g.resample sp m).extent i < g.extent i + (g.resample sp m).spacing i := by
  rcases resample_cases g sp m hpos hm with e | e <;> rw [e]
  · exact ⟨le_refl _, by linarith [hspg i]⟩
  · have hx : 0 < g.extent i / sp i := div_pos (extent_pos g hpos hspg i) (hsp i)
    have he : ({ g with size := fun i => g.extent i / sp i, spacing := sp } : Grid d K).extent i
        = sp i * ((⌈g.extent i / sp i⌉ : Int) : K) := by
      rw [extent_apply, sizeTensor_eq, roundSize_apply, if_neg hx.ne']
    rw [he]
    have h1 := Int.le_ceil (g.extent i / sp i)
    have h2 := Int.ceil_lt_add_one (g.extent i / sp i)
    have hs := hsp i
    have hmul : sp i * (g.extent i / sp i) = g.extent i := by field_simp
    constructor
    · calc g.extent i = sp i * (g.extent i / sp i) := hmul.symm
        _ ≤ sp i * ((⌈g.extent i / sp i⌉ : Int) : K) := mul_le_mul_of_nonneg_left h1 hs.le
    · calc sp i * ((⌈g.extent i / sp i⌉ : Int) : K) < sp i * (g.extent i / sp i + 1) :=
            mul_lt_mul_of_pos_left h2 hs
        _ = g.extent i + sp i := by rw [mul_add, hmul, mul_one]

/-- when the old extent is a whole number of new spacings the extent is kept exactly. -/
theorem resample_extent_divisible (g : Grid d K) (sp : Vec d K) (m : Nat) (hpos : ∀ i, 0 < g.size i)
    (hspg : ∀ i, 0 < g.spacing i) (hsp : ∀ i, 0 < sp i) (hm : ∀ i, (m : K) ≤ g.extent i / sp i) (i : Fin d)
    (k : Int) (hk : g.extent i / sp i = (k : K)) : (g.resample sp m).extent i = g.extent i := by
  rcases resample_cases g sp m hpos hm with e | e <;> rw [e]
  have hx : 0 < g.extent i / sp i := div_pos (extent_pos g hpos hspg i) (hsp i)
  have he : ({ g with size := fun i => g.extent i / sp i, spacing := sp } : Grid d K).extent i
      = sp i * ((⌈g.extent i / sp i⌉ : Int) : K) := by
    rw [extent_apply, sizeTensor_eq, roundSize_apply, if_neg hx.ne']
  rw [he, hk, Int.ceil_intCast, ← hk]
  have := (hsp i).ne'
  field_simp

/-- `Cube.grid(size, align_corners)`: the consistency check `grid.cube_extent() ≈ cube.extent()`
    compares equal quantities. -/
theorem cubeGrid_cubeExtent (e c : Vec d K) (D : Mat d K) (n : Fin d → Nat) (ac : Bool)
    (hn : ∀ i, n i ≠ (if ac then 1 else 0)) : (cubeGrid e c D n ac).cubeExtent = e := by
  funext i
  have hi := hn i
  rw [cubeExtent_eq]
  unfold cubeExt
  rw [sizeTensor_eq]
  have hs : (cubeGrid e c D n ac).size = fun i => ((n i : Nat) : K) := rfl
  rw [hs, roundSize_natCast]
  cases ac <;> simp only [cubeGrid, Bool.false_eq_true, if_false, if_true, Nat.cast_one] at hi ⊢
  · have : (n i : K) ≠ 0 := by exact_mod_cast hi
    field_simp
  · have : (n i : K) - 1 ≠ 0 := sub_ne_zero.mpr (by exact_mod_cast hi)
    field_simp

end Deepali
