/-
  Proofs/Heap.lean — lemmas about the trace semantics and the monitor of Model/Heap.lean (C15 part 1).
-/
import Deepali.Model.Heap
import Mathlib.Tactic.Common

set_option linter.unusedSectionVars false

namespace Deepali

variable {V : Type}

theorem envStep_next_ge (env : TEnv) (next : Nat) (op : TrOp) : next ≤ (envStep env next op).2 := by
  cases op with
  | fresh t => simp [envStep]
  | view t src => simp only [envStep]; cases env.lookup src <;> simp
  | aliasOf t src => simp only [envStep]; cases env.lookup src <;> simp
  | inplace t => simp [envStep]

/-- the heap after one op (the `let h'` of `exec`) -/
def stepHeap (writes : Nat → Heap V → V) (k : Nat) (env : TEnv) (op : TrOp) (h : Heap V) : Heap V :=
  match op with
  | .fresh _ => h.alloc (writes k h)
  | .inplace t =>
      match env.lookup t with
      | some s => h.write s (writes k h)
      | none => h
  | _ => h

theorem exec_cons (writes : Nat → Heap V → V) (k : Nat) (env : TEnv) (op : TrOp) (tr : Trace) (h : Heap V) :
    exec writes k env (op :: tr) h
      = exec writes (k + 1) (envStep env h.next op).1 tr (stepHeap writes k env op h) := by
  cases op <;> rfl

theorem stepHeap_next (writes : Nat → Heap V → V) (k : Nat) (env : TEnv) (op : TrOp) (h : Heap V) :
    (stepHeap writes k env op h).next = (envStep env h.next op).2 := by
  cases op with
  | fresh t => simp [stepHeap, envStep, Heap.alloc]
  | view t src => simp only [stepHeap, envStep]; cases env.lookup src <;> rfl
  | aliasOf t src => simp only [stepHeap, envStep]; cases env.lookup src <;> rfl
  | inplace t => simp only [stepHeap, envStep]; cases env.lookup t <;> rfl

/-- one op accepted by the monitor leaves every argument storage as it was -/
theorem stepHeap_read_of_opSafe (writes : Nat → Heap V → V) (k : Nat) (env : TEnv) (op : TrOp) (h : Heap V)
    (args : List Nat) (hs : opSafe args env op = true) (a : Nat) (ha : a ∈ args) (hlt : a < h.next) :
    (stepHeap writes k env op h).read a = h.read a := by
  cases op with
  | fresh t =>
      have : a ≠ h.next := Nat.ne_of_lt hlt
      simp [stepHeap, Heap.alloc, this]
  | view t src => rfl
  | aliasOf t src => rfl
  | inplace t =>
      simp only [stepHeap, opSafe] at hs ⊢
      cases hl : env.lookup t with
      | none => simp [hl] at hs
      | some s =>
          simp only [hl] at hs ⊢
          have hne : a ≠ s := by
            intro e; subst e
            simp [List.contains_iff_mem, ha] at hs
          simp [Heap.write, hne]

/-- soundness of the monitor, for traces of any length, any initial heap, any written contents -/
theorem exec_preserves_args (writes : Nat → Heap V → V) (args : List Nat) :
    ∀ (tr : Trace) (k : Nat) (env : TEnv) (h : Heap V),
      safe args env h.next tr = true → (∀ a ∈ args, a < h.next) →
      ∀ a ∈ args, (exec writes k env tr h).read a = h.read a := by
  intro tr
  induction tr with
  | nil => intro k env h _ _ a _; rfl
  | cons op tr ih =>
      intro k env h hs hb a ha
      rw [exec_cons]
      simp only [safe, Bool.and_eq_true] at hs
      obtain ⟨h1, h2⟩ := hs
      have hn := stepHeap_next writes k env op h
      have hge := envStep_next_ge env h.next op
      rw [← hn] at h2
      have hb' : ∀ a ∈ args, a < (stepHeap writes k env op h).next := by
        intro b hbm; rw [hn]; exact Nat.lt_of_lt_of_le (hb b hbm) hge
      rw [ih (k + 1) _ _ h2 hb' a ha]
      exact stepHeap_read_of_opSafe writes k env op h args h1 a ha (hb a ha)

/-! ### Completeness: a rejected (well-formed) trace really has a write into an argument storage -/

theorem writtenArgs_subset (args : List Nat) :
    ∀ (tr : Trace) (env : TEnv) (next : Nat), ∀ s ∈ writtenArgs args env next tr, s ∈ args := by
  intro tr
  induction tr with
  | nil => intro env next s hs; simp [writtenArgs] at hs
  | cons op tr ih =>
      intro env next s hs
      cases op with
      | fresh t => exact ih _ _ s (by simpa [writtenArgs] using hs)
      | view t src => exact ih _ _ s (by simpa [writtenArgs] using hs)
      | aliasOf t src => exact ih _ _ s (by simpa [writtenArgs] using hs)
      | inplace t =>
          simp only [writtenArgs] at hs
          cases hl : env.lookup t with
          | none => simp only [hl] at hs; exact ih _ _ s hs
          | some s' =>
              simp only [hl] at hs
              by_cases hc : args.contains s' = true
              · simp only [hc, if_true, List.mem_cons] at hs
                rcases hs with rfl | hs
                · simpa [List.contains_iff_mem] using hc
                · exact ih _ _ s hs
              · simp only [hc] at hs
                exact ih _ _ s hs

/-- the monitor rejects exactly when `writtenArgs` is non-empty (well-formed traces) -/
theorem safe_false_iff_written (args : List Nat) :
    ∀ (tr : Trace) (env : TEnv) (next : Nat), wfTrace env next tr = true →
      (safe args env next tr = false ↔ writtenArgs args env next tr ≠ []) := by
  intro tr
  induction tr with
  | nil => intro env next _; simp [safe, writtenArgs]
  | cons op tr ih =>
      intro env next hwf
      simp only [wfTrace, Bool.and_eq_true] at hwf
      obtain ⟨hw1, hw2⟩ := hwf
      have ih' := ih _ _ hw2
      cases op with
      | fresh t => simpa [safe, opSafe, writtenArgs] using ih'
      | view t src => simpa [safe, opSafe, writtenArgs] using ih'
      | aliasOf t src => simpa [safe, opSafe, writtenArgs] using ih'
      | inplace t =>
          cases hl : env.lookup t with
          | none => simp [hl] at hw1
          | some s =>
              by_cases hc : s ∈ args
              · simp [safe, opSafe, writtenArgs, hl, hc]
              · simpa [safe, opSafe, writtenArgs, hl, hc] using ih'

/-- position of the first rejected op: the trace splits as `pre ++ inplace t :: post` where the
    monitor accepts `pre` and `t` lives in an argument storage at that point -/
theorem safe_false_split (args : List Nat) :
    ∀ (tr : Trace) (env : TEnv) (next : Nat), wfTrace env next tr = true → safe args env next tr = false →
      ∃ (pre post : Trace) (t s : Nat), tr = pre ++ TrOp.inplace t :: post ∧ safe args env next pre = true ∧
        (finalEnv env next pre).lookup t = some s ∧ s ∈ args := by
  intro tr
  induction tr with
  | nil => intro env next _ h; simp [safe] at h
  | cons op tr ih =>
      intro env next hwf hs
      simp only [wfTrace, Bool.and_eq_true] at hwf
      obtain ⟨hw1, hw2⟩ := hwf
      by_cases h1 : opSafe args env op = true
      · have h2 : safe args (envStep env next op).1 (envStep env next op).2 tr = false := by
          simpa [safe, h1] using hs
        obtain ⟨pre, post, t, s, e, hp, hl, hm⟩ := ih _ _ hw2 h2
        refine ⟨op :: pre, post, t, s, by simp [e], ?_, ?_, hm⟩
        · simp [safe, h1, hp]
        · simpa [finalEnv] using hl
      · cases op with
        | fresh t => simp [opSafe] at h1
        | view t src => simp [opSafe] at h1
        | aliasOf t src => simp [opSafe] at h1
        | inplace t =>
            cases hl : env.lookup t with
            | none => simp [hl] at hw1
            | some s =>
                refine ⟨[], tr, t, s, rfl, by simp [safe], by simpa [finalEnv] using hl, ?_⟩
                simpa [opSafe, hl, List.contains_iff_mem] using h1

/-! ### Semantic completeness: a rejected trace has an execution that changes an argument -/

/-- with the constant content function `fun _ _ => v`, a storage that already reads `v` keeps
    reading `v` whatever the trace does -/
theorem exec_const_keeps (v : V) :
    ∀ (tr : Trace) (k : Nat) (env : TEnv) (h : Heap V) (s : Nat), s < h.next → h.read s = v →
      (exec (fun _ _ => v) k env tr h).read s = v := by
  intro tr
  induction tr with
  | nil => intro k env h s _ hv; exact hv
  | cons op tr ih =>
      intro k env h s hlt hv
      rw [exec_cons]
      have hn := stepHeap_next (fun _ _ => v) k env op h
      have hge := envStep_next_ge env h.next op
      apply ih
      · rw [hn]; exact Nat.lt_of_lt_of_le hlt hge
      · cases op with
        | fresh t =>
            have : s ≠ h.next := Nat.ne_of_lt hlt
            simp [stepHeap, Heap.alloc, this, hv]
        | view t src => exact hv
        | aliasOf t src => exact hv
        | inplace t =>
            simp only [stepHeap]
            cases env.lookup t with
            | none => exact hv
            | some s' =>
                by_cases e : s = s'
                · simp [Heap.write, e]
                · simp [Heap.write, e, hv]

theorem exec_const_hits (v : V) (args : List Nat) :
    ∀ (tr : Trace) (k : Nat) (env : TEnv) (h : Heap V), wfTrace env h.next tr = true →
      (∀ a ∈ args, a < h.next) → safe args env h.next tr = false →
      ∃ a ∈ args, (exec (fun _ _ => v) k env tr h).read a = v := by
  intro tr
  induction tr with
  | nil => intro k env h _ _ hs; simp [safe] at hs
  | cons op tr ih =>
      intro k env h hwf hb hs
      simp only [wfTrace, Bool.and_eq_true] at hwf
      obtain ⟨hw1, hw2⟩ := hwf
      have hn := stepHeap_next (fun _ _ => v) k env op h
      have hge := envStep_next_ge env h.next op
      have hb' : ∀ a ∈ args, a < (stepHeap (fun _ _ => v) k env op h).next := by
        intro b hbm; rw [hn]; exact Nat.lt_of_lt_of_le (hb b hbm) hge
      rw [exec_cons]
      by_cases h1 : opSafe args env op = true
      · have h2 : safe args (envStep env h.next op).1 (envStep env h.next op).2 tr = false := by
          simpa [safe, h1] using hs
        rw [← hn] at h2 hw2
        exact ih (k + 1) _ _ hw2 hb' h2
      · cases op with
        | fresh t => simp [opSafe] at h1
        | view t src => simp [opSafe] at h1
        | aliasOf t src => simp [opSafe] at h1
        | inplace t =>
            cases hl : env.lookup t with
            | none => simp [hl] at hw1
            | some s =>
                have hm : s ∈ args := by simpa [opSafe, hl, List.contains_iff_mem] using h1
                refine ⟨s, hm, ?_⟩
                apply exec_const_keeps
                · exact hb' s hm
                · simp [stepHeap, hl, Heap.write]

end Deepali
