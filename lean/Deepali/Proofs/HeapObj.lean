/-
  Proofs/HeapObj.lean — frame lemmas for the object-graph model of Model/Heap.lean (C15 part 2):
  * every command only changes nodes it records in `touched` and nodes it allocates (`StepOK`);
  * `freshOnly`: a static monitor for primitive programs ("writes only through registers that hold
    nodes allocated by the program itself") with its soundness proof;
  * the view (reachable tree) of an object only depends on the nodes below a closed bound.
-/
import Deepali.Model.Heap
import Mathlib.Tactic.Common

set_option linter.unusedSectionVars false

namespace Deepali

/-- what every command guarantees: allocation only grows, the write log only grows, and an old node
    that is not in the write log is unchanged -/
structure StepOK (st st' : OState) : Prop where
  next_le : st.heap.next ≤ st'.heap.next
  touched_sub : ∀ n ∈ st.touched, n ∈ st'.touched
  frame : ∀ n, n < st.heap.next → n ∉ st'.touched → st'.heap.node n = st.heap.node n

theorem StepOK.refl (st : OState) : StepOK st st := ⟨Nat.le_refl _, fun _ h => h, fun _ _ _ => rfl⟩

theorem StepOK.trans {a b c : OState} (h1 : StepOK a b) (h2 : StepOK b c) : StepOK a c := by
  refine ⟨Nat.le_trans h1.next_le h2.next_le, fun n hn => h2.touched_sub n (h1.touched_sub n hn), ?_⟩
  intro n hn hnt
  have hb : n ∉ b.touched := fun hin => hnt (h2.touched_sub n hin)
  rw [h2.frame n (Nat.lt_of_lt_of_le hn h1.next_le) hnt, h1.frame n hn hb]

theorem touch_ok (st : OState) (n : Nat) (v : ONode) : StepOK st (st.touch n v) := by
  refine ⟨Nat.le_refl _, fun m hm => List.mem_cons_of_mem _ hm, ?_⟩
  intro m _ hm
  have : m ≠ n := fun e => hm (by simp [OState.touch, e])
  simp [OState.touch, OHeap.setNode, this]

theorem allocReg_ok (st : OState) (v : ONode) (dst : Nat) : StepOK st (st.allocReg dst v) := by
  refine ⟨by simp [OState.allocReg, OState.setReg, OHeap.alloc], fun m hm => by simpa [OState.allocReg, OState.setReg] using hm, ?_⟩
  intro m hm _
  have : m ≠ st.heap.next := Nat.ne_of_lt hm
  simp [OState.allocReg, OState.setReg, OHeap.alloc, this]

theorem same_heap_ok (st st' : OState) (hh : st'.heap = st.heap) (ht : st'.touched = st.touched) : StepOK st st' :=
  ⟨by rw [hh]; exact Nat.le_refl _, fun n h => by rw [ht]; exact h, fun n _ _ => by rw [hh]⟩

theorem loadReg_ok (st : OState) (dst src key : Nat) : StepOK st (st.loadReg dst src key) := by
  unfold OState.loadReg
  split
  · exact same_heap_ok _ _ rfl rfl
  · exact same_heap_ok _ _ rfl rfl

theorem delEntryOf_ok (st : OState) (obj key : Nat) : StepOK st (st.delEntryOf obj key) := by
  unfold OState.delEntryOf
  simp only
  split
  · exact touch_ok st _ _
  · exact StepOK.refl st

theorem execPrim_ok (st : OState) (p : Prim) : StepOK st (execPrim st p) := by
  cases p with
  | copyNode dst src => exact allocReg_ok st _ dst
  | newNode dst tag data => exact allocReg_ok st _ dst
  | load dst src key => exact loadReg_ok st dst src key
  | store obj key val => exact touch_ok st _ _
  | storeImm obj key k => exact touch_ok st _ _
  | del obj key => exact delEntryOf_ok st obj key
  | poke obj data => exact touch_ok st _ _
  | move dst src => exact same_heap_ok _ _ rfl rfl
  | raise => exact same_heap_ok _ _ rfl rfl

theorem stepPrim_ok (st : OState) (p : Prim) : StepOK st (stepPrim st p) := by
  unfold stepPrim
  split
  · exact StepOK.refl st
  · exact execPrim_ok st p

theorem runPrims_ok (ps : List Prim) : ∀ st : OState, StepOK st (runPrims st ps) := by
  induction ps with
  | nil => intro st; exact StepOK.refl st
  | cons p ps ih => intro st; exact (stepPrim_ok st p).trans (ih _)

theorem stepCmd_ok (st : OState) (c : Cmd) : StepOK st (stepCmd st c) := by
  unfold stepCmd
  by_cases hh : st.halted = true
  · simp [hh, StepOK.refl]
  · simp only [hh, Bool.false_eq_true, if_false]; exact runPrims_ok _ st

theorem runCmds_ok (cs : List Cmd) : ∀ st : OState, StepOK st (runCmds st cs) := by
  induction cs with
  | nil => intro st; exact StepOK.refl st
  | cons c cs ih => intro st; exact (stepCmd_ok st c).trans (ih _)

theorem runProg_ok (st : OState) (p : Prog) : StepOK st (runProg st p) := runCmds_ok _ st

theorem runProgs_ok (ps : List Prog) : ∀ st : OState, StepOK st (runProgs st ps) := by
  induction ps with
  | nil => intro st; exact StepOK.refl st
  | cons p ps ih => intro st; exact (runProg_ok st p).trans (ih _)

/-! ### Views depend only on the nodes below a closed bound -/

/-- nodes below `b` only refer to nodes below `b` -/
def Closed (h : OHeap) (b : Nat) : Prop :=
  ∀ n, n < b → ∀ e ∈ (h.node n).entries, ∀ m, e.2 = OVal.ref m → m < b

/-- the nodes satisfying `S` only refer to nodes satisfying `S` -/
def ClosedSet (h : OHeap) (S : Nat → Prop) : Prop :=
  ∀ n, S n → ∀ e ∈ (h.node n).entries, ∀ m, e.2 = OVal.ref m → S m

theorem view_eq_of_set (h h' : OHeap) (S : Nat → Prop) (hc : ClosedSet h S)
    (heq : ∀ n, S n → h'.node n = h.node n) :
    ∀ (fuel : Nat) (v : OVal), (∀ m, v = OVal.ref m → S m) → viewVal h' fuel v = viewVal h fuel v := by
  intro fuel
  induction fuel with
  | zero => intro v _; cases v <;> simp [viewVal]
  | succ f ih =>
      intro v hv
      cases v with
      | imm k => simp [viewVal]
      | ref n =>
          have hn : S n := hv n rfl
          simp only [viewVal, heq n hn]
          congr 1
          apply List.map_congr_left
          intro e he
          rw [ih e.2 (fun m hm => hc n hn e he m hm)]

theorem view_eq (h h' : OHeap) (b : Nat) (hc : Closed h b) (heq : ∀ n, n < b → h'.node n = h.node n) :
    ∀ (fuel : Nat) (v : OVal), (∀ m, v = OVal.ref m → m < b) → viewVal h' fuel v = viewVal h fuel v :=
  view_eq_of_set h h' (fun n => n < b) hc heq

/-! ### A static monitor for primitive programs: writes go only through registers that hold nodes
    allocated by the program itself -/

def freshStep (F : List Nat) : Prim → Option (List Nat)
  | .copyNode dst _ => some (dst :: F)
  | .newNode dst _ _ => some (dst :: F)
  | .load dst _ _ => some (F.filter (· ≠ dst))
  | .store obj _ _ => if obj ∈ F then some F else none
  | .storeImm obj _ _ => if obj ∈ F then some F else none
  | .del obj _ => if obj ∈ F then some F else none
  | .poke obj _ => if obj ∈ F then some F else none
  | .move dst src => some (if src ∈ F then dst :: F else F.filter (· ≠ dst))
  | .raise => some F

def freshOnly : List Nat → List Prim → Bool
  | _, [] => true
  | F, p :: ps =>
      match freshStep F p with
      | some F' => freshOnly F' ps
      | none => false

/-- programs made of primitives only -/
def allPrims : List Cmd → Option (List Prim)
  | [] => some []
  | .prim p :: cs => (allPrims cs).map (p :: ·)
  | _ :: _ => none

def freshOnlyCmds (F : List Nat) (cs : List Cmd) : Bool :=
  match allPrims cs with
  | some ps => freshOnly F ps
  | none => false

theorem stepCmd_prim (st : OState) (p : Prim) : stepCmd st (.prim p) = stepPrim st p := by
  unfold stepCmd
  by_cases hh : st.halted = true
  · simp [hh, stepPrim]
  · simp [hh, expandCmd, runPrims, stepPrim]

theorem runCmds_of_allPrims : ∀ (cs : List Cmd) (ps : List Prim), allPrims cs = some ps →
    ∀ st, runCmds st cs = runPrims st ps := by
  intro cs
  induction cs with
  | nil => intro ps h st; simp [allPrims] at h; subst h; rfl
  | cons c cs ih =>
      intro ps h st
      cases c with
      | prim p =>
          simp only [allPrims, Option.map_eq_some_iff] at h
          obtain ⟨qs, hq, rfl⟩ := h
          simp only [runCmds, runPrims, List.foldl_cons, stepCmd_prim]
          exact ih qs hq _
      | setattr _ _ _ => simp [allPrims] at h
      | delattr _ _ => simp [allPrims] at h
      | delattrIfPresent _ _ => simp [allPrims] at h
      | getattr _ _ _ => simp [allPrims] at h
      | registerBuffer _ _ _ _ => simp [allPrims] at h

/-- invariant of the monitor: the registers in `F` hold nodes allocated at or after `b` -/
def FreshInv (b : Nat) (F : List Nat) (st : OState) : Prop :=
  b ≤ st.heap.next ∧ ∀ r ∈ F, b ≤ st.regs r

theorem stepPrim_halted (st : OState) (p : Prim) (h : st.halted = true) : stepPrim st p = st := by
  simp [stepPrim, h]

theorem runPrims_halted (ps : List Prim) (st : OState) (h : st.halted = true) : runPrims st ps = st := by
  induction ps with
  | nil => rfl
  | cons p ps ih => simp only [runPrims, List.foldl_cons, stepPrim_halted st p h] at ih ⊢; exact ih

theorem setNode_old (h : OHeap) (n m : Nat) (v : ONode) (hne : m ≠ n) : (h.setNode n v).node m = h.node m := by
  simp [OHeap.setNode, hne]

theorem freshStep_sound (b : Nat) (F F' : List Nat) (st : OState) (p : Prim) (hh : st.halted = false)
    (hf : freshStep F p = some F') (hi : FreshInv b F st) :
    ((execPrim st p).halted = false → FreshInv b F' (execPrim st p)) ∧
      ∀ n, n < b → (execPrim st p).heap.node n = st.heap.node n := by
  obtain ⟨hb, hr⟩ := hi
  have write_ok : ∀ (obj : Nat) (v : ONode), obj ∈ F →
      ((st.touch (st.regs obj) v).halted = false → FreshInv b F (st.touch (st.regs obj) v)) ∧
        ∀ n, n < b → (st.touch (st.regs obj) v).heap.node n = st.heap.node n := by
    intro obj v ho
    refine ⟨fun _ => ⟨hb, hr⟩, ?_⟩
    intro n hn
    have : n ≠ st.regs obj := Nat.ne_of_lt (Nat.lt_of_lt_of_le hn (hr obj ho))
    simp [OState.touch, OHeap.setNode, this]
  have alloc_ok : ∀ (dst : Nat) (v : ONode),
      FreshInv b (dst :: F) (st.allocReg dst v) ∧ ∀ n, n < b → (st.allocReg dst v).heap.node n = st.heap.node n := by
    intro dst v
    refine ⟨⟨by simp [OState.allocReg, OState.setReg, OHeap.alloc]; omega, ?_⟩, ?_⟩
    · intro r hrm
      by_cases e : r = dst
      · simp [OState.allocReg, OState.setReg, e]; exact hb
      · have : r ∈ F := by simpa [e] using hrm
        simp [OState.allocReg, OState.setReg, e]; exact hr r this
    · intro n hn
      have : n ≠ st.heap.next := Nat.ne_of_lt (Nat.lt_of_lt_of_le hn hb)
      simp [OState.allocReg, OState.setReg, OHeap.alloc, this]
  have filter_ok : ∀ (dst m : Nat), FreshInv b (F.filter (· ≠ dst)) (st.setReg dst m) := by
    intro dst m
    refine ⟨hb, ?_⟩
    intro r hrm
    simp only [List.mem_filter, decide_eq_true_eq] at hrm
    simp [OState.setReg, hrm.2]; exact hr r hrm.1
  cases p with
  | copyNode dst src =>
      simp only [freshStep, Option.some.injEq] at hf; subst hf
      exact ⟨fun _ => (alloc_ok dst _).1, (alloc_ok dst _).2⟩
  | newNode dst tag data =>
      simp only [freshStep, Option.some.injEq] at hf; subst hf
      exact ⟨fun _ => (alloc_ok dst _).1, (alloc_ok dst _).2⟩
  | load dst src key =>
      simp only [freshStep, Option.some.injEq] at hf; subst hf
      simp only [execPrim, OState.loadReg]
      split
      · exact ⟨fun _ => filter_ok dst _, fun _ _ => rfl⟩
      · exact ⟨fun h => by simp at h, fun _ _ => rfl⟩
  | store obj key val =>
      by_cases ho : obj ∈ F
      · simp only [freshStep, ho, if_true, Option.some.injEq] at hf; subst hf; exact write_ok obj _ ho
      · simp [freshStep, ho] at hf
  | storeImm obj key k =>
      by_cases ho : obj ∈ F
      · simp only [freshStep, ho, if_true, Option.some.injEq] at hf; subst hf; exact write_ok obj _ ho
      · simp [freshStep, ho] at hf
  | del obj key =>
      by_cases ho : obj ∈ F
      · simp only [freshStep, ho, if_true, Option.some.injEq] at hf; subst hf
        simp only [execPrim, OState.delEntryOf]
        split
        · exact write_ok obj _ ho
        · exact ⟨fun _ => ⟨hb, hr⟩, fun _ _ => rfl⟩
      · simp [freshStep, ho] at hf
  | poke obj data =>
      by_cases ho : obj ∈ F
      · simp only [freshStep, ho, if_true, Option.some.injEq] at hf; subst hf; exact write_ok obj _ ho
      · simp [freshStep, ho] at hf
  | move dst src =>
      simp only [freshStep, Option.some.injEq] at hf; subst hf
      refine ⟨fun _ => ?_, fun _ _ => rfl⟩
      by_cases hs : src ∈ F
      · simp only [hs, if_true, execPrim]
        refine ⟨hb, ?_⟩
        intro r hrm
        by_cases e : r = dst
        · simp [OState.setReg, e]; exact hr src hs
        · have : r ∈ F := by simpa [e] using hrm
          simp [OState.setReg, e]; exact hr r this
      · simp only [hs, if_false, execPrim]; exact filter_ok dst _
  | raise =>
      simp only [freshStep, Option.some.injEq] at hf; subst hf
      exact ⟨fun h => by simp [execPrim] at h, fun _ _ => rfl⟩

/-- **soundness of the static monitor**: an accepted primitive program leaves every node below `b`
    exactly as it was, in every heap -/
theorem freshOnly_sound (b : Nat) : ∀ (ps : List Prim) (F : List Nat) (st : OState),
    freshOnly F ps = true → (st.halted = false → FreshInv b F st) →
    ∀ n, n < b → (runPrims st ps).heap.node n = st.heap.node n := by
  intro ps
  induction ps with
  | nil => intro F st _ _ n _; rfl
  | cons p ps ih =>
      intro F st hf hi n hn
      by_cases hh : st.halted = true
      · rw [runPrims_halted _ st hh]
      · have hh' : st.halted = false := by simpa using hh
        simp only [freshOnly] at hf
        cases hs : freshStep F p with
        | none => simp [hs] at hf
        | some F' =>
            simp only [hs] at hf
            obtain ⟨h1, h2⟩ := freshStep_sound b F F' st p hh' hs (hi hh')
            have hstep : stepPrim st p = execPrim st p := by simp [stepPrim, hh']
            have := ih F' (execPrim st p) hf h1 n hn
            simp only [runPrims, List.foldl_cons, hstep] at this ⊢
            rw [this, h2 n hn]

theorem freshOnlyCmds_sound (cs : List Cmd) (st : OState) (h : freshOnlyCmds [] cs = true) :
    ∀ n, n < st.heap.next → (runCmds st cs).heap.node n = st.heap.node n := by
  unfold freshOnlyCmds at h
  cases hp : allPrims cs with
  | none => simp [hp] at h
  | some ps =>
      simp only [hp] at h
      rw [runCmds_of_allPrims cs ps hp st]
      exact freshOnly_sound st.heap.next ps [] st h (fun _ => ⟨Nat.le_refl _, fun r hr => by simp at hr⟩)


/-! ### Composition of accepted programs (for loops over batch items) -/

def freshFinal : List Nat → List Prim → Option (List Nat)
  | F, [] => some F
  | F, p :: ps => (freshStep F p).bind (fun F' => freshFinal F' ps)

theorem freshOnly_eq (ps : List Prim) : ∀ F, freshOnly F ps = (freshFinal F ps).isSome := by
  induction ps with
  | nil => intro F; rfl
  | cons p ps ih =>
      intro F
      simp only [freshOnly, freshFinal]
      cases freshStep F p with
      | none => rfl
      | some F' => simpa using ih F'

theorem freshFinal_append (a b : List Prim) : ∀ F,
    freshFinal F (a ++ b) = (freshFinal F a).bind (fun F' => freshFinal F' b) := by
  induction a with
  | nil => intro F; rfl
  | cons p a ih =>
      intro F
      simp only [List.cons_append, freshFinal]
      cases freshStep F p with
      | none => rfl
      | some F' => simpa using ih F'

theorem freshStep_mono (F G F' : List Nat) (p : Prim) (hsub : ∀ r ∈ F, r ∈ G) (h : freshStep F p = some F') :
    ∃ G', freshStep G p = some G' ∧ ∀ r ∈ F', r ∈ G' := by
  have cons_ok : ∀ d, ∀ r ∈ d :: F, r ∈ d :: G := by
    intro d r hr
    rcases List.mem_cons.mp hr with rfl | hr
    · exact List.mem_cons_self
    · exact List.mem_cons_of_mem _ (hsub r hr)
  have filter_ok : ∀ d, ∀ r ∈ F.filter (· ≠ d), r ∈ G.filter (· ≠ d) := by
    intro d r hr
    simp only [List.mem_filter] at hr ⊢
    exact ⟨hsub r hr.1, hr.2⟩
  cases p with
  | copyNode dst src => simp only [freshStep, Option.some.injEq] at h; subst h; exact ⟨_, rfl, cons_ok dst⟩
  | newNode dst tag data => simp only [freshStep, Option.some.injEq] at h; subst h; exact ⟨_, rfl, cons_ok dst⟩
  | load dst src key => simp only [freshStep, Option.some.injEq] at h; subst h; exact ⟨_, rfl, filter_ok dst⟩
  | store obj key val =>
      by_cases ho : obj ∈ F
      · simp only [freshStep, ho, if_true, Option.some.injEq] at h; subst h
        exact ⟨G, by simp [freshStep, hsub obj ho], hsub⟩
      · simp [freshStep, ho] at h
  | storeImm obj key k =>
      by_cases ho : obj ∈ F
      · simp only [freshStep, ho, if_true, Option.some.injEq] at h; subst h
        exact ⟨G, by simp [freshStep, hsub obj ho], hsub⟩
      · simp [freshStep, ho] at h
  | del obj key =>
      by_cases ho : obj ∈ F
      · simp only [freshStep, ho, if_true, Option.some.injEq] at h; subst h
        exact ⟨G, by simp [freshStep, hsub obj ho], hsub⟩
      · simp [freshStep, ho] at h
  | poke obj data =>
      by_cases ho : obj ∈ F
      · simp only [freshStep, ho, if_true, Option.some.injEq] at h; subst h
        exact ⟨G, by simp [freshStep, hsub obj ho], hsub⟩
      · simp [freshStep, ho] at h
  | move dst src =>
      simp only [freshStep, Option.some.injEq] at h; subst h
      by_cases hs : src ∈ F
      · refine ⟨dst :: G, by simp [freshStep, hsub src hs], ?_⟩
        simpa [hs] using cons_ok dst
      · by_cases hg : src ∈ G
        · refine ⟨dst :: G, by simp [freshStep, hg], ?_⟩
          intro r hr
          simp only [hs, if_false, List.mem_filter] at hr
          exact List.mem_cons_of_mem _ (hsub r hr.1)
        · refine ⟨G.filter (· ≠ dst), by simp [freshStep, hg], ?_⟩
          simpa [hs] using filter_ok dst
  | raise => simp only [freshStep, Option.some.injEq] at h; subst h; exact ⟨G, rfl, hsub⟩

theorem freshFinal_mono (ps : List Prim) : ∀ (F G F' : List Nat), (∀ r ∈ F, r ∈ G) → freshFinal F ps = some F' →
    ∃ G', freshFinal G ps = some G' ∧ ∀ r ∈ F', r ∈ G' := by
  induction ps with
  | nil => intro F G F' hsub h; simp only [freshFinal, Option.some.injEq] at h; subst h; exact ⟨G, rfl, hsub⟩
  | cons p ps ih =>
      intro F G F' hsub h
      simp only [freshFinal] at h
      cases hs : freshStep F p with
      | none => simp [hs] at h
      | some F1 =>
          simp only [hs, Option.bind_some] at h
          obtain ⟨G1, hg1, hsub1⟩ := freshStep_mono F G F1 p hsub hs
          obtain ⟨G', hg', hsub'⟩ := ih F1 G1 F' hsub1 h
          exact ⟨G', by simp [freshFinal, hg1, hg'], hsub'⟩

/-- a loop whose body, started with (at least) the registers `K` fresh, is accepted and keeps `K` fresh,
    is accepted for any number of iterations -/
theorem freshFinal_loop (block : Nat → List Prim) (K : List Nat)
    (hK : ∀ i, ∃ F', freshFinal K (block i) = some F' ∧ ∀ r ∈ K, r ∈ F') :
    ∀ (l : List Nat) (G : List Nat), (∀ r ∈ K, r ∈ G) →
      ∃ G', freshFinal G (l.flatMap block) = some G' ∧ ∀ r ∈ K, r ∈ G' := by
  intro l
  induction l with
  | nil => intro G hG; exact ⟨G, rfl, hG⟩
  | cons i l ih =>
      intro G hG
      obtain ⟨F', hF', hKF'⟩ := hK i
      obtain ⟨G1, hG1, hsub⟩ := freshFinal_mono (block i) K G F' hG hF'
      obtain ⟨G', hG', hKG'⟩ := ih G1 (fun r hr => hsub r (hKF' r hr))
      refine ⟨G', ?_, hKG'⟩
      simp only [List.flatMap_cons, freshFinal_append, hG1, Option.bind_some, hG']

theorem allPrims_prims (l : List Prim) : allPrims (prims l) = some l := by
  induction l with
  | nil => rfl
  | cons p l ih => simp only [prims, List.map_cons, allPrims] at ih ⊢; rw [ih]; rfl

theorem runCmds_prims (l : List Prim) (st : OState) : runCmds st (prims l) = runPrims st l :=
  runCmds_of_allPrims _ l (allPrims_prims l) st

/-- a primitive program accepted by the monitor, run as a `Prog`, leaves every existing node alone -/
theorem prims_preserve (l : List Prim) (h : freshOnly [] l = true) (st : OState) :
    ∀ n, n < st.heap.next → (runCmds st (prims l)).heap.node n = st.heap.node n := by
  rw [runCmds_prims]
  exact freshOnly_sound st.heap.next l [] st h (fun _ => ⟨Nat.le_refl _, fun r hr => by simp at hr⟩)

end Deepali
