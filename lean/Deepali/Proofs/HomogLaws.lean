/-
  Proofs/HomogLaws.lean — composition laws for the three operand forms (used by C01, C08, …).
-/
import Deepali.Proofs.VecBridge
import Mathlib.Tactic.Abel
import Mathlib.Tactic.Ring

set_option linter.unusedSectionVars false

namespace Deepali
open Matrix
variable {K : Type} [Field K] {d : Nat}

/-- all nine branches: composing then applying = applying one after the other. -/
theorem matmul_apply (a b : H d K) (x : Vec d K) : (a.matmul b).apply x = a.apply (b.apply x) := by
  cases a <;> cases b <;>
    simp only [H.matmul, H.apply, mulVec_eq, mmul_eq, vadd_eq, Matrix.mulVec_add, Matrix.mulVec_mulVec] <;>
    abel

/-- … and likewise for vectors (translations ignored). -/
theorem matmul_applyVec (a b : H d K) (v : Vec d K) : (a.matmul b).applyVec v = a.applyVec (b.applyVec v) := by
  cases a <;> cases b <;>
    simp only [H.matmul, H.applyVec, mulVec_eq, mmul_eq, Matrix.mulVec_mulVec]

/-- converting to a full `(D, D+1)` matrix does not change the map. -/
theorem toHom_apply (a : H d K) (x : Vec d K) : (H.hom a.toHom.1 a.toHom.2).apply x = a.apply x := by
  cases a <;> simp [H.toHom, H.apply, one_mulVec, vadd_eq] <;> rfl

theorem toHom_applyVec (a : H d K) (v : Vec d K) : (H.hom a.toHom.1 a.toHom.2).applyVec v = a.applyVec v := by
  cases a <;> simp [H.toHom, H.applyVec, one_mulVec]

theorem hmm_apply (a b : H d K) (x : Vec d K) : (a.hmm b).apply x = a.apply (b.apply x) := by
  unfold H.hmm; rw [toHom_apply, matmul_apply]

theorem hmm_applyVec (a b : H d K) (v : Vec d K) : (a.hmm b).applyVec v = a.applyVec (b.applyVec v) := by
  unfold H.hmm; rw [toHom_applyVec, matmul_applyVec]

theorem homogeneousMatrix_apply (a : H d K) (t x : Vec d K) :
    (a.homogeneousMatrix t).apply x = a.apply x + t := by
  unfold H.homogeneousMatrix
  have := toHom_apply a x
  simp only [H.apply, vadd_eq] at this ⊢
  rw [← this]; abel

theorem homogeneousMatrix_applyVec (a : H d K) (t v : Vec d K) :
    (a.homogeneousMatrix t).applyVec v = a.applyVec v := by
  unfold H.homogeneousMatrix
  exact toHom_applyVec a v

/-- applying to a displacement = difference of the point map. -/
theorem applyVec_eq_sub (a : H d K) (x v : Vec d K) : a.applyVec v = a.apply (x + v) - a.apply x := by
  cases a <;> simp only [H.apply, H.applyVec, mulVec_eq, vadd_eq, Matrix.mulVec_add] <;> abel

/-- n-ary composition (`homogeneous_matmul(*args)`): first argument applied last. -/
theorem matmulN_apply (a : H d K) (bs : List (H d K)) (x : Vec d K) :
    (H.matmulN a bs).apply x = a.apply (bs.foldr (fun b y => b.apply y) x) := by
  induction bs generalizing a with
  | nil => rfl
  | cons b bs ih => simp only [H.matmulN, ih, matmul_apply, List.foldr]

end Deepali
