/-
  Proofs/ImageIOMeta.lean — helper lemmas for the MetaImage header round trip
  (Model/MetaImage.lean): tables, token lists, the TransformMatrix permutation.
-/
import Deepali.Model.MetaImage
import Deepali.Proofs.ImageIOShuffle
import Mathlib.Tactic.Ring
import Mathlib.Tactic.Linarith

set_option linter.unusedSectionVars false

namespace Deepali.MetaIO

/-! ### tables -/

theorem Tag.ofString_name (t : Tag) : Tag.ofString t.name = some t := by
  cases t <;> decide

theorem ElemType.metName_isSome (e : ElemType) : ∃ s, e.metName = some s ∧ ElemType.ofMetName s = some e := by
  cases e <;> exact ⟨_, rfl, by decide⟩

theorem upper_True : upper "True" = "TRUE" := by decide
theorem upper_False : (upper "False" = "TRUE") = False := by simp; decide
theorem upper_LOCAL : upper "LOCAL" = "LOCAL" := by decide

/-! ### token lists -/

variable {α : Type} [NatCast α]

theorem toFloats_num (xs : List α) : toFloats (xs.map Tok.num) = .ok xs := by
  induction xs with
  | nil => rfl
  | cons x xs ih => simp [toFloats, ih]

theorem toInts_nat (ns : List Nat) : toInts (α := α) (ns.map Tok.nat) = .ok ns := by
  induction ns with
  | nil => rfl
  | cons x xs ih => simp [toInts, ih]

/-! ### the TransformMatrix permutation -/

theorem transposeFlat_length (n : Nat) (xs : List α) : (transposeFlat n xs).length = n * n := by
  simp [transposeFlat]

theorem transpose_index (n k : Nat) (hk : k < n * n) :
    ((k % n * n + k / n) % n) * n + (k % n * n + k / n) / n = k := by
  have hn : 0 < n := by
    rcases Nat.eq_zero_or_pos n with rfl | h
    · simp at hk
    · exact h
  have hd : k / n < n := Nat.div_lt_of_lt_mul hk
  have h1 : (k % n * n + k / n) % n = k / n := by
    rw [Nat.mul_comm, Nat.mul_add_mod]; exact Nat.mod_eq_of_lt hd
  have h2 : (k % n * n + k / n) / n = k % n := by
    rw [Nat.mul_comm, Nat.mul_add_div hn, Nat.div_eq_of_lt hd, Nat.add_zero]
  rw [h1, h2, Nat.mul_comm]; exact Nat.div_add_mod k n

theorem transpose_index_lt (n k : Nat) (hk : k < n * n) : k % n * n + k / n < n * n := by
  have hn : 0 < n := by
    rcases Nat.eq_zero_or_pos n with rfl | h
    · simp at hk
    · exact h
  have hd : k / n < n := Nat.div_lt_of_lt_mul hk
  have hm : k % n < n := Nat.mod_lt _ hn
  calc k % n * n + k / n < k % n * n + n := by omega
    _ = (k % n + 1) * n := by ring
    _ ≤ n * n := Nat.mul_le_mul_right n hm

/-- writing `ravel(transpose(M))` and reading `reshape(n, n).transpose()` give `M` back. -/
theorem transposeFlat_involutive (n : Nat) (xs : List α) (h : xs.length = n * n) :
    transposeFlat n (transposeFlat n xs) = xs := by
  apply List.ext_getElem
  · rw [transposeFlat_length, h]
  · intro k h1 h2
    have hk : k < n * n := by rw [transposeFlat_length] at h1; exact h1
    have hj := transpose_index_lt n k hk
    simp only [transposeFlat, List.getElem_map, List.getElem_range]
    rw [List.getD_eq_getElem?_getD, List.getElem?_map, List.getElem?_range hj]
    simp only [Option.map_some, Option.getD_some]
    rw [transpose_index n k hk, List.getD_eq_getElem?_getD, List.getElem?_eq_getElem h2]
    rfl

/-- file shape → `size` and `ndim` of `meta_image_bytes` @324-329. -/
theorem size_of_fileShape (c : Nat) (dimSize : List Nat) (hc : 1 ≤ c) :
    let shape := toFileOrder 1 c (c :: dimSize.reverse)
    (if decide (1 < c) then shape.dropLast.reverse else shape.reverse) = dimSize ∧
    (if decide (1 < c) then shape.length - 1 else shape.length) = dimSize.length := by
  intro shape
  by_cases h : 1 < c
  · simp only [shape, toFileOrder_multi 1 c c _ h, h, decide_true, if_true, List.dropLast_concat, List.reverse_reverse,
      List.length_append, List.length_reverse, List.length_cons, List.length_nil]
    simp
  · have : c = 1 := by omega
    subst this
    simp [shape, toFileOrder_single]

/-- the dictionary `write_meta_image` / `meta_image_bytes` build, tag by tag. -/
def headerDictExplicit (h : Header α) : Dict α := fun t =>
  match t with
  | .objectType => some (.str "Image")
  | .nDims => some (.nat h.ndims)
  | .compressedData => some (.bool h.compressed)
  | .compressedDataSize => if h.compressed then some (.nat (h.compressedSize.getD 0)) else none
  | .binaryData => some (.bool true)
  | .binaryDataByteOrderMSB => some (.bool false)
  | .offset => some (.arr h.offset)
  | .transformMatrix => some (.mat h.ndims h.direction)
  | .elementSpacing => some (.arr h.spacing)
  | .dimSize => some (.narr h.dimSize)
  | .elementNumberOfChannels => some (.nat h.channels)
  | .elementType => some (.etype h.elementType)
  | .elementDataFile => some (.str "LOCAL")
  | _ => none

theorem headerDict_eq (h : Header α) (hc : 1 ≤ h.channels) : headerDict h = headerDictExplicit h := by
  have hs := size_of_fileShape h.channels h.dimSize hc
  simp only at hs
  funext t
  unfold headerDict metaImageDict
  simp only [List.reverse_cons, List.reverse_nil, List.nil_append, List.cons_append, List.find?_cons, reduceCtorEq,
    decide_false, decide_true, Option.bind_some, hs.1, hs.2, List.foldl_cons, List.foldl_nil]
  cases hcomp : h.compressed <;> cases t <;>
    simp [Dict.set, Dict.empty, headerDictExplicit, hcomp, Header.ndims]

/-- the header lines deepali writes (in META_IMAGE_TAGS order). -/
def headerLines (h : Header α) (etName : String) : List (Line α) :=
  [⟨Tag.objectType.name, [.word "Image"]⟩, ⟨Tag.nDims.name, [.nat h.ndims]⟩,
   ⟨Tag.compressedData.name, [.word (if h.compressed then "True" else "False")]⟩] ++
  (if h.compressed then [⟨Tag.compressedDataSize.name, [.nat (h.compressedSize.getD 0)]⟩] else []) ++
  [⟨Tag.binaryData.name, [.word "True"]⟩, ⟨Tag.binaryDataByteOrderMSB.name, [.word "False"]⟩,
   ⟨Tag.offset.name, h.offset.map .num⟩,
   ⟨Tag.transformMatrix.name, (transposeFlat h.ndims h.direction).map .num⟩,
   ⟨Tag.elementSpacing.name, h.spacing.map .num⟩, ⟨Tag.dimSize.name, h.dimSize.map .nat⟩,
   ⟨Tag.elementNumberOfChannels.name, [.nat h.channels]⟩, ⟨Tag.elementType.name, [.word etName]⟩,
   ⟨Tag.elementDataFile.name, [.word "LOCAL"]⟩]

theorem serialise_eq (h : Header α) (hc : 1 ≤ h.channels) (s : String) (hs : h.elementType.metName = some s) :
    serialise h = .ok (headerLines h s) := by
  unfold serialise
  rw [headerDict_eq h hc]
  cases hcomp : h.compressed <;>
    simp [dictLines, Tag.all, headerDictExplicit, writeVal, Tag.wclass, hs, upper_LOCAL, hcomp, headerLines,
      bind, Except.bind, pure, Except.pure]

/-- `meta_in` for the lines deepali writes. -/
def headerRaw (h : Header α) (s : String) : Tag → Option (List (Tok α)) := fun t =>
  match t with
  | .objectType => some [.word "Image"]
  | .nDims => some [.nat h.ndims]
  | .compressedData => some [.word (if h.compressed then "True" else "False")]
  | .compressedDataSize => if h.compressed then some [.nat (h.compressedSize.getD 0)] else none
  | .binaryData => some [.word "True"]
  | .binaryDataByteOrderMSB => some [.word "False"]
  | .offset => some (h.offset.map .num)
  | .transformMatrix => some ((transposeFlat h.ndims h.direction).map .num)
  | .elementSpacing => some (h.spacing.map .num)
  | .dimSize => some (h.dimSize.map .nat)
  | .elementNumberOfChannels => some [.nat h.channels]
  | .elementType => some [.word s]
  | .elementDataFile => some [.word "LOCAL"]
  | _ => none

theorem readRaw_headerLines (h : Header α) (s : String) :
    readRaw (headerLines h s) (fun _ => none) = .ok (headerRaw h s) := by
  cases hcomp : h.compressed <;>
  · simp only [headerLines, hcomp, if_true, if_false, List.cons_append, List.nil_append, List.append_nil, readRaw,
      Tag.ofString_name, upper_LOCAL, Bool.false_eq_true]
    congr 1
    funext t
    cases t <;> simp [headerRaw, hcomp]

/-- the typed dictionary the reader builds from `headerRaw` (matrix reshaped to `n × n`). -/
def headerReadDict (h : Header α) (n : Nat) : Dict α := fun t =>
  match t with
  | .objectType => some (.raw [.word "Image"])
  | .nDims => some (.nat h.ndims)
  | .compressedData => some (.bool h.compressed)
  | .compressedDataSize => if h.compressed then some (.nat (h.compressedSize.getD 0)) else none
  | .binaryData => some (.bool true)
  | .binaryDataByteOrderMSB => some (.bool false)
  | .offset => some (.arr h.offset)
  | .transformMatrix => some (.mat n (transposeFlat n (transposeFlat h.ndims h.direction)))
  | .elementSpacing => some (.arr h.spacing)
  | .dimSize => some (.narr h.dimSize)
  | .elementNumberOfChannels => some (.nat h.channels)
  | .elementType => some (.etype h.elementType)
  | .elementDataFile => some (.raw [.word "LOCAL"])
  | _ => none


theorem readDict_headerRaw (h : Header α) (s : String) (hs : ElemType.ofMetName s = some h.elementType) :
    readDict (headerRaw h s) = .ok (headerReadDict h h.ndims) := by
  have hlen : (transposeFlat h.ndims h.direction).length = h.ndims * h.ndims := transposeFlat_length _ _
  cases hcomp : h.compressed <;>
  · simp only [readDict, Tag.all, List.foldr, headerRaw, hcomp, readVal, Tag.rclass, toFloats_num, toInts_nat, hs,
      upper_True, upper_False, bind, Except.bind, pure, Except.pure, hlen, if_true, if_false, Bool.false_eq_true]
    congr 1
    funext t
    cases t <;> simp [headerReadDict, Dict.set, Dict.empty, hcomp]

theorem readMeta_headerReadDict (h : Header α) (n : Nat) (hc : 1 ≤ h.channels)
    (hcs : h.compressed = h.compressedSize.isSome) :
    readMeta (headerReadDict h n) =
      .ok { h.toRead with matrix := some (transposeFlat n (transposeFlat h.ndims h.direction)) } := by
  have hch : (if 1 < h.channels then h.channels else 1) = h.channels := by
    split <;> omega
  cases hcomp : h.compressed <;> cases hsz : h.compressedSize <;> simp [hcomp, hsz] at hcs <;>
    simp [readMeta, headerReadDict, Dict.getNat, Dict.getArr, Dict.getMat, Dict.getBool, hcomp, hsz,
      Header.toRead, Option.orElse] <;> exact hch

/-- write then read, header level: the reader recovers exactly what the writer was given. -/
theorem roundtrip_ok (h : Header α) (hWF : h.WF) : roundtrip h = .ok h.toRead := by
  obtain ⟨_, hc, _, _, hdir, hcs⟩ := hWF
  obtain ⟨s, hs1, hs2⟩ := ElemType.metName_isSome h.elementType
  unfold roundtrip parse
  rw [serialise_eq h hc s hs1]
  simp only [bind, Except.bind]
  rw [readRaw_headerLines]
  simp only []
  rw [readDict_headerRaw h s hs2]
  simp only []
  rw [readMeta_headerReadDict h _ hc hcs, transposeFlat_involutive _ _ hdir]
  rfl

end Deepali.MetaIO
