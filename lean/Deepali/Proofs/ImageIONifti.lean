/-
  Proofs/ImageIONifti.lean — helper lemmas for the NIfTI geometry (Model/Nifti.lean) and for the
  world-axes conversion of flow fields on I/O.
-/
import Deepali.Model.Nifti
import Deepali.Proofs.GridMaps
import Mathlib.Algebra.Order.AbsoluteValue.Basic
import Mathlib.Algebra.BigOperators.Fin
import Mathlib.Tactic.Linarith
import Mathlib.Tactic.FieldSimp
import Mathlib.Tactic.Ring

set_option linter.unusedSectionVars false

namespace Deepali.Nifti
open Deepali Deepali.MetaIO Matrix

section
variable {K : Type} [Field K] {n m : Nat}

theorem flipRows_flipRows (A : Fin n → Fin m → K) : flipRows (flipRows A) = A := by
  funext i j; unfold flipRows; split <;> simp

theorem flipVec_flipVec (x : Fin n → K) : flipVec (flipVec x) = x := by
  funext i; unfold flipVec; split <;> simp

end

variable {K : Type} [Field K] [LinearOrder K] [IsStrictOrderedRing K] [FloorRing K] {d : Nat}

/-- a value the `|x| < ε → 0` clamp leaves alone. -/
def NotTiny (x : K) : Prop := x = 0 ∨ (1 : K) / 4503599627370496 ≤ |x|

theorem clampSmall_of_notTiny (x : K) (h : NotTiny x) : clampSmall x = x := by
  unfold clampSmall
  simp only [Nat.cast_zero, Nat.cast_one, Nat.cast_ofNat]
  rcases h with rfl | h
  · simp
  · have habs : (if x < 0 then -x else x) = |x| := by
      split
      · next hx => rw [abs_of_neg hx]
      · next hx => rw [abs_of_nonneg (not_lt.mp hx)]
    rw [habs, if_neg (not_lt.mpr h)]

theorem affine_entry (g : Grid d K) (i j : Fin d) : g.affine i j = g.direction i j * g.spacing j := by
  have := congrFun (congrFun (affine_eq g) i) j
  simpa [Matrix.mul_diagonal] using this

/-- entries of the written 4×4 affine (before the sign flips are undone by the reader). -/
theorem writeAffine_block (g : Grid d K) (hd : d ≤ 3) (i j : Fin d) :
    writeAffine g ⟨i.val, by omega⟩ ⟨j.val, by omega⟩ =
      if i.val < 2 then - (g.direction i j * g.spacing j) else g.direction i j * g.spacing j := by
  unfold writeAffine flipRows
  simp only [i.isLt, j.isLt, dif_pos, Fin.eta, affine_entry]

theorem writeAffine_col3 (g : Grid d K) (hd : d ≤ 3) (i : Fin d) :
    writeAffine g ⟨i.val, by omega⟩ 3 = if i.val < 2 then - g.origin i else g.origin i := by
  unfold writeAffine flipRows
  have h3 : ¬ ((3 : Fin 4).val < d) := by simp; omega
  simp only [i.isLt, dif_pos, h3, dif_neg, not_false_eq_true, Fin.eta]
  simp

/-- nibabel's voxel size of axis `j` (the Euclidean norm of column `j` of the affine's upper-left
    block) is the grid spacing when the direction is orthonormal and the spacing positive. -/
theorem pixdim_eq_spacing {g : Grid d K} (h : g.Valid) (j : Fin d) (p : K) (hp : 0 < p) (hs : 0 < g.spacing j)
    (hnorm : p * p = ∑ i, g.affine i j * g.affine i j) : p = g.spacing j := by
  have horth : ∑ i, g.direction i j * g.direction i j = 1 := by
    have := congrFun (congrFun h.orth j) j
    simpa [Matrix.mul_apply, Matrix.transpose_apply] using this
  have : ∑ i, g.affine i j * g.affine i j = g.spacing j * g.spacing j := by
    have e : ∀ i, g.affine i j * g.affine i j = (g.direction i j * g.direction i j) * (g.spacing j * g.spacing j) := by
      intro i; rw [affine_entry]; ring
    simp only [e]
    rw [← Finset.sum_mul, horth, one_mul]
  rw [this] at hnorm
  have hz : (p - g.spacing j) * (p + g.spacing j) = 0 := by ring_nf; ring_nf at hnorm; linarith
  rcases mul_eq_zero.mp hz with h1 | h1
  · linarith
  · linarith

end Deepali.Nifti

namespace Deepali
open Matrix
variable {K : Type} [Field K] [LinearOrder K] [IsStrictOrderedRing K] [FloorRing K] {d : Nat}

theorem toGridLin_fromGridLin {g : Grid d K} (h : g.Valid) (a : Axes) (hc : g.CornersOK a) (w : Vec d K) :
    toGridLin g a (fromGridLin g a w) = w := by
  have := toGrid_fromGrid h a hc (0 + w)
  rw [fromGrid_add, toGrid_add, toGrid_fromGrid h a hc] at this
  simpa using this

end Deepali
