/-
  Proofs/ImageIOShuffle.lean — the channel-axis shuffle between tensor order `(C, …, X)` and file
  order `(…, X[, C])` (Model/MetaImage.lean `toFileOrder`, `toTensorOrder`) and the row-major
  offset in the file.
-/
import Deepali.Model.MetaImage
import Mathlib.Tactic.Ring
import Mathlib.Tactic.Linarith

set_option linter.unusedSectionVars false

namespace Deepali.MetaIO

theorem swapFirstLast_cons_concat (a z : Nat) (mid : List Nat) :
    swapFirstLast (a :: (mid ++ [z])) = z :: (mid ++ [a]) := by
  simp [swapFirstLast]

theorem swapFirstLast_single (a : Nat) : swapFirstLast [a] = [a] := by
  simp [swapFirstLast]

/-- tensor → file → tensor. For one channel the leading entry is the unit (shape entry 1, index 0). -/
theorem toTensorOrder_toFileOrder (unit c a : Nat) (rest : List Nat) (hc : 1 ≤ c) (h1 : c = 1 → a = unit) :
    toTensorOrder unit c (toFileOrder unit c (a :: rest)) = a :: rest := by
  unfold toTensorOrder toFileOrder
  by_cases h : 1 < c
  · have hne : c ≠ 1 := by omega
    have e : a :: rest ++ [unit] = a :: (rest ++ [unit]) := rfl
    simp only [h, if_true, hne, if_false, e, swapFirstLast_cons_concat, List.tail_cons]
    rw [← List.cons_append, List.dropLast_concat]
  · have hc1 : c = 1 := by omega
    subst hc1
    rw [h1 rfl]
    simp

/-- file → tensor → file, every file-order list. -/
theorem toFileOrder_toTensorOrder (unit c : Nat) (l : List Nat) (hc : 1 ≤ c) :
    toFileOrder unit c (toTensorOrder unit c l) = l := by
  unfold toTensorOrder toFileOrder
  by_cases h : 1 < c
  · have hne : c ≠ 1 := by omega
    simp only [h, if_true, hne, if_false]
    rcases List.eq_nil_or_concat l with rfl | ⟨mid, z, rfl⟩
    · simp [swapFirstLast]
    · rw [List.concat_eq_append, swapFirstLast_cons_concat, ← List.cons_append, List.dropLast_concat,
        List.cons_append, swapFirstLast_cons_concat, List.tail_cons]
  · have hc1 : c = 1 := by omega
    simp [h, hc1]

theorem toFileOrder_multi (unit c a : Nat) (rest : List Nat) (h : 1 < c) :
    toFileOrder unit c (a :: rest) = rest ++ [a] := by
  unfold toFileOrder
  have e : a :: rest ++ [unit] = a :: (rest ++ [unit]) := rfl
  simp only [h, if_true, e, swapFirstLast_cons_concat, List.tail_cons]

theorem toFileOrder_single (unit a : Nat) (rest : List Nat) : toFileOrder unit 1 (a :: rest) = rest := by
  simp [toFileOrder]

theorem ravelIndex_concat (shape idx : List Nat) (n i : Nat) (hl : shape.length = idx.length) :
    ravelIndex (shape ++ [n]) (idx ++ [i]) = ravelIndex shape idx * n + i := by
  unfold ravelIndex
  rw [List.zip_append hl, List.foldl_append]
  simp

end Deepali.MetaIO
