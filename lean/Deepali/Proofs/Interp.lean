/-
  Proofs/Interp.lean — multilinear interpolation: reproduces affine functions, depends only on
  the corners with non-zero weight, returns the sample at integer positions.
-/
import Deepali.Model.TorchPrim
import Deepali.Proofs.GridMaps
import Mathlib.Algebra.BigOperators.Fin
import Mathlib.Tactic.Linarith
import Mathlib.Tactic.Ring

set_option linter.unusedSectionVars false

namespace Deepali
variable {K : Type} [Field K] [LinearOrder K] [IsStrictOrderedRing K] [FloorRing K]

@[simp] theorem consIdx_zero {d : Nat} (a : Int) (f : Fin d → Int) : consIdx a f 0 = a := rfl
@[simp] theorem consIdx_succ {d : Nat} (a : Int) (f : Fin d → Int) (i : Fin d) : consIdx a f i.succ = f i := rfl

theorem interpLin_succ (d : Nat) (img : (Fin (d + 1) → Int) → K) (x : Fin (d + 1) → K) :
    interpLin (d + 1) img x =
      (1 - (x 0 - (⌊x 0⌋ : K))) * interpLin d (fun idx => img (consIdx ⌊x 0⌋ idx)) (tailVec x)
        + (x 0 - (⌊x 0⌋ : K)) * interpLin d (fun idx => img (consIdx (⌊x 0⌋ + 1) idx)) (tailVec x) := by
  simp only [interpLin, HasFloor.floor, Nat.cast_one]

/-- multilinear interpolation reproduces affine functions of the index exactly, everywhere. -/
theorem interpLin_affine (d : Nat) (a : Fin d → K) (b : K) (x : Fin d → K) :
    interpLin d (fun idx => ∑ i, a i * ((idx i : Int) : K) + b) x = ∑ i, a i * x i + b := by
  induction d generalizing b with
  | zero => simp [interpLin]
  | succ d ih =>
    rw [interpLin_succ]
    have h1 : ∀ (c : Int), (fun idx : Fin d → Int => ∑ i, a i * ((consIdx c idx i : Int) : K) + b)
        = fun idx => ∑ i, a i.succ * ((idx i : Int) : K) + (a 0 * (c : K) + b) := by
      intro c; funext idx; rw [Fin.sum_univ_succ]; simp only [consIdx_zero, consIdx_succ]; ring
    rw [h1, h1, ih, ih, Fin.sum_univ_succ]
    simp only [tailVec]; push_cast; ring

/-- an index is a corner of `x` carrying non-zero weight. -/
def UsedCorner {d : Nat} (x : Fin d → K) (idx : Fin d → Int) : Prop :=
  ∀ i, idx i = ⌊x i⌋ ∨ (idx i = ⌊x i⌋ + 1 ∧ x i ≠ (⌊x i⌋ : K))

/-- the interpolated value depends only on the corners with non-zero weight. -/
theorem interpLin_congr (d : Nat) (img img' : (Fin d → Int) → K) (x : Fin d → K)
    (h : ∀ idx, UsedCorner x idx → img idx = img' idx) : interpLin d img x = interpLin d img' x := by
  induction d with
  | zero => simp only [interpLin]; exact h _ (fun i => i.elim0)
  | succ d ih =>
    rw [interpLin_succ, interpLin_succ]
    have e0 : interpLin d (fun idx => img (consIdx ⌊x 0⌋ idx)) (tailVec x)
        = interpLin d (fun idx => img' (consIdx ⌊x 0⌋ idx)) (tailVec x) := by
      apply ih; intro idx hidx; apply h; intro i
      refine Fin.cases ?_ (fun i => ?_) i
      · left; rfl
      · exact hidx i
    by_cases hw : x 0 = (⌊x 0⌋ : K)
    · rw [e0, hw]; simp
    · have e1 : interpLin d (fun idx => img (consIdx (⌊x 0⌋ + 1) idx)) (tailVec x)
          = interpLin d (fun idx => img' (consIdx (⌊x 0⌋ + 1) idx)) (tailVec x) := by
        apply ih; intro idx hidx; apply h; intro i
        refine Fin.cases ?_ (fun i => ?_) i
        · right; exact ⟨rfl, hw⟩
        · exact hidx i
      rw [e0, e1]

/-- at integer positions the interpolation returns the sample itself. -/
theorem interpLin_at_index (d : Nat) (img : (Fin d → Int) → K) (k : Fin d → Int) :
    interpLin d img (fun i => ((k i : Int) : K)) = img k := by
  induction d with
  | zero => simp only [interpLin]; congr 1; funext i; exact i.elim0
  | succ d ih =>
    rw [interpLin_succ]
    simp only [Int.floor_intCast, sub_self, sub_zero, one_mul, zero_mul, add_zero]
    have ht : tailVec (fun i => ((k i : Int) : K)) = fun i : Fin d => ((k i.succ : Int) : K) := rfl
    rw [ht, ih (fun idx => img (consIdx (k 0) idx)) (fun i => k i.succ)]
    congr 1; funext i; refine Fin.cases ?_ (fun i => ?_) i <;> rfl

/-- inside the sample hull `[0, n−1]^d` every used corner is a valid index, so zero padding
    is invisible. -/
theorem usedCorner_inBounds {d : Nat} (size : Fin d → Nat) (x : Fin d → K)
    (hx : ∀ i, 0 ≤ x i ∧ x i ≤ ((size i : Nat) : K) - 1) (idx : Fin d → Int) (h : UsedCorner x idx) :
    ∀ i, 0 ≤ idx i ∧ idx i < (size i : Int) := by
  intro i
  have h0 := (hx i).1
  have h1 := (hx i).2
  have f0 : (0 : Int) ≤ ⌊x i⌋ := Int.floor_nonneg.mpr h0
  have fle : (⌊x i⌋ : K) ≤ x i := Int.floor_le _
  rcases h i with e | ⟨e, hne⟩
  · rw [e]; refine ⟨f0, ?_⟩
    have : ((⌊x i⌋ : Int) : K) < ((size i : Int) : K) := by push_cast; linarith
    exact_mod_cast this
  · rw [e]; refine ⟨by omega, ?_⟩
    have hlt : (⌊x i⌋ : K) < x i := lt_of_le_of_ne fle (Ne.symm hne)
    have : ((⌊x i⌋ + 1 : Int) : K) < ((size i : Int) : K) := by push_cast; linarith
    exact_mod_cast this

theorem interpLin_extZero_inside {d : Nat} (size : Fin d → Nat) (img : (Fin d → Int) → K) (x : Fin d → K)
    (hx : ∀ i, 0 ≤ x i ∧ x i ≤ ((size i : Nat) : K) - 1) :
    interpLin d (extZero size img) x = interpLin d img x := by
  apply interpLin_congr
  intro idx h
  simp only [extZero, Nat.cast_zero]
  rw [if_pos (usedCorner_inBounds size x hx idx h)]

end Deepali
