/-
  Proofs/Itk.lean — helper lemmas for property C02: deepali's index↔world maps against the
  independent ITK specification `Itk.idxToPhys` / `Itk.physToIdx`.
-/
import Deepali.Model.Itk
import Deepali.Proofs.GridOpsIndex
import Mathlib.LinearAlgebra.Matrix.Determinant.Basic
import Mathlib.Tactic.FinCases
import Mathlib.Tactic.NormNum

set_option linter.unusedSectionVars false

namespace Deepali
open Matrix

variable {K : Type} [Field K] [LinearOrder K] [IsStrictOrderedRing K] [FloorRing K] {d : Nat}

theorem idxToPhys_eq (O S : Vec d K) (D : Mat d K) (i : Vec d K) :
    Itk.idxToPhys O S D i = O + D.mulVec (fun k => S k * i k) := rfl

/-- deepali's `index_to_world` is ITK's `TransformContinuousIndexToPhysicalPoint` for the header
    `(origin(), spacing, direction)` — for every grid, either construction route. -/
theorem indexToWorld_is_itk (g : Grid d K) (i : Vec d K) :
    g.indexToWorld i = Itk.idxToPhys g.origin g.spacing g.direction i := by
  rw [indexToWorld_eq, affine_mulVec, idxToPhys_eq, add_comm]

theorem worldToIndex_eq (g : Grid d K) (x : Vec d K) : g.worldToIndex x = g.inverseAffine.mulVec (x.sub g.origin) := by
  simp only [Grid.worldToIndex, Grid.applyTransform, Grid.transform, H.applyAs, Bool.false_eq_true, if_false,
    reduceCtorEq, world_to_grid_apply]

/-- `affine`/`inverseAffine` do not depend on size or center: a unit-size copy is `Valid`. -/
def unitCopy (g : Grid d K) : Grid d K := { g with size := fun _ => 1 }

theorem unitCopy_valid (g : Grid d K) (hs : ∀ i, g.spacing i ≠ 0) (ho : (toM g.direction)ᵀ * toM g.direction = 1) :
    (unitCopy g).Valid :=
  ⟨hs, ho, fun i => by simp [unitCopy, Grid.sizeTensor, HasFloor.ceil]⟩

theorem affine_inverse_mulVec' (g : Grid d K) (hs : ∀ i, g.spacing i ≠ 0)
    (ho : (toM g.direction)ᵀ * toM g.direction = 1) (x : Vec d K) :
    g.affine.mulVec (g.inverseAffine.mulVec x) = x :=
  affine_inverse_mulVec (unitCopy_valid g hs ho) x

theorem inverse_affine_mulVec' (g : Grid d K) (hs : ∀ i, g.spacing i ≠ 0)
    (ho : (toM g.direction)ᵀ * toM g.direction = 1) (x : Vec d K) :
    g.inverseAffine.mulVec (g.affine.mulVec x) = x :=
  inverse_affine_mulVec (unitCopy_valid g hs ho) x

/-- `world_to_index` maps a point to an index that ITK maps back to the point … -/
theorem idxToPhys_worldToIndex (g : Grid d K) (hs : ∀ i, g.spacing i ≠ 0)
    (ho : (toM g.direction)ᵀ * toM g.direction = 1) (x : Vec d K) :
    Itk.idxToPhys g.origin g.spacing g.direction (g.worldToIndex x) = x := by
  rw [← indexToWorld_is_itk, indexToWorld_eq, worldToIndex_eq, affine_inverse_mulVec' g hs ho, vsub_eq]
  abel

/-- … and it is the only such index. -/
theorem worldToIndex_unique (g : Grid d K) (hs : ∀ i, g.spacing i ≠ 0)
    (ho : (toM g.direction)ᵀ * toM g.direction = 1) (x i : Vec d K)
    (h : Itk.idxToPhys g.origin g.spacing g.direction i = x) : i = g.worldToIndex x := by
  rw [← indexToWorld_is_itk, indexToWorld_eq] at h
  rw [worldToIndex_eq, ← h, vsub_eq, add_sub_cancel_right, inverse_affine_mulVec' g hs ho]

theorem worldToIndex_indexToWorld_raw (g : Grid d K) (i : Vec d K) :
    g.worldToIndex (g.indexToWorld i) = g.inverseAffine.mulVec (g.affine.mulVec i) := by
  rw [worldToIndex_eq, indexToWorld_eq, vsub_eq, add_sub_cancel_right]

/-! ### the specification's true inverse (adjugate formula), d = 2, 3 -/

theorem sumFin_two (f : Fin 2 → K) : sumFin 2 f = f 0 + f 1 := by
  rw [sumFin_eq, Fin.sum_univ_two]

theorem sumFin_three (f : Fin 3 → K) : sumFin 3 f = f 0 + f 1 + f 2 := by
  rw [sumFin_eq, Fin.sum_univ_three]

theorem inv2_mulVec (A : Mat 2 K) (h : A.det2 ≠ 0) (y : Vec 2 K) : A.inv2.mulVec (A.mulVec y) = y := by
  funext i
  fin_cases i <;> simp [Mat.mulVec, sumFin_two, Mat.inv2] <;> field_simp <;> simp only [Mat.det2] <;> ring

theorem inv3_mulVec (A : Mat 3 K) (h : A.det3 ≠ 0) (y : Vec 3 K) : A.inv3.mulVec (A.mulVec y) = y := by
  funext i
  fin_cases i <;> simp [Mat.mulVec, sumFin_three, Mat.inv3] <;> field_simp <;> simp only [Mat.det3] <;> ring

theorem itkDet2_eq (A : Mat 2 K) : A.det2 = Matrix.det (toM A) := by
  rw [Matrix.det_fin_two]; rfl

theorem itkDet3_eq (A : Mat 3 K) : A.det3 = Matrix.det (toM A) := by
  rw [Matrix.det_fin_three]; simp only [Mat.det3, toM_apply]; ring

theorem det_affine_ne_zero (S : Vec d K) (D : Mat d K) (hs : ∀ i, S i ≠ 0) (ho : (toM D)ᵀ * toM D = 1) :
    Matrix.det (toM (D.mul (Mat.diag S))) ≠ 0 := by
  rw [mmul_eq, diag_eq, Matrix.det_mul, Matrix.det_diagonal]
  have hD : Matrix.det (toM D) ≠ 0 := by
    intro h0
    have := congrArg Matrix.det ho
    rw [Matrix.det_mul, Matrix.det_transpose, h0, Matrix.det_one, mul_zero] at this
    exact zero_ne_one this
  exact mul_ne_zero hD (Finset.prod_ne_zero_iff.mpr (fun i _ => hs i))

/-- the specification's physical-point → index map inverts its index → physical-point map
    whenever `D · diag S` is invertible (no orthogonality needed). -/
theorem physToIdx2_idxToPhys (O S : Vec 2 K) (D : Mat 2 K) (h : (D.mul (Mat.diag S)).det2 ≠ 0) (i : Vec 2 K) :
    Itk.physToIdx2 O S D (Itk.idxToPhys O S D i) = i := by
  unfold Itk.physToIdx2
  have : (Itk.idxToPhys O S D i).sub O = (D.mul (Mat.diag S)).mulVec i := by
    rw [idxToPhys_eq, vsub_eq, add_sub_cancel_left, mul_mulVec, diag_mulVec']
  rw [this, inv2_mulVec _ h]

theorem physToIdx3_idxToPhys (O S : Vec 3 K) (D : Mat 3 K) (h : (D.mul (Mat.diag S)).det3 ≠ 0) (i : Vec 3 K) :
    Itk.physToIdx3 O S D (Itk.idxToPhys O S D i) = i := by
  unfold Itk.physToIdx3
  have : (Itk.idxToPhys O S D i).sub O = (D.mul (Mat.diag S)).mulVec i := by
    rw [idxToPhys_eq, vsub_eq, add_sub_cancel_left, mul_mulVec, diag_mulVec']
  rw [this, inv3_mulVec _ h]

/-! ### header conversion -/

theorem flatten_reshape (f : Fin (d * d) → K) : Itk.flatten (Itk.reshape f) = f := by
  funext k
  unfold Itk.flatten Itk.reshape
  simp only
  congr 1
  apply Fin.ext
  exact Nat.div_add_mod' k.val d

theorem reshape_flatten (A : Mat d K) : Itk.reshape (Itk.flatten A) = A := by
  funext i j
  unfold Itk.flatten Itk.reshape
  have hd : 0 < d := Nat.lt_of_le_of_lt (Nat.zero_le _) i.isLt
  have h1 : (i.val * d + j.val) / d = i.val := by
    rw [Nat.mul_comm, Nat.mul_add_div hd, Nat.div_eq_of_lt j.isLt, Nat.add_zero]
  have h2 : (i.val * d + j.val) % d = j.val := by
    rw [Nat.mul_comm, Nat.mul_add_mod, Nat.mod_eq_of_lt j.isLt]
  simp only
  congr 1 <;> apply Fin.ext <;> assumption

theorem fromSitk_size (h : Itk.Header d K) (ac : Bool) : (Grid.fromSitk h ac).size = fun i => ((h.size i : Nat) : K) := by
  funext i
  show (if ((h.size i : Nat) : K) < ((0 : Nat) : K) then ((0 : Nat) : K) else ((h.size i : Nat) : K)) = _
  rw [if_neg]; simp

theorem sizeInt_natCast (g : Grid d K) (n : Fin d → Nat) (h : g.size = fun i => ((n i : Nat) : K)) (i : Fin d) :
    g.sizeInt i = (n i : Int) := by
  unfold Grid.sizeInt
  rw [h]
  simp only [Nat.cast_zero, HasFloor.ceil, Int.ceil_natCast]
  split
  · next h0 => have : n i = 0 := by exact_mod_cast h0
               simp [this]
  · rfl

end Deepali
