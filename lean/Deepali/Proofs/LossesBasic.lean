/-
  Proofs/LossesBasic.lean — bridge from the import-free loss model (`sumTo`, `lsum`, `getM`) to
  Mathlib's `List.sum`, linearity / positivity of the sums, Cauchy–Schwarz for index lists, and the
  elementary facts about `reduceLoss`, `applyNorm`, `absv`.
-/
import Deepali.Model.Losses
import Mathlib.Algebra.BigOperators.Ring.List
import Mathlib.Algebra.BigOperators.Group.List.Lemmas
import Mathlib.Algebra.Order.BigOperators.Group.List
import Mathlib.Algebra.Order.Ring.Abs
import Mathlib.Algebra.Order.Field.Basic
import Mathlib.Tactic.Ring
import Mathlib.Tactic.FieldSimp
import Mathlib.Tactic.Linarith
import Mathlib.Tactic.Positivity

set_option linter.unusedSectionVars false

namespace Deepali.Loss

/-! ### memoisation is the identity -/

theorem getM_memoArr {β : Type} (n : Nat) (f : Nat → β) : getM (memoArr n f) f = f := by
  funext i
  unfold getM memoArr
  split
  · simp
  · rfl

section Field
variable {K : Type} [Field K]

/-! ### `lsum`, `sumTo`, `winSum` as `List.sum` -/

theorem lsum_eq (l : List K) : lsum l = l.sum := by
  induction l with
  | nil => simp [lsum]
  | cons a l ih => simp [lsum, ih]

theorem sumTo_eq (n : Nat) (f : Nat → K) : sumTo n f = ((List.range n).map f).sum := by
  induction n with
  | zero => simp [sumTo]
  | succ n ih => simp [sumTo, ih, List.range_succ]

theorem winSum_eq (w : List Nat) (f : Nat → K) : winSum w f = (w.map f).sum := by
  simp [winSum, lsum_eq]

theorem sumTo_eq_winSum (n : Nat) (f : Nat → K) : sumTo n f = winSum (List.range n) f := by
  rw [sumTo_eq, winSum_eq]

theorem lsum_range_map (n : Nat) (f : Nat → K) : lsum ((List.range n).map f) = sumTo n f := by
  rw [lsum_eq, sumTo_eq]

theorem sumTo_congr {n : Nat} {f g : Nat → K} (h : ∀ i, i < n → f i = g i) : sumTo n f = sumTo n g := by
  induction n with
  | zero => rfl
  | succ n ih =>
    simp only [sumTo]
    rw [ih (fun i hi => h i (Nat.lt_succ_of_lt hi)), h n (Nat.lt_succ_self n)]

theorem sumTo_zero (n : Nat) : sumTo n (fun _ => (0 : K)) = 0 := by
  induction n with
  | zero => simp [sumTo]
  | succ n ih => simp [sumTo, ih]

theorem sumTo_add (n : Nat) (f g : Nat → K) : sumTo n (fun i => f i + g i) = sumTo n f + sumTo n g := by
  induction n with
  | zero => simp [sumTo]
  | succ n ih => simp only [sumTo, ih]; ring

theorem sumTo_sub (n : Nat) (f g : Nat → K) : sumTo n (fun i => f i - g i) = sumTo n f - sumTo n g := by
  induction n with
  | zero => simp [sumTo]
  | succ n ih => simp only [sumTo, ih]; ring

theorem sumTo_mul_left (n : Nat) (c : K) (f : Nat → K) : sumTo n (fun i => c * f i) = c * sumTo n f := by
  induction n with
  | zero => simp [sumTo]
  | succ n ih => simp only [sumTo, ih]; ring

theorem sumTo_mul_right (n : Nat) (c : K) (f : Nat → K) : sumTo n (fun i => f i * c) = sumTo n f * c := by
  induction n with
  | zero => simp [sumTo]
  | succ n ih => simp only [sumTo, ih]; ring

theorem sumTo_div (n : Nat) (c : K) (f : Nat → K) : sumTo n (fun i => f i / c) = sumTo n f / c := by
  simp only [div_eq_mul_inv, sumTo_mul_right]

theorem sumTo_const (n : Nat) (c : K) : sumTo n (fun _ => c) = (n : K) * c := by
  induction n with
  | zero => simp [sumTo]
  | succ n ih => simp only [sumTo, ih]; push_cast; ring

/-- double sums commute. -/
theorem sumTo_comm (n m : Nat) (f : Nat → Nat → K) :
    sumTo n (fun i => sumTo m (fun j => f i j)) = sumTo m (fun j => sumTo n (fun i => f i j)) := by
  induction n with
  | zero => simp [sumTo, sumTo_zero]
  | succ n ih => simp only [sumTo, ih, sumTo_add]

theorem winSum_congr {w : List Nat} {f g : Nat → K} (h : ∀ j ∈ w, f j = g j) : winSum w f = winSum w g := by
  induction w with
  | nil => rfl
  | cons a w ih =>
    simp only [winSum, List.map_cons, lsum] at ih ⊢
    rw [h a (by simp), ih (fun j hj => h j (by simp [hj]))]

theorem winSum_mul_left (w : List Nat) (c : K) (f : Nat → K) : winSum w (fun j => c * f j) = c * winSum w f := by
  simp only [winSum_eq, List.sum_map_mul_left]

theorem winSum_add (w : List Nat) (f g : Nat → K) : winSum w (fun j => f j + g j) = winSum w f + winSum w g := by
  simp only [winSum_eq, List.sum_map_add]

theorem winSum_const (w : List Nat) (c : K) : winSum w (fun _ => c) = (w.length : K) * c := by
  simp [winSum_eq, List.map_const', List.sum_replicate]

theorem lsum_map_div (l : List K) (c : K) : lsum (l.map (fun v => v / c)) = lsum l / c := by
  induction l with
  | nil => simp [lsum]
  | cons a l ih => simp only [List.map_cons, lsum, ih]; ring

/-! ### `reduceLoss`, `applyNorm` -/

theorem reduceLoss_none_lsum (n : Nat) (f : Nat → K) (m : Option (Nat → K)) :
    lsum (reduceLoss .none n f m) = sumTo n f := by
  simp [reduceLoss, lsum_range_map]

theorem reduceLoss_none_length (n : Nat) (f : Nat → K) (m : Option (Nat → K)) :
    (reduceLoss .none n f m).length = n := by
  simp [reduceLoss]

theorem reduceLoss_sum (n : Nat) (f : Nat → K) (m : Option (Nat → K)) :
    reduceLoss .sum n f m = [lsum (reduceLoss .none n f m)] := by
  rw [reduceLoss_none_lsum]; rfl

theorem reduceLoss_mean_nomask (n : Nat) (f : Nat → K) :
    reduceLoss .mean n f none
      = [lsum (reduceLoss .none n f none) / (((reduceLoss .none n f none).length : Nat) : K)] := by
  rw [reduceLoss_none_lsum, reduceLoss_none_length]; rfl

theorem reduceLoss_mean_mask (n : Nat) (f w : Nat → K) :
    reduceLoss .mean n f (some w) = [lsum (reduceLoss .none n f (some w)) / sumTo n w] := by
  rw [reduceLoss_none_lsum]; rfl

theorem reduceLoss_congr {red : Reduction} {n : Nat} {f g : Nat → K} {m : Option (Nat → K)}
    (h : ∀ i, i < n → f i = g i) : reduceLoss red n f m = reduceLoss red n g m := by
  cases red <;> cases m <;> simp only [reduceLoss, sumTo_congr h]
  all_goals exact List.map_congr_left (fun i hi => h i (List.mem_range.mp hi))

end Field

section Ordered
variable {K : Type} [Field K] [LinearOrder K] [IsStrictOrderedRing K]

theorem absv_eq (a : K) : absv a = |a| := by
  unfold absv
  simp only [Nat.cast_zero]
  split_ifs with h
  · exact (abs_of_neg h).symm
  · exact (abs_of_nonneg (not_lt.mp h)).symm

theorem sumTo_nonneg {n : Nat} {f : Nat → K} (h : ∀ i, i < n → 0 ≤ f i) : 0 ≤ sumTo n f := by
  induction n with
  | zero => simp [sumTo]
  | succ n ih =>
    simp only [sumTo]
    exact add_nonneg (ih (fun i hi => h i (Nat.lt_succ_of_lt hi))) (h n (Nat.lt_succ_self n))

theorem sumTo_le {n : Nat} {f g : Nat → K} (h : ∀ i, i < n → f i ≤ g i) : sumTo n f ≤ sumTo n g := by
  induction n with
  | zero => simp [sumTo]
  | succ n ih =>
    simp only [sumTo]
    exact add_le_add (ih (fun i hi => h i (Nat.lt_succ_of_lt hi))) (h n (Nat.lt_succ_self n))

theorem winSum_nonneg {w : List Nat} {f : Nat → K} (h : ∀ j ∈ w, 0 ≤ f j) : 0 ≤ winSum w f := by
  induction w with
  | nil => simp [winSum, lsum]
  | cons a w ih =>
    simp only [winSum, List.map_cons, lsum] at ih ⊢
    exact add_nonneg (h a (by simp)) (ih (fun j hj => h j (by simp [hj])))

/-- Cauchy–Schwarz for sums over an index list (`(Σ f g)² ≤ Σ f² · Σ g²`). -/
theorem winSum_cs (w : List Nat) (f g : Nat → K) :
    winSum w (fun j => f j * g j) * winSum w (fun j => f j * g j)
      ≤ winSum w (fun j => f j * f j) * winSum w (fun j => g j * g j) := by
  induction w with
  | nil => simp [winSum, lsum]
  | cons a w ih =>
    have hB : 0 ≤ winSum w (fun j => f j * f j) := winSum_nonneg (fun j _ => mul_self_nonneg _)
    have hC : 0 ≤ winSum w (fun j => g j * g j) := winSum_nonneg (fun j _ => mul_self_nonneg _)
    simp only [winSum, List.map_cons, lsum] at ih hB hC ⊢
    set A := lsum (List.map (fun j => f j * g j) w)
    set B := lsum (List.map (fun j => f j * f j) w)
    set C := lsum (List.map (fun j => g j * g j) w)
    -- 2·A·x·y ≤ B·y² + C·x²  from  A² ≤ B·C
    have key : 2 * A * (f a * g a) ≤ B * (g a * g a) + C * (f a * f a) := by
      apply le_of_sq_le_sq _ (add_nonneg (mul_nonneg hB (mul_self_nonneg _)) (mul_nonneg hC (mul_self_nonneg _)))
      nlinarith [sq_nonneg (B * (g a * g a) - C * (f a * f a)), mul_nonneg (mul_self_nonneg (f a)) (mul_self_nonneg (g a)),
        mul_le_mul_of_nonneg_right ih (mul_nonneg (mul_self_nonneg (f a)) (mul_self_nonneg (g a)))]
    nlinarith [key, ih]

/-- Cauchy–Schwarz for `sumTo`. -/
theorem sumTo_cs (n : Nat) (f g : Nat → K) :
    sumTo n (fun j => f j * g j) * sumTo n (fun j => f j * g j)
      ≤ sumTo n (fun j => f j * f j) * sumTo n (fun j => g j * g j) := by
  simp only [sumTo_eq_winSum]; exact winSum_cs _ f g

theorem applyNorm_pos {c : K} (hc : 0 < c) (v : List K) : applyNorm (some c) v = v.map (fun l => l / c) := by
  simp [applyNorm, hc]

theorem applyNorm_nonpos {c : K} (hc : ¬ 0 < c) (v : List K) : applyNorm (some c) v = v := by
  simp [applyNorm, hc]

/-- the correlation score `1 − a²/(bc + ε)` lies in `[0, 1]` whenever `a² ≤ bc`, `b, c, ε ≥ 0`. -/
theorem score_range {a b c eps : K} (h : a * a ≤ b * c) (hb : 0 ≤ b) (hc : 0 ≤ c) (he : 0 ≤ eps) :
    0 ≤ -(a * a / (b * c + eps)) + 1 ∧ -(a * a / (b * c + eps)) + 1 ≤ 1 := by
  have hd : 0 ≤ b * c + eps := add_nonneg (mul_nonneg hb hc) he
  have h0 : 0 ≤ a * a / (b * c + eps) := div_nonneg (mul_self_nonneg a) hd
  have h1 : a * a / (b * c + eps) ≤ 1 := by
    rcases eq_or_lt_of_le hd with h | h
    · rw [← h]; simp
    · rw [div_le_one h]; linarith
  constructor <;> linarith

end Ordered

end Deepali.Loss
