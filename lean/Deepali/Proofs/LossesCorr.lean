/-
  Proofs/LossesCorr.lean — the correlation score `1 − a²/(bc + ε)` shared by ncc_loss and lcc_loss:
  range, symmetry, value on identical images, behaviour under intensity scaling; centring turns an
  intensity offset into nothing and an intensity scale into a scale.
-/
import Deepali.Proofs.LossesBasic

set_option linter.unusedSectionVars false

namespace Deepali.Loss

section Field
variable {K : Type} [Field K]

theorem lccScore_symm (w : List Nat) (x y : Nat → K) (eps : K) : lccScore w x y eps = lccScore w y x eps := by
  unfold lccScore
  have h : winSum w (fun j => x j * y j) = winSum w (fun j => y j * x j) :=
    winSum_congr (fun j _ => mul_comm _ _)
  simp only [h, mul_comm (winSum w fun j => x j * x j)]

/-- identical (centred) images: the score is `ε / (b² + ε)`, i.e. exactly 0 for `ε = 0`. -/
theorem lccScore_self (w : List Nat) (x : Nat → K) (eps : K)
    (h : winSum w (fun j => x j * x j) * winSum w (fun j => x j * x j) + eps ≠ 0) :
    lccScore w x x eps
      = eps / (winSum w (fun j => x j * x j) * winSum w (fun j => x j * x j) + eps) := by
  unfold lccScore
  simp only [Nat.cast_one]
  set B := winSum w (fun j => x j * x j)
  rw [neg_add_eq_sub, eq_div_iff h, sub_mul, div_mul_cancel₀ _ h]; ring

/-- scaling the first (centred) image by `a ≠ 0` is the same as dividing `ε` by `a²`. -/
theorem lccScore_scale_left (w : List Nat) (x x' y : Nat → K) (eps a : K) (ha : a ≠ 0)
    (hx : ∀ j ∈ w, x' j = a * x j) : lccScore w x' y eps = lccScore w x y (eps / (a * a)) := by
  unfold lccScore
  have h1 : winSum w (fun j => x' j * y j) = a * winSum w (fun j => x j * y j) := by
    rw [← winSum_mul_left]; exact winSum_congr (fun j hj => by rw [hx j hj]; ring)
  have h2 : winSum w (fun j => x' j * x' j) = (a * a) * winSum w (fun j => x j * x j) := by
    rw [← winSum_mul_left]; exact winSum_congr (fun j hj => by rw [hx j hj]; ring)
  rw [h1, h2]
  simp only [Nat.cast_one]
  congr 2
  have haa : a * a ≠ 0 := mul_ne_zero ha ha
  set A := winSum w fun j => x j * y j
  set B := winSum w fun j => x j * x j
  set C := winSum w fun j => y j * y j
  have : a * a * B * C + eps = (a * a) * (B * C + eps / (a * a)) := by field_simp
  rw [this, show a * A * (a * A) = (a * a) * (A * A) by ring, mul_div_mul_left _ _ haa]

theorem lccScore_scale_right (w : List Nat) (x y y' : Nat → K) (eps a : K) (ha : a ≠ 0)
    (hy : ∀ j ∈ w, y' j = a * y j) : lccScore w x y' eps = lccScore w x y (eps / (a * a)) := by
  rw [lccScore_symm, lccScore_scale_left w y y' x eps a ha hy, lccScore_symm]

/-- ncc_loss for one batch item is the same score over the whole index range with global centring. -/
theorem nccItem_eq (n : Nat) (s t : Nat → K) (eps : K) :
    nccItem n s t eps
      = lccScore (List.range n) (fun i => s i - sumTo n s / (n : K)) (fun i => t i - sumTo n t / (n : K)) eps := by
  unfold nccItem lccScore
  simp only [sumTo_eq_winSum]

/-- global centring of `a·s + β`. -/
theorem center_affine_global [CharZero K] (n : Nat) (hn : n ≠ 0) (s : Nat → K) (a β : K) (i : Nat) :
    (a * s i + β) - sumTo n (fun i => a * s i + β) / (n : K) = a * (s i - sumTo n s / (n : K)) := by
  have hn' : (n : K) ≠ 0 := Nat.cast_ne_zero.mpr hn
  rw [sumTo_add, sumTo_mul_left, sumTo_const]
  field_simp
  ring

/-- local centring of `a·s + β` (window mean over the in-bounds elements reproduces constants). -/
theorem centered_affine [CharZero K] (win : Nat → List Nat) (s : Nat → K) (a β : K) (j : Nat)
    (hw : win j ≠ []) : centered win (fun i => a * s i + β) j = a * centered win s j := by
  unfold centered winMean
  have hl : ((win j).length : K) ≠ 0 := by
    rw [Nat.cast_ne_zero]; exact fun h => hw (List.length_eq_zero_iff.mp h)
  rw [winSum_add, winSum_mul_left, winSum_const]
  field_simp
  ring

end Field

section Ordered
variable {K : Type} [Field K] [LinearOrder K] [IsStrictOrderedRing K]

theorem lccScore_range (w : List Nat) (x y : Nat → K) {eps : K} (he : 0 ≤ eps) :
    0 ≤ lccScore w x y eps ∧ lccScore w x y eps ≤ 1 := by
  unfold lccScore
  simp only [Nat.cast_one]
  exact score_range (winSum_cs w x y) (winSum_nonneg (fun j _ => mul_self_nonneg _))
    (winSum_nonneg (fun j _ => mul_self_nonneg _)) he

end Ordered

end Deepali.Loss
