/-
  Proofs/LossesCorr.lean — the correlation score `1 − a²/(bc + ε)` shared by ncc_loss and lcc_loss:
  range, symmetry, value on identical images, behaviour under intensity scaling; centring turns an
  intensity offset into nothing and an intensity scale into a scale.
-/
import Deepali.Proofs.LossesBasic

set_option linter.unusedSectionVars false

namespace Deepali.Loss

section Field
variable {K : Type} [Field K]

theorem lccScore_symm (w : List Nat) (x y : Nat → K) (eps : K) : lccScore w x y eps = lccScore w y x eps := by
  unfold lccScore
  have h : winSum w (fun j => x j * y j) = winSum w (fun j => y j * x j) :=
    winSum_congr (fun j _ => mul_comm _ _)
  simp only [h, mul_comm (winSum w fun j => x j * x j)]

/-- identical (centred) images: the score is `ε / (b² + ε)`, i.e. exactly 0 for `ε = 0`. -/
theorem lccScore_self (w : List Nat) (x : Nat → K) (eps : K)
    (h : winSum w (fun j => x j * x j) * winSum w (fun j => x j * x j) + eps ≠ 0) :
    lccScore w x x eps
      = eps / (winSum w (fun j => x j * x j) * winSum w (fun j => x j * x j) + eps) := by
  unfold lccScore
  simp only [Nat.cast_one]
  set B := winSum w (fun j => x j * x j)
  rw [neg_add_eq_sub, eq_div_iff h, sub_mul, div_mul_cancel₀ _ h]; ring

/-- scaling the first (centred) image by `a ≠ 0` is the same as dividing `ε` by `a²`. -/
theorem lccScore_scale_left (w : List Nat) (x x' y : Nat → K) (eps a : K) (ha : a ≠ 0)
    (hx : ∀ j ∈ w, x' j = a * x j) : lccScore w x' y eps = lccScore w x y (eps / (a * a)) := by
  unfold lccScore
  have h1 : winSum w (fun j => x' j * y j) = a * winSum w (fun j => x j * y j) := by
    rw [← winSum_mul_left]; exact winSum_congr (fun j hj => by rw [hx j hj]; ring)
  have h2 : winSum w (fun j => x' j * x' j) = (a * a) * winSum w (fun j => x j * x j) := by
    rw [← winSum_mul_left]; exact winSum_congr (fun j hj => by rw [hx j hj]; ring)
  rw [h1, h2]
  simp only [Nat.cast_one]
  congr 2
  have haa : a * a ≠ 0 := mul_ne_zero ha ha
  set A := winSum w fun j => x j * y j
  set B := winSum w fun j => x j * x j
  set C := winSum w fun j => y j * y j
  have : a * a * B * C + eps = (a * a) * (B * C + eps / (a * a)) := by field_simp
  rw [this, show a * A * (a * A) = (a * a) * (A * A) by ring, mul_div_mul_left _ _ haa]

theorem lccScore_scale_right (w : List Nat) (x y y' : Nat → K) (eps a : K) (ha : a ≠ 0)
    (hy : ∀ j ∈ w, y' j = a * y j) : lccScore w x y' eps = lccScore w x y (eps / (a * a)) := by
  rw [lccScore_symm, lccScore_scale_left w y y' x eps a ha hy, lccScore_symm]

/-- ncc_loss for one batch item is the same score over the whole index range with global centring. -/
theorem nccItem_eq (n : Nat) (s t : Nat → K) (eps : K) :
    nccItem n s t eps
      = lccScore (List.range n) (fun i => s i - sumTo n s / (n : K)) (fun i => t i - sumTo n t / (n : K)) eps := by
  unfold nccItem lccScore
  simp only [sumTo_eq_winSum]

/-- global centring of `a·s + β`. -/
theorem center_affine_global [CharZero K] (n : Nat) (hn : n ≠ 0) (s : Nat → K) (a β : K) (i : Nat) :
    (a * s i + β) - sumTo n (fun i => a * s i + β) / (n : K) = a * (s i - sumTo n s / (n : K)) := by
  have hn' : (n : K) ≠ 0 := Nat.cast_ne_zero.mpr hn
  rw [sumTo_add, sumTo_mul_left, sumTo_const]
  field_simp
  ring

/-- local centring of `a·s + β` (window mean over the in-bounds elements reproduces constants). -/
theorem centered_affine [CharZero K] (win : Nat → List Nat) (s : Nat → K) (a β : K) (j : Nat)
    (hw : win j ≠ []) : centered win (fun i => a * s i + β) j = a * centered win s j := by
  unfold centered winMean
  have hl : ((win j).length : K) ≠ 0 := by
    rw [Nat.cast_ne_zero]; exact fun h => hw (List.length_eq_zero_iff.mp h)
  rw [winSum_add, winSum_mul_left, winSum_const]
  field_simp
  ring

theorem lccScore_congr (w : List Nat) (x y x' y' : Nat → K) (eps : K)
    (hx : ∀ j ∈ w, x j = x' j) (hy : ∀ j ∈ w, y j = y' j) : lccScore w x y eps = lccScore w x' y' eps := by
  unfold lccScore
  rw [winSum_congr (f := fun j => x j * y j) (g := fun j => x' j * y' j) (fun j hj => by rw [hx j hj, hy j hj]),
    winSum_congr (f := fun j => x j * x j) (g := fun j => x' j * x' j) (fun j hj => by rw [hx j hj]),
    winSum_congr (f := fun j => y j * y j) (g := fun j => y' j * y' j) (fun j hj => by rw [hy j hj])]

/-! ### masked NCC: weighted mean, centred image times mask -/

/-- `(s − Σ s·m / Σ m)·m` — ncc_loss @570-572. -/
def centerM (n : Nat) (s m : Nat → K) : Nat → K :=
  fun i => (s i - sumTo n (fun i => s i * m i) / sumTo n m) * m i

theorem nccItemM_eq (n : Nat) (s t m : Nat → K) (eps : K) :
    nccItemM n s t m eps = lccScore (List.range n) (centerM n s m) (centerM n t m) eps := by
  unfold nccItemM lccScore centerM
  simp only [sumTo_eq_winSum]

/-- weighted centring of `a·s + β` (the weighted mean reproduces constants when `Σ m ≠ 0`). -/
theorem centerM_affine (n : Nat) (s m : Nat → K) (a β : K) (hm : sumTo n m ≠ 0) (i : Nat) :
    centerM n (fun i => a * s i + β) m i = a * centerM n s m i := by
  unfold centerM
  have : sumTo n (fun i => (a * s i + β) * m i) = a * sumTo n (fun i => s i * m i) + β * sumTo n m := by
    rw [← sumTo_mul_left, ← sumTo_mul_left, ← sumTo_add]
    exact sumTo_congr (fun i _ => by ring)
  rw [this]
  field_simp
  ring

/-- samples of weight 0 do not influence the weighted, centred image. -/
theorem centerM_congr (n : Nat) (s s' m : Nat → K) (h : ∀ i, i < n → m i ≠ 0 → s i = s' i) (i : Nat) (hi : i < n) :
    centerM n s m i = centerM n s' m i := by
  unfold centerM
  have hs : sumTo n (fun i => s i * m i) = sumTo n (fun i => s' i * m i) := by
    apply sumTo_congr
    intro j hj
    by_cases hm : m j = 0
    · simp [hm]
    · rw [h j hj hm]
  rw [hs]
  by_cases hm : m i = 0
  · simp [hm]
  · rw [h i hi hm]

/-- an all-ones mask gives the unmasked centring. -/
theorem centerM_ones [CharZero K] (n : Nat) (s m : Nat → K) (h : ∀ i, i < n → m i = 1) (i : Nat) (hi : i < n) :
    centerM n s m i = s i - sumTo n s / (n : K) := by
  unfold centerM
  have h1 : sumTo n (fun i => s i * m i) = sumTo n s := sumTo_congr (fun j hj => by rw [h j hj, mul_one])
  have h2 : sumTo n m = (n : K) := by
    rw [sumTo_congr (g := fun _ => (1 : K)) h, sumTo_const, mul_one]
  rw [h1, h2, h i hi, mul_one]

end Field

section Ordered
variable {K : Type} [Field K] [LinearOrder K] [IsStrictOrderedRing K]

theorem lccScore_range (w : List Nat) (x y : Nat → K) {eps : K} (he : 0 ≤ eps) :
    0 ≤ lccScore w x y eps ∧ lccScore w x y eps ≤ 1 := by
  unfold lccScore
  simp only [Nat.cast_one]
  exact score_range (winSum_cs w x y) (winSum_nonneg (fun j _ => mul_self_nonneg _))
    (winSum_nonneg (fun j _ => mul_self_nonneg _)) he

end Ordered

end Deepali.Loss
