/-
  Proofs/LossesEncoding.lean — the documented encodings of one binary segmentation accepted by
  `tversky_index` (foreground channel `(N, 1, …X)`, one-hot `(N, 2, …X)`, label map `(N, …X)`):
  index arithmetic of the two-class one-hot encoding, `tverskyPrep` in each mixed encoding.
-/
import Deepali.Proofs.LossesWrappers
import Deepali.Proofs.LossesOverlap

set_option linter.unusedSectionVars false

namespace Deepali.Loss

theorem idx_div (k S s : Nat) (hs : s < S) : (k * S + s) / S = k := by
  rw [Nat.add_comm, Nat.add_mul_div_right _ _ (Nat.lt_of_le_of_lt (Nat.zero_le s) hs), Nat.div_eq_of_lt hs,
    Nat.zero_add]

theorem idx_mod (k S s : Nat) (hs : s < S) : (k * S + s) % S = s := by
  rw [Nat.add_comm, Nat.add_mul_mod_self_right, Nat.mod_eq_of_lt hs]

theorem idx_lt (k N S s : Nat) (hk : k < N) (hs : s < S) : k * S + s < N * S := by
  have : (k + 1) * S ≤ N * S := Nat.mul_le_mul_right S hk
  rw [Nat.add_mul, Nat.one_mul] at this
  omega

theorem head_ne_zero_of_prod_pos (sp : List Nat) (hsp : 2 ≤ sp.length) (hpos : 0 < prod sp) :
    ¬ (sp = [] ∨ sp.head?.getD 0 = 0) := by
  rcases sp with _ | ⟨d, rest⟩
  · simp at hsp
  · simp only [prod, CanonicallyOrderedAdd.mul_pos] at hpos
    simp; omega

section Ordered
variable {K : Type} [Field K] [LinearOrder K] [IsStrictOrderedRing K]

/-- the first `n` values of a signal are 0 or 1. -/
def IsBinary (t : Nat → K) (n : Nat) : Prop := ∀ i, i < n → t i = 0 ∨ t i = 1

theorem IsBinary.sq {t : Nat → K} {n : Nat} (h : IsBinary t n) (i : Nat) (hi : i < n) : t i * t i = t i := by
  rcases h i hi with h0 | h0 <;> simp [h0]

/-- foreground channel of the two-class one-hot encoding of a binary label map is the map itself. -/
theorem oneHot2_fg (S : Nat) (t : Nat → K) (n s : Nat) (hs : s < S) (ht : t (n * S + s) = 0 ∨ t (n * S + s) = 1) :
    oneHot 2 S t ((2 * n + 1) * S + s) = t (n * S + s) := by
  have h1 : ((2 * n + 1) * S + s) / S = 2 * n + 1 := idx_div _ _ _ hs
  have h2 : ((2 * n + 1) * S + s) % S = s := idx_mod _ _ _ hs
  have h3 : ((2 * n + 1) * S + s) / (2 * S) = n := by
    rw [Nat.mul_comm 2 S, ← Nat.div_div_eq_div_mul, h1]; omega
  unfold oneHot
  simp only [h1, h2, h3]
  have : (2 * n + 1) % 2 = 1 := by omega
  rw [this]
  rcases ht with h | h <;> simp [h]

/-- `narrow(1, 1, 1)` of that encoding gives the map back. -/
theorem narrow1_oneHot2 (S : Nat) (t : Nat → K) (n s : Nat) (hs : s < S) (ht : t (n * S + s) = 0 ∨ t (n * S + s) = 1) :
    narrow1 S (oneHot 2 S t) (n * S + s) = t (n * S + s) := by
  unfold narrow1
  rw [idx_div _ _ _ hs, idx_mod _ _ _ hs]
  have : n * (2 * S) + S + s = (2 * n + 1) * S + s := by ring
  rw [this]; exact oneHot2_fg S t n s hs ht

/-- thresholding a binary label map at ½ (`target.ge(0.5)`) gives the map back. -/
theorem ge_half_binary (t : Nat → K) (i : Nat) (ht : t i = 0 ∨ t i = 1) :
    (if t i < 1 / 2 then (0 : K) else 1) = t i := by
  rcases ht with h | h <;> rw [h] <;> norm_num

theorem dotCh_congr' (S : Nat) (a b a' b' : Nat → K) (k k' : Nat)
    (ha : ∀ s, s < S → a (k * S + s) = a' (k' * S + s)) (hb : ∀ s, s < S → b (k * S + s) = b' (k' * S + s)) :
    dotCh S a b none k = dotCh S a' b' none k' := by
  simp only [dotCh]; exact sumTo_congr (fun s hs => by rw [ha s hs, hb s hs])

/-- the (unweighted) Tversky index of a channel only depends on the values in that channel. -/
theorem tverskyAt_congr' (S : Nat) (p y p' y' : Nat → K) (alpha beta eps : K) (k k' : Nat)
    (hp : ∀ s, s < S → p (k * S + s) = p' (k' * S + s)) (hy : ∀ s, s < S → y (k * S + s) = y' (k' * S + s)) :
    tverskyAt S p y none alpha beta eps k = tverskyAt S p' y' none alpha beta eps k' := by
  have h1 := dotCh_congr' S p y p' y' k k' hp hy
  have h2 := dotCh_congr' S p (fun i => ((1 : Nat) : K) - y i) p' (fun i => ((1 : Nat) : K) - y' i) k k' hp
    (fun s hs => by simp only [hy s hs])
  have h3 := dotCh_congr' S (fun i => ((1 : Nat) : K) - p i) y (fun i => ((1 : Nat) : K) - p' i) y' k k'
    (fun s hs => by simp only [hp s hs]) hy
  simp only [tverskyAt, h1, h2, h3]

end Ordered

section Floor
variable {K : Type} [Field K] [LinearOrder K] [IsStrictOrderedRing K] [FloorRing K]

theorem tverskyPrep_pred1_target2 (N : Nat) (sp : List Nat) (hsp : 2 ≤ sp.length) (x y : T K)
    (hx : x.shape = N :: 1 :: sp) (hy : y.shape = N :: 2 :: sp) (alpha beta eps : K) :
    tverskyPrep x y none alpha beta eps false
      = .ok (N * 1, tverskyAt (prod sp) x.data (narrow1 (prod sp) y.data) none alpha beta eps, none) := by
  unfold tverskyPrep
  simp [hx, hy, bind, Except.bind, pure, Except.pure, throw, throwThe, MonadExceptOf.throw]
  rw [if_neg (by omega : ¬ sp.length + 1 + 1 < 3), if_neg (by omega : ¬ sp.length + 1 + 1 < 4)]

theorem tverskyPrep_pred2_target1 (N : Nat) (sp : List Nat) (hsp : 2 ≤ sp.length) (x y : T K)
    (hx : x.shape = N :: 2 :: sp) (hy : y.shape = N :: 1 :: sp) (alpha beta eps : K) :
    tverskyPrep x y none alpha beta eps false
      = .ok (N * 1, tverskyAt (prod sp) (narrow1 (prod sp) x.data) y.data none alpha beta eps, none) := by
  unfold tverskyPrep
  simp [hx, hy, bind, Except.bind, pure, Except.pure, throw, throwThe, MonadExceptOf.throw]
  rw [if_neg (by omega : ¬ sp.length + 1 + 1 < 3), if_neg (by omega : ¬ sp.length + 1 + 1 < 4)]

theorem tverskyPrep_pred1_labels (N : Nat) (sp : List Nat) (hsp : 2 ≤ sp.length) (hpos : 0 < prod sp) (x y : T K)
    (hx : x.shape = N :: 1 :: sp) (hy : y.shape = N :: sp) (alpha beta eps : K) :
    tverskyPrep x y none alpha beta eps false
      = .ok (N * 1, tverskyAt (prod sp) x.data (fun i => if y.data i < 1 / 2 then 0 else 1) none alpha beta eps, none) := by
  unfold tverskyPrep
  simp [hx, hy, bind, Except.bind, pure, Except.pure, throw, throwThe, MonadExceptOf.throw]
  rw [if_neg (head_ne_zero_of_prod_pos sp hsp hpos)]
  rw [if_neg (by omega : ¬ sp.length + 1 + 1 < 3), if_neg (by omega : ¬ sp.length + 1 + 1 < 4)]

/-- multi-class (here two-class) prediction with a label map target (repaired by 03f6276): the
    label map is one-hot encoded, provided every label lies in `[0, 2)`. -/
theorem tverskyPrep_pred2_labels (N : Nat) (sp : List Nat) (hsp : 2 ≤ sp.length) (hpos : 0 < prod sp) (x y : T K)
    (hx : x.shape = N :: 2 :: sp) (hy : y.shape = N :: sp) (alpha beta eps : K)
    (hr : ∀ i, i < N * prod sp → 0 ≤ y.data i ∧ y.data i < 2) :
    tverskyPrep x y none alpha beta eps false
      = .ok (N * 2, tverskyAt (prod sp) x.data (oneHot 2 (prod sp) y.data) none alpha beta eps, none) := by
  unfold tverskyPrep
  have hex : ¬ ∃ i, i < prod (N :: sp) ∧ (y.data i < 0 ∨ 2 ≤ y.data i) := by
    rintro ⟨i, hi, h⟩
    have hi' : i < N * prod sp := by simpa [prod] using hi
    obtain ⟨h0, h2⟩ := hr i hi'
    rcases h with h | h
    · exact absurd h (not_lt.mpr h0)
    · exact absurd h2 (not_lt.mpr h)
  simp [hx, hy, bind, Except.bind, pure, Except.pure, throw, throwThe, MonadExceptOf.throw]
  rw [if_neg (by omega), if_neg (head_ne_zero_of_prod_pos sp hsp hpos), if_neg hex]
  simp only []
  rw [if_neg (by omega)]

/-- a label outside `[0, C)` is rejected (`scatter_` raises RuntimeError). -/
theorem tverskyPrep_pred2_labels_bad (N : Nat) (sp : List Nat) (hsp : 2 ≤ sp.length) (hpos : 0 < prod sp) (x y : T K)
    (hx : x.shape = N :: 2 :: sp) (hy : y.shape = N :: sp) (alpha beta eps : K)
    (i : Nat) (hi : i < N * prod sp) (hb : y.data i < 0 ∨ 2 ≤ y.data i) :
    tverskyPrep x y none alpha beta eps false = .error "err:runtime:scatter-index" := by
  unfold tverskyPrep
  have hex : ∃ i, i < prod (N :: sp) ∧ (y.data i < 0 ∨ 2 ≤ y.data i) := ⟨i, by simpa [prod] using hi, hb⟩
  simp [hx, hy, bind, Except.bind, pure, Except.pure, throw, throwThe, MonadExceptOf.throw]
  rw [if_neg (by omega), if_neg (head_ne_zero_of_prod_pos sp hsp hpos), if_pos hex]

end Floor

end Deepali.Loss
