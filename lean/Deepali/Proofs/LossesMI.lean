/-
  Proofs/LossesMI.lean — mutual information (Parzen window estimate) is symmetric in its two
  images, for an arbitrary window response `win` and an arbitrary function `lg` in place of `log`.
-/
import Deepali.Proofs.LossesBasic

set_option linter.unusedSectionVars false

namespace Deepali.Loss
variable {K : Type} [Field K]

/-- exchanging the images transposes the joint distribution and exchanges the marginals. -/
theorem miProbs_swap (win : K → K → K) (tiny : K) (B S : Nat) (cen x y : Nat → K) :
    miProbs win tiny B S cen y x
      = (fun b b' => (miProbs win tiny B S cen x y).1 b' b, (miProbs win tiny B S cen x y).2.2,
          (miProbs win tiny B S cen x y).2.1) := by
  unfold miProbs
  have hh : ∀ b b', sumTo S (fun s => win (y s) (cen b) * win (x s) (cen b'))
      = sumTo S (fun s => win (x s) (cen b') * win (y s) (cen b)) :=
    fun b b' => sumTo_congr (fun s _ => mul_comm _ _)
  have hn : sumTo B (fun b => sumTo B (fun b' => sumTo S (fun s => win (x s) (cen b') * win (y s) (cen b))))
      = sumTo B (fun b => sumTo B (fun b' => sumTo S (fun s => win (x s) (cen b) * win (y s) (cen b')))) := by
    rw [sumTo_comm]
  simp only [hh, hn]

theorem miEntropies_swap (win : K → K → K) (lg : K → K) (tiny : K) (B S : Nat) (cen x y : Nat → K) :
    miEntropies win lg tiny B S cen y x
      = ((miEntropies win lg tiny B S cen x y).2.1, (miEntropies win lg tiny B S cen x y).1,
          (miEntropies win lg tiny B S cen x y).2.2) := by
  unfold miEntropies
  rw [miProbs_swap]
  simp only [Prod.mk.injEq, true_and, neg_inj]
  rw [sumTo_comm]

theorem miLossCore_symm (win : K → K → K) (lg : K → K) (tiny : K) (normalized : Bool) (N B S : Nat)
    (cen x y : Nat → K) :
    miLossCore win lg tiny normalized N B S cen x y = miLossCore win lg tiny normalized N B S cen y x := by
  unfold miLossCore
  simp only [miEntropies_swap win lg tiny B S cen (fun s => x (_ * S + s))]
  simp only [add_comm]

end Deepali.Loss
