/-
  Proofs/LossesMI.lean — mutual information (Parzen window estimate, optionally with a sample
  weight = mask on the joint histogram): symmetric in its two images for an arbitrary window
  response `win` and an arbitrary function `lg` in place of `log`; samples of weight 0 do not
  influence it; with a 0/1 mask it is the estimate over the kept samples.
-/
import Deepali.Proofs.LossesPointwise

set_option linter.unusedSectionVars false

namespace Deepali.Loss

section Field
variable {K : Type} [Field K]

/-- exchanging the images transposes the joint distribution and exchanges the marginals. -/
theorem miProbs_swap (win : K → K → K) (tiny : K) (B S : Nat) (cen x y : Nat → K) (m : Option (Nat → K)) :
    miProbs win tiny B S cen y x m
      = (fun b b' => (miProbs win tiny B S cen x y m).1 b' b, (miProbs win tiny B S cen x y m).2.2,
          (miProbs win tiny B S cen x y m).2.1) := by
  cases m with
  | none =>
    unfold miProbs
    have hh : ∀ b b', sumTo S (fun s => win (y s) (cen b) * win (x s) (cen b'))
        = sumTo S (fun s => win (x s) (cen b') * win (y s) (cen b)) :=
      fun b b' => sumTo_congr (fun s _ => mul_comm _ _)
    have hn : sumTo B (fun b => sumTo B (fun b' => sumTo S (fun s => win (x s) (cen b') * win (y s) (cen b))))
        = sumTo B (fun b => sumTo B (fun b' => sumTo S (fun s => win (x s) (cen b) * win (y s) (cen b')))) := by
      rw [sumTo_comm]
    simp only [hh, hn]
  | some m =>
    unfold miProbs
    have hh : ∀ b b', sumTo S (fun s => win (y s) (cen b) * m s * win (x s) (cen b'))
        = sumTo S (fun s => win (x s) (cen b') * m s * win (y s) (cen b)) :=
      fun b b' => sumTo_congr (fun s _ => by ring)
    have hn : sumTo B (fun b => sumTo B (fun b' => sumTo S (fun s => win (x s) (cen b') * m s * win (y s) (cen b))))
        = sumTo B (fun b => sumTo B (fun b' => sumTo S (fun s => win (x s) (cen b) * m s * win (y s) (cen b')))) := by
      rw [sumTo_comm]
    simp only [hh, hn]

theorem miEntropies_swap (win : K → K → K) (lg : K → K) (tiny : K) (B S : Nat) (cen x y : Nat → K)
    (m : Option (Nat → K)) :
    miEntropies win lg tiny B S cen y x m
      = ((miEntropies win lg tiny B S cen x y m).2.1, (miEntropies win lg tiny B S cen x y m).1,
          (miEntropies win lg tiny B S cen x y m).2.2) := by
  unfold miEntropies
  rw [miProbs_swap]
  simp only [Prod.mk.injEq, true_and, neg_inj]
  rw [sumTo_comm]

theorem miLossCore_symm (win : K → K → K) (lg : K → K) (tiny : K) (normalized : Bool) (N B S : Nat)
    (cen x y : Nat → K) (m : Option (Nat → K)) :
    miLossCore win lg tiny normalized N B S cen x y m = miLossCore win lg tiny normalized N B S cen y x m := by
  unfold miLossCore
  simp only [miEntropies_swap win lg tiny B S cen (fun s => x (_ * S + s))]
  simp only [add_comm]

/-- samples whose weight is 0 do not influence the distributions. -/
theorem miProbs_mask_ignored (win : K → K → K) (tiny : K) (B S : Nat) (cen x y x' y' m : Nat → K)
    (h : ∀ s, s < S → m s ≠ 0 → x s = x' s ∧ y s = y' s) :
    miProbs win tiny B S cen x y (some m) = miProbs win tiny B S cen x' y' (some m) := by
  unfold miProbs
  have hh : ∀ b b', sumTo S (fun s => win (x s) (cen b) * m s * win (y s) (cen b'))
      = sumTo S (fun s => win (x' s) (cen b) * m s * win (y' s) (cen b')) := by
    intro b b'
    apply sumTo_congr
    intro s hs
    by_cases hm : m s = 0
    · simp [hm]
    · rw [(h s hs hm).1, (h s hs hm).2]
  simp only [hh]

/-- `Σ_{j < |l|} F(l[j]) = Σ_{i ∈ l} F(i)`. -/
theorem sumTo_succ_front (n : Nat) (f : Nat → K) : sumTo (n + 1) f = f 0 + sumTo n (fun i => f (i + 1)) := by
  induction n with
  | zero => simp [sumTo]
  | succ n ih => rw [sumTo, ih, sumTo]; ring

theorem sumTo_list (l : List Nat) (F : Nat → K) :
    sumTo l.length (fun j => F (l.getD j 0)) = (l.map F).sum := by
  induction l with
  | nil => simp [sumTo]
  | cons a l ih =>
    rw [List.length_cons, sumTo_succ_front]
    simp only [List.getD_cons_zero, List.getD_cons_succ, List.map_cons, List.sum_cons, ih]

end Field

section Ordered
variable {K : Type} [Field K] [LinearOrder K] [IsStrictOrderedRing K]

/-- the samples kept by a 0/1 mask, in order. -/
def kept (S : Nat) (m : Nat → K) : List Nat := (List.range S).filter (fun s => m s = 1)

/-- with a 0/1 mask the weighted joint histogram — hence the joint and marginal distributions —
    is that of the kept samples alone. -/
theorem miProbs_mask_selected (win : K → K → K) (tiny : K) (B S : Nat) (cen x y m : Nat → K)
    (hm : ∀ s, s < S → m s = 0 ∨ m s = 1) :
    miProbs win tiny B S cen x y (some m)
      = miProbs win tiny B (kept S m).length cen (fun j => x ((kept S m).getD j 0))
          (fun j => y ((kept S m).getD j 0)) none := by
  unfold miProbs
  have hh : ∀ b b', sumTo S (fun s => win (x s) (cen b) * m s * win (y s) (cen b'))
      = sumTo (kept S m).length (fun j => win (x ((kept S m).getD j 0)) (cen b) * win (y ((kept S m).getD j 0)) (cen b')) := by
    intro b b'
    rw [sumTo_list (kept S m) (fun s => win (x s) (cen b) * win (y s) (cen b'))]
    unfold kept
    rw [← (binary_mask_sum S (fun s => win (x s) (cen b) * win (y s) (cen b')) m hm).1]
    exact sumTo_congr (fun s _ => by ring)
  simp only [hh]

end Ordered

end Deepali.Loss
