/-
  Proofs/LossesModules.lean — helper lemmas for the normalisation factor of the module classes
  (Model/LossModules.lean): extrema under strictly monotone / antitone maps, `maxDifference` as a `max` of
  two absolute values (hence symmetric and homogeneous of degree 1 under `v ↦ c·v + b`, any `c ≠ 0`), the forms
  of `moduleNorm`, and the scale invariance of the default-normalised squared-difference loss.
-/
import Deepali.Model.LossModules
import Deepali.Proofs.LossesWrappers

set_option linter.unusedSectionVars false

namespace Deepali.Loss

section Ordered
variable {K : Type} [Field K] [LinearOrder K] [IsStrictOrderedRing K]

/-! ### extrema -/

theorem maxTo_succ_succ (n : Nat) (f : Nat → K) :
    maxTo (n + 2) f = if maxTo (n + 1) f < f (n + 1) then f (n + 1) else maxTo (n + 1) f := rfl

theorem minTo_succ_succ (n : Nat) (f : Nat → K) :
    minTo (n + 2) f = if f (n + 1) < minTo (n + 1) f then f (n + 1) else minTo (n + 1) f := rfl

theorem maxTo_map_mono (g : K → K) (hg : StrictMono g) (n : Nat) (f : Nat → K) :
    maxTo n (fun i => g (f i)) = g (maxTo n f) := by
  induction n with
  | zero => rfl
  | succ n ih =>
    cases n with
    | zero => rfl
    | succ n =>
      rw [maxTo_succ_succ, maxTo_succ_succ, ih]
      simp only [hg.lt_iff_lt]
      split_ifs <;> rfl

theorem minTo_map_mono (g : K → K) (hg : StrictMono g) (n : Nat) (f : Nat → K) :
    minTo n (fun i => g (f i)) = g (minTo n f) := by
  induction n with
  | zero => rfl
  | succ n ih =>
    cases n with
    | zero => rfl
    | succ n =>
      rw [minTo_succ_succ, minTo_succ_succ, ih]
      simp only [hg.lt_iff_lt]
      split_ifs <;> rfl

theorem maxTo_map_anti (g : K → K) (hg : StrictAnti g) (n : Nat) (f : Nat → K) :
    maxTo n (fun i => g (f i)) = g (minTo n f) := by
  induction n with
  | zero => rfl
  | succ n ih =>
    cases n with
    | zero => rfl
    | succ n =>
      rw [maxTo_succ_succ, minTo_succ_succ, ih]
      simp only [hg.lt_iff_gt]
      split_ifs <;> rfl

theorem minTo_map_anti (g : K → K) (hg : StrictAnti g) (n : Nat) (f : Nat → K) :
    minTo n (fun i => g (f i)) = g (maxTo n f) := by
  induction n with
  | zero => rfl
  | succ n ih =>
    cases n with
    | zero => rfl
    | succ n =>
      rw [minTo_succ_succ, maxTo_succ_succ, ih]
      simp only [hg.lt_iff_gt]
      split_ifs <;> rfl

/-! ### `max_difference` -/

/-- core/math.py:max_difference is `max(|smax − tmin|, |tmax − smin|)`. -/
theorem maxDifference_eq (n m : Nat) (s t : Nat → K) :
    maxDifference n m s t = max |maxTo n s - minTo m t| |maxTo m t - minTo n s| := by
  simp only [maxDifference, absv_eq]
  split_ifs with h
  · exact (max_eq_right h.le).symm
  · exact (max_eq_left (not_lt.mp h)).symm

theorem maxDifference_symm (n m : Nat) (s t : Nat → K) : maxDifference n m s t = maxDifference m n t s := by
  rw [maxDifference_eq, maxDifference_eq, max_comm]

theorem maxDifference_nonneg (n m : Nat) (s t : Nat → K) : 0 ≤ maxDifference n m s t := by
  rw [maxDifference_eq]; exact le_max_of_le_left (abs_nonneg _)

/-- intensities rescaled by `v ↦ c·v + b`, `c ≠ 0` of either sign (for `c < 0` minimum and maximum trade
    places, and so do the two absolute differences). -/
theorem maxDifference_affine (n m : Nat) (s t : Nat → K) (c b : K) (hc : c ≠ 0) :
    maxDifference n m (fun i => c * s i + b) (fun i => c * t i + b) = |c| * maxDifference n m s t := by
  simp only [maxDifference_eq]
  have e : ∀ p q : K, (c * p + b) - (c * q + b) = c * (p - q) := fun p q => by ring
  rcases lt_or_gt_of_ne hc with h | h
  · have ga : StrictAnti (fun v : K => c * v + b) := fun u v huv => by
      have := mul_lt_mul_of_neg_left huv h
      simpa using this
    have h1 : maxTo n (fun i => c * s i + b) = c * minTo n s + b := maxTo_map_anti _ ga n s
    have h2 : minTo n (fun i => c * s i + b) = c * maxTo n s + b := minTo_map_anti _ ga n s
    have h3 : maxTo m (fun i => c * t i + b) = c * minTo m t + b := maxTo_map_anti _ ga m t
    have h4 : minTo m (fun i => c * t i + b) = c * maxTo m t + b := minTo_map_anti _ ga m t
    rw [h1, h2, h3, h4, e, e, abs_mul, abs_mul, ← mul_max_of_nonneg _ _ (abs_nonneg c),
      abs_sub_comm (minTo n s), abs_sub_comm (minTo m t), max_comm]
  · have gm : StrictMono (fun v : K => c * v + b) := fun u v huv => by
      have := mul_lt_mul_of_pos_left huv h
      simpa using this
    have h1 : maxTo n (fun i => c * s i + b) = c * maxTo n s + b := maxTo_map_mono _ gm n s
    have h2 : minTo n (fun i => c * s i + b) = c * minTo n s + b := minTo_map_mono _ gm n s
    have h3 : maxTo m (fun i => c * t i + b) = c * maxTo m t + b := maxTo_map_mono _ gm m t
    have h4 : minTo m (fun i => c * t i + b) = c * minTo m t + b := minTo_map_mono _ gm m t
    rw [h1, h2, h3, h4, e, e, abs_mul, abs_mul, ← mul_max_of_nonneg _ _ (abs_nonneg c)]

/-! ### `moduleNorm` -/

theorem moduleNorm_both (s t : Img K) :
    moduleNorm .none (some s) (some t) = some (maxDifference s.1 t.1 s.2 t.2 * maxDifference s.1 t.1 s.2 t.2) := rfl

theorem moduleNorm_true (s t : Option (Img K)) : moduleNorm .true s t = moduleNorm .none s t := rfl
theorem moduleNorm_false (s t : Option (Img K)) : moduleNorm .false s t = none := rfl
theorem moduleNorm_value (v : K) (s t : Option (Img K)) : moduleNorm (.value v) s t = some v := rfl
theorem moduleNorm_source_only (s : Img K) : moduleNorm .none (some s) none = moduleNorm .none (some s) (some s) := rfl
theorem moduleNorm_target_only (t : Img K) : moduleNorm .none none (some t) = moduleNorm .none (some t) (some t) := rfl
theorem moduleNorm_neither : moduleNorm (α := K) .none none none = none := rfl

theorem moduleNorm_symm (arg : NormArg K) (s t : Option (Img K)) : moduleNorm arg s t = moduleNorm arg t s := by
  cases arg with
  | none =>
    cases s with
    | none => cases t <;> rfl
    | some s =>
      cases t with
      | none => rfl
      | some t => rw [moduleNorm_both, moduleNorm_both, maxDifference_symm]
  | true =>
    rw [moduleNorm_true, moduleNorm_true]
    cases s with
    | none => cases t <;> rfl
    | some s =>
      cases t with
      | none => rfl
      | some t => rw [moduleNorm_both, moduleNorm_both, maxDifference_symm]
  | false => rfl
  | value v => rfl

/-- `v ↦ c·v + b` on every intensity of an image. -/
def Img.affine (c b : K) (s : Img K) : Img K := (s.1, fun i => c * s.2 i + b)

theorem moduleNorm_affine (c b : K) (hc : c ≠ 0) (s t : Option (Img K)) :
    moduleNorm .none (s.map (Img.affine c b)) (t.map (Img.affine c b))
      = (moduleNorm .none s t).map (fun v => c ^ 2 * v) := by
  have key : ∀ p q : Img K, moduleNorm .none (some (Img.affine c b p)) (some (Img.affine c b q))
      = (moduleNorm .none (some p) (some q)).map (fun v => c ^ 2 * v) := by
    intro p q
    rw [moduleNorm_both, moduleNorm_both]
    simp only [Img.affine, Option.map_some, maxDifference_affine _ _ _ _ c b hc]
    congr 1
    rw [mul_mul_mul_comm, abs_mul_abs_self]; ring
  cases s with
  | none =>
    cases t with
    | none => rfl
    | some t =>
      simp only [Option.map_some, Option.map_none, moduleNorm_target_only]; exact key t t
  | some s =>
    cases t with
    | none => simp only [Option.map_some, Option.map_none, moduleNorm_source_only]; exact key s s
    | some t => exact key s t

/-- the factor is a square, hence never negative; it is positive unless both images are the same constant. -/
theorem moduleNorm_nonneg (s t : Option (Img K)) (v : K) (h : moduleNorm .none s t = some v) : 0 ≤ v := by
  have key : ∀ p q : Img K, moduleNorm .none (some p) (some q) = some v → 0 ≤ v := by
    intro p q hv
    rw [moduleNorm_both] at hv
    rw [← Option.some.inj hv]; exact mul_self_nonneg _
  cases s with
  | none =>
    cases t with
    | none => exact absurd h (by simp [moduleNorm_neither])
    | some t => exact key t t (by rw [← moduleNorm_target_only]; exact h)
  | some s =>
    cases t with
    | none => exact key s s (by rw [← moduleNorm_source_only]; exact h)
    | some t => exact key s t h

/-! ### scaling of the squared-difference loss -/

theorem reduceLoss_smul (k : K) (red : Reduction) (n : Nat) (f : Nat → K) (m : Option (Nat → K)) :
    reduceLoss red n (fun i => k * f i) m = (reduceLoss red n f m).map (fun v => k * v) := by
  cases red <;> cases m <;>
    simp only [reduceLoss, List.map_map, List.map_cons, List.map_nil, sumTo_mul_left, mul_div_assoc] <;> rfl

theorem pointwiseCore_sqDiff_affine (c b : K) (red : Reduction) (n : Nat) (x y : Nat → K) (m : Option (Nat → K)) :
    pointwiseCore sqDiff red n (fun i => c * x i + b) (fun i => c * y i + b) m
      = (pointwiseCore sqDiff red n x y m).map (fun v => c ^ 2 * v) := by
  cases m with
  | none =>
    simp only [pointwiseCore]
    rw [← reduceLoss_smul]
    exact reduceLoss_congr (fun i _ => by simp only [sqDiff]; ring)
  | some w =>
    simp only [pointwiseCore]
    rw [← reduceLoss_smul]
    exact reduceLoss_congr (fun i _ => by simp only [sqDiff]; ring)

theorem applyNorm_smul {c v : K} (hc : c ≠ 0) (hv : 0 < v) (l : List K) :
    applyNorm (some (c ^ 2 * v)) (l.map (fun u => c ^ 2 * u)) = applyNorm (some v) l := by
  have hc2 : 0 < c ^ 2 := by positivity
  rw [applyNorm_pos (mul_pos hc2 hv), applyNorm_pos hv, List.map_map]
  refine List.map_congr_left (fun u _ => ?_)
  simp only [Function.comp]
  field_simp

/-- the shape checks of `masked_loss` do not look at the loss values. -/
theorem maskedLoss_bind_const {β : Type} (ls : List Nat) (f g : Nat → K) (mask : Option (T K)) (r : Except String β) :
    (maskedLoss ls f mask >>= fun _ => r) = (maskedLoss ls g mask >>= fun _ => r) := by
  cases mask with
  | none => rfl
  | some m =>
    simp only [maskedLoss]
    cases maskedLossCheck ls m.shape with
    | error e => rfl
    | ok u =>
      simp only [bind, Except.bind]
      split_ifs <;> rfl

/-- SSD / MSE with the default factor: rescaling all four images (the two the factor is derived from and the
    two the loss is evaluated on) by `v ↦ c·v + b`, `c ≠ 0`, does not change the value, provided a positive
    factor is in effect. -/
theorem moduleLoss_ssd_affine (c b : K) (hc : c ≠ 0) (red : Reduction) (s t : Option (Img K)) (x y : T K)
    (mask : Option (T K)) (v : K) (hv : moduleNorm .none s t = some v) (hpos : 0 < v) :
    moduleLoss .ssd red .none (s.map (Img.affine c b)) (t.map (Img.affine c b))
        ⟨x.shape, fun i => c * x.data i + b⟩ ⟨y.shape, fun i => c * y.data i + b⟩ mask
      = moduleLoss .ssd red .none s t x y mask := by
  unfold moduleLoss
  rw [moduleNorm_affine c b hc, hv, Option.map_some, pointwiseLoss_eq, pointwiseLoss_eq]
  simp only [Pointwise.fn, T.numel]
  split_ifs
  · rfl
  · rw [pointwiseCore_sqDiff_affine, applyNorm_smul hc hpos]
    exact maskedLoss_bind_const _ _ _ _ _

end Ordered

end Deepali.Loss
