/-
  Proofs/LossesOverlap.lean — Dice score and Tversky index on one `(n, c)` channel:
  symmetry, value 1 on identical (binary) inputs, range, Tversky(½, ½) = Dice on binary inputs.
-/
import Deepali.Proofs.LossesBasic

set_option linter.unusedSectionVars false

namespace Deepali.Loss

section Field
variable {K : Type} [Field K]

/-- the weight as a total function (`None` ≙ all ones). -/
def wOf (w : Option (Nat → K)) : Nat → K :=
  match w with
  | none => fun _ => 1
  | some w => w

theorem dotCh_eq (S : Nat) (a b : Nat → K) (w : Option (Nat → K)) (k : Nat) :
    dotCh S a b w k = sumTo S (fun s => a (k * S + s) * b (k * S + s) * wOf w (k * S + s)) := by
  cases w <;> simp [dotCh, wOf]

theorem dotCh_comm (S : Nat) (a b : Nat → K) (w : Option (Nat → K)) (k : Nat) :
    dotCh S a b w k = dotCh S b a w k := by
  simp only [dotCh_eq]; exact sumTo_congr (fun s _ => by ring)

theorem diceAt_symm (S : Nat) (p y : Nat → K) (w : Option (Nat → K)) (eps : K) (k : Nat) :
    diceAt S p y w eps k = diceAt S y p w eps k := by
  unfold diceAt
  rw [dotCh_comm S p y, add_comm (dotCh S p p w k)]

/-- identical inputs (binary or not): Dice is exactly 1 as soon as the denominator is non-zero. -/
theorem diceAt_self (S : Nat) (p : Nat → K) (w : Option (Nat → K)) (eps : K) (k : Nat)
    (h : dotCh S p p w k + dotCh S p p w k + eps ≠ 0) : diceAt S p p w eps k = 1 := by
  unfold diceAt
  rw [div_eq_one_iff_eq h]
  push_cast; ring

/-- false positives: `Σ p(1−y)w = Σ pw − Σ pyw`. -/
theorem dotCh_one_sub_right (S : Nat) (p y : Nat → K) (w : Option (Nat → K)) (k : Nat) :
    dotCh S p (fun i => 1 - y i) w k
      = sumTo S (fun s => p (k * S + s) * wOf w (k * S + s)) - dotCh S p y w k := by
  simp only [dotCh_eq, ← sumTo_sub]; exact sumTo_congr (fun s _ => by ring)

theorem dotCh_one_sub_left (S : Nat) (p y : Nat → K) (w : Option (Nat → K)) (k : Nat) :
    dotCh S (fun i => 1 - p i) y w k
      = sumTo S (fun s => y (k * S + s) * wOf w (k * S + s)) - dotCh S p y w k := by
  simp only [dotCh_eq, ← sumTo_sub]; exact sumTo_congr (fun s _ => by ring)

/-- on a binary channel `Σ p²w = Σ pw`. -/
theorem dotCh_self_binary (S : Nat) (p : Nat → K) (w : Option (Nat → K)) (k : Nat)
    (hp : ∀ s, s < S → p (k * S + s) * p (k * S + s) = p (k * S + s)) :
    dotCh S p p w k = sumTo S (fun s => p (k * S + s) * wOf w (k * S + s)) := by
  simp only [dotCh_eq]; exact sumTo_congr (fun s hs => by rw [hp s hs])

/-- exchanging prediction and target exchanges the roles of `alpha` and `beta`. -/
theorem tverskyAt_swap (S : Nat) (p y : Nat → K) (w : Option (Nat → K)) (alpha beta eps : K) (k : Nat) :
    tverskyAt S p y w alpha beta eps k = tverskyAt S y p w beta alpha eps k := by
  unfold tverskyAt
  simp only [Nat.cast_one]
  rw [dotCh_comm S y p, dotCh_comm S y (fun i => 1 - p i), dotCh_comm S (fun i => 1 - y i) p]
  ring

/-- identical binary segmentations: no false positives/negatives, index exactly 1. -/
theorem tverskyAt_self_binary (S : Nat) (p : Nat → K) (w : Option (Nat → K)) (alpha beta eps : K) (k : Nat)
    (hp : ∀ s, s < S → p (k * S + s) * p (k * S + s) = p (k * S + s))
    (h : dotCh S p p w k + eps ≠ 0) : tverskyAt S p p w alpha beta eps k = 1 := by
  unfold tverskyAt
  simp only [Nat.cast_one]
  rw [dotCh_one_sub_right, dotCh_one_sub_left, ← dotCh_self_binary S p w k hp]
  simp only [sub_self, zero_mul, add_zero]
  exact div_self h

/-- Tversky(½, ½, ε) = Dice(2ε) on binary inputs. -/
theorem tverskyAt_half_eq_dice (S : Nat) (p y : Nat → K) (w : Option (Nat → K)) (eps : K) (k : Nat)
    [NeZero (2 : K)]
    (hp : ∀ s, s < S → p (k * S + s) * p (k * S + s) = p (k * S + s))
    (hy : ∀ s, s < S → y (k * S + s) * y (k * S + s) = y (k * S + s)) :
    tverskyAt S p y w (1 / 2) (1 / 2) eps k = diceAt S p y w (2 * eps) k := by
  unfold tverskyAt diceAt
  simp only [Nat.cast_one, Nat.cast_ofNat]
  rw [dotCh_one_sub_right, dotCh_one_sub_left, dotCh_self_binary S p w k hp, dotCh_self_binary S y w k hy]
  set I := dotCh S p y w k
  set P := sumTo S fun s => p (k * S + s) * wOf w (k * S + s)
  set Y := sumTo S fun s => y (k * S + s) * wOf w (k * S + s)
  have h2 : (2 : K) ≠ 0 := NeZero.ne 2
  have : I + eps + (P - I) * (1 / 2) + (Y - I) * (1 / 2) = (P + Y + 2 * eps) / 2 := by field_simp; ring
  rw [this, div_div_eq_mul_div]
  congr 1; ring

theorem npow_eq (n : Nat) (a : K) : npow n a = a ^ n := by
  induction n with
  | zero => simp [npow]
  | succ n ih => simp [npow, ih, pow_succ]

end Field

section Ordered
variable {K : Type} [Field K] [LinearOrder K] [IsStrictOrderedRing K]

theorem dotCh_nonneg (S : Nat) (a b : Nat → K) (w : Option (Nat → K)) (k : Nat)
    (ha : ∀ s, s < S → 0 ≤ a (k * S + s)) (hb : ∀ s, s < S → 0 ≤ b (k * S + s))
    (hw : ∀ s, s < S → 0 ≤ wOf w (k * S + s)) : 0 ≤ dotCh S a b w k := by
  rw [dotCh_eq]
  exact sumTo_nonneg (fun s hs => mul_nonneg (mul_nonneg (ha s hs) (hb s hs)) (hw s hs))

/-- `2·Σ pyw ≤ Σ p²w + Σ y²w` for non-negative weights. -/
theorem dice_two_inter_le (S : Nat) (p y : Nat → K) (w : Option (Nat → K)) (k : Nat)
    (hw : ∀ s, s < S → 0 ≤ wOf w (k * S + s)) :
    dotCh S p y w k * 2 ≤ dotCh S p p w k + dotCh S y y w k := by
  have h : 0 ≤ sumTo S (fun s => (p (k * S + s) - y (k * S + s)) * (p (k * S + s) - y (k * S + s))
      * wOf w (k * S + s)) :=
    sumTo_nonneg (fun s hs => mul_nonneg (mul_self_nonneg _) (hw s hs))
  have e : sumTo S (fun s => (p (k * S + s) - y (k * S + s)) * (p (k * S + s) - y (k * S + s))
      * wOf w (k * S + s)) = dotCh S p p w k + dotCh S y y w k - dotCh S p y w k * 2 := by
    simp only [dotCh_eq, ← sumTo_add, ← sumTo_mul_right, ← sumTo_sub]
    exact sumTo_congr (fun s _ => by ring)
  linarith

theorem diceAt_le_one (S : Nat) (p y : Nat → K) (w : Option (Nat → K)) {eps : K} (k : Nat)
    (hw : ∀ s, s < S → 0 ≤ wOf w (k * S + s)) (he : 0 ≤ eps) : diceAt S p y w eps k ≤ 1 := by
  unfold diceAt
  simp only [Nat.cast_ofNat]
  have h := dice_two_inter_le S p y w k hw
  have hd : 0 ≤ dotCh S p p w k + dotCh S y y w k + eps := by
    have : 0 ≤ dotCh S p p w k := by
      rw [dotCh_eq]; exact sumTo_nonneg (fun s hs => mul_nonneg (mul_self_nonneg _) (hw s hs))
    have : 0 ≤ dotCh S y y w k := by
      rw [dotCh_eq]; exact sumTo_nonneg (fun s hs => mul_nonneg (mul_self_nonneg _) (hw s hs))
    linarith
  rcases eq_or_lt_of_le hd with h0 | h0
  · rw [← h0]; simp
  · rw [div_le_one h0]; linarith

theorem diceAt_nonneg (S : Nat) (p y : Nat → K) (w : Option (Nat → K)) {eps : K} (k : Nat)
    (hp : ∀ s, s < S → 0 ≤ p (k * S + s)) (hy : ∀ s, s < S → 0 ≤ y (k * S + s))
    (hw : ∀ s, s < S → 0 ≤ wOf w (k * S + s)) (he : 0 ≤ eps) : 0 ≤ diceAt S p y w eps k := by
  unfold diceAt
  simp only [Nat.cast_ofNat]
  have h1 := dotCh_nonneg S p y w k hp hy hw
  have h2 := dotCh_nonneg S p p w k hp hp hw
  have h3 := dotCh_nonneg S y y w k hy hy hw
  exact div_nonneg (by linarith) (by linarith)

theorem tverskyAt_range (S : Nat) (p y : Nat → K) (w : Option (Nat → K)) {alpha beta eps : K} (k : Nat)
    (hp : ∀ s, s < S → 0 ≤ p (k * S + s) ∧ p (k * S + s) ≤ 1)
    (hy : ∀ s, s < S → 0 ≤ y (k * S + s) ∧ y (k * S + s) ≤ 1)
    (hw : ∀ s, s < S → 0 ≤ wOf w (k * S + s)) (ha : 0 ≤ alpha) (hb : 0 ≤ beta) (he : 0 ≤ eps) :
    0 ≤ tverskyAt S p y w alpha beta eps k ∧ tverskyAt S p y w alpha beta eps k ≤ 1 := by
  unfold tverskyAt
  simp only [Nat.cast_one]
  have h1 := dotCh_nonneg S p y w k (fun s hs => (hp s hs).1) (fun s hs => (hy s hs).1) hw
  have h2 := dotCh_nonneg S p (fun i => 1 - y i) w k (fun s hs => (hp s hs).1)
    (fun s hs => by have := (hy s hs).2; linarith) hw
  have h3 := dotCh_nonneg S (fun i => 1 - p i) y w k (fun s hs => by have := (hp s hs).2; linarith)
    (fun s hs => (hy s hs).1) hw
  have hn : 0 ≤ dotCh S p y w k + eps := by linarith
  have hf : 0 ≤ dotCh S p (fun i => 1 - y i) w k * alpha := mul_nonneg h2 ha
  have hg : 0 ≤ dotCh S (fun i => 1 - p i) y w k * beta := mul_nonneg h3 hb
  constructor
  · exact div_nonneg hn (by linarith)
  · rcases eq_or_lt_of_le (show 0 ≤ dotCh S p y w k + eps + dotCh S p (fun i => 1 - y i) w k * alpha
        + dotCh S (fun i => 1 - p i) y w k * beta by linarith) with h0 | h0
    · rw [← h0]; simp
    · rw [div_le_one h0]; linarith

end Ordered

end Deepali.Loss
