/-
  Proofs/LossesPointwise.lean — pointwise losses (ssd/mse, l1/mae, huber, smooth-l1): zero on the
  diagonal, symmetric, non-negative; masked reduction ignores samples with mask 0; the final
  `reduce_loss` of every wrapper (`finish`); `norm`; the shape logic of `masked_loss`.
-/
import Deepali.Proofs.LossesBasic

set_option linter.unusedSectionVars false

namespace Deepali.Loss

section Ordered
variable {K : Type} [Field K] [LinearOrder K] [IsStrictOrderedRing K]

/-- parameters the documentation allows: `delta > 0` for Huber, `beta ≥ 0` for smooth L1. -/
def Pointwise.Valid : Pointwise K → Prop
  | .ssd => True
  | .l1 => True
  | .huber d => 0 < d
  | .smoothL1 b => 0 ≤ b

theorem Pointwise.fn_self (kind : Pointwise K) (h : kind.Valid) (a : K) : kind.fn a a = 0 := by
  cases kind with
  | ssd => simp [Pointwise.fn, sqDiff]
  | l1 => simp [Pointwise.fn, l1Fn, absv_eq]
  | huber d =>
    have hd : (0 : K) < d := h
    simp [Pointwise.fn, huberFn, absv_eq, hd]
  | smoothL1 b =>
    have hb : (0 : K) ≤ b := h
    rcases eq_or_lt_of_le hb with h0 | h0
    · simp [Pointwise.fn, smoothL1Fn, absv_eq, ← h0]
    · simp [Pointwise.fn, smoothL1Fn, absv_eq, h0]

theorem Pointwise.fn_symm (kind : Pointwise K) (a b : K) : kind.fn a b = kind.fn b a := by
  cases kind with
  | ssd => simp only [Pointwise.fn, sqDiff]; ring
  | l1 => simp only [Pointwise.fn, l1Fn, absv_eq, abs_sub_comm]
  | huber d => simp only [Pointwise.fn, huberFn, absv_eq, abs_sub_comm]
  | smoothL1 c => simp only [Pointwise.fn, smoothL1Fn, absv_eq, abs_sub_comm]

theorem Pointwise.fn_nonneg (kind : Pointwise K) (h : kind.Valid) (a b : K) : 0 ≤ kind.fn a b := by
  cases kind with
  | ssd => exact mul_self_nonneg _
  | l1 => simp only [Pointwise.fn, l1Fn, absv_eq]; exact abs_nonneg _
  | huber d =>
    have hd : (0 : K) < d := h
    simp only [Pointwise.fn, huberFn, absv_eq, Nat.cast_one, Nat.cast_ofNat]
    split_ifs with hlt
    · have := abs_nonneg (a - b); positivity
    · have h1 : d ≤ |a - b| := not_lt.mp hlt
      apply mul_nonneg hd.le; linarith
  | smoothL1 c =>
    have hc : (0 : K) ≤ c := h
    simp only [Pointwise.fn, smoothL1Fn, absv_eq, Nat.cast_one, Nat.cast_ofNat]
    split_ifs with hlt
    · have := abs_nonneg (a - b); positivity
    · have h1 : c ≤ |a - b| := not_lt.mp hlt
      linarith

/-! ### masked reduction -/

/-- samples with mask 0 do not influence a masked pointwise loss, for every reduction. -/
theorem pointwiseCore_mask_ignored (f : K → K → K) (red : Reduction) (n : Nat) (x y x' y' w : Nat → K)
    (h : ∀ i, i < n → w i ≠ 0 → x i = x' i ∧ y i = y' i) :
    pointwiseCore f red n x y (some w) = pointwiseCore f red n x' y' (some w) := by
  unfold pointwiseCore
  apply reduceLoss_congr
  intro i hi
  by_cases hw : w i = 0
  · simp [hw]
  · rw [(h i hi hw).1, (h i hi hw).2]

theorem pointwiseCore_symm (f : K → K → K) (hf : ∀ a b, f a b = f b a) (red : Reduction) (n : Nat)
    (x y : Nat → K) (m : Option (Nat → K)) : pointwiseCore f red n x y m = pointwiseCore f red n y x m := by
  cases m <;> simp only [pointwiseCore] <;> exact reduceLoss_congr (fun i _ => by rw [hf])

theorem reduceLoss_all_zero (red : Reduction) (n : Nat) (f : Nat → K) (m : Option (Nat → K))
    (h : ∀ i, i < n → f i = 0) : ∀ v ∈ reduceLoss red n f m, v = 0 := by
  have hs : sumTo n f = 0 := by rw [sumTo_congr h, sumTo_zero]
  intro v hv
  cases red <;> cases m <;> simp only [reduceLoss, hs, zero_div, List.mem_singleton, List.mem_map,
    List.mem_range] at hv
  all_goals first
    | exact hv
    | (obtain ⟨i, hi, rfl⟩ := hv; exact h i hi)

theorem pointwiseCore_identical (f : K → K → K) (hf : ∀ a, f a a = 0) (red : Reduction) (n : Nat)
    (x : Nat → K) (m : Option (Nat → K)) : ∀ v ∈ pointwiseCore f red n x x m, v = 0 := by
  cases m <;> simp only [pointwiseCore] <;> apply reduceLoss_all_zero <;> intro i _ <;> simp [hf]

theorem reduceLoss_nonneg (red : Reduction) (n : Nat) (f : Nat → K) (m : Option (Nat → K))
    (h : ∀ i, i < n → 0 ≤ f i) (hm : ∀ w, m = some w → ∀ i, i < n → 0 ≤ w i) :
    ∀ v ∈ reduceLoss red n f m, 0 ≤ v := by
  have hs : 0 ≤ sumTo n f := sumTo_nonneg h
  intro v hv
  cases red with
  | none =>
    simp only [reduceLoss, List.mem_map, List.mem_range] at hv
    obtain ⟨i, hi, rfl⟩ := hv; exact h i hi
  | sum => simp only [reduceLoss, List.mem_singleton] at hv; rw [hv]; exact hs
  | mean =>
    cases m with
    | none =>
      simp only [reduceLoss, List.mem_singleton] at hv; rw [hv]
      exact div_nonneg hs (Nat.cast_nonneg n)
    | some w =>
      simp only [reduceLoss, List.mem_singleton] at hv; rw [hv]
      exact div_nonneg hs (sumTo_nonneg (hm w rfl))

theorem pointwiseCore_nonneg (f : K → K → K) (hf : ∀ a b, 0 ≤ f a b) (red : Reduction) (n : Nat)
    (x y : Nat → K) (m : Option (Nat → K)) (hm : ∀ w, m = some w → ∀ i, i < n → 0 ≤ w i) :
    ∀ v ∈ pointwiseCore f red n x y m, 0 ≤ v := by
  cases m with
  | none => exact reduceLoss_nonneg red n _ none (fun i _ => hf _ _) (fun w h => by cases h)
  | some w =>
    exact reduceLoss_nonneg red n _ (some w) (fun i hi => mul_nonneg (hf _ _) (hm w rfl i hi))
      (fun w' h => by cases h; exact hm w rfl)

/-- for a 0/1 mask the masked sum is the sum over the selected samples and `Σ mask` their number. -/
theorem binary_mask_sum (n : Nat) (g w : Nat → K) (hw : ∀ i, i < n → w i = 0 ∨ w i = 1) :
    sumTo n (fun i => g i * w i) = (((List.range n).filter (fun i => w i = 1)).map g).sum
    ∧ sumTo n w = (((List.range n).filter (fun i => w i = 1)).length : K) := by
  induction n with
  | zero => simp [sumTo]
  | succ n ih =>
    obtain ⟨h1, h2⟩ := ih (fun i hi => hw i (Nat.lt_succ_of_lt hi))
    simp only [sumTo, List.range_succ, List.filter_append, List.map_append, List.sum_append,
      List.length_append, Nat.cast_add, h1, h2]
    rcases hw n (Nat.lt_succ_self n) with h0 | h0
    · simp [h0]
    · simp [h0]

/-! ### norm -/

theorem applyNorm_sum (norm : Option K) (v : List K) : applyNorm norm [lsum v] = [lsum (applyNorm norm v)] := by
  cases norm with
  | none => rfl
  | some c =>
    by_cases hc : 0 < c
    · rw [applyNorm_pos hc, applyNorm_pos hc, lsum_map_div]; rfl
    · rw [applyNorm_nonpos hc, applyNorm_nonpos hc]

theorem applyNorm_length (norm : Option K) (v : List K) : (applyNorm norm v).length = v.length := by
  cases norm with
  | none => rfl
  | some c => by_cases hc : 0 < c <;> simp [applyNorm, hc]

theorem applyNorm_div (norm : Option K) (a d : K) : applyNorm norm [a / d] = (applyNorm norm [a]).map (· / d) := by
  cases norm with
  | none => rfl
  | some c =>
    by_cases hc : 0 < c
    · simp only [applyNorm_pos hc, List.map_cons, List.map_nil]; congr 1; ring
    · simp [applyNorm_nonpos hc]

theorem pointwiseCore_sum (f : K → K → K) (n : Nat) (x y : Nat → K) (m : Option (Nat → K)) :
    pointwiseCore f .sum n x y m = [lsum (pointwiseCore f .none n x y m)] := by
  cases m <;> simp only [pointwiseCore, reduceLoss_sum]

theorem pointwiseCore_mean_nomask (f : K → K → K) (n : Nat) (x y : Nat → K) :
    pointwiseCore f .mean n x y none
      = [lsum (pointwiseCore f .none n x y none) / (((pointwiseCore f .none n x y none).length : Nat) : K)] := by
  simp only [pointwiseCore, reduceLoss_mean_nomask]

theorem pointwiseCore_mean_mask (f : K → K → K) (n : Nat) (x y w : Nat → K) :
    pointwiseCore f .mean n x y (some w) = [lsum (pointwiseCore f .none n x y (some w)) / sumTo n w] := by
  simp only [pointwiseCore, reduceLoss_mean_mask]

end Ordered

section Finish
variable {K : Type} [Field K]

theorem finish_sum (p : Prep K) : finish .sum p = (finish .none p).map (fun v => [lsum v]) := by
  cases p with
  | error e => rfl
  | ok r => simp only [finish, Except.map, reduceLoss_sum]

theorem finish_mean (p : Prep K) (n : Nat) (l : Nat → K) (m : Option (Nat → K)) (hp : p = .ok (n, l, m)) :
    finish .mean p = (finish .none p).map (fun v => [lsum v /
      (match m with | none => ((v.length : Nat) : K) | some w => sumTo n w)]) := by
  subst hp
  cases m with
  | none => simp only [finish, Except.map, reduceLoss_mean_nomask]
  | some w => simp only [finish, Except.map, reduceLoss_mean_mask]

theorem finish_error (red : Reduction) (p : Prep K) (e : String) (hp : p = .error e) :
    finish red p = .error e := by subst hp; rfl

end Finish

/-! ### the shape logic of `masked_loss` as called by `ncc_loss` -/

/-- a per-item loss of shape `(N,)` is never compatible with a mask that has spatial dimensions. -/
theorem maskedLossCheck_reduced_fails (N : Nat) (m0 m1 m2 : Nat) (mrest : List Nat) :
    ∃ e, maskedLossCheck [N] (m0 :: m1 :: m2 :: mrest) = .error e := by
  unfold maskedLossCheck
  by_cases h0 : m0 ≠ 1 ∧ m0 ≠ N
  · exact ⟨"err:value:mask-batch", by simp [h0]⟩
  · by_cases h1 : m1 ≠ 1
    · exact ⟨"err:index:loss-ndim", by simp [h0, h1]⟩
    · exact ⟨"err:value:mask-spatial", by simp [h0, h1]⟩

end Deepali.Loss
