/-
  Proofs/LossesWrappers.lean — the shape-checking wrappers of Model/Losses.lean (what the driver
  runs) in terms of the cores the property theorems talk about; box windows are non-empty; the
  wrapper-level reduction / norm / mask facts for the pointwise losses; the rejections.
-/
import Deepali.Proofs.LossesPointwise
import Deepali.Proofs.LossesCorr
import Deepali.Proofs.LossesMI
import Deepali.Proofs.GridMaps

set_option linter.unusedSectionVars false

namespace Deepali.Loss

/-! ### box windows -/

theorem mem_axisWin_self (n k p : Nat) (hp : p < n) (hk : 0 < k) : p ∈ axisWin n k p := by
  simp only [axisWin, List.mem_filter, List.mem_range, Bool.and_eq_true, decide_eq_true_eq]
  refine ⟨hp, Nat.le_add_right _ _, ?_⟩
  have : k / 2 < k := Nat.div_lt_self hk (by decide)
  omega

theorem mem_boxWin_self : ∀ (ns ks : List Nat) (i : Nat), ns.length = ks.length → (∀ k ∈ ks, 0 < k) →
    i < prod ns → i ∈ boxWin ns ks i
  | [], [], i, _, _, hi => by
    simp only [prod] at hi
    simp only [boxWin, List.mem_singleton]; omega
  | [], _ :: _, _, h, _, _ => by simp at h
  | _ :: _, [], _, h, _, _ => by simp at h
  | n :: ns, k :: ks, i, hl, hk, hi => by
    simp only [prod] at hi
    have hn : 0 < n := by
      rcases Nat.eq_zero_or_pos n with h | h
      · simp [h] at hi
      · exact h
    have hq : i / n < prod ns := by
      rw [Nat.div_lt_iff_lt_mul hn, Nat.mul_comm]; exact hi
    have ih := mem_boxWin_self ns ks (i / n) (by simpa using hl) (fun k' hk' => hk k' (by simp [hk'])) hq
    simp only [boxWin, List.mem_flatMap, List.mem_map]
    exact ⟨i / n, ih, i % n, mem_axisWin_self n k (i % n) (Nat.mod_lt _ hn) (hk k (by simp)),
      Nat.mod_add_div i n⟩

theorem prod_append (l1 l2 : List Nat) : prod (l1 ++ l2) = prod l1 * prod l2 := by
  induction l1 with
  | nil => simp [prod]
  | cons b l1 ih1 => simp [prod, ih1, Nat.mul_assoc]

theorem prod_reverse (l : List Nat) : prod l.reverse = prod l := by
  induction l with
  | nil => rfl
  | cons a l ih => simp [List.reverse_cons, prod_append, prod, ih, Nat.mul_comm]

/-- every voxel's box window contains (the in-slice index of) the voxel itself, hence is
    non-empty, for every kernel size `k ≥ 1` — the hypothesis of the LCC affine-invariance theorem
    is met by the windows the code uses. -/
theorem tensorWin_nonempty (shape ks : List Nat) (i : Nat) (hl : ks.length = (shape.drop 2).length)
    (hk : ∀ k ∈ ks, 0 < k) (hS : 0 < prod (shape.drop 2)) : tensorWin shape ks i ≠ [] := by
  unfold tensorWin
  simp only [ne_eq, List.map_eq_nil_iff]
  intro h
  have hm := mem_boxWin_self (shape.drop 2).reverse ks.reverse (i % prod (shape.drop 2))
    (by simp [hl]) (fun k hk' => hk k (by simpa using hk')) (by rw [prod_reverse]; exact Nat.mod_lt _ hS)
  rw [h] at hm
  exact List.not_mem_nil hm

section Field
variable {K : Type} [Field K]

/-! ### wrappers = cores once the shape checks pass -/

theorem nccPrep_nomask (x y : T K) (eps : K) (h : x.shape = y.shape) :
    nccPrep x y none eps
      = .ok (x.shape.headD 0, nccNone (prod (x.shape.drop 1)) x.data y.data eps, none) := by
  simp [nccPrep, h, maskedLoss, bind, Except.bind, pure, Except.pure]

theorem lccPrep_nomask (x y : T K) (ks : List Nat) (eps : K) (h : x.shape = y.shape)
    (hp : poolCheck x.shape ks = .ok ()) :
    lccPrep x y none ks eps
      = .ok (x.numel, lccAt (tensorWin x.shape ks) x.data y.data eps, none) := by
  unfold lccPrep
  simp only [h, ne_eq, not_true_eq_false, if_false, maskedLoss, bind, Except.bind, pure, Except.pure, Option.map]
  rw [← h, hp]
  simp only [getM_memoArr]
  rfl

/-- with a mask that passes the checks of `masked_loss`, LCC multiplies the local scores by the
    (expanded) mask and hands the expanded mask to `reduce_loss`. -/
theorem lccPrep_mask (x y m : T K) (ks : List Nat) (eps : K) (h : x.shape = y.shape)
    (hp : poolCheck x.shape ks = .ok ()) (hm : maskedLossCheck x.shape m.shape = .ok ())
    (hl : m.shape.length = x.shape.length) :
    lccPrep x y (some m) ks eps
      = .ok (x.numel, fun i => lccAt (tensorWin x.shape ks) x.data y.data eps i * expandAs x.shape m i,
          some (expandAs x.shape m)) := by
  unfold lccPrep
  simp only [h, ne_eq, not_true_eq_false, if_false, maskedLoss, bind, Except.bind, pure, Except.pure, Option.map]
  rw [← h, hp, hm]
  simp only [hl, not_true_eq_false, if_false, getM_memoArr]
  rfl

theorem dicePrep_ok (x y : T K) (w : Option (T K)) (eps : K) (h3 : ¬ x.shape.length < 3)
    (h : x.shape = y.shape) (hc : dotChannelsCheck x.shape w = .ok ()) :
    dicePrep x y w eps
      = .ok (x.shape.headD 0 * (x.shape.drop 1).headD 0,
          diceAt (prod (x.shape.drop 2)) x.data y.data (w.map (expandAs x.shape)) eps, none) := by
  unfold dicePrep
  simp only [h3, ← h, hc, ne_eq, not_true_eq_false, if_false, bind, Except.bind, pure, Except.pure]

/-- whether `masked_loss` accepts a mask depends on the shapes only. -/
theorem maskedLoss_bind_indep {β : Type} (ls : List Nat) (l1 l2 : Nat → K) (m : Option (T K))
    (k : Except String β) :
    (maskedLoss ls l1 m >>= fun _ => k) = (maskedLoss ls l2 m >>= fun _ => k) := by
  cases m with
  | none => rfl
  | some m =>
    simp only [maskedLoss, bind, Except.bind]
    cases maskedLossCheck ls m.shape with
    | error e => rfl
    | ok u =>
      simp only []
      split_ifs <;> rfl

/-! ### ncc_loss with a mask (repaired, d5da1fc / 4a8506f) -/

/-- the four documented/broadcastable mask shapes pass the checks of `masked_loss` against the image shape. -/
theorem maskedLossCheck_documented (N C : Nat) (sp : List Nat) (n0 c0 : Nat)
    (hn : n0 = 1 ∨ n0 = N) (hc : c0 = 1 ∨ c0 = C) :
    maskedLossCheck (N :: C :: sp) (n0 :: c0 :: sp) = .ok () := by
  unfold maskedLossCheck
  rcases hn with rfl | rfl <;> rcases hc with rfl | rfl <;> simp

/-- with a mask that passes those checks, `ncc_loss` evaluates the weighted item score on the broadcast mask. -/
theorem nccPrep_mask (x y m : T K) (eps : K) (h : x.shape = y.shape)
    (hm : maskedLossCheck x.shape m.shape = .ok ()) (hl : m.shape.length = x.shape.length) :
    nccPrep x y (some m) eps
      = .ok (x.shape.headD 0,
          nccNoneM (prod (x.shape.drop 1)) x.data y.data (fun i => 1 * expandAs x.shape m i) eps, none) := by
  unfold nccPrep
  simp only [h, ne_eq, not_true_eq_false, if_false, maskedLoss, bind, Except.bind, pure, Except.pure]
  rw [← h, hm]
  simp only [hl, not_true_eq_false, if_false, getM_memoArr, Nat.cast_one]

/-! ### mutual information: wrapper level symmetry -/

theorem miPrep_swap (x y : T K) (mask : Option (T K)) (B : Nat) (h : x.shape = y.shape) :
    miPrep y x mask B = (miPrep x y mask B).map (fun r => (r.1, r.2.1, r.2.2.2.1, r.2.2.1, r.2.2.2.2)) := by
  unfold miPrep
  simp only [h, ne_eq, not_true_eq_false, if_false, bind, Except.bind, pure, Except.pure]
  split_ifs <;> try rfl
  all_goals (cases mask <;> simp only [Except.map] <;> (try split_ifs) <;> rfl)

theorem miLoss_symm (win : K → K → K) (lg : K → K) (tiny : K) (nz : Bool) (x y : T K)
    (mask : Option (T K)) (B : Nat) (cen : Nat → K) (h : x.shape = y.shape) :
    miLoss win lg tiny nz x y mask B cen = miLoss win lg tiny nz y x mask B cen := by
  unfold miLoss
  rw [miPrep_swap x y mask B h]
  cases miPrep x y mask B with
  | error e => rfl
  | ok r =>
    obtain ⟨N, S, xm, ym, m⟩ := r
    simp only [Except.map, bind, Except.bind, pure, Except.pure]
    rw [miLossCore_symm]

end Field

section Ordered
variable {K : Type} [Field K] [LinearOrder K] [IsStrictOrderedRing K]

/-! ### pointwise wrapper -/

theorem pointwiseLoss_eq (kind : Pointwise K) (red : Reduction) (x y : T K) (mask : Option (T K))
    (norm : Option K) :
    pointwiseLoss kind red x y mask norm
      = if x.shape ≠ y.shape then .error "err:value:shape" else
          (maskedLoss x.shape (fun i => kind.fn (x.data i) (y.data i)) mask >>= fun _ =>
            .ok (applyNorm norm (pointwiseCore kind.fn red x.numel x.data y.data
              (mask.map (expandAs x.shape))))) := by
  unfold pointwiseLoss
  split_ifs <;> rfl

theorem pointwiseLoss_sum (kind : Pointwise K) (x y : T K) (mask : Option (T K)) (norm : Option K) :
    pointwiseLoss kind .sum x y mask norm
      = (pointwiseLoss kind .none x y mask norm).map (fun v => [lsum v]) := by
  simp only [pointwiseLoss_eq]
  split_ifs
  · rfl
  · cases maskedLoss x.shape (fun i => kind.fn (x.data i) (y.data i)) mask with
    | error e => rfl
    | ok v => simp only [Except.map, bind, Except.bind, pointwiseCore_sum, applyNorm_sum]

/-- 'mean' = sum of 'none' divided by the number of elements (no mask) or by `Σ mask` (mask). -/
theorem pointwiseLoss_mean (kind : Pointwise K) (x y : T K) (mask : Option (T K)) (norm : Option K) :
    pointwiseLoss kind .mean x y mask norm
      = (pointwiseLoss kind .none x y mask norm).map (fun v => [lsum v /
          (match mask with
            | none => ((v.length : Nat) : K)
            | some m => sumTo x.numel (expandAs x.shape m))]) := by
  simp only [pointwiseLoss_eq]
  split_ifs
  · rfl
  · cases maskedLoss x.shape (fun i => kind.fn (x.data i) (y.data i)) mask with
    | error e => rfl
    | ok v =>
      cases mask with
      | none =>
        simp only [Except.map, bind, Except.bind, Option.map, pointwiseCore_mean_nomask, applyNorm_div,
          applyNorm_sum, applyNorm_length, List.map_cons, List.map_nil]
      | some m =>
        simp only [Except.map, bind, Except.bind, Option.map, pointwiseCore_mean_mask, applyNorm_div,
          applyNorm_sum, List.map_cons, List.map_nil]

theorem pointwiseLoss_norm_pos (kind : Pointwise K) (red : Reduction) (x y : T K) (mask : Option (T K))
    {c : K} (hc : 0 < c) :
    pointwiseLoss kind red x y mask (some c)
      = (pointwiseLoss kind red x y mask none).map (fun v => v.map (fun l => l / c)) := by
  simp only [pointwiseLoss_eq]
  split_ifs
  · rfl
  · cases maskedLoss x.shape (fun i => kind.fn (x.data i) (y.data i)) mask with
    | error e => rfl
    | ok v => simp only [Except.map, bind, Except.bind, applyNorm_pos hc]; rfl

theorem pointwiseLoss_norm_nonpos (kind : Pointwise K) (red : Reduction) (x y : T K) (mask : Option (T K))
    {c : K} (hc : ¬ 0 < c) :
    pointwiseLoss kind red x y mask (some c) = pointwiseLoss kind red x y mask none := by
  simp only [pointwiseLoss_eq]
  split_ifs
  · rfl
  · cases maskedLoss x.shape (fun i => kind.fn (x.data i) (y.data i)) mask with
    | error e => rfl
    | ok v => simp only [bind, Except.bind, applyNorm_nonpos hc]; rfl

/-- samples where the (broadcast) mask is 0 do not influence the value of a masked pointwise loss. -/
theorem pointwiseLoss_mask_ignored (kind : Pointwise K) (red : Reduction) (x y x' y' m : T K)
    (norm : Option K) (hx : x'.shape = x.shape) (hy : y'.shape = y.shape)
    (h : ∀ i, i < x.numel → expandAs x.shape m i ≠ 0 → x.data i = x'.data i ∧ y.data i = y'.data i) :
    pointwiseLoss kind red x y (some m) norm = pointwiseLoss kind red x' y' (some m) norm := by
  have hn : x'.numel = x.numel := by unfold T.numel; rw [hx]
  simp only [pointwiseLoss_eq, hx, hy, hn, Option.map]
  split_ifs
  · rfl
  · rw [maskedLoss_bind_indep x.shape (fun i => kind.fn (x.data i) (y.data i))
      (fun i => kind.fn (x'.data i) (y'.data i))]
    rw [pointwiseCore_mask_ignored kind.fn red x.numel x.data y.data x'.data y'.data _ h]

end Ordered

section Floor
variable {K : Type} [Field K] [LinearOrder K] [IsStrictOrderedRing K] [FloorRing K]

/-- `tversky_index` accepts both documented weight shapes for a binary prediction `(N, 1, …X)`
    (since fix b020f45 a single-channel weight is only repeated when `y` has several channels) and
    uses the weight as given. -/
theorem tverskyPrep_weight_binary_ok (N : Nat) (sp : List Nat) (hsp : 2 ≤ sp.length) (x y w : T K)
    (hx : x.shape = N :: 1 :: sp) (hy : y.shape = N :: 1 :: sp)
    (hw : w.shape = N :: 1 :: sp ∨ w.shape = N :: sp) (alpha beta eps : K) :
    tverskyPrep x y (some w) alpha beta eps false
      = .ok (N * 1, tverskyAt (prod sp) x.data y.data (some w.data) alpha beta eps, none) := by
  unfold tverskyPrep
  rcases hw with hw | hw <;>
  simp [hx, hy, hw, bind, Except.bind, pure, Except.pure, throw, throwThe, MonadExceptOf.throw] <;>
  rw [if_neg (by omega), if_neg (by omega)]

/-- `tversky_loss` once `tversky_index` succeeded: the four `gamma` branches. -/
theorem tverskyLossPrep_of_ok (pw : K → K) (x y : T K) (w : Option (T K)) (alpha beta eps : K) (b : Bool)
    (n : Nat) (ti : Nat → K) (m : Option (Nat → K))
    (h : tverskyPrep x y w alpha beta eps b = .ok (n, ti, m)) :
    tverskyLossPrep pw x y w alpha beta eps b none = .ok (n, fun k => 1 - ti k, none) ∧
    (∀ g : K, 1 < g → tverskyLossPrep pw x y w alpha beta eps b (some g) = .ok (n, fun k => pw (1 - ti k), none)) ∧
    (∀ g : K, g = 0 ∨ g = 1 → tverskyLossPrep pw x y w alpha beta eps b (some g) = .ok (n, fun k => 1 - ti k, none)) ∧
    (∀ g : K, g < 1 → g ≠ 0 → tverskyLossPrep pw x y w alpha beta eps b (some g) = .error "err:value:gamma") := by
  unfold tverskyLossPrep
  simp only [h, bind, Except.bind, pure, Except.pure, Nat.cast_one, Nat.cast_zero]
  refine ⟨trivial, ?_, ?_, ?_⟩
  · intro g hg
    have h0 : (0 : K) < g := lt_trans zero_lt_one hg
    simp [h0, hg]
  · rintro g (rfl | rfl) <;> simp
  · intro g hg hne
    have : g < 0 ∨ 0 < g := lt_or_gt_of_ne hne
    have h1 : ¬ (1 : K) < g := not_lt.mpr hg.le
    simp [this, h1, hg, throw, throwThe, MonadExceptOf.throw]

/-- errors of `tversky_index` are passed on unchanged by `tversky_loss`. -/
theorem tverskyLossPrep_of_error (pw : K → K) (x y : T K) (w : Option (T K)) (alpha beta eps : K) (b : Bool)
    (gamma : Option K) (e : String) (h : tverskyPrep x y w alpha beta eps b = .error e) :
    tverskyLossPrep pw x y w alpha beta eps b gamma = .error e := by
  unfold tverskyLossPrep
  simp only [h, bind, Except.bind]

end Floor

end Deepali.Loss
