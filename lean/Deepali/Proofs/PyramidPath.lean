/-
  Proofs/PyramidPath.lean — the decision `ImageBatch.pyramid` takes for its finest level
  (src/deepali/data/image.py @722-741): plain data resize when the cube extents of the new grid and
  of the re-flagged source grid agree, sampling at the new grid's points otherwise.

  The cube → world map of a grid is determined by centre, direction and the cube extent *in the
  convention of the normalised coordinates*: `world = centre + D · (cubeExtent/2 ⊙ p)`. Hence two
  grids under the same flag with equal centre, direction and cube extent have the same cube → world
  map and the cube → cube map between them is the identity.
-/
import Deepali.Proofs.ResizeRamp
import Deepali.Proofs.SamplePipe
import Deepali.Proofs.Examples

set_option linter.unusedSectionVars false

namespace Deepali
open Matrix
variable {K : Type} [Field K] [LinearOrder K] [IsStrictOrderedRing K] [FloorRing K] {d : Nat}

/-- a grid of integral size `n ≥ 1` stores a positive `_size`. -/
theorem Grid.HasSize.size_pos_of_one_le {g : Grid d K} {n : Fin d → Nat} (h : g.HasSize n) (h1 : ∀ i, 1 ≤ n i) :
    ∀ i, 0 < g.size i := by
  intro i
  have hi := h i
  have h1K : (1 : K) ≤ ((n i : Nat) : K) := by exact_mod_cast h1 i
  simp only [Grid.sizeTensor, Nat.cast_zero, HasFloor.ceil] at hi
  split_ifs at hi with h0
  · rw [← hi] at h1K; linarith
  · have hc : ((1 : Int) : K) ≤ ((⌈g.size i⌉ : Int) : K) := by rw [hi]; simpa using h1K
    have hc' : (1 : Int) ≤ ⌈g.size i⌉ := by exact_mod_cast hc
    exact Int.ceil_pos.mp (by omega)

/-- a valid grid of integral size has at least one sample per axis. -/
theorem Grid.HasSize.one_le_of_valid {g : Grid d K} {n : Fin d → Nat} (h : g.HasSize n) (hv : g.Valid) : ∀ i, 1 ≤ n i := by
  intro i
  have := hv.size_ne i
  rw [h i] at this
  have : n i ≠ 0 := by intro e; apply this; rw [e]; simp
  omega

/-- `CornersOK` for the axes of a flag: only `align_corners=True` needs two samples per axis. -/
theorem Grid.HasSize.cornersOK_of_flag {g : Grid d K} {n : Fin d → Nat} (h : g.HasSize n) (ac : Bool)
    (h2 : ac = true → ∀ i, 2 ≤ n i) : g.CornersOK (Axes.fromAlignCorners ac) := by
  cases ac
  · intro hc; cases hc
  · exact h.cornersOK (h2 rfl) _

/-- **cube → world around the centre**: in the convention `ac` the normalised point `p` lies at
    `centre + D · (cubeExt ac / 2 ⊙ p)`. -/
theorem pyramid_cube_to_world (g : Grid d K) (hpos : ∀ i, 0 < g.size i) (ac : Bool) (p : Vec d K) :
    fromGrid g .world (toGrid g (Axes.fromAlignCorners ac) p)
      = g.center + g.direction.mulVec (fun i => cubeExt ac g i / 2 * p i) := by
  rw [fromGrid_world_center g hpos]
  congr 2
  funext i
  cases ac <;> simp only [Axes.fromAlignCorners, toGrid, cubeExt, Bool.false_eq_true, if_false, if_true] <;> ring

/-- equal centre, direction and cube extent (same convention) ⇒ equal cube → world maps. -/
theorem pyramid_cube_to_world_congr {src new : Grid d K} (hps : ∀ i, 0 < src.size i) (hpn : ∀ i, 0 < new.size i)
    (ac : Bool) (hc : new.center = src.center) (hd : new.direction = src.direction)
    (he : cubeExt ac new = cubeExt ac src) (p : Vec d K) :
    fromGrid new .world (toGrid new (Axes.fromAlignCorners ac) p)
      = fromGrid src .world (toGrid src (Axes.fromAlignCorners ac) p) := by
  rw [pyramid_cube_to_world new hpn, pyramid_cube_to_world src hps, hc, hd, he]

/-- the cube → cube map between two grids that share flag, centre, direction and cube extent is the
    identity. -/
theorem pyramid_cube_map_id {src new : Grid d K} {n n' : Fin d → Nat} (ac : Bool) (hs : src.Valid) (hn : new.Valid)
    (hsn : src.HasSize n) (hnn : new.HasSize n')
    (hs2 : ac = true → ∀ i, 2 ≤ n i) (hn2 : ac = true → ∀ i, 2 ≤ n' i)
    (hfs : src.alignCorners = ac) (hfn : new.alignCorners = ac)
    (hc : new.center = src.center) (hd : new.direction = src.direction)
    (he : new.cubeExtent = src.cubeExtent) (p : Vec d K) :
    new.applyTransformTo (Axes.fromAlignCorners ac) src (Axes.fromAlignCorners ac) false p = p := by
  have hps := hsn.size_pos_of_one_le (hsn.one_le_of_valid hs)
  have hpn := hnn.size_pos_of_one_le (hnn.one_le_of_valid hn)
  have hcs := hsn.cornersOK_of_flag ac hs2
  have hcn := hnn.cornersOK_of_flag ac hn2
  have hw : src.CornersOK .world := fun hc => by cases hc
  have he' : cubeExt ac new = cubeExt ac src := by
    rw [cubeExtent_eq, cubeExtent_eq, hfs, hfn] at he; exact he
  rw [applyTransformTo_eq hn hs _ _ hcn hcs, pyramid_cube_to_world_congr hps hpn ac hc hd he',
    toGrid_fromGrid hs .world hw, fromGrid_toGrid hs _ hcs]

/-- `F.grid_sample`'s continuous index at the normalised lattice point of output sample `j` of an
    `m`-sample axis is `F.interpolate`'s (un-clamped) source index. -/
theorem unnormalize_coordAt_resize (ac : Bool) (n m : Nat) (hm : 2 ≤ m) (j : K) :
    unnormalize ac ((n : Nat) : K) (coordAt m ac j)
      = if ac then j * (((n : Nat) : K) - 1) / (((m : Nat) : K) - 1)
        else (j + 1 / 2) * ((n : Nat) : K) / ((m : Nat) : K) - 1 / 2 := by
  have hm1 : m ≠ 1 := by omega
  have h2' : (2 : K) ≤ ((m : Nat) : K) := by exact_mod_cast hm
  have h0 : ((m : Nat) : K) ≠ 0 := by intro e; rw [e] at h2'; linarith
  have h1 : ((m : Nat) : K) - 1 ≠ 0 := by intro e; linarith
  cases ac <;> simp only [unnormalize, coordAt, hm1, Bool.false_eq_true, if_false, if_true, Nat.cast_one,
    Nat.cast_ofNat] <;> field_simp <;> ring

/-! ### re-flagging (`Grid.align_corners(arg)`) changes nothing but the flag -/

theorem reflag_valid {g : Grid d K} (h : g.Valid) (ac : Bool) : (g.reflag ac).Valid :=
  ⟨h.spacing_ne, h.orth, h.size_ne⟩

theorem reflag_hasSize {g : Grid d K} {n : Fin d → Nat} (h : g.HasSize n) (ac : Bool) : (g.reflag ac).HasSize n := h

/-! ### concrete pairs used by Props/C04 -/

/-- 9×5 samples, spacing (1, 3), rotated by 90°, centred at (1, −3), `align_corners=True`. -/
def pyrSrc : Grid 2 ℚ := ⟨![9, 5], ![1, -3], ![1, 3], ![![0, -1], ![1, 0]], true⟩

/-- the same corner-to-corner cube with 5×3 samples: spacing doubles, cube extent (8, 12) unchanged. -/
def pyrNew : Grid 2 ℚ := ⟨![5, 3], ![1, -3], ![2, 6], ![![0, -1], ![1, 0]], true⟩

theorem pyrSrc_size : pyrSrc.sizeTensor = ![9, 5] := by
  funext i; fin_cases i <;> simp [Grid.sizeTensor, pyrSrc, HasFloor.ceil]

theorem pyrNew_size : pyrNew.sizeTensor = ![5, 3] := by
  funext i; fin_cases i <;> simp [Grid.sizeTensor, pyrNew, HasFloor.ceil]

theorem pyrSrc_valid : pyrSrc.Valid := by
  refine ⟨?_, ?_, ?_⟩
  · intro i; fin_cases i <;> simp [pyrSrc]
  · ext i j
    rw [Matrix.mul_apply, Fin.sum_univ_two]
    simp only [Matrix.transpose_apply, toM_apply]
    fin_cases i <;> fin_cases j <;> simp [pyrSrc]
  · intro i; rw [pyrSrc_size]; fin_cases i <;> simp

theorem pyrNew_valid : pyrNew.Valid := by
  refine ⟨?_, ?_, ?_⟩
  · intro i; fin_cases i <;> simp [pyrNew]
  · ext i j
    rw [Matrix.mul_apply, Fin.sum_univ_two]
    simp only [Matrix.transpose_apply, toM_apply]
    fin_cases i <;> fin_cases j <;> simp [pyrNew]
  · intro i; rw [pyrNew_size]; fin_cases i <;> simp

theorem pyrSrc_hasSize : pyrSrc.HasSize ![9, 5] := by
  intro i; rw [pyrSrc_size]; fin_cases i <;> simp

theorem pyrNew_hasSize : pyrNew.HasSize ![5, 3] := by
  intro i; rw [pyrNew_size]; fin_cases i <;> simp

theorem pyr_cubeExtent : pyrNew.cubeExtent = pyrSrc.cubeExtent := by
  funext i
  simp only [Grid.cubeExtent, pyrSrc_size, pyrNew_size, Vec.mul]
  fin_cases i <;> simp [pyrSrc, pyrNew] <;> norm_num

end Deepali
