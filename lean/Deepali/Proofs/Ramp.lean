/-
  Proofs/Ramp.lean — images whose intensity is a linear function of world position.
-/
import Deepali.Proofs.SamplePipe
import Mathlib.Algebra.BigOperators.Ring.Finset

set_option linter.unusedSectionVars false

namespace Deepali
open Matrix
variable {K : Type} [Field K] [LinearOrder K] [IsStrictOrderedRing K] [FloorRing K] {d : Nat}

/-- intensity ramp `a·x + b` as a function of world position. -/
def ramp (a : Vec d K) (b : K) (x : Vec d K) : K := ∑ i, a i * x i + b

/-- the image of a grid sampled from a world-space ramp. -/
def rampImage (g : Grid d K) (a : Vec d K) (b : K) : (Fin d → Int) → K :=
  fun idx => ramp a b (fromGrid g .world (fun i => ((idx i : Int) : K)))

theorem ramp_world_affine (g : Grid d K) (a : Vec d K) (b : K) (y : Vec d K) :
    ramp a b (fromGrid g .world y)
      = ∑ j, (∑ i, a i * g.affine i j) * y j + (∑ i, a i * g.origin i + b) := by
  simp only [ramp, fromGrid, vadd_eq, Pi.add_apply, Mat.mulVec, sumFin_eq, mul_add, Finset.sum_add_distrib,
    Finset.mul_sum, Finset.sum_mul]
  rw [Finset.sum_comm]
  have : ∀ j, ∑ i, a i * (g.affine i j * y j) = ∑ i, a i * g.affine i j * y j :=
    fun j => Finset.sum_congr rfl (fun i _ => by ring)
  simp only [this]; ring

/-- multilinear interpolation of a world-space ramp image returns the ramp at the interpolated
    world position, everywhere (no padding involved). -/
theorem interpLin_rampImage (g : Grid d K) (a : Vec d K) (b : K) (y : Vec d K) :
    interpLin d (rampImage g a b) y = ramp a b (fromGrid g .world y) := by
  have h : rampImage g a b
      = fun idx => ∑ j, (∑ i, a i * g.affine i j) * ((idx j : Int) : K) + (∑ i, a i * g.origin i + b) := by
    funext idx; exact ramp_world_affine g a b _
  rw [h, interpLin_affine, ramp_world_affine]

end Deepali
