/-
  Proofs/Regularizers.lean — the dictionary plumbing of the regularisers (requested keys, grouping
  per component, sorting, de-duplication, lookup) resolved once and for all, for any dimension and
  either derivative back end: what remains is arithmetic on the derivative values
  `ev (be.op k (u i)) idx`.
-/
import Deepali.Model.Regularizers
import Deepali.Proofs.FDDict
import Deepali.Proofs.FDCalc
import Mathlib.Algebra.Field.Basic
import Mathlib.Tactic.FinCases
import Mathlib.Tactic.Ring

set_option linter.unusedSectionVars false

namespace Deepali
namespace Reg
open FD Loss

variable {K : Type} [Field K] {D : Nat} {A : Type}

/-- the derivative operator a back end applies for a (sorted) key: the chain of finite-difference
    steps along its letters, or the B-spline derivative kernel of that key. -/
def Backend.op : Backend D A → DKey D → A → A
  | .fd step, k, F => chain step k F
  | .bspline deriv, k, F => deriv k F

/-! ### `flow_derivatives` for an arbitrary `spatial_derivatives` back end -/

/-- generalisation of `FD.flowDerivatives_spec`: whatever computes the per-component dictionaries,
    if it returns `val i k` for every requested sorted non-empty key `k`, then `flow_derivatives`
    returns `val i (sorted k)` for `d<i>/d<k>`. -/
theorem flowDerivatives_spec_gen (sd : Fin D → List (DKey D) → List (DKey D × Option A)) (val : Fin D → DKey D → A)
    (hsd : ∀ i keys k, k ∈ keys → k ≠ [] → sortKey k = k → assoc k (sd i keys) = some (some (val i k)))
    (which : List (FKey D)) (i : Fin D) (k : DKey D) (hk : (i, k) ∈ which) (hne : k ≠ []) :
    assoc (i, k) (flowDerivatives sd which) = some (some (val i (sortKey k))) := by
  unfold flowDerivatives
  simp only
  rw [assoc_map_self _ _ (i, k) ((mem_dedupFirst (i, k) which).mpr hk)]
  congr 1
  set keysOf : Fin D → List (DKey D) := fun i' => (which.filter (fun q => q.1 = i')).map (·.2) with hkeys
  set vv : Fin D → DKey D → Option A := fun i' k' =>
    (assoc (sortKey k') (sd i' ((uniqueKeys (keysOf i')).foldr insertDKey []))).join with hval
  have hmemk : k ∈ keysOf i := by
    simp only [hkeys, List.mem_map, List.mem_filter]
    exact ⟨(i, k), ⟨hk, by simp⟩, rfl⟩
  have hv : vv i k = some (val i (sortKey k)) := by
    simp only [hval]
    have hmem : sortKey k ∈ (uniqueKeys (keysOf i)).foldr insertDKey [] := by
      rw [mem_foldr_insertDKey]; unfold uniqueKeys; rw [mem_dedupFirst]; exact List.mem_map_of_mem hmemk
    have hne' : sortKey k ≠ [] := by
      intro e
      have := length_sortKey k
      rw [e] at this
      exact hne (List.length_eq_zero_iff.mp this.symm)
    rw [hsd i _ (sortKey k) hmem hne' (sortKey_idem k)]; rfl
  have hflat : ∀ l : List (Fin D), i ∈ l →
      assoc (i, k) (l.flatMap (fun i' => (keysOf i').map (fun k' => ((i', k'), vv i' k')))) = some (vv i k) := by
    intro l
    induction l with
    | nil => intro h; simp at h
    | cons i0 rest ih =>
      intro hmem
      rw [List.flatMap_cons, assoc_append]
      by_cases h0 : i0 = i
      · subst h0; rw [assoc_map_pair_eq i0 k (vv i0) (keysOf i0) hmemk]
      · rw [assoc_map_pair_ne i i0 k (vv i0) (keysOf i0) h0]
        rcases List.mem_cons.mp hmem with e | e
        · exact absurd e.symm h0
        · exact ih e
  have := hflat (List.finRange D) (List.mem_finRange i)
  simp only [hkeys, hval] at this hv
  rw [this, hv]; rfl

/-- `spatial_derivatives` of either back end returns `be.op k data` for a requested sorted key. -/
theorem Backend.sd_spec (be : Backend D A) (data : A) (keys : List (DKey D)) (k : DKey D) (hk : k ∈ keys) (hne : k ≠ [])
    (hs : sortKey k = k) : assoc k (be.sd data keys) = some (some (be.op k data)) := by
  cases be with
  | fd step =>
    simp only [Backend.sd, Backend.op]
    rw [spatialDerivativesFD_spec step data keys k hk hne, hs]
  | bspline deriv =>
    simp only [Backend.sd, Backend.op, spatialDerivativesBSpline]
    have hmem : k ∈ uniqueKeys keys := by
      unfold uniqueKeys
      rw [mem_dedupFirst]
      exact List.mem_map.mpr ⟨k, hk, hs⟩
    rw [assoc_map_self (fun k' => assoc (sortKey k') ((uniqueKeys keys).map (fun k => (k, deriv k data)))) (dedupFirst keys) k
      ((mem_dedupFirst k keys).mpr hk), hs]
    rw [assoc_map_self (fun k => deriv k data) (uniqueKeys keys) k hmem]

/-- `flow_derivatives` of either back end, one key. -/
theorem Backend.flowDerivs_spec (be : Backend D A) (u : Fin D → A) (which : List (FKey D)) (i : Fin D) (k : DKey D)
    (hk : (i, k) ∈ which) (hne : k ≠ []) :
    assoc (i, k) (be.flowDerivs u which) = some (some (be.op (sortKey k) (u i))) :=
  flowDerivatives_spec_gen (fun i keys => be.sd (u i) keys) (fun i k => be.op k (u i))
    (fun i keys k hk hne hs => be.sd_spec (u i) keys k hk hne hs) which i k hk hne

/-- `flow_derivatives` of either back end, the whole dictionary. -/
theorem Backend.flowDerivs_list (be : Backend D A) (u : Fin D → A) (which : List (FKey D))
    (hne : ∀ key ∈ which, key.2 ≠ []) :
    be.flowDerivs u which = (dedupFirst which).map (fun key => (key, some (be.op (sortKey key.2) (u key.1)))) := by
  have hspec := be.flowDerivs_spec u which
  unfold Backend.flowDerivs flowDerivatives at hspec ⊢
  simp only at hspec ⊢
  apply List.map_congr_left
  intro key hkey
  have hk : key ∈ which := (mem_dedupFirst key which).mp hkey
  have h := hspec key.1 key.2 hk (hne key hk)
  rw [assoc_map_self _ _ (key.1, key.2) hkey] at h
  have h' := Option.some.inj h
  simp only [h']

/-! ### values at a point -/

theorem valsAt_map {κ : Type} (ev : A → Arr D K) (l : List κ) (f : κ → A) (idx : Idx D) :
    valsAt ev (l.map (fun k => (k, some (f k)))) idx = some (l.map (fun k => (k, ev (f k) idx))) := by
  unfold valsAt
  induction l with
  | nil => rfl
  | cons x l ih =>
    rw [List.map_cons, List.mapM_cons, ih]
    rfl

theorem foldl_add_list (l : List K) (x : K) : l.foldl (fun acc v => acc + v) x = x + l.sum := by
  induction l generalizing x with
  | nil => simp
  | cons a l ih => simp [ih, add_assoc]

theorem accumulate_sum (l : List K) (h : l ≠ []) : accumulate l = some l.sum := by
  cases l with
  | nil => exact absurd rfl h
  | cons x r => simp [accumulate, foldl_add_list]

/-- `foldlM` over `Option` when every step succeeds. -/
theorem foldlM_some {β : Type} (l : List β) (g : β → Option K) (h : β → K) (F : K → K → K) (init : K)
    (hg : ∀ x ∈ l, g x = some (h x)) :
    l.foldlM (fun acc x => (g x).map (fun v => F acc v)) init = some (l.foldl (fun acc x => F acc (h x)) init) := by
  induction l generalizing init with
  | nil => rfl
  | cons a l ih =>
    simp only [List.foldlM_cons, List.foldl_cons, hg a (by simp), Option.map]
    exact ih _ (fun x hx => hg x (by simp [hx]))

/-! ### the key lists -/

theorem mem_insertFKey (k y : FKey D) (l : List (FKey D)) : y ∈ insertFKey k l ↔ y = k ∨ y ∈ l := by
  induction l with
  | nil => simp [insertFKey]
  | cons x xs ih =>
    simp only [insertFKey]
    split_ifs
    · simp
    · simp only [List.mem_cons, ih]; tauto

theorem mem_fkeySorted (y : FKey D) (l : List (FKey D)) : y ∈ fkeySorted l ↔ y ∈ l := by
  unfold fkeySorted
  induction l with
  | nil => simp
  | cons x xs ih => simp only [List.foldr_cons, mem_insertFKey, ih, List.mem_cons]

theorem mem_hessianKeys (key : FKey D) : key ∈ hessianKeys D ↔ ∃ a b, key.2 = [a, b] := by
  unfold hessianKeys
  simp only [List.mem_flatMap, List.mem_map, List.mem_finRange, true_and]
  constructor
  · rintro ⟨i, a, b, rfl⟩; exact ⟨a, b, rfl⟩
  · rintro ⟨a, b, h⟩; exact ⟨key.1, a, b, by rw [← h]⟩

theorem mem_bendingKeys (key : FKey D) : key ∈ bendingKeys D ↔ ∃ a b, key.2 = sortKey [a, b] := by
  unfold bendingKeys fkeyUnique
  rw [mem_fkeySorted, mem_dedupFirst, List.mem_map]
  constructor
  · rintro ⟨k', hk', rfl⟩
    obtain ⟨a, b, h⟩ := (mem_hessianKeys k').mp hk'
    exact ⟨a, b, by simp [h]⟩
  · rintro ⟨a, b, h⟩
    exact ⟨(key.1, [a, b]), (mem_hessianKeys _).mpr ⟨a, b, rfl⟩, by rw [← h]⟩

theorem bendingKeys_len (key : FKey D) (h : key ∈ bendingKeys D) : key.2.length = 2 := by
  obtain ⟨a, b, e⟩ := (mem_bendingKeys key).mp h
  rw [e, length_sortKey]; rfl

theorem bendingKeys_ne_nil (hD : 0 < D) : bendingKeys D ≠ [] := by
  intro e
  have : ((⟨0, hD⟩ : Fin D), sortKey [⟨0, hD⟩, ⟨0, hD⟩]) ∈ bendingKeys D := (mem_bendingKeys _).mpr ⟨⟨0, hD⟩, ⟨0, hD⟩, rfl⟩
  rw [e] at this
  exact absurd this (List.not_mem_nil)

theorem dedupFirst_ne_nil {β : Type} [DecidableEq β] (l : List β) (h : l ≠ []) : dedupFirst l ≠ [] := by
  obtain ⟨x, hx⟩ := List.exists_mem_of_ne_nil l h
  intro e
  have := (mem_dedupFirst x l).mpr hx
  rw [e] at this
  exact absurd this List.not_mem_nil

theorem sortKey_pair_self (a : Fin D) : sortKey [a, a] = [a, a] := by
  simp [sortKey, insertSorted]

theorem sortKey_single (a : Fin D) : sortKey [a] = [a] := rfl

/-! ### closed forms (any dimension, either back end) -/

/-- the value of key `d<i>/d<k>` at the grid point. -/
abbrev Hval (ev : A → Arr D K) (be : Backend D A) (u : Fin D → A) (idx : Idx D) (i : Fin D) (k : DKey D) : K :=
  ev (be.op k (u i)) idx

/-- bending energy density: sum over the sorted unique second-order keys of the squared
    derivative, mixed ones doubled. -/
theorem bendingField_eq (hD : 0 < D) (ev : A → Arr D K) (be : Backend D A) (u : Fin D → A) (idx : Idx D) :
    bendingField ev be u idx
      = some (((dedupFirst (bendingKeys D)).map (fun key => bendingTerm key (Hval ev be u idx key.1 (sortKey key.2)))).sum) := by
  unfold bendingField bendingAt bendingDict
  rw [be.flowDerivs_list u (bendingKeys D) (fun key hk => by
    intro e; have := bendingKeys_len key hk; rw [e] at this; simp at this)]
  rw [valsAt_map]
  simp only [Option.bind, bendingPt, List.map_map]
  rw [accumulate_sum]
  · rfl
  · intro e
    exact dedupFirst_ne_nil _ (bendingKeys_ne_nil hD) (List.map_eq_nil_iff.mp e)


theorem mem_curvatureKeys (i j : Fin D) : ((i, [j, j]) : FKey D) ∈ dedupFirst (curvatureKeys D) := by
  rw [mem_dedupFirst]; unfold curvatureKeys
  simp only [List.mem_flatMap, List.mem_map, List.mem_finRange, true_and]
  exact ⟨i, j, rfl⟩

theorem curvatureKeys_ne (key : FKey D) (h : key ∈ curvatureKeys D) : key.2 ≠ [] := by
  unfold curvatureKeys at h
  simp only [List.mem_flatMap, List.mem_map, List.mem_finRange, true_and] at h
  obtain ⟨c, d, rfl⟩ := h
  simp

/-- curvature density: `Σ_i (Σ_j ∂²u_i/∂x_j²)²`, both sums accumulated from zero as the code does. -/
theorem curvatureField_eq (ev : A → Arr D K) (be : Backend D A) (u : Fin D → A) (idx : Idx D) :
    curvatureField ev be u idx
      = some ((List.finRange D).foldl (fun acc i =>
          acc + (List.finRange D).foldl (fun a j => a + Hval ev be u idx i [j, j]) 0
              * (List.finRange D).foldl (fun a j => a + Hval ev be u idx i [j, j]) 0) 0) := by
  unfold curvatureField curvatureAt curvatureDict
  rw [be.flowDerivs_list u (curvatureKeys D) curvatureKeys_ne, valsAt_map]
  simp only [Option.bind, curvaturePt, Nat.cast_zero]
  have hlook : ∀ i j : Fin D, assoc ((i, [j, j]) : FKey D)
      ((dedupFirst (curvatureKeys D)).map (fun k => (k, ev (be.op (sortKey k.2) (u k.1)) idx)))
        = some (Hval ev be u idx i [j, j]) := by
    intro i j
    rw [assoc_map_self (fun k : FKey D => ev (be.op (sortKey k.2) (u k.1)) idx) _ _ (mem_curvatureKeys i j)]
    simp only [sortKey_pair_self]
  have hcomp : ∀ i : Fin D,
      (List.finRange D).foldlM (fun acc j => (assoc ((i, [j, j]) : FKey D)
        ((dedupFirst (curvatureKeys D)).map (fun k => (k, ev (be.op (sortKey k.2) (u k.1)) idx)))).map (fun v => acc + v)) (0 : K)
        = some ((List.finRange D).foldl (fun a j => a + Hval ev be u idx i [j, j]) 0) := by
    intro i
    exact foldlM_some (List.finRange D) _ (fun j => Hval ev be u idx i [j, j]) (fun a v => a + v) 0 (fun j _ => hlook i j)
  exact foldlM_some (List.finRange D) _ (fun i => (List.finRange D).foldl (fun a j => a + Hval ev be u idx i [j, j]) 0)
    (fun acc c => acc + c * c) 0 (fun i _ => hcomp i)

theorem divergenceKeys_ne (key : FKey D) (h : key ∈ divergenceKeys D) : key.2 ≠ [] := by
  unfold divergenceKeys at h
  simp only [List.mem_map, List.mem_finRange, true_and] at h
  obtain ⟨c, rfl⟩ := h
  simp

theorem divergenceKeys_ne_nil (hD : 0 < D) : divergenceKeys D ≠ [] := by
  intro e
  have : ((⟨0, hD⟩ : Fin D), [(⟨0, hD⟩ : Fin D)]) ∈ divergenceKeys D := by
    unfold divergenceKeys; simp only [List.mem_map, List.mem_finRange, true_and]; exact ⟨_, rfl⟩
  rw [e] at this
  exact absurd this List.not_mem_nil

/-- divergence loss density: the square of the accumulated diagonal first derivatives. -/
theorem divergenceField_eq (hD : 0 < D) (ev : A → Arr D K) (be : Backend D A) (u : Fin D → A) (idx : Idx D) :
    divergenceField ev be u idx
      = some (((dedupFirst (divergenceKeys D)).map (fun key => Hval ev be u idx key.1 (sortKey key.2))).sum
            * ((dedupFirst (divergenceKeys D)).map (fun key => Hval ev be u idx key.1 (sortKey key.2))).sum) := by
  unfold divergenceField divergenceAt divergenceDict
  rw [be.flowDerivs_list u (divergenceKeys D) divergenceKeys_ne, valsAt_map]
  simp only [Option.bind, divergenceLossPt, List.map_map]
  rw [accumulate_sum]
  · rfl
  · intro e
    exact dedupFirst_ne_nil _ (divergenceKeys_ne_nil hD) (List.map_eq_nil_iff.mp e)

theorem mem_jacobianKeys (i j : Fin D) : ((i, [j]) : FKey D) ∈ jacobianKeys D := by
  unfold jacobianKeys
  simp only [List.mem_flatMap, List.mem_map, List.mem_finRange, true_and]
  exact ⟨i, j, rfl⟩

theorem jacobianKeys_ne (key : FKey D) (h : key ∈ jacobianKeys D) : key.2 ≠ [] := by
  unfold jacobianKeys at h
  simp only [List.mem_flatMap, List.mem_map, List.mem_finRange, true_and] at h
  obtain ⟨c, d, rfl⟩ := h
  simp

/-- elasticity density: `elasticityPt` of the matrix of first derivatives. -/
theorem elasticityField_eq [DecidableEq K] (ev : A → Arr D K) (be : Backend D A) (lambd mu : K) (u : Fin D → A)
    (idx : Idx D) :
    elasticityField ev be lambd mu u idx = some (elasticityPt lambd mu (fun i j => Hval ev be u idx i [j])) := by
  unfold elasticityField elasticityAt elasticityDict
  rw [be.flowDerivs_list u (jacobianKeys D) jacobianKeys_ne, valsAt_map]
  have hlook : ∀ i j : Fin D, assoc ((i, [j]) : FKey D)
      ((dedupFirst (jacobianKeys D)).map (fun k => (k, ev (be.op (sortKey k.2) (u k.1)) idx)))
        = some (Hval ev be u idx i [j]) := by
    intro i j
    rw [assoc_map_self (fun k : FKey D => ev (be.op (sortKey k.2) (u k.1)) idx) _ _
      ((mem_dedupFirst _ _).mpr (mem_jacobianKeys i j))]
    rfl
  have hall : (jacobianKeys D).all (fun k => (assoc k
      ((dedupFirst (jacobianKeys D)).map (fun k => (k, ev (be.op (sortKey k.2) (u k.1)) idx)))).isSome) = true := by
    rw [List.all_eq_true]
    intro k hk
    rw [assoc_map_self (fun k : FKey D => ev (be.op (sortKey k.2) (u k.1)) idx) _ _ ((mem_dedupFirst _ _).mpr hk)]
    rfl
  simp only [Option.bind, jacAt, hall, if_true, Option.map, hlook, Option.getD]

theorem getD_map_finRange {β : Type} (f : Fin D → β) (c : Fin D) (d : β) : ((List.finRange D).map f).getD c.val d = f c := by
  simp [List.getD]

/-- gradient loss density: `gradPt` of the matrix of first derivatives. -/
theorem gradField_eq [LT K] [DecidableRel (α := K) (· < ·)] (ev : A → Arr D K) (be : Backend D A) (p : PPow K) (q : QPow K)
    (u : Fin D → A) (idx : Idx D) :
    gradField ev be p q u idx = gradPt p q (fun c j => Hval ev be u idx c [j]) := by
  unfold gradField gradAt gradDicts
  have hlook : ∀ c j : Fin D,
      (assoc [j] (((List.finRange D).map (fun c => be.sd (u c) (gradKeys D))).getD c.val [])).join = some (be.op [j] (u c)) := by
    intro c j
    rw [getD_map_finRange]
    rw [be.sd_spec (u c) (gradKeys D) [j] (by unfold gradKeys; simp) (by simp) rfl]
    rfl
  simp only [hlook, Option.isSome_some, List.all_eq_true, implies_true, decide_true, if_true]

end Reg
end Deepali
