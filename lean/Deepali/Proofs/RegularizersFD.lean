/-
  Proofs/RegularizersFD.lean — properties of the derivative operators the regularisers are built
  from: linearity of one `spatial_derivatives` step (all six finite-difference modes) and of the
  B-spline derivative, constants are annihilated, rescaling the spacing, second derivatives of
  affine fields.
-/
import Deepali.Proofs.Regularizers
import Deepali.Proofs.FDQuad
import Deepali.Proofs.FDQuadAvg
import Deepali.Props.C12
import Mathlib.Tactic.FieldSimp
import Mathlib.Tactic.Linarith

set_option linter.unusedSectionVars false

namespace Deepali
namespace Reg
open FD Loss

variable {K : Type} [Field K] [CharZero K] {D : Nat}

/-! ### linearity of the 1-D stencils -/

theorem fd_lin (m : FDMode) (n dil : Nat) (h c : K) (f g : Int → K) (k : Int) :
    finiteDifferences m n dil h (fun i => c * f i + g i) k
      = c * finiteDifferences m n dil h f k + finiteDifferences m n dil h g k := by
  cases m <;> simp only [finiteDifferences, finiteDifference, padReplicate]
  · ring
  · ring
  · ring
  · split_ifs <;> ring

theorem zeroPad_lin (n : Nat) (c : K) (f g : Int → K) (k : Int) :
    zeroPad n (fun i => c * f i + g i) k = c * zeroPad n f k + zeroPad n g k := by
  simp only [zeroPad]; split_ifs <;> simp

theorem conv3_lin (n : Nat) (w0 w1 w2 c : K) (f g : Int → K) (k : Int) :
    conv3 n w0 w1 w2 (fun i => c * f i + g i) k = c * conv3 n w0 w1 w2 f k + conv3 n w0 w1 w2 g k := by
  simp only [conv3, zeroPad_lin]; ring

theorem avgPerp_lin (sz : Fin D → Nat) (w : K × K × K) (a : Fin D) (c : K) (l : List (Fin D)) (F G : Arr D K) :
    avgPerp sz w a l (fun i => c * F i + G i) = fun i => c * avgPerp sz w a l F i + avgPerp sz w a l G i := by
  induction l generalizing F G with
  | nil => rfl
  | cons d l ih =>
    simp only [avgPerp, List.foldl_cons]
    by_cases hda : d = a
    · simp only [hda, if_true]; exact ih F G
    · simp only [hda, if_false]
      have : alongAxis d (conv3 (sz d) w.1 w.2.1 w.2.2) (fun i => c * F i + G i)
          = fun i => c * alongAxis d (conv3 (sz d) w.1 w.2.1 w.2.2) F i + alongAxis d (conv3 (sz d) w.1 w.2.1 w.2.2) G i := by
        funext idx
        simp only [alongAxis]
        exact conv3_lin _ _ _ _ c _ _ _
      rw [this]
      exact ih _ _

/-- one `spatial_derivatives` step is linear in the field (every mode, every point, padding included). -/
theorem sdStep_lin (mode : SDMode) (sz : Fin D → Nat) (sp : Fin D → K) (a : Fin D) (c : K) (F G : Arr D K) :
    sdStep mode sz sp a (fun i => c * F i + G i) = fun i => c * sdStep mode sz sp a F i + sdStep mode sz sp a G i := by
  funext idx
  unfold sdStep
  cases hk : (mode.avgKernel : Option (K × K × K)) with
  | none =>
    simp only [alongAxis]
    exact fd_lin _ _ _ _ c _ _ _
  | some w =>
    simp only [alongAxis, avgPerp_lin]
    exact fd_lin _ _ _ _ c _ _ _

theorem sdStep_zero (mode : SDMode) (sz : Fin D → Nat) (sp : Fin D → K) (a : Fin D) :
    sdStep mode sz sp a (fun _ => (0 : K)) = fun _ => 0 := by
  funext idx
  have e : (fun _ : Idx D => (1 : K) * 0 + 0) = fun _ => 0 := by funext _; ring
  have h := congrFun (sdStep_lin mode sz sp a 1 (fun _ => (0 : K)) (fun _ => (0 : K))) idx
  rw [e] at h
  simp only [one_mul] at h
  exact left_eq_add.mp h

theorem sdStep_smul (mode : SDMode) (sz : Fin D → Nat) (sp : Fin D → K) (a : Fin D) (c : K) (F : Arr D K) :
    sdStep mode sz sp a (fun i => c * F i) = fun i => c * sdStep mode sz sp a F i := by
  have h := sdStep_lin mode sz sp a c F (fun _ => (0 : K))
  simp only [add_zero, sdStep_zero] at h
  exact h

theorem sdStep_add (mode : SDMode) (sz : Fin D → Nat) (sp : Fin D → K) (a : Fin D) (F G : Arr D K) :
    sdStep mode sz sp a (fun i => F i + G i) = fun i => sdStep mode sz sp a F i + sdStep mode sz sp a G i := by
  have h := sdStep_lin mode sz sp a 1 F G
  simp only [one_mul] at h
  exact h


/-! ### chains of steps, the operator of a back end -/

theorem chain_lin {A : Type} (step : Fin D → Arr D K → Arr D K)
    (hlin : ∀ a (c : K) F G, step a (fun i => c * F i + G i) = fun i => c * step a F i + step a G i)
    (k : DKey D) (c : K) (F G : Arr D K) :
    chain step k (fun i => c * F i + G i) = fun i => c * chain step k F i + chain step k G i := by
  unfold chain
  induction k generalizing F G with
  | nil => rfl
  | cons a k ih => simp only [List.foldl_cons, hlin]; exact ih _ _

/-- a back end is linear when each of its derivative operators is. -/
def Backend.Linear (be : Backend D (Arr D K)) : Prop :=
  ∀ (k : DKey D) (c : K) (F G : Arr D K), be.op k (fun i => c * F i + G i) = fun i => c * be.op k F i + be.op k G i

theorem Backend.Linear.zero {be : Backend D (Arr D K)} (hl : be.Linear) (k : DKey D) : be.op k (fun _ => (0 : K)) = fun _ => 0 := by
  funext idx
  have e : (fun _ : Idx D => (1 : K) * 0 + 0) = fun _ => 0 := by funext _; ring
  have h := congrFun (hl k 1 (fun _ => (0 : K)) (fun _ => (0 : K))) idx
  rw [e] at h
  simp only [one_mul] at h
  exact left_eq_add.mp h

theorem Backend.Linear.smul {be : Backend D (Arr D K)} (hl : be.Linear) (k : DKey D) (c : K) (F : Arr D K) :
    be.op k (fun i => c * F i) = fun i => c * be.op k F i := by
  have h := hl k c F (fun _ => (0 : K))
  simp only [add_zero, hl.zero] at h
  exact h

theorem Backend.Linear.add {be : Backend D (Arr D K)} (hl : be.Linear) (k : DKey D) (F G : Arr D K) :
    be.op k (fun i => F i + G i) = fun i => be.op k F i + be.op k G i := by
  have h := hl k 1 F G
  simp only [one_mul] at h
  exact h

/-- the finite-difference back end of `spatial_derivatives` for a mode, grid size and spacing row. -/
abbrev fdBackend (mode : SDMode) (sz : Fin D → Nat) (h : Fin D → K) : Backend D (Arr D K) := .fd (sdStep mode sz h)

theorem fdBackend_linear (mode : SDMode) (sz : Fin D → Nat) (h : Fin D → K) : (fdBackend mode sz h).Linear := by
  intro k c F G
  exact chain_lin (A := Arr D K) (sdStep mode sz h) (fun a c F G => sdStep_lin mode sz h a c F G) k c F G

theorem fd_op_one (mode : SDMode) (sz : Fin D → Nat) (h : Fin D → K) (a : Fin D) (F : Arr D K) :
    (fdBackend mode sz h).op [a] F = sdStep mode sz h a F := rfl

theorem fd_op_two (mode : SDMode) (sz : Fin D → Nat) (h : Fin D → K) (a b : Fin D) (F : Arr D K) :
    (fdBackend mode sz h).op [a, b] F = sdStep mode sz h b (sdStep mode sz h a F) := rfl

/-! ### constants -/

/-- the field does not change along axis `a`. -/
def ConstAlong (a : Fin D) (F : Arr D K) : Prop := ∀ idx k, F (setIdx idx a k) = F idx

theorem fd_const (mode : FDMode) (n dil : Nat) (h : K) (f : Int → K) (hf : ∀ k l, f k = f l) (k : Int) :
    finiteDifferences mode n dil h f k = 0 := by
  obtain ⟨P, M, C, e⟩ := fd_two_point (K := K) mode n dil
  rw [e, hf (P k) (M k)]; simp

theorem avgPerp_constAlong (sz : Fin D → Nat) (w : K × K × K) (a : Fin D) (l : List (Fin D)) (F : Arr D K)
    (hF : ConstAlong a F) : ConstAlong a (avgPerp sz w a l F) := by
  induction l generalizing F with
  | nil => exact hF
  | cons d l ih =>
    simp only [avgPerp, List.foldl_cons]
    by_cases hda : d = a
    · simp only [hda, if_true]; exact ih F hF
    · simp only [hda, if_false]
      apply ih
      intro idx k
      simp only [alongAxis]
      have had : a ≠ d := fun e => hda e.symm
      rw [setIdx_ne idx k hda]
      congr 1
      funext m
      rw [setIdx_comm idx had k m]
      exact hF _ _

/-- a derivative step along an axis on which the field is constant vanishes at EVERY point
    (padding included), for every mode. -/
theorem sdStep_constAlong (mode : SDMode) (sz : Fin D → Nat) (sp : Fin D → K) (a : Fin D) (F : Arr D K)
    (hF : ConstAlong a F) : sdStep mode sz sp a F = fun _ => 0 := by
  funext idx
  unfold sdStep
  cases hk : (mode.avgKernel : Option (K × K × K)) with
  | none =>
    simp only [alongAxis]
    exact fd_const _ _ _ _ _ (fun k l => by rw [hF idx k, hF idx l]) _
  | some w =>
    simp only [alongAxis]
    have hR := avgPerp_constAlong sz w a (List.finRange D) F hF
    exact fd_const _ _ _ _ _ (fun k l => by rw [hR idx k, hR idx l]) _

theorem constAlong_const (a : Fin D) (t : K) : ConstAlong a (fun _ : Idx D => t) := fun _ _ => rfl

/-- every derivative (order ≥ 1) of a constant field vanishes everywhere, for every mode. -/
theorem fd_op_const (mode : SDMode) (sz : Fin D → Nat) (h : Fin D → K) (k : DKey D) (hk : k ≠ []) (t : K) :
    (fdBackend mode sz h).op k (fun _ => t) = fun _ => 0 := by
  cases k with
  | nil => exact absurd rfl hk
  | cons a r =>
    show chain (sdStep mode sz h) (a :: r) (fun _ => t) = fun _ => 0
    unfold chain
    rw [List.foldl_cons, sdStep_constAlong mode sz h a _ (constAlong_const a t)]
    exact (fdBackend_linear mode sz h).zero r

/-! ### rescaling the spacing -/

theorem sdStep_scale_spacing (mode : SDMode) (sz : Fin D → Nat) (h : Fin D → K) (a : Fin D) (F : Arr D K) (c : K) :
    sdStep mode sz (fun d => c * h d) a F = fun idx => sdStep mode sz h a F idx / c := by
  funext idx
  rw [C12_spacing mode sz (fun d => c * h d), C12_spacing mode sz h, div_div, mul_comm]

theorem fd_op_one_scale (mode : SDMode) (sz : Fin D → Nat) (h : Fin D → K) (a : Fin D) (F : Arr D K) (c : K) :
    (fdBackend mode sz (fun d => c * h d)).op [a] F = fun idx => (fdBackend mode sz h).op [a] F idx / c :=
  sdStep_scale_spacing mode sz h a F c

theorem fd_op_two_scale (mode : SDMode) (sz : Fin D → Nat) (h : Fin D → K) (a b : Fin D) (F : Arr D K) (c : K) :
    (fdBackend mode sz (fun d => c * h d)).op [a, b] F = fun idx => (fdBackend mode sz h).op [a, b] F idx / (c * c) := by
  simp only [fd_op_two]
  rw [sdStep_scale_spacing mode sz h a F c, sdStep_scale_spacing mode sz h b _ c]
  have e : (fun idx => sdStep mode sz h a F idx / c) = fun idx => c⁻¹ * sdStep mode sz h a F idx := by
    funext idx; rw [div_eq_inv_mul]
  rw [e, sdStep_smul]
  funext idx
  show c⁻¹ * sdStep mode sz h b (sdStep mode sz h a F) idx / c = sdStep mode sz h b (sdStep mode sz h a F) idx / (c * c)
  rw [div_eq_inv_mul, div_eq_inv_mul, mul_inv]
  ring

/-! ### second derivatives of affine fields -/

theorem affField_eq_quadField (s h : Fin D → K) (c : K) : affField s h c = quadField (fun _ _ => 0) s h c := by
  funext idx; simp [affField, quadField]

/-- every mode: zero at margin-2 interior points. -/
theorem second_affine_interior (mode : SDMode) (sz : Fin D → Nat) (s h : Fin D → K) (c : K)
    (hh : ∀ d, h d ≠ 0) (a b : Fin D) (idx : Idx D) (hint : Interior2 sz idx) :
    sdStep mode sz h b (sdStep mode sz h a (affField s h c)) idx = 0 := by
  rw [affField_eq_quadField, C12_second_quadratic mode sz _ s h c a b hh idx hint]; ring

theorem fcb_inrange_const (n : Nat) (hn : 2 ≤ n) (h : K) (f : Int → K) (c : K)
    (hf : ∀ j : Int, 0 ≤ j → j < n → f j = c) (k : Int) (h0 : 0 ≤ k) (h1 : k < n) :
    finiteDifferences .fcb n 1 h f k = 0 := by
  by_cases c1 : k < ((1 : Nat) : Int)
  · rw [fd_fcb_lower n 1 h f k c1, hf (k + ((1 : Nat) : Int)) (by push_cast; omega) (by push_cast; omega), hf k h0 h1]; simp
  · by_cases c2 : k + ((1 : Nat) : Int) < n
    · rw [fd_fcb_mid n 1 h f k (by omega) c2, hf (k + ((1 : Nat) : Int)) (by push_cast; omega) c2,
        hf (k - ((1 : Nat) : Int)) (by push_cast; push_cast at c1; omega) (by push_cast; omega)]; simp
    · rw [fd_fcb_upper n 1 h f k (by omega) (by omega), hf k h0 h1,
        hf (k - ((1 : Nat) : Int)) (by push_cast; push_cast at c1; omega) (by push_cast; omega)]; simp

/-- forward_central_backward: zero at EVERY grid point (sizes ≥ 2). -/
theorem second_affine_fcb (sz : Fin D → Nat) (hsz : ∀ d, 2 ≤ sz d) (s h : Fin D → K) (c : K)
    (hh : ∀ d, h d ≠ 0) (a b : Fin D) (idx : Idx D) (hb : ∀ d, 0 ≤ idx d ∧ idx d < (sz d : Int)) :
    sdStep .fcb sz h b (sdStep .fcb sz h a (affField s h c)) idx = 0 := by
  rw [sdStep_noavg .fcb rfl]
  simp only [SDMode.fdMode]
  apply fcb_inrange_const (sz b) (hsz b) (h b) _ (s a) _ (idx b) (hb b).1 (hb b).2
  intro j hj0 hj1
  apply C12_fd_affine_forward_central_backward sz s h c a (hh a) (hsz a)
  · by_cases e : a = b
    · subst e; simpa using hj0
    · rw [setIdx_ne idx j e]; exact (hb a).1
  · by_cases e : a = b
    · subst e; simpa using hj1
    · rw [setIdx_ne idx j e]; exact (hb a).2


/-! ### the B-spline back end is linear -/

theorem bsplineAxis_lin (s : Nat) (w : Nat → Nat → K) (c : K) (f g : Int → K) (k : Int) :
    bsplineAxis s w (fun i => c * f i + g i) k = c * bsplineAxis s w f k + bsplineAxis s w g k := by
  simp only [bsplineAxis]; ring

theorem bsplineFold_lin (stride : Fin D → Nat) (wts : Fin D → Nat → Nat → Nat → K) (key : DKey D) (c : K)
    (l : List (Fin D)) (F G : Arr D K) :
    l.foldl (fun R d => alongAxis d (bsplineAxis (stride d) (wts d (keyOrder key d))) R) (fun i => c * F i + G i)
      = fun i => c * l.foldl (fun R d => alongAxis d (bsplineAxis (stride d) (wts d (keyOrder key d))) R) F i
          + l.foldl (fun R d => alongAxis d (bsplineAxis (stride d) (wts d (keyOrder key d))) R) G i := by
  induction l generalizing F G with
  | nil => rfl
  | cons d l ih =>
    simp only [List.foldl_cons]
    have : alongAxis d (bsplineAxis (stride d) (wts d (keyOrder key d))) (fun i => c * F i + G i)
        = fun i => c * alongAxis d (bsplineAxis (stride d) (wts d (keyOrder key d))) F i
            + alongAxis d (bsplineAxis (stride d) (wts d (keyOrder key d))) G i := by
      funext idx
      simp only [alongAxis]
      exact bsplineAxis_lin _ _ c _ _ _
    rw [this]
    exact ih _ _

/-- mode='bspline' (any strides, weight tables, spacing row) is a linear back end. -/
theorem bsplineBackend_linear (stride : Fin D → Nat) (wts : Fin D → Nat → Nat → Nat → K) (sp : Fin D → K) :
    (Backend.bspline (bsplineDeriv stride wts sp) : Backend D (Arr D K)).Linear := by
  intro k c F G
  show bsplineDeriv stride wts sp k (fun i => c * F i + G i)
    = fun i => c * bsplineDeriv stride wts sp k F i + bsplineDeriv stride wts sp k G i
  unfold bsplineDeriv
  simp only [bsplineFold_lin]
  split_ifs
  · funext idx; ring
  · rfl

end Reg
end Deepali
