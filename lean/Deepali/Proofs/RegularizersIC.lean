/-
  Proofs/RegularizersIC.lean — inverse_consistency_loss: the error of exact inverse pairs of affine
  maps (matrix / sampled flow, either operand) vanishes; all-zero errors give a zero loss in every
  unit; the unit factors as coded.
-/
import Deepali.Proofs.RegularizersWrap
import Deepali.Proofs.FlowAffine
import Deepali.Proofs.GridMaps

set_option linter.unusedSectionVars false

namespace Deepali
namespace Reg
open FD Loss Matrix
variable {K : Type} [Field K] [LinearOrder K] [IsStrictOrderedRing K] [FloorRing K] {d : Nat}

/-- two flow fields: the error is `compose_flows(forward, inverse)`. -/
theorem icError_flow_flow (ac : Bool) (n : Fin d → Nat) (u v : VField d K) (idx : Fin d → Int) :
    icError ac n (.flow u) (.flow v) idx = composeFlows ac n u v idx := by
  funext c
  simp only [icError, transformGrid, transformPoints, composeFlows, Vec.add, Vec.sub]
  ring

/-- matrix / matrix: pure algebra, no sampling. -/
theorem icError_lin_lin (ac : Bool) (n : Fin d → Nat) (f g : H d K) (hinv : ∀ x, g.apply (f.apply x) = x)
    (idx : Fin d → Int) : icError ac n (.lin f) (.lin g) idx = fun _ => 0 := by
  funext c
  simp only [icError, transformGrid, transformPoints, hinv, Vec.sub, sub_self]

/-- flow / flow: sampled displacements of affine maps `φ`, `ψ` with `ψ ∘ φ = id`, `φ` keeping the
    lattice in the sample hull. -/
theorem icError_flow_flow_affine (ac : Bool) (n : Fin d → Nat) (h2 : ∀ i, 2 ≤ n i)
    (Mu Mv : Mat d K) (tu tv : Vec d K) (u v : VField d K)
    (hu : ∀ idx, InBox n idx → u idx = dispOf (affMap Mu tu) (latticePoint ac n idx))
    (hv : ∀ idx, InBox n idx → v idx = dispOf (affMap Mv tv) (latticePoint ac n idx))
    (hull : ∀ idx, InBox n idx → InHull ac n (affMap Mu tu (latticePoint ac n idx)))
    (hinv : ∀ x, affMap Mv tv (affMap Mu tu x) = x)
    (idx : Fin d → Int) (hb : InBox n idx) : icError ac n (.flow u) (.flow v) idx = fun _ => 0 := by
  rw [icError_flow_flow, composeFlows_affine ac n h2 Mu Mv tu tv u v hu hv hull idx hb]
  funext c
  simp only [dispOf, Function.comp, hinv, Vec.sub, sub_self]

/-- matrix forward, flow inverse. -/
theorem icError_lin_flow_affine (ac : Bool) (n : Fin d → Nat) (h2 : ∀ i, 2 ≤ n i)
    (f : H d K) (Mv : Mat d K) (tv : Vec d K) (v : VField d K)
    (hv : ∀ idx, InBox n idx → v idx = dispOf (affMap Mv tv) (latticePoint ac n idx))
    (hull : ∀ idx, InBox n idx → InHull ac n (f.apply (latticePoint ac n idx)))
    (hinv : ∀ x, affMap Mv tv (f.apply x) = x)
    (idx : Fin d → Int) (hb : InBox n idx) : icError ac n (.lin f) (.flow v) idx = fun _ => 0 := by
  have hs := sampleVField_affine ac .border n h2 _ tv v
    (fun idx hb => by rw [hv idx hb, dispOf_affMap]) _ (hull idx hb)
  funext c
  simp only [icError, transformGrid, transformPoints, hs]
  have := congrFun (hinv (latticePoint ac n idx)) c
  rw [← dispOf_affMap] 
  simp only [dispOf, Vec.add, Vec.sub] at this ⊢
  rw [← this]; ring

/-- flow forward, matrix inverse. -/
theorem icError_flow_lin_affine (ac : Bool) (n : Fin d → Nat) (Mu : Mat d K) (tu : Vec d K) (u : VField d K) (g : H d K)
    (hu : ∀ idx, InBox n idx → u idx = dispOf (affMap Mu tu) (latticePoint ac n idx))
    (hinv : ∀ x, g.apply (affMap Mu tu x) = x)
    (idx : Fin d → Int) (hb : InBox n idx) : icError ac n (.flow u) (.lin g) idx = fun _ => 0 := by
  have hp : (latticePoint ac n idx : Vec d K).add (u idx) = affMap Mu tu (latticePoint ac n idx) := by
    rw [hu idx hb]; simp only [dispOf, vadd_eq, vsub_eq]; abel
  funext c
  simp only [icError, transformGrid, transformPoints, hp, hinv, Vec.sub, sub_self]

/-! ### units -/

theorem denormalizeFlow_zero (ac : Bool) (n : Fin d → Nat) (s : K) : denormalizeFlow ac n s (fun _ => (0 : K)) = fun _ => 0 := by
  funext i
  simp only [denormalizeFlow, zero_mul, Nat.cast_zero, ite_self, zero_div]

theorem icScale_zero (units : Units) (ac : Bool) (n : Fin d → Nat) (spacing : Vec d K) :
    icScale units ac n spacing (fun _ => (0 : K)) = fun _ => 0 := by
  cases units
  · rfl
  · simp only [icScale, denormalizeFlow_zero]
  · funext i; simp only [icScale, denormalizeFlow_zero, Vec.mul, zero_mul]

/-- 'voxel': `e · (n − 1) / 2` (align_corners) resp. `e · n / 2` on every axis with more than one sample. -/
theorem icScale_voxel (ac : Bool) (n : Fin d → Nat) (h2 : ∀ i, 2 ≤ n i) (spacing e : Vec d K) :
    icScale .voxel ac n spacing e = fun i => e i * (if ac then (n i : K) - 1 else (n i : K)) / 2 := by
  funext i
  have h1 : 1 < n i := h2 i
  have h21 : ((2 : Nat) : K) ≠ ((1 : Nat) : K) := by push_cast; norm_num
  cases ac <;> simp only [icScale, denormalizeFlow, if_true, h1, ne_eq, h21, not_false_eq_true, Bool.false_eq_true, if_false] <;>
    push_cast <;> ring

theorem icScale_world (ac : Bool) (n : Fin d → Nat) (spacing e : Vec d K) :
    icScale .world ac n spacing e = (icScale .voxel ac n spacing e).mul spacing := rfl

/-! ### zero errors give a zero loss -/

theorem lsum_zero (l : List K) (h : ∀ v ∈ l, v = 0) : lsum l = 0 := by
  induction l with
  | nil => simp [lsum]
  | cons a l ih => simp [lsum, h a (by simp), ih (fun v hv => h v (by simp [hv]))]

theorem icErrMasked_zero (ac : Bool) (n : Fin d → Nat) (fwd inv : Transform d K) (mask : Option ((Fin d → Int) → K))
    (idx : Fin d → Int) (hz : icError ac n fwd inv idx = fun _ => 0) : icErrMasked ac n fwd inv mask idx = fun _ => 0 := by
  unfold icErrMasked
  cases mask with
  | none => exact hz
  | some mk =>
    simp only
    split_ifs
    · funext _; simp
    · exact hz

theorem icKept_sub (n : Fin d → Nat) (m : Option (Fin d → Nat)) (idx : Fin d → Int) (h : idx ∈ icKept n m) : idx ∈ icPoints n := by
  unfold icKept at h
  cases m with
  | none => exact h
  | some m => exact (List.mem_filter.mp h).1

theorem icVals_zero (sqrtF : K → K) (h0 : sqrtF 0 = 0) (ac : Bool) (n : Fin d → Nat) (spacing : Vec d K)
    (fwd inv : Transform d K) (mask : Option ((Fin d → Int) → K)) (units : Units) (kept : List (Fin d → Int))
    (hz : ∀ idx ∈ kept, icError ac n fwd inv idx = fun _ => 0) :
    ∀ v ∈ icVals sqrtF ac n spacing fwd inv mask units kept, v = 0 := by
  intro v hv
  unfold icVals at hv
  obtain ⟨idx, hidx, rfl⟩ := List.mem_map.mp hv
  simp only [icErrMasked_zero ac n fwd inv mask idx (hz idx hidx), icScale_zero, mul_zero, sumFin_eq, Finset.sum_const_zero, h0]

theorem icReduce_zero (red : Reduction) (mask : Option ((Fin d → Int) → K)) (kept : List (Fin d → Int)) (vals : List K)
    (hv : ∀ v ∈ vals, v = 0) (r : List K) (hr : icReduce red mask kept vals = .ok r) : ∀ v ∈ r, v = 0 := by
  unfold icReduce at hr
  cases red with
  | none => simp only [Except.ok.injEq] at hr; rw [← hr]; exact hv
  | mean =>
    simp only [lsum_zero vals hv, zero_div] at hr
    split_ifs at hr
    all_goals (simp only [Except.ok.injEq] at hr; rw [← hr]; simp)
  | sum =>
    simp only [lsum_zero vals hv, Except.ok.injEq] at hr
    rw [← hr]; simp

/-- if the error vector vanishes at every grid point, every value the loss returns is zero — for
    every unit, margin, mask and reduction (`sqrtF 0 = 0`). -/
theorem icLoss_zero (sqrtF : K → K) (h0 : sqrtF 0 = 0) (ac : Bool) (n : Fin d → Nat) (spacing : Vec d K)
    (fwd inv : Transform d K) (mask : Option ((Fin d → Int) → K)) (margin : Margin K) (units : Units) (red : Reduction)
    (hz : ∀ idx ∈ icPoints n, icError ac n fwd inv idx = fun _ => 0)
    (r : List K) (hr : icLoss sqrtF ac n spacing fwd inv mask margin units red = .ok r) : ∀ v ∈ r, v = 0 := by
  unfold icLoss at hr
  simp only [bind, Except.bind] at hr
  cases hm : icMargins n margin with
  | error e => rw [hm] at hr; exact absurd hr (by simp)
  | ok m =>
    rw [hm] at hr
    exact icReduce_zero red mask _ _
      (icVals_zero sqrtF h0 ac n spacing fwd inv mask units _ (fun idx hidx => hz idx (icKept_sub n m idx hidx))) r hr

end Reg
end Deepali
