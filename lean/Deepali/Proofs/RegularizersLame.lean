/-
  Proofs/RegularizersLame.lean — `lame_parameters`: every accepted pair of elastic constants derived
  from one (λ, μ) is mapped back to (λ, μ), branch by branch of the conversion table as coded.
-/
import Deepali.Proofs.RegularizersLaws
import Mathlib.Tactic.NormNum

set_option linter.unusedSectionVars false

namespace Deepali
namespace Reg
open FD Loss
variable {K : Type} [Field K] [LinearOrder K] [IsStrictOrderedRing K]

theorem lameTiny_pos : (0 : K) < lameTiny := by
  unfold lameTiny; push_cast; positivity

theorem lameClip_ok (name : String) (v : K) (h : lameTiny ≤ v) : lameClip name v = .ok v := by
  unfold lameClip
  have h0 : ¬ v < ((0 : Nat) : K) := by push_cast; exact not_lt.mpr (le_trans lameTiny_pos.le h)
  rw [if_neg h0, if_neg (not_lt.mpr h)]

theorem pyDiv_ok (a b : K) (h : b ≠ 0) : pyDiv a b = .ok (a / b) := by
  unfold pyDiv; rw [if_neg (by push_cast; exact h)]

/-- Poisson's ratio and Young's modulus of the material with Lamé parameters (λ, μ). -/
def poissonOf (l m : K) : K := l / (2 * (l + m))
def youngOf (l m : K) : K := m * (3 * l + 2 * m) / (l + m)

section
variable (sqrtF : K → K) (l m : K) (hl : lameTiny ≤ l) (hm : lameTiny ≤ m)
include hl hm

theorem lame_first_second : lameParameters sqrtF .none (some l) (some m) none none none = .ok (l, m) := by
  simp only [lameParameters, lameTable, List.filter, Option.isSome, List.length, Nat.reduceAdd, ne_eq,
    not_true_eq_false, reduceIte, bind, Except.bind, pure, Except.pure, lameClip_ok _ l hl, lameClip_ok _ m hm]

theorem lame_first_shear : lameParameters sqrtF .none (some l) none (some m) none none = .ok (l, m) := by
  simp only [lameParameters, lameTable, List.filter, Option.isSome, List.length, Nat.reduceAdd, ne_eq,
    not_true_eq_false, reduceIte, bind, Except.bind, pure, Except.pure, lameClip_ok _ l hl, lameClip_ok _ m hm]

theorem lame_first_poisson : lameParameters sqrtF .none (some l) none none (some (poissonOf l m)) none = .ok (l, m) := by
  have hl0 : 0 < l := lt_of_lt_of_le lameTiny_pos hl
  have hm0 : 0 < m := lt_of_lt_of_le lameTiny_pos hm
  unfold poissonOf
  have hd : ((2 : Nat) : K) * (l / (2 * (l + m))) ≠ 0 := by push_cast; positivity
  have hv : l * (((1 : Nat) : K) - ((2 : Nat) : K) * (l / (2 * (l + m)))) / (((2 : Nat) : K) * (l / (2 * (l + m)))) = m := by
    push_cast; field_simp; ring
  simp only [lameParameters, lameTable, List.filter, Option.isSome, List.length, Option.getD, Nat.reduceAdd, ne_eq,
    not_true_eq_false, reduceIte, pyDiv_ok _ _ hd, hv,
    bind, Except.bind, pure, Except.pure, lameClip_ok _ l hl, lameClip_ok _ m hm]

private theorem one_sub_two_nu (hl0 : 0 < l) (hm0 : 0 < m) :
    ((1 : Nat) : K) - ((2 : Nat) : K) * (l / (2 * (l + m))) = m / (l + m) := by
  push_cast; field_simp; ring

theorem lame_shear_poisson : lameParameters sqrtF .none none none (some m) (some (poissonOf l m)) none = .ok (l, m) := by
  have hl0 : 0 < l := lt_of_lt_of_le lameTiny_pos hl
  have hm0 : 0 < m := lt_of_lt_of_le lameTiny_pos hm
  unfold poissonOf
  have hd : ((1 : Nat) : K) - ((2 : Nat) : K) * (l / (2 * (l + m))) ≠ 0 := by
    rw [one_sub_two_nu l m hl hm hl0 hm0]; positivity
  have hv : ((2 : Nat) : K) * m * (l / (2 * (l + m))) / (((1 : Nat) : K) - ((2 : Nat) : K) * (l / (2 * (l + m)))) = l := by
    rw [one_sub_two_nu l m hl hm hl0 hm0]; push_cast; field_simp
  simp only [lameParameters, lameTable, List.filter, Option.isSome, List.length, Option.getD, Nat.reduceAdd, ne_eq,
    not_true_eq_false, reduceIte, pyDiv_ok _ _ hd, hv,
    bind, Except.bind, pure, Except.pure, lameClip_ok _ l hl, lameClip_ok _ m hm]

theorem lame_second_poisson : lameParameters sqrtF .none none (some m) none (some (poissonOf l m)) none = .ok (l, m) := by
  have hl0 : 0 < l := lt_of_lt_of_le lameTiny_pos hl
  have hm0 : 0 < m := lt_of_lt_of_le lameTiny_pos hm
  unfold poissonOf
  have hd : ((1 : Nat) : K) - ((2 : Nat) : K) * (l / (2 * (l + m))) ≠ 0 := by
    rw [one_sub_two_nu l m hl hm hl0 hm0]; positivity
  have hv : ((2 : Nat) : K) * m * (l / (2 * (l + m))) / (((1 : Nat) : K) - ((2 : Nat) : K) * (l / (2 * (l + m)))) = l := by
    rw [one_sub_two_nu l m hl hm hl0 hm0]; push_cast; field_simp
  simp only [lameParameters, lameTable, List.filter, Option.isSome, List.length, Option.getD, Nat.reduceAdd, ne_eq,
    not_true_eq_false, reduceIte, pyDiv_ok _ _ hd, hv,
    bind, Except.bind, pure, Except.pure, lameClip_ok _ l hl, lameClip_ok _ m hm]

private theorem three_g_sub_e (hl0 : 0 < l) (hm0 : 0 < m) :
    ((3 : Nat) : K) * m - m * (3 * l + 2 * m) / (l + m) = m * m / (l + m) := by
  push_cast; field_simp; ring

theorem lame_shear_young : lameParameters sqrtF .none none none (some m) none (some (youngOf l m)) = .ok (l, m) := by
  have hl0 : 0 < l := lt_of_lt_of_le lameTiny_pos hl
  have hm0 : 0 < m := lt_of_lt_of_le lameTiny_pos hm
  unfold youngOf
  have hd : ((3 : Nat) : K) * m - m * (3 * l + 2 * m) / (l + m) ≠ 0 := by
    rw [three_g_sub_e l m hl hm hl0 hm0]; positivity
  have hv : m * (m * (3 * l + 2 * m) / (l + m) - ((2 : Nat) : K) * m) / (((3 : Nat) : K) * m - m * (3 * l + 2 * m) / (l + m)) = l := by
    rw [three_g_sub_e l m hl hm hl0 hm0]; push_cast; field_simp; ring
  simp only [lameParameters, lameTable, List.filter, Option.isSome, List.length, Option.getD, Nat.reduceAdd, ne_eq,
    not_true_eq_false, reduceIte, pyDiv_ok _ _ hd, hv,
    bind, Except.bind, pure, Except.pure, lameClip_ok _ l hl, lameClip_ok _ m hm]

theorem lame_second_young : lameParameters sqrtF .none none (some m) none none (some (youngOf l m)) = .ok (l, m) := by
  have hl0 : 0 < l := lt_of_lt_of_le lameTiny_pos hl
  have hm0 : 0 < m := lt_of_lt_of_le lameTiny_pos hm
  unfold youngOf
  have hd : ((3 : Nat) : K) * m - m * (3 * l + 2 * m) / (l + m) ≠ 0 := by
    rw [three_g_sub_e l m hl hm hl0 hm0]; positivity
  have hv : m * (m * (3 * l + 2 * m) / (l + m) - ((2 : Nat) : K) * m) / (((3 : Nat) : K) * m - m * (3 * l + 2 * m) / (l + m)) = l := by
    rw [three_g_sub_e l m hl hm hl0 hm0]; push_cast; field_simp; ring
  simp only [lameParameters, lameTable, List.filter, Option.isSome, List.length, Option.getD, Nat.reduceAdd, ne_eq,
    not_true_eq_false, reduceIte, pyDiv_ok _ _ hd, hv,
    bind, Except.bind, pure, Except.pure, lameClip_ok _ l hl, lameClip_ok _ m hm]

end

/-- (ν, E) after fix 4eb1789: `λ = νE / ((1+ν)(1−2ν))`, `μ = E / (2(1+ν))`. -/
theorem lame_poisson_young (sqrtF : K → K) (l m : K) (hl : lameTiny ≤ l) (hm : lameTiny ≤ m) :
    lameParameters sqrtF .none none none none (some (poissonOf l m)) (some (youngOf l m)) = .ok (l, m) := by
  have hl0 : 0 < l := lt_of_lt_of_le lameTiny_pos hl
  have hm0 : 0 < m := lt_of_lt_of_le lameTiny_pos hm
  have hs : l + m ≠ 0 := by positivity
  unfold poissonOf youngOf
  have e1 : ((1 : Nat) : K) + l / (2 * (l + m)) = (3 * l + 2 * m) / (2 * (l + m)) := by push_cast; field_simp; ring
  have e2 : ((1 : Nat) : K) - ((2 : Nat) : K) * (l / (2 * (l + m))) = m / (l + m) := by push_cast; field_simp; ring
  have hd1 : (((1 : Nat) : K) + l / (2 * (l + m))) * (((1 : Nat) : K) - ((2 : Nat) : K) * (l / (2 * (l + m)))) ≠ 0 := by
    rw [e1, e2]; positivity
  have hd2 : ((2 : Nat) : K) * (((1 : Nat) : K) + l / (2 * (l + m))) ≠ 0 := by rw [e1]; push_cast; positivity
  have hv1 : l / (2 * (l + m)) * (m * (3 * l + 2 * m) / (l + m))
      / ((((1 : Nat) : K) + l / (2 * (l + m))) * (((1 : Nat) : K) - ((2 : Nat) : K) * (l / (2 * (l + m))))) = l := by
    rw [e1, e2]; field_simp
  have hv2 : m * (3 * l + 2 * m) / (l + m) / (((2 : Nat) : K) * (((1 : Nat) : K) + l / (2 * (l + m)))) = m := by
    rw [e1]; push_cast; field_simp
  simp only [lameParameters, lameTable, List.filter, Option.isSome, List.length, Option.getD, Nat.reduceAdd, ne_eq,
    not_true_eq_false, reduceIte, pyDiv_ok _ _ hd1, pyDiv_ok _ _ hd2, hv1, hv2,
    bind, Except.bind, pure, Except.pure, lameClip_ok _ l hl, lameClip_ok _ m hm]

/-- the (λ, E) formula `(E − 3λ + r)/4` with `r² = E² + 9λ² + 2Eλ`, `r ≥ 0` returns μ. -/
theorem lame_first_young_value (l m r : K) (hl : 0 < l) (hm : 0 < m)
    (hr : r * r = youngOf l m * youngOf l m + 9 * (l * l) + 2 * youngOf l m * l) (hr0 : 0 ≤ r) :
    (youngOf l m - 3 * l + r) / 4 = m := by
  have hs : l + m ≠ 0 := by positivity
  have hpos : 0 < 4 * m - youngOf l m + 3 * l := by
    have : 4 * m - youngOf l m + 3 * l = (3 * l * l + 4 * l * m + 2 * m * m) / (l + m) := by
      unfold youngOf; field_simp; ring
    rw [this]; positivity
  have hsq : r * r = (4 * m - youngOf l m + 3 * l) * (4 * m - youngOf l m + 3 * l) := by
    rw [hr]; unfold youngOf; field_simp; ring
  have : r = 4 * m - youngOf l m + 3 * l := by
    rcases mul_self_eq_mul_self_iff.mp hsq with e | e
    · exact e
    · linarith
  rw [this]; ring

/-- (λ, E) after fix eb24e6a; the square root is the value `r` with `r² = E² + 9λ² + 2Eλ`, `r ≥ 0`. -/
theorem lame_first_young (l m r : K) (hl : lameTiny ≤ l) (hm : lameTiny ≤ m)
    (hr : r * r = youngOf l m * youngOf l m + 9 * (l * l) + 2 * youngOf l m * l) (hr0 : 0 ≤ r) :
    lameParameters (fun _ => r) .none (some l) none none none (some (youngOf l m)) = .ok (l, m) := by
  have hl0 : 0 < l := lt_of_lt_of_le lameTiny_pos hl
  have hm0 : 0 < m := lt_of_lt_of_le lameTiny_pos hm
  have hv : (youngOf l m - ((3 : Nat) : K) * l + r) / ((4 : Nat) : K) = m := by
    have := lame_first_young_value l m r hl0 hm0 hr hr0
    push_cast; exact this
  simp only [lameParameters, lameTable, List.filter, Option.isSome, List.length, Nat.reduceAdd, ne_eq,
    not_true_eq_false, reduceIte, hv, bind, Except.bind, pure, Except.pure, lameClip_ok _ l hl, lameClip_ok _ m hm]

end Reg
end Deepali
