/-
  Proofs/RegularizersLaws.lean — laws of the regularisers at one grid point that follow from the
  closed forms of Proofs/Regularizers.lean: vanishing, sign, homogeneity in the derivative values.
-/
import Deepali.Proofs.RegularizersFD
import Deepali.Proofs.LossesBasic
import Mathlib.Algebra.Order.Field.Basic
import Mathlib.Algebra.Order.Ring.Abs
import Mathlib.Algebra.BigOperators.Group.List.Basic
import Mathlib.Tactic.Positivity

set_option linter.unusedSectionVars false

namespace Deepali
namespace Reg
open FD Loss

variable {K : Type} [Field K] {D : Nat} {A : Type}

/-! ### list helpers -/

theorem foldl_add_gen {β : Type} (g : β → K) (l : List β) (w0 : K) :
    l.foldl (fun w j => w + g j) w0 = w0 + (l.map g).sum := by
  induction l generalizing w0 with
  | nil => simp
  | cons a l ih => simp [ih, add_assoc]

theorem sum_map_zero {β : Type} (l : List β) (g : β → K) (h : ∀ x ∈ l, g x = 0) : (l.map g).sum = 0 := by
  apply List.sum_eq_zero
  intro x hx
  obtain ⟨y, hy, rfl⟩ := List.mem_map.mp hx
  exact h y hy

theorem sum_map_mul_left' {β : Type} (l : List β) (g : β → K) (c : K) : (l.map (fun x => c * g x)).sum = c * (l.map g).sum := by
  induction l with
  | nil => simp
  | cons a l ih => simp [ih, mul_add]

/-- second-order keys that occur in the bending dictionary are two letters long. -/
theorem bending_key_pair (key : FKey D) (h : key ∈ dedupFirst (bendingKeys D)) : ∃ a b, sortKey key.2 = [a, b] := by
  have hl := bendingKeys_len key ((mem_dedupFirst _ _).mp h)
  have hs : (sortKey key.2).length = 2 := by rw [length_sortKey, hl]
  match hk : sortKey key.2, hs with
  | [a, b], _ => exact ⟨a, b, rfl⟩

/-! ### vanishing -/

theorem bendingField_zero (hD : 0 < D) (ev : A → Arr D K) (be : Backend D A) (u : Fin D → A) (idx : Idx D)
    (hz : ∀ (i a b : Fin D), Hval ev be u idx i [a, b] = 0) : bendingField ev be u idx = some 0 := by
  rw [bendingField_eq hD]
  congr 1
  apply sum_map_zero
  intro key hkey
  obtain ⟨a, b, e⟩ := bending_key_pair key hkey
  rw [e, hz]
  simp [bendingTerm]

theorem curvatureField_zero (ev : A → Arr D K) (be : Backend D A) (u : Fin D → A) (idx : Idx D)
    (hz : ∀ (i j : Fin D), Hval ev be u idx i [j, j] = 0) : curvatureField ev be u idx = some 0 := by
  rw [curvatureField_eq]
  congr 1
  simp only [foldl_add_gen, hz, zero_add]
  rw [sum_map_zero _ _ (fun _ _ => rfl)]
  simp only [mul_zero]
  exact sum_map_zero _ _ (fun _ _ => rfl)

theorem divergenceField_zero (hD : 0 < D) (ev : A → Arr D K) (be : Backend D A) (u : Fin D → A) (idx : Idx D)
    (hz : ∀ (i j : Fin D), Hval ev be u idx i [j] = 0) : divergenceField ev be u idx = some 0 := by
  rw [divergenceField_eq hD]
  congr 1
  have : ((dedupFirst (divergenceKeys D)).map (fun key => Hval ev be u idx key.1 (sortKey key.2))).sum = 0 := by
    apply sum_map_zero
    intro key hkey
    have hk := divergenceKeys_ne key ((mem_dedupFirst _ _).mp hkey)
    have hmem := (mem_dedupFirst _ _).mp hkey
    unfold divergenceKeys at hmem
    simp only [List.mem_map, List.mem_finRange, true_and] at hmem
    obtain ⟨c, rfl⟩ := hmem
    exact hz c c
  rw [this, mul_zero]

theorem elasticityPt_zero [DecidableEq K] (lambd mu : K) : elasticityPt lambd mu (fun (_ _ : Fin D) => (0 : K)) = 0 := by
  unfold elasticityPt
  simp only [Nat.cast_zero, foldl_add_gen, add_zero, zero_mul, mul_zero, List.map_const', List.sum_replicate, smul_zero,
    ite_self, zero_add]
  split_ifs <;> simp [sum_map_zero]

theorem elasticityField_zero [DecidableEq K] (ev : A → Arr D K) (be : Backend D A) (lambd mu : K) (u : Fin D → A) (idx : Idx D)
    (hz : ∀ (i j : Fin D), Hval ev be u idx i [j] = 0) : elasticityField ev be lambd mu u idx = some 0 := by
  rw [elasticityField_eq]
  congr 1
  have : (fun i j => Hval ev be u idx i [j]) = fun (_ _ : Fin D) => (0 : K) := by funext i j; exact hz i j
  rw [this, elasticityPt_zero]

theorem gradPt_zero [LT K] [DecidableRel (α := K) (· < ·)] (hD : 0 < D) (p : PPow K) (q : QPow K)
    (hp : applyP p 0 = 0) (hq : applyQ q 0 = 0) : gradPt p q (fun (_ _ : Fin D) => (0 : K)) = some 0 := by
  unfold gradPt
  rw [accumulate_sum]
  · simp only [Option.map, Nat.cast_zero, foldl_add_gen, hp, zero_add]
    rw [sum_map_zero _ _ (fun _ _ => rfl)]
    simp only [List.map_const', List.sum_replicate, smul_zero, hq]
  · intro e
    have := List.map_eq_nil_iff.mp e
    have h0 : (⟨0, hD⟩ : Fin D) ∈ List.finRange D := List.mem_finRange _
    rw [this] at h0
    exact absurd h0 List.not_mem_nil

theorem gradField_zero [LT K] [DecidableRel (α := K) (· < ·)] (hD : 0 < D) (ev : A → Arr D K) (be : Backend D A)
    (p : PPow K) (q : QPow K) (hp : applyP p 0 = 0) (hq : applyQ q 0 = 0) (u : Fin D → A) (idx : Idx D)
    (hz : ∀ (i j : Fin D), Hval ev be u idx i [j] = 0) : gradField ev be p q u idx = some 0 := by
  rw [gradField_eq]
  have : (fun c j => Hval ev be u idx c [j]) = fun (_ _ : Fin D) => (0 : K) := by funext i j; exact hz i j
  rw [this, gradPt_zero hD p q hp hq]


/-! ### homogeneity: derivative values scaled by `c` scale the quadratic densities by `c²` -/

theorem bendingTerm_smul (key : FKey D) (c v : K) : bendingTerm key (c * v) = c * c * bendingTerm key v := by
  unfold bendingTerm; split_ifs <;> ring

theorem bendingField_smulH (hD : 0 < D) (ev : A → Arr D K) (be be' : Backend D A) (u u' : Fin D → A) (idx : Idx D) (c : K)
    (hH : ∀ (i a b : Fin D), Hval ev be' u' idx i [a, b] = c * Hval ev be u idx i [a, b]) :
    bendingField ev be' u' idx = (bendingField ev be u idx).map (fun v => c * c * v) := by
  rw [bendingField_eq hD, bendingField_eq hD]
  simp only [Option.map]
  congr 1
  rw [← sum_map_mul_left']
  congr 1
  apply List.map_congr_left
  intro key hkey
  obtain ⟨a, b, e⟩ := bending_key_pair key hkey
  rw [e, hH, bendingTerm_smul]

theorem curvatureField_smulH (ev : A → Arr D K) (be be' : Backend D A) (u u' : Fin D → A) (idx : Idx D) (c : K)
    (hH : ∀ (i j : Fin D), Hval ev be' u' idx i [j, j] = c * Hval ev be u idx i [j, j]) :
    curvatureField ev be' u' idx = (curvatureField ev be u idx).map (fun v => c * c * v) := by
  rw [curvatureField_eq, curvatureField_eq]
  simp only [Option.map, foldl_add_gen, hH, zero_add, sum_map_mul_left']
  congr 1
  rw [← sum_map_mul_left']
  congr 1
  apply List.map_congr_left
  intro i _
  ring

theorem divergenceField_smulH (hD : 0 < D) (ev : A → Arr D K) (be be' : Backend D A) (u u' : Fin D → A) (idx : Idx D) (c : K)
    (hH : ∀ (i j : Fin D), Hval ev be' u' idx i [j] = c * Hval ev be u idx i [j]) :
    divergenceField ev be' u' idx = (divergenceField ev be u idx).map (fun v => c * c * v) := by
  rw [divergenceField_eq hD, divergenceField_eq hD]
  simp only [Option.map]
  congr 1
  have : ((dedupFirst (divergenceKeys D)).map (fun key => Hval ev be' u' idx key.1 (sortKey key.2)))
      = (dedupFirst (divergenceKeys D)).map (fun key => c * Hval ev be u idx key.1 (sortKey key.2)) := by
    apply List.map_congr_left
    intro key hkey
    have hmem := (mem_dedupFirst _ _).mp hkey
    unfold divergenceKeys at hmem
    simp only [List.mem_map, List.mem_finRange, true_and] at hmem
    obtain ⟨k, rfl⟩ := hmem
    exact hH k k
  rw [this, sum_map_mul_left']
  ring

theorem elasticityPt_smul [DecidableEq K] (lambd mu c : K) (J : Fin D → Fin D → K) :
    elasticityPt lambd mu (fun i j => c * J i j) = c * c * elasticityPt lambd mu J := by
  unfold elasticityPt
  simp only [Nat.cast_zero, foldl_add_gen, zero_add, sum_map_mul_left']
  have e : ∀ (l : List (Fin D × Fin D)),
      (l.map (fun jk => (c * J jk.1 jk.2 + c * J jk.2 jk.1) * (c * J jk.1 jk.2 + c * J jk.2 jk.1) * (mu / ((4 : Nat) : K)))).sum
        = c * c * (l.map (fun jk => (J jk.1 jk.2 + J jk.2 jk.1) * (J jk.1 jk.2 + J jk.2 jk.1) * (mu / ((4 : Nat) : K)))).sum := by
    intro l
    rw [← sum_map_mul_left']
    congr 1
    apply List.map_congr_left
    intro jk _
    ring
  split_ifs <;> (try simp only [e]) <;> ring

theorem elasticityField_smulH [DecidableEq K] (ev : A → Arr D K) (be be' : Backend D A) (lambd mu : K) (u u' : Fin D → A)
    (idx : Idx D) (c : K) (hH : ∀ (i j : Fin D), Hval ev be' u' idx i [j] = c * Hval ev be u idx i [j]) :
    elasticityField ev be' lambd mu u' idx = (elasticityField ev be lambd mu u idx).map (fun v => c * c * v) := by
  rw [elasticityField_eq, elasticityField_eq]
  simp only [Option.map]
  congr 1
  have : (fun i j => Hval ev be' u' idx i [j]) = fun i j => c * Hval ev be u idx i [j] := by funext i j; exact hH i j
  rw [this, elasticityPt_smul]

theorem powNat_two (v : K) : powNat v 2 = v * v := by simp [powNat]

/-- diffusion density (`p = 2`, `q = 1`). -/
theorem gradPt_diffusion [LT K] [DecidableRel (α := K) (· < ·)] (hD : 0 < D) (g : Fin D → Fin D → K) :
    gradPt (.nat 2) (.nat 1) g = some (((List.finRange D).map (fun j => ((List.finRange D).map (fun c => g c j * g c j)).sum)).sum) := by
  unfold gradPt
  rw [accumulate_sum]
  · simp only [Option.map, applyQ, applyP, Nat.cast_zero, foldl_add_gen, zero_add, powNat_two]
    simp
  · intro e
    have := List.map_eq_nil_iff.mp e
    have h0 : (⟨0, hD⟩ : Fin D) ∈ List.finRange D := List.mem_finRange _
    rw [this] at h0
    exact absurd h0 List.not_mem_nil

theorem diffusionField_smulH [LT K] [DecidableRel (α := K) (· < ·)] (hD : 0 < D) (ev : A → Arr D K) (be be' : Backend D A)
    (u u' : Fin D → A) (idx : Idx D) (c : K)
    (hH : ∀ (i j : Fin D), Hval ev be' u' idx i [j] = c * Hval ev be u idx i [j]) :
    gradField ev be' (.nat 2) (.nat 1) u' idx = (gradField ev be (.nat 2) (.nat 1) u idx).map (fun v => c * c * v) := by
  rw [gradField_eq, gradField_eq, gradPt_diffusion hD, gradPt_diffusion hD]
  simp only [Option.map, hH]
  congr 1
  rw [← sum_map_mul_left']
  congr 1
  apply List.map_congr_left
  intro j _
  rw [← sum_map_mul_left']
  congr 1
  apply List.map_congr_left
  intro i _
  ring


/-! ### sign -/
section Ordered
variable [LinearOrder K] [IsStrictOrderedRing K]

theorem sum_map_nonneg {β : Type} (l : List β) (g : β → K) (h : ∀ x ∈ l, 0 ≤ g x) : 0 ≤ (l.map g).sum := by
  apply List.sum_nonneg
  intro x hx
  obtain ⟨y, hy, rfl⟩ := List.mem_map.mp hx
  exact h y hy

theorem bendingTerm_nonneg (key : FKey D) (v : K) : 0 ≤ bendingTerm key v := by
  unfold bendingTerm
  have := mul_self_nonneg v
  split_ifs
  · push_cast; linarith
  · exact this

theorem bendingField_nonneg (hD : 0 < D) (ev : A → Arr D K) (be : Backend D A) (u : Fin D → A) (idx : Idx D) :
    ∃ r, bendingField ev be u idx = some r ∧ 0 ≤ r :=
  ⟨_, bendingField_eq hD ev be u idx, sum_map_nonneg _ _ (fun key _ => bendingTerm_nonneg key _)⟩

theorem curvatureField_nonneg (ev : A → Arr D K) (be : Backend D A) (u : Fin D → A) (idx : Idx D) :
    ∃ r, curvatureField ev be u idx = some r ∧ 0 ≤ r := by
  refine ⟨_, curvatureField_eq ev be u idx, ?_⟩
  rw [foldl_add_gen, zero_add]
  exact sum_map_nonneg _ _ (fun i _ => mul_self_nonneg _)

theorem divergenceField_nonneg (hD : 0 < D) (ev : A → Arr D K) (be : Backend D A) (u : Fin D → A) (idx : Idx D) :
    ∃ r, divergenceField ev be u idx = some r ∧ 0 ≤ r :=
  ⟨_, divergenceField_eq hD ev be u idx, mul_self_nonneg _⟩

theorem elasticityPt_nonneg (lambd mu : K) (hl : 0 ≤ lambd) (hm : 0 ≤ mu) (J : Fin D → Fin D → K) :
    0 ≤ elasticityPt lambd mu J := by
  unfold elasticityPt
  simp only [Nat.cast_zero, foldl_add_gen, zero_add]
  have h1 : ∀ t : K, 0 ≤ t * t * (lambd / ((2 : Nat) : K)) := by
    intro t
    have : (0 : K) ≤ lambd / ((2 : Nat) : K) := by push_cast; positivity
    exact mul_nonneg (mul_self_nonneg t) this
  have h2 : ∀ (l : List (Fin D × Fin D)), 0 ≤ (l.map (fun jk =>
      (J jk.1 jk.2 + J jk.2 jk.1) * (J jk.1 jk.2 + J jk.2 jk.1) * (mu / ((4 : Nat) : K)))).sum := by
    intro l
    apply sum_map_nonneg
    intro jk _
    have : (0 : K) ≤ mu / ((4 : Nat) : K) := by push_cast; positivity
    exact mul_nonneg (mul_self_nonneg _) this
  split_ifs
  · exact add_nonneg (h1 _) (h2 _)
  · exact add_nonneg le_rfl (h2 _)
  · exact h1 _
  · exact le_rfl

theorem elasticityField_nonneg (ev : A → Arr D K) (be : Backend D A) (lambd mu : K) (hl : 0 ≤ lambd) (hm : 0 ≤ mu)
    (u : Fin D → A) (idx : Idx D) : ∃ r, elasticityField ev be lambd mu u idx = some r ∧ 0 ≤ r :=
  ⟨_, elasticityField_eq ev be lambd mu u idx, elasticityPt_nonneg lambd mu hl hm _⟩

theorem powNat_eq (v : K) (n : Nat) : powNat v n = v ^ n := by
  induction n with
  | zero => simp [powNat]
  | succ n ih => simp [powNat, ih, pow_succ]

theorem applyP_nat_nonneg (p : Nat) (hp : 1 ≤ p) (v : K) : 0 ≤ applyP (.nat p) v := by
  unfold applyP
  simp only
  split_ifs with h1 h0 h2
  · rw [absv_eq]; exact abs_nonneg v
  · rw [powNat_eq]; exact (Nat.even_iff.mpr h2).pow_nonneg v
  · rw [powNat_eq, absv_eq]; exact pow_nonneg (abs_nonneg v) p
  · omega

theorem applyQ_nat_nonneg (q : Nat) (v : K) (hv : 0 ≤ v) : 0 ≤ applyQ (.nat q) v := by
  unfold applyQ
  simp only
  split_ifs
  · rw [absv_eq]; exact abs_nonneg v
  · rw [powNat_eq]; exact pow_nonneg hv q
  · exact hv

theorem gradPt_nonneg (hD : 0 < D) (p : PPow K) (q : QPow K) (hp : ∀ v, 0 ≤ applyP p v) (hq : ∀ v, 0 ≤ v → 0 ≤ applyQ q v)
    (g : Fin D → Fin D → K) : ∃ r, gradPt p q g = some r ∧ 0 ≤ r := by
  unfold gradPt
  rw [accumulate_sum]
  · refine ⟨_, rfl, hq _ ?_⟩
    apply sum_map_nonneg
    intro j _
    rw [foldl_add_gen, Nat.cast_zero, zero_add]
    exact sum_map_nonneg _ _ (fun c _ => hp _)
  · intro e
    have := List.map_eq_nil_iff.mp e
    have h0 : (⟨0, hD⟩ : Fin D) ∈ List.finRange D := List.mem_finRange _
    rw [this] at h0
    exact absurd h0 List.not_mem_nil

theorem gradField_nonneg (hD : 0 < D) (ev : A → Arr D K) (be : Backend D A) (p : PPow K) (q : QPow K)
    (hp : ∀ v, 0 ≤ applyP p v) (hq : ∀ v, 0 ≤ v → 0 ≤ applyQ q v) (u : Fin D → A) (idx : Idx D) :
    ∃ r, gradField ev be p q u idx = some r ∧ 0 ≤ r := by
  rw [gradField_eq]; exact gradPt_nonneg hD p q hp hq _

/-- total-variation density (`p = 1`, `q = 1`). -/
theorem gradPt_tv (hD : 0 < D) (g : Fin D → Fin D → K) :
    gradPt (.nat 1) (.nat 1) g = some (((List.finRange D).map (fun j => ((List.finRange D).map (fun c => |g c j|)).sum)).sum) := by
  unfold gradPt
  rw [accumulate_sum]
  · simp only [Option.map, applyQ, applyP, Nat.cast_zero, foldl_add_gen, zero_add, absv_eq]
    simp
  · intro e
    have := List.map_eq_nil_iff.mp e
    have h0 : (⟨0, hD⟩ : Fin D) ∈ List.finRange D := List.mem_finRange _
    rw [this] at h0
    exact absurd h0 List.not_mem_nil

theorem tvField_smulH (hD : 0 < D) (ev : A → Arr D K) (be be' : Backend D A)
    (u u' : Fin D → A) (idx : Idx D) (c : K)
    (hH : ∀ (i j : Fin D), Hval ev be' u' idx i [j] = c * Hval ev be u idx i [j]) :
    gradField ev be' (.nat 1) (.nat 1) u' idx = (gradField ev be (.nat 1) (.nat 1) u idx).map (fun v => |c| * v) := by
  rw [gradField_eq, gradField_eq, gradPt_tv hD, gradPt_tv hD]
  simp only [Option.map, hH, abs_mul]
  congr 1
  rw [← sum_map_mul_left']
  congr 1
  apply List.map_congr_left
  intro j _
  rw [← sum_map_mul_left']

end Ordered

end Reg
end Deepali
