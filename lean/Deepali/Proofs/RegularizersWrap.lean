/-
  Proofs/RegularizersWrap.lean — the common frame of the regularisers (`regFinish`): reductions,
  scaling of all values, all-zero values; grid points of a box.
-/
import Deepali.Proofs.RegularizersLaws

set_option linter.unusedSectionVars false

namespace Deepali
namespace Reg
open FD Loss
variable {K : Type} [Field K] {D : Nat}

theorem getD_map_mul (vals : List K) (c : K) (i : Nat) : (vals.map (fun v => c * v)).getD i 0 = c * vals.getD i 0 := by
  simp only [List.getD, List.getElem?_map]
  cases vals[i]? <;> simp

theorem map_getD_range (vals : List K) (d : K) : (List.range vals.length).map (fun i => vals.getD i d) = vals := by
  apply List.ext_getElem (by simp)
  intro i h1 h2
  simp [List.getD, List.getElem?_eq_getElem h2]

theorem reduceVals_none (vals : List K) : reduceVals .none vals = vals := by
  unfold reduceVals reduceLoss
  simp only [Nat.cast_zero]
  exact map_getD_range vals 0

/-- 'sum' and 'mean' are the sum and the mean of 'none' (C16's `reduce_loss` theorem on the values). -/
theorem reduceVals_sum_mean (vals : List K) :
    reduceVals .sum vals = [lsum (reduceVals .none vals)] ∧
    reduceVals .mean vals = [lsum (reduceVals .none vals) / (((reduceVals .none vals).length : Nat) : K)] := by
  unfold reduceVals
  exact ⟨reduceLoss_sum _ _ _, reduceLoss_mean_nomask _ _⟩

theorem reduceVals_smul (red : Reduction) (c : K) (vals : List K) :
    reduceVals red (vals.map (fun v => c * v)) = (reduceVals red vals).map (fun v => c * v) := by
  unfold reduceVals
  simp only [List.length_map, Nat.cast_zero, getD_map_mul]
  cases red
  · simp only [reduceLoss, List.map_map]; rfl
  · simp only [reduceLoss, sumTo_mul_left, List.map_cons, List.map_nil, mul_div_assoc]
  · simp only [reduceLoss, sumTo_mul_left, List.map_cons, List.map_nil]

theorem reduceVals_zero (red : Reduction) (vals : List K) (h : ∀ v ∈ vals, v = 0) : ∀ v ∈ reduceVals red vals, v = 0 := by
  have hg : ∀ i, vals.getD i 0 = 0 := by
    intro i
    simp only [List.getD]
    cases hi : vals[i]? with
    | none => rfl
    | some v => exact h v (List.mem_of_getElem? hi)
  unfold reduceVals
  simp only [Nat.cast_zero, hg]
  cases red <;> simp [reduceLoss, sumTo_zero]

theorem mapM_id_map (g : K → K) (l : List (Option K)) : (l.map (Option.map g)).mapM id = (l.mapM id).map (List.map g) := by
  induction l with
  | nil => rfl
  | cons x l ih =>
    rw [List.map_cons, List.mapM_cons, List.mapM_cons, ih]
    cases x with
    | none => rfl
    | some v => cases l.mapM id <;> rfl

theorem flatMap_items_map (g : K → K) (pts : List (Idx D)) (items : List (Idx D → Option K)) :
    (items.map (fun f idx => (f idx).map g)).flatMap (fun f => pts.map f)
      = (items.flatMap (fun f => pts.map f)).map (Option.map g) := by
  induction items with
  | nil => rfl
  | cons f items ih => simp only [List.map_cons, List.flatMap_cons, List.map_append, ih, List.map_map]; rfl

/-- multiplying every per-point value of every batch item by `c` multiplies the loss by `c`, for
    every reduction (and with the final `·0.5`). -/
theorem regFinish_smul (red : Reduction) (half : Bool) (pts : List (Idx D)) (items : List (Idx D → Option K)) (c : K) :
    regFinish red half (.batch pts (items.map (fun f idx => (f idx).map (fun v => c * v))))
      = (regFinish red half (.batch pts items)).map (List.map (fun v => c * v)) := by
  unfold regFinish
  simp only [flatMap_items_map, mapM_id_map]
  cases (items.flatMap (fun f => pts.map f)).mapM id with
  | none => rfl
  | some vals =>
    simp only [Option.map, Except.map, reduceVals_smul]
    cases half
    · simp
    · simp only [if_true, List.map_map]
      congr 1
      apply List.map_congr_left
      intro v _
      simp only [Function.comp]
      ring

theorem mapM_id_some (l : List (Option K)) (vals : List K) (h : l = vals.map some) : l.mapM id = some vals := by
  subst h
  induction vals with
  | nil => rfl
  | cons v vals ih => rw [List.map_cons, List.mapM_cons, ih]; rfl

/-- if every per-point value of every item is `some 0`, the loss is 0 (a list of zeros for 'none'). -/
theorem regFinish_zero (red : Reduction) (half : Bool) (pts : List (Idx D)) (items : List (Idx D → Option K))
    (h : ∀ f ∈ items, ∀ idx ∈ pts, f idx = some 0) :
    ∃ r, regFinish red half (.batch pts items) = .ok r ∧ ∀ v ∈ r, v = 0 := by
  unfold regFinish
  have hl : items.flatMap (fun f => pts.map f) = (List.replicate (items.length * pts.length) (0 : K)).map some := by
    induction items with
    | nil => simp
    | cons f items ih =>
      have hf : pts.map f = (List.replicate pts.length (0 : K)).map some := by
        rw [List.map_replicate]
        apply List.eq_replicate_iff.mpr
        refine ⟨by simp, ?_⟩
        intro b hb
        obtain ⟨idx, hidx, rfl⟩ := List.mem_map.mp hb
        exact h f (by simp) idx hidx
      rw [List.flatMap_cons, hf, ih (fun g hg => h g (by simp [hg]))]
      rw [← List.map_append, List.replicate_append_replicate]
      congr 2
      simp only [List.length_cons]; ring
  simp only [mapM_id_some _ _ hl]
  have hz := reduceVals_zero red (List.replicate (items.length * pts.length) (0 : K)) (fun v hv => (List.mem_replicate.mp hv).2)
  cases half
  · exact ⟨_, rfl, by simpa using hz⟩
  · refine ⟨_, rfl, ?_⟩
    intro v hv
    simp only [if_true, List.mem_map] at hv
    obtain ⟨w, hw, rfl⟩ := hv
    rw [hz w hw, zero_mul]

theorem mapM_id_isSome (l : List (Option K)) (h : ∀ x ∈ l, x.isSome) : ∃ vals, l.mapM id = some vals := by
  induction l with
  | nil => exact ⟨[], rfl⟩
  | cons x l ih =>
    obtain ⟨vals, hv⟩ := ih (fun y hy => h y (by simp [hy]))
    have hx := h x (by simp)
    obtain ⟨v, rfl⟩ := Option.isSome_iff_exists.mp hx
    exact ⟨v :: vals, by rw [List.mapM_cons, hv]; rfl⟩

/-- the loss has a value (no KeyError) whenever every item has a value at every output point. -/
theorem regFinish_ok (red : Reduction) (half : Bool) (pts : List (Idx D)) (items : List (Idx D → Option K))
    (h : ∀ f ∈ items, ∀ idx ∈ pts, (f idx).isSome) : ∃ r, regFinish red half (.batch pts items) = .ok r := by
  unfold regFinish
  obtain ⟨vals, hv⟩ := mapM_id_isSome (items.flatMap (fun f => pts.map f)) (by
    intro x hx
    obtain ⟨f, hf, hxf⟩ := List.mem_flatMap.mp hx
    obtain ⟨idx, hidx, rfl⟩ := List.mem_map.mp hxf
    exact h f hf idx hidx)
  simp only [hv]
  exact ⟨_, rfl⟩

/-! ### grid points of a box -/

theorem boxPoints_inBox (sz : Fin D → Nat) (hsz : ∀ d, 0 < sz d) (idx : Idx D) (h : idx ∈ boxPoints sz) :
    ∀ d, 0 ≤ idx d ∧ idx d < (sz d : Int) := by
  unfold boxPoints at h
  obtain ⟨lin, _, rfl⟩ := List.mem_map.mp h
  intro d
  constructor
  · exact Int.natCast_nonneg _
  · show ((lin / strideOf sz d % sz d : Nat) : Int) < (sz d : Int)
    exact_mod_cast Nat.mod_lt _ (hsz d)

end Reg
end Deepali
