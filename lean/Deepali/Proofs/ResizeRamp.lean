/-
  Proofs/ResizeRamp.lean — `grid_resize` (F.interpolate) followed by `Grid.resize` keeps
  world-linear images world-linear: the source index `F.interpolate` uses for output sample `j`
  is the index, in the old grid, of the world position the resized grid assigns to `j`.
-/
import Deepali.Proofs.Ramp
import Deepali.Proofs.GridOps

set_option linter.unusedSectionVars false

namespace Deepali
open Matrix
variable {K : Type} [Field K] [LinearOrder K] [IsStrictOrderedRing K] [FloorRing K] {d : Nat}

/-- index → world written around the centre. -/
theorem fromGrid_world_center (g : Grid d K) (hpos : ∀ i, 0 < g.size i) (y : Vec d K) :
    fromGrid g .world y
      = g.center + g.direction.mulVec (fun i => g.spacing i * (y i - (g.sizeTensor i - 1) / 2)) := by
  simp only [fromGrid, vadd_eq]
  rw [origin_eq g hpos, affine_mulVec]
  have : (fun i => g.spacing i * (y i - (g.sizeTensor i - 1) / 2))
      = (fun i => g.spacing i * y i) - (fun i => cubeExt true g i / 2) := by
    funext i; simp only [Pi.sub_apply, cubeExt, if_true]; ring
  rw [this, mulVec_eq, mulVec_eq, mulVec_eq, Matrix.mulVec_sub]
  abel

/-- **coordinate identity of resizing**: for the grid `g' = g.resize m ac` and every output index `j`,
    `world_{g'}(j) = world_g(src)` where `src` is the un-clamped source index of `F.interpolate`. -/
theorem resize_world_identity (g : Grid d K) (n m : Fin d → Nat) (ac : Bool) (hn : g.HasSize n)
    (hsz : g.size = fun i => ((n i : Nat) : K)) (hn2 : ∀ i, 2 ≤ n i) (hm2 : ∀ i, 2 ≤ m i) (hne : ∃ i, m i ≠ n i)
    (j : Vec d K) :
    fromGrid (g.resize m (some ac)) .world j
      = fromGrid g .world (fun i =>
          if ac then j i * (((n i : Nat) : K) - 1) / (((m i : Nat) : K) - 1)
          else (j i + 1 / 2) * ((n i : Nat) : K) / ((m i : Nat) : K) - 1 / 2) := by
  have hpos : ∀ i, 0 < g.size i := by
    intro i; rw [hsz]; have : (2 : K) ≤ ((n i : Nat) : K) := by exact_mod_cast hn2 i
    show (0 : K) < ((n i : Nat) : K); linarith
  have hnot : ¬ ∀ i, (fun i => ((m i : Nat) : K)) i = g.size i := by
    obtain ⟨i, hi⟩ := hne
    intro hall; apply hi
    have := hall i; rw [hsz] at this
    have h2 : ((m i : Nat) : K) = ((n i : Nat) : K) := this
    exact_mod_cast h2
  have hres : g.resize m (some ac) = resizedGrid g (fun i => ((m i : Nat) : K)) ac := by
    rcases resizeCore_cases g (fun i => ((m i : Nat) : K)) (some ac) with ⟨h, _⟩ | ⟨_, e⟩
    · exact absurd h hnot
    · simpa [Grid.resize, effAc] using e
  have hpos' : ∀ i, 0 < (resizedGrid g (fun i => ((m i : Nat) : K)) ac).size i := by
    intro i; show (0 : K) < ((m i : Nat) : K)
    have : (2 : K) ≤ ((m i : Nat) : K) := by exact_mod_cast hm2 i
    linarith
  rw [hres, fromGrid_world_center _ hpos', fromGrid_world_center g hpos]
  show g.center + g.direction.mulVec _ = g.center + g.direction.mulVec _
  congr 2
  funext i
  have hnK : (2 : K) ≤ ((n i : Nat) : K) := by exact_mod_cast hn2 i
  have hmK : (2 : K) ≤ ((m i : Nat) : K) := by exact_mod_cast hm2 i
  have hm0 : ((m i : Nat) : K) ≠ 0 := by intro e; rw [e] at hmK; linarith
  have hm1 : ((m i : Nat) : K) - 1 ≠ 0 := by intro e; linarith
  have hsT : (resizedGrid g (fun i => ((m i : Nat) : K)) ac).sizeTensor i = ((m i : Nat) : K) := by
    rw [resizedGrid_sizeTensor, roundSize_natCast]
  have hsp : (resizedGrid g (fun i => ((m i : Nat) : K)) ac).spacing i
      = if ac then (g.extent i - g.spacing i) / (((m i : Nat) : K) - 1) else g.extent i / ((m i : Nat) : K) := by
    simp only [resizedGrid, if_pos (hpos i), roundSize_natCast]
  have hext : g.extent i = g.spacing i * ((n i : Nat) : K) := by
    rw [extent_eq]; simp only [cubeExt, Bool.false_eq_true, if_false, hn i]
  rw [hsT, hsp, hn i, hext]
  cases ac <;> simp only [Bool.false_eq_true, if_false, if_true] <;> field_simp <;> ring

/-- on the sample hull the border-replicating extension used by `F.interpolate` is invisible. -/
theorem interpLin_extBorder_inside {d : Nat} (size : Fin d → Nat) (img : (Fin d → Int) → K) (x : Fin d → K)
    (hx : ∀ i, 0 ≤ x i ∧ x i ≤ ((size i : Nat) : K) - 1) :
    interpLin d (extBorder size img) x = interpLin d img x := by
  apply interpLin_congr
  intro idx h
  have hb := usedCorner_inBounds size x hx idx h
  simp only [extBorder]
  congr 1; funext i
  have := hb i
  simp only [clampIdx]; omega

end Deepali
