/-
  Proofs/Rounding.lean — facts about the model's integer rounding primitives.
-/
import Deepali.Proofs.GridMaps
import Mathlib.Data.Rat.Floor
import Mathlib.Tactic.Linarith
import Mathlib.Tactic.NormNum
import Mathlib.Tactic.Positivity
import Mathlib.Algebra.Order.Field.Basic

namespace Deepali

/-- the `Rat` instance the driver executes is the `K := ℚ` instance the theorems are about. -/
theorem ratInstance_agrees : (instHasFloorRat : HasFloor ℚ) = instHasFloorK := by
  have h1 : Rat.floor = (Int.floor : ℚ → ℤ) := rfl
  have h2 : Rat.ceil = (Int.ceil : ℚ → ℤ) := by
    funext q; rw [Rat.ceil_eq_neg_floor_neg]; rfl
  unfold instHasFloorRat instHasFloorK; rw [h1, h2]

theorem roundHalfEven_bound (x : ℚ) : |((roundHalfEven x : ℤ) : ℚ) - x| ≤ 1 / 2 := by
  have hf : x.floor = ⌊x⌋ := rfl
  have h1 := Int.floor_le x
  have h2 := Int.lt_floor_add_one x
  unfold roundHalfEven
  simp only [hf]
  rw [abs_le]
  split_ifs with ha hb hc <;> push_cast <;> constructor <;> linarith

end Deepali
