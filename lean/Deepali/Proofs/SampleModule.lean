/-
  Proofs/SampleModule.lean — the coordinate pipeline of the module entry points
  `AlignImage` / `TransformImage` (identity transform) for every choice of `axes`:
  `Grid.points(axes)` is the GRID → `axes` map of the indices, and the precomputed matrix takes
  it to the source cube of the TARGET's `align_corners` convention.
-/
import Deepali.Proofs.SamplePipe

set_option linter.unusedSectionVars false

namespace Deepali
open Matrix
variable {K : Type} [Field K] [LinearOrder K] [IsStrictOrderedRing K] [FloorRing K] {d : Nat}

/-- `Grid.points(axes)` evaluated at index `j` is `j` expressed w.r.t. `axes` — for every `axes`,
    whatever the grid's own `align_corners` flag. -/
theorem pointAt_eq_fromGrid {g : Grid d K} {n : Fin d → Nat} (hg : g.Valid) (hn : g.HasSize n)
    (h2 : ∀ i, 2 ≤ n i) (axes : Axes) (j : Vec d K) :
    g.pointAt n axes j = fromGrid g axes j := by
  have hc : ∀ a, g.CornersOK a := hn.cornersOK h2
  cases axes with
  | grid => simp [Grid.pointAt, fromGrid]
  | cube =>
      simp only [Grid.pointAt, if_true, true_or]
      funext i; exact coordAt_eq_fromGrid hn h2 false j i
  | cubeCorners =>
      have e : g.pointAt n .cubeCorners j = g.applyTransform .grid .cubeCorners false j := by
        simp [Grid.pointAt]
      rw [e, applyTransform_eq hg _ _ (hc _) (hc _)]; rfl
  | world =>
      have e : g.pointAt n .world j = g.applyTransform .grid .world false j := by
        simp [Grid.pointAt]
      rw [e, applyTransform_eq hg _ _ (hc _) (hc _)]; rfl

/-- the precomputed target → source matrix, factored through the two index spaces. -/
theorem moduleMapPoint_eq {src tgt : Grid d K} {srcN tgtN : Fin d → Nat} (hs : src.Valid) (ht : tgt.Valid)
    (hsn : src.HasSize srcN) (htn : tgt.HasSize tgtN) (hs2 : ∀ i, 2 ≤ srcN i) (ht2 : ∀ i, 2 ≤ tgtN i)
    (axes : Axes) (p : Vec d K) :
    moduleMapPoint src tgt axes p
      = fromGrid src (Axes.fromAlignCorners tgt.alignCorners)
          (toGrid src .world (fromGrid tgt .world (toGrid tgt axes p))) := by
  simp only [moduleMapPoint]
  rw [applyTransformTo_eq ht hs _ _ (htn.cornersOK ht2 _) (hsn.cornersOK hs2 _)]

/-- the same-grid branch of the matrix (`source` is `None` or equal to `target`). -/
theorem moduleMapPointSame_eq {tgt : Grid d K} {tgtN : Fin d → Nat} (ht : tgt.Valid)
    (htn : tgt.HasSize tgtN) (ht2 : ∀ i, 2 ≤ tgtN i) (axes : Axes) (p : Vec d K) :
    moduleMapPointSame tgt axes p
      = fromGrid tgt (Axes.fromAlignCorners tgt.alignCorners) (toGrid tgt axes p) := by
  simp only [moduleMapPointSame, H.applyAs, Bool.false_eq_true, if_false]
  exact transform_apply ht _ _ (htn.cornersOK ht2 _) (htn.cornersOK ht2 _) p

/-- **module coordinate pipeline**: un-normalising with the TARGET's flag on the SOURCE's size
    gives world→index of the source applied to index→world of the target, for every `axes`. -/
theorem moduleSampleCoord_unnormalized {src tgt : Grid d K} {srcN tgtN : Fin d → Nat} (hs : src.Valid)
    (ht : tgt.Valid) (hsn : src.HasSize srcN) (htn : tgt.HasSize tgtN) (hs2 : ∀ i, 2 ≤ srcN i)
    (ht2 : ∀ i, 2 ≤ tgtN i) (axes : Axes) (j : Vec d K) (i : Fin d) :
    unnormalize tgt.alignCorners ((srcN i : Nat) : K) (moduleSampleCoord src tgt tgtN axes j i)
      = toGrid src .world (fromGrid tgt .world j) i := by
  rw [unnormalize_eq_toGrid hsn]
  simp only [moduleSampleCoord]
  rw [moduleMapPoint_eq hs ht hsn htn hs2 ht2, pointAt_eq_fromGrid ht htn ht2,
    toGrid_fromGrid ht _ (htn.cornersOK ht2 _), toGrid_fromGrid hs _ (hsn.cornersOK hs2 _)]

/-- the same-grid branch gives the same coordinates as the two-grid branch with `src = tgt`. -/
theorem moduleSampleCoordSame_eq {tgt : Grid d K} {tgtN : Fin d → Nat} (ht : tgt.Valid)
    (htn : tgt.HasSize tgtN) (ht2 : ∀ i, 2 ≤ tgtN i) (axes : Axes) (j : Vec d K) :
    moduleSampleCoordSame tgt tgtN axes j = moduleSampleCoord tgt tgt tgtN axes j := by
  have hw : tgt.CornersOK .world := fun hc => by cases hc
  simp only [moduleSampleCoordSame, moduleSampleCoord]
  rw [moduleMapPointSame_eq ht htn ht2, moduleMapPoint_eq ht ht htn htn ht2 ht2,
    toGrid_fromGrid ht .world hw]

end Deepali
