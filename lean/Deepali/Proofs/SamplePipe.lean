/-
  Proofs/SamplePipe.lean — the coordinate pipeline of `ImageBatch.sample` and its relation to
  the ITK index/physical maps.
-/
import Deepali.Model.Sample
import Deepali.Proofs.Interp
import Mathlib.Tactic.FieldSimp

set_option linter.unusedSectionVars false

namespace Deepali
open Matrix
variable {K : Type} [Field K] [LinearOrder K] [IsStrictOrderedRing K] [FloorRing K] {d : Nat}

/-- the grid has integral size `n`. -/
def Grid.HasSize (g : Grid d K) (n : Fin d → Nat) : Prop := ∀ i, g.sizeTensor i = ((n i : Nat) : K)

theorem Grid.HasSize.cornersOK {g : Grid d K} {n : Fin d → Nat} (h : g.HasSize n) (h2 : ∀ i, 2 ≤ n i)
    (a : Axes) : g.CornersOK a := by
  intro _ i; rw [h i]
  have : (2 : K) ≤ ((n i : Nat) : K) := by exact_mod_cast h2 i
  intro e; rw [e] at this; linarith

theorem Grid.HasSize.size_ne {g : Grid d K} {n : Fin d → Nat} (h : g.HasSize n) (h1 : ∀ i, 1 ≤ n i) :
    ∀ i, g.sizeTensor i ≠ 0 := by
  intro i; rw [h i]
  have : (1 : K) ≤ ((n i : Nat) : K) := by exact_mod_cast h1 i
  intro e; rw [e] at this; linarith

/-- `F.grid_sample`'s un-normalisation is the grid's own CUBE(_CORNERS) → GRID map. -/
theorem unnormalize_eq_toGrid {g : Grid d K} {n : Fin d → Nat} (h : g.HasSize n) (ac : Bool) (p : Vec d K)
    (i : Fin d) : unnormalize ac ((n i : Nat) : K) (p i) = toGrid g (Axes.fromAlignCorners ac) p i := by
  cases ac <;> simp only [unnormalize, Axes.fromAlignCorners, toGrid, h i, Bool.false_eq_true, if_false, if_true,
    Nat.cast_one, Nat.cast_ofNat] <;> ring

/-- the lattice `Grid.coords` reports is the GRID → CUBE(_CORNERS) map of the indices. -/
theorem coordAt_eq_fromGrid {g : Grid d K} {n : Fin d → Nat} (h : g.HasSize n) (h2 : ∀ i, 2 ≤ n i) (ac : Bool)
    (j : Vec d K) (i : Fin d) :
    coordAt (n i) ac (j i) = fromGrid g (Axes.fromAlignCorners ac) j i := by
  have hn1 : n i ≠ 1 := by have := h2 i; omega
  have h2' : (2 : K) ≤ ((n i : Nat) : K) := by exact_mod_cast h2 i
  have h0 : ((n i : Nat) : K) ≠ 0 := by intro e; rw [e] at h2'; linarith
  have h1 : ((n i : Nat) : K) - 1 ≠ 0 := by intro e; linarith
  cases ac <;> simp only [coordAt, hn1, Axes.fromAlignCorners, fromGrid, h i, Bool.false_eq_true, if_false, if_true,
    Nat.cast_one, Nat.cast_ofNat] <;> field_simp <;> ring

/-- **the coordinate pipeline**: the continuous source index `grid_sample` ends up with is
    world→index of the source applied to index→world of the target. -/
theorem sampleCoord_unnormalized {src tgt : Grid d K} {srcN tgtN : Fin d → Nat} (hs : src.Valid) (ht : tgt.Valid)
    (hsn : src.HasSize srcN) (htn : tgt.HasSize tgtN) (hs2 : ∀ i, 2 ≤ srcN i) (ht2 : ∀ i, 2 ≤ tgtN i)
    (j : Vec d K) (i : Fin d) :
    unnormalize src.alignCorners ((srcN i : Nat) : K) (sampleCoord src tgt tgtN j i)
      = toGrid src .world (fromGrid tgt .world j) i := by
  rw [unnormalize_eq_toGrid hsn]
  have hp : (fun i => coordAt (tgtN i) src.alignCorners (j i))
      = fromGrid tgt (Axes.fromAlignCorners src.alignCorners) j := by
    funext i; exact coordAt_eq_fromGrid htn ht2 _ j i
  simp only [sampleCoord, hp]
  rw [applyTransformTo_eq ht hs _ _ (htn.cornersOK ht2 _) (hsn.cornersOK hs2 _),
    toGrid_fromGrid ht _ (htn.cornersOK ht2 _), toGrid_fromGrid hs _ (hsn.cornersOK hs2 _)]

/-- deepali's world→index / index→world maps are ITK's. -/
theorem toGrid_world_eq_itk (g : Grid d K) (x : Vec d K) :
    toGrid g .world x = Itk.physToIdx g.origin g.spacing g.direction x := by
  funext i
  simp only [toGrid, Itk.physToIdx, Grid.inverseAffine, mul_mulVec, diag_mulVec, Nat.cast_one]
  ring

theorem fromGrid_world_eq_itk (g : Grid d K) (j : Vec d K) :
    fromGrid g .world j = Itk.idxToPhys g.origin g.spacing g.direction j := by
  simp only [fromGrid, Itk.idxToPhys, Grid.affine, mul_mulVec, vadd_eq, diag_mulVec']
  rw [add_comm]; congr 2

/-- interpolation commutes with adding a constant to the image (weights sum to one). -/
theorem interpLin_add_const (d : Nat) (img : (Fin d → Int) → K) (c : K) (x : Fin d → K) :
    interpLin d (fun idx => img idx + c) x = interpLin d img x + c := by
  induction d with
  | zero => simp only [interpLin]
  | succ d ih =>
    rw [interpLin_succ, interpLin_succ]
    rw [ih (fun idx => img (consIdx ⌊x 0⌋ idx)), ih (fun idx => img (consIdx (⌊x 0⌋ + 1) idx))]
    ring

end Deepali
