/-
  Proofs/TransformState.lean — well-formedness invariant of the transform state machine and its
  preservation by every operation (helper lemmas for Props/C09.lean). Core Lean tactics only.
-/
import Deepali.Model.TransformState

set_option linter.unusedSectionVars false
set_option linter.unusedVariables false

namespace Deepali.TState

/-! ### per-object and world invariants -/

/-- what every object of a reachable world satisfies:
    * a transform whose `params` is callable (function, module, linked transform) has a buffer `p`;
    * instances of a family whose shared `_parameters` container holds the key `params` keep
      nothing under that name themselves;
    * the container id was allocated. -/
def SlotFine (s : Slot) : Prop := ∀ c, s ≠ .dict (.param c) ∧ s ≠ .mod (some (.param c))

structure ObjOK (w : World) (o : Obj) : Prop where
  hasP : (w.lookup o).callable = true → o.p.isSome = true
  famAbsent : w.pdicts o.pdict ≠ none → o.slot = .absent
  alloc : o.pdict < w.nDict
  /-- a Parameter is only ever held by the `_parameters` container -/
  slotFine : SlotFine o.slot

structure WF (w : World) : Prop where
  objs : ∀ id o, w.objs id = some o → ObjOK w o
  fresh : ∀ k, w.nDict ≤ k → w.pdicts k = none

theorem WF_empty : WF World.empty :=
  ⟨fun id o h => by simp [World.empty] at h, fun k _ => rfl⟩

/-! ### `lookup` only reads `pdicts` -/

theorem lookup_congr {w w' : World} (h : w'.pdicts = w.pdicts) (o : Obj) : w'.lookup o = w.lookup o := by
  unfold World.lookup; rw [h]

@[simp] theorem lookup_setObj (w : World) (id : Nat) (x o : Obj) : (w.setObj id x).lookup o = w.lookup o :=
  lookup_congr rfl o

@[simp] theorem lookup_addObj (w : World) (x o : Obj) : (w.addObj x).1.lookup o = w.lookup o :=
  lookup_congr rfl o

@[simp] theorem lookup_newCell (w : World) (c : Content) (sg : Nat) (o : Obj) :
    (w.newCell c sg).1.lookup o = w.lookup o :=
  lookup_congr rfl o

@[simp] theorem lookup_setCell (w : World) (k : Nat) (c : Content) (o : Obj) :
    (w.setCell k c).lookup o = w.lookup o :=
  lookup_congr rfl o

theorem lookup_congr_at {w w' : World} {o : Obj} (h : w'.pdicts o.pdict = w.pdicts o.pdict) :
    w'.lookup o = w.lookup o := by
  unfold World.lookup; rw [h]

theorem lookup_slot {w : World} {o o' : Obj} (hs : o'.slot = o.slot) (hp : o'.pdict = o.pdict) :
    w.lookup o' = w.lookup o := by
  unfold World.lookup; rw [hs, hp]

/-- with the key present in the shared container and nothing kept by the instance, `params` is a
    Parameter or None: never callable. -/
theorem lookup_not_callable_of_key {w : World} {o : Obj} (hk : w.pdicts o.pdict ≠ none)
    (hs : o.slot = .absent) : (w.lookup o).callable = false := by
  unfold World.lookup
  rw [hs]
  cases h : w.pdicts o.pdict with
  | none => exact absurd h hk
  | some e => cases e <;> rfl

/-! ### ObjOK transport -/

theorem ObjOK.congr {w w' : World} {o : Obj} (h : ObjOK w o) (hp : w'.pdicts = w.pdicts)
    (hn : w.nDict ≤ w'.nDict) : ObjOK w' o :=
  ⟨by rw [lookup_congr hp]; exact h.hasP, by rw [hp]; exact h.famAbsent, Nat.lt_of_lt_of_le h.alloc hn,
   h.slotFine⟩

theorem ObjOK.congrAt {w w' : World} {o : Obj} (h : ObjOK w o) (hp : w'.pdicts o.pdict = w.pdicts o.pdict)
    (hn : w.nDict ≤ w'.nDict) : ObjOK w' o :=
  ⟨by rw [lookup_congr_at hp]; exact h.hasP, by rw [hp]; exact h.famAbsent, Nat.lt_of_lt_of_le h.alloc hn,
   h.slotFine⟩

theorem ObjOK.fields {w : World} {o o' : Obj} (h : ObjOK w o) (hs : o'.slot = o.slot)
    (hp : o'.pdict = o.pdict) (hpp : o.p.isSome = true → o'.p.isSome = true) : ObjOK w o' :=
  ⟨by rw [lookup_slot hs hp]; exact fun hc => hpp (h.hasP hc), by rw [hs, hp]; exact h.famAbsent,
   by rw [hp]; exact h.alloc, by rw [hs]; exact h.slotFine⟩

/-- writing a key that is already present keeps every object fine. -/
theorem ObjOK.setPdict {w : World} {o : Obj} (h : ObjOK w o) {k : Nat} (hk : w.pdicts k ≠ none)
    (e : Option Nat) : ObjOK (w.setPdict k e) o := by
  refine ⟨?_, ?_, h.alloc, h.slotFine⟩
  · intro hc
    by_cases hkk : o.pdict = k
    · have hs := h.famAbsent (by rw [hkk]; exact hk)
      have : ((w.setPdict k e).lookup o).callable = false :=
        lookup_not_callable_of_key (by simp [World.setPdict, hkk]) hs
      rw [this] at hc; cases hc
    · have : (w.setPdict k e).lookup o = w.lookup o := by
        unfold World.lookup World.setPdict; simp [hkk]
      rw [this] at hc; exact h.hasP hc
  · intro hne
    apply h.famAbsent
    by_cases hkk : o.pdict = k
    · rw [hkk]; exact hk
    · simpa [World.setPdict, hkk] using hne

/-! ### WF transport for the primitive world updates -/

theorem WF.setObj {w : World} (h : WF w) (id : Nat) {o : Obj} (ho : ObjOK w o) : WF (w.setObj id o) := by
  refine ⟨?_, h.fresh⟩
  intro i x hx
  by_cases hi : i = id
  · simp [World.setObj, hi] at hx; subst hx; exact ho.congr rfl (Nat.le_refl _)
  · simp [World.setObj, hi] at hx; exact (h.objs i x hx).congr rfl (Nat.le_refl _)

theorem WF.addObj {w : World} (h : WF w) {o : Obj} (ho : ObjOK w o) : WF (w.addObj o).1 := by
  refine ⟨?_, h.fresh⟩
  intro i x hx
  by_cases hi : i = w.nObj
  · simp [World.addObj, hi] at hx; subst hx; exact ho.congr rfl (Nat.le_refl _)
  · simp [World.addObj, hi] at hx; exact (h.objs i x hx).congr rfl (Nat.le_refl _)

theorem WF.newCell {w : World} (h : WF w) (c : Content) (sg : Nat) : WF (w.newCell c sg).1 :=
  ⟨fun i x hx => (h.objs i x hx).congr rfl (Nat.le_refl _), h.fresh⟩

theorem WF.setCell {w : World} (h : WF w) (k : Nat) (c : Content) : WF (w.setCell k c) :=
  ⟨fun i x hx => (h.objs i x hx).congr rfl (Nat.le_refl _), h.fresh⟩

theorem WF.setPdict {w : World} (h : WF w) {k : Nat} (hk : w.pdicts k ≠ none) (e : Option Nat) :
    WF (w.setPdict k e) := by
  refine ⟨fun i x hx => (h.objs i x hx).setPdict hk e, ?_⟩
  intro j hj
  have hj : w.nDict ≤ j := hj
  have hkn : k < w.nDict := by
    apply Nat.lt_of_not_le; intro hle; exact hk (h.fresh k hle)
  have : j ≠ k := by omega
  simp [World.setPdict, this]; exact h.fresh j hj

theorem WF.delPdict {w : World} (h : WF w) (k : Nat) : WF (w.delPdict k) := by
  refine ⟨?_, ?_⟩
  · intro i x hx
    have ok := h.objs i x hx
    by_cases hk : x.pdict = k
    · refine ⟨?_, ?_, ok.alloc, ok.slotFine⟩
      · intro hc
        by_cases hpres : w.pdicts x.pdict = none
        · have : (w.delPdict k).lookup x = w.lookup x := by
            apply lookup_congr_at; simp [World.delPdict, hk]; rw [← hk]; exact hpres.symm
          rw [this] at hc; exact ok.hasP hc
        · have hs := ok.famAbsent hpres
          have : ((w.delPdict k).lookup x).callable = false := by
            unfold World.lookup World.delPdict; simp [hs, hk]; rfl
          rw [this] at hc; cases hc
      · intro hne; exfalso; apply hne; simp [World.delPdict, hk]
    · exact ok.congrAt (by simp [World.delPdict, hk]) (Nat.le_refl _)
  · intro j hj
    by_cases hjk : j = k
    · simp [World.delPdict, hjk]
    · simp [World.delPdict, hjk]; exact h.fresh j hj

theorem ObjOK.delPdict_self {w : World} {o : Obj} (h : ObjOK w o) : ObjOK (w.delPdict o.pdict) o := by
  refine ⟨?_, ?_, h.alloc, h.slotFine⟩
  · intro hc
    by_cases hpres : w.pdicts o.pdict = none
    · have : (w.delPdict o.pdict).lookup o = w.lookup o := by
        apply lookup_congr_at; simp [World.delPdict]; exact hpres.symm
      rw [this] at hc; exact h.hasP hc
    · have hs := h.famAbsent hpres
      have : ((w.delPdict o.pdict).lookup o).callable = false := by
        unfold World.lookup World.delPdict; simp [hs]; rfl
      rw [this] at hc; cases hc
  · intro hne; exfalso; apply hne; simp [World.delPdict]

/-- the world in which a shallow copy's new `_parameters` container has been allocated. -/
theorem copyRec_ok {w : World} (h : WF w) {o : Obj} (ho : ObjOK w o) :
    WF (w.copyDict o.pdict)
    ∧ ObjOK (w.copyDict o.pdict) (copyRec w o) := by
  refine ⟨⟨?_, ?_⟩, ?_⟩
  · intro i x hx
    have ok := h.objs i x hx
    have hne : x.pdict ≠ w.nDict := Nat.ne_of_lt ok.alloc
    exact ok.congrAt (by simp [World.copyDict, hne]) (Nat.le_succ _)
  · intro j hj
    have hj : w.nDict + 1 ≤ j := hj
    have hjn : j ≠ w.nDict := by omega
    simp [World.copyDict, hjn]; exact h.fresh j (by omega)
  · refine ⟨?_, ?_, Nat.lt_succ_self _, ho.slotFine⟩
    · intro hc
      have : World.lookup (w.copyDict o.pdict) (copyRec w o) = w.lookup o := by
        unfold World.lookup copyRec World.copyDict; simp
      rw [this] at hc; exact ho.hasP hc
    · intro hk; apply ho.famAbsent; simpa [copyRec, World.copyDict] using hk

theorem WF_copyObj {w : World} (h : WF w) {o : Obj} (ho : ObjOK w o) : WF (copyObj w o).1 := by
  obtain ⟨h1, h2⟩ := copyRec_ok h ho
  exact h1.addObj h2

theorem ObjOK_copyRec {w : World} (h : WF w) {o : Obj} (ho : ObjOK w o) : ObjOK (copyObj w o).1 (copyRec w o) := by
  obtain ⟨h1, h2⟩ := copyRec_ok h ho
  exact h2.congr rfl (Nat.le_refl _)

theorem objs_copyObj_new (w : World) (o : Obj) : (copyObj w o).1.objs (copyObj w o).2 = some (copyRec w o) := by
  simp [copyObj, World.addObj]

@[simp] theorem objs_setObj_same (w : World) (id : Nat) (o : Obj) : (w.setObj id o).objs id = some o := by
  simp [World.setObj]

theorem objs_setObj_ne (w : World) {id i : Nat} (o : Obj) (h : i ≠ id) : (w.setObj id o).objs i = w.objs i := by
  simp [World.setObj, h]

/-- rewrite fields other than `slot`/`pdict`/(losing) `p` of an object that is in the world. -/
theorem WF.modify {w : World} (h : WF w) {id : Nat} {o o' : Obj} (ho : w.objs id = some o)
    (hs : o'.slot = o.slot) (hp : o'.pdict = o.pdict) (hpp : o.p.isSome = true → o'.p.isSome = true) :
    WF (w.setObj id o') :=
  h.setObj id ((h.objs id o ho).fields hs hp hpp)

theorem ObjOK.of_lookup {w : World} {o : Obj} {val : Val} (hl : w.lookup o = val)
    (hp : val.callable = true → o.p.isSome = true) (hf : w.pdicts o.pdict ≠ none → o.slot = .absent)
    (ha : o.pdict < w.nDict) (hsf : SlotFine o.slot) : ObjOK w o :=
  ⟨by rw [hl]; exact hp, hf, ha, hsf⟩

/-- a Parameter is found through the shared container only. -/
theorem lookup_param_key {w : World} {o : Obj} (ho : SlotFine o.slot) {c : Nat} (hl : w.lookup o = .param c) :
    w.pdicts o.pdict ≠ none := by
  unfold World.lookup at hl
  intro hk
  rw [hk] at hl
  cases hs : o.slot with
  | absent => simp [hs] at hl
  | dict v => simp [hs] at hl; exact (ho c).1 (by rw [hs, hl])
  | buf b => cases b <;> simp [hs] at hl
  | mod m =>
    cases m with
    | none => simp [hs] at hl
    | some m => simp [hs] at hl; exact (ho c).2 (by rw [hs, hl])

/-! ### clear_buffers -/

theorem WF_clearLeaf {w : World} (h : WF w) (id : Nat) : WF (clearLeaf w id) := by
  unfold clearLeaf
  split
  · next o ho => exact h.modify ho rfl rfl (fun x => x)
  · exact h

theorem WF_foldl_clearLeaf {w : World} (h : WF w) (ms : List Nat) : WF (ms.foldl clearLeaf w) := by
  induction ms generalizing w with
  | nil => exact h
  | cons m ms ih => exact ih (WF_clearLeaf h m)

theorem WF_clearObj {w : World} (h : WF w) (id : Nat) : WF (clearObj w id) := by
  unfold clearObj
  split
  · exact WF_foldl_clearLeaf (WF_clearLeaf h id) _
  · exact h

/-! ### `self.params = val` -/

theorem setParams_spec {w w2 : World} {o o2 : Obj} {val : Val} (h : WF w)
    (hfa0 : w.pdicts o.pdict ≠ none → o.slot = .absent) (hsf0 : SlotFine o.slot)
    (hpar : ∀ c, val = .param c → w.pdicts o.pdict ≠ none)
    (hs : setParams w o val = .ok (w2, o2)) :
    WF w2 ∧ w2.objs = w.objs ∧ w2.cells = w.cells ∧ w2.shapes = w.shapes ∧ w2.nDict = w.nDict
      ∧ w2.nObj = w.nObj ∧ w2.nCell = w.nCell
      ∧ (∃ s', o2 = { o with slot := s' }) ∧ w2.lookup o2 = val
      ∧ (w2.pdicts o2.pdict ≠ none → o2.slot = .absent) ∧ SlotFine o2.slot
      ∧ (w2 = w ∨ (w.pdicts o.pdict ≠ none ∧ ∃ e, w2 = w.setPdict o.pdict e)) := by
  unfold setParams at hs
  cases val with
  | param c =>
    simp only [Except.ok.injEq, Prod.mk.injEq] at hs
    obtain ⟨rfl, rfl⟩ := hs
    have hk := hpar c rfl
    refine ⟨h.setPdict hk _, rfl, rfl, rfl, rfl, rfl, rfl, ⟨_, rfl⟩, ?_, fun _ => rfl, (fun c => by simp), Or.inr ⟨hk, _, rfl⟩⟩
    simp [World.lookup, World.setPdict]
  | none =>
    cases hk : w.pdicts o.pdict with
    | some e =>
      simp only [hk, Except.ok.injEq, Prod.mk.injEq] at hs
      obtain ⟨rfl, rfl⟩ := hs
      have hk' : w.pdicts o.pdict ≠ none := by rw [hk]; simp
      have hsl := hfa0 hk'
      refine ⟨h.setPdict hk' _, rfl, rfl, rfl, rfl, rfl, rfl, ⟨o.slot, rfl⟩, ?_, fun _ => hsl, hsf0, Or.inr ⟨by simp, _, rfl⟩⟩
      simp [World.lookup, World.setPdict, hsl]
    | none =>
      simp only [hk] at hs
      have hfr : ∀ s', ({ o with slot := s' } : Obj).pdict = o.pdict := fun _ => rfl
      cases hsl : o.slot with
      | absent =>
        simp only [hsl, Except.ok.injEq, Prod.mk.injEq] at hs
        obtain ⟨rfl, rfl⟩ := hs
        exact ⟨h, rfl, rfl, rfl, rfl, rfl, rfl, ⟨_, rfl⟩, by simp [World.lookup], by simp [hk], (fun c => by simp), Or.inl rfl⟩
      | dict v =>
        simp only [hsl, Except.ok.injEq, Prod.mk.injEq] at hs
        obtain ⟨rfl, rfl⟩ := hs
        exact ⟨h, rfl, rfl, rfl, rfl, rfl, rfl, ⟨_, rfl⟩, by simp [World.lookup], by simp [hk], (fun c => by simp), Or.inl rfl⟩
      | buf b =>
        simp only [hsl, Except.ok.injEq, Prod.mk.injEq] at hs
        obtain ⟨rfl, rfl⟩ := hs
        exact ⟨h, rfl, rfl, rfl, rfl, rfl, rfl, ⟨_, rfl⟩, by simp [World.lookup, hk], by simp [hk], (fun c => by simp), Or.inl rfl⟩
      | mod m =>
        simp only [hsl, Except.ok.injEq, Prod.mk.injEq] at hs
        obtain ⟨rfl, rfl⟩ := hs
        exact ⟨h, rfl, rfl, rfl, rfl, rfl, rfl, ⟨_, rfl⟩, by simp [World.lookup, hk], by simp [hk], (fun c => by simp), Or.inl rfl⟩
  | tensor c =>
    cases hk : w.pdicts o.pdict with
    | some e => simp [hk] at hs
    | none =>
      simp only [hk] at hs
      cases hsl : o.slot with
      | absent =>
        simp only [hsl, Except.ok.injEq, Prod.mk.injEq] at hs
        obtain ⟨rfl, rfl⟩ := hs
        exact ⟨h, rfl, rfl, rfl, rfl, rfl, rfl, ⟨_, rfl⟩, by simp [World.lookup], by simp [hk], (fun c => by simp), Or.inl rfl⟩
      | dict v =>
        simp only [hsl, Except.ok.injEq, Prod.mk.injEq] at hs
        obtain ⟨rfl, rfl⟩ := hs
        exact ⟨h, rfl, rfl, rfl, rfl, rfl, rfl, ⟨_, rfl⟩, by simp [World.lookup], by simp [hk], (fun c => by simp), Or.inl rfl⟩
      | buf b =>
        simp only [hsl, Except.ok.injEq, Prod.mk.injEq] at hs
        obtain ⟨rfl, rfl⟩ := hs
        exact ⟨h, rfl, rfl, rfl, rfl, rfl, rfl, ⟨_, rfl⟩, by simp [World.lookup, hk], by simp [hk], (fun c => by simp), Or.inl rfl⟩
      | mod m => simp [hsl] at hs
  | fn f =>
    cases hk : w.pdicts o.pdict with
    | some e => simp [hk] at hs
    | none =>
      simp only [hk] at hs
      cases hsl : o.slot with
      | absent =>
        simp only [hsl, Except.ok.injEq, Prod.mk.injEq] at hs
        obtain ⟨rfl, rfl⟩ := hs
        exact ⟨h, rfl, rfl, rfl, rfl, rfl, rfl, ⟨_, rfl⟩, by simp [World.lookup], by simp [hk], (fun c => by simp), Or.inl rfl⟩
      | dict v =>
        simp only [hsl, Except.ok.injEq, Prod.mk.injEq] at hs
        obtain ⟨rfl, rfl⟩ := hs
        exact ⟨h, rfl, rfl, rfl, rfl, rfl, rfl, ⟨_, rfl⟩, by simp [World.lookup], by simp [hk], (fun c => by simp), Or.inl rfl⟩
      | buf b => simp [hsl] at hs
      | mod m => simp [hsl] at hs
  | fnmod f =>
    cases hk : w.pdicts o.pdict with
    | some e => simp [hk] at hs
    | none =>
      simp only [hk, Except.ok.injEq, Prod.mk.injEq] at hs
      obtain ⟨rfl, rfl⟩ := hs
      exact ⟨h, rfl, rfl, rfl, rfl, rfl, rfl, ⟨_, rfl⟩, by simp [World.lookup, hk], by simp [hk], (fun c => by simp), Or.inl rfl⟩
  | obj s =>
    cases hk : w.pdicts o.pdict with
    | some e => simp [hk] at hs
    | none =>
      simp only [hk, Except.ok.injEq, Prod.mk.injEq] at hs
      obtain ⟨rfl, rfl⟩ := hs
      exact ⟨h, rfl, rfl, rfl, rfl, rfl, rfl, ⟨_, rfl⟩, by simp [World.lookup, hk], by simp [hk], (fun c => by simp), Or.inl rfl⟩

/-! ### update / tensor -/

theorem registerUV_frame (w : World) (o : Obj) (c : Nat) :
    (registerUV w o c).slot = o.slot ∧ (registerUV w o c).pdict = o.pdict ∧ (registerUV w o c).p = o.p
      ∧ (registerUV w o c).grid = o.grid ∧ (registerUV w o c).cond = o.cond
      ∧ (registerUV w o c).invert = o.invert ∧ (registerUV w o c).cls = o.cls
      ∧ (registerUV w o c).members = o.members := by
  unfold registerUV
  cases hc : o.cls <;> simp [hc]

theorem freshData_spec {w w' : World} {o : Obj} {c : Nat} (h : freshData w o = .ok (w', c)) :
    w'.objs = w.objs ∧ w'.pdicts = w.pdicts ∧ w'.nDict = w.nDict
      ∧ (w' = w ∨ ∃ x sg, w' = (w.newCell x sg).1) := by
  unfold freshData at h
  split at h
  · cases h
  · split at h
    · cases h
    · split at h
      · simp only [Except.ok.injEq, Prod.mk.injEq] at h; obtain ⟨rfl, rfl⟩ := h
        exact ⟨rfl, rfl, rfl, Or.inl rfl⟩
      · cases h
  · simp only [Except.ok.injEq, World.newCell, Prod.mk.injEq] at h
    obtain ⟨rfl, rfl⟩ := h
    exact ⟨rfl, rfl, rfl, Or.inr ⟨_, _, rfl⟩⟩
  · simp only [Except.ok.injEq, World.newCell, Prod.mk.injEq] at h
    obtain ⟨rfl, rfl⟩ := h
    exact ⟨rfl, rfl, rfl, Or.inr ⟨_, _, rfl⟩⟩
  · simp only [Except.ok.injEq, Prod.mk.injEq] at h; obtain ⟨rfl, rfl⟩ := h
    exact ⟨rfl, rfl, rfl, Or.inl rfl⟩
  · simp only [Except.ok.injEq, Prod.mk.injEq] at h; obtain ⟨rfl, rfl⟩ := h
    exact ⟨rfl, rfl, rfl, Or.inl rfl⟩

theorem WF_of_frame {w w' : World} (h : WF w) (ho : w'.objs = w.objs) (hp : w'.pdicts = w.pdicts)
    (hn : w'.nDict = w.nDict) : WF w' :=
  ⟨fun i x hx => (h.objs i x (by rw [← ho]; exact hx)).congr hp (by rw [hn]; exact Nat.le_refl _),
   fun k hk => by rw [hp]; exact h.fresh k (by rw [← hn]; exact hk)⟩

theorem WF_updateLeaf {w w' : World} {id : Nat} {o : Obj} (h : WF w) (ho : w.objs id = some o)
    (hu : updateLeaf w id o = .ok w') : WF w' := by
  unfold updateLeaf at hu
  cases hp : o.p with
  | none =>
    simp only [hp] at hu
    split at hu
    · cases hu
    · next c hc =>
      simp only [Except.ok.injEq] at hu; subst hu
      have fr := registerUV_frame w o c
      exact h.modify ho fr.1 fr.2.1 (by rw [fr.2.2.1]; exact fun x => x)
  | some pc =>
    simp only [hp] at hu
    cases hf : freshData w o with
    | error e => simp [hf] at hu
    | ok r =>
      obtain ⟨w1, c1⟩ := r
      simp only [hf] at hu
      split at hu
      · cases hu
      · next c hc =>
        simp only [Except.ok.injEq] at hu; subst hu
        obtain ⟨ho1, hp1, hn1, _⟩ := freshData_spec hf
        have h1 : WF w1 := WF_of_frame h ho1 hp1 hn1
        have ho' : w1.objs id = some o := by rw [ho1]; exact ho
        have fr := registerUV_frame w1 { o with p := some c1 } c
        exact h1.modify ho' fr.1 fr.2.1 (by rw [fr.2.2.1]; exact fun _ => rfl)

theorem WF_tensorLeaf {w w' : World} {id : Nat} {ob : Obs} (h : WF w)
    (ht : tensorLeaf w id = .ok (w', ob)) : WF w' := by
  unfold tensorLeaf at ht
  split at ht
  · cases ht
  · next o ho =>
    split at ht
    · simp only [Except.ok.injEq, Prod.mk.injEq] at ht; obtain ⟨rfl, _⟩ := ht; exact h
    · split at ht
      · cases ht
      · next w1 hu =>
        have h1 := WF_updateLeaf h ho hu
        split at ht
        · simp only [Except.ok.injEq, Prod.mk.injEq] at ht; obtain ⟨rfl, _⟩ := ht; exact h1
        · cases ht

theorem WF_updateMembers {w : World} (h : WF w) (ms : List Nat) : WF (updateMembers w ms).1 := by
  induction ms generalizing w with
  | nil => exact h
  | cons m ms ih =>
    unfold updateMembers
    split
    · exact h
    · next o ho =>
      split
      · exact h
      · next w' hu => exact ih (WF_updateLeaf h ho hu)

theorem WF_tensorMembers {w : World} (h : WF w) (ms : List Nat) : WF (tensorMembers w ms).1 := by
  induction ms generalizing w with
  | nil => exact h
  | cons m ms ih =>
    unfold tensorMembers
    split
    · exact h
    · next w' ob ht =>
      have h' := ih (WF_tensorLeaf h ht)
      split <;> simp_all

/-! ### link / unlink / data_ -/

theorem dataCell_ok_of_WF {w : World} {o : Obj} (ho : ObjOK w o) (hl : w.lookup o ≠ .none) :
    ∃ c, dataCell w o = .ok c := by
  unfold dataCell
  cases hv : w.lookup o with
  | none => exact absurd hv hl
  | param c => exact ⟨c, rfl⟩
  | tensor c => exact ⟨c, rfl⟩
  | fn f =>
    have := ho.hasP (by rw [hv]; rfl)
    cases hp : o.p with
    | none => simp [hp] at this
    | some c => exact ⟨c, rfl⟩
  | fnmod f =>
    have := ho.hasP (by rw [hv]; rfl)
    cases hp : o.p with
    | none => simp [hp] at this
    | some c => exact ⟨c, rfl⟩
  | obj s =>
    have := ho.hasP (by rw [hv]; rfl)
    cases hp : o.p with
    | none => simp [hp] at this
    | some c => exact ⟨c, rfl⟩

theorem WF_linkCore {w : World} (h : WF w) {o : Obj} (ho : ObjOK w o) (id oid : Nat) {other : Obj}
    (hother : w.objs oid = some other) : WF (linkCore w id o oid other).1 := by
  unfold linkCore
  cases hs : setParams w o (.obj oid) with
  | error e => exact h
  | ok r =>
    obtain ⟨w1, o1⟩ := r
    obtain ⟨h1, hobjs, _, _, hnd, _, _, ⟨s', rfl⟩, hl, hfa, hsf, _⟩ :=
      setParams_spec h ho.famAbsent ho.slotFine (fun c hc => by cases hc) hs
    have halloc : ({ o with slot := s' } : Obj).pdict < w1.nDict := by rw [hnd]; exact ho.alloc
    simp only
    cases hp : o.p with
    | some pc =>
      simp only [hp]
      exact h1.setObj id (ObjOK.of_lookup hl (fun _ => by simp [hp]) hfa halloc hsf)
    | none =>
      simp only [hp]
      have hother1 : w1.objs oid = some other := by rw [hobjs]; exact hother
      split
      · apply WF_clearLeaf
        refine (h1.newCell _ _).setObj id ?_
        refine ObjOK.of_lookup (val := .obj oid) ?_ (fun _ => rfl) hfa ?_ hsf
        · rw [lookup_newCell]; exact (lookup_slot rfl rfl).trans hl
        · exact halloc
      · next hne =>
        obtain ⟨c, hc⟩ := dataCell_ok_of_WF (h1.objs oid other hother1) (by
          intro hh; exact hne hh)
        simp only [hc]
        refine h1.setObj id (ObjOK.of_lookup (val := .obj oid) ?_ (fun _ => rfl) hfa halloc hsf)
        exact (lookup_slot rfl rfl).trans hl

theorem WF_linkInto {w : World} (h : WF w) {o : Obj} (ho : ObjOK w o) (id oid : Nat) :
    WF (linkInto w id o oid).1 := by
  unfold linkInto
  split
  · exact h
  · split
    · exact h
    · next other hother =>
      split
      · exact h
      · split
        · exact WF_linkCore (h.delPdict _) ho.delPdict_self id oid hother
        · exact WF_linkCore h ho id oid hother

theorem WF_unlinkInto {w w' : World} (h : WF w) {o : Obj} (ho : ObjOK w o) {id : Nat}
    (hu : unlinkInto w id o = .ok w') : WF w' := by
  unfold unlinkInto at hu
  cases hs : setParams w o .none with
  | error e => simp [hs] at hu
  | ok r =>
    obtain ⟨w1, o1⟩ := r
    simp only [hs, Except.ok.injEq] at hu; subst hu
    obtain ⟨h1, _, _, _, hnd, _, _, ⟨s', rfl⟩, hl, hfa, hsf, _⟩ :=
      setParams_spec h ho.famAbsent ho.slotFine (fun c hc => by cases hc) hs
    refine h1.setObj id (ObjOK.of_lookup (val := .none) ?_ (fun hc => by cases hc) hfa ?_ hsf)
    · exact (lookup_slot rfl rfl).trans hl
    · show o.pdict < w1.nDict; rw [hnd]; exact ho.alloc

theorem ObjOK.newCell {w : World} {o : Obj} (ho : ObjOK w o) (c : Content) (sg : Nat) :
    ObjOK (w.newCell c sg).1 o := ho.congr rfl (Nat.le_refl _)

theorem wrapLike_param {cur : Val} {c0 c : Nat} (h : wrapLike cur c0 = .param c) : ∃ c', cur = .param c' := by
  cases cur <;> simp [wrapLike] at h
  exact ⟨_, rfl⟩

theorem wrapLike_not_callable (cur : Val) (c0 : Nat) : (wrapLike cur c0).callable = false := by
  cases cur <;> rfl

theorem WF_assignData {w w' : World} (h : WF w) {o : Obj} (hf : w.pdicts o.pdict ≠ none → o.slot = .absent)
    (ha : o.pdict < w.nDict) (hsf : SlotFine o.slot) {id : Nat} {cur : Val} {ver : Content}
    (hcur : ∀ c, cur = .param c → w.pdicts o.pdict ≠ none)
    (hd : assignData w id o cur ver = .ok w') : WF w' := by
  unfold assignData at hd
  simp only at hd
  split at hd
  · cases hd
  · next w2 o2 hs =>
    simp only [Except.ok.injEq] at hd; subst hd
    obtain ⟨h2, _, _, _, hnd, _, _, ⟨s', rfl⟩, hl, hfa, hsf2, _⟩ :=
      setParams_spec (h.newCell ver o.grid) hf hsf (fun c hc => by
        obtain ⟨c', hc'⟩ := wrapLike_param hc
        exact hcur c' hc') hs
    apply WF_clearLeaf
    refine h2.setObj id (ObjOK.of_lookup hl ?_ hfa ?_ hsf2)
    · intro hc; rw [wrapLike_not_callable] at hc; cases hc
    · show o.pdict < w2.nDict; rw [hnd]; exact ha

theorem WF_dataSet {w w' : World} (h : WF w) {o : Obj} (ho : ObjOK w o) {id : Nat} {ver : Content}
    (hd : dataSet w id o ver = .ok w') : WF w' := by
  unfold dataSet at hd
  split at hd
  · cases hd
  · exact WF_assignData h ho.famAbsent ho.alloc ho.slotFine
      (fun c hc => lookup_param_key ho.slotFine hc) hd

/-! ### grid_ / condition_ / reset -/

theorem WF_setField {w : World} (h : WF w) (id : Nat) (f : Obj → Obj)
    (hf : ∀ o, (f o).slot = o.slot ∧ (f o).pdict = o.pdict ∧ (f o).p = o.p) :
    WF (match w.objs id with | some o => w.setObj id (f o) | none => w) := by
  split
  · next o ho => exact h.modify ho (hf o).1 (hf o).2.1 (by rw [(hf o).2.2]; exact fun x => x)
  · exact h

theorem WF_baseGrid {w : World} (h : WF w) (id : Nat) (o : Obj) (g : Nat) : WF (baseGrid w id o g) := by
  unfold baseGrid
  split
  · exact h
  · exact WF_setField (WF_clearObj h id) id (fun o => { o with grid := g }) (fun o => ⟨rfl, rfl, rfl⟩)

theorem objs_clearLeaf_slot {w : World} {id i : Nat} {o : Obj} (ho : (clearLeaf w id).objs i = some o) :
    ∃ o0, w.objs i = some o0 ∧ o.slot = o0.slot ∧ o.pdict = o0.pdict ∧ o.p = o0.p ∧ o.grid = o0.grid
      ∧ o.cls = o0.cls ∧ o.cond = o0.cond ∧ o.invert = o0.invert ∧ o.members = o0.members := by
  unfold clearLeaf at ho
  split at ho
  · next x hx =>
    by_cases hi : i = id
    · subst hi; simp at ho; subst ho; exact ⟨x, hx, rfl, rfl, rfl, rfl, rfl, rfl, rfl, rfl⟩
    · rw [objs_setObj_ne _ _ hi] at ho; exact ⟨o, ho, rfl, rfl, rfl, rfl, rfl, rfl, rfl, rfl⟩
  · exact ⟨o, ho, rfl, rfl, rfl, rfl, rfl, rfl, rfl, rfl⟩

theorem objs_foldl_clearLeaf_slot {w : World} (ms : List Nat) {i : Nat} {o : Obj}
    (ho : (ms.foldl clearLeaf w).objs i = some o) :
    ∃ o0, w.objs i = some o0 ∧ o.slot = o0.slot ∧ o.pdict = o0.pdict ∧ o.p = o0.p ∧ o.grid = o0.grid
      ∧ o.cls = o0.cls ∧ o.cond = o0.cond ∧ o.invert = o0.invert ∧ o.members = o0.members := by
  induction ms generalizing w with
  | nil => exact ⟨o, ho, rfl, rfl, rfl, rfl, rfl, rfl, rfl, rfl⟩
  | cons m ms ih =>
    obtain ⟨o1, h1, e1⟩ := ih ho
    obtain ⟨o0, h0, e0⟩ := objs_clearLeaf_slot h1
    exact ⟨o0, h0, by
      obtain ⟨a1, a2, a3, a4, a5, a6, a7, a8⟩ := e1
      obtain ⟨b1, b2, b3, b4, b5, b6, b7, b8⟩ := e0
      exact ⟨a1.trans b1, a2.trans b2, a3.trans b3, a4.trans b4, a5.trans b5, a6.trans b6, a7.trans b7, a8.trans b8⟩⟩

theorem objs_clearObj_slot {w : World} {id i : Nat} {o : Obj} (ho : (clearObj w id).objs i = some o) :
    ∃ o0, w.objs i = some o0 ∧ o.slot = o0.slot ∧ o.pdict = o0.pdict ∧ o.p = o0.p ∧ o.grid = o0.grid
      ∧ o.cls = o0.cls ∧ o.cond = o0.cond ∧ o.invert = o0.invert ∧ o.members = o0.members := by
  unfold clearObj at ho
  split at ho
  · obtain ⟨o1, h1, e1⟩ := objs_foldl_clearLeaf_slot _ ho
    obtain ⟨o0, h0, e0⟩ := objs_clearLeaf_slot h1
    exact ⟨o0, h0, by
      obtain ⟨a1, a2, a3, a4, a5, a6, a7, a8⟩ := e1
      obtain ⟨b1, b2, b3, b4, b5, b6, b7, b8⟩ := e0
      exact ⟨a1.trans b1, a2.trans b2, a3.trans b3, a4.trans b4, a5.trans b5, a6.trans b6, a7.trans b7, a8.trans b8⟩⟩
  · exact ⟨o, ho, rfl, rfl, rfl, rfl, rfl, rfl, rfl, rfl⟩

theorem pdicts_clearLeaf (w : World) (id : Nat) : (clearLeaf w id).pdicts = w.pdicts ∧ (clearLeaf w id).nDict = w.nDict
    ∧ (clearLeaf w id).cells = w.cells ∧ (clearLeaf w id).shapes = w.shapes := by
  unfold clearLeaf; split <;> exact ⟨rfl, rfl, rfl, rfl⟩

theorem pdicts_foldl_clearLeaf (w : World) (ms : List Nat) :
    (ms.foldl clearLeaf w).pdicts = w.pdicts ∧ (ms.foldl clearLeaf w).nDict = w.nDict
    ∧ (ms.foldl clearLeaf w).cells = w.cells ∧ (ms.foldl clearLeaf w).shapes = w.shapes := by
  induction ms generalizing w with
  | nil => exact ⟨rfl, rfl, rfl, rfl⟩
  | cons m ms ih =>
    obtain ⟨a, b, c, d⟩ := ih (clearLeaf w m)
    obtain ⟨a', b', c', d'⟩ := pdicts_clearLeaf w m
    exact ⟨a.trans a', b.trans b', c.trans c', d.trans d'⟩

theorem pdicts_clearObj (w : World) (id : Nat) : (clearObj w id).pdicts = w.pdicts ∧ (clearObj w id).nDict = w.nDict
    ∧ (clearObj w id).cells = w.cells ∧ (clearObj w id).shapes = w.shapes := by
  unfold clearObj
  split
  · obtain ⟨a, b, c, d⟩ := pdicts_foldl_clearLeaf (clearLeaf w id) _
    obtain ⟨a', b', c', d'⟩ := pdicts_clearLeaf w id
    exact ⟨a.trans a', b.trans b', c.trans c', d.trans d'⟩
  · exact ⟨rfl, rfl, rfl, rfl⟩

theorem WF_gridSet {w : World} (h : WF w) {id : Nat} {o : Obj} (ho : w.objs id = some o) (g : Nat) :
    WF (gridSet w id o g).1 := by
  have hok := h.objs id o ho
  unfold gridSet
  split
  · exact WF_baseGrid h id o g
  · split
    · split
      · next c hv =>
        split
        · exact h
        · split
          · have h1 : WF (w.setObj id { o with u := none, v := none, grid := g }) := h.modify ho rfl rfl (fun x => x)
            have hok1 : ObjOK (w.setObj id { o with u := none, v := none, grid := g }) { o with u := none, v := none, grid := g } :=
              (hok.fields (o' := { o with u := none, v := none, grid := g }) rfl rfl (fun x => x)).congr rfl (Nat.le_refl _)
            dsimp only
            split
            · next w2 hd => exact WF_dataSet h1 hok1 hd
            · exact h1
          · exact h
      · next c hv =>
        split
        · exact h
        · split
          · have h1 : WF (w.setObj id { o with u := none, v := none, grid := g }) := h.modify ho rfl rfl (fun x => x)
            have hok1 : ObjOK (w.setObj id { o with u := none, v := none, grid := g }) { o with u := none, v := none, grid := g } :=
              (hok.fields (o' := { o with u := none, v := none, grid := g }) rfl rfl (fun x => x)).congr rfl (Nat.le_refl _)
            dsimp only
            split
            · next w2 hd => exact WF_dataSet h1 hok1 hd
            · exact h1
          · exact h
      · split
        · exact h
        · exact h.modify ho rfl rfl (fun x => x)
    · have hb := WF_baseGrid h id o g
      have key : ∀ c : Nat, WF (match (baseGrid w id o g).objs id with
          | none => (baseGrid w id o g, some Err.noobj)
          | some o1 =>
            match dataSet (baseGrid w id o g) id o1 (w.cells c) with
            | .ok w2 => (w2, none)
            | .error e => ((baseGrid w id o g).setObj id { o1 with grid := o.grid }, some e)).1 := by
        intro c
        split
        · exact hb
        · next o1 ho1 =>
          split
          · next w2 hd => exact WF_dataSet hb (hb.objs id o1 ho1) hd
          · exact hb.modify ho1 rfl rfl (fun x => x)
      split
      · exact key _
      · exact key _
      · exact hb

theorem WF_condOne {w : World} (h : WF w) (c i : Nat) : WF (condOne c w i) :=
  WF_setField (WF_clearLeaf h i) i (fun o => { o with cond := c }) (fun o => ⟨rfl, rfl, rfl⟩)

theorem WF_foldl_condOne {w : World} (h : WF w) (c : Nat) (ms : List Nat) : WF (ms.foldl (condOne c) w) := by
  induction ms generalizing w with
  | nil => exact h
  | cons m ms ih => exact ih (WF_condOne h c m)

theorem WF_condSet {w : World} (h : WF w) (id c : Nat) : WF (condSet w id c) := by
  unfold condSet
  split
  · exact h
  · exact WF_foldl_condOne
      (WF_setField (WF_clearObj h id) id (fun o => { o with cond := c }) (fun o => ⟨rfl, rfl, rfl⟩)) c _

theorem WF_resetParams {w w' : World} (h : WF w) {id : Nat} {o : Obj} (hr : resetParams w id o = .ok w') :
    WF w' := by
  unfold resetParams at hr
  split at hr
  · simp only [Except.ok.injEq] at hr; subst hr; exact h
  · simp only [Except.ok.injEq] at hr; subst hr; exact WF_clearLeaf (h.setCell _ _) id
  · simp only [Except.ok.injEq] at hr; subst hr; exact WF_clearLeaf (h.setCell _ _) id
  · split at hr
    · simp only [Except.ok.injEq] at hr; subst hr; exact WF_clearLeaf (h.setCell _ _) id
    · cases hr

/-! ### copy / inverse / constructors -/

theorem lookup_setPdict_ne {w : World} {o : Obj} {k : Nat} (e : Option Nat) (h : o.pdict ≠ k) :
    (w.setPdict k e).lookup o = w.lookup o := by
  unfold World.lookup World.setPdict; simp [h]

theorem ObjOK.addObj {w : World} {o x : Obj} (ho : ObjOK w o) : ObjOK (w.addObj x).1 o :=
  ho.congr rfl (Nat.le_refl _)

theorem invFinish_frame (w : World) (oi : Obj) (inv ub : Bool) :
    (invFinish w oi inv ub).slot = oi.slot ∧ (invFinish w oi inv ub).pdict = oi.pdict
      ∧ (invFinish w oi inv ub).p = oi.p ∧ (invFinish w oi inv ub).grid = oi.grid
      ∧ (invFinish w oi inv ub).cond = oi.cond ∧ (invFinish w oi inv ub).cls = oi.cls
      ∧ (invFinish w oi inv ub).members = oi.members ∧ (invFinish w oi inv ub).invert = inv := by
  unfold invFinish
  split
  · split <;> exact ⟨rfl, rfl, rfl, rfl, rfl, rfl, rfl, rfl⟩
  · exact ⟨rfl, rfl, rfl, rfl, rfl, rfl, rfl, rfl⟩

theorem WF_inverseLeaf {w w' : World} (h : WF w) {id nid : Nat} {o : Obj} (ho : w.objs id = some o)
    {link ub : Bool} (hi : inverseLeaf w id o link ub = .ok (w', nid)) : WF w' := by
  have hok := h.objs id o ho
  unfold inverseLeaf at hi
  have h1 : WF (copyObj w o).1 := WF_copyObj h hok
  split at hi
  · simp only at hi
    have hr : WF ((if link = true then linkInto (copyObj w o).1 (copyObj w o).2 (copyRec w o) id
        else ((copyObj w o).1, none)) : World × Option Err).1 := by
      split
      · exact WF_linkInto h1 (ObjOK_copyRec h hok) _ _
      · exact h1
    split at hi
    · cases hi
    · split at hi
      · cases hi
      · next oi hoi =>
        simp only [Except.ok.injEq, Prod.mk.injEq] at hi
        obtain ⟨rfl, _⟩ := hi
        have fr := invFinish_frame ((if link = true then linkInto (copyObj w o).1 (copyObj w o).2 (copyRec w o) id
          else ((copyObj w o).1, none)) : World × Option Err).1 oi (!o.invert) ub
        exact hr.modify hoi fr.1 fr.2.1 (by rw [fr.2.2.1]; exact fun x => x)
  · cases hi

theorem WF_inverseMembers {w w' : World} (h : WF w) {link ub : Bool} {ms ids : List Nat}
    (hi : inverseMembers w link ub ms = .ok (w', ids)) : WF w' := by
  induction ms generalizing w ids with
  | nil => simp [inverseMembers] at hi; obtain ⟨rfl, _⟩ := hi; exact h
  | cons m ms ih =>
    unfold inverseMembers at hi
    split at hi
    · cases hi
    · next o ho =>
      split at hi
      · cases hi
      · next w1 nid h1 =>
        split at hi
        · cases hi
        · next w2 ids2 h2 =>
          simp only [Except.ok.injEq, Prod.mk.injEq] at hi
          obtain ⟨rfl, _⟩ := hi
          exact ih (WF_inverseLeaf h ho h1) h2

theorem WF_bumpDict {w : World} (h : WF w) : WF { w with nDict := w.nDict + 1 } :=
  ⟨fun i x hx => (h.objs i x hx).congr rfl (Nat.le_succ _), fun k hk => h.fresh k (Nat.le_of_succ_le hk)⟩

theorem WF_mkLeaf {w : World} (h : WF w) (cls : Cls) (k : Kind) (v g : Nat) : WF (mkLeaf w cls k v g).1 := by
  have hb := WF_bumpDict h
  have hfree : ({ w with nDict := w.nDict + 1 } : World).pdicts w.nDict = none := h.fresh _ (Nat.le_refl _)
  unfold mkLeaf
  cases k with
  | none =>
    refine hb.addObj ⟨fun hc => by simp [World.lookup, Val.callable] at hc, fun hk => absurd hfree hk,
      Nat.lt_succ_self _, fun c => by simp⟩
  | param =>
    simp only
    -- the fresh container gets the key: no existing object refers to it
    have hw2 : WF (((({ w with nDict := w.nDict + 1 } : World).newCell (.lit v) g).1).setPdict w.nDict
        (some (({ w with nDict := w.nDict + 1 } : World).newCell (.lit v) g).2)) := by
      refine ⟨?_, ?_⟩
      · intro i x hx
        have hx' : w.objs i = some x := hx
        have ok := h.objs i x hx'
        have hne : x.pdict ≠ w.nDict := Nat.ne_of_lt ok.alloc
        refine ⟨?_, ?_, Nat.lt_succ_of_lt ok.alloc, ok.slotFine⟩
        · intro hc
          apply ok.hasP
          rw [lookup_setPdict_ne _ hne, lookup_newCell] at hc
          have e1 : ({ w with nDict := w.nDict + 1 } : World).lookup x = w.lookup x := lookup_congr rfl x
          rw [e1] at hc; exact hc
        · intro hk
          apply ok.famAbsent
          simpa [World.setPdict, World.newCell, hne] using hk
      · intro j hj
        have hj : w.nDict + 1 ≤ j := hj
        have hjn : j ≠ w.nDict := by omega
        simp [World.setPdict, World.newCell, hjn]
        exact h.fresh j (by omega)
    refine hw2.addObj ⟨fun hc => ?_, fun _ => rfl, ?_, fun c => by simp⟩
    · simp [World.lookup, World.setPdict, Val.callable] at hc
    · show w.nDict < w.nDict + 1; exact Nat.lt_succ_self _
  | buffer =>
    simp only
    refine (hb.newCell _ _).addObj ⟨fun hc => ?_, fun hk => absurd hfree hk, Nat.lt_succ_self _, fun c => by simp⟩
    have : (({ w with nDict := w.nDict + 1 } : World).newCell (.lit v) g).1.pdicts w.nDict = none := hfree
    simp [World.lookup, this, Val.callable] at hc
  | fn f =>
    simp only
    exact (hb.newCell _ _).addObj ⟨fun _ => rfl, fun hk => absurd hfree hk, Nat.lt_succ_self _, fun c => by simp⟩
  | fnmod f =>
    simp only
    exact (hb.newCell _ _).addObj ⟨fun _ => rfl, fun hk => absurd hfree hk, Nat.lt_succ_self _, fun c => by simp⟩

/-! ### frames: inverse creation never touches the shared containers -/

theorem setParams_obj_frame {w w1 : World} {o o1 : Obj} {s : Nat} (h : setParams w o (.obj s) = .ok (w1, o1)) :
    w1 = w := by
  unfold setParams at h
  split at h
  · simp only [Except.ok.injEq, Prod.mk.injEq] at h
    -- `.obj s` is not `.param c`
    rename_i heq; cases heq
  · split at h
    · split at h
      · rename_i heq; cases heq
      · cases h
    · split at h
      · simp only [Except.ok.injEq, Prod.mk.injEq] at h; exact h.1.symm
      · simp only [Except.ok.injEq, Prod.mk.injEq] at h; exact h.1.symm
      · rename_i hne1 hne2; exact absurd rfl (hne1 s)

theorem linkCore_frame (w : World) (id : Nat) (o : Obj) (oid : Nat) (other : Obj) :
    (linkCore w id o oid other).1.pdicts = w.pdicts ∧ (linkCore w id o oid other).1.nDict = w.nDict := by
  unfold linkCore
  split
  · exact ⟨rfl, rfl⟩
  · next w1 o1 hs =>
    have := setParams_obj_frame hs; subst this
    split
    · exact ⟨rfl, rfl⟩
    · split
      · obtain ⟨a, b, _, _⟩ := pdicts_clearLeaf ((w1.newCell (.lit 0) o1.grid).1.setObj id { o1 with p := some (w1.newCell (.lit 0) o1.grid).2 }) id
        exact ⟨a, b⟩
      · split <;> exact ⟨rfl, rfl⟩

/-- `link_` touches the `_parameters` container of the linking instance only. -/
theorem linkInto_frame (w : World) (id : Nat) (o : Obj) (oid : Nat) :
    (∀ k, k ≠ o.pdict → (linkInto w id o oid).1.pdicts k = w.pdicts k)
      ∧ (linkInto w id o oid).1.nDict = w.nDict := by
  unfold linkInto
  split
  · exact ⟨fun _ _ => rfl, rfl⟩
  · split
    · exact ⟨fun _ _ => rfl, rfl⟩
    · split
      · exact ⟨fun _ _ => rfl, rfl⟩
      · split
        · obtain ⟨a, b⟩ := linkCore_frame (w.delPdict o.pdict) id o oid _
          refine ⟨fun k hk => ?_, b⟩
          rw [a]; simp [World.delPdict, hk]
        · obtain ⟨a, b⟩ := linkCore_frame w id o oid _
          exact ⟨fun k _ => by rw [a], b⟩

theorem inverseLeaf_frame {w w' : World} {id nid : Nat} {o : Obj} {link ub : Bool}
    (hi : inverseLeaf w id o link ub = .ok (w', nid)) :
    (∀ k, k < w.nDict → w'.pdicts k = w.pdicts k) ∧ w.nDict ≤ w'.nDict := by
  unfold inverseLeaf at hi
  split at hi
  · simp only at hi
    have hcopy : (∀ k, k < w.nDict → (copyObj w o).1.pdicts k = w.pdicts k) ∧ (copyObj w o).1.nDict = w.nDict + 1 := by
      refine ⟨fun k hk => ?_, rfl⟩
      have : k ≠ w.nDict := Nat.ne_of_lt hk
      simp [copyObj, World.addObj, World.copyDict, this]
    have hr : (∀ k, k < w.nDict → ((if link = true then linkInto (copyObj w o).1 (copyObj w o).2 (copyRec w o) id
          else ((copyObj w o).1, none)) : World × Option Err).1.pdicts k = w.pdicts k)
        ∧ w.nDict ≤ ((if link = true then linkInto (copyObj w o).1 (copyObj w o).2 (copyRec w o) id
          else ((copyObj w o).1, none)) : World × Option Err).1.nDict := by
      split
      · obtain ⟨a, b⟩ := linkInto_frame (copyObj w o).1 (copyObj w o).2 (copyRec w o) id
        refine ⟨fun k hk => ?_, by rw [b, hcopy.2]; exact Nat.le_succ _⟩
        rw [a k (by show k ≠ w.nDict; exact Nat.ne_of_lt hk)]; exact hcopy.1 k hk
      · exact ⟨hcopy.1, by rw [hcopy.2]; exact Nat.le_succ _⟩
    split at hi
    · cases hi
    · split at hi
      · cases hi
      · simp only [Except.ok.injEq, Prod.mk.injEq] at hi
        obtain ⟨rfl, _⟩ := hi
        exact hr
  · cases hi

theorem inverseMembers_frame {w w' : World} {link ub : Bool} {ms ids : List Nat}
    (hi : inverseMembers w link ub ms = .ok (w', ids)) :
    (∀ k, k < w.nDict → w'.pdicts k = w.pdicts k) ∧ w.nDict ≤ w'.nDict := by
  induction ms generalizing w ids with
  | nil => simp [inverseMembers] at hi; obtain ⟨rfl, _⟩ := hi; exact ⟨fun _ _ => rfl, Nat.le_refl _⟩
  | cons m ms ih =>
    unfold inverseMembers at hi
    split at hi
    · cases hi
    · split at hi
      · cases hi
      · next w1 nid h1 =>
        split at hi
        · cases hi
        · next w2 ids2 h2 =>
          simp only [Except.ok.injEq, Prod.mk.injEq] at hi
          obtain ⟨rfl, _⟩ := hi
          obtain ⟨a, b⟩ := ih h2
          obtain ⟨a', b'⟩ := inverseLeaf_frame h1
          exact ⟨fun k hk => (a k (Nat.lt_of_lt_of_le hk b')).trans (a' k hk), Nat.le_trans b' b⟩

/-! ### shallow copy of a composite: copies of the children -/

theorem copyObj_frame (w : World) (o : Obj) :
    (∀ k, k < w.nDict → (copyObj w o).1.pdicts k = w.pdicts k) ∧ (copyObj w o).1.nDict = w.nDict + 1
      ∧ (copyObj w o).1.nCell = w.nCell := by
  refine ⟨fun k hk => ?_, rfl, rfl⟩
  have : k ≠ w.nDict := Nat.ne_of_lt hk
  simp [copyObj, World.addObj, World.copyDict, this]

theorem WF_copyMembers {w : World} (h : WF w) (ms : List Nat) : WF (copyMembers w ms).1 := by
  induction ms generalizing w with
  | nil => exact h
  | cons m ms ih =>
    unfold copyMembers
    split
    · exact ih h
    · next o ho => exact ih (WF_copyObj h (h.objs m o ho))

theorem copyMembers_frame (w : World) (ms : List Nat) :
    (∀ k, k < w.nDict → (copyMembers w ms).1.pdicts k = w.pdicts k) ∧ w.nDict ≤ (copyMembers w ms).1.nDict
      ∧ (copyMembers w ms).1.nCell = w.nCell := by
  induction ms generalizing w with
  | nil => exact ⟨fun _ _ => rfl, Nat.le_refl _, rfl⟩
  | cons m ms ih =>
    unfold copyMembers
    split
    · exact ih w
    · next o ho =>
      obtain ⟨a, b, c⟩ := ih (copyObj w o).1
      obtain ⟨a', b', c'⟩ := copyObj_frame w o
      refine ⟨fun k hk => ?_, ?_, c.trans c'⟩
      · rw [a k (by rw [b']; exact Nat.lt_succ_of_lt hk)]; exact a' k hk
      · rw [b'] at b; exact Nat.le_trans (Nat.le_succ _) b

theorem WF_copyAny {w : World} (h : WF w) {o : Obj} (ho : ObjOK w o) : WF (copyAny w o).1 := by
  unfold copyAny
  split
  · have h1 := WF_copyObj h ho
    have h2 := WF_copyMembers h1 o.members
    obtain ⟨a, b, _⟩ := copyMembers_frame (copyObj w o).1 o.members
    refine h2.setObj _ ?_
    have hc := ObjOK_copyRec h ho
    exact (hc.fields (o' := { copyRec w o with members := (copyMembers (copyObj w o).1 o.members).2 }) rfl rfl
      (fun x => x)).congrAt (a _ (by show w.nDict < w.nDict + 1; exact Nat.lt_succ_self _)) b
  · exact WF_copyObj h ho

/-! ### every operation preserves the invariant -/

theorem objs_addObj_new (w : World) (o : Obj) : (w.addObj o).1.objs (w.addObj o).2 = some o := by
  simp [World.addObj]

theorem WF_fst_of_eq {α : Type} {f : World × α} {a : World} {b : α} (he : f = (a, b)) (h : WF f.1) : WF a := by
  rw [he] at h; exact h

theorem WF_step {w : World} (h : WF w) (op : Op) : WF (step w op).1 := by
  cases op with
  | mk cls k v g =>
    simp only [step]
    split
    · exact h
    · exact WF_mkLeaf h cls k v g
  | mkcomp cls ms g =>
    simp only [step]
    split
    · exact h
    · split
      · refine (WF_bumpDict h).addObj ⟨fun hc => ?_, fun _ => rfl, Nat.lt_succ_self _, fun c => by simp⟩
        have hfree : w.pdicts w.nDict = none := h.fresh _ (Nat.le_refl _)
        simp [World.lookup, hfree, Val.callable] at hc
      · exact h
  | copy id =>
    simp only [step]
    split
    · exact h
    · next o ho => exact WF_copyAny h (h.objs id o ho)
  | inverse id link ub =>
    simp only [step]
    split
    · exact h
    · next o ho =>
      have hok := h.objs id o ho
      split
      · -- Sequential: shallow copy, then the members' inverses
        split
        · exact h
        · next w2 ids hm =>
          have h1 : WF (copyObj w o).1 := WF_copyObj h hok
          have h2 := WF_inverseMembers h1 hm
          obtain ⟨hp, hn⟩ := inverseMembers_frame hm
          refine h2.setObj _ ?_
          have hc := ObjOK_copyRec h hok
          exact (hc.fields (o' := { copyRec w o with members := ids }) rfl rfl (fun x => x)).congrAt
            (hp _ (by show w.nDict < w.nDict + 1; exact Nat.lt_succ_self _)) hn
      · exact h
      · split
        · exact h
        · next w' n hi => exact WF_inverseLeaf h ho hi
  | link_ a b =>
    simp only [step]
    split
    · exact h
    · next o ho =>
      split
      · exact h
      · have := WF_linkInto h (h.objs a o ho) a b
        split <;> simp_all
  | link a b =>
    simp only [step]
    split
    · exact h
    · next o ho =>
      split
      · exact h
      · split
        · exact h
        · have := WF_linkInto (WF_copyObj h (h.objs a o ho)) (ObjOK_copyRec h (h.objs a o ho)) (copyObj w o).2 b
          split
          · next w' hl => exact WF_fst_of_eq hl this
          · exact h
  | unlink_ id =>
    simp only [step]
    split
    · exact h
    · next o ho =>
      split
      · exact h
      · split
        · next w' hu => exact WF_unlinkInto h (h.objs id o ho) hu
        · exact h
  | unlink id =>
    simp only [step]
    split
    · exact h
    · next o ho =>
      split
      · exact h
      · split
        · next w' hu => exact WF_unlinkInto (WF_copyObj h (h.objs id o ho)) (ObjOK_copyRec h (h.objs id o ho)) hu
        · exact h
  | data_ id v =>
    simp only [step]
    split
    · exact h
    · next o ho =>
      split
      · exact h
      · split
        · next w' hd => exact WF_dataSet h (h.objs id o ho) hd
        · exact h
  | dataCopy id v =>
    simp only [step]
    split
    · exact h
    · next o ho =>
      have hok := h.objs id o ho
      split
      · exact h
      · split
        · exact h
        · split
          · exact h
          · next w' hd =>
            -- the copy's record (possibly without `p`) in the world with its new container
            have key : ∀ oc : Obj, oc.slot = o.slot → oc.pdict = o.pdict →
                assignData { w.copyDict oc.pdict with nObj := w.nObj + 1 } w.nObj (copyRec w oc) (w.lookup o) (.lit v) = .ok w' →
                WF w' := by
              intro oc hs hp hd'
              have hokc : ObjOK w { o with p := o.p } := hok
              obtain ⟨h1, h2⟩ := copyRec_ok h hok
              have h1' : WF { w.copyDict oc.pdict with nObj := w.nObj + 1 } := by
                rw [hp]; exact WF_of_frame h1 rfl rfl rfl
              have hpk : ({ w.copyDict oc.pdict with nObj := w.nObj + 1 } : World).pdicts (copyRec w oc).pdict = w.pdicts o.pdict := by
                simp [World.copyDict, copyRec, hp]
              refine WF_assignData h1' ?_ ?_ ?_ ?_ hd'
              · intro hk; rw [hpk] at hk; show oc.slot = .absent; rw [hs]; exact hok.famAbsent hk
              · show w.nDict < w.nDict + 1; exact Nat.lt_succ_self _
              · show SlotFine oc.slot; rw [hs]; exact hok.slotFine
              · intro c hc; rw [hpk]; exact lookup_param_key hok.slotFine hc
            by_cases hcall : (w.lookup o).callable = true
            · simp only [hcall, if_true] at hd
              exact key { o with p := none } rfl rfl hd
            · simp only [hcall, if_false] at hd
              exact key o rfl rfl hd
  | dataGet id =>
    simp only [step]
    split
    · exact h
    · split
      · exact h
      · split <;> exact h
  | inplace id v =>
    simp only [step]
    split
    · exact h
    · split
      · exact h.setCell _ _
      · exact h.setCell _ _
      · exact h
  | grid_ id g =>
    simp only [step]
    split
    · exact h
    · next o ho =>
      have := WF_gridSet h ho g
      split <;> simp_all
  | gridCopy id g =>
    simp only [step]
    split
    · exact h
    · next o ho =>
      split
      · exact h
      · next oc hoc =>
        have := WF_gridSet (WF_copyAny h (h.objs id o ho)) hoc g
        split
        · next w' hg => exact WF_fst_of_eq hg this
        · exact h
  | condition_ id c =>
    simp only [step]
    split
    · exact h
    · exact WF_condSet h id c
  | condCopy id c =>
    simp only [step]
    split
    · exact h
    · next o ho => exact WF_condSet (WF_copyAny h (h.objs id o ho)) _ c
  | reset id =>
    simp only [step]
    split
    · exact h
    · split
      · exact h
      · split
        · next w' hr => exact WF_resetParams h hr
        · exact h
  | update id =>
    simp only [step]
    split
    · exact h
    · next o ho =>
      split
      · have := WF_updateMembers h o.members
        split <;> simp_all
      · split
        · next w' hu => exact WF_updateLeaf h ho hu
        · exact h
  | call id =>
    simp only [step]
    split
    · exact h
    · next o ho =>
      split
      · have h1 := WF_updateMembers h o.members
        split
        · simp_all
        · next w1 hu =>
          have hw1 : WF w1 := WF_fst_of_eq hu h1
          have h2 := WF_tensorMembers hw1 o.members
          split
          · next w2 obs ht => exact WF_fst_of_eq ht h2
          · next w2 e ht => exact WF_fst_of_eq ht h2
      · split
        · exact h
        · next w1 hu =>
          have h1 := WF_updateLeaf h ho hu
          split
          · next w2 ob ht => exact WF_tensorLeaf h1 ht
          · exact h1
  | disp id =>
    simp only [step]
    split
    · exact h
    · next o ho =>
      split
      · have h2 := WF_tensorMembers h o.members
        split <;> simp_all
      · split
        · next w2 ob ht => exact WF_tensorLeaf h ht
        · exact h
  | clear id =>
    simp only [step]
    split
    · exact h
    · exact WF_clearObj h id

end Deepali.TState
