/-
  Proofs/TransformStateAlloc.lean — allocation invariant of the transform state machine: every
  tensor (cell) an object refers to — through its `params` slot, its `_parameters` container, its
  buffers `p`, `u`, `v` — has been allocated. Needed to show that evaluating one member of a
  composite (which may allocate a new tensor) does not disturb what another member holds.
-/
import Deepali.Proofs.TransformStateCurrent

set_option linter.unusedSectionVars false
set_option linter.unusedVariables false

namespace Deepali.TState

def Val.cellsLt (n : Nat) : Val → Prop
  | .param c | .tensor c => c < n
  | _ => True

def Slot.cellsLt (n : Nat) : Slot → Prop
  | .dict v => v.cellsLt n
  | .buf (some c) => c < n
  | .mod (some m) => m.cellsLt n
  | _ => True

def UBuf.cellsLt (n : Nat) : UBuf → Prop
  | .view c _ _ => c < n
  | .snap _ => True

structure ObjCA (n : Nat) (o : Obj) : Prop where
  slot : o.slot.cellsLt n
  p : ∀ c, o.p = some c → c < n
  u : ∀ b, o.u = some b → b.cellsLt n
  v : ∀ b, o.v = some b → b.cellsLt n

/-- every referenced tensor is allocated. -/
structure CA (w : World) : Prop where
  objs : ∀ id o, w.objs id = some o → ObjCA w.nCell o
  pd : ∀ k c, w.pdicts k = some (some c) → c < w.nCell

theorem CA_empty : CA World.empty :=
  ⟨fun id o h => by simp [World.empty] at h, fun k c h => by simp [World.empty] at h⟩

theorem Val.cellsLt.mono {n m : Nat} (h : n ≤ m) : ∀ {v : Val}, v.cellsLt n → v.cellsLt m
  | .param c, hc => Nat.lt_of_lt_of_le hc h
  | .tensor c, hc => Nat.lt_of_lt_of_le hc h
  | .none, _ => trivial
  | .fn _, _ => trivial
  | .fnmod _, _ => trivial
  | .obj _, _ => trivial

theorem Slot.cellsLt.mono {n m : Nat} (h : n ≤ m) {s : Slot} (hs : s.cellsLt n) : s.cellsLt m := by
  cases s with
  | absent => trivial
  | dict v => exact Val.cellsLt.mono h hs
  | buf b => cases b with
    | none => trivial
    | some c => exact Nat.lt_of_lt_of_le hs h
  | mod m' => cases m' with
    | none => trivial
    | some x => exact Val.cellsLt.mono h hs

theorem UBuf.cellsLt.mono {n m : Nat} (h : n ≤ m) {b : UBuf} (hb : b.cellsLt n) : b.cellsLt m := by
  cases b with
  | snap o => trivial
  | view c g i => exact Nat.lt_of_lt_of_le hb h

theorem ObjCA.mono {n m : Nat} (h : n ≤ m) {o : Obj} (ho : ObjCA n o) : ObjCA m o :=
  ⟨Slot.cellsLt.mono h ho.slot, fun c hc => Nat.lt_of_lt_of_le (ho.p c hc) h,
   fun b hb => UBuf.cellsLt.mono h (ho.u b hb), fun b hb => UBuf.cellsLt.mono h (ho.v b hb)⟩

/-- what `params` resolves to refers to an allocated tensor. -/
theorem CA.lookup {w : World} (h : CA w) {o : Obj} (ho : ObjCA w.nCell o) : (w.lookup o).cellsLt w.nCell := by
  unfold World.lookup
  cases hs : o.slot with
  | dict v => have := ho.slot; rw [hs] at this; exact this
  | absent =>
    simp only
    cases hp : w.pdicts o.pdict with
    | none => trivial
    | some e => cases e with
      | none => trivial
      | some c => exact h.pd _ _ hp
  | buf b =>
    simp only
    cases hp : w.pdicts o.pdict with
    | none => cases b with
      | none => trivial
      | some c => have := ho.slot; rw [hs] at this; exact this
    | some e => cases e with
      | none => trivial
      | some c => exact h.pd _ _ hp
  | mod m =>
    simp only
    cases hp : w.pdicts o.pdict with
    | none => cases m with
      | none => trivial
      | some x => have := ho.slot; rw [hs] at this; exact this
    | some e => cases e with
      | none => trivial
      | some c => exact h.pd _ _ hp

theorem CA.dataCell {w : World} (h : CA w) {o : Obj} (ho : ObjCA w.nCell o) {c : Nat}
    (hd : dataCell w o = .ok c) : c < w.nCell := by
  have hl := h.lookup ho
  unfold TState.dataCell at hd
  cases hv : w.lookup o with
  | none => simp [hv] at hd
  | param c' => simp [hv] at hd; subst hd; rw [hv] at hl; exact hl
  | tensor c' => simp [hv] at hd; subst hd; rw [hv] at hl; exact hl
  | fn f => simp only [hv] at hd; cases hp : o.p with
    | none => simp [hp] at hd
    | some c' => simp [hp] at hd; subst hd; exact ho.p _ hp
  | fnmod f => simp only [hv] at hd; cases hp : o.p with
    | none => simp [hp] at hd
    | some c' => simp [hp] at hd; subst hd; exact ho.p _ hp
  | obj s => simp only [hv] at hd; cases hp : o.p with
    | none => simp [hp] at hd
    | some c' => simp [hp] at hd; subst hd; exact ho.p _ hp

/-- writing an object whose references are allocated. -/
theorem CA.setObj {w : World} (h : CA w) (id : Nat) {o : Obj} (ho : ObjCA w.nCell o) : CA (w.setObj id o) := by
  refine ⟨?_, h.pd⟩
  intro i x hx
  by_cases hi : i = id
  · simp [World.setObj, hi] at hx; subst hx; exact ho
  · simp [World.setObj, hi] at hx; exact h.objs i x hx

theorem CA.newCell {w : World} (h : CA w) (c : Content) (sg : Nat) : CA (w.newCell c sg).1 :=
  ⟨fun i x hx => (h.objs i x hx).mono (Nat.le_succ _), fun k c' hk => Nat.lt_succ_of_lt (h.pd k c' hk)⟩

theorem registerUV_CA {n : Nat} (w : World) {o : Obj} (ho : ObjCA n o) {c : Nat} (hc : c < n) :
    ObjCA n (registerUV w o c) := by
  unfold registerUV
  cases hcl : o.cls with
  | dvf a =>
    refine ⟨ho.slot, ho.p, ?_, ho.v⟩
    intro b hb
    simp only [Option.some.injEq] at hb
    subst hb
    split
    · exact hc
    · trivial
  | svf a =>
    refine ⟨ho.slot, ho.p, ?_, ?_⟩
    · intro b hb; simp only [Option.some.injEq] at hb; subst hb; trivial
    · intro b hb
      simp only [Option.some.injEq] at hb
      subst hb
      split
      · exact hc
      · trivial
  | ffd =>
    refine ⟨ho.slot, ho.p, ?_, ho.v⟩
    intro b hb; simp only [Option.some.injEq] at hb; subst hb; trivial
  | svffd =>
    refine ⟨ho.slot, ho.p, ?_, ?_⟩
    · intro b hb; simp only [Option.some.injEq] at hb; subst hb; trivial
    · intro b hb; simp only [Option.some.injEq] at hb; subst hb; trivial
  | seq => exact ho
  | multi => exact ho

theorem CA_updateLeaf {w w' : World} {id : Nat} {o : Obj} (h : CA w) (ho : w.objs id = some o)
    (hu : updateLeaf w id o = .ok w') : CA w' := by
  have hoca := h.objs id o ho
  unfold updateLeaf at hu
  cases hp : o.p with
  | none =>
    simp only [hp] at hu
    cases hd : dataCell w o with
    | error e => simp [hd] at hu
    | ok c =>
      simp only [hd, Except.ok.injEq] at hu; subst hu
      exact h.setObj id (registerUV_CA w hoca (h.dataCell hoca hd))
  | some pc =>
    simp only [hp] at hu
    cases hf : freshData w o with
    | error e => simp [hf] at hu
    | ok r =>
      obtain ⟨w1, c1⟩ := r
      simp only [hf] at hu
      -- the refreshed `p` is allocated in `w1`, and `w1` is `w` or `w` plus one cell
      have h1 : CA w1 ∧ c1 < w1.nCell ∧ ObjCA w1.nCell o := by
        unfold freshData at hf
        cases hv : w.lookup o with
        | none => simp [hv] at hf
        | param c =>
          simp only [hv, Except.ok.injEq, Prod.mk.injEq] at hf; obtain ⟨rfl, rfl⟩ := hf
          have := h.lookup hoca; rw [hv] at this; exact ⟨h, this, hoca⟩
        | tensor c =>
          simp only [hv, Except.ok.injEq, Prod.mk.injEq] at hf; obtain ⟨rfl, rfl⟩ := hf
          have := h.lookup hoca; rw [hv] at this; exact ⟨h, this, hoca⟩
        | fn f =>
          simp only [hv, Except.ok.injEq, World.newCell, Prod.mk.injEq] at hf; obtain ⟨rfl, rfl⟩ := hf
          exact ⟨h.newCell _ _, Nat.lt_succ_self _, hoca.mono (Nat.le_succ _)⟩
        | fnmod f =>
          simp only [hv, Except.ok.injEq, World.newCell, Prod.mk.injEq] at hf; obtain ⟨rfl, rfl⟩ := hf
          exact ⟨h.newCell _ _, Nat.lt_succ_self _, hoca.mono (Nat.le_succ _)⟩
        | obj s =>
          simp only [hv] at hf
          cases hs : w.objs s with
          | none => simp [hs] at hf
          | some so =>
            simp only [hs] at hf
            cases hd : dataCell w so with
            | error e => simp [hd] at hf
            | ok c =>
              simp only [hd, Except.ok.injEq, Prod.mk.injEq] at hf; obtain ⟨rfl, rfl⟩ := hf
              exact ⟨h, h.dataCell (h.objs s so hs) hd, hoca⟩
      obtain ⟨hca1, hc1, hoca1⟩ := h1
      have hoca1' : ObjCA w1.nCell { o with p := some c1 } :=
        ⟨hoca1.slot, fun c hc => by simp only [Option.some.injEq] at hc; subst hc; exact hc1, hoca1.u, hoca1.v⟩
      cases hd : dataCell w1 { o with p := some c1 } with
      | error e => simp [hd] at hu
      | ok c =>
        simp only [hd, Except.ok.injEq] at hu; subst hu
        exact hca1.setObj id (registerUV_CA w1 hoca1' (hca1.dataCell hoca1' hd))

/-! ### primitives -/

theorem CA.addObj {w : World} (h : CA w) {o : Obj} (ho : ObjCA w.nCell o) : CA (w.addObj o).1 := by
  refine ⟨?_, h.pd⟩
  intro i x hx
  by_cases hi : i = w.nObj
  · simp [World.addObj, hi] at hx; subst hx; exact ho
  · simp [World.addObj, hi] at hx; exact h.objs i x hx

theorem CA.setCell {w : World} (h : CA w) (k : Nat) (c : Content) : CA (w.setCell k c) :=
  ⟨h.objs, h.pd⟩

theorem CA.setPdict {w : World} (h : CA w) (k : Nat) {e : Option Nat} (he : ∀ c, e = some c → c < w.nCell) :
    CA (w.setPdict k e) := by
  refine ⟨h.objs, ?_⟩
  intro j c hj
  by_cases hjk : j = k
  · simp [World.setPdict, hjk] at hj; exact he c hj
  · simp [World.setPdict, hjk] at hj; exact h.pd j c hj

theorem CA.delPdict {w : World} (h : CA w) (k : Nat) : CA (w.delPdict k) := by
  refine ⟨h.objs, ?_⟩
  intro j c hj
  by_cases hjk : j = k
  · simp [World.delPdict, hjk] at hj
  · simp [World.delPdict, hjk] at hj; exact h.pd j c hj

theorem CA.copyDict {w : World} (h : CA w) (k : Nat) : CA (w.copyDict k) := by
  refine ⟨h.objs, ?_⟩
  intro j c hj
  by_cases hjk : j = w.nDict
  · simp [World.copyDict, hjk] at hj; exact h.pd k c hj
  · simp [World.copyDict, hjk] at hj; exact h.pd j c hj

theorem CA_of_frame {w w' : World} (h : CA w) (ho : w'.objs = w.objs) (hp : w'.pdicts = w.pdicts)
    (hn : w'.nCell = w.nCell) : CA w' :=
  ⟨fun i x hx => by rw [hn]; exact h.objs i x (by rw [← ho]; exact hx),
   fun k c hk => by rw [hn]; exact h.pd k c (by rw [← hp]; exact hk)⟩

theorem ObjCA.clearUV {n : Nat} {o : Obj} (h : ObjCA n o) : ObjCA n { o with u := none, v := none } :=
  ⟨h.slot, h.p, (fun b hb => by cases hb), (fun b hb => by cases hb)⟩

theorem CA_clearLeaf {w : World} (h : CA w) (id : Nat) : CA (clearLeaf w id) := by
  unfold clearLeaf
  split
  · next o ho => exact h.setObj id (h.objs id o ho).clearUV
  · exact h

theorem CA_foldl_clearLeaf {w : World} (h : CA w) (ms : List Nat) : CA (ms.foldl clearLeaf w) := by
  induction ms generalizing w with
  | nil => exact h
  | cons m ms ih => exact ih (CA_clearLeaf h m)

theorem CA_clearObj {w : World} (h : CA w) (id : Nat) : CA (clearObj w id) := by
  unfold clearObj
  split
  · exact CA_foldl_clearLeaf (CA_clearLeaf h id) _
  · exact h

theorem nCell_clearLeaf (w : World) (id : Nat) : (clearLeaf w id).nCell = w.nCell := by
  unfold clearLeaf; split <;> rfl

/-- rewrite fields that carry no tensor reference. -/
theorem CA_setField {w : World} (h : CA w) (id : Nat) (f : Obj → Obj)
    (hf : ∀ o, (f o).slot = o.slot ∧ (f o).p = o.p ∧ (f o).u = o.u ∧ (f o).v = o.v) :
    CA (match w.objs id with | some o => w.setObj id (f o) | none => w) := by
  split
  · next o ho =>
    have ok := h.objs id o ho
    obtain ⟨a, b, c, d⟩ := hf o
    exact h.setObj id ⟨by rw [a]; exact ok.slot, by rw [b]; exact ok.p, by rw [c]; exact ok.u, by rw [d]; exact ok.v⟩
  · exact h

/-! ### `self.params = val` -/

theorem setParams_CA {w w2 : World} {o o2 : Obj} {val : Val} (h : CA w) (ho : ObjCA w.nCell o)
    (hv : val.cellsLt w.nCell) (hs : setParams w o val = .ok (w2, o2)) :
    CA w2 ∧ ObjCA w2.nCell o2 ∧ w2.nCell = w.nCell := by
  unfold setParams at hs
  have slotOnly : ∀ s' : Slot, s'.cellsLt w.nCell → ObjCA w.nCell { o with slot := s' } :=
    fun s' hs' => ⟨hs', ho.p, ho.u, ho.v⟩
  cases val with
  | param c =>
    simp only [Except.ok.injEq, Prod.mk.injEq] at hs
    obtain ⟨rfl, rfl⟩ := hs
    exact ⟨h.setPdict _ (fun c' hc' => by cases hc'; exact hv), slotOnly .absent trivial, rfl⟩
  | none =>
    cases hk : w.pdicts o.pdict with
    | some e =>
      simp only [hk, Except.ok.injEq, Prod.mk.injEq] at hs
      obtain ⟨rfl, rfl⟩ := hs
      exact ⟨h.setPdict _ (fun c' hc' => by cases hc'), ho, rfl⟩
    | none =>
      simp only [hk] at hs
      cases hsl : o.slot <;> simp only [hsl, Except.ok.injEq, Prod.mk.injEq] at hs <;> obtain ⟨rfl, rfl⟩ := hs
      all_goals exact ⟨h, slotOnly _ trivial, rfl⟩
  | tensor c =>
    cases hk : w.pdicts o.pdict with
    | some e => simp [hk] at hs
    | none =>
      simp only [hk] at hs
      cases hsl : o.slot with
      | mod m => simp [hsl] at hs
      | absent =>
        simp only [hsl, Except.ok.injEq, Prod.mk.injEq] at hs; obtain ⟨rfl, rfl⟩ := hs
        exact ⟨h, slotOnly _ hv, rfl⟩
      | dict v =>
        simp only [hsl, Except.ok.injEq, Prod.mk.injEq] at hs; obtain ⟨rfl, rfl⟩ := hs
        exact ⟨h, slotOnly _ hv, rfl⟩
      | buf b =>
        simp only [hsl, Except.ok.injEq, Prod.mk.injEq] at hs; obtain ⟨rfl, rfl⟩ := hs
        exact ⟨h, slotOnly _ hv, rfl⟩
  | fn f =>
    cases hk : w.pdicts o.pdict with
    | some e => simp [hk] at hs
    | none =>
      simp only [hk] at hs
      cases hsl : o.slot with
      | mod m => simp [hsl] at hs
      | buf b => simp [hsl] at hs
      | absent =>
        simp only [hsl, Except.ok.injEq, Prod.mk.injEq] at hs; obtain ⟨rfl, rfl⟩ := hs
        exact ⟨h, slotOnly _ trivial, rfl⟩
      | dict v =>
        simp only [hsl, Except.ok.injEq, Prod.mk.injEq] at hs; obtain ⟨rfl, rfl⟩ := hs
        exact ⟨h, slotOnly _ trivial, rfl⟩
  | fnmod f =>
    cases hk : w.pdicts o.pdict with
    | some e => simp [hk] at hs
    | none =>
      simp only [hk, Except.ok.injEq, Prod.mk.injEq] at hs; obtain ⟨rfl, rfl⟩ := hs
      exact ⟨h, slotOnly _ trivial, rfl⟩
  | obj s =>
    cases hk : w.pdicts o.pdict with
    | some e => simp [hk] at hs
    | none =>
      simp only [hk, Except.ok.injEq, Prod.mk.injEq] at hs; obtain ⟨rfl, rfl⟩ := hs
      exact ⟨h, slotOnly _ trivial, rfl⟩

/-! ### compound operations -/

theorem CA_tensorLeaf {w w' : World} {id : Nat} {ob : Obs} (h : CA w)
    (ht : tensorLeaf w id = .ok (w', ob)) : CA w' := by
  unfold tensorLeaf at ht
  split at ht
  · cases ht
  · next o ho =>
    split at ht
    · simp only [Except.ok.injEq, Prod.mk.injEq] at ht; obtain ⟨rfl, _⟩ := ht; exact h
    · split at ht
      · cases ht
      · next w1 hu =>
        have h1 := CA_updateLeaf h ho hu
        split at ht
        · simp only [Except.ok.injEq, Prod.mk.injEq] at ht; obtain ⟨rfl, _⟩ := ht; exact h1
        · cases ht

theorem CA_updateMembers {w : World} (h : CA w) (ms : List Nat) : CA (updateMembers w ms).1 := by
  induction ms generalizing w with
  | nil => exact h
  | cons m ms ih =>
    unfold updateMembers
    split
    · exact h
    · next o ho =>
      split
      · exact h
      · next w' hu => exact ih (CA_updateLeaf h ho hu)

theorem CA_tensorMembers {w : World} (h : CA w) (ms : List Nat) : CA (tensorMembers w ms).1 := by
  induction ms generalizing w with
  | nil => exact h
  | cons m ms ih =>
    unfold tensorMembers
    split
    · exact h
    · next w' ob ht =>
      have h' := ih (CA_tensorLeaf h ht)
      split <;> simp_all

theorem CA_linkCore {w : World} (h : CA w) {o : Obj} (ho : ObjCA w.nCell o) (id oid : Nat) {other : Obj}
    (hother : w.objs oid = some other) : CA (linkCore w id o oid other).1 := by
  unfold linkCore
  cases hs : setParams w o (.obj oid) with
  | error e => exact h
  | ok r =>
    obtain ⟨w1, o1⟩ := r
    obtain ⟨h1, ho1, hn⟩ := setParams_CA (val := .obj oid) h ho trivial hs
    have hw1 := setParams_obj_frame hs; subst hw1
    simp only
    cases hp : o1.p with
    | some pc => exact h1.setObj id ho1
    | none =>
      simp only
      split
      · apply CA_clearLeaf
        refine (h1.newCell _ _).setObj id ?_
        exact ⟨Slot.cellsLt.mono (Nat.le_succ _) ho1.slot,
          (fun c hc => by simp only [Option.some.injEq] at hc; subst hc; exact Nat.lt_succ_self _),
          (fun b hb => UBuf.cellsLt.mono (Nat.le_succ _) (ho1.u b hb)),
          (fun b hb => UBuf.cellsLt.mono (Nat.le_succ _) (ho1.v b hb))⟩
      · cases hd : dataCell w1 other with
        | error e => exact h1.setObj id ho1
        | ok c =>
          simp only
          have hc := h1.dataCell (h1.objs oid other hother) hd
          exact h1.setObj id ⟨ho1.slot, (fun c' hc' => by simp only [Option.some.injEq] at hc'; subst hc'; exact hc),
            ho1.u, ho1.v⟩

theorem CA_linkInto {w : World} (h : CA w) {o : Obj} (ho : ObjCA w.nCell o) (id oid : Nat) :
    CA (linkInto w id o oid).1 := by
  unfold linkInto
  split
  · exact h
  · split
    · exact h
    · next other hother =>
      split
      · exact h
      · split
        · exact CA_linkCore (h.delPdict _) ho id oid hother
        · exact CA_linkCore h ho id oid hother

theorem CA_unlinkInto {w w' : World} (h : CA w) {o : Obj} (ho : ObjCA w.nCell o) {id : Nat}
    (hu : unlinkInto w id o = .ok w') : CA w' := by
  unfold unlinkInto at hu
  cases hs : setParams w o .none with
  | error e => simp [hs] at hu
  | ok r =>
    obtain ⟨w1, o1⟩ := r
    simp only [hs, Except.ok.injEq] at hu; subst hu
    obtain ⟨h1, ho1, _⟩ := setParams_CA (val := .none) h ho trivial hs
    exact h1.setObj id ⟨ho1.slot, (fun c hc => by cases hc), ho1.u, ho1.v⟩

theorem wrapLike_cellsLt {n : Nat} (cur : Val) {c : Nat} (hc : c < n) : (wrapLike cur c).cellsLt n := by
  cases cur <;> exact hc

theorem CA_assignData {w w' : World} (h : CA w) {o : Obj} (ho : ObjCA w.nCell o) {id : Nat} {cur : Val}
    {ver : Content} (hd : assignData w id o cur ver = .ok w') : CA w' := by
  unfold assignData at hd
  simp only at hd
  split at hd
  · cases hd
  · next w2 o2 hs =>
    simp only [Except.ok.injEq] at hd; subst hd
    obtain ⟨h2, ho2, _⟩ := setParams_CA (h.newCell ver o.grid) (ho.mono (Nat.le_succ _))
      (wrapLike_cellsLt cur (Nat.lt_succ_self _)) hs
    exact CA_clearLeaf (h2.setObj id ho2) id

theorem CA_dataSet {w w' : World} (h : CA w) {o : Obj} (ho : ObjCA w.nCell o) {id : Nat} {ver : Content}
    (hd : dataSet w id o ver = .ok w') : CA w' := by
  unfold dataSet at hd
  split at hd
  · cases hd
  · exact CA_assignData h ho hd

theorem CA_baseGrid {w : World} (h : CA w) (id : Nat) (o : Obj) (g : Nat) : CA (baseGrid w id o g) := by
  unfold baseGrid
  split
  · exact h
  · exact CA_setField (CA_clearObj h id) id (fun o => { o with grid := g }) (fun o => ⟨rfl, rfl, rfl, rfl⟩)

theorem CA_gridSet {w : World} (h : CA w) {id : Nat} {o : Obj} (ho : w.objs id = some o) (g : Nat) :
    CA (gridSet w id o g).1 := by
  have hoca := h.objs id o ho
  have hcl : ObjCA w.nCell { o with u := none, v := none, grid := g } :=
    ⟨hoca.slot, hoca.p, (fun b hb => by cases hb), (fun b hb => by cases hb)⟩
  unfold gridSet
  split
  · exact CA_baseGrid h id o g
  · split
    · split
      · next c hv =>
        split
        · exact h
        · split
          · dsimp only
            split
            · next w2 hd => exact CA_dataSet (h.setObj id hcl) hcl hd
            · exact h.setObj id hcl
          · exact h
      · next c hv =>
        split
        · exact h
        · split
          · dsimp only
            split
            · next w2 hd => exact CA_dataSet (h.setObj id hcl) hcl hd
            · exact h.setObj id hcl
          · exact h
      · split
        · exact h
        · exact h.setObj id hcl
    · have hb := CA_baseGrid h id o g
      have key : ∀ c : Nat, CA (match (baseGrid w id o g).objs id with
          | none => (baseGrid w id o g, some Err.noobj)
          | some o1 =>
            match dataSet (baseGrid w id o g) id o1 (w.cells c) with
            | .ok w2 => (w2, none)
            | .error e => ((baseGrid w id o g).setObj id { o1 with grid := o.grid }, some e)).1 := by
        intro c
        split
        · exact hb
        · next o1 ho1 =>
          have ok1 := hb.objs id o1 ho1
          split
          · next w2 hd => exact CA_dataSet hb ok1 hd
          · exact hb.setObj id ⟨ok1.slot, ok1.p, ok1.u, ok1.v⟩
      split
      · exact key _
      · exact key _
      · exact hb

theorem CA_condOne {w : World} (h : CA w) (c i : Nat) : CA (condOne c w i) :=
  CA_setField (CA_clearLeaf h i) i (fun o => { o with cond := c }) (fun o => ⟨rfl, rfl, rfl, rfl⟩)

theorem CA_foldl_condOne {w : World} (h : CA w) (c : Nat) (ms : List Nat) : CA (ms.foldl (condOne c) w) := by
  induction ms generalizing w with
  | nil => exact h
  | cons m ms ih => exact ih (CA_condOne h c m)

theorem CA_condSet {w : World} (h : CA w) (id c : Nat) : CA (condSet w id c) := by
  unfold condSet
  split
  · exact h
  · exact CA_foldl_condOne
      (CA_setField (CA_clearObj h id) id (fun o => { o with cond := c }) (fun o => ⟨rfl, rfl, rfl, rfl⟩)) c _

theorem CA_resetParams {w w' : World} (h : CA w) {id : Nat} {o : Obj} (hr : resetParams w id o = .ok w') :
    CA w' := by
  unfold resetParams at hr
  split at hr
  · simp only [Except.ok.injEq] at hr; subst hr; exact h
  · simp only [Except.ok.injEq] at hr; subst hr; exact CA_clearLeaf (h.setCell _ _) id
  · simp only [Except.ok.injEq] at hr; subst hr; exact CA_clearLeaf (h.setCell _ _) id
  · split at hr
    · simp only [Except.ok.injEq] at hr; subst hr; exact CA_clearLeaf (h.setCell _ _) id
    · cases hr

theorem ObjCA.copyRec {n : Nat} (w : World) {o : Obj} (h : ObjCA n o) : ObjCA n (copyRec w o) :=
  ⟨h.slot, h.p, h.u, h.v⟩

theorem CA_copyObj {w : World} (h : CA w) {o : Obj} (ho : ObjCA w.nCell o) : CA (copyObj w o).1 :=
  (h.copyDict o.pdict).addObj (ho.copyRec w)

theorem invFinish_CA {n : Nat} (w : World) {oi : Obj} (h : ObjCA n oi) (inv ub : Bool) :
    ObjCA n (invFinish w oi inv ub) := by
  unfold invFinish
  split
  · split
    · exact ⟨h.slot, h.p, (fun b hb => by simp only [Option.some.injEq] at hb; subst hb; trivial), h.v⟩
    · exact ⟨h.slot, h.p, h.u, h.v⟩
  · exact ⟨h.slot, h.p, h.u, h.v⟩

theorem CA_inverseLeaf {w w' : World} (h : CA w) {id nid : Nat} {o : Obj} (ho : w.objs id = some o)
    {link ub : Bool} (hi : inverseLeaf w id o link ub = .ok (w', nid)) : CA w' := by
  have hoca := h.objs id o ho
  unfold inverseLeaf at hi
  have h1 : CA (copyObj w o).1 := CA_copyObj h hoca
  split at hi
  · simp only at hi
    have hr : CA ((if link = true then linkInto (copyObj w o).1 (copyObj w o).2 (copyRec w o) id
        else ((copyObj w o).1, none)) : World × Option Err).1 := by
      split
      · exact CA_linkInto h1 (hoca.copyRec w) _ _
      · exact h1
    split at hi
    · cases hi
    · split at hi
      · cases hi
      · next oi hoi =>
        simp only [Except.ok.injEq, Prod.mk.injEq] at hi
        obtain ⟨rfl, _⟩ := hi
        exact hr.setObj _ (invFinish_CA _ (hr.objs _ oi hoi) _ _)
  · cases hi

theorem CA_inverseMembers {w w' : World} (h : CA w) {link ub : Bool} {ms ids : List Nat}
    (hi : inverseMembers w link ub ms = .ok (w', ids)) : CA w' := by
  induction ms generalizing w ids with
  | nil => simp [inverseMembers] at hi; obtain ⟨rfl, _⟩ := hi; exact h
  | cons m ms ih =>
    unfold inverseMembers at hi
    split at hi
    · cases hi
    · next o ho =>
      split at hi
      · cases hi
      · next w1 nid h1 =>
        split at hi
        · cases hi
        · next w2 ids2 h2 =>
          simp only [Except.ok.injEq, Prod.mk.injEq] at hi
          obtain ⟨rfl, _⟩ := hi
          exact ih (CA_inverseLeaf h ho h1) h2

/-- cell counter never decreases along `inverseMembers` (to transport the composite copy's record). -/
theorem nCell_mono_of_CA_objs {w w' : World} {o : Obj} (ho : ObjCA w.nCell o) (hn : w.nCell ≤ w'.nCell) :
    ObjCA w'.nCell o := ho.mono hn

theorem CA_bump {w : World} (h : CA w) : CA { w with nDict := w.nDict + 1 } := ⟨h.objs, h.pd⟩

theorem CA_mkLeaf {w : World} (h : CA w) (cls : Cls) (k : Kind) (v g : Nat) : CA (mkLeaf w cls k v g).1 := by
  have hb := CA_bump h
  have base : ∀ n, ObjCA n ⟨cls, w.nDict, .absent, none, none, none, g, 0, false, []⟩ :=
    fun n => ⟨trivial, (fun c hc => by cases hc), (fun b hb => by cases hb), (fun b hb => by cases hb)⟩
  cases k with
  | none =>
    simp only [mkLeaf]
    exact hb.addObj ⟨trivial, (fun c hc => by cases hc), (fun b hb => by cases hb), (fun b hb => by cases hb)⟩
  | param =>
    simp only [mkLeaf]
    refine ((hb.newCell (.lit v) g).setPdict w.nDict (fun c hc => ?_)).addObj (base _)
    simp only [Option.some.injEq] at hc; subst hc; exact Nat.lt_succ_self _
  | buffer =>
    simp only [mkLeaf]
    exact (hb.newCell (.lit v) g).addObj
      ⟨Nat.lt_succ_self _, (fun c hc => by cases hc), (fun b hb => by cases hb), (fun b hb => by cases hb)⟩
  | fn f =>
    simp only [mkLeaf]
    exact (hb.newCell (.lit 0) g).addObj
      ⟨trivial, (fun c hc => by simp only [Option.some.injEq] at hc; subst hc; exact Nat.lt_succ_self _),
       (fun b hb => by cases hb), (fun b hb => by cases hb)⟩
  | fnmod f =>
    simp only [mkLeaf]
    exact (hb.newCell (.lit 0) g).addObj
      ⟨trivial, (fun c hc => by simp only [Option.some.injEq] at hc; subst hc; exact Nat.lt_succ_self _),
       (fun b hb => by cases hb), (fun b hb => by cases hb)⟩

/-! ### the tensor counter never decreases while inverses are created -/

theorem linkCore_nCell (w : World) (id : Nat) (o : Obj) (oid : Nat) (other : Obj) :
    w.nCell ≤ (linkCore w id o oid other).1.nCell := by
  unfold linkCore
  split
  · exact Nat.le_refl _
  · next w1 o1 hs =>
    have := setParams_obj_frame hs; subst this
    split
    · exact Nat.le_refl _
    · split
      · rw [nCell_clearLeaf]; exact Nat.le_succ _
      · split <;> exact Nat.le_refl _

theorem linkInto_nCell (w : World) (id : Nat) (o : Obj) (oid : Nat) :
    w.nCell ≤ (linkInto w id o oid).1.nCell := by
  unfold linkInto
  split
  · exact Nat.le_refl _
  · split
    · exact Nat.le_refl _
    · split
      · exact Nat.le_refl _
      · split
        · exact linkCore_nCell (w.delPdict o.pdict) id o oid _
        · exact linkCore_nCell w id o oid _

theorem inverseLeaf_nCell {w w' : World} {id nid : Nat} {o : Obj} {link ub : Bool}
    (hi : inverseLeaf w id o link ub = .ok (w', nid)) : w.nCell ≤ w'.nCell := by
  unfold inverseLeaf at hi
  split at hi
  · simp only at hi
    have hr : w.nCell ≤ ((if link = true then linkInto (copyObj w o).1 (copyObj w o).2 (copyRec w o) id
        else ((copyObj w o).1, none)) : World × Option Err).1.nCell := by
      split
      · exact linkInto_nCell (copyObj w o).1 _ _ _
      · exact Nat.le_refl _
    split at hi
    · cases hi
    · split at hi
      · cases hi
      · simp only [Except.ok.injEq, Prod.mk.injEq] at hi
        obtain ⟨rfl, _⟩ := hi
        exact hr
  · cases hi

theorem inverseMembers_nCell {w w' : World} {link ub : Bool} {ms ids : List Nat}
    (hi : inverseMembers w link ub ms = .ok (w', ids)) : w.nCell ≤ w'.nCell := by
  induction ms generalizing w ids with
  | nil => simp [inverseMembers] at hi; obtain ⟨rfl, _⟩ := hi; exact Nat.le_refl _
  | cons m ms ih =>
    unfold inverseMembers at hi
    split at hi
    · cases hi
    · split at hi
      · cases hi
      · next w1 nid h1 =>
        split at hi
        · cases hi
        · next w2 ids2 h2 =>
          simp only [Except.ok.injEq, Prod.mk.injEq] at hi
          obtain ⟨rfl, _⟩ := hi
          exact Nat.le_trans (inverseLeaf_nCell h1) (ih h2)

theorem CA_fst_of_eq {α : Type} {f : World × α} {a : World} {b : α} (he : f = (a, b)) (h : CA f.1) : CA a := by
  rw [he] at h; exact h

theorem CA_copyMembers {w : World} (h : CA w) (ms : List Nat) : CA (copyMembers w ms).1 := by
  induction ms generalizing w with
  | nil => exact h
  | cons m ms ih =>
    unfold copyMembers
    split
    · exact ih h
    · next o ho => exact ih (CA_copyObj h (h.objs m o ho))

theorem CA_copyAny {w : World} (h : CA w) {o : Obj} (ho : ObjCA w.nCell o) : CA (copyAny w o).1 := by
  unfold copyAny
  split
  · have h1 := CA_copyObj h ho
    have h2 := CA_copyMembers h1 o.members
    obtain ⟨_, _, hn⟩ := copyMembers_frame (copyObj w o).1 o.members
    refine h2.setObj _ ?_
    have hc : ObjCA (copyMembers (copyObj w o).1 o.members).1.nCell (copyRec w o) := by
      rw [hn]; exact ho.copyRec w
    exact ⟨hc.slot, hc.p, hc.u, hc.v⟩
  · exact CA_copyObj h ho

/-! ### every operation preserves the allocation invariant -/

theorem CA_step {w : World} (h : CA w) (op : Op) : CA (step w op).1 := by
  cases op with
  | mk cls k v g =>
    simp only [step]
    split
    · exact h
    · exact CA_mkLeaf h cls k v g
  | mkcomp cls ms g =>
    simp only [step]
    split
    · exact h
    · split
      · exact (CA_bump h).addObj ⟨trivial, (fun c hc => by cases hc), (fun b hb => by cases hb), (fun b hb => by cases hb)⟩
      · exact h
  | copy id =>
    simp only [step]
    split
    · exact h
    · next o ho => exact CA_copyAny h (h.objs id o ho)
  | inverse id link ub =>
    simp only [step]
    split
    · exact h
    · next o ho =>
      have hoca := h.objs id o ho
      split
      · split
        · exact h
        · next w2 ids hm =>
          have h1 : CA (copyObj w o).1 := CA_copyObj h hoca
          have h2 := CA_inverseMembers h1 hm
          have hn : w.nCell ≤ w2.nCell := inverseMembers_nCell (w := (copyObj w o).1) hm
          refine h2.setObj _ ?_
          have := (hoca.copyRec w).mono hn
          exact ⟨this.slot, this.p, this.u, this.v⟩
      · exact h
      · split
        · exact h
        · next w' n hi => exact CA_inverseLeaf h ho hi
  | link_ a b =>
    simp only [step]
    split
    · exact h
    · next o ho =>
      split
      · exact h
      · have := CA_linkInto h (h.objs a o ho) a b
        split
        · next w' hl => exact CA_fst_of_eq hl this
        · next w' e hl => exact CA_fst_of_eq hl this
  | link a b =>
    simp only [step]
    split
    · exact h
    · next o ho =>
      split
      · exact h
      · split
        · exact h
        · have := CA_linkInto (CA_copyObj h (h.objs a o ho)) ((h.objs a o ho).copyRec w) (copyObj w o).2 b
          split
          · next w' hl => exact CA_fst_of_eq hl this
          · exact h
  | unlink_ id =>
    simp only [step]
    split
    · exact h
    · next o ho =>
      split
      · exact h
      · split
        · next w' hu => exact CA_unlinkInto h (h.objs id o ho) hu
        · exact h
  | unlink id =>
    simp only [step]
    split
    · exact h
    · next o ho =>
      split
      · exact h
      · split
        · next w' hu => exact CA_unlinkInto (CA_copyObj h (h.objs id o ho)) ((h.objs id o ho).copyRec w) hu
        · exact h
  | data_ id v =>
    simp only [step]
    split
    · exact h
    · next o ho =>
      split
      · exact h
      · split
        · next w' hd => exact CA_dataSet h (h.objs id o ho) hd
        · exact h
  | dataCopy id v =>
    simp only [step]
    split
    · exact h
    · next o ho =>
      have hoca := h.objs id o ho
      split
      · exact h
      · split
        · exact h
        · split
          · exact h
          · next w' hd =>
            have key : ∀ oc : Obj, ObjCA w.nCell oc →
                assignData { w.copyDict oc.pdict with nObj := w.nObj + 1 } w.nObj (copyRec w oc) (w.lookup o) (.lit v) = .ok w' →
                CA w' := by
              intro oc hoc hd'
              have h1 : CA { w.copyDict oc.pdict with nObj := w.nObj + 1 } := CA_of_frame (h.copyDict oc.pdict) rfl rfl rfl
              exact CA_assignData h1 (hoc.copyRec w) hd'
            by_cases hcall : (w.lookup o).callable = true
            · simp only [hcall, if_true] at hd
              exact key { o with p := none } ⟨hoca.slot, (fun c hc => by cases hc), hoca.u, hoca.v⟩ hd
            · simp only [hcall, if_false] at hd
              exact key o hoca hd
  | dataGet id =>
    simp only [step]
    split
    · exact h
    · split
      · exact h
      · split <;> exact h
  | inplace id v =>
    simp only [step]
    split
    · exact h
    · split
      · exact h.setCell _ _
      · exact h.setCell _ _
      · exact h
  | grid_ id g =>
    simp only [step]
    split
    · exact h
    · next o ho =>
      have := CA_gridSet h ho g
      split
      · next w' hg => exact CA_fst_of_eq hg this
      · next w' e hg => exact CA_fst_of_eq hg this
  | gridCopy id g =>
    simp only [step]
    split
    · exact h
    · next o ho =>
      split
      · exact h
      · next oc hoc =>
        have := CA_gridSet (CA_copyAny h (h.objs id o ho)) hoc g
        split
        · next w' hg => exact CA_fst_of_eq hg this
        · exact h
  | condition_ id c =>
    simp only [step]
    split
    · exact h
    · exact CA_condSet h id c
  | condCopy id c =>
    simp only [step]
    split
    · exact h
    · next o ho => exact CA_condSet (CA_copyAny h (h.objs id o ho)) _ c
  | reset id =>
    simp only [step]
    split
    · exact h
    · split
      · exact h
      · split
        · next w' hr => exact CA_resetParams h hr
        · exact h
  | update id =>
    simp only [step]
    split
    · exact h
    · next o ho =>
      split
      · have := CA_updateMembers h o.members
        split
        · next w' hu => exact CA_fst_of_eq hu this
        · next w' e hu => exact CA_fst_of_eq hu this
      · split
        · next w' hu => exact CA_updateLeaf h ho hu
        · exact h
  | call id =>
    simp only [step]
    split
    · exact h
    · next o ho =>
      split
      · have h1 := CA_updateMembers h o.members
        split
        · next w1 e hu => exact CA_fst_of_eq hu h1
        · next w1 hu =>
          have hw1 : CA w1 := CA_fst_of_eq hu h1
          have h2 := CA_tensorMembers hw1 o.members
          split
          · next w2 obs ht => exact CA_fst_of_eq ht h2
          · next w2 e ht => exact CA_fst_of_eq ht h2
      · split
        · exact h
        · next w1 hu =>
          have h1 := CA_updateLeaf h ho hu
          split
          · next w2 ob ht => exact CA_tensorLeaf h1 ht
          · exact h1
  | disp id =>
    simp only [step]
    split
    · exact h
    · next o ho =>
      split
      · have h2 := CA_tensorMembers h o.members
        split
        · next w2 obs ht => exact CA_fst_of_eq ht h2
        · next w2 e ht => exact CA_fst_of_eq ht h2
      · split
        · next w2 ob ht => exact CA_tensorLeaf h ht
        · exact h
  | clear id =>
    simp only [step]
    split
    · exact h
    · exact CA_clearObj h id

theorem CA_run {w : World} (h : CA w) (ops : List Op) : CA (run w ops) := by
  unfold run
  induction ops generalizing w with
  | nil => exact h
  | cons op ops ih => exact ih (CA_step h op)

end Deepali.TState
