/-
  Proofs/TransformStateComposite.lean — `call` on a composite (Sequential / MultiLevel): the
  pre-hook updates the members one after the other, `forward` then reads each member's buffer.
  With allocated references (`CA`), distinct members and no member linked to another member,
  every member is observed with exactly what it holds (helper lemmas for Props/C09.lean).
-/
import Deepali.Proofs.TransformStateAlloc

set_option linter.unusedSectionVars false
set_option linter.unusedVariables false

namespace Deepali.TState

/-- `current` of each member, in order; the first failure wins (as in `update()` of a composite). -/
def currents (w : World) : List Nat → Except Err (List Obs)
  | [] => .ok []
  | m :: ms =>
    match current w m with
    | .error e => .error e
    | .ok ob =>
      match currents w ms with
      | .error e => .error e
      | .ok obs => .ok (ob :: obs)

theorem currents_congr {w w' : World} : ∀ {ms : List Nat}, (∀ x ∈ ms, current w' x = current w x) →
    currents w' ms = currents w ms
  | [], _ => rfl
  | y :: ys, h => by
    simp only [currents, h y (List.mem_cons_self ..),
      currents_congr (ms := ys) (fun x hx => h x (List.mem_cons_of_mem _ hx))]

/-- an `update()` of a leaf changes no tensor that existed before. -/
theorem updateLeaf_cells {w w' : World} {id : Nat} {o : Obj} (hu : updateLeaf w id o = .ok w') :
    (∀ c, c < w.nCell → w'.cells c = w.cells c) ∧ w.nCell ≤ w'.nCell := by
  unfold updateLeaf at hu
  have key : ∀ (w1 : World) (o1 : Obj) (c1 : Nat), (w1 = w ∨ ∃ x sg, w1 = (w.newCell x sg).1) →
      w' = w1.setObj id (registerUV w1 o1 c1) →
      (∀ c, c < w.nCell → w'.cells c = w.cells c) ∧ w.nCell ≤ w'.nCell := by
    intro w1 o1 c1 h1 h2
    subst h2
    rcases h1 with rfl | ⟨x, sg, rfl⟩
    · exact ⟨fun _ _ => rfl, Nat.le_refl _⟩
    · refine ⟨fun c hc => ?_, Nat.le_succ _⟩
      have : c ≠ w.nCell := Nat.ne_of_lt hc
      simp [World.setObj, World.newCell, this]
  cases hp : o.p with
  | none =>
    simp only [hp] at hu
    cases hd : dataCell w o with
    | error e => simp [hd] at hu
    | ok c => simp only [hd, Except.ok.injEq] at hu; exact key w o c (Or.inl rfl) hu.symm
  | some pc =>
    simp only [hp] at hu
    cases hf : freshData w o with
    | error e => simp [hf] at hu
    | ok r =>
      obtain ⟨w1, c1⟩ := r
      simp only [hf] at hu
      obtain ⟨_, _, _, hw1⟩ := freshData_spec hf
      cases hd : dataCell w1 { o with p := some c1 } with
      | error e => simp [hd] at hu
      | ok c => simp only [hd, Except.ok.injEq] at hu; exact key w1 _ c hw1 hu.symm

/-- what `w'` may differ from `w` in after updating the members `ms`. -/
structure Ext (ms : List Nat) (w w' : World) : Prop where
  pdicts : w'.pdicts = w.pdicts
  others : ∀ j, j ∉ ms → w'.objs j = w.objs j
  hold : ∀ j o, w.objs j = some o → ∃ o', w'.objs j = some o' ∧ o'.slot = o.slot ∧ o'.pdict = o.pdict
    ∧ o'.cls = o.cls
  cells : ∀ c, c < w.nCell → w'.cells c = w.cells c
  ncell : w.nCell ≤ w'.nCell

theorem Ext.refl (w : World) : Ext [] w w :=
  ⟨rfl, fun _ _ => rfl, fun j o h => ⟨o, h, rfl, rfl, rfl⟩, fun _ _ => rfl, Nat.le_refl _⟩

theorem Ext.cons {m : Nat} {ms : List Nat} {w w1 w' : World} {om : Obj} (hom : w.objs m = some om)
    (hleaf : om.cls.isComposite = false) (hu : updateLeaf w m om = .ok w1) (h2 : Ext ms w1 w') :
    Ext (m :: ms) w w' := by
  obtain ⟨o', c, b, h1, _, _, _, a1, a2, _, _, a5, _, hpd, hoth⟩ := updateLeaf_post hleaf hu
  obtain ⟨hc, hn⟩ := updateLeaf_cells hu
  refine ⟨h2.pdicts.trans hpd, ?_, ?_, ?_, Nat.le_trans hn h2.ncell⟩
  · intro j hj
    have hjm : j ≠ m := fun h => hj (h ▸ List.mem_cons_self ..)
    have hjms : j ∉ ms := fun h => hj (List.mem_cons_of_mem _ h)
    rw [h2.others j hjms, hoth j hjm]
  · intro j o hj
    by_cases hjm : j = m
    · subst hjm
      rw [hom] at hj; cases hj
      obtain ⟨o'', b1, b2, b3, b4⟩ := h2.hold j o' h1
      exact ⟨o'', b1, b2.trans a1, b3.trans a2, b4.trans a5⟩
    · exact h2.hold j o (by rw [hoth j hjm]; exact hj)
  · intro c hc'
    rw [h2.cells c (Nat.lt_of_lt_of_le hc' hn), hc c hc']

/-- `current` of an object is unchanged when neither the object, nor the object it is linked to,
    nor any existing tensor changed. -/
theorem current_stable {w w' : World} (hca : CA w) {x : Nat} {ox : Obj} (hx : w.objs x = some ox)
    (hx' : w'.objs x = some ox) (hpd : w'.pdicts = w.pdicts)
    (hcells : ∀ c, c < w.nCell → w'.cells c = w.cells c)
    (hsrc : ∀ s, w.lookup ox = .obj s → w'.objs s = w.objs s) : current w' x = current w x := by
  have hoca := hca.objs x ox hx
  have hl := hca.lookup hoca
  unfold current
  simp only [hx, hx', lookup_congr hpd]
  cases hv : w.lookup ox with
  | none => rfl
  | param c => rw [hv] at hl; simp only [hcells c hl]
  | tensor c => rw [hv] at hl; simp only [hcells c hl]
  | fn f => rfl
  | fnmod f => rfl
  | obj s =>
    simp only [hsrc s hv]
    cases hs : w.objs s with
    | none => rfl
    | some so =>
      simp only
      have hd : dataCell w' so = dataCell w so := dataCell_congr hpd rfl rfl rfl
      rw [hd]
      cases hdc : dataCell w so with
      | error e => rfl
      | ok c => simp only [hcells c (hca.dataCell (hca.objs s so hs) hdc)]

/-- every member has a registered buffer `u` reading as the given observation. -/
def ReadAll (w : World) : List Nat → List Obs → Prop
  | [], [] => True
  | m :: ms, ob :: obs => (∃ o b, w.objs m = some o ∧ o.u = some b ∧ w.readBuf b = ob) ∧ ReadAll w ms obs
  | _, _ => False

theorem tensorMembers_readAll {w : World} : ∀ {ms : List Nat} {obs : List Obs}, ReadAll w ms obs →
    tensorMembers w ms = (w, .ok obs)
  | [], [], _ => rfl
  | m :: ms, ob :: obs, ⟨⟨o, b, h1, h2, h3⟩, hr⟩ => by
    unfold tensorMembers
    simp only [tensorLeaf, h1, h2, h3, tensorMembers_readAll hr]
  | [], _ :: _, h => by cases h
  | _ :: _, [], h => by cases h

theorem ReadAll.ext {w w' : World} (hca : CA w) : ∀ {ms : List Nat} {obs : List Obs} {us : List Nat},
    ReadAll w ms obs → Ext us w w' → (∀ m ∈ ms, m ∉ us) → ReadAll w' ms obs
  | [], [], _, _, _, _ => trivial
  | m :: ms, ob :: obs, us, ⟨⟨o, b, h1, h2, h3⟩, hr⟩, he, hdis => by
    refine ⟨⟨o, b, ?_, h2, ?_⟩, ReadAll.ext hca hr he (fun x hx => hdis x (List.mem_cons_of_mem _ hx))⟩
    · rw [he.others m (hdis m (List.mem_cons_self ..))]; exact h1
    · rw [← h3]
      cases b with
      | snap s => rfl
      | view c g i =>
        have hlt : c < w.nCell := (hca.objs m o h1).u _ h2
        simp only [World.readBuf, he.cells c hlt]
  | [], _ :: _, _, h, _, _ => by cases h
  | _ :: _, [], _, h, _, _ => by cases h

/-- the pre-hook of a composite: members updated in order. Either the first failing member fails
    exactly as `current` of that member fails, or afterwards every member's buffer reads as its
    `current` in the world BEFORE the call. `L` is the whole member list (independence is relative
    to it), `ms` the members still to be updated. -/
theorem updateMembers_spec (L : List Nat) : ∀ (ms : List Nat) {w : World}, WF w → CA w →
    (∀ m ∈ ms, m ∈ L) → ms.Nodup →
    (∀ m ∈ L, ∀ om, w.objs m = some om → om.cls.isComposite = false) →
    (∀ m ∈ L, ∀ om s, w.objs m = some om → w.lookup om = .obj s → s ∉ L) →
    (match updateMembers w ms with
      | (_, some e) => currents w ms = .error e
      | (w', none) => ∃ obs, currents w ms = .ok obs ∧ ReadAll w' ms obs ∧ Ext ms w w' ∧ WF w' ∧ CA w')
  | [], w, hw, hca, _, _, _, _ => by
    simp only [updateMembers, currents]
    exact ⟨[], rfl, trivial, Ext.refl w, hw, hca⟩
  | m :: ms, w, hw, hca, hsub, hnd, hleaf, hind => by
    have hmL : m ∈ L := hsub m (List.mem_cons_self ..)
    have hmms : m ∉ ms := (List.nodup_cons.mp hnd).1
    have hndt : ms.Nodup := (List.nodup_cons.mp hnd).2
    unfold updateMembers
    cases hom : w.objs m with
    | none =>
      simp only [currents]
      have : current w m = .error .noobj := by unfold current; rw [hom]
      rw [this]
    | some om =>
      have hl := hleaf m hmL om hom
      have key := updateLeaf_current (hw.objs m om hom) hl hom
      simp only
      cases hu : updateLeaf w m om with
      | error e =>
        rw [hu] at key; simp only at key
        simp only [currents, key]
      | ok w1 =>
        rw [hu] at key; simp only at key
        obtain ⟨o', b, h1, h2, h3⟩ := key
        have hw1 := WF_updateLeaf hw hom hu
        have hca1 := CA_updateLeaf hca hom hu
        obtain ⟨o'', c, b', p1, _, _, _, a1, a2, _, _, a5, _, hpd, hoth⟩ := updateLeaf_post hl hu
        obtain ⟨hcells, hncell⟩ := updateLeaf_cells hu
        -- hypotheses transported to `w1`
        have hleaf1 : ∀ x ∈ L, ∀ ox, w1.objs x = some ox → ox.cls.isComposite = false := by
          intro x hx ox hox
          by_cases hxm : x = m
          · subst hxm; rw [p1] at hox; cases hox; rw [a5]; exact hl
          · exact hleaf x hx ox (by rw [← hoth x hxm]; exact hox)
        have hind1 : ∀ x ∈ L, ∀ ox s, w1.objs x = some ox → w1.lookup ox = .obj s → s ∉ L := by
          intro x hx ox s hox hlk
          rw [lookup_congr hpd] at hlk
          by_cases hxm : x = m
          · subst hxm; rw [p1] at hox; cases hox
            exact hind x hx om s hom (by rw [← lookup_slot a1 a2]; exact hlk)
          · exact hind x hx ox s (by rw [← hoth x hxm]; exact hox) hlk
        -- `current` of the remaining members is unchanged by the update of `m`
        have hstab : ∀ x ∈ ms, current w1 x = current w x := by
          intro x hx
          have hxm : x ≠ m := fun h => hmms (h ▸ hx)
          cases hox : w.objs x with
          | none =>
            unfold current; rw [hoth x hxm, hox]
          | some ox =>
            refine current_stable hca hox (by rw [hoth x hxm]; exact hox) hpd hcells ?_
            intro s hs
            have hsL := hind x (hsub x (List.mem_cons_of_mem _ hx)) ox s hox hs
            exact hoth s (fun h => hsL (h ▸ hmL))
        have hcur : currents w1 ms = currents w ms := currents_congr hstab
        have ih := updateMembers_spec L ms hw1 hca1 (fun x hx => hsub x (List.mem_cons_of_mem _ hx)) hndt hleaf1 hind1
        simp only
        cases hum : updateMembers w1 ms with
        | mk w' e =>
          rw [hum] at ih
          cases e with
          | some e =>
            simp only at ih ⊢
            simp only [currents, h3, ← hcur, ih]
          | none =>
            simp only at ih ⊢
            obtain ⟨obs, hc, hr, hext, hw', hca'⟩ := ih
            refine ⟨w1.readBuf b :: obs, ?_, ⟨⟨o', b, ?_, h2, ?_⟩, hr⟩, Ext.cons hom hl hu hext, hw', hca'⟩
            · simp only [currents, h3, ← hcur, hc]
            · rw [hext.others m hmms]; exact h1
            · cases b with
              | snap s => rfl
              | view c g i =>
                have hlt : c < w1.nCell := (hca1.objs m o' h1).u _ h2
                simp only [World.readBuf, hext.cells c hlt]

def outOfCurrents : Except Err (List Obs) → Out
  | .ok obs => .obs obs
  | .error e => .err e

/-- `transform(x)` on a composite observes, member by member, what each member holds. -/
theorem call_composite_current {w : World} (hw : WF w) (hca : CA w) {id : Nat} {o : Obj}
    (ho : w.objs id = some o) (hcomp : o.cls.isComposite = true) (hnd : o.members.Nodup)
    (hleaf : ∀ m ∈ o.members, ∀ om, w.objs m = some om → om.cls.isComposite = false)
    (hind : ∀ m ∈ o.members, ∀ om s, w.objs m = some om → w.lookup om = .obj s → s ∉ o.members) :
    (step w (.call id)).2 = outOfCurrents (currents w o.members) := by
  have spec := updateMembers_spec o.members o.members hw hca (fun _ h => h) hnd hleaf hind
  simp only [step, ho, hcomp, if_true]
  cases hum : updateMembers w o.members with
  | mk w' e =>
    rw [hum] at spec
    cases e with
    | some e => simp only at spec ⊢; rw [spec]; rfl
    | none =>
      simp only at spec ⊢
      obtain ⟨obs, hc, hr, _, _, _⟩ := spec
      rw [tensorMembers_readAll hr, hc]; rfl

end Deepali.TState
