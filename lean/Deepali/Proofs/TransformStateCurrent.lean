/-
  Proofs/TransformStateCurrent.lean — an `update()` re-tags the buffers from what the object holds
  now; hence `call` (pre-hook) and `disp` on cleared buffers observe `current` (helper lemmas for
  Props/C09.lean).
-/
import Deepali.Proofs.TransformState

set_option linter.unusedSectionVars false
set_option linter.unusedVariables false

namespace Deepali.TState

/-- a run preserves the invariant: every reachable world is well formed. -/
theorem WF_run {w : World} (h : WF w) (ops : List Op) : WF (run w ops) := by
  unfold run
  induction ops generalizing w with
  | nil => exact h
  | cons op ops ih => exact ih (WF_step h op)

def outOfCurrent : Except Err Obs → Out
  | .ok o => .obs [o]
  | .error e => .err e

theorem registerUV_u (w : World) (o : Obj) (c : Nat) (hleaf : o.cls.isComposite = false) :
    ∃ b, (registerUV w o c).u = some b ∧
      ∀ w' : World, w'.cells c = w.cells c → w'.readBuf b = ⟨w.cells c, o.grid, o.invert⟩ := by
  unfold registerUV
  cases hc : o.cls with
  | dvf a =>
    by_cases hv : isView a (w.shapes c) o.grid = true
    · exact ⟨.view c o.grid o.invert, by simp [hv], fun w' hw' => by simp [World.readBuf, hw']⟩
    · exact ⟨.snap ⟨w.cells c, o.grid, o.invert⟩, by simp [hv], fun w' hw' => by simp [World.readBuf]⟩
  | svf a => exact ⟨_, rfl, fun w' hw' => by simp [World.readBuf]⟩
  | ffd => exact ⟨_, rfl, fun w' hw' => by simp [World.readBuf]⟩
  | svffd => exact ⟨_, rfl, fun w' hw' => by simp [World.readBuf]⟩
  | seq => simp [hc, Cls.isComposite] at hleaf
  | multi => simp [hc, Cls.isComposite] at hleaf

theorem dataCell_none {w : World} {o : Obj} (h : w.lookup o = .none) : dataCell w o = .error .assert := by
  unfold dataCell; rw [h]

theorem dataCell_param {w : World} {o : Obj} {c : Nat} (h : w.lookup o = .param c) : dataCell w o = .ok c := by
  unfold dataCell; rw [h]

theorem dataCell_tensor {w : World} {o : Obj} {c : Nat} (h : w.lookup o = .tensor c) : dataCell w o = .ok c := by
  unfold dataCell; rw [h]

theorem dataCell_callable {w : World} {o : Obj} {c : Nat} (h : (w.lookup o).callable = true)
    (hp : o.p = some c) : dataCell w o = .ok c := by
  unfold dataCell
  cases hv : w.lookup o <;> simp [hv, Val.callable, hp] at h ⊢

/-- the heart of C09: `update()` on a leaf either fails exactly as `current` fails, or leaves a
    buffer `u` that reads as `current` (of the world BEFORE the update — `update` does not change
    what the object holds). -/
theorem updateLeaf_current {w : World} {id : Nat} {o : Obj} (hok : ObjOK w o)
    (hleaf : o.cls.isComposite = false) (ho : w.objs id = some o) :
    match updateLeaf w id o with
    | .ok w' => ∃ o' b, w'.objs id = some o' ∧ o'.u = some b ∧ current w id = .ok (w'.readBuf b)
    | .error e => current w id = .error e := by
  -- success path shared by all kinds: `p` (if any) refreshed to `c`, data cell `c`, world `w1`
  have fin : ∀ (w1 : World) (o1 : Obj) (c : Nat), o1.cls = o.cls → o1.grid = o.grid → o1.invert = o.invert →
      ∃ o' b, (w1.setObj id (registerUV w1 o1 c)).objs id = some o' ∧ o'.u = some b ∧
        (w1.setObj id (registerUV w1 o1 c)).readBuf b = ⟨w1.cells c, o.grid, o.invert⟩ := by
    intro w1 o1 c h1 h2 h3
    obtain ⟨b, hb, hr⟩ := registerUV_u w1 o1 c (by rw [h1]; exact hleaf)
    exact ⟨_, b, objs_setObj_same _ _ _, hb, (hr (w1.setObj id (registerUV w1 o1 c)) rfl).trans (by rw [h2, h3])⟩
  unfold current updateLeaf
  simp only [ho]
  cases hv : w.lookup o with
  | none =>
    cases hp : o.p with
    | none => simp only [dataCell_none hv]
    | some pc => simp only [freshData, hv]
  | param c =>
    cases hp : o.p with
    | none =>
      simp only [dataCell_param hv]
      obtain ⟨o', b, h1, h2, h3⟩ := fin w o c rfl rfl rfl
      exact ⟨o', b, h1, h2, by rw [h3]⟩
    | some pc =>
      have hl : w.lookup { o with p := some c } = .param c := (lookup_slot rfl rfl).trans hv
      simp only [freshData, hv, dataCell_param hl]
      obtain ⟨o', b, h1, h2, h3⟩ := fin w { o with p := some c } c rfl rfl rfl
      exact ⟨o', b, h1, h2, by rw [h3]⟩
  | tensor c =>
    cases hp : o.p with
    | none =>
      simp only [dataCell_tensor hv]
      obtain ⟨o', b, h1, h2, h3⟩ := fin w o c rfl rfl rfl
      exact ⟨o', b, h1, h2, by rw [h3]⟩
    | some pc =>
      have hl : w.lookup { o with p := some c } = .tensor c := (lookup_slot rfl rfl).trans hv
      simp only [freshData, hv, dataCell_tensor hl]
      obtain ⟨o', b, h1, h2, h3⟩ := fin w { o with p := some c } c rfl rfl rfl
      exact ⟨o', b, h1, h2, by rw [h3]⟩
  | fn f =>
    have hp := hok.hasP (by rw [hv]; rfl)
    cases hpp : o.p with
    | none => simp [hpp] at hp
    | some pc =>
      have hl : (w.newCell (.pred f o.cond) o.grid).1.lookup { o with p := some (w.newCell (.pred f o.cond) o.grid).2 } = .fn f := by
        rw [lookup_newCell]; exact (lookup_slot rfl rfl).trans hv
      have hd := dataCell_callable (c := (w.newCell (.pred f o.cond) o.grid).2) (by rw [hl]; rfl) rfl
      simp only [freshData, hv, hd]
      obtain ⟨o', b, h1, h2, h3⟩ := fin (w.newCell (.pred f o.cond) o.grid).1
        { o with p := some (w.newCell (.pred f o.cond) o.grid).2 } (w.newCell (.pred f o.cond) o.grid).2 rfl rfl rfl
      refine ⟨o', b, h1, h2, ?_⟩
      rw [h3]; simp [World.newCell]
  | fnmod f =>
    have hp := hok.hasP (by rw [hv]; rfl)
    cases hpp : o.p with
    | none => simp [hpp] at hp
    | some pc =>
      have hl : (w.newCell (.pred f o.cond) o.grid).1.lookup { o with p := some (w.newCell (.pred f o.cond) o.grid).2 } = .fnmod f := by
        rw [lookup_newCell]; exact (lookup_slot rfl rfl).trans hv
      have hd := dataCell_callable (c := (w.newCell (.pred f o.cond) o.grid).2) (by rw [hl]; rfl) rfl
      simp only [freshData, hv, hd]
      obtain ⟨o', b, h1, h2, h3⟩ := fin (w.newCell (.pred f o.cond) o.grid).1
        { o with p := some (w.newCell (.pred f o.cond) o.grid).2 } (w.newCell (.pred f o.cond) o.grid).2 rfl rfl rfl
      refine ⟨o', b, h1, h2, ?_⟩
      rw [h3]; simp [World.newCell]
  | obj s =>
    have hp := hok.hasP (by rw [hv]; rfl)
    cases hpp : o.p with
    | none => simp [hpp] at hp
    | some pc =>
      cases hs : w.objs s with
      | none => simp only [freshData, hv, hs]
      | some so =>
        cases hd : dataCell w so with
        | error e => simp only [freshData, hv, hs, hd]
        | ok c =>
          have hl : w.lookup { o with p := some c } = .obj s := (lookup_slot rfl rfl).trans hv
          have hd1 := dataCell_callable (c := c) (by rw [hl]; rfl) rfl
          simp only [freshData, hv, hs, hd, hd1]
          obtain ⟨o', b, h1, h2, h3⟩ := fin w { o with p := some c } c rfl rfl rfl
          exact ⟨o', b, h1, h2, by rw [h3]⟩

/-- `transform(x)` on a leaf observes exactly what the object holds (well-formed world). -/
theorem call_leaf_current {w : World} (h : WF w) {id : Nat} {o : Obj} (ho : w.objs id = some o)
    (hleaf : o.cls.isComposite = false) : (step w (.call id)).2 = outOfCurrent (current w id) := by
  have key := updateLeaf_current (h.objs id o ho) hleaf ho
  simp only [step, ho, hleaf]
  cases hu : updateLeaf w id o with
  | error e =>
    rw [hu] at key; simp only at key
    simp [key, outOfCurrent]
  | ok w' =>
    rw [hu] at key; simp only at key
    obtain ⟨o', b, h1, h2, h3⟩ := key
    simp [tensorLeaf, h1, h2, h3, outOfCurrent]

/-- `disp()`/`tensor()` on a leaf whose buffer `u` is absent observes what the object holds. -/
theorem disp_leaf_current_of_cleared {w : World} (h : WF w) {id : Nat} {o : Obj} (ho : w.objs id = some o)
    (hleaf : o.cls.isComposite = false) (hu0 : o.u = none) :
    (step w (.disp id)).2 = outOfCurrent (current w id) := by
  have key := updateLeaf_current (h.objs id o ho) hleaf ho
  simp only [step, ho, hleaf, tensorLeaf, hu0]
  cases hu : updateLeaf w id o with
  | error e =>
    rw [hu] at key; simp only at key
    simp [key, outOfCurrent]
  | ok w' =>
    rw [hu] at key; simp only at key
    obtain ⟨o', b, h1, h2, h3⟩ := key
    simp [h1, h2, h3, outOfCurrent]

/-! ### which operations leave the buffer `u` of their target absent -/

/-- object `id` is a `cls` instance without buffer `u`. -/
def Cleared (w : World) (id : Nat) (cls : Cls) : Prop :=
  ∃ o, w.objs id = some o ∧ o.u = none ∧ o.cls = cls

theorem Cleared.of_clearLeaf {w : World} {id : Nat} {o : Obj} (ho : w.objs id = some o) :
    Cleared (clearLeaf w id) id o.cls := by
  unfold clearLeaf; simp only [ho]
  exact ⟨_, objs_setObj_same _ _ _, rfl, rfl⟩

theorem Cleared.clearLeaf {w : World} {id : Nat} {cls : Cls} (h : Cleared w id cls) (m : Nat) :
    Cleared (clearLeaf w m) id cls := by
  obtain ⟨o, ho, hu, hc⟩ := h
  by_cases hm : m = id
  · subst hm; have := Cleared.of_clearLeaf ho; rw [hc] at this; exact this
  · unfold TState.clearLeaf
    split
    · exact ⟨o, by rw [objs_setObj_ne _ _ (Ne.symm hm)]; exact ho, hu, hc⟩
    · exact ⟨o, ho, hu, hc⟩

theorem Cleared.foldl_clearLeaf {w : World} {id : Nat} {cls : Cls} (h : Cleared w id cls) (ms : List Nat) :
    Cleared (ms.foldl TState.clearLeaf w) id cls := by
  induction ms generalizing w with
  | nil => exact h
  | cons m ms ih => exact ih (h.clearLeaf m)

theorem Cleared.of_clearObj {w : World} {id : Nat} {o : Obj} (ho : w.objs id = some o) :
    Cleared (clearObj w id) id o.cls := by
  unfold clearObj; simp only [ho]
  exact (Cleared.of_clearLeaf ho).foldl_clearLeaf _

/-- rewriting fields other than `u`/`cls` of the object keeps it cleared. -/
theorem Cleared.setField {w : World} {id : Nat} {cls : Cls} (h : Cleared w id cls) (i : Nat) (f : Obj → Obj)
    (hf : ∀ o, (f o).u = o.u ∧ (f o).cls = o.cls) :
    Cleared (match w.objs i with | some o => w.setObj i (f o) | none => w) id cls := by
  obtain ⟨o, ho, hu, hc⟩ := h
  split
  · next x hx =>
    by_cases hi : id = i
    · subst hi
      rw [ho] at hx; cases hx
      exact ⟨f o, objs_setObj_same _ _ _, by rw [(hf o).1]; exact hu, by rw [(hf o).2]; exact hc⟩
    · exact ⟨o, by rw [objs_setObj_ne _ _ hi]; exact ho, hu, hc⟩
  · exact ⟨o, ho, hu, hc⟩

theorem Cleared.condOne {w : World} {id : Nat} {cls : Cls} (h : Cleared w id cls) (c m : Nat) :
    Cleared (TState.condOne c w m) id cls :=
  (h.clearLeaf m).setField m (fun o => { o with cond := c }) (fun o => ⟨rfl, rfl⟩)

theorem Cleared.foldl_condOne {w : World} {id : Nat} {cls : Cls} (h : Cleared w id cls) (c : Nat) (ms : List Nat) :
    Cleared (ms.foldl (TState.condOne c) w) id cls := by
  induction ms generalizing w with
  | nil => exact h
  | cons m ms ih => exact ih (h.condOne c m)

theorem Cleared.of_condSet {w : World} {id : Nat} {o : Obj} (ho : w.objs id = some o) (c : Nat) :
    Cleared (condSet w id c) id o.cls := by
  unfold condSet; simp only [ho]
  exact ((Cleared.of_clearObj ho).setField id (fun o => { o with cond := c }) (fun o => ⟨rfl, rfl⟩)).foldl_condOne c _

theorem Cleared.of_assignData {w w' : World} {id : Nat} {o : Obj} {cur : Val} {ver : Content}
    (hd : assignData w id o cur ver = .ok w') : Cleared w' id o.cls := by
  unfold assignData at hd
  simp only at hd
  split at hd
  · cases hd
  · next w2 o2 hs =>
    simp only [Except.ok.injEq] at hd; subst hd
    have hc : o2.cls = o.cls := by
      unfold setParams at hs
      repeat' split at hs
      all_goals (cases hs; try rfl)
    have := Cleared.of_clearLeaf (w := w2.setObj id o2) (id := id) (o := o2) (objs_setObj_same _ _ _)
    rw [hc] at this; exact this

theorem Cleared.of_dataSet {w w' : World} {id : Nat} {o : Obj} {ver : Content}
    (hd : dataSet w id o ver = .ok w') : Cleared w' id o.cls := by
  unfold dataSet at hd
  split at hd
  · cases hd
  · exact Cleared.of_assignData hd

theorem Cleared.of_baseGrid {w : World} {id : Nat} {o : Obj} (ho : w.objs id = some o) {g : Nat}
    (hg : g ≠ o.grid) : Cleared (baseGrid w id o g) id o.cls := by
  unfold baseGrid
  rw [if_neg (fun h => hg h.symm)]
  exact (Cleared.of_clearObj ho).setField id (fun o => { o with grid := g }) (fun o => ⟨rfl, rfl⟩)

/-- `params` is held as a tensor (Parameter or plain). -/
def Val.isTensor : Val → Bool
  | .param _ | .tensor _ => true
  | _ => false

theorem Cleared.of_gridSet {w w' : World} {id : Nat} {o : Obj} (ho : w.objs id = some o)
    (hleaf : o.cls.isComposite = false) {g : Nat} (hg : g ≠ o.grid)
    (hs : gridSet w id o g = (w', none)) : Cleared w' id o.cls := by
  unfold gridSet at hs
  simp only [hleaf] at hs
  by_cases hbs : o.cls.isBSpline = true
  · simp only [hbs, if_true, Bool.false_eq_true, if_false, if_neg hg] at hs
    have key : ∀ c : Nat, (if g = o.grid + 1 then
          match dataSet (w.setObj id { o with u := none, v := none, grid := g }) id
              { o with u := none, v := none, grid := g } (w.cells c) with
          | .ok w2 => (w2, none)
          | .error e => (w.setObj id { o with u := none, v := none, grid := g }, some e)
        else (w, some .value)) = (w', (none : Option Err)) → Cleared w' id o.cls := by
      intro c hk
      split at hk
      · split at hk
        · next w2 hd =>
          simp only [Prod.mk.injEq, and_true] at hk; subst hk
          exact Cleared.of_dataSet (o := { o with u := none, v := none, grid := g }) hd
        · simp at hk
      · simp at hk
    have direct : (w.setObj id { o with u := none, v := none, grid := g }, (none : Option Err)) = (w', none) →
        Cleared w' id o.cls := by
      intro hk
      simp only [Prod.mk.injEq, and_true] at hk; subst hk
      exact ⟨_, objs_setObj_same _ _ _, rfl, rfl⟩
    cases hv : w.lookup o with
    | param c => simp only [hv] at hs; exact key c hs
    | tensor c => simp only [hv] at hs; exact key c hs
    | none => simp only [hv] at hs; exact direct hs
    | fn f => simp only [hv] at hs; exact direct hs
    | fnmod f => simp only [hv] at hs; exact direct hs
    | obj s => simp only [hv] at hs; exact direct hs
  · simp only [hbs, Bool.false_eq_true, if_false] at hs
    have hbase := Cleared.of_baseGrid ho hg
    have key : ∀ c : Nat, (match (baseGrid w id o g).objs id with
        | none => (baseGrid w id o g, some Err.noobj)
        | some o1 =>
          match dataSet (baseGrid w id o g) id o1 (w.cells c) with
          | .ok w2 => (w2, none)
          | .error e => ((baseGrid w id o g).setObj id { o1 with grid := o.grid }, some e)) = (w', none) →
        Cleared w' id o.cls := by
      intro c hk
      obtain ⟨o1, ho1, _, hc1⟩ := hbase
      simp only [ho1] at hk
      split at hk
      · next w2 hd =>
        simp only [Prod.mk.injEq, and_true] at hk; subst hk
        have := Cleared.of_dataSet hd
        rw [hc1] at this; exact this
      · simp at hk
    cases hv : w.lookup o with
    | param c => simp only [hv] at hs; exact key c hs
    | tensor c => simp only [hv] at hs; exact key c hs
    | none => simp only [hv, Prod.mk.injEq, and_true] at hs; subst hs; exact hbase
    | fn f => simp only [hv, Prod.mk.injEq, and_true] at hs; subst hs; exact hbase
    | fnmod f => simp only [hv, Prod.mk.injEq, and_true] at hs; subst hs; exact hbase
    | obj s => simp only [hv, Prod.mk.injEq, and_true] at hs; subst hs; exact hbase

theorem Cleared.of_resetParams {w w' : World} {id : Nat} {o : Obj} (ho : w.objs id = some o)
    (hn : w.lookup o ≠ .none) (hr : resetParams w id o = .ok w') : Cleared w' id o.cls := by
  unfold resetParams at hr
  split at hr
  · next hv => exact absurd hv hn
  · simp only [Except.ok.injEq] at hr; subst hr
    exact Cleared.of_clearLeaf (w := w.setCell _ _) ho
  · simp only [Except.ok.injEq] at hr; subst hr
    exact Cleared.of_clearLeaf (w := w.setCell _ _) ho
  · split at hr
    · simp only [Except.ok.injEq] at hr; subst hr
      exact Cleared.of_clearLeaf (w := w.setCell _ _) ho
    · cases hr

/-! ### outputs of a run -/

theorem runOuts_fst (w : World) (ops : List Op) : (runOuts w ops).1 = run w ops := by
  induction ops generalizing w with
  | nil => rfl
  | cons op ops ih =>
    simp only [runOuts, run, List.foldl_cons]
    exact ih _

theorem runOuts_append (w : World) (ops : List Op) (op : Op) :
    (runOuts w (ops ++ [op])).2 = (runOuts w ops).2 ++ [(step (run w ops) op).2] := by
  induction ops generalizing w with
  | nil => simp [runOuts, run]
  | cons o ops ih =>
    simp only [List.cons_append, runOuts, run, List.foldl_cons]
    have := ih (step w o).1
    simp only [run] at this
    rw [this]

/-! ### what `update()` leaves behind -/

theorem dataCell_congr {w w' : World} {o o' : Obj} (hp : w'.pdicts = w.pdicts) (hs : o'.slot = o.slot)
    (hd : o'.pdict = o.pdict) (hpp : o'.p = o.p) : dataCell w' o' = dataCell w o := by
  unfold dataCell
  rw [lookup_congr hp, lookup_slot hs hd, hpp]

/-- after a successful `update()` of leaf `id`: its `data()` is some cell `c`, its buffer `u` reads
    as the content of `c` with the object's grid and flag; nothing else in the world changed except
    possibly one freshly allocated cell. -/
theorem updateLeaf_post {w w' : World} {id : Nat} {o : Obj} (hleaf : o.cls.isComposite = false)
    (hu : updateLeaf w id o = .ok w') :
    ∃ o' c b, w'.objs id = some o' ∧ dataCell w' o' = .ok c ∧ o'.u = some b
      ∧ w'.readBuf b = ⟨w'.cells c, o.grid, o.invert⟩
      ∧ o'.slot = o.slot ∧ o'.pdict = o.pdict ∧ o'.grid = o.grid ∧ o'.invert = o.invert ∧ o'.cls = o.cls
      ∧ o'.cond = o.cond
      ∧ w'.pdicts = w.pdicts ∧ (∀ i, i ≠ id → w'.objs i = w.objs i) := by
  unfold updateLeaf at hu
  have fin : ∀ (w1 : World) (o1 : Obj) (c : Nat), w1.objs = w.objs → w1.pdicts = w.pdicts →
      o1.slot = o.slot → o1.pdict = o.pdict → o1.grid = o.grid → o1.invert = o.invert → o1.cls = o.cls →
      o1.cond = o.cond →
      dataCell w1 o1 = .ok c → w' = w1.setObj id (registerUV w1 o1 c) →
      ∃ o' c b, w'.objs id = some o' ∧ dataCell w' o' = .ok c ∧ o'.u = some b
        ∧ w'.readBuf b = ⟨w'.cells c, o.grid, o.invert⟩
        ∧ o'.slot = o.slot ∧ o'.pdict = o.pdict ∧ o'.grid = o.grid ∧ o'.invert = o.invert ∧ o'.cls = o.cls
        ∧ o'.cond = o.cond
        ∧ w'.pdicts = w.pdicts ∧ (∀ i, i ≠ id → w'.objs i = w.objs i) := by
    intro w1 o1 c hobjs hpd h1 h2 h3 h4 h5 h6 hdc hw'
    subst hw'
    obtain ⟨b, hb, hr⟩ := registerUV_u w1 o1 c (by rw [h5]; exact hleaf)
    have fr := registerUV_frame w1 o1 c
    refine ⟨registerUV w1 o1 c, c, b, objs_setObj_same _ _ _, ?_, hb, ?_, fr.1.trans h1, fr.2.1.trans h2,
      fr.2.2.2.1.trans h3, fr.2.2.2.2.2.1.trans h4, fr.2.2.2.2.2.2.1.trans h5, fr.2.2.2.2.1.trans h6, hpd, ?_⟩
    · exact (dataCell_congr (w := w1) (w' := w1.setObj id (registerUV w1 o1 c)) (o := o1) rfl fr.1 fr.2.1 fr.2.2.1).trans hdc
    · exact (hr (w1.setObj id (registerUV w1 o1 c)) rfl).trans (by rw [h3, h4]; rfl)
    · intro i hi; rw [objs_setObj_ne _ _ hi, hobjs]
  cases hp : o.p with
  | none =>
    simp only [hp] at hu
    cases hd : dataCell w o with
    | error e => simp [hd] at hu
    | ok c =>
      simp only [hd, Except.ok.injEq] at hu
      exact fin w o c rfl rfl rfl rfl rfl rfl rfl rfl hd hu.symm
  | some pc =>
    simp only [hp] at hu
    cases hf : freshData w o with
    | error e => simp [hf] at hu
    | ok r =>
      obtain ⟨w1, c1⟩ := r
      simp only [hf] at hu
      obtain ⟨ho1, hp1, _, _⟩ := freshData_spec hf
      cases hd : dataCell w1 { o with p := some c1 } with
      | error e => simp [hd] at hu
      | ok c =>
        simp only [hd, Except.ok.injEq] at hu
        exact fin w1 { o with p := some c1 } c ho1 hp1 rfl rfl rfl rfl rfl rfl hd hu.symm

/-- a linked transform called after its source uses the parameter content the source's call used. -/
theorem linked_follows_source {w : World} (hw : WF w) (a s : Nat) (oa os : Obj)
    (ha : w.objs a = some oa) (hs : w.objs s = some os) (hne : a ≠ s)
    (hla : oa.cls.isComposite = false) (hls : os.cls.isComposite = false)
    (hlink : w.lookup oa = .obj s) (obsS : Obs) (hcall : (step w (.call s)).2 = .obs [obsS]) :
    (step (step w (.call s)).1 (.call a)).2 = .obs [⟨obsS.params, oa.grid, oa.invert⟩] := by
  have hw1 := WF_step hw (.call s)
  cases hu : updateLeaf w s os with
  | error e => simp [step, hs, hls, hu] at hcall
  | ok w' =>
    obtain ⟨o', c, b, h1, hdc, h2, h3, _, _, _, _, hcls, _, hpd, hframe⟩ := updateLeaf_post hls hu
    -- the call of `s`: update, then read the buffer just registered
    have hstep : step w (.call s) = (w', .obs [w'.readBuf b]) := by
      simp [step, hs, hls, hu, tensorLeaf, h1, h2]
    rw [hstep] at hcall hw1 ⊢
    simp only [Out.obs.injEq, List.cons.injEq, and_true] at hcall
    have ha' : w'.objs a = some oa := by rw [hframe a hne]; exact ha
    have hcur : current w' a = .ok ⟨obsS.params, oa.grid, oa.invert⟩ := by
      unfold current
      simp only [ha', lookup_congr hpd, hlink, h1, hdc]
      rw [← hcall, h3]
    rw [call_leaf_current hw1 ha' hla, hcur]; rfl

end Deepali.TState
