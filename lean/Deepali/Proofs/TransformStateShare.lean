/-
  Proofs/TransformStateShare.lean — forward and inverse keep reading the same parameters
  (helper lemmas for `C07_shared_params`, Props/C07State.lean).
-/
import Deepali.Proofs.TransformStateCurrent

set_option linter.unusedSectionVars false
set_option linter.unusedVariables false

namespace Deepali.TState

/-- a callable `params` is kept by the instance itself; writing a key that is present in some
    shared container cannot change it. -/
theorem lookup_callable_setPdict {w : World} {o : Obj} (hc : (w.lookup o).callable = true) {k : Nat}
    (hk : w.pdicts k ≠ none) (e : Option Nat) : (w.setPdict k e).lookup o = w.lookup o := by
  by_cases hkk : o.pdict = k
  · -- then the key is present for `o`: its lookup is found in its `__dict__` or is not callable
    unfold World.lookup at hc ⊢
    cases hs : o.slot with
    | dict v => simp [hs]
    | absent =>
      rw [hs] at hc; simp only at hc
      cases hp : w.pdicts o.pdict with
      | none => rw [hkk] at hp; exact absurd hp hk
      | some x => cases x <;> simp [hp, Val.callable] at hc
    | buf b =>
      rw [hs] at hc; simp only at hc
      cases hp : w.pdicts o.pdict with
      | none => rw [hkk] at hp; exact absurd hp hk
      | some x => cases x <;> simp [hp, Val.callable] at hc
    | mod m =>
      rw [hs] at hc; simp only at hc
      cases hp : w.pdicts o.pdict with
      | none => rw [hkk] at hp; exact absurd hp hk
      | some x => cases x <;> simp [hp, Val.callable] at hc
  · exact lookup_setPdict_ne e hkk

/-- frame and result of `assignData` (the common tail of `data_` and `data(arg)`). -/
theorem assignData_post {w w' : World} {id : Nat} {o : Obj} {cur : Val} {ver : Content} (h : WF w)
    (hf : w.pdicts o.pdict ≠ none → o.slot = .absent) (hsf : SlotFine o.slot)
    (hcur : ∀ c, cur = .param c → w.pdicts o.pdict ≠ none)
    (hd : assignData w id o cur ver = .ok w') :
    ∃ o', w'.objs id = some o' ∧ (w'.lookup o').callable = false ∧ o'.cls = o.cls ∧ o'.invert = o.invert
      ∧ o'.cond = o.cond ∧ o'.grid = o.grid
      ∧ (∀ j, j ≠ id → w'.objs j = w.objs j)
      ∧ (∀ x : Obj, (w.lookup x).callable = true → w'.lookup x = w.lookup x) := by
  unfold assignData at hd
  simp only at hd
  split at hd
  · cases hd
  · next w2 o2 hs =>
    simp only [Except.ok.injEq] at hd; subst hd
    obtain ⟨_, hobjs, _, _, _, _, _, ⟨s', rfl⟩, hl, _, _, hw2⟩ :=
      setParams_spec (h.newCell ver o.grid) hf hsf (fun c hc => by
        obtain ⟨c', hc'⟩ := wrapLike_param hc
        exact hcur c' hc') hs
    refine ⟨{ o with slot := s', u := none, v := none }, ?_, ?_, rfl, rfl, rfl, rfl, ?_, ?_⟩
    · unfold clearLeaf; simp only [objs_setObj_same]
    · have : World.lookup (clearLeaf (w2.setObj id { o with slot := s' }) id)
          { o with slot := s', u := none, v := none } = w2.lookup { o with slot := s' } := by
        rw [lookup_congr (pdicts_clearLeaf _ _).1, lookup_setObj]; exact lookup_slot rfl rfl
      rw [this, hl]; exact wrapLike_not_callable _ _
    · intro j hj
      unfold clearLeaf; simp only [objs_setObj_same]
      rw [objs_setObj_ne _ _ hj, objs_setObj_ne _ _ hj, hobjs]; rfl
    · intro x hx
      rw [lookup_congr (pdicts_clearLeaf _ _).1, lookup_setObj]
      rcases hw2 with rfl | ⟨hk, e, rfl⟩
      · exact lookup_newCell _ _ _ _
      · rw [lookup_callable_setPdict (by rw [lookup_newCell]; exact hx) hk, lookup_newCell]

/-! ### operations that do not change what any object holds -/

/-- `w'` differs from `w` at most in buffers of object `id`, tensor contents and fresh cells:
    every object keeps its `params` slot, container, grid, flags and conditioning. -/
structure HoldFrame (w w' : World) (id : Nat) : Prop where
  pdicts : w'.pdicts = w.pdicts
  others : ∀ j, j ≠ id → w'.objs j = w.objs j
  self : ∀ o, w.objs id = some o → ∃ o', w'.objs id = some o' ∧ o'.slot = o.slot ∧ o'.pdict = o.pdict
    ∧ o'.grid = o.grid ∧ o'.invert = o.invert ∧ o'.cls = o.cls ∧ o'.cond = o.cond

theorem HoldFrame.refl (w : World) (id : Nat) : HoldFrame w w id :=
  ⟨rfl, fun _ _ => rfl, fun o ho => ⟨o, ho, rfl, rfl, rfl, rfl, rfl, rfl⟩⟩

theorem HoldFrame.of_updateLeaf {w w' : World} {id : Nat} {o : Obj} (ho : w.objs id = some o)
    (hleaf : o.cls.isComposite = false) (hu : updateLeaf w id o = .ok w') : HoldFrame w w' id := by
  obtain ⟨o', c, b, h1, _, _, _, h4, h5, h6, h7, h8, h9, hpd, hfr⟩ := updateLeaf_post hleaf hu
  refine ⟨hpd, hfr, fun x hx => ?_⟩
  rw [ho] at hx; cases hx
  exact ⟨o', h1, h4, h5, h6, h7, h8, h9⟩

theorem HoldFrame.of_tensorLeaf {w w' : World} {id : Nat} {o : Obj} {ob : Obs} (ho : w.objs id = some o)
    (hleaf : o.cls.isComposite = false) (ht : tensorLeaf w id = .ok (w', ob)) : HoldFrame w w' id := by
  unfold tensorLeaf at ht
  simp only [ho] at ht
  split at ht
  · simp only [Except.ok.injEq, Prod.mk.injEq] at ht; obtain ⟨rfl, _⟩ := ht; exact HoldFrame.refl _ _
  · split at ht
    · cases ht
    · next w1 hu =>
      split at ht
      · simp only [Except.ok.injEq, Prod.mk.injEq] at ht; obtain ⟨rfl, _⟩ := ht
        exact HoldFrame.of_updateLeaf ho hleaf hu
      · cases ht

/-- `call`, `disp`, `update` and an in-place edit keep what every object holds. -/
theorem HoldFrame.of_step_eval {w : World} {id : Nat} {o : Obj} (ho : w.objs id = some o)
    (hleaf : o.cls.isComposite = false) :
    HoldFrame w (step w (.call id)).1 id ∧ HoldFrame w (step w (.disp id)).1 id
      ∧ HoldFrame w (step w (.update id)).1 id ∧ ∀ v, HoldFrame w (step w (.inplace id v)).1 id := by
  refine ⟨?_, ?_, ?_, ?_⟩
  · simp only [step, ho, hleaf, Bool.false_eq_true, if_false]
    cases hu : updateLeaf w id o with
    | error e => exact HoldFrame.refl _ _
    | ok w1 =>
      have f1 := HoldFrame.of_updateLeaf ho hleaf hu
      obtain ⟨o1, ho1, _, _, _, _, hc1, _⟩ := f1.self o ho
      simp only
      cases ht : tensorLeaf w1 id with
      | error e => exact f1
      | ok r =>
        obtain ⟨w2, ob⟩ := r
        have f2 := HoldFrame.of_tensorLeaf ho1 (by rw [hc1]; exact hleaf) ht
        refine ⟨f2.pdicts.trans f1.pdicts, fun j hj => (f2.others j hj).trans (f1.others j hj), fun x hx => ?_⟩
        rw [ho] at hx; cases hx
        obtain ⟨o2, ho2, a1, a2, a3, a4, a5, a6⟩ := f2.self o1 ho1
        obtain ⟨_, ho1', b1, b2, b3, b4, b5, b6⟩ := f1.self o ho
        rw [ho1] at ho1'; cases ho1'
        exact ⟨o2, ho2, a1.trans b1, a2.trans b2, a3.trans b3, a4.trans b4, a5.trans b5, a6.trans b6⟩
  · simp only [step, ho, hleaf, Bool.false_eq_true, if_false]
    cases ht : tensorLeaf w id with
    | error e => exact HoldFrame.refl _ _
    | ok r => obtain ⟨w2, ob⟩ := r; exact HoldFrame.of_tensorLeaf ho hleaf ht
  · simp only [step, ho, hleaf, Bool.false_eq_true, if_false]
    cases hu : updateLeaf w id o with
    | error e => exact HoldFrame.refl _ _
    | ok w1 => exact HoldFrame.of_updateLeaf ho hleaf hu
  · intro v
    simp only [step, ho]
    split
    · exact ⟨rfl, fun _ _ => rfl, fun x hx => ⟨x, hx, rfl, rfl, rfl, rfl, rfl, rfl⟩⟩
    · exact ⟨rfl, fun _ _ => rfl, fun x hx => ⟨x, hx, rfl, rfl, rfl, rfl, rfl, rfl⟩⟩
    · exact HoldFrame.refl _ _

/-! ### the sharing relation between a forward transform `f` and its inverse `i` -/

/-- forward `f` and inverse `i` are leaves with opposite inversion flags and equal conditioning;
    the forward's params are its own (not a link); the inverse either resolves `params` to the very
    same value (shallow copy, `link = false`) or is linked to the forward (`link = true`). -/
def Sh (w : World) (f i : Nat) (link : Bool) : Prop :=
  WF w ∧ f ≠ i ∧ ∃ oF oI, w.objs f = some oF ∧ w.objs i = some oI
    ∧ oF.cls.isComposite = false ∧ oI.cls.isComposite = false
    ∧ oI.invert = !oF.invert ∧ oI.cond = oF.cond ∧ (∀ s, w.lookup oF ≠ .obj s)
    ∧ ((link = false ∧ w.lookup oI = w.lookup oF) ∨ (link = true ∧ w.lookup oI = .obj f))

theorem Sh.of_holdFrame {w w' : World} {f i : Nat} {link : Bool} (h : Sh w f i link) (hw' : WF w')
    {id : Nat} (fr : HoldFrame w w' id) : Sh w' f i link := by
  obtain ⟨_, hne, oF, oI, hF, hI, lF, lI, hinv, hcond, hnl, hcase⟩ := h
  -- both objects survive with the same slot/container/flags
  have surv : ∀ (j : Nat) (o : Obj), w.objs j = some o → ∃ o', w'.objs j = some o' ∧ o'.slot = o.slot
      ∧ o'.pdict = o.pdict ∧ o'.grid = o.grid ∧ o'.invert = o.invert ∧ o'.cls = o.cls ∧ o'.cond = o.cond := by
    intro j o hj
    by_cases hji : j = id
    · subst hji; exact fr.self o hj
    · exact ⟨o, by rw [fr.others j hji]; exact hj, rfl, rfl, rfl, rfl, rfl, rfl⟩
  obtain ⟨oF', hF', a1, a2, _, a4, a5, a6⟩ := surv f oF hF
  obtain ⟨oI', hI', b1, b2, _, b4, b5, b6⟩ := surv i oI hI
  have lkF : w'.lookup oF' = w.lookup oF := (lookup_congr fr.pdicts _).trans (lookup_slot a1 a2)
  have lkI : w'.lookup oI' = w.lookup oI := (lookup_congr fr.pdicts _).trans (lookup_slot b1 b2)
  refine ⟨hw', hne, oF', oI', hF', hI', by rw [a5]; exact lF, by rw [b5]; exact lI, by rw [b4, a4]; exact hinv,
    by rw [b6, a6]; exact hcond, fun s => by rw [lkF]; exact hnl s, ?_⟩
  rw [lkF, lkI]; exact hcase

/-- replacing the forward's data keeps a LINKED inverse attached (I-2: the documented purpose of
    linking). -/
theorem Sh.data_F {w : World} {f i : Nat} (h : Sh w f i true) (v : Nat) :
    Sh (step w (.data_ f v)).1 f i true := by
  have hw' := WF_step h.1 (.data_ f v)
  obtain ⟨hw, hne, oF, oI, hF, hI, lF, lI, hinv, hcond, hnl, hcase⟩ := h
  simp only [step, hF, lF, Bool.false_eq_true, if_false] at hw' ⊢
  cases hd : dataSet w f oF (.lit v) with
  | error e => exact ⟨hw, hne, oF, oI, hF, hI, lF, lI, hinv, hcond, hnl, hcase⟩
  | ok w' =>
    simp only [hd] at hw' ⊢
    have hok := hw.objs f oF hF
    unfold dataSet at hd
    split at hd
    · cases hd
    · obtain ⟨o', ho', hnc, hc, hi', hco, _, hoth, hlk⟩ :=
        assignData_post hw hok.famAbsent hok.slotFine (fun c hc => lookup_param_key hok.slotFine hc) hd
      rcases hcase with ⟨hl, _⟩ | ⟨_, hl⟩
      · cases hl
      · refine ⟨hw', hne, o', oI, ho', by rw [hoth i (Ne.symm hne)]; exact hI, by rw [hc]; exact lF, lI,
          by rw [hi']; exact hinv, by rw [hco]; exact hcond, fun s hs => ?_, Or.inr ⟨rfl, ?_⟩⟩
        · rw [hs] at hnc; cases hnc
        · rw [hlk oI (by rw [hl]; rfl)]; exact hl

/-- a call of a leaf whose params are a tensor allocates nothing: tensor contents are unchanged. -/
theorem call_cells_of_tensor {w : World} {id : Nat} {o : Obj} (ho : w.objs id = some o)
    (hleaf : o.cls.isComposite = false) {c : Nat} (hl : w.lookup o = .param c ∨ w.lookup o = .tensor c) :
    (step w (.call id)).1.cells = w.cells := by
  simp only [step, ho, hleaf, Bool.false_eq_true, if_false]
  have hupd : ∀ w1, updateLeaf w id o = .ok w1 → w1.cells = w.cells := by
    intro w1 hu
    unfold updateLeaf at hu
    have hfd : freshData w o = .ok (w, c) := by
      unfold freshData; rcases hl with hl | hl <;> rw [hl]
    cases hp : o.p with
    | none =>
      simp only [hp] at hu
      split at hu
      · cases hu
      · simp only [Except.ok.injEq] at hu; subst hu; rfl
    | some pc =>
      simp only [hp, hfd] at hu
      split at hu
      · cases hu
      · simp only [Except.ok.injEq] at hu; subst hu; rfl
  cases hu : updateLeaf w id o with
  | error e => rfl
  | ok w1 =>
    simp only
    have hc1 := hupd w1 hu
    obtain ⟨o', c', b, h1, _, h2, _⟩ := updateLeaf_post hleaf hu
    simp only [tensorLeaf, h1, h2]
    exact hc1

/-- agreement of two evaluation outputs: the same parameter content with opposite inversion
    flags, or both raise. -/
def sharedAgree : Out → Out → Prop
  | .obs [x], .obs [y] => x.params = y.params ∧ y.inverted = !x.inverted
  | .err _, .err _ => True
  | _, _ => False

theorem outOfCurrent_ok {r : Except Err Obs} {x : Obs} (h : r = .ok x) : outOfCurrent r = .obs [x] := by
  rw [h]; rfl

theorem outOfCurrent_err {r : Except Err Obs} {e : Err} (h : r = .error e) : outOfCurrent r = .err e := by
  rw [h]; rfl

/-- forward called, then inverse called: they used the same parameter content. -/
theorem Sh.agree {w : World} {f i : Nat} {link : Bool} (h : Sh w f i link) :
    sharedAgree (step w (.call f)).2 (step (step w (.call f)).1 (.call i)).2 := by
  have hw3 := WF_step h.1 (.call f)
  obtain ⟨hw, hne, oF, oI, hF, hI, lF, lI, hinv, hcond, hnl, hcase⟩ := h
  have frame := (HoldFrame.of_step_eval hF lF).1
  have hI3 : (step w (.call f)).1.objs i = some oI := by rw [frame.others i (Ne.symm hne)]; exact hI
  have lk3 : ∀ x : Obj, (step w (.call f)).1.lookup x = w.lookup x := fun x => lookup_congr frame.pdicts x
  have outF := call_leaf_current hw hF lF
  have outI := call_leaf_current hw3 hI3 lI
  rcases hcase with ⟨_, hl⟩ | ⟨_, hl⟩
  · -- shallow copy: both resolve `params` to the same value
    have curF : current w f = (match w.lookup oF with
        | .none => .error .assert
        | .param c | .tensor c => .ok ⟨w.cells c, oF.grid, oF.invert⟩
        | .fn g | .fnmod g => .ok ⟨.pred g oF.cond, oF.grid, oF.invert⟩
        | .obj s => .error .noobj) := by
      unfold current; simp only [hF]
      cases hv : w.lookup oF <;> simp only []
      exact absurd hv (hnl _)
    have curI : current (step w (.call f)).1 i = (match w.lookup oF with
        | .none => .error .assert
        | .param c | .tensor c => .ok ⟨(step w (.call f)).1.cells c, oI.grid, oI.invert⟩
        | .fn g | .fnmod g => .ok ⟨.pred g oI.cond, oI.grid, oI.invert⟩
        | .obj s => .error .noobj) := by
      unfold current; simp only [hI3, lk3, hl]
      cases hv : w.lookup oF <;> simp only []
      exact absurd hv (hnl _)
    rw [outF, outI, curF, curI]
    cases hv : w.lookup oF with
    | none => simp [outOfCurrent, sharedAgree]
    | param c =>
      simp only [outOfCurrent, sharedAgree, call_cells_of_tensor hF lF (Or.inl hv)]
      exact ⟨trivial, hinv⟩
    | tensor c =>
      simp only [outOfCurrent, sharedAgree, call_cells_of_tensor hF lF (Or.inr hv)]
      exact ⟨trivial, hinv⟩
    | fn g => simp only [outOfCurrent, sharedAgree]; exact ⟨by rw [hcond], hinv⟩
    | fnmod g => simp only [outOfCurrent, sharedAgree]; exact ⟨by rw [hcond], hinv⟩
    | obj s => exact absurd hv (hnl _)
  · -- linked inverse: reads what the forward's call just evaluated
    cases hc : current w f with
    | ok obsF =>
      have hcallF : (step w (.call f)).2 = .obs [obsF] := by rw [outF, hc]; rfl
      have := linked_follows_source hw i f oI oF hI hF (Ne.symm hne) lI lF hl obsF hcallF
      rw [hcallF, this]
      simp only [sharedAgree]
      refine ⟨trivial, ?_⟩
      have : obsF.inverted = oF.invert := by
        unfold current at hc; simp only [hF] at hc
        cases hv : w.lookup oF <;> simp only [hv] at hc
        · cases hc
        · cases hc; rfl
        · cases hc; rfl
        · cases hc; rfl
        · cases hc; rfl
        · exact absurd hv (hnl _)
      rw [this]; exact hinv
    | error e =>
      -- only possible when the forward holds nothing; then the linked inverse raises as well
      have hnone : w.lookup oF = .none := by
        unfold current at hc; simp only [hF] at hc
        cases hv : w.lookup oF <;> simp only [hv] at hc
        · rfl
        · cases hc
        · cases hc
        · cases hc
        · cases hc
        · exact absurd hv (hnl _)
      have hF3 := frame.self oF hF
      obtain ⟨oF3, hoF3, s1, s2, _⟩ := hF3
      have : current (step w (.call f)).1 i = .error .assert := by
        unfold current
        simp only [hI3, lk3, hl, hoF3]
        rw [dataCell_none (by rw [lk3, lookup_slot s1 s2]; exact hnone)]
      rw [outF, outI, hc, this]
      simp [outOfCurrent, sharedAgree]

/-! ### the edits C07 quantifies over -/

/-- in-place parameter edits on either transform, `data_` on the forward, and evaluations. -/
inductive Edit
  | inplaceF (v : Nat) | inplaceI (v : Nat) | dataF (v : Nat)
  | callF | callI | dispF | dispI | updateF | updateI
  deriving Repr

def Edit.toOp (f i : Nat) : Edit → Op
  | .inplaceF v => .inplace f v
  | .inplaceI v => .inplace i v
  | .dataF v => .data_ f v
  | .callF => .call f
  | .callI => .call i
  | .dispF => .disp f
  | .dispI => .disp i
  | .updateF => .update f
  | .updateI => .update i

/-- I-2: replacement through `data_` is required to propagate only when linked. -/
def Edit.allowed (link : Bool) : Edit → Bool
  | .dataF _ => link
  | _ => true

theorem Sh.edit {w : World} {f i : Nat} {link : Bool} (h : Sh w f i link) (e : Edit)
    (ha : e.allowed link = true) : Sh (step w (e.toOp f i)).1 f i link := by
  have hw' := WF_step h.1 (e.toOp f i)
  obtain ⟨hw, hne, oF, oI, hF, hI, lF, lI, rest⟩ := id h
  have fF := HoldFrame.of_step_eval hF lF
  have fI := HoldFrame.of_step_eval hI lI
  cases e with
  | inplaceF v => exact h.of_holdFrame hw' (fF.2.2.2 v)
  | inplaceI v => exact h.of_holdFrame hw' (fI.2.2.2 v)
  | dataF v =>
    simp only [Edit.allowed] at ha; subst ha
    exact h.data_F v
  | callF => exact h.of_holdFrame hw' fF.1
  | callI => exact h.of_holdFrame hw' fI.1
  | dispF => exact h.of_holdFrame hw' fF.2.1
  | dispI => exact h.of_holdFrame hw' fI.2.1
  | updateF => exact h.of_holdFrame hw' fF.2.2.1
  | updateI => exact h.of_holdFrame hw' fI.2.2.1

theorem Sh.run {w : World} {f i : Nat} {link : Bool} (h : Sh w f i link) (edits : List Edit)
    (ha : ∀ e ∈ edits, e.allowed link = true) : Sh (run w (edits.map (Edit.toOp f i))) f i link := by
  unfold TState.run
  induction edits generalizing w with
  | nil => exact h
  | cons e es ih =>
    simp only [List.map_cons, List.foldl_cons]
    exact ih (h.edit e (ha e (List.mem_cons_self ..))) (fun e' he' => ha e' (List.mem_cons_of_mem _ he'))

/-! ### establishing the relation: constructor, then `inverse` -/

theorem linkCore_post {w : World} (h : WF w) {id oid : Nat} {o other : Obj}
    (hother : w.objs oid = some other) (hkey : w.pdicts o.pdict = none) :
    ∃ w' o', linkCore w id o oid other = (w', none) ∧ w'.objs id = some o' ∧ o'.slot = .mod (some (.obj oid))
      ∧ o'.pdict = o.pdict ∧ o'.cls = o.cls ∧ o'.grid = o.grid ∧ o'.cond = o.cond ∧ o'.invert = o.invert
      ∧ (∀ j, j ≠ id → w'.objs j = w.objs j) ∧ w'.pdicts = w.pdicts := by
  unfold linkCore
  have hsp : setParams w o (.obj oid) = .ok (w, { o with slot := .mod (some (.obj oid)) }) := by
    unfold setParams; simp only [hkey]
  simp only [hsp]
  cases hp : o.p with
  | some pc =>
    exact ⟨_, _, rfl, objs_setObj_same _ _ _, rfl, rfl, rfl, rfl, rfl, rfl,
      fun j hj => objs_setObj_ne _ _ hj, rfl⟩
  | none =>
    simp only
    by_cases hv : w.lookup other = .none
    · simp only [hv]
      refine ⟨_, { o with slot := .mod (some (.obj oid)), p := some (w.newCell (.lit 0) o.grid).2, u := none, v := none },
        rfl, ?_, rfl, rfl, rfl, rfl, rfl, rfl, ?_, ?_⟩
      · unfold clearLeaf; simp only [objs_setObj_same]
      · intro j hj; unfold clearLeaf; simp only [objs_setObj_same]
        rw [objs_setObj_ne _ _ hj, objs_setObj_ne _ _ hj]; rfl
      · exact (pdicts_clearLeaf _ _).1
    · obtain ⟨c, hc⟩ := dataCell_ok_of_WF (h.objs oid other hother) hv
      have fin : ∃ w' o', ((w.setObj id { o with slot := .mod (some (.obj oid)), p := some c }, (none : Option Err)) = (w', none))
          ∧ w'.objs id = some o' ∧ o'.slot = .mod (some (.obj oid))
          ∧ o'.pdict = o.pdict ∧ o'.cls = o.cls ∧ o'.grid = o.grid ∧ o'.cond = o.cond ∧ o'.invert = o.invert
          ∧ (∀ j, j ≠ id → w'.objs j = w.objs j) ∧ w'.pdicts = w.pdicts :=
        ⟨_, _, rfl, objs_setObj_same _ _ _, rfl, rfl, rfl, rfl, rfl, rfl, fun j hj => objs_setObj_ne _ _ hj, rfl⟩
      cases hvv : w.lookup other with
      | none => exact absurd hvv hv
      | param x => simp only [hc]; exact fin
      | tensor x => simp only [hc]; exact fin
      | fn x => simp only [hc]; exact fin
      | fnmod x => simp only [hc]; exact fin
      | obj x => simp only [hc]; exact fin

/-- `link_` succeeds whatever kind of params the linking instance held (fix 20bab42: a registered
    Parameter is deleted from the instance's own `_parameters` container first); afterwards the
    instance resolves `params` to the linked transform and nothing else changed except its own
    container. -/
theorem linkInto_post {w : World} (h : WF w) {id oid : Nat} {o other : Obj} (hne : oid ≠ id)
    (hother : w.objs oid = some other) (hty : other.cls.pyType = o.cls.pyType) :
    ∃ w' o', linkInto w id o oid = (w', none) ∧ w'.objs id = some o' ∧ o'.slot = .mod (some (.obj oid))
      ∧ o'.pdict = o.pdict ∧ o'.cls = o.cls ∧ o'.grid = o.grid ∧ o'.cond = o.cond ∧ o'.invert = o.invert
      ∧ (∀ j, j ≠ id → w'.objs j = w.objs j) ∧ w'.pdicts o.pdict = none
      ∧ (∀ k, k ≠ o.pdict → w'.pdicts k = w.pdicts k) := by
  unfold linkInto
  rw [if_neg hne]
  simp only [hother, hty, ne_eq, not_true_eq_false, if_false]
  by_cases hk : (w.pdicts o.pdict).isSome = true
  · simp only [hk, if_true]
    obtain ⟨w', o', a1, a2, a3, a4, a5, a6, a7, a8, a9, a10⟩ :=
      linkCore_post (w := w.delPdict o.pdict) (h.delPdict _) (id := id) (oid := oid) (o := o) (other := other)
        hother (by simp [World.delPdict])
    refine ⟨w', o', a1, a2, a3, a4, a5, a6, a7, a8, a9, ?_, ?_⟩
    · rw [a10]; simp [World.delPdict]
    · intro k hkk; rw [a10]; simp [World.delPdict, hkk]
  · simp only [hk, if_false]
    have hnone : w.pdicts o.pdict = none := by
      cases hh : w.pdicts o.pdict with
      | none => rfl
      | some x => simp [hh] at hk
    obtain ⟨w', o', a1, a2, a3, a4, a5, a6, a7, a8, a9, a10⟩ :=
      linkCore_post (w := w) h (id := id) (oid := oid) (o := o) (other := other) hother hnone
    exact ⟨w', o', a1, a2, a3, a4, a5, a6, a7, a8, a9, by rw [a10]; exact hnone, fun k _ => by rw [a10]⟩

theorem invertible_not_composite {c : Cls} (h : c.invertible = true) : c.isComposite = false := by
  cases c <;> simp [Cls.invertible, Cls.isComposite] at h ⊢

/-- `inverse(link, update_buffers)` of an invertible leaf whose params are its own: succeeds
    (for `link = true` provided `params` is not registered in the shared `_parameters`
    container — otherwise F-07) and establishes the sharing relation. -/
theorem inverse_post {w : World} (h : WF w) {f : Nat} {oF : Obj} (hF : w.objs f = some oF)
    (hfn : f ≠ w.nObj) (hinv : oF.cls.invertible = true) (hnl : ∀ s, w.lookup oF ≠ .obj s)
    (link ub : Bool) :
    ∃ w1, step w (.inverse f link ub) = (w1, .new w.nObj) ∧ Sh w1 f w.nObj link := by
  have hleaf := invertible_not_composite hinv
  have hok := h.objs f oF hF
  have hw' := WF_step h (.inverse f link ub)
  have hstep : step w (.inverse f link ub) = (match inverseLeaf w f oF link ub with
      | .error e => (w, .err e)
      | .ok (w', n) => (w', .new n)) := by
    simp only [step, hF]
    cases hc : oF.cls <;> simp [hc, Cls.invertible] at hinv ⊢ <;> rfl
  rw [hstep] at hw' ⊢
  have hobjN : (copyObj w oF).1.objs w.nObj = some (copyRec w oF) := objs_copyObj_new w oF
  have hobjF : (copyObj w oF).1.objs f = some oF := by simp [copyObj, World.addObj, hfn, hF, World.copyDict]
  have hnid : (copyObj w oF).2 = w.nObj := rfl
  have hpdF : oF.pdict ≠ w.nDict := Nat.ne_of_lt hok.alloc
  -- the forward's lookup is the same in the world with the copy
  have hlkF : (copyObj w oF).1.lookup oF = w.lookup oF := by
    apply lookup_congr_at; simp [copyObj, World.addObj, World.copyDict, hpdF]
  have hlkC : (copyObj w oF).1.lookup (copyRec w oF) = w.lookup oF := by
    unfold World.lookup copyRec copyObj World.addObj World.copyDict; simp
  unfold inverseLeaf at hw' ⊢
  simp only [hinv, if_true] at hw' ⊢
  cases link with
  | false =>
    simp only [Bool.false_eq_true, if_false, hnid, hobjN] at hw' ⊢
    have fr := invFinish_frame (copyObj w oF).1 (copyRec w oF) (!oF.invert) ub
    refine ⟨_, rfl, hw', hfn, oF, _, ?_, objs_setObj_same _ _ _, hleaf, ?_, fr.2.2.2.2.2.2.2, fr.2.2.2.2.1, ?_,
      Or.inl ⟨rfl, ?_⟩⟩
    · rw [objs_setObj_ne _ _ hfn]; exact hobjF
    · rw [fr.2.2.2.2.2.1]; exact hleaf
    · intro s; rw [lookup_setObj, hlkF]; exact hnl s
    · rw [lookup_setObj, lookup_setObj, hlkF, lookup_slot fr.1 fr.2.1, hlkC]
  | true =>
    obtain ⟨w2, o2, hlk, ho2, hs2, hp2, hc2, _, hco2, hi2, hoth, hkey2, hpd⟩ :=
      linkInto_post (w := (copyObj w oF).1) (WF_copyObj h hok) (id := w.nObj) (oid := f) (o := copyRec w oF)
        (other := oF) hfn hobjF rfl
    simp only [if_true, hnid, hlk, ho2] at hw' ⊢
    have fr := invFinish_frame w2 o2 (!oF.invert) ub
    have hF2 : w2.objs f = some oF := by rw [hoth f hfn]; exact hobjF
    refine ⟨_, rfl, hw', hfn, oF, _, ?_, objs_setObj_same _ _ _, hleaf, ?_, fr.2.2.2.2.2.2.2, ?_, ?_,
      Or.inr ⟨rfl, ?_⟩⟩
    · rw [objs_setObj_ne _ _ hfn]; exact hF2
    · rw [fr.2.2.2.2.2.1, hc2]; exact hleaf
    · rw [fr.2.2.2.2.1]; exact hco2
    · intro s
      rw [lookup_setObj, lookup_congr_at (hpd oF.pdict (by show oF.pdict ≠ w.nDict; exact hpdF)), hlkF]
      exact hnl s
    · rw [lookup_setObj]
      unfold World.lookup
      rw [fr.1, hs2, fr.2.1, hp2, hkey2]

/-- a freshly constructed leaf: its params are its own, and unless it was given a Parameter the
    shared `_parameters` container has no key `params`. -/
theorem mk_post {w : World} (h : WF w) {cls : Cls} (hc : cls.isComposite = false) (k : Kind) (v g : Nat) :
    ∃ w0 oF, step w (.mk cls k v g) = (w0, .new w.nObj) ∧ WF w0 ∧ w0.nObj = w.nObj + 1
      ∧ w0.objs w.nObj = some oF ∧ oF.cls = cls ∧ (∀ s, w0.lookup oF ≠ .obj s)
      ∧ (k ≠ .param → w0.pdicts oF.pdict = none) := by
  have hw' := WF_step h (.mk cls k v g)
  have hfree : w.pdicts w.nDict = none := h.fresh _ (Nat.le_refl _)
  simp only [step, hc, Bool.false_eq_true, if_false] at hw' ⊢
  cases k with
  | none =>
    simp only [mkLeaf] at hw' ⊢
    exact ⟨_, ⟨cls, w.nDict, .dict .none, none, none, none, g, 0, false, []⟩, rfl, hw', rfl,
      by simp [World.addObj], rfl, fun s => by simp [World.lookup], fun _ => hfree⟩
  | param =>
    simp only [mkLeaf, World.newCell] at hw' ⊢
    refine ⟨_, ⟨cls, w.nDict, .absent, none, none, none, g, 0, false, []⟩, rfl, hw', rfl,
      by simp [World.addObj, World.setPdict], rfl, fun s => ?_, fun hk => absurd rfl hk⟩
    simp [World.lookup, World.addObj, World.setPdict]
  | buffer =>
    simp only [mkLeaf, World.newCell] at hw' ⊢
    refine ⟨_, ⟨cls, w.nDict, .buf (some w.nCell), none, none, none, g, 0, false, []⟩, rfl, hw', rfl,
      by simp [World.addObj], rfl, fun s => ?_, fun _ => hfree⟩
    simp [World.lookup, World.addObj, hfree]
  | fn f0 =>
    simp only [mkLeaf, World.newCell] at hw' ⊢
    exact ⟨_, ⟨cls, w.nDict, .dict (.fn f0), some w.nCell, none, none, g, 0, false, []⟩, rfl, hw', rfl,
      by simp [World.addObj], rfl, fun s => by simp [World.lookup], fun _ => hfree⟩
  | fnmod f0 =>
    simp only [mkLeaf, World.newCell] at hw' ⊢
    refine ⟨_, ⟨cls, w.nDict, .mod (some (.fnmod f0)), some w.nCell, none, none, g, 0, false, []⟩, rfl, hw', rfl,
      by simp [World.addObj], rfl, fun s => ?_, fun _ => hfree⟩
    simp [World.lookup, World.addObj, hfree]

end Deepali.TState
