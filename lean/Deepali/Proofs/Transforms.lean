/-
  Proofs/Transforms.lean — helper lemmas for properties C06 / C07: composites (sequential fold,
  multi-level sum), matrix inverses, per-class inverse pairs.
-/
import Deepali.Model.Transforms
import Deepali.Proofs.HomogLaws
import Deepali.Proofs.AffineEuler
import Deepali.Proofs.AffineOrder
import Deepali.Proofs.AffineKornia
import Mathlib.Tactic.FieldSimp
import Mathlib.Tactic.Ring
import Mathlib.Tactic.FinCases
import Mathlib.Tactic.LinearCombination
import Mathlib.Tactic.Abel

set_option linter.unusedSectionVars false
set_option linter.unusedSimpArgs false
set_option linter.unnecessarySeqFocus false
set_option linter.unreachableTactic false
set_option linter.unusedTactic false

namespace Deepali
open Matrix

variable {K : Type} [Field K] {d : Nat}

/-! ### sequential composition -/

theorem foldl_matmul_apply (rest : List (H d K)) (t0 : H d K) (x : Vec d K) :
    (rest.foldl (fun mat t => t.matmul mat) t0).apply x = rest.foldl (fun y h => h.apply y) (t0.apply x) := by
  induction rest generalizing t0 with
  | nil => rfl
  | cons t ts ih => simp only [List.foldl_cons, ih, matmul_apply]

/-- `SequentialTransform.tensor()` of linear members is the map "first member first". -/
theorem seqTensor_apply (hs : List (H d K)) (x : Vec d K) :
    (seqTensor hs).apply x = hs.foldl (fun y h => h.apply y) x := by
  cases hs with
  | nil =>
      simp only [seqTensor, H.apply, one_mulVec, List.foldl_nil, vadd_eq, Nat.cast_zero]
      funext i; simp
  | cons t0 rest => simp only [seqTensor, foldl_matmul_apply, List.foldl_cons]

theorem seqForwardLoop_linear (ms : List (Member d K)) (h : allLinear ms = true) (g : Option (Lat d)) (x : Vec d K) :
    seqForwardLoop ms g x = (linearTensors ms).foldl (fun y h => h.apply y) x := by
  induction ms generalizing g x with
  | nil => rfl
  | cons m ms ih =>
      cases m with
      | linear hm =>
          have h' : allLinear ms = true := by
            simpa [allLinear, Member.isLinear] using h
          simp only [seqForwardLoop, linearTensors, Member.forward, List.foldl_cons, ih h']
      | nonlin fP fG => simp [allLinear, Member.isLinear] at h

theorem seqForwardLoop_none (ms : List (Member d K)) (x : Vec d K) :
    seqForwardLoop ms none x = ms.foldl (fun y m => m.forward none y) x := by
  induction ms generalizing x with
  | nil => rfl
  | cons m ms ih => simp only [seqForwardLoop, List.foldl_cons, ih]

/-! ### multi-level sum -/

theorem mlForwardLoop_eq (ms : List (Member d K)) (x u : Vec d K) :
    mlForwardLoop ms none x u = ms.foldl (fun u t => u.add ((t.forward none x).sub x)) u := by
  induction ms generalizing u with
  | nil => rfl
  | cons m ms ih => simp only [mlForwardLoop, List.foldl_cons, ih]

/-! ### matrix inverses (adjugate / determinant) -/

theorem mul2_apply (A B : Mat 2 K) (i k : Fin 2) : A.mul B i k = A i 0 * B 0 k + A i 1 * B 1 k := by
  simp [Mat.mul, sumFin_eq, Fin.sum_univ_two]

theorem one_apply' (i j : Fin d) : (Mat.one : Mat d K) i j = if i = j then 1 else 0 := by
  simp [Mat.one]

theorem matInv2_mul (A : Mat 2 K) (h : affineDet2 A ≠ 0) : (matInv2 A).mul A = Mat.one := by
  funext i k
  rw [mul2_apply, one_apply']
  have hD : affineDet2 A = A 0 0 * A 1 1 - A 0 1 * A 1 0 := rfl
  generalize affineDet2 A = D at h hD
  fin_cases i <;> fin_cases k <;> simp [matInv2, affMat2, affVec2, affineDet2, ← hD] <;> field_simp <;> rw [hD] <;> ring

theorem mul_matInv2 (A : Mat 2 K) (h : affineDet2 A ≠ 0) : A.mul (matInv2 A) = Mat.one := by
  funext i k
  rw [mul2_apply, one_apply']
  have hD : affineDet2 A = A 0 0 * A 1 1 - A 0 1 * A 1 0 := rfl
  generalize affineDet2 A = D at h hD
  fin_cases i <;> fin_cases k <;> simp [matInv2, affMat2, affVec2, affineDet2, ← hD] <;> field_simp <;> rw [hD] <;> ring

theorem affineDet3_expand (A : Mat 3 K) : affineDet3 A = A 0 0 * (A 1 1 * A 2 2 - A 1 2 * A 2 1)
    - A 0 1 * (A 1 0 * A 2 2 - A 1 2 * A 2 0) + A 0 2 * (A 1 0 * A 2 1 - A 1 1 * A 2 0) := rfl

theorem matInv3_mul (A : Mat 3 K) (h : affineDet3 A ≠ 0) : (matInv3 A).mul A = Mat.one := by
  funext i k
  rw [affineMul3_apply, one_apply']
  have hD := affineDet3_expand A
  generalize affineDet3 A = D at h hD
  fin_cases i <;> fin_cases k <;> simp [matInv3, affMat3, affVec3, affineDet3, ← hD] <;> field_simp <;> rw [hD] <;> ring

theorem mul_matInv3 (A : Mat 3 K) (h : affineDet3 A ≠ 0) : A.mul (matInv3 A) = Mat.one := by
  funext i k
  rw [affineMul3_apply, one_apply']
  have hD := affineDet3_expand A
  generalize affineDet3 A = D at h hD
  fin_cases i <;> fin_cases k <;> simp [matInv3, affMat3, affVec3, affineDet3, ← hD] <;> field_simp <;> rw [hD] <;> ring

/-- two maps that undo each other (both orders). -/
def InversePair (f g : Vec d K → Vec d K) : Prop := (∀ x, g (f x) = x) ∧ (∀ x, f (g x) = x)

theorem InversePair.symm {f g : Vec d K → Vec d K} (h : InversePair f g) : InversePair g f := ⟨h.2, h.1⟩

theorem aff_inversePair {A B : Mat d K} (h1 : B.mul A = Mat.one) (h2 : A.mul B = Mat.one) :
    InversePair (H.aff A).apply (H.aff B).apply := by
  constructor <;> intro x <;> simp only [H.apply, ← mul_mulVec, h1, h2, one_mulVec]

theorem hom_inversePair {A B : Mat d K} (t : Vec d K) (h1 : B.mul A = Mat.one) (h2 : A.mul B = Mat.one) :
    InversePair (H.hom A t).apply (H.hom B (B.mulVec t).neg).apply := by
  constructor <;> intro x <;> simp only [H.apply]
  · rw [mulVec_add, ← mul_mulVec, h1, one_mulVec]
    funext i; simp only [vadd_eq, vneg_eq, Pi.add_apply, Pi.neg_apply]; ring
  · rw [mulVec_add, mulVec_neg, ← mul_mulVec, ← mul_mulVec, h2, one_mulVec, one_mulVec]
    funext i; simp only [vadd_eq, vneg_eq, Pi.add_apply, Pi.neg_apply]; ring

end Deepali

namespace Deepali
open Matrix
variable {K : Type} [Field K] {d : Nat}

/-! ### Euler tensors in closed form -/

theorem eulerTensor3_upper (inv : Bool) (a b c : Axis) (cs sn : Vec 3 K) :
    eulerTensor3 inv (some (orderName a b c)) cs sn
      = .ok (.aff (invertRotation inv (eulerProduct a b c cs sn))) := by
  unfold eulerTensor3
  rw [order_upper]
  simp only [bind, Except.bind, pure, Except.pure]
  rw [eulerRotationMatrix3_eq a b c cs sn]

theorem eulerTensor3_lower (inv : Bool) (a b c : Axis) (cs sn : Vec 3 K) :
    eulerTensor3 inv (some (orderNameLower a b c)) cs sn
      = .ok (.aff (invertRotation inv (eulerProduct a b c cs sn))) := by
  unfold eulerTensor3
  rw [order_lower]
  simp only [bind, Except.bind, pure, Except.pure]
  rw [eulerRotationMatrix3_eq a b c cs sn]

theorem eulerTensor3_none (inv : Bool) (cs sn : Vec 3 K) :
    eulerTensor3 inv none cs sn = .ok (.aff (invertRotation inv (eulerProduct .Z .X .Z cs sn))) := by
  unfold eulerTensor3
  have : eulerRotationOrder none 3 = .ok (orderName .Z .X .Z) := rfl
  rw [this]
  simp only [bind, Except.bind, pure, Except.pure]
  rw [eulerRotationMatrix3_eq .Z .X .Z cs sn]

theorem rot_one_zero (a : Axis) : (a.rot (1 : K) 0 : Mat 3 K) = Mat.one := by
  cases a <;> funext i j <;> fin_cases i <;> fin_cases j <;>
    simp [Axis.rot, rotX, rotY, rotZ, affMat3, affVec3, Mat.one]

theorem one_mul_one : (Mat.one : Mat d K).mul Mat.one = Mat.one := by
  funext i k
  have := congrFun (one_mulVec (fun j => (Mat.one : Mat d K) j k)) i
  simpa [Mat.mul, Mat.mulVec] using this

theorem eulerProduct_default (a b c : Axis) :
    eulerProduct a b c (fun _ => (1 : K)) (fun _ => 0) = Mat.one := by
  simp only [eulerProduct, rot_one_zero, one_mul_one]

end Deepali

namespace Deepali
open Matrix
variable {K : Type} [Field K] {d : Nat}

/-! ### inverse of a sequential composition -/

theorem foldl_append_singleton {β : Type} (fs : List β) (b : β) (ap : β → Vec d K → Vec d K) (x : Vec d K) :
    (fs ++ [b]).foldl (fun y p => ap p y) x = ap b (fs.foldl (fun y p => ap p y) x) := by
  rw [List.foldl_append]; rfl

/-- a list of invertible maps applied in listed order is undone by the inverses in reversed order. -/
theorem seq_inverse_maps (ps : List ((Vec d K → Vec d K) × (Vec d K → Vec d K)))
    (h : ∀ p ∈ ps, InversePair p.1 p.2) :
    InversePair (fun x => ps.foldl (fun y p => p.1 y) x) (fun x => ps.reverse.foldl (fun y p => p.2 y) x) := by
  induction ps with
  | nil => exact ⟨fun _ => rfl, fun _ => rfl⟩
  | cons p ps ih =>
      have hp := h p List.mem_cons_self
      have ih' := ih (fun q hq => h q (List.mem_cons_of_mem _ hq))
      constructor
      · intro x
        simp only [List.reverse_cons, List.foldl_cons]
        rw [foldl_append_singleton ps.reverse p (fun q y => q.2 y)]
        have := ih'.1 (p.1 x)
        simp only at this
        rw [this, hp.1]
      · intro x
        simp only [List.reverse_cons, List.foldl_cons]
        rw [foldl_append_singleton ps.reverse p (fun q y => q.2 y), hp.2]
        exact ih'.2 x

/-- an `InvertibleParametricTransform` whose two tensors undo each other. -/
def ParamTransform.Invertible (t : ParamTransform d K) : Prop :=
  InversePair (t.tensorOf false).apply (t.tensorOf true).apply

theorem ParamTransform.inverse_pair {t : ParamTransform d K} (h : t.Invertible) :
    InversePair t.tensor.apply t.inverse.tensor.apply := by
  unfold ParamTransform.tensor ParamTransform.inverse ParamTransform.Invertible at *
  cases hi : t.invert <;> simp only [hi, Bool.not_true, Bool.not_false]
  · exact h
  · exact h.symm

theorem seqTensor_inverse (ts : List (ParamTransform d K)) (h : ∀ t ∈ ts, t.Invertible) :
    InversePair (seqTensor (ts.map ParamTransform.tensor)).apply
      (seqTensor ((seqInverse ts).map ParamTransform.tensor)).apply := by
  have key := seq_inverse_maps (ts.map (fun t => (t.tensor.apply, t.inverse.tensor.apply))) (by
    intro p hp
    obtain ⟨t, ht, rfl⟩ := List.mem_map.mp hp
    exact ParamTransform.inverse_pair (h t ht))
  have e1 : ∀ x, (seqTensor (ts.map ParamTransform.tensor)).apply x
      = (ts.map (fun t => (t.tensor.apply, t.inverse.tensor.apply))).foldl (fun y p => p.1 y) x := by
    intro x
    rw [seqTensor_apply, List.foldl_map, List.foldl_map]
  have e2 : ∀ x, (seqTensor ((seqInverse ts).map ParamTransform.tensor)).apply x
      = (ts.map (fun t => (t.tensor.apply, t.inverse.tensor.apply))).reverse.foldl (fun y p => p.2 y) x := by
    intro x
    rw [seqTensor_apply, seqInverse, List.foldl_map, List.foldl_map, ← List.map_reverse, List.foldl_map]
  constructor
  · intro x; rw [e1, e2]; exact key.1 x
  · intro x; rw [e1, e2]; exact key.2 x

end Deepali

namespace Deepali
open Matrix
variable {K : Type} [Field K] {d : Nat}

/-! ### multi-level composite of linear members (repaired code: `Σ Aᵢ − (n−1)·I | Σ tᵢ`) -/

theorem madd_mulVec (A B : Mat d K) (x : Vec d K) (i : Fin d) :
    (A.add B).mulVec x i = A.mulVec x i + B.mulVec x i := by
  simp only [Mat.mulVec, Mat.add, sumFin_eq, add_mul, Finset.sum_add_distrib]

theorem toHom_apply_pt (t : H d K) (x : Vec d K) (i : Fin d) :
    t.toHom.1.mulVec x i + t.toHom.2 i = t.apply x i := by
  have := congrFun (toHom_apply t x) i
  simpa only [H.apply, vadd_eq, Pi.add_apply] using this

theorem hom_apply_pt (A : Mat d K) (t x : Vec d K) (i : Fin d) : (H.hom A t).apply x i = A.mulVec x i + t i := rfl

theorem mlFold_apply (x : Vec d K) (rest : List (H d K)) :
    ∀ (acc : Mat d K × Vec d K) (v : Vec d K) (n : Nat),
      (∀ i, acc.1.mulVec x i + acc.2 i = v i + (n : K) * x i) →
      ∀ i, (rest.foldl (fun (a : Mat d K × Vec d K) t => (a.1.add t.toHom.1, a.2.add t.toHom.2)) acc).1.mulVec x i
            + (rest.foldl (fun (a : Mat d K × Vec d K) t => (a.1.add t.toHom.1, a.2.add t.toHom.2)) acc).2 i
          = (rest.foldl (fun u t => u.add ((t.apply x).sub x)) v) i + ((n + rest.length : Nat) : K) * x i := by
  induction rest with
  | nil => intro acc v n h i; simpa using h i
  | cons t ts ih =>
      intro acc v n h i
      simp only [List.foldl_cons, List.length_cons]
      have := ih (acc.1.add t.toHom.1, acc.2.add t.toHom.2) (v.add ((t.apply x).sub x)) (n + 1) (by
        intro i
        simp only [madd_mulVec, Vec.add, Vec.sub]
        have h1 := h i
        have h2 := toHom_apply_pt t x i
        push_cast
        linear_combination h1 + h2) i
      rw [this]
      have e : n + 1 + ts.length = n + (ts.length + 1) := by omega
      rw [e]

/-- `MultiLevelTransform.tensor()` of linear members is the map `x ↦ x + Σᵢ (Tᵢ(x) − x)`. -/
theorem mlTensor_apply (hs : List (H d K)) (x : Vec d K) :
    (mlTensor hs).apply x
      = x.add (hs.foldl (fun u t => u.add ((t.apply x).sub x)) (fun _ => ((0 : Nat) : K))) := by
  cases hs with
  | nil =>
      funext i
      simp [mlTensor, H.apply, one_mulVec, Vec.add]
  | cons t0 rest =>
      funext i
      have key := mlFold_apply x rest t0.toHom (Vec.add (fun _ => ((0 : Nat) : K)) ((t0.apply x).sub x)) 1 (by
        intro i
        have := toHom_apply_pt t0 x i
        simp only [Vec.add, Vec.sub, Nat.cast_zero, Nat.cast_one]
        linear_combination this) i
      simp only [List.foldl_cons, mlTensor]
      split
      · next he =>
        have hl : rest.length = 0 := by simpa using he
        rw [hl] at key
        rw [hom_apply_pt, key]
        simp only [Vec.add]
        push_cast; ring
      · have hm : Mat.mulVec (fun i j => (rest.foldl (fun (a : Mat d K × Vec d K) t =>
              (a.1.add t.toHom.1, a.2.add t.toHom.2)) t0.toHom).1 i j
            - ((rest.length : Nat) : K) * (Mat.one : Mat d K) i j) x i
            = (rest.foldl (fun (a : Mat d K × Vec d K) t => (a.1.add t.toHom.1, a.2.add t.toHom.2)) t0.toHom).1.mulVec x i
              - ((rest.length : Nat) : K) * x i := by
          have h1 := congrFun (one_mulVec x) i
          simp only [Mat.mulVec, sumFin_eq] at h1 ⊢
          simp only [sub_mul, Finset.sum_sub_distrib, mul_assoc, ← Finset.mul_sum, h1]
        rw [hom_apply_pt, hm]
        simp only [Vec.add]
        push_cast at key ⊢
        linear_combination key

end Deepali
