/-
  Proofs/TransformsViews.lean — the views of a spatial transform (`points`, `disp`, `ImageTransformer`)
  as conjugations of its cube map with the grid maps (property C06).
-/
import Deepali.Model.Transforms
import Deepali.Proofs.GridMaps
import Deepali.Proofs.SamplePipe
import Deepali.Proofs.Transforms
import Deepali.Proofs.FlowRepr

set_option linter.unusedSectionVars false
set_option linter.unusedSimpArgs false

namespace Deepali
open Matrix

variable {K : Type} [Field K] [LinearOrder K] [IsStrictOrderedRing K] [FloorRing K] {d : Nat}

/-- the world-space map of a transform whose `forward` is the cube map `T` on grid `tg`:
    world → cube of `tg` (axes per `align_corners`) → `T` → world. -/
def worldMap (tg : Grid d K) (T : Vec d K → Vec d K) (w : Vec d K) : Vec d K :=
  fromGrid tg .world (toGrid tg (transformAxes tg) (T (fromGrid tg (transformAxes tg) (toGrid tg .world w))))

/-- equal grids in the sense of `Grid.__eq__`: every attribute but `align_corners`. -/
def Grid.EqUpToAc (g g' : Grid d K) : Prop :=
  g.size = g'.size ∧ g.center = g'.center ∧ g.spacing = g'.spacing ∧ g.direction = g'.direction

theorem Grid.EqUpToAc.refl (g : Grid d K) : g.EqUpToAc g := ⟨rfl, rfl, rfl, rfl⟩

theorem toGrid_congr {g g' : Grid d K} (h : g.EqUpToAc g') (a : Axes) : toGrid g a = toGrid g' a := by
  obtain ⟨s, c, sp, dr, ac⟩ := g
  obtain ⟨s', c', sp', dr', ac'⟩ := g'
  obtain ⟨h1, h2, h3, h4⟩ := h
  simp only at h1 h2 h3 h4
  subst h1 h2 h3 h4
  cases a <;> rfl

theorem fromGrid_congr {g g' : Grid d K} (h : g.EqUpToAc g') (a : Axes) : fromGrid g a = fromGrid g' a := by
  obtain ⟨s, c, sp, dr, ac⟩ := g
  obtain ⟨s', c', sp', dr', ac'⟩ := g'
  obtain ⟨h1, h2, h3, h4⟩ := h
  simp only at h1 h2 h3 h4
  subst h1 h2 h3 h4
  cases a <;> rfl

theorem cornersOK_world (g : Grid d K) : g.CornersOK .world := fun hc => by cases hc

/-- every way `apply_transform` maps points from `(g, a)` to `(g', b)` is world-consistent. -/
theorem transformSel_apply {g g' : Grid d K} (hg : g.Valid) (hg' : g'.Valid) (a b : Axes) (ha : g.CornersOK a)
    (hb : g'.CornersOK b) (same : Bool) (hs : same = true → g.EqUpToAc g') (x : Vec d K) :
    applyOpt (g.transformSel a g' b same) x
      = fromGrid g' b (toGrid g' .world (fromGrid g .world (toGrid g a x))) := by
  cases same with
  | false =>
      simp only [Grid.transformSel, Bool.false_eq_true, if_false, applyOpt]
      have := applyTransformTo_eq hg hg' a b ha hb x
      simpa only [Grid.applyTransformTo, H.applyAs, Bool.false_eq_true, if_false] using this
  | true =>
      have he := hs rfl
      have hb' : g.CornersOK b := by
        intro hc i
        have := hb hc i
        obtain ⟨h1, _, _, _⟩ := he
        simpa only [Grid.sizeTensor, h1] using this
      rw [← toGrid_congr he .world, ← fromGrid_congr he b, toGrid_fromGrid hg .world (cornersOK_world g)]
      by_cases hab : a = b
      · subst hab
        simp only [Grid.transformSel, if_true, applyOpt]
        rw [fromGrid_toGrid hg a ha]
      · simp only [Grid.transformSel, if_true, hab, if_false, applyOpt]
        exact transform_apply hg a b ha hb' x

/-- `SpatialTransform.points` / `PointSetTransformer`: conjugation of the world map. -/
theorem transformPoints_eq (T : Vec d K → Vec d K) {tg g₁ g₂ : Grid d K} (ht : tg.Valid) (h₁ : g₁.Valid)
    (h₂ : g₂.Valid) (a b : Axes) (ha : g₁.CornersOK a) (hb : g₂.CornersOK b) (htc : tg.CornersOK (transformAxes tg))
    (s₁ s₂ : Bool) (hs₁ : s₁ = true → g₁.EqUpToAc tg) (hs₂ : s₂ = true → tg.EqUpToAc g₂) (x : Vec d K) :
    transformPoints T tg g₁ a g₂ b s₁ s₂ x
      = fromGrid g₂ b (toGrid g₂ .world (worldMap tg T (fromGrid g₁ .world (toGrid g₁ a x)))) := by
  simp only [transformPoints, transformPointsWith, worldMap]
  rw [transformSel_apply h₁ ht a _ ha htc s₁ hs₁, transformSel_apply ht h₂ _ b htc hb s₂ hs₂]

/-- the lattice `Grid.coords()` of a grid in its own cube axes. -/
theorem coords_eq_fromGrid {g : Grid d K} {n : Fin d → Nat} (hn : g.HasSize n) (h2 : ∀ i, 2 ≤ n i) (ac : Bool)
    (j : Vec d K) : (fun i => coordAt (n i) ac (j i)) = fromGrid g (Axes.fromAlignCorners ac) j := by
  funext i; exact coordAt_eq_fromGrid hn h2 ac j i

/-- `CompositeTransform.disp(grid)` without the default rounding: the displacement, in the cube of `grid`,
    between a grid point and its image under the world map. `hdom` is what `same_domain_as` asserts: the two
    cube → world maps coincide. -/
theorem dispComposite_eq (T : Vec d K → Vec d K) {tg g : Grid d K} {n : Fin d → Nat} (ht : tg.Valid) (hg : g.Valid)
    (hn : g.HasSize n) (h2 : ∀ i, 2 ≤ n i) (htc : tg.CornersOK (transformAxes tg)) (sameDomain : Bool)
    (hdom : sameDomain = true → ∀ p, fromGrid tg .world (toGrid tg (transformAxes tg) p)
        = fromGrid g .world (toGrid g (Axes.fromAlignCorners g.alignCorners) p)) (j : Vec d K) :
    dispComposite T tg g n sameDomain j
      = (fromGrid g (Axes.fromAlignCorners g.alignCorners) (toGrid g .world (worldMap tg T (fromGrid g .world j)))).sub
          (fromGrid g (Axes.fromAlignCorners g.alignCorners) j) := by
  have hgc : g.CornersOK (Axes.fromAlignCorners g.alignCorners) := hn.cornersOK h2 _
  have hw := cornersOK_world g
  have hwt := cornersOK_world tg
  simp only [dispComposite, dispCompositeWith, dispCompositeMaps, coords_eq_fromGrid hn h2, worldMap]
  cases sameDomain with
  | true =>
      have hd := hdom rfl
      simp only [if_true]
      congr 1
      set xj := fromGrid g (Axes.fromAlignCorners g.alignCorners) j with hxj
      have e1 : fromGrid tg (transformAxes tg) (toGrid tg .world (fromGrid g .world j)) = xj := by
        have := hd xj
        rw [hxj, toGrid_fromGrid hg _ hgc] at this
        rw [← this, toGrid_fromGrid ht .world hwt, fromGrid_toGrid ht _ htc]
      rw [e1, hd, toGrid_fromGrid hg .world hw, fromGrid_toGrid hg _ hgc]
  | false =>
      simp only [Bool.false_eq_true, if_false]
      congr 1
      have e1 := applyTransformTo_eq hg ht (Axes.fromAlignCorners g.alignCorners) (transformAxes tg) hgc htc
        (fromGrid g (Axes.fromAlignCorners g.alignCorners) j)
      simp only [Grid.applyTransformTo, H.applyAs, Bool.false_eq_true, if_false] at e1
      rw [e1, toGrid_fromGrid hg _ hgc]
      have e2 := applyTransformTo_eq ht hg (transformAxes tg) (Axes.fromAlignCorners g.alignCorners) htc hgc
      simp only [Grid.applyTransformTo, H.applyAs, Bool.false_eq_true, if_false] at e2
      rw [e2]

theorem sampleImageMatrix_apply {tg src : Grid d K} (ht : tg.Valid) (hs : src.Valid)
    (htc : tg.CornersOK (transformAxes tg)) (hsc : src.CornersOK (transformAxes tg)) (sTS : Bool)
    (hTS : sTS = true → tg.EqUpToAc src) (y : Vec d K) :
    (sampleImageMatrix tg src sTS).apply y
      = fromGrid src (transformAxes tg) (toGrid src .world (fromGrid tg .world (toGrid tg (transformAxes tg) y))) := by
  cases sTS with
  | false =>
      simp only [sampleImageMatrix, Bool.false_eq_true, if_false]
      have := applyTransformTo_eq ht hs (transformAxes tg) (transformAxes tg) htc hsc y
      simpa only [Grid.applyTransformTo, H.applyAs, Bool.false_eq_true, if_false] using this
  | true =>
      have he := hTS rfl
      simp only [sampleImageMatrix, if_true]
      rw [← toGrid_congr he .world, ← fromGrid_congr he, toGrid_fromGrid ht .world (cornersOK_world tg),
        transform_apply ht _ _ htc htc]

/-- **the warp pipeline**: the continuous source index `grid_sample` ends up with inside `ImageTransformer`
    is `src.worldToIndex (W_T (tgt.indexToWorld j))`, for any cube map `T`. -/
theorem imageTransformerCoord_unnormalized (T : Vec d K → Vec d K) {tg tgt src : Grid d K}
    {tgN srcN tgtN : Fin d → Nat} (ht : tg.Valid) (hg : tgt.Valid) (hs : src.Valid) (htn : tg.HasSize tgN)
    (hgn : tgt.HasSize tgtN) (hsn : src.HasSize srcN) (ht2 : ∀ i, 2 ≤ tgN i) (hg2 : ∀ i, 2 ≤ tgtN i)
    (hs2 : ∀ i, 2 ≤ srcN i) (sTT sTS : Bool) (hTT : sTT = true → tgt.EqUpToAc tg)
    (hTS : sTS = true → tg.EqUpToAc src) (j : Vec d K) (i : Fin d) :
    unnormalize tg.alignCorners ((srcN i : Nat) : K) (imageTransformerCoord T tg tgt src tgtN sTT sTS id j i)
      = toGrid src .world (worldMap tg T (fromGrid tgt .world j)) i := by
  have htc : tg.CornersOK (Axes.fromAlignCorners tg.alignCorners) := htn.cornersOK ht2 _
  have hgc : tgt.CornersOK (Axes.fromAlignCorners tg.alignCorners) := hgn.cornersOK hg2 _
  have hsc : src.CornersOK (Axes.fromAlignCorners tg.alignCorners) := hsn.cornersOK hs2 _
  rw [unnormalize_eq_toGrid hsn]
  simp only [imageTransformerCoord, imageTransformerCoordWith, imageTransformerGridMap, id, transformAxes,
    coords_eq_fromGrid hgn hg2]
  have e := transformSel_apply hg ht (Axes.fromAlignCorners tg.alignCorners) (Axes.fromAlignCorners tg.alignCorners)
    hgc htc sTT hTT (fromGrid tgt (Axes.fromAlignCorners tg.alignCorners) j)
  rw [toGrid_fromGrid hg _ hgc] at e
  rw [e]
  have e2 := sampleImageMatrix_apply ht hs htc hsc sTS hTS
  simp only [transformAxes] at e2
  rw [e2, toGrid_fromGrid hs _ hsc]
  simp only [worldMap, transformAxes]

end Deepali

namespace Deepali
open Matrix
variable {K : Type} [Field K] [LinearOrder K] [IsStrictOrderedRing K] [FloorRing K] {d : Nat}

/-! ### base-class `disp(grid)` after the repairs eb11384 / 8e0bb59 -/

/-- the repaired base-class `disp` of a linear transform is the composite recipe applied to `h.apply`. -/
theorem dispLinear_eq_dispComposite (h : H d K) (tg g : Grid d K) (n : Fin d → Nat) (sd : Bool) (j : Vec d K) :
    dispLinear h tg g n sd j = dispComposite h.apply tg g n sd j := by
  unfold dispLinear dispComposite dispLinearWith dispCompositeWith affineFlowAt
  cases dispCompositeMaps tg g sd with
  | none => rfl
  | some p => cases p; rfl

theorem toGridLin_congr {g g' : Grid d K} (h : g.EqUpToAc g') (a : Axes) : toGridLin g a = toGridLin g' a := by
  obtain ⟨s, c, sp, dr, ac⟩ := g
  obtain ⟨s', c', sp', dr', ac'⟩ := g'
  obtain ⟨h1, h2, h3, h4⟩ := h
  simp only at h1 h2 h3 h4
  subst h1 h2 h3 h4
  cases a <;> rfl

/-- non-rigid `disp(grid)` on a grid with the same samples as the transform's (and the field's) grid but the other
    `align_corners` flag: the stored vector re-expressed in the cube axes of `grid`. -/
theorem dispNonRigid_other_convention {tg fg g : Grid d K} {n gridN : Fin d → Nat} (hg : g.Valid)
    (hgn : g.HasSize gridN) (h2 : ∀ i, 2 ≤ gridN i) (he : tg.EqUpToAc g) (hne : g.alignCorners ≠ tg.alignCorners)
    (u : VField d K) (rnd : Vec d K → Vec d K) (pad : Padding) (j : Fin d → Nat) :
    dispNonRigid tg fg g n gridN u true true rnd pad j
      = fromGridLin g (Axes.fromAlignCorners g.alignCorners)
          (toGridLin tg (transformAxes tg) (u (fun i => ((j i : Nat) : Int)))) := by
  have hc : ∀ a, g.CornersOK a := fun a => hgn.cornersOK h2 a
  simp only [dispNonRigid, dispNonRigidWith, hne, and_false, if_false, if_true]
  rw [transformVectors_eq hg _ _ (hc _) (hc _), toGridLin_congr he]

/-- non-rigid `disp(grid)` on a foreign grid (either flag), without the default rounding: the field sampled at the
    position of grid point `j` (expressed in the cube of the field's grid), converted *as a world vector* into the cube
    axes of `grid`. -/
theorem dispNonRigid_foreign {tg fg g : Grid d K} {n gridN fgN : Fin d → Nat} (hg : g.Valid) (hf : fg.Valid)
    (hgn : g.HasSize gridN) (h2 : ∀ i, 2 ≤ gridN i) (hfn : fg.HasSize fgN) (hf2 : ∀ i, 2 ≤ fgN i)
    (u : VField d K) (pad : Padding) (j : Fin d → Nat) :
    dispNonRigid tg fg g n gridN u false false id pad j
      = fromGridLin g (Axes.fromAlignCorners g.alignCorners) (toGridLin g .world (fromGridLin fg .world
          (toGridLin fg (transformAxes tg) (sampleVField tg.alignCorners pad n u
            (fromGrid fg (transformAxes tg) (toGrid fg .world (fromGrid g .world (fun i => ((j i : Nat) : K))))))))) := by
  have hc : ∀ a, g.CornersOK a := fun a => hgn.cornersOK h2 a
  have hfc : ∀ a, fg.CornersOK a := fun a => hfn.cornersOK hf2 a
  simp only [dispNonRigid, dispNonRigidWith, Bool.false_eq_true, false_and, if_false, id]
  have hp : (fun i => coordAt (gridN i) tg.alignCorners (((j i : Nat) : K)))
      = fromGrid g (transformAxes tg) (fun i => ((j i : Nat) : K)) :=
    coords_eq_fromGrid hgn h2 tg.alignCorners _
  rw [hp]
  have e1 := applyTransformTo_eq hg hf (transformAxes tg) (transformAxes tg) (hc _) (hfc _)
    (fromGrid g (transformAxes tg) (fun i => ((j i : Nat) : K)))
  simp only [Grid.applyTransformTo, H.applyAs, Bool.false_eq_true, if_false] at e1
  rw [e1, toGrid_fromGrid hg _ (hc _)]
  have e2 := applyTransformTo_vec_eq hf hg (transformAxes tg) (transformAxes tg) (hfc _) (hc _)
  simp only [Grid.applyTransformTo, H.applyAs, if_true] at e2
  rw [e2]
  by_cases hac : g.alignCorners = tg.alignCorners
  · simp only [hac, if_true, transformAxes]
  · simp only [hac, if_false]
    rw [transformVectors_eq hg _ _ (hc _) (hc _), toGridLin_fromGridLin hg _ (hc _)]

end Deepali
