/-
  Proofs/VecBridge.lean — bridge from the import-free model's linear algebra to Mathlib's
  `Finset.sum` / `Matrix`, proved once and used by all property proofs.
-/
import Deepali.Model.Homog
import Mathlib.Data.Matrix.Mul
import Mathlib.Data.Matrix.Diagonal
import Mathlib.Algebra.BigOperators.Fin
import Mathlib.Algebra.Field.Basic

namespace Deepali
open Matrix

variable {K : Type} [Field K] {d : Nat}

theorem sumFin_eq (f : Fin d → K) : sumFin d f = ∑ i, f i := by
  induction d with
  | zero => simp [sumFin]
  | succ d ih => simp [sumFin, ih, Fin.sum_univ_castSucc]

/-- a model matrix viewed as a Mathlib matrix (definitionally the same function). -/
def toM (A : Mat d K) : Matrix (Fin d) (Fin d) K := A

@[simp] theorem toM_apply (A : Mat d K) (i j) : toM A i j = A i j := rfl

theorem mulVec_eq (A : Mat d K) (x : Vec d K) : A.mulVec x = (toM A) *ᵥ x := by
  funext i; simp [Mat.mulVec, sumFin_eq, Matrix.mulVec, dotProduct]

theorem mmul_eq (A B : Mat d K) : toM (A.mul B) = toM A * toM B := by
  ext i k; simp [Mat.mul, sumFin_eq, Matrix.mul_apply]

theorem mmul_eq' (A B : Mat d K) : A.mul B = (toM A * toM B : Matrix _ _ K) := mmul_eq A B

theorem diag_eq (s : Vec d K) : toM (Mat.diag s) = Matrix.diagonal s := by
  ext i j; simp [Mat.diag, Matrix.diagonal_apply]

theorem one_eq : toM (Mat.one : Mat d K) = 1 := by
  ext i j; simp [Mat.one, Matrix.one_apply]

theorem transpose_eq (A : Mat d K) : toM A.transpose = (toM A)ᵀ := rfl

theorem vadd_eq (x y : Vec d K) : x.add y = x + y := rfl
theorem vsub_eq (x y : Vec d K) : x.sub y = x - y := rfl
theorem vneg_eq (x : Vec d K) : x.neg = -x := rfl

theorem diag_mulVec (s x : Vec d K) (i : Fin d) : (Mat.diag s).mulVec x i = s i * x i := by
  rw [mulVec_eq, diag_eq]; simp [Matrix.mulVec_diagonal]

theorem one_mulVec (x : Vec d K) : (Mat.one : Mat d K).mulVec x = x := by
  rw [mulVec_eq, one_eq]; simp

theorem mul_mulVec (A B : Mat d K) (x : Vec d K) : (A.mul B).mulVec x = A.mulVec (B.mulVec x) := by
  simp only [mulVec_eq, mmul_eq, Matrix.mulVec_mulVec]

theorem mulVec_add (A : Mat d K) (x y : Vec d K) : A.mulVec (x.add y) = (A.mulVec x).add (A.mulVec y) := by
  simp only [mulVec_eq, vadd_eq, Matrix.mulVec_add]

theorem mulVec_sub (A : Mat d K) (x y : Vec d K) : A.mulVec (x.sub y) = (A.mulVec x).sub (A.mulVec y) := by
  simp only [mulVec_eq, vsub_eq, Matrix.mulVec_sub]

theorem mulVec_neg (A : Mat d K) (x : Vec d K) : A.mulVec x.neg = (A.mulVec x).neg := by
  simp only [mulVec_eq, vneg_eq, Matrix.mulVec_neg]

end Deepali
