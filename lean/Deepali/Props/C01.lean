/-
  Props/C01.lean — property C01: grid coordinate systems map consistently.
  Only property theorems and non-vacuity examples live here; helper lemmas are in
  Deepali/Proofs/GridMaps.lean.

  OBLIGATIONS: C01_roundtrip C01_compose C01_two_grids_roundtrip C01_two_grids_compose
    C01_two_grids_same C01_vectors_linear_part C01_vectors_closed_form C01_two_grids_vectors
    C01_anchor_origin C01_anchor_center C01_anchor_corners C01_anchor_cube
    C01_coords_count C01_coords_values C01_coords_range C01_sample_identity C01_rounding_bound C01_cube_of_grid
-/
import Deepali.Proofs.GridMaps
import Deepali.Proofs.Rounding
import Deepali.Proofs.Examples
import Deepali.Proofs.FlowAffine
import Deepali.Proofs.CubeMaps
import Mathlib.Tactic.Linarith
import Mathlib.Tactic.NormNum
import Mathlib.Data.Rat.Floor
import Mathlib.Tactic.FinCases

set_option linter.unusedSectionVars false

namespace Deepali
open Matrix
variable {K : Type} [Field K] [LinearOrder K] [IsStrictOrderedRing K] [FloorRing K] {d : Nat}

/-- A→B followed by B→A is the identity (all 16 ordered pairs, any dimension). -/
theorem C01_roundtrip {g : Grid d K} (h : g.Valid) (a b : Axes) (ha : g.CornersOK a) (hb : g.CornersOK b)
    (x : Vec d K) : g.applyTransform b a false (g.applyTransform a b false x) = x := by
  rw [applyTransform_eq h a b ha hb, applyTransform_eq h b a hb ha, toGrid_fromGrid h b hb, fromGrid_toGrid h a ha]

/-- A→C equals A→B→C (all 64 ordered triples). -/
theorem C01_compose {g : Grid d K} (h : g.Valid) (a b c : Axes) (ha : g.CornersOK a) (hb : g.CornersOK b)
    (hc : g.CornersOK c) (x : Vec d K) :
    g.applyTransform b c false (g.applyTransform a b false x) = g.applyTransform a c false x := by
  rw [applyTransform_eq h a b ha hb, applyTransform_eq h b c hb hc, applyTransform_eq h a c ha hc,
    toGrid_fromGrid h b hb]

/-- two grids: (g,A)→(g',B) followed by (g',B)→(g,A) is the identity. -/
theorem C01_two_grids_roundtrip {g g' : Grid d K} (h : g.Valid) (h' : g'.Valid) (a b : Axes)
    (ha : g.CornersOK a) (hb : g'.CornersOK b) (x : Vec d K) :
    g'.applyTransformTo b g a false (g.applyTransformTo a g' b false x) = x := by
  have hw : ∀ g : Grid d K, g.CornersOK .world := fun _ hc => by cases hc
  rw [applyTransformTo_eq h h' a b ha hb, applyTransformTo_eq h' h b a hb ha, toGrid_fromGrid h' b hb,
    fromGrid_toGrid h' .world (hw _), toGrid_fromGrid h .world (hw _), fromGrid_toGrid h a ha]

/-- three grids: (g,A)→(g',B)→(g'',C) equals (g,A)→(g'',C). -/
theorem C01_two_grids_compose {g g' g'' : Grid d K} (h : g.Valid) (h' : g'.Valid) (h'' : g''.Valid)
    (a b c : Axes) (ha : g.CornersOK a) (hb : g'.CornersOK b) (hc : g''.CornersOK c) (x : Vec d K) :
    g'.applyTransformTo b g'' c false (g.applyTransformTo a g' b false x)
      = g.applyTransformTo a g'' c false x := by
  have hw : ∀ g : Grid d K, g.CornersOK .world := fun _ hc => by cases hc
  rw [applyTransformTo_eq h h' a b ha hb, applyTransformTo_eq h' h'' b c hb hc,
    applyTransformTo_eq h h'' a c ha hc, toGrid_fromGrid h' b hb, fromGrid_toGrid h' .world (hw _)]

/-- the `to_grid == self` shortcut of the code is harmless: going through WORLD on the same
    grid gives the one-grid map. -/
theorem C01_two_grids_same {g : Grid d K} (h : g.Valid) (a b : Axes) (ha : g.CornersOK a)
    (hb : g.CornersOK b) (x : Vec d K) :
    g.applyTransformTo a g b false x = g.applyTransform a b false x := by
  have hw : ∀ g : Grid d K, g.CornersOK .world := fun _ hc => by cases hc
  rw [applyTransformTo_eq h h a b ha hb, applyTransform_eq h a b ha hb, toGrid_fromGrid h .world (hw _)]

/-- vectors transform by exactly the linear part of the point map:
    `T(x + v) − T(x)`, for the `vectors=True` matrices … -/
theorem C01_vectors_linear_part {g : Grid d K} (h : g.Valid) (a b : Axes) (ha : g.CornersOK a)
    (hb : g.CornersOK b) (x v : Vec d K) :
    g.applyTransform a b true v = g.applyTransform a b false (x + v) - g.applyTransform a b false x := by
  rw [applyTransform_vec_eq h a b ha hb, applyTransform_eq h a b ha hb, applyTransform_eq h a b ha hb,
    toGrid_add, fromGrid_add]; abel

/-- … and for the separate closed-form scale/affine path of `Grid.transform_vectors`. -/
theorem C01_vectors_closed_form {g : Grid d K} (h : g.Valid) (a b : Axes) (ha : g.CornersOK a)
    (hb : g.CornersOK b) (x v : Vec d K) :
    g.transformVectors a b v = g.applyTransform a b false (x + v) - g.applyTransform a b false x := by
  rw [transformVectors_eq h a b ha hb, ← applyTransform_vec_eq h a b ha hb]
  exact C01_vectors_linear_part h a b ha hb x v

/-- two grids: vectors map by the linear part of the two-grid point map. -/
theorem C01_two_grids_vectors {g g' : Grid d K} (h : g.Valid) (h' : g'.Valid) (a b : Axes)
    (ha : g.CornersOK a) (hb : g'.CornersOK b) (x v : Vec d K) :
    g.applyTransformTo a g' b true v
      = g.applyTransformTo a g' b false (x + v) - g.applyTransformTo a g' b false x := by
  rw [applyTransformTo_vec_eq h h' a b ha hb, applyTransformTo_eq h h' a b ha hb,
    applyTransformTo_eq h h' a b ha hb, toGrid_add, fromGrid_add, toGrid_add, fromGrid_add]; abel

/-- anchor: index 0 is the origin. -/
theorem C01_anchor_origin (g : Grid d K) :
    g.applyTransform .grid .world false (fun _ => 0) = g.origin := by
  have e0 : (fun _ : Fin d => (0 : K)) = 0 := rfl
  simp only [Grid.applyTransform, Grid.transform, H.applyAs, Bool.false_eq_true, if_false, wrap_apply, e0,
    mulVec_eq, Matrix.mulVec_zero, zero_add, reduceCtorEq]

/-- anchor: index (n−1)/2 is the stored center (consistency of origin and center). -/
theorem C01_anchor_center (g : Grid d K) (hpos : ∀ i, 0 < g.sizeTensor i) :
    g.applyTransform .grid .world false (fun i => (g.sizeTensor i - 1) / 2) = g.center := by
  simp only [Grid.applyTransform, Grid.transform, H.applyAs, Bool.false_eq_true, if_false, wrap_apply,
    Grid.origin, Grid.originOffset, reduceCtorEq, vsub_eq, Nat.cast_zero, Nat.cast_one, Nat.cast_ofNat, hpos, if_true]
  abel

/-- anchors: cube-corner coordinates −1/+1 are the first/last sample. -/
theorem C01_anchor_corners (g : Grid d K) (hc : ∀ i, g.sizeTensor i ≠ 1) :
    g.applyTransform .cubeCorners .grid false (fun _ => -1) = (fun _ => 0) ∧
    g.applyTransform .cubeCorners .grid false (fun _ => 1) = (fun i => g.sizeTensor i - 1) ∧
    g.applyTransform .grid .cubeCorners false (fun _ => 0) = (fun _ => -1) ∧
    g.applyTransform .grid .cubeCorners false (fun i => g.sizeTensor i - 1) = (fun _ => 1) := by
  refine ⟨?_, ?_, ?_, ?_⟩ <;>
    simp only [Grid.applyTransform, Grid.transform, H.applyAs, Bool.false_eq_true, if_false, wrap_apply,
      reduceCtorEq, diag_affine, Nat.cast_one, Nat.cast_ofNat] <;>
    funext i <;> have h1 : g.sizeTensor i - 1 ≠ 0 := sub_ne_zero.mpr (hc i)
  · ring
  · ring
  · ring
  · field_simp; ring

/-- anchors: cube coordinates −1/+1 lie half a sample beyond the first/last sample. -/
theorem C01_anchor_cube (g : Grid d K) (hn : ∀ i, g.sizeTensor i ≠ 0) :
    g.applyTransform .cube .grid false (fun _ => -1) = (fun _ => -1 / 2) ∧
    g.applyTransform .cube .grid false (fun _ => 1) = (fun i => g.sizeTensor i - 1 / 2) ∧
    g.applyTransform .grid .cube false (fun _ => -1 / 2) = (fun _ => -1) ∧
    g.applyTransform .grid .cube false (fun i => g.sizeTensor i - 1 / 2) = (fun _ => 1) := by
  refine ⟨?_, ?_, ?_, ?_⟩ <;>
    simp only [Grid.applyTransform, Grid.transform, H.applyAs, Bool.false_eq_true, if_false, wrap_apply,
      reduceCtorEq, diag_affine, Nat.cast_one, Nat.cast_ofNat] <;>
    funext i <;> have h0 := hn i
  · ring
  · ring
  · field_simp; ring
  · field_simp; ring

/-- the sample lattice has exactly `n` coordinates per axis (every `n ≥ 1`, both conventions):
    `⌈(last − first)/step⌉ = n` for the extrema `Grid.coords` passes to `arange`. -/
theorem C01_coords_count (n : Nat) (hn : 1 ≤ n) (ac : Bool) : (coordsArange n ac).2.2 = n := by
  unfold coordsArange
  split
  · next h => subst h; rfl
  · next h =>
    have h2 : (2 : ℚ) ≤ n := by exact_mod_cast (by omega : 2 ≤ n)
    have hc : ∀ q : ℚ, q.ceil = ⌈q⌉ := fun q => by rw [Rat.ceil_eq_neg_floor_neg]; rfl
    cases ac <;> simp only [hc, Bool.false_eq_true, if_false, if_true]
    · rw [Int.ceil_eq_iff]
      have : (1 - (-1 + 1 / 2 * (2 / (n:ℚ)))) / (2 / (n:ℚ)) = n - 1/2 := by field_simp; ring
      rw [this]; push_cast; constructor <;> linarith
    · rw [Int.ceil_eq_iff]
      have h1 : (n:ℚ) - 1 ≠ 0 := by linarith
      have : (1 + 1 / 10 * (2 / ((n:ℚ) - 1)) - -1) / (2 / ((n:ℚ) - 1)) = n - 1 + 1/10 := by field_simp; ring
      rw [this]; push_cast; constructor <;> linarith
theorem C01_rounding_bound (dec : Nat) (x : ℚ) : |roundDecimals dec x - x| ≤ 1 / (2 * 10 ^ dec) := by
  unfold roundDecimals
  have hs : (0 : ℚ) < ((10 ^ dec : ℕ) : ℚ) := by positivity
  have hb := roundHalfEven_bound (x * ((10 ^ dec : ℕ) : ℚ))
  have : ((roundHalfEven (x * ((10 ^ dec : ℕ) : ℚ)) : ℤ) : ℚ) / ((10 ^ dec : ℕ) : ℚ) - x
      = (((roundHalfEven (x * ((10 ^ dec : ℕ) : ℚ)) : ℤ) : ℚ) - x * ((10 ^ dec : ℕ) : ℚ)) / ((10 ^ dec : ℕ) : ℚ) := by
    field_simp
  rw [this, abs_div, abs_of_pos hs, div_le_iff₀ hs]
  calc _ ≤ (1:ℚ) / 2 := hb
    _ = 1 / (2 * 10 ^ dec) * ((10 ^ dec : ℕ) : ℚ) := by push_cast; field_simp

theorem C01_coords_values (n : Nat) (hn : 2 ≤ n) (ac : Bool) (k : Nat) :
    (coordsArange n ac).1 + k * (coordsArange n ac).2.1
      = if ac then 2 / ((n : ℚ) - 1) * k - 1 else 2 / (n : ℚ) * k + (1 / (n : ℚ) - 1) := by
  have h2 : (2 : ℚ) ≤ n := by exact_mod_cast hn
  have h1 : (n:ℚ) - 1 ≠ 0 := by linarith
  have h0 : (n:ℚ) ≠ 0 := by linarith
  unfold coordsArange
  rw [if_neg (by omega)]
  cases ac <;> simp only [Bool.false_eq_true, if_false, if_true] <;> field_simp <;> ring

theorem C01_coords_range (n : Nat) (hn : 2 ≤ n) (ac : Bool) (k : Nat) (hk : k < n) :
    -1 ≤ (coordsArange n ac).1 + k * (coordsArange n ac).2.1 ∧
    (coordsArange n ac).1 + k * (coordsArange n ac).2.1 ≤ 1 := by
  have h2 : (2 : ℚ) ≤ n := by exact_mod_cast hn
  have hk' : (k : ℚ) + 1 ≤ n := by exact_mod_cast hk
  have hk0 : (0 : ℚ) ≤ k := by positivity
  rw [C01_coords_values n hn ac k]
  cases ac <;> simp only [Bool.false_eq_true, if_false, if_true]
  · have h0 : (0:ℚ) < n := by linarith
    constructor
    · have : 2 / (n:ℚ) * k + (1 / (n:ℚ) - 1) - (-1) = (2 * k + 1) / n := by field_simp; ring
      have : 0 ≤ (2 * (k:ℚ) + 1) / n := by positivity
      linarith
    · have : 1 - (2 / (n:ℚ) * k + (1 / (n:ℚ) - 1)) = (2 * (n - k) - 1) / n := by field_simp; ring
      have : 0 ≤ (2 * ((n:ℚ) - k) - 1) / n := by apply div_nonneg <;> linarith
      linarith
  · have h0 : (0:ℚ) < n - 1 := by linarith
    constructor
    · have : 0 ≤ 2 / ((n:ℚ) - 1) * k := by positivity
      linarith
    · have : 1 - (2 / ((n:ℚ) - 1) * k - 1) = 2 * ((n - 1) - k) / (n - 1) := by field_simp; ring
      have : 0 ≤ 2 * (((n:ℚ) - 1) - k) / (n - 1) := by apply div_nonneg <;> linarith
      linarith

/-- un-normalising the k-th lattice coordinate gives back `k`, for every `n ≥ 1` (the code
    special-cases `n = 1`) and both conventions. -/
theorem unnormalize_coordAt_all (n : Nat) (h1 : 1 ≤ n) (ac : Bool) (k : Int) (hk : 0 ≤ k ∧ k < (n : Int)) :
    unnormalize ac ((n : Nat) : K) (coordAt n ac ((k : Int) : K)) = ((k : Int) : K) := by
  by_cases h2 : 2 ≤ n
  · exact unnormalize_coordAt n h2 ac _
  · have hn : n = 1 := by omega
    subst hn
    have hk0 : k = 0 := by omega
    subst hk0
    cases ac <;> simp [unnormalize, coordAt]

/-- **sampling an image at its own lattice with the matching `align_corners` flag returns the image
    unchanged** (bilinear, either padding mode, any dimension, every size ≥ 1 per axis). -/
theorem C01_sample_identity (ac : Bool) (pad : Padding) (n : Fin d → Nat) (h1 : ∀ i, 1 ≤ n i)
    (img : (Fin d → Int) → K) (idx : Fin d → Int) (hb : InBox n idx) :
    gridSampleLin ac pad n img (latticePoint ac n idx) = img idx := by
  have hx : (fun i => unnormalize ac ((n i : Nat) : K) ((latticePoint ac n idx : Vec d K) i))
      = fun i => ((idx i : Int) : K) := by
    funext i; simp only [latticePoint]; exact unnormalize_coordAt_all (n i) (h1 i) ac (idx i) (hb i)
  have hcl : (fun i => clampCoord (n i) (unnormalize ac ((n i : Nat) : K) ((latticePoint ac n idx : Vec d K) i)))
      = fun i => ((idx i : Int) : K) := by
    funext i
    have e : unnormalize ac ((n i : Nat) : K) ((latticePoint ac n idx : Vec d K) i) = ((idx i : Int) : K) :=
      congrFun hx i
    rw [e]
    have h0 : (0 : K) ≤ ((idx i : Int) : K) := by exact_mod_cast (hb i).1
    have hlt : ((idx i : Int) : K) + 1 ≤ ((n i : Int) : K) := by exact_mod_cast Int.add_one_le_of_lt (hb i).2
    push_cast at hlt
    exact clampCoord_inside _ _ h0 (by linarith)
  cases pad <;> simp only [gridSampleLin, hx, hcl] <;> rw [interpLin_at_index] <;>
    simp only [extZero, Nat.cast_zero] <;>
    rw [if_pos (show ∀ i, 0 ≤ idx i ∧ idx i < (n i : Int) from hb)]

/-- the `Cube` obtained from a grid (`Grid.cube()`, `Cube.from_grid(g, align_corners)`) maps its cube
    coordinates to the same world points as the grid's CUBE resp. CUBE_CORNERS axes: the two classes
    describe one normalised coordinate system. -/
theorem C01_cube_of_grid (g : Grid d K) {n : Fin d → Nat} (hv : g.Valid) (hn : g.HasSize n)
    (h2 : ∀ i, 2 ≤ n i) (hpos : ∀ i, 0 < g.size i) (ac : Bool) (x : Vec d K) :
    (match (Cube.ofGrid g (some ac)).transform .cube .world none false with | .ok h => h.apply x | .errValue => x)
      = g.applyTransform (Axes.fromAlignCorners ac) .world false x :=
  cube_of_grid_to_world g hv hn h2 hpos ac x

/-! ### non-vacuity: a concrete rotated anisotropic grid meets every hypothesis used above -/

example : exampleGrid.Valid ∧ (∀ a, exampleGrid.CornersOK a) := ⟨exampleGrid_valid, exampleGrid_cornersOK⟩

end Deepali
