/-
  Props/C02.lean — property C02: the grid ↔ world convention agrees with ITK for every oriented
  image geometry. `Itk.*` (Deepali/Model/Itk.lean) is the independent specification; helper
  lemmas are in Deepali/Proofs/Itk.lean. Only property theorems and non-vacuity examples here.

  OBLIGATIONS: C02_index_to_world_is_itk C02_origin_and_direction_columns C02_world_to_index_is_itk
    C02_world_to_index_is_itk_inverse C02_header_roundtrip C02_header_roundtrip_grid
    C02_center_origin_consistent C02_nonorthogonal_counterexample
-/
import Deepali.Proofs.Itk
import Deepali.Props.C01
import Mathlib.Tactic.NormNum
import Mathlib.Tactic.FinCases

set_option linter.unusedSectionVars false

namespace Deepali
open Matrix
variable {K : Type} [Field K] [LinearOrder K] [IsStrictOrderedRing K] [FloorRing K] {d : Nat}

/-- a grid places continuous index `i` where ITK places it for an image with the grid's
    `(origin(), spacing, direction)`; for a grid built with `origin=O` (and for the grid of a
    SimpleITK header) that is `O + D·(S ⊙ i)` with the attributes as given. No hypotheses. -/
theorem C02_index_to_world_is_itk (g : Grid d K) (i : Vec d K) :
    g.indexToWorld i = Itk.idxToPhys g.origin g.spacing g.direction i ∧
    (∀ (n O S : Vec d K) (D : Mat d K) (ac : Bool),
      (Grid.fromOrigin n O S D ac).indexToWorld i = Itk.idxToPhys O S D i) ∧
    (∀ (h : Itk.Header d K) (ac : Bool),
      (Grid.fromSitk h ac).indexToWorld i = Itk.idxToPhys h.origin h.spacing (Itk.reshape h.direction) i) := by
  refine ⟨indexToWorld_is_itk g i, fun n O S D ac => ?_, fun h ac => ?_⟩
  · rw [indexToWorld_is_itk, origin_fromOrigin]; rfl
  · rw [indexToWorld_is_itk]; unfold Grid.fromSitk; rw [origin_init]; rfl

/-- origin is the position of sample 0, and one index step along axis `k` moves by
    `spacing k` times column `k` of the direction matrix. -/
theorem C02_origin_and_direction_columns (g : Grid d K) (k : Fin d) :
    g.indexToWorld 0 = g.origin ∧
    g.indexToWorld (Pi.single k 1) - g.indexToWorld 0 = fun r => g.spacing k * g.direction r k := by
  refine ⟨indexToWorld_zero g, ?_⟩
  rw [indexToWorld_zero, indexToWorld_eq, add_sub_cancel_right, mulVec_eq, Matrix.mulVec_single_one, affine_eq]
  funext r
  simp [Matrix.mul_diagonal, mul_comm]

/-- `world_to_index` is ITK's `TransformPhysicalPointToContinuousIndex`: under `DᵀD = 1` and
    `S ≠ 0`, `diag(1/S)·Dᵀ` (what the code computes, it never inverts a matrix) *is* the inverse —
    the returned index is mapped back to the point by the ITK specification, and it is the only
    such index. -/
theorem C02_world_to_index_is_itk (g : Grid d K) (hs : ∀ i, g.spacing i ≠ 0)
    (ho : (toM g.direction)ᵀ * toM g.direction = 1) (x : Vec d K) :
    Itk.idxToPhys g.origin g.spacing g.direction (g.worldToIndex x) = x ∧
    (∀ i, Itk.idxToPhys g.origin g.spacing g.direction i = x → i = g.worldToIndex x) ∧
    g.worldToIndex (g.indexToWorld x) = x ∧ g.indexToWorld (g.worldToIndex x) = x := by
  refine ⟨idxToPhys_worldToIndex g hs ho x, worldToIndex_unique g hs ho x, ?_, ?_⟩
  · rw [worldToIndex_indexToWorld_raw, inverse_affine_mulVec' g hs ho]
  · rw [indexToWorld_is_itk]; exact idxToPhys_worldToIndex g hs ho x

/-- … and it equals the specification's `(D·diag S)⁻¹ (x − O)` computed with a true matrix
    inverse (adjugate formula) in 2 and 3 dimensions. -/
theorem C02_world_to_index_is_itk_inverse :
    (∀ (g : Grid 2 K), (∀ i, g.spacing i ≠ 0) → (toM g.direction)ᵀ * toM g.direction = 1 →
      ∀ x, g.worldToIndex x = Itk.physToIdx2 g.origin g.spacing g.direction x) ∧
    (∀ (g : Grid 3 K), (∀ i, g.spacing i ≠ 0) → (toM g.direction)ᵀ * toM g.direction = 1 →
      ∀ x, g.worldToIndex x = Itk.physToIdx3 g.origin g.spacing g.direction x) := by
  constructor
  · intro g hs ho x
    have hd : (g.direction.mul (Mat.diag g.spacing)).det2 ≠ 0 := by
      rw [itkDet2_eq]; exact det_affine_ne_zero _ _ hs ho
    conv_rhs => rw [← idxToPhys_worldToIndex g hs ho x]
    rw [physToIdx2_idxToPhys _ _ _ hd]
  · intro g hs ho x
    have hd : (g.direction.mul (Mat.diag g.spacing)).det3 ≠ 0 := by
      rw [itkDet3_eq]; exact det_affine_ne_zero _ _ hs ho
    conv_rhs => rw [← idxToPhys_worldToIndex g hs ho x]
    rw [physToIdx3_idxToPhys _ _ _ hd]

/-- SimpleITK header → `Grid.from_sitk` → `Image.sitk()` header reproduces size, origin,
    spacing and direction (flat row-major) exactly. -/
theorem C02_header_roundtrip (h : Itk.Header d K) (ac : Bool) :
    (Grid.fromSitk h ac).toSitk.size = h.size ∧ (Grid.fromSitk h ac).toSitk.origin = h.origin ∧
    (Grid.fromSitk h ac).toSitk.spacing = h.spacing ∧ (Grid.fromSitk h ac).toSitk.direction = h.direction := by
  refine ⟨?_, ?_, rfl, ?_⟩
  · funext i
    show ((Grid.fromSitk h ac).sizeInt i).toNat = h.size i
    rw [sizeInt_natCast _ h.size (fromSitk_size h ac)]; simp
  · show (Grid.fromSitk h ac).origin = h.origin
    unfold Grid.fromSitk; rw [origin_init]
  · show Itk.flatten (Grid.fromSitk h ac).direction = h.direction
    exact flatten_reshape h.direction

/-- grid with integral size → `Image.sitk()` header → `Grid.from_sitk` gives the grid back
    (in particular the stored center is consistent with the exported origin). -/
theorem C02_header_roundtrip_grid (g : Grid d K) (n : Fin d → Nat) (hn : g.size = fun i => ((n i : Nat) : K)) :
    Grid.fromSitk g.toSitk g.alignCorners = g := by
  have hsz : ∀ i, (g.toSitk.size i : K) = g.size i := by
    intro i
    show (((g.sizeInt i).toNat : Nat) : K) = g.size i
    rw [sizeInt_natCast g n hn i, hn]; simp
  have hsize : (Grid.fromSitk g.toSitk g.alignCorners).size = g.size := by
    rw [fromSitk_size]; funext i; exact hsz i
  have hdir : (Grid.fromSitk g.toSitk g.alignCorners).direction = g.direction := reshape_flatten g.direction
  have hsp : (Grid.fromSitk g.toSitk g.alignCorners).spacing = g.spacing := rfl
  apply Grid.ext' hsize _ hsp hdir rfl
  -- center = origin + offset, and the offset only depends on size, spacing, direction
  have hoff : (Grid.fromSitk g.toSitk g.alignCorners).originOffset = g.originOffset := by
    unfold Grid.originOffset Grid.affine Grid.sizeTensor
    rw [hsize, hsp, hdir]
  have hc : (Grid.fromSitk g.toSitk g.alignCorners).center
      = g.origin.add (Grid.fromSitk g.toSitk g.alignCorners).originOffset := rfl
  rw [hc, hoff]
  funext i
  simp [Grid.origin, Vec.add, Vec.sub]

/-- both construction routes describe the same grid iff `center = origin + D·(S ⊙ (n−1)/2)`;
    `origin()` of a center-route grid is `center − D·(S ⊙ (n−1)/2)`. -/
theorem C02_center_origin_consistent (n O S c : Vec d K) (D : Mat d K) (ac : Bool) (hn : ∀ i, 0 < n i) :
    ((⟨n, c, S, D, ac⟩ : Grid d K) = Grid.fromOrigin n O S D ac ↔
      c = O + D.mulVec (fun i => S i * (roundSize n i - 1) / 2)) ∧
    (⟨n, c, S, D, ac⟩ : Grid d K).origin = c - D.mulVec (fun i => S i * (roundSize n i - 1) / 2) ∧
    (Grid.fromOrigin n O S D ac).center = O + D.mulVec (fun i => S i * (roundSize n i - 1) / 2) := by
  have hoff : ∀ c' : Vec d K, (⟨n, c', S, D, ac⟩ : Grid d K).originOffset
      = D.mulVec (fun i => S i * (roundSize n i - 1) / 2) := by
    intro c'
    rw [originOffset_eq _ hn]
    congr 1
  have hcen : (Grid.fromOrigin n O S D ac).center = O + D.mulVec (fun i => S i * (roundSize n i - 1) / 2) := by
    show O.add (⟨n, _, S, D, ac⟩ : Grid d K).originOffset = _
    rw [hoff]; rfl
  refine ⟨⟨fun h => ?_, fun h => ?_⟩, ?_, hcen⟩
  · rw [← hcen, ← h]
  · refine Grid.ext' (g := ⟨n, c, S, D, ac⟩) (g' := Grid.fromOrigin n O S D ac) rfl ?_ rfl rfl rfl
    rw [hcen]; exact h
  · unfold Grid.origin; rw [hoff]; rfl

/-- the shortcut `diag(1/S)·Dᵀ` is *not* the inverse for a non-orthogonal direction matrix, even
    one with determinant 1 (which passes the only check the code performs): a shear. The ITK
    specification's true inverse still round-trips there. Hence the orthonormality hypothesis. -/
theorem C02_nonorthogonal_counterexample :
    ∃ g : Grid 2 ℚ, Matrix.det (toM g.direction) = 1 ∧ (∀ i, g.spacing i ≠ 0) ∧
      (∃ i, g.worldToIndex (g.indexToWorld i) ≠ i) ∧
      (∀ i, Itk.physToIdx2 g.origin g.spacing g.direction (Itk.idxToPhys g.origin g.spacing g.direction i) = i) := by
  refine ⟨⟨![2, 2], ![0, 0], ![1, 1], ![![1, 1], ![0, 1]], false⟩, ?_, ?_, ⟨![0, 1], ?_⟩, ?_⟩
  · rw [Matrix.det_fin_two]; simp
  · intro i; fin_cases i <;> simp
  · rw [worldToIndex_indexToWorld_raw]
    intro h
    have h0 := congrFun h 0
    simp [Grid.inverseAffine, Grid.affine, Mat.mulVec, Mat.mul, Mat.diag, Mat.transpose, sumFin_two] at h0
  · intro i
    apply physToIdx2_idxToPhys
    simp [Mat.det2, Mat.mul, Mat.diag, sumFin_two]

/-! ### non-vacuity -/

/-- the rotated anisotropic `exampleGrid` of C01 meets the hypotheses of `C02_world_to_index_is_itk`. -/
example : (∀ i, exampleGrid.spacing i ≠ 0) ∧ (toM exampleGrid.direction)ᵀ * toM exampleGrid.direction = 1 := by
  refine ⟨?_, ?_⟩
  · intro i; fin_cases i <;> simp [exampleGrid]
  · ext i j
    rw [Matrix.mul_apply, Fin.sum_univ_two]
    simp only [Matrix.transpose_apply, toM_apply]
    fin_cases i <;> fin_cases j <;> simp [exampleGrid]

/-- `exampleGrid` has the integral size (5, 4): hypothesis of `C02_header_roundtrip_grid`. -/
example : exampleGrid.size = fun i => (((![5, 4] : Fin 2 → Nat) i : Nat) : ℚ) := by
  funext i; fin_cases i <;> simp [exampleGrid]

end Deepali
