/-
  Props/C03.lean — property C03: derived grids (resize, pyramid, crop, pad, pool, …) keep their
  place in the world. Only property theorems and non-vacuity examples live here; helper lemmas
  are in Deepali/Proofs/GridOps*.lean.

  "valid grid" below = positive float-valued size on every axis (`hpos`); where corner samples are
  aligned the rounded target size must not be 1 (the code divides by `n − 1`) — the quantifier of the
  property grants sizes ≥ 2.

  OBLIGATIONS: C03_resize_corners C03_resize_extent C03_resize_sizes_ge_two C03_down_up_identity
    C03_pyramid_sizes C03_pyramid_top_ge_two C03_pyramid_same_domain C03_resample_extent
    C03_index_ops_keep_samples C03_index_ops_offsets C03_pool_centroids
    C03_chain_resize C03_chain_index C03_chain_direction C03_assertions_exact
-/
import Deepali.Proofs.GridOpsChain
import Deepali.Proofs.GridOpsResample
import Deepali.Props.C01
import Mathlib.Tactic.NormNum
import Mathlib.Tactic.FinCases

set_option linter.unusedSectionVars false

namespace Deepali
open Matrix
variable {K : Type} [Field K] [LinearOrder K] [IsStrictOrderedRing K] [FloorRing K] {d : Nat}

/-- `align_corners=True` (argument or grid default): every operation that ends in `_resize`
    (resize, reshape, downsample, upsample, pyramid level — `op.target g = some (s, ac)`) keeps the
    origin (first corner sample), the last corner sample, the center and the direction; the new
    integral size is `⌈s⌉`. -/
theorem C03_resize_corners (g : Grid d K) (op : GridOp d K) (s : Vec d K) (ac : Option Bool)
    (ht : op.target g = some (s, ac)) (hac : effAc ac g = true) (hpos : ∀ i, 0 < g.size i)
    (hs : ∀ i, 0 < s i) (hn : ∀ i, roundSize s i ≠ 1) :
    (op.apply g).origin = g.origin ∧
    (op.apply g).indexToWorld (fun i => (op.apply g).sizeTensor i - 1)
      = g.indexToWorld (fun i => g.sizeTensor i - 1) ∧
    (op.apply g).center = g.center ∧ (op.apply g).direction = g.direction ∧
    (op.apply g).sizeTensor = roundSize s := by
  obtain ⟨f, p⟩ := resize_step (b := true) hpos ⟨s, ac, ht, hac, hs, by simpa using hn⟩
  refine ⟨f.origin_eq hpos p, f.lastSample_eq hpos p, f.center, f.direction, ?_⟩
  rw [apply_of_target ht, sizeTensor_eq, resizeCore_size]

/-- `align_corners=False`: the same operations keep the physical extent, center and direction. -/
theorem C03_resize_extent (g : Grid d K) (op : GridOp d K) (s : Vec d K) (ac : Option Bool)
    (ht : op.target g = some (s, ac)) (hac : effAc ac g = false) (hpos : ∀ i, 0 < g.size i)
    (hs : ∀ i, 0 < s i) :
    (op.apply g).extent = g.extent ∧ (op.apply g).center = g.center ∧
    (op.apply g).direction = g.direction ∧ (op.apply g).sizeTensor = roundSize s := by
  obtain ⟨f, _⟩ := resize_step (b := false) hpos
    ⟨s, ac, ht, hac, hs, fun i => by simpa using roundSize_ne_zero (hs i)⟩
  refine ⟨f.extent_eq, f.center, f.direction, ?_⟩
  rw [apply_of_target ht, sizeTensor_eq, resizeCore_size]

/-- the hypotheses of the two theorems above are what "target sizes ≥ 2" gives for `resize`. -/
theorem C03_resize_sizes_ge_two (g : Grid d K) (n : Fin d → Nat) (ac : Option Bool) (hpos : ∀ i, 0 < g.size i)
    (hn : ∀ i, 2 ≤ n i) :
    ResizeStepOK (effAc ac g) (GridOp.resize n ac) g ∧ (g.resize n ac).sizeTensor = fun i => ((n i : Nat) : K) := by
  refine ⟨⟨_, ac, rfl, rfl, fun i => ?_, fun i => ?_⟩, ?_⟩
  · have := hn i; positivity
  · rw [roundSize_natCast]
    have h2 := hn i
    split
    · rw [Ne, Nat.cast_eq_one]; omega
    · rw [Ne, Nat.cast_eq_zero]; omega
  · rw [sizeTensor_eq]; unfold Grid.resize; rw [resizeCore_size, roundSize_natCast]

/-- downsample followed by upsample returns the original grid whenever no axis was clamped
    (the internal size is `n / 2^l` in the field, not `⌈·⌉`). -/
theorem C03_down_up_identity (g : Grid d K) (l : Nat) (dims : List (Fin d)) (m : Nat) (ac : Option Bool)
    (hpos : ∀ i, 0 < g.size i)
    (hclamp : ∀ i, (m : K) ≤ g.size i / (2 ^ l) ^ dimCount dims i)
    (hn : effAc ac g = true →
      ∀ i, roundSize (fun i => g.size i / (2 ^ l) ^ dimCount dims i) i ≠ 1 ∧ g.sizeTensor i ≠ 1) :
    (g.downsample (l : Int) dims m ac).upsample (l : Int) dims ac = g :=
  downsample_upsample g l dims m ac hpos hclamp hn

/-- closed form of the pyramid size recurrence: with `m = 2^L − 1` (corners aligned) resp. `0`,
    `top = ⌊(n + m)/2^L + 1/2⌋`, level `l` has `2^(L−l)·(top − 1) + 1` samples unless `min_size` clamps. -/
theorem C03_pyramid_sizes (n : Int) (L : Nat) (ac : Bool) (minSize : Int) (l : Nat) (hl : l ≤ L)
    (h1 : 1 ≤ pyrTop n L ac) (hm : minSize ≤ pyrTop n L ac) :
    pyramidSize n L ac minSize true l = 2 ^ (L - l) * (pyrTop n L ac - 1) + 1 ∧
    pyrTop n L ac = (2 * (n + (if ac then 2 ^ L - 1 else 0)) + 2 ^ L) / 2 ^ (L + 1) := by
  refine ⟨pyramidSize_closed n L ac minSize l hl h1 hm, ?_⟩
  unfold pyrTop; rw [pow2sum_eq]

/-- `size / 2^levels ≥ 2` (the quantifier) makes every level at least 2 samples wide. -/
theorem C03_pyramid_top_ge_two (n : Int) (L : Nat) (ac : Bool) (minSize : Int) (inDims : Bool) (l : Nat)
    (hl : l ≤ L) (hn : 2 ^ (L + 1) ≤ n) (hm : minSize ≤ 2) :
    2 ≤ pyrTop n L ac ∧ 2 ≤ pyramidSize n L ac minSize inDims l :=
  ⟨pyrTop_ge_two n L ac hn, pyramidSize_ge_two n L ac minSize inDims l hl hn hm⟩

/-- all pyramid levels have the same cube extent, center and direction as the grid
    (and, corners aligned, the same origin): they cover the same domain. -/
theorem C03_pyramid_same_domain (g : Grid d K) (L : Nat) (dims : List (Fin d)) (m : Int) (l : Nat) (hl : l ≤ L)
    (hpos : ∀ i, 0 < g.size i) (hn : ∀ i, 2 ^ (L + 1) ≤ g.sizeInt i) (hm : m ≤ 2) :
    (g.pyramidLevel L dims m l).cubeExtent = g.cubeExtent ∧
    (g.pyramidLevel L dims m l).center = g.center ∧
    (g.pyramidLevel L dims m l).direction = g.direction ∧
    (g.alignCorners = true → (g.pyramidLevel L dims m l).origin = g.origin) := by
  have hsz := pyramidSizes_ge_two g L dims m l hl hn hm
  have f := pyramidLevel_frame g L dims m l hpos hsz
  refine ⟨f.cubeExtent_eq, f.center, f.direction, fun hac => ?_⟩
  rw [hac] at f
  refine f.origin_eq hpos (fun i => ?_)
  unfold Grid.pyramidLevel Grid.resize
  rw [resizeCore_size]
  have := hsz i
  have h2 : 2 ≤ (g.pyramidSizes L dims m l i).toNat := by omega
  positivity

/-- `resample` keeps center and direction; the new extent covers the old one and exceeds it by
    less than one new spacing; it is kept exactly when the old extent is a whole number of new
    spacings. -/
theorem C03_resample_extent (g : Grid d K) (sp : Vec d K) (m : Nat) (hpos : ∀ i, 0 < g.size i)
    (hspg : ∀ i, 0 < g.spacing i) (hsp : ∀ i, 0 < sp i) (hm : ∀ i, (m : K) ≤ g.extent i / sp i) :
    (g.resample sp m).center = g.center ∧ (g.resample sp m).direction = g.direction ∧
    (∀ i, g.extent i ≤ (g.resample sp m).extent i ∧
          (g.resample sp m).extent i < g.extent i + (g.resample sp m).spacing i) ∧
    (∀ i (k : Int), g.extent i / sp i = (k : K) → (g.resample sp m).extent i = g.extent i) :=
  ⟨(resample_direction g sp m).2.2, (resample_direction g sp m).1,
    fun i => resample_extent g sp m hpos hspg hsp hm i,
    fun i k hk => resample_extent_divisible g sp m hpos hspg hsp hm i k hk⟩

/-- crop, pad (either sign, per border), narrow, region of interest, center crop, center pad:
    spacing, direction and flag are kept and every sample `j` of the new grid is the old sample
    `j + first` — for every grid, no hypotheses. -/
theorem C03_index_ops_keep_samples (g : Grid d K) (op : GridOp d K) (hop : op.IsIndex) :
    (op.apply g).spacing = g.spacing ∧ (op.apply g).direction = g.direction ∧
    (op.apply g).alignCorners = g.alignCorners ∧
    ∀ j : Vec d K, (op.apply g).indexToWorld j = g.indexToWorld (j + op.offset g) := by
  have h := index_op_shifted op hop g
  exact ⟨h.spacing, h.direction, h.flag, h.indexToWorld⟩

/-- … where `first` is what each method documents. -/
theorem C03_index_ops_offsets (g : Grid d K) (num : List Int) (n start size : Fin d → Int) (dim : Nat) (s len : Int)
    (i : Fin d) :
    (GridOp.crop num).offset g i = ((num.getD (2 * i.val) 0 : Int) : K) ∧
    (GridOp.pad num).offset g i = -((num.getD (2 * i.val) 0 : Int) : K) ∧
    (GridOp.roi start size).offset g i = ((start i : Int) : K) ∧
    (g.roiNum start size).getD (2 * i.val) 0 = start i ∧
    (GridOp.narrow dim s len).offset g i = (((if i.val = dim then s else 0) : Int) : K) ∧
    (GridOp.centerCrop n).offset g i = (((g.sizeInt i - min (n i) (g.sizeInt i)) / 2 : Int) : K) ∧
    (GridOp.centerPad n).offset g i = ((-((max (n i) (g.sizeInt i) - g.sizeInt i) / 2) : Int) : K) := by
  refine ⟨rfl, rfl, rfl, roiNum_getD_even g start size i, rfl, ?_, ?_⟩
  · simp only [GridOp.offset]
    congr 3
    by_cases h : n i < g.sizeInt i
    · rw [if_pos h, min_eq_left h.le]
    · rw [if_neg h, min_eq_right (not_lt.mp h)]
  · simp only [GridOp.offset]
    congr 4
    by_cases h : g.sizeInt i < n i
    · rw [if_pos h, max_eq_left h.le]
    · rw [if_neg h, max_eq_right (not_lt.mp h)]

/-- pooling with kernel `k`: spacing is multiplied by `k`, direction kept, and output sample `j`
    sits at old index `k·j + (k−1)/2`, which is the mean of the pooled indices `k·j + r`, `r < k`,
    on every axis; the index→world map sends the mean of any finite family of indices to the mean
    of their world positions, so `j` is at the centroid of the samples it pools. -/
theorem C03_pool_centroids (g : Grid d K) (ks : Fin d → Nat) (c : Bool) :
    (g.pool ks c).spacing = (fun i => g.spacing i * (ks i : K)) ∧ (g.pool ks c).direction = g.direction ∧
    (∀ j : Vec d K,
      (g.pool ks c).indexToWorld j = g.indexToWorld (fun i => (ks i : K) * j i + ((ks i : K) - 1) / 2)) ∧
    (∀ (k : Nat) (_ : 0 < k) (j : K),
      (∑ r ∈ Finset.range k, ((k : K) * j + (r : K))) / (k : K) = (k : K) * j + ((k : K) - 1) / 2) ∧
    (∀ {ι : Type} (s : Finset ι) (_ : s.Nonempty) (x : ι → Vec d K),
      g.indexToWorld (((s.card : K)⁻¹) • ∑ k ∈ s, x k) = ((s.card : K)⁻¹) • ∑ k ∈ s, g.indexToWorld (x k)) :=
  ⟨pool_spacing g ks c, pool_direction g ks c, pool_indexToWorld g ks c,
    fun k hk j => pool_axis_mean k hk j, fun s hs x => indexToWorld_mean g s hs x⟩

/-- closure under chains of arbitrary length, resizing family in one convention `b`: the
    final grid has the center, direction, flag and `b`-cube extent of the first; with `b = true` also
    the same origin and last sample, with `b = false` the same extent. -/
theorem C03_chain_resize (b : Bool) (ops : List (GridOp d K)) (g : Grid d K) (hpos : ∀ i, 0 < g.size i)
    (h : ResizeChainOK b ops g) :
    SameFrame b g (GridOp.applyAll ops g) ∧
    (b = true → (GridOp.applyAll ops g).origin = g.origin ∧
      (GridOp.applyAll ops g).indexToWorld (fun i => (GridOp.applyAll ops g).sizeTensor i - 1)
        = g.indexToWorld (fun i => g.sizeTensor i - 1)) ∧
    (b = false → (GridOp.applyAll ops g).extent = g.extent) := by
  obtain ⟨f, p⟩ := resize_chain ops g hpos h
  refine ⟨f, fun hb => ?_, fun hb => ?_⟩
  · subst hb; exact ⟨f.origin_eq hpos p, f.lastSample_eq hpos p⟩
  · subst hb; exact f.extent_eq

/-- closure under chains of arbitrary length, index family: sample `j` of the final grid is the
    sample `j + Σ first` of the first grid. -/
theorem C03_chain_index (ops : List (GridOp d K)) (h : ∀ op ∈ ops, op.IsIndex) (g : Grid d K) :
    (GridOp.applyAll ops g).spacing = g.spacing ∧ (GridOp.applyAll ops g).direction = g.direction ∧
    ∀ j : Vec d K, (GridOp.applyAll ops g).indexToWorld j = g.indexToWorld (j + chainOffset ops g) := by
  have s := index_chain ops h g
  exact ⟨s.spacing, s.direction, s.indexToWorld⟩

/-- any chain of any of the 14 derivations keeps the orientation and the flag. -/
theorem C03_chain_direction (ops : List (GridOp d K)) (g : Grid d K) :
    (GridOp.applyAll ops g).direction = g.direction ∧ (GridOp.applyAll ops g).alignCorners = g.alignCorners :=
  applyAll_direction ops g

/-- the internal consistency conditions hold *exactly* for every valid input, so an error from
    them on a valid input is caused by rounding alone:
    (1) `_resize`, corners aligned: `grid.origin() = self.origin()`;
    (2) `_resize`, otherwise: `grid.extent() = self.extent()`;
    (3) `Grid(center=c, origin=o)`: with `c` derived from `o`, `origin()` returns `o`;
    (4) `Cube.grid(size)`: `grid.cube_extent() = cube.extent()`. -/
theorem C03_assertions_exact (g : Grid d K) (s : Vec d K) (ac : Option Bool) (hpos : ∀ i, 0 < g.size i)
    (hs : ∀ i, 0 < s i) :
    (effAc ac g = true → (∀ i, roundSize s i ≠ 1) → (g.resizeCore s ac).origin = g.origin) ∧
    (effAc ac g = false → (g.resizeCore s ac).extent = g.extent) ∧
    (∀ (n o sp : Vec d K) (D : Mat d K) (b : Bool), (Grid.fromOrigin n o sp D b).origin = o) ∧
    (∀ (e c : Vec d K) (D : Mat d K) (n : Fin d → Nat) (b : Bool), (∀ i, n i ≠ (if b then 1 else 0)) →
      (cubeGrid e c D n b).cubeExtent = e) := by
  refine ⟨fun hac hn => ?_, fun hac => ?_, origin_fromOrigin, cubeGrid_cubeExtent⟩
  · have f := resizeCore_frame g s ac hpos (by rw [hac]; simpa using hn)
    rw [hac] at f
    exact f.origin_eq hpos (fun i => by rw [resizeCore_size]; exact hs i)
  · have f := resizeCore_frame g s ac hpos (by rw [hac]; simpa using fun i => roundSize_ne_zero (hs i))
    rw [hac] at f
    exact f.extent_eq

/-! ### non-vacuity: concrete instances meet the hypotheses -/

theorem exampleGrid_pos : ∀ i, 0 < exampleGrid.size i := by
  intro i; fin_cases i <;> simp [exampleGrid]

/-- `exampleGrid` (5×4, rotated, anisotropic, align_corners) resized to 7×3: hypotheses of
    `C03_resize_corners` / `C03_chain_resize`. -/
example : ResizeChainOK true [GridOp.resize ![7, 3] none, GridOp.resize ![2, 9] (some true)] exampleGrid := by
  refine ⟨(C03_resize_sizes_ge_two exampleGrid ![7, 3] none exampleGrid_pos ?_).1, ?_, trivial⟩
  · intro i; fin_cases i <;> simp
  · have hp : ∀ i, 0 < (GridOp.apply (GridOp.resize ![7, 3] none) exampleGrid).size i := by
      intro i
      rw [apply_of_target (op := GridOp.resize ![7, 3] none) (g := exampleGrid) rfl, resizeCore_size]
      fin_cases i <;> simp
    refine (C03_resize_sizes_ge_two _ ![2, 9] (some true) hp ?_).1
    intro i; fin_cases i <;> simp

/-- an 8×12 grid downsampled twice (2×3 samples) and upsampled again: hypotheses of
    `C03_down_up_identity` with aligned corners. -/
example :
    let g : Grid 2 ℚ := ⟨![8, 12], ![1, -3], ![2, 1 / 2], ![![0, -1], ![1, 0]], true⟩
    (∀ i, 0 < g.size i) ∧ (∀ i, ((1 : Nat) : ℚ) ≤ g.size i / (2 ^ 2) ^ dimCount [] i) ∧
    (∀ i, roundSize (fun i => g.size i / (2 ^ 2) ^ dimCount [] i) i ≠ 1 ∧ g.sizeTensor i ≠ 1) := by
  intro g
  have hc : ∀ i : Fin 2, dimCount ([] : List (Fin 2)) i = 1 := by
    intro i; fin_cases i <;> decide
  refine ⟨?_, ?_, ?_⟩
  · intro i; fin_cases i <;> simp [g]
  · intro i; rw [hc]; fin_cases i <;> norm_num [g]
  · intro i
    have e1 : (fun i => g.size i / (2 ^ 2) ^ dimCount ([] : List (Fin 2)) i) = fun i => (((![2, 3] : Fin 2 → Nat) i : Nat) : ℚ) := by
      funext i; rw [hc]; fin_cases i <;> norm_num [g]
    have e2 : g.size = fun i => (((![8, 12] : Fin 2 → Nat) i : Nat) : ℚ) := by
      funext i; fin_cases i <;> simp [g]
    rw [e1, sizeTensor_eq, e2, roundSize_natCast, roundSize_natCast]
    fin_cases i <;> simp

/-- pyramid hypothesis `2^(L+1) ≤ n` for L = 2, n = 9, and the closed form at a concrete point:
    9 samples, corners aligned → levels 9, 5, 3. -/
example : (2 : Int) ^ (2 + 1) ≤ 9 ∧ pyramidSize 9 2 true 0 true 0 = 9 ∧ pyramidSize 9 2 true 0 true 1 = 5 ∧
    pyramidSize 9 2 true 0 true 2 = 3 := by decide

/-- an index chain: crop one sample at the lower x border, then narrow. -/
example : ∀ op ∈ [GridOp.crop (α := ℚ) (d := 2) [1, 0, 0, 2], GridOp.narrow 1 1 2], op.IsIndex := by
  intro op h
  simp only [List.mem_cons, List.not_mem_nil, or_false] at h
  rcases h with rfl | rfl <;> trivial

end Deepali
