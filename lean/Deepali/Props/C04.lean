/-
  Props/C04.lean — property C04: image operations move voxel data and sampling grid in lock-step.

  OBLIGATIONS: C04_resize_ramp C04_sample_ramp C04_sample_ramp_self C04_crop_offsets_agree C04_pad_offsets_agree
    C04_center_crop_offsets_agree C04_center_pad_offsets_agree C04_roi_offsets_agree
    C04_narrow_offsets_agree C04_conv_offsets_agree C04_shift_keeps_world
    C04_pyramid_resize_path_sound C04_pyramid_resize_path_value C04_pyramid_paths_agree
    C04_pyramid_finest_sound C04_pyramid_mixed_flags_refuted

  The grid half of the index-only operations (new grid = old spacing/direction, origin at old index
  `first`) and the resizing family are C03's theorems; here the data half is shown to use the same
  `first` and size, and sampling is shown to reproduce world-linear images.
  `C04_resize_ramp` covers `resize`/`reshape` (and with it un-blurred `downsample`/`upsample`/pyramid steps, which
  call the same `F.interpolate` + `Grid._resize` pair with integral target sizes).
  Partial: `resample` (sampling path, fractional grid size) and blurred down/upsampling are covered by the
  correspondence and the ramp oracle of harness/props/c04.py only.
  `ImageBatch.pyramid` chooses between the plain data resize and sampling at the new grid's points by comparing
  cube extents of the finest-level grid and of the image grid RE-FLAGGED with the requested `align_corners`:
  `C04_pyramid_resize_path_sound` / `_value` / `C04_pyramid_paths_agree` show that the shortcut is sound when both
  extents are taken in the same convention; `C04_pyramid_mixed_flags_refuted` shows that the pre-repair comparison
  (image grid under its own flag, before 8cc5ad1) was not.
-/
import Deepali.Model.ImageOps
import Deepali.Proofs.Ramp
import Deepali.Proofs.ResizeRamp
import Deepali.Proofs.Examples
import Deepali.Proofs.PyramidPath
import Mathlib.Tactic.Linarith
import Mathlib.Tactic.Ring

set_option linter.unusedSectionVars false

namespace Deepali
open Matrix
variable {K : Type} [Field K] [LinearOrder K] [IsStrictOrderedRing K] [FloorRing K] {d : Nat}

/-- un-clamped source index `F.interpolate` assigns to output sample `j` (per axis). -/
def resizeSrc (ac : Bool) (n m : Fin d → Nat) (j : Fin d → Nat) : Vec d K := fun i =>
  if ac then ((j i : Nat) : K) * (((n i : Nat) : K) - 1) / (((m i : Nat) : K) - 1)
  else (((j i : Nat) : K) + 1 / 2) * ((n i : Nat) : K) / ((m i : Nat) : K) - 1 / 2

/-- **resizing a world-linear image returns the same world-linear function on the resized grid**:
    `ImageBatch.resize` = `F.interpolate(data, size, align_corners)` + `grid.resize(size, align_corners)`.
    At every output sample whose source index lies in the sample hull `[0, n−1]^d` the interpolated value
    equals the ramp at the world position the resized grid assigns to that sample — for any oriented
    anisotropic grid, any sizes ≥ 2 and either `align_corners` (for `True` every output sample qualifies). -/
theorem C04_resize_ramp (g : Grid d K) (n m : Fin d → Nat) (ac : Bool) (hn : g.HasSize n)
    (hsz : g.size = fun i => ((n i : Nat) : K)) (hn2 : ∀ i, 2 ≤ n i) (hm2 : ∀ i, 2 ≤ m i) (hne : ∃ i, m i ≠ n i)
    (a : Vec d K) (b : K) (j : Fin d → Nat)
    (hin : ∀ i, 0 ≤ resizeSrc (K := K) ac n m j i ∧ resizeSrc (K := K) ac n m j i ≤ ((n i : Nat) : K) - 1) :
    interpolateLin ac n m (rampImage g a b) j
      = rampImage (g.resize m (some ac)) a b (fun i => ((j i : Nat) : Int)) := by
  have hsrc : (fun i => interpolateSrc (α := K) ac (n i) (m i) (j i)) = resizeSrc ac n m j := by
    funext i
    have hm : ¬ m i ≤ 1 := by have := hm2 i; omega
    have h0 := (hin i).1
    cases ac
    · simp only [interpolateSrc, resizeSrc, Bool.false_eq_true, if_false, Nat.cast_one, Nat.cast_ofNat, Nat.cast_zero] at h0 ⊢
      rw [if_neg (not_lt.mpr h0)]
    · simp only [interpolateSrc, resizeSrc, if_true, hm, if_false, Nat.cast_one]
  simp only [interpolateLin, hsrc]
  rw [interpLin_extBorder_inside n _ _ hin, interpLin_rampImage]
  simp only [rampImage]
  congr 1
  have := resize_world_identity g n m ac hn hsz hn2 hm2 hne (fun i => ((j i : Nat) : K))
  simp only [Int.cast_natCast]
  rw [this]; rfl

/-- **sampling a world-linear image on any other grid returns the same world-linear function**:
    at every target sample whose source position lies in the source field of view, for any pair of
    oriented anisotropic grids, either `align_corners` of either grid, zero padding. -/
theorem C04_sample_ramp {src tgt : Grid d K} {srcN tgtN : Fin d → Nat} (hs : src.Valid) (ht : tgt.Valid)
    (hsn : src.HasSize srcN) (htn : tgt.HasSize tgtN) (hs2 : ∀ i, 2 ≤ srcN i) (ht2 : ∀ i, 2 ≤ tgtN i)
    (a : Vec d K) (b : K) (j : Vec d K)
    (hin : ∀ i, 0 ≤ toGrid src .world (fromGrid tgt .world j) i ∧
                 toGrid src .world (fromGrid tgt .world j) i ≤ ((srcN i : Nat) : K) - 1) :
    sampleOnGrid src tgt srcN tgtN .zeros (rampImage src a b) j = ramp a b (fromGrid tgt .world j) := by
  have hw : src.CornersOK .world := fun hc => by cases hc
  have hc : (fun i => unnormalize src.alignCorners ((srcN i : Nat) : K) (sampleCoord src tgt tgtN j i))
      = toGrid src .world (fromGrid tgt .world j) := by
    funext i; exact sampleCoord_unnormalized hs ht hsn htn hs2 ht2 j i
  simp only [sampleOnGrid, gridSampleLin, hc]
  rw [interpLin_extZero_inside srcN _ _ hin, interpLin_rampImage, fromGrid_toGrid hs .world hw]

/-- in particular the returned image *is* the ramp image of the target grid at integer indices. -/
theorem C04_sample_ramp_self {src tgt : Grid d K} {srcN tgtN : Fin d → Nat} (hs : src.Valid) (ht : tgt.Valid)
    (hsn : src.HasSize srcN) (htn : tgt.HasSize tgtN) (hs2 : ∀ i, 2 ≤ srcN i) (ht2 : ∀ i, 2 ≤ tgtN i)
    (a : Vec d K) (b : K) (k : Fin d → Int)
    (hin : ∀ i, 0 ≤ toGrid src .world (fromGrid tgt .world (fun i => ((k i : Int) : K))) i ∧
                 toGrid src .world (fromGrid tgt .world (fun i => ((k i : Int) : K))) i ≤ ((srcN i : Nat) : K) - 1) :
    sampleOnGrid src tgt srcN tgtN .zeros (rampImage src a b) (fun i => ((k i : Int) : K)) = rampImage tgt a b k :=
  C04_sample_ramp hs ht hsn htn hs2 ht2 a b _ hin

/-! ### index-only operations: the data half and the grid half use the same offset and size -/

/-- crop with per-border margins of either sign (as long as at least one sample remains). -/
theorem C04_crop_offsets_agree (n lo hi : Int) (h : 1 ≤ n - lo - hi) : tensorCrop n lo hi = gridCrop n lo hi := by
  simp only [tensorCrop, gridCrop, fpadAxis, AxisOp.mk.injEq]; refine ⟨?_, ?_⟩ <;> first | trivial | omega

theorem C04_pad_offsets_agree (n lo hi : Int) (h : 1 ≤ n + lo + hi) : tensorPad n lo hi = gridPad n lo hi := by
  simp only [tensorPad, gridPad, fpadAxis, AxisOp.mk.injEq]; refine ⟨?_, ?_⟩ <;> first | trivial | omega

theorem C04_center_crop_offsets_agree (m n : Int) :
    tensorCenterCrop m n = gridCenterCrop m n := by
  simp only [tensorCenterCrop, gridCenterCrop, AxisOp.mk.injEq]; refine ⟨?_, ?_⟩ <;> first | trivial | omega

theorem C04_center_pad_offsets_agree (m n : Int) :
    tensorCenterPad m n = gridCenterPad m n := by
  simp only [tensorCenterPad, gridCenterPad, fpadAxis, AxisOp.mk.injEq]; refine ⟨?_, ?_⟩ <;> first | trivial | omega

theorem C04_roi_offsets_agree (m start size : Int) (h : 1 ≤ size) : tensorRoi m start size = gridRoi m start size := by
  simp only [tensorRoi, gridRoi, tensorCrop, gridCrop, fpadAxis, AxisOp.mk.injEq]; refine ⟨?_, ?_⟩ <;> first | trivial | omega

theorem C04_narrow_offsets_agree (m start length : Int) : tensorNarrow m start length = gridNarrow m start length := rfl

/-- filtering with a centred odd kernel of size `k` without padding: the grid crop applied by
    `ImageBatch.conv` is the data offset of the valid convolution. -/
theorem C04_conv_offsets_agree (m k : Int) (hk : k % 2 = 1) (hm : k ≤ m) :
    tensorConvValid m k = gridConvCrop m (m - (k - 1)) := by
  simp only [tensorConvValid, gridConvCrop, gridCrop, AxisOp.mk.injEq]; refine ⟨?_, ?_⟩ <;> first | trivial | omega

/-- a grid with the old spacing and direction whose origin is the old sample `first` places new
    sample `j` where the old sample `j + first` was (this is what every index-only grid operation
    constructs: `Grid(size, origin=index_to_world(first), spacing, direction)`). -/
theorem C04_shift_keeps_world (g : Grid d K) (first : Fin d → Int) (size' : Vec d K) (j : Vec d K) :
    fromGrid (Grid.fromOrigin size' (fromGrid g .world (fun i => ((first i : Int) : K)))
        g.spacing g.direction g.alignCorners) .world j
      = fromGrid g .world (fun i => j i + ((first i : Int) : K)) := by
  set g' := Grid.fromOrigin size' (fromGrid g .world (fun i => ((first i : Int) : K)))
    g.spacing g.direction g.alignCorners with hg'
  have horigin : g'.origin = fromGrid g .world (fun i => ((first i : Int) : K)) := by
    simp only [hg', Grid.fromOrigin, Grid.withOrigin, Grid.origin, vadd_eq, vsub_eq]
    funext i; simp only [Pi.add_apply, Pi.sub_apply]
    have : ∀ (o : Vec d K) (x : K), o i + x - x = o i := fun o x => by ring
    exact this _ _
  have haff : g'.affine = g.affine := by simp only [hg', Grid.fromOrigin, Grid.withOrigin, Grid.affine]
  simp only [fromGrid, horigin, haff, vadd_eq]
  have hsplit : (fun i => j i + ((first i : Int) : K)) = j + fun i => ((first i : Int) : K) := rfl
  rw [hsplit, mulVec_eq, mulVec_eq, mulVec_eq, Matrix.mulVec_add]; abel


/-! ### `ImageBatch.pyramid`: the resize shortcut for the finest level
  src: src/deepali/data/image.py `ImageBatch.pyramid` @708-741. `source_grids` are the image grids re-flagged with
  the requested `align_corners` (`grid.align_corners(align_corners)` @709-710), `grids` the finest-level grids
  derived from them by `Grid.resample` / `Grid.pyramid` (same centre, direction and flag). If
  `allclose(grids[0].cube_extent(), source_grids[0].cube_extent())` the data is resized with
  `U.grid_resize(self, size, align_corners=align_corners)`, otherwise the source is sampled at
  `grid_transform_points(grid.coords(align_corners), grid, axes, source_grid, axes)` with
  `axes = Axes.from_align_corners(align_corners)` — which is `sampleOnGrid src new` of Model/Sample.lean for a
  source flagged `ac`. -/

/-- **the resize shortcut of `ImageBatch.pyramid` is sound**: for two valid grids under the SAME flag `ac` with the
    same centre and direction and equal `cube_extent()`, the point map the sampling path would apply
    (normalised coordinates w.r.t. the new grid ↦ normalised coordinates w.r.t. the source grid, both in the
    convention `ac`) is the identity — for any oriented anisotropic grids and any sizes (at least two samples per
    axis when `ac = true`, since CUBE_CORNERS divides by `n − 1`). -/
theorem C04_pyramid_resize_path_sound {src new : Grid d K} {n n' : Fin d → Nat} (ac : Bool)
    (hs : src.Valid) (hn : new.Valid) (hsn : src.HasSize n) (hnn : new.HasSize n')
    (hs2 : ac = true → ∀ i, 2 ≤ n i) (hn2 : ac = true → ∀ i, 2 ≤ n' i)
    (hfs : src.alignCorners = ac) (hfn : new.alignCorners = ac)
    (hc : new.center = src.center) (hd : new.direction = src.direction)
    (he : new.cubeExtent = src.cubeExtent) (p : Vec d K) :
    new.applyTransformTo (Axes.fromAlignCorners ac) src (Axes.fromAlignCorners ac) false p = p :=
  pyramid_cube_map_id ac hs hn hsn hnn hs2 hn2 hfs hfn hc hd he p

/-- hence the sampling path looks the source up at the new grid's own normalised lattice
    `new.coords(align_corners=ac)` — any image, either padding mode, any (fractional) index `j`. -/
theorem C04_pyramid_resize_path_value {src new : Grid d K} {n n' : Fin d → Nat} (ac : Bool)
    (hs : src.Valid) (hn : new.Valid) (hsn : src.HasSize n) (hnn : new.HasSize n')
    (hs2 : ac = true → ∀ i, 2 ≤ n i) (hn2 : ac = true → ∀ i, 2 ≤ n' i)
    (hfs : src.alignCorners = ac) (hfn : new.alignCorners = ac)
    (hc : new.center = src.center) (hd : new.direction = src.direction)
    (he : new.cubeExtent = src.cubeExtent) (pad : Padding) (img : (Fin d → Int) → K) (j : Vec d K) :
    sampleOnGrid src new n n' pad img j = gridSampleLin ac pad n img (fun i => coordAt (n' i) ac (j i)) := by
  simp only [sampleOnGrid, sampleCoord, hfs]
  rw [C04_pyramid_resize_path_sound ac hs hn hsn hnn hs2 hn2 hfs hfn hc hd he]

/-- **both paths of `ImageBatch.pyramid` return the same data**: under the hypotheses of the decision,
    `F.interpolate(data, n', align_corners=ac)` (the resize path) equals sampling the source at the new grid's points
    (the other path), for ANY image, at every output sample whose source index lies in the sample hull `[0, n−1]^d`
    (for `ac = true` every output sample qualifies). -/
theorem C04_pyramid_paths_agree {src new : Grid d K} {n n' : Fin d → Nat} (ac : Bool)
    (hs : src.Valid) (hn : new.Valid) (hsn : src.HasSize n) (hnn : new.HasSize n')
    (hs2 : ac = true → ∀ i, 2 ≤ n i) (hn2 : ∀ i, 2 ≤ n' i)
    (hfs : src.alignCorners = ac) (hfn : new.alignCorners = ac)
    (hc : new.center = src.center) (hd : new.direction = src.direction)
    (he : new.cubeExtent = src.cubeExtent) (img : (Fin d → Int) → K) (j : Fin d → Nat)
    (hin : ∀ i, 0 ≤ resizeSrc (K := K) ac n n' j i ∧ resizeSrc (K := K) ac n n' j i ≤ ((n i : Nat) : K) - 1) :
    interpolateLin ac n n' img j = sampleOnGrid src new n n' .zeros img (fun i => ((j i : Nat) : K)) := by
  rw [C04_pyramid_resize_path_value ac hs hn hsn hnn hs2 (fun _ => hn2) hfs hfn hc hd he]
  have hsrc : (fun i => interpolateSrc (α := K) ac (n i) (n' i) (j i)) = resizeSrc ac n n' j := by
    funext i
    have hm : ¬ n' i ≤ 1 := by have := hn2 i; omega
    have h0 := (hin i).1
    cases ac
    · simp only [interpolateSrc, resizeSrc, Bool.false_eq_true, if_false, Nat.cast_one, Nat.cast_ofNat, Nat.cast_zero] at h0 ⊢
      rw [if_neg (not_lt.mpr h0)]
    · simp only [interpolateSrc, resizeSrc, if_true, hm, if_false, Nat.cast_one]
  have hx : (fun i => unnormalize ac ((n i : Nat) : K) (coordAt (n' i) ac ((j i : Nat) : K))) = resizeSrc ac n n' j := by
    funext i; rw [unnormalize_coordAt_resize ac (n i) (n' i) (hn2 i)]; rfl
  simp only [interpolateLin, gridSampleLin, hsrc, hx]
  rw [interpLin_extBorder_inside n _ _ hin, interpLin_extZero_inside n _ _ hin]

/-- **whichever branch `ImageBatch.pyramid` takes, the finest level is the image sampled at the new grid's points**
    (`pyramidFinest` of Model/Sample.lean; its branch structure and the operands of its test are tied to the current
    source by the generated obligations `gen_pyramid_decision` / `gen_pyramid_source_grids`): `img` is the image grid
    under ANY flag of its own, `ac` the requested convention, `new` the finest-level grid (flagged `ac`, same centre and
    direction). `extClose` is the comparison of the two cube extents read in exact arithmetic (a positive outcome means
    equality; `torch.allclose` in floating point). -/
theorem C04_pyramid_finest_sound {img new : Grid d K} {n n' : Fin d → Nat} (ac : Bool)
    (hi : img.Valid) (hn : new.Valid) (hin : img.HasSize n) (hnn : new.HasSize n')
    (hs2 : ac = true → ∀ i, 2 ≤ n i) (hn2 : ∀ i, 2 ≤ n' i) (hfn : new.alignCorners = ac)
    (hc : new.center = img.center) (hd : new.direction = img.direction)
    (extClose : Vec d K → Vec d K → Bool) (hclose : ∀ a b, extClose a b = true → a = b)
    (image : (Fin d → Int) → K) (j : Fin d → Nat)
    (hhull : ∀ i, 0 ≤ resizeSrc (K := K) ac n n' j i ∧ resizeSrc (K := K) ac n n' j i ≤ ((n i : Nat) : K) - 1) :
    pyramidFinest img new ac extClose (interpolateLin ac n n' image j)
        (sampleOnGrid (img.reflag ac) new n n' .zeros image (fun i => ((j i : Nat) : K)))
      = sampleOnGrid (img.reflag ac) new n n' .zeros image (fun i => ((j i : Nat) : K)) := by
  simp only [pyramidFinest, pyramidFinestData]
  split
  · next h =>
    exact C04_pyramid_paths_agree ac (reflag_valid hi ac) hn (reflag_hasSize hin ac) hnn hs2 hn2 rfl hfn hc hd
      (hclose _ _ h) image j hhull
  · rfl

/-- **the pre-repair decision was unsound** (before 8cc5ad1 the right-hand side of the comparison was
    `self._grid[0].cube_extent()`, the image grid under ITS OWN flag): a 10-sample axis of unit spacing flagged
    `align_corners=False` (cube extent 10·1) and the 6-sample axis of spacing 2 with the same centre flagged `True`
    (cube extent 5·2) have equal `cube_extent()`, yet the map the sampling path applies (`axes = CUBE_CORNERS`) sends
    the corner `p = 1` to `10/9`: resizing the data corner-to-corner is not the same operation. -/
theorem C04_pyramid_mixed_flags_refuted :
    ¬ (∀ (src new : Grid 1 ℚ), src.Valid → new.Valid → src.alignCorners = false → new.alignCorners = true →
        new.center = src.center → new.direction = src.direction → new.cubeExtent = src.cubeExtent →
        ∀ p : Vec 1 ℚ, new.applyTransformTo .cubeCorners src .cubeCorners false p = p) := by
  intro hall
  have hv : ∀ n s : ℚ, 0 < n → ((⌈n⌉ : Int) : ℚ) = n → s ≠ 0 → ∀ ac,
      (⟨fun _ => n, fun _ => 0, fun _ => s, fun _ _ => 1, ac⟩ : Grid 1 ℚ).Valid := by
    intro n s hn hc hs ac
    refine ⟨fun _ => hs, ?_, ?_⟩
    · ext i j; fin_cases i; fin_cases j; simp [Matrix.mul_apply]
    · intro i; simp only [Grid.sizeTensor, HasFloor.ceil, Nat.cast_zero, hn.ne', if_false, hc]; exact hn.ne'
  let src : Grid 1 ℚ := ⟨fun _ => 10, fun _ => 0, fun _ => 1, fun _ _ => 1, false⟩
  let new : Grid 1 ℚ := ⟨fun _ => 6, fun _ => 0, fun _ => 2, fun _ _ => 1, true⟩
  have hsv : src.Valid := hv 10 1 (by norm_num) (by norm_num) (by norm_num) _
  have hnv : new.Valid := hv 6 2 (by norm_num) (by norm_num) (by norm_num) _
  have hsT : src.sizeTensor = fun _ => 10 := by funext i; simp [src, Grid.sizeTensor, HasFloor.ceil]
  have hnT : new.sizeTensor = fun _ => 6 := by funext i; simp [new, Grid.sizeTensor, HasFloor.ceil]
  have hext : new.cubeExtent = src.cubeExtent := by
    funext i; simp only [Grid.cubeExtent, hsT, hnT, Vec.mul]; simp [src, new]; norm_num
  have := hall src new hsv hnv rfl rfl rfl rfl hext (fun _ => 1)
  rw [applyTransformTo_eq hnv hsv _ _ (fun _ i => by rw [hnT]; norm_num) (fun _ i => by rw [hsT]; norm_num)] at this
  have h0 := congrFun this 0
  simp only [fromGrid, toGrid, Grid.origin, Grid.originOffset, Grid.affine, Grid.inverseAffine, hsT, hnT] at h0
  simp [src, new, Mat.mul, Mat.diag, Mat.mulVec, Mat.transpose, Vec.add, Vec.sub, sumFin] at h0
  norm_num at h0

/-! ### non-vacuity -/
example : tensorCrop 10 2 (-3) = ⟨11, 2⟩ ∧ gridCrop 10 2 (-3) = ⟨11, 2⟩ := by decide
example : tensorCenterPad 5 8 = ⟨8, -1⟩ ∧ tensorCenterCrop 9 4 = ⟨4, 2⟩ := by decide

/-- the hypotheses of `C04_pyramid_resize_path_sound` hold for a rotated anisotropic pair: 9×5 samples of spacing
    (1, 3) resized to 5×3 samples with `align_corners=True` — spacing doubles, corner-to-corner extent (8, 12) stays. -/
example : pyrSrc.Valid ∧ pyrNew.Valid ∧ pyrSrc.HasSize ![9, 5] ∧ pyrNew.HasSize ![5, 3] ∧
    pyrSrc.alignCorners = true ∧ pyrNew.alignCorners = true ∧ pyrNew.center = pyrSrc.center ∧
    pyrNew.direction = pyrSrc.direction ∧ pyrNew.cubeExtent = pyrSrc.cubeExtent ∧ pyrNew.spacing ≠ pyrSrc.spacing :=
  ⟨pyrSrc_valid, pyrNew_valid, pyrSrc_hasSize, pyrNew_hasSize, rfl, rfl, rfl, rfl, pyr_cubeExtent,
    fun h => by have := congrFun h 0; simp [pyrSrc, pyrNew] at this⟩

/-- and its conclusion on that pair. -/
example (p : Vec 2 ℚ) : pyrNew.applyTransformTo .cubeCorners pyrSrc .cubeCorners false p = p :=
  C04_pyramid_resize_path_sound true pyrSrc_valid pyrNew_valid pyrSrc_hasSize pyrNew_hasSize
    (fun _ i => by fin_cases i <;> simp) (fun _ i => by fin_cases i <;> simp) rfl rfl rfl rfl pyr_cubeExtent p

end Deepali
