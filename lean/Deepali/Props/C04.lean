/-
  Props/C04.lean — property C04: image operations move voxel data and sampling grid in lock-step.

  OBLIGATIONS: C04_resize_ramp C04_sample_ramp C04_sample_ramp_self C04_crop_offsets_agree C04_pad_offsets_agree
    C04_center_crop_offsets_agree C04_center_pad_offsets_agree C04_roi_offsets_agree
    C04_narrow_offsets_agree C04_conv_offsets_agree C04_shift_keeps_world

  The grid half of the index-only operations (new grid = old spacing/direction, origin at old index
  `first`) and the resizing family are C03's theorems; here the data half is shown to use the same
  `first` and size, and sampling is shown to reproduce world-linear images.
  `C04_resize_ramp` covers `resize`/`reshape` (and with it un-blurred `downsample`/`upsample`/pyramid steps, which
  call the same `F.interpolate` + `Grid._resize` pair with integral target sizes).
  Partial: `resample` (sampling path, fractional grid size) and blurred down/upsampling are covered by the
  correspondence and the ramp oracle of harness/props/c04.py only.
-/
import Deepali.Model.ImageOps
import Deepali.Proofs.Ramp
import Deepali.Proofs.ResizeRamp
import Deepali.Proofs.Examples
import Mathlib.Tactic.Linarith
import Mathlib.Tactic.Ring

set_option linter.unusedSectionVars false

namespace Deepali
open Matrix
variable {K : Type} [Field K] [LinearOrder K] [IsStrictOrderedRing K] [FloorRing K] {d : Nat}

/-- un-clamped source index `F.interpolate` assigns to output sample `j` (per axis). -/
def resizeSrc (ac : Bool) (n m : Fin d → Nat) (j : Fin d → Nat) : Vec d K := fun i =>
  if ac then ((j i : Nat) : K) * (((n i : Nat) : K) - 1) / (((m i : Nat) : K) - 1)
  else (((j i : Nat) : K) + 1 / 2) * ((n i : Nat) : K) / ((m i : Nat) : K) - 1 / 2

/-- **resizing a world-linear image returns the same world-linear function on the resized grid**:
    `ImageBatch.resize` = `F.interpolate(data, size, align_corners)` + `grid.resize(size, align_corners)`.
    At every output sample whose source index lies in the sample hull `[0, n−1]^d` the interpolated value
    equals the ramp at the world position the resized grid assigns to that sample — for any oriented
    anisotropic grid, any sizes ≥ 2 and either `align_corners` (for `True` every output sample qualifies). -/
theorem C04_resize_ramp (g : Grid d K) (n m : Fin d → Nat) (ac : Bool) (hn : g.HasSize n)
    (hsz : g.size = fun i => ((n i : Nat) : K)) (hn2 : ∀ i, 2 ≤ n i) (hm2 : ∀ i, 2 ≤ m i) (hne : ∃ i, m i ≠ n i)
    (a : Vec d K) (b : K) (j : Fin d → Nat)
    (hin : ∀ i, 0 ≤ resizeSrc (K := K) ac n m j i ∧ resizeSrc (K := K) ac n m j i ≤ ((n i : Nat) : K) - 1) :
    interpolateLin ac n m (rampImage g a b) j
      = rampImage (g.resize m (some ac)) a b (fun i => ((j i : Nat) : Int)) := by
  have hsrc : (fun i => interpolateSrc (α := K) ac (n i) (m i) (j i)) = resizeSrc ac n m j := by
    funext i
    have hm : ¬ m i ≤ 1 := by have := hm2 i; omega
    have h0 := (hin i).1
    cases ac
    · simp only [interpolateSrc, resizeSrc, Bool.false_eq_true, if_false, Nat.cast_one, Nat.cast_ofNat, Nat.cast_zero] at h0 ⊢
      rw [if_neg (not_lt.mpr h0)]
    · simp only [interpolateSrc, resizeSrc, if_true, hm, if_false, Nat.cast_one]
  simp only [interpolateLin, hsrc]
  rw [interpLin_extBorder_inside n _ _ hin, interpLin_rampImage]
  simp only [rampImage]
  congr 1
  have := resize_world_identity g n m ac hn hsz hn2 hm2 hne (fun i => ((j i : Nat) : K))
  simp only [Int.cast_natCast]
  rw [this]; rfl

/-- **sampling a world-linear image on any other grid returns the same world-linear function**:
    at every target sample whose source position lies in the source field of view, for any pair of
    oriented anisotropic grids, either `align_corners` of either grid, zero padding. -/
theorem C04_sample_ramp {src tgt : Grid d K} {srcN tgtN : Fin d → Nat} (hs : src.Valid) (ht : tgt.Valid)
    (hsn : src.HasSize srcN) (htn : tgt.HasSize tgtN) (hs2 : ∀ i, 2 ≤ srcN i) (ht2 : ∀ i, 2 ≤ tgtN i)
    (a : Vec d K) (b : K) (j : Vec d K)
    (hin : ∀ i, 0 ≤ toGrid src .world (fromGrid tgt .world j) i ∧
                 toGrid src .world (fromGrid tgt .world j) i ≤ ((srcN i : Nat) : K) - 1) :
    sampleOnGrid src tgt srcN tgtN .zeros (rampImage src a b) j = ramp a b (fromGrid tgt .world j) := by
  have hw : src.CornersOK .world := fun hc => by cases hc
  have hc : (fun i => unnormalize src.alignCorners ((srcN i : Nat) : K) (sampleCoord src tgt tgtN j i))
      = toGrid src .world (fromGrid tgt .world j) := by
    funext i; exact sampleCoord_unnormalized hs ht hsn htn hs2 ht2 j i
  simp only [sampleOnGrid, gridSampleLin, hc]
  rw [interpLin_extZero_inside srcN _ _ hin, interpLin_rampImage, fromGrid_toGrid hs .world hw]

/-- in particular the returned image *is* the ramp image of the target grid at integer indices. -/
theorem C04_sample_ramp_self {src tgt : Grid d K} {srcN tgtN : Fin d → Nat} (hs : src.Valid) (ht : tgt.Valid)
    (hsn : src.HasSize srcN) (htn : tgt.HasSize tgtN) (hs2 : ∀ i, 2 ≤ srcN i) (ht2 : ∀ i, 2 ≤ tgtN i)
    (a : Vec d K) (b : K) (k : Fin d → Int)
    (hin : ∀ i, 0 ≤ toGrid src .world (fromGrid tgt .world (fun i => ((k i : Int) : K))) i ∧
                 toGrid src .world (fromGrid tgt .world (fun i => ((k i : Int) : K))) i ≤ ((srcN i : Nat) : K) - 1) :
    sampleOnGrid src tgt srcN tgtN .zeros (rampImage src a b) (fun i => ((k i : Int) : K)) = rampImage tgt a b k :=
  C04_sample_ramp hs ht hsn htn hs2 ht2 a b _ hin

/-! ### index-only operations: the data half and the grid half use the same offset and size -/

/-- crop with per-border margins of either sign (as long as at least one sample remains). -/
theorem C04_crop_offsets_agree (n lo hi : Int) (h : 1 ≤ n - lo - hi) : tensorCrop n lo hi = gridCrop n lo hi := by
  simp only [tensorCrop, gridCrop, fpadAxis, AxisOp.mk.injEq]; refine ⟨?_, ?_⟩ <;> first | trivial | omega

theorem C04_pad_offsets_agree (n lo hi : Int) (h : 1 ≤ n + lo + hi) : tensorPad n lo hi = gridPad n lo hi := by
  simp only [tensorPad, gridPad, fpadAxis, AxisOp.mk.injEq]; refine ⟨?_, ?_⟩ <;> first | trivial | omega

theorem C04_center_crop_offsets_agree (m n : Int) :
    tensorCenterCrop m n = gridCenterCrop m n := by
  simp only [tensorCenterCrop, gridCenterCrop, AxisOp.mk.injEq]; refine ⟨?_, ?_⟩ <;> first | trivial | omega

theorem C04_center_pad_offsets_agree (m n : Int) :
    tensorCenterPad m n = gridCenterPad m n := by
  simp only [tensorCenterPad, gridCenterPad, fpadAxis, AxisOp.mk.injEq]; refine ⟨?_, ?_⟩ <;> first | trivial | omega

theorem C04_roi_offsets_agree (m start size : Int) (h : 1 ≤ size) : tensorRoi m start size = gridRoi m start size := by
  simp only [tensorRoi, gridRoi, tensorCrop, gridCrop, fpadAxis, AxisOp.mk.injEq]; refine ⟨?_, ?_⟩ <;> first | trivial | omega

theorem C04_narrow_offsets_agree (m start length : Int) : tensorNarrow m start length = gridNarrow m start length := rfl

/-- filtering with a centred odd kernel of size `k` without padding: the grid crop applied by
    `ImageBatch.conv` is the data offset of the valid convolution. -/
theorem C04_conv_offsets_agree (m k : Int) (hk : k % 2 = 1) (hm : k ≤ m) :
    tensorConvValid m k = gridConvCrop m (m - (k - 1)) := by
  simp only [tensorConvValid, gridConvCrop, gridCrop, AxisOp.mk.injEq]; refine ⟨?_, ?_⟩ <;> first | trivial | omega

/-- a grid with the old spacing and direction whose origin is the old sample `first` places new
    sample `j` where the old sample `j + first` was (this is what every index-only grid operation
    constructs: `Grid(size, origin=index_to_world(first), spacing, direction)`). -/
theorem C04_shift_keeps_world (g : Grid d K) (first : Fin d → Int) (size' : Vec d K) (j : Vec d K) :
    fromGrid (Grid.fromOrigin size' (fromGrid g .world (fun i => ((first i : Int) : K)))
        g.spacing g.direction g.alignCorners) .world j
      = fromGrid g .world (fun i => j i + ((first i : Int) : K)) := by
  set g' := Grid.fromOrigin size' (fromGrid g .world (fun i => ((first i : Int) : K)))
    g.spacing g.direction g.alignCorners with hg'
  have horigin : g'.origin = fromGrid g .world (fun i => ((first i : Int) : K)) := by
    simp only [hg', Grid.fromOrigin, Grid.withOrigin, Grid.origin, vadd_eq, vsub_eq]
    funext i; simp only [Pi.add_apply, Pi.sub_apply]
    have : ∀ (o : Vec d K) (x : K), o i + x - x = o i := fun o x => by ring
    exact this _ _
  have haff : g'.affine = g.affine := by simp only [hg', Grid.fromOrigin, Grid.withOrigin, Grid.affine]
  simp only [fromGrid, horigin, haff, vadd_eq]
  have hsplit : (fun i => j i + ((first i : Int) : K)) = j + fun i => ((first i : Int) : K) := rfl
  rw [hsplit, mulVec_eq, mulVec_eq, mulVec_eq, Matrix.mulVec_add]; abel

/-! ### non-vacuity -/
example : tensorCrop 10 2 (-3) = ⟨11, 2⟩ ∧ gridCrop 10 2 (-3) = ⟨11, 2⟩ := by decide
example : tensorCenterPad 5 8 = ⟨8, -1⟩ ∧ tensorCenterCrop 9 4 = ⟨4, 2⟩ := by decide

end Deepali
