/-
  Props/C05.lean — property C05: resampling onto any oriented grid matches an independent
  reference resampler (ITK with the identity transform).

  OBLIGATIONS: C05_pipeline_coord_is_itk C05_pipeline_is_itk C05_linear_inside_is_plain_interp
    C05_self_identity C05_coords_equals_grid C05_constant_padding C05_itk_maps_are_inverse
    C05_module_points_are_index_to_axes C05_module_coord_is_itk C05_module_is_itk
    C05_module_axes_independent C05_module_default_axes_is_itk C05_module_same_grid_branch
    C05_module_equals_batch_sample

  Partial (by design, DESIGN.md §5 C05): agreement outside the source field of view is not part
  of the property; nearest-neighbour ties are excluded; the semantics of `F.grid_sample` itself
  (Model/TorchPrim.lean) is trusted and validated against torch by the conformance stream.
-/
import Deepali.Proofs.SamplePipe
import Deepali.Proofs.SampleModule
import Deepali.Proofs.Examples
import Mathlib.Tactic.FinCases

set_option linter.unusedSectionVars false

namespace Deepali
open Matrix
variable {K : Type} [Field K] [LinearOrder K] [IsStrictOrderedRing K] [FloorRing K] {d : Nat}

/-- For every target sample `j`, the continuous source index deepali hands to the interpolator
    equals ITK's `physToIdx_src (idxToPhys_tgt j)` — for any pair of oriented anisotropic grids and
    either `align_corners` setting of either grid. -/
theorem C05_pipeline_coord_is_itk {src tgt : Grid d K} {srcN tgtN : Fin d → Nat} (hs : src.Valid)
    (ht : tgt.Valid) (hsn : src.HasSize srcN) (htn : tgt.HasSize tgtN) (hs2 : ∀ i, 2 ≤ srcN i)
    (ht2 : ∀ i, 2 ≤ tgtN i) (j : Vec d K) (i : Fin d) :
    unnormalize src.alignCorners ((srcN i : Nat) : K) (sampleCoord src tgt tgtN j i)
      = Itk.physToIdx src.origin src.spacing src.direction
          (Itk.idxToPhys tgt.origin tgt.spacing tgt.direction j) i := by
  rw [sampleCoord_unnormalized hs ht hsn htn hs2 ht2, toGrid_world_eq_itk, fromGrid_world_eq_itk]

/-- Hence the sampled *value* (linear interpolation, zero padding) is the value of the ITK
    specification, at every target sample, for all image contents. -/
theorem C05_pipeline_is_itk {src tgt : Grid d K} {srcN tgtN : Fin d → Nat} (hs : src.Valid)
    (ht : tgt.Valid) (hsn : src.HasSize srcN) (htn : tgt.HasSize tgtN) (hs2 : ∀ i, 2 ≤ srcN i)
    (ht2 : ∀ i, 2 ≤ tgtN i) (img : (Fin d → Int) → K) (j : Vec d K) :
    sampleOnGrid src tgt srcN tgtN .zeros img j
      = Itk.resampleLin src.origin src.spacing src.direction tgt.origin tgt.spacing tgt.direction srcN img j := by
  simp only [sampleOnGrid, gridSampleLin, Itk.resampleLin]
  congr 1; funext i
  exact C05_pipeline_coord_is_itk hs ht hsn htn hs2 ht2 j i

/-- Inside the source field of view (continuous index in `[0, n−1]` on every axis) padding plays
    no role: the result is plain multilinear interpolation of the source samples. -/
theorem C05_linear_inside_is_plain_interp {src tgt : Grid d K} {srcN tgtN : Fin d → Nat} (hs : src.Valid)
    (ht : tgt.Valid) (hsn : src.HasSize srcN) (htn : tgt.HasSize tgtN) (hs2 : ∀ i, 2 ≤ srcN i)
    (ht2 : ∀ i, 2 ≤ tgtN i) (img : (Fin d → Int) → K) (j : Vec d K)
    (hin : ∀ i, 0 ≤ toGrid src .world (fromGrid tgt .world j) i ∧
                 toGrid src .world (fromGrid tgt .world j) i ≤ ((srcN i : Nat) : K) - 1) :
    sampleOnGrid src tgt srcN tgtN .zeros img j
      = interpLin d img (toGrid src .world (fromGrid tgt .world j)) := by
  simp only [sampleOnGrid, gridSampleLin]
  have hc : (fun i => unnormalize src.alignCorners ((srcN i : Nat) : K) (sampleCoord src tgt tgtN j i))
      = toGrid src .world (fromGrid tgt .world j) := by
    funext i; exact sampleCoord_unnormalized hs ht hsn htn hs2 ht2 j i
  rw [hc]
  exact interpLin_extZero_inside srcN img _ hin

/-- Sampling an image on (a grid equal to) its own grid returns it unchanged: at every integer
    index inside the image the pipeline yields exactly the stored sample. -/
theorem C05_self_identity {g : Grid d K} {n : Fin d → Nat} (hg : g.Valid) (hn : g.HasSize n)
    (h2 : ∀ i, 2 ≤ n i) (img : (Fin d → Int) → K) (k : Fin d → Int)
    (hk : ∀ i, 0 ≤ k i ∧ k i < (n i : Int)) :
    sampleOnGrid g g n n .zeros img (fun i => ((k i : Int) : K)) = img k := by
  simp only [sampleOnGrid, gridSampleLin]
  have hw : g.CornersOK .world := fun hc => by cases hc
  have hc : (fun i => unnormalize g.alignCorners ((n i : Nat) : K) (sampleCoord g g n (fun i => ((k i : Int) : K)) i))
      = fun i => ((k i : Int) : K) := by
    funext i
    rw [sampleCoord_unnormalized hg hg hn hn h2 h2, toGrid_fromGrid hg .world hw]
  rw [hc, interpLin_at_index]
  simp only [extZero, Nat.cast_zero]
  rw [if_pos hk]

/-- Sampling at explicit normalised coordinates agrees with sampling on the grid those
    coordinates came from (both hand the same points to the same interpolator). -/
theorem C05_coords_equals_grid (src tgt : Grid d K) (srcN tgtN : Fin d → Nat) (pad : Padding)
    (img : (Fin d → Int) → K) (j : Vec d K) :
    gridSampleLin src.alignCorners pad srcN img (sampleCoord src tgt tgtN j)
      = sampleOnGrid src tgt srcN tgtN pad img j := rfl

/-- Constant padding as coded (`subtract c`, sample with zero padding, `add c`) equals sampling
    the image extended by the constant `c` outside its domain. -/
theorem C05_constant_padding (size : Fin d → Nat) (img : (Fin d → Int) → K) (c : K) (x : Fin d → K) :
    interpLin d (extZero size (fun idx => img idx - c)) x + c
      = interpLin d (fun idx => if ∀ i, 0 ≤ idx i ∧ idx i < (size i : Int) then img idx else c) x := by
  rw [← interpLin_add_const]
  congr 1; funext idx
  simp only [extZero, Nat.cast_zero]
  split <;> ring

/-- the ITK specification's two maps are mutually inverse for orthonormal directions. -/
theorem C05_itk_maps_are_inverse {g : Grid d K} (hg : g.Valid) (j : Vec d K) :
    Itk.physToIdx g.origin g.spacing g.direction (Itk.idxToPhys g.origin g.spacing g.direction j) = j := by
  have hw : g.CornersOK .world := fun hc => by cases hc
  rw [← toGrid_world_eq_itk, ← fromGrid_world_eq_itk, toGrid_fromGrid hg .world hw]

/-! ### module entry points `AlignImage` / `TransformImage` (identity transform), every `axes` -/

/-- `Grid.points(axes)` at index `j` is deepali's own GRID → `axes` map of `j` — in particular the
    ITK physical point for WORLD — for every `axes` and either `align_corners` flag of the grid. -/
theorem C05_module_points_are_index_to_axes {g : Grid d K} {n : Fin d → Nat} (hg : g.Valid)
    (hn : g.HasSize n) (h2 : ∀ i, 2 ≤ n i) (j : Vec d K) :
    (∀ axes, g.pointAt n axes j = fromGrid g axes j) ∧
    g.pointAt n .world j = Itk.idxToPhys g.origin g.spacing g.direction j ∧
    g.pointAt n .grid j = j := by
  refine ⟨fun axes => pointAt_eq_fromGrid hg hn h2 axes j, ?_, ?_⟩
  · rw [pointAt_eq_fromGrid hg hn h2, fromGrid_world_eq_itk]
  · rw [pointAt_eq_fromGrid hg hn h2]; rfl

/-- For every choice of `axes`, the continuous source index the modules hand to the interpolator
    (un-normalised with the TARGET grid's `align_corners` flag, as `SampleImage.align_corners()`
    dictates) equals ITK's `physToIdx_src (idxToPhys_tgt j)` — for any pair of oriented anisotropic
    grids and either `align_corners` setting of either grid. -/
theorem C05_module_coord_is_itk {src tgt : Grid d K} {srcN tgtN : Fin d → Nat} (hs : src.Valid)
    (ht : tgt.Valid) (hsn : src.HasSize srcN) (htn : tgt.HasSize tgtN) (hs2 : ∀ i, 2 ≤ srcN i)
    (ht2 : ∀ i, 2 ≤ tgtN i) (axes : Axes) (j : Vec d K) (i : Fin d) :
    unnormalize tgt.alignCorners ((srcN i : Nat) : K) (moduleSampleCoord src tgt tgtN axes j i)
      = Itk.physToIdx src.origin src.spacing src.direction
          (Itk.idxToPhys tgt.origin tgt.spacing tgt.direction j) i := by
  rw [moduleSampleCoord_unnormalized hs ht hsn htn hs2 ht2, toGrid_world_eq_itk, fromGrid_world_eq_itk]

/-- Hence the value `AlignImage` / `TransformImage` return (linear interpolation, zero padding) is
    the value of the ITK specification, at every target sample, for all image contents and every
    choice of `axes`. -/
theorem C05_module_is_itk {src tgt : Grid d K} {srcN tgtN : Fin d → Nat} (hs : src.Valid)
    (ht : tgt.Valid) (hsn : src.HasSize srcN) (htn : tgt.HasSize tgtN) (hs2 : ∀ i, 2 ≤ srcN i)
    (ht2 : ∀ i, 2 ≤ tgtN i) (axes : Axes) (img : (Fin d → Int) → K) (j : Vec d K) :
    moduleSample src tgt srcN tgtN axes .zeros img j
      = Itk.resampleLin src.origin src.spacing src.direction tgt.origin tgt.spacing tgt.direction srcN img j := by
  simp only [moduleSample, gridSampleLin, Itk.resampleLin]
  congr 1; funext i
  exact C05_module_coord_is_itk hs ht hsn htn hs2 ht2 axes j i

/-- The `axes` argument is immaterial: any two choices give the same image, under zero and under
    border padding. -/
theorem C05_module_axes_independent {src tgt : Grid d K} {srcN tgtN : Fin d → Nat} (hs : src.Valid)
    (ht : tgt.Valid) (hsn : src.HasSize srcN) (htn : tgt.HasSize tgtN) (hs2 : ∀ i, 2 ≤ srcN i)
    (ht2 : ∀ i, 2 ≤ tgtN i) (a b : Axes) (pad : Padding) (img : (Fin d → Int) → K) (j : Vec d K) :
    moduleSample src tgt srcN tgtN a pad img j = moduleSample src tgt srcN tgtN b pad img j := by
  have hc : ∀ (c : Axes) (i : Fin d), unnormalize tgt.alignCorners ((srcN i : Nat) : K)
      (moduleSampleCoord src tgt tgtN c j i) = toGrid src .world (fromGrid tgt .world j) i :=
    fun c i => moduleSampleCoord_unnormalized hs ht hsn htn hs2 ht2 c j i
  cases pad <;> simp only [moduleSample, gridSampleLin, hc]

/-- `axes=None` (the default: `Axes.from_grid(target)`) is one of these choices. -/
theorem C05_module_default_axes_is_itk {src tgt : Grid d K} {srcN tgtN : Fin d → Nat} (hs : src.Valid)
    (ht : tgt.Valid) (hsn : src.HasSize srcN) (htn : tgt.HasSize tgtN) (hs2 : ∀ i, 2 ≤ srcN i)
    (ht2 : ∀ i, 2 ≤ tgtN i) (axes : Option Axes) (img : (Fin d → Int) → K) (j : Vec d K) :
    moduleSample src tgt srcN tgtN (moduleAxes tgt axes) .zeros img j
      = Itk.resampleLin src.origin src.spacing src.direction tgt.origin tgt.spacing tgt.direction srcN img j :=
  C05_module_is_itk hs ht hsn htn hs2 ht2 _ img j

/-- When the source is (equal to) the target, `Grid.transform` takes its same-grid branch table;
    the coordinates are those of the two-grid branch, so the statements above cover it. -/
theorem C05_module_same_grid_branch {tgt : Grid d K} {tgtN : Fin d → Nat} (ht : tgt.Valid)
    (htn : tgt.HasSize tgtN) (ht2 : ∀ i, 2 ≤ tgtN i) (axes : Axes) (j : Vec d K) :
    moduleSampleCoordSame tgt tgtN axes j = moduleSampleCoord tgt tgt tgtN axes j :=
  moduleSampleCoordSame_eq ht htn ht2 axes j

/-- The module path (target's flag) and `ImageBatch.sample` (source's flag) return the same value
    although they normalise with different conventions. -/
theorem C05_module_equals_batch_sample {src tgt : Grid d K} {srcN tgtN : Fin d → Nat} (hs : src.Valid)
    (ht : tgt.Valid) (hsn : src.HasSize srcN) (htn : tgt.HasSize tgtN) (hs2 : ∀ i, 2 ≤ srcN i)
    (ht2 : ∀ i, 2 ≤ tgtN i) (axes : Axes) (pad : Padding) (img : (Fin d → Int) → K) (j : Vec d K) :
    moduleSample src tgt srcN tgtN axes pad img j = sampleOnGrid src tgt srcN tgtN pad img j := by
  have hc : ∀ i : Fin d, unnormalize tgt.alignCorners ((srcN i : Nat) : K)
      (moduleSampleCoord src tgt tgtN axes j i) = toGrid src .world (fromGrid tgt .world j) i :=
    fun i => moduleSampleCoord_unnormalized hs ht hsn htn hs2 ht2 axes j i
  have hc' : ∀ i : Fin d, unnormalize src.alignCorners ((srcN i : Nat) : K) (sampleCoord src tgt tgtN j i)
      = toGrid src .world (fromGrid tgt .world j) i :=
    fun i => sampleCoord_unnormalized hs ht hsn htn hs2 ht2 j i
  cases pad <;> simp only [moduleSample, sampleOnGrid, gridSampleLin, hc, hc']

/-! ### non-vacuity: two concrete oriented anisotropic grids with different conventions -/

example : exampleGrid.Valid ∧ exampleGrid2.Valid ∧ exampleGrid.HasSize ![5, 4] ∧ exampleGrid2.HasSize ![3, 6] ∧
    (∀ i, 2 ≤ (![5, 4] : Fin 2 → Nat) i) ∧ (∀ i, 2 ≤ (![3, 6] : Fin 2 → Nat) i) :=
  ⟨exampleGrid_valid, exampleGrid2_valid, exampleGrid_hasSize, exampleGrid2_hasSize,
    by intro i; fin_cases i <;> simp, by intro i; fin_cases i <;> simp⟩

/-- the module theorems on the concrete rotated anisotropic pair (source 5×4, `align_corners=True`;
    target 3×6, `align_corners=False`): for every `axes`, target sample (1, 2) is looked up at the
    source index (9/2, 15/2), which is what the ITK maps give. -/
example : ∀ axes : Axes, ∀ i,
    unnormalize exampleGrid2.alignCorners (((![5, 4] : Fin 2 → Nat) i : Nat) : ℚ)
      (moduleSampleCoord exampleGrid exampleGrid2 ![3, 6] axes ![1, 2] i) = (![9 / 2, 15 / 2] : Fin 2 → ℚ) i := by
  intro axes i
  rw [C05_module_coord_is_itk exampleGrid_valid exampleGrid2_valid exampleGrid_hasSize
    exampleGrid2_hasSize (by intro i; fin_cases i <;> simp) (by intro i; fin_cases i <;> simp) axes _ i]
  simp only [Itk.physToIdx, Itk.idxToPhys, Grid.origin, Grid.originOffset, exampleGrid_size, exampleGrid2_size,
    Grid.affine]
  fin_cases i <;> simp [exampleGrid, exampleGrid2, Vec.sub, Vec.add, Vec.mul, Mat.mulVec, Mat.mul, Mat.diag,
    Mat.transpose, sumFin_eq, Fin.sum_univ_two] <;> norm_num

end Deepali
