/-
  Props/C05.lean — property C05: resampling onto any oriented grid matches an independent
  reference resampler (ITK with the identity transform).

  OBLIGATIONS: C05_pipeline_coord_is_itk C05_pipeline_is_itk C05_linear_inside_is_plain_interp
    C05_self_identity C05_coords_equals_grid C05_constant_padding C05_itk_maps_are_inverse

  Partial (by design, DESIGN.md §5 C05): agreement outside the source field of view is not part
  of the property; nearest-neighbour ties are excluded; the semantics of `F.grid_sample` itself
  (Model/TorchPrim.lean) is trusted and validated against torch by the conformance stream.
-/
import Deepali.Proofs.SamplePipe
import Deepali.Proofs.Examples
import Mathlib.Tactic.FinCases

set_option linter.unusedSectionVars false

namespace Deepali
open Matrix
variable {K : Type} [Field K] [LinearOrder K] [IsStrictOrderedRing K] [FloorRing K] {d : Nat}

/-- For every target sample `j`, the continuous source index deepali hands to the interpolator
    equals ITK's `physToIdx_src (idxToPhys_tgt j)` — for any pair of oriented anisotropic grids and
    either `align_corners` setting of either grid. -/
theorem C05_pipeline_coord_is_itk {src tgt : Grid d K} {srcN tgtN : Fin d → Nat} (hs : src.Valid)
    (ht : tgt.Valid) (hsn : src.HasSize srcN) (htn : tgt.HasSize tgtN) (hs2 : ∀ i, 2 ≤ srcN i)
    (ht2 : ∀ i, 2 ≤ tgtN i) (j : Vec d K) (i : Fin d) :
    unnormalize src.alignCorners ((srcN i : Nat) : K) (sampleCoord src tgt tgtN j i)
      = Itk.physToIdx src.origin src.spacing src.direction
          (Itk.idxToPhys tgt.origin tgt.spacing tgt.direction j) i := by
  rw [sampleCoord_unnormalized hs ht hsn htn hs2 ht2, toGrid_world_eq_itk, fromGrid_world_eq_itk]

/-- Hence the sampled *value* (linear interpolation, zero padding) is the value of the ITK
    specification, at every target sample, for all image contents. -/
theorem C05_pipeline_is_itk {src tgt : Grid d K} {srcN tgtN : Fin d → Nat} (hs : src.Valid)
    (ht : tgt.Valid) (hsn : src.HasSize srcN) (htn : tgt.HasSize tgtN) (hs2 : ∀ i, 2 ≤ srcN i)
    (ht2 : ∀ i, 2 ≤ tgtN i) (img : (Fin d → Int) → K) (j : Vec d K) :
    sampleOnGrid src tgt srcN tgtN .zeros img j
      = Itk.resampleLin src.origin src.spacing src.direction tgt.origin tgt.spacing tgt.direction srcN img j := by
  simp only [sampleOnGrid, gridSampleLin, Itk.resampleLin]
  congr 1; funext i
  exact C05_pipeline_coord_is_itk hs ht hsn htn hs2 ht2 j i

/-- Inside the source field of view (continuous index in `[0, n−1]` on every axis) padding plays
    no role: the result is plain multilinear interpolation of the source samples. -/
theorem C05_linear_inside_is_plain_interp {src tgt : Grid d K} {srcN tgtN : Fin d → Nat} (hs : src.Valid)
    (ht : tgt.Valid) (hsn : src.HasSize srcN) (htn : tgt.HasSize tgtN) (hs2 : ∀ i, 2 ≤ srcN i)
    (ht2 : ∀ i, 2 ≤ tgtN i) (img : (Fin d → Int) → K) (j : Vec d K)
    (hin : ∀ i, 0 ≤ toGrid src .world (fromGrid tgt .world j) i ∧
                 toGrid src .world (fromGrid tgt .world j) i ≤ ((srcN i : Nat) : K) - 1) :
    sampleOnGrid src tgt srcN tgtN .zeros img j
      = interpLin d img (toGrid src .world (fromGrid tgt .world j)) := by
  simp only [sampleOnGrid, gridSampleLin]
  have hc : (fun i => unnormalize src.alignCorners ((srcN i : Nat) : K) (sampleCoord src tgt tgtN j i))
      = toGrid src .world (fromGrid tgt .world j) := by
    funext i; exact sampleCoord_unnormalized hs ht hsn htn hs2 ht2 j i
  rw [hc]
  exact interpLin_extZero_inside srcN img _ hin

/-- Sampling an image on (a grid equal to) its own grid returns it unchanged: at every integer
    index inside the image the pipeline yields exactly the stored sample. -/
theorem C05_self_identity {g : Grid d K} {n : Fin d → Nat} (hg : g.Valid) (hn : g.HasSize n)
    (h2 : ∀ i, 2 ≤ n i) (img : (Fin d → Int) → K) (k : Fin d → Int)
    (hk : ∀ i, 0 ≤ k i ∧ k i < (n i : Int)) :
    sampleOnGrid g g n n .zeros img (fun i => ((k i : Int) : K)) = img k := by
  simp only [sampleOnGrid, gridSampleLin]
  have hw : g.CornersOK .world := fun hc => by cases hc
  have hc : (fun i => unnormalize g.alignCorners ((n i : Nat) : K) (sampleCoord g g n (fun i => ((k i : Int) : K)) i))
      = fun i => ((k i : Int) : K) := by
    funext i
    rw [sampleCoord_unnormalized hg hg hn hn h2 h2, toGrid_fromGrid hg .world hw]
  rw [hc, interpLin_at_index]
  simp only [extZero, Nat.cast_zero]
  rw [if_pos hk]

/-- Sampling at explicit normalised coordinates agrees with sampling on the grid those
    coordinates came from (both hand the same points to the same interpolator). -/
theorem C05_coords_equals_grid (src tgt : Grid d K) (srcN tgtN : Fin d → Nat) (pad : Padding)
    (img : (Fin d → Int) → K) (j : Vec d K) :
    gridSampleLin src.alignCorners pad srcN img (sampleCoord src tgt tgtN j)
      = sampleOnGrid src tgt srcN tgtN pad img j := rfl

/-- Constant padding as coded (`subtract c`, sample with zero padding, `add c`) equals sampling
    the image extended by the constant `c` outside its domain. -/
theorem C05_constant_padding (size : Fin d → Nat) (img : (Fin d → Int) → K) (c : K) (x : Fin d → K) :
    interpLin d (extZero size (fun idx => img idx - c)) x + c
      = interpLin d (fun idx => if ∀ i, 0 ≤ idx i ∧ idx i < (size i : Int) then img idx else c) x := by
  rw [← interpLin_add_const]
  congr 1; funext idx
  simp only [extZero, Nat.cast_zero]
  split <;> ring

/-- the ITK specification's two maps are mutually inverse for orthonormal directions. -/
theorem C05_itk_maps_are_inverse {g : Grid d K} (hg : g.Valid) (j : Vec d K) :
    Itk.physToIdx g.origin g.spacing g.direction (Itk.idxToPhys g.origin g.spacing g.direction j) = j := by
  have hw : g.CornersOK .world := fun hc => by cases hc
  rw [← toGrid_world_eq_itk, ← fromGrid_world_eq_itk, toGrid_fromGrid hg .world hw]

/-! ### non-vacuity: two concrete oriented anisotropic grids with different conventions -/

example : exampleGrid.Valid ∧ exampleGrid2.Valid ∧ exampleGrid.HasSize ![5, 4] ∧ exampleGrid2.HasSize ![3, 6] ∧
    (∀ i, 2 ≤ (![5, 4] : Fin 2 → Nat) i) ∧ (∀ i, 2 ≤ (![3, 6] : Fin 2 → Nat) i) :=
  ⟨exampleGrid_valid, exampleGrid2_valid, exampleGrid_hasSize, exampleGrid2_hasSize,
    by intro i; fin_cases i <;> simp, by intro i; fin_cases i <;> simp⟩

end Deepali
