/-
  Props/C06.lean — property C06: a spatial transform means one world-space map, however it is evaluated.
  Only property theorems and non-vacuity examples; helper lemmas are in Proofs/{Transforms,TransformsViews}.lean.

  OBLIGATIONS: C06_identity_default_Translation C06_identity_default_EulerRotation
    C06_identity_default_IsotropicScaling C06_identity_default_AnisotropicScaling C06_identity_default_Shearing
    C06_identity_default_QuaternionRotation C06_identity_default_HomogeneousTransform
    C06_identity_default_composite C06_identity_default_nonrigid
    C06_views_agree C06_views_agree_matrix
    C06_views_agree_points C06_views_agree_points_world C06_views_agree_disp C06_views_agree_disp_linear
    C06_views_agree_disp_nonrigid_partial
    C06_sequential_order C06_sequential_order_tensor
    C06_multilevel_sum C06_multilevel_members_unchanged
    C06_warp C06_warp_value C06_nonrigid_grid_points_agree C06_warp_nonrigid

  All defects found by this check (F-06a … F-06h, F-08a consequence, F-20a) were repaired in /repo while it was built; model and
  theorems follow the repaired code and every former refutation is now a positive theorem:
  F-06a/F-06d defaults (4602d00, 5a1bee8), F-06b multi-level sum (23e4cf3), F-08a batched translation matrix (8afe377), F-20a no
  rounding in `CompositeTransform.disp` (1b0b194), F-06e `disp(grid)` of a linear transform on ANY grid (eb11384:
  `C06_views_agree_disp_linear`), F-06g non-rigid `disp(grid)` is expressed in the cube axes of `grid` (8e0bb59:
  `C06_views_agree_disp_nonrigid_partial`), F-06f `ImageTransformer` evaluates a non-rigid transform at the target points unless
  they form the transform's lattice (c2e2ce2: `C06_warp_nonrigid`).
  Partial: `C06_views_agree_disp_nonrigid_partial` covers the branch "same samples, other flag" and the foreign-grid branch
  (sampled vector converted as a world vector; without the default rounding to 12 decimals of `ImageBatch.sample`); it does not
  relate zero-padded sampling (`disp`) to border-padded sampling (`forward`) — they agree inside the sample hull, which is
  covered by correspondence + oracle — nor the resize branch (`grid_reshape`, same grid and flag, other shape).
  `C06_warp_nonrigid` covers the lattice flag `false` (any target grid) and `true` for the field's own lattice; a *resized*
  lattice of the same domain (flag `true`, `F.interpolate` vs `grid_sample`) is covered by correspondence + oracle only.
  The default rounding to 12 decimals in `ImageTransformer.__init__` is exercised by the correspondence (theorems: `rnd = id`).
-/
import Deepali.Proofs.Transforms
import Deepali.Proofs.TransformsViews
import Deepali.Proofs.FlowAffine
import Deepali.Proofs.FlowRepr
import Deepali.Proofs.Examples
import Mathlib.Tactic.NormNum
import Mathlib.Tactic.Linarith

set_option linter.unusedSectionVars false
set_option linter.unusedSimpArgs false
set_option linter.unnecessarySeqFocus false
set_option linter.unreachableTactic false
set_option linter.unusedTactic false

namespace Deepali
open Matrix

section algebra
variable {K : Type} [Field K] {d : Nat}

/-! ## Identity at construction (default parameters from `reset_parameters`) -/

/-- `Translation`: zero offset. -/
theorem C06_identity_default_Translation (x : Vec d K) :
    (translationTensor false (defaultOffset : Vec d K)).apply x = x := by
  funext i
  simp [translationTensor, translationH, defaultOffset, H.apply, Vec.add]

/-- `EulerRotation`: parameter 0 is the angle `tanh(0)·π = 0` (`cos = 1`, `sin = 0`); 2-D, all 27 orders
    in upper and lower case, and the default order `None`. -/
theorem C06_identity_default_EulerRotation :
    (eulerAnglesGet (0 : K) (314 / 100) = 0) ∧
    (∀ x : Vec 2 K, (eulerTensor2 false (defaultCos : K) defaultSin).apply x = x) ∧
    (∀ (a b c : Axis) (x : Vec 3 K), ∃ h,
        eulerTensor3 false (some (orderName a b c)) (fun _ => (defaultCos : K)) (fun _ => defaultSin) = .ok h ∧
        eulerTensor3 false (some (orderNameLower a b c)) (fun _ => (defaultCos : K)) (fun _ => defaultSin) = .ok h ∧
        h.apply x = x) ∧
    (∀ x : Vec 3 K, ∃ h,
        eulerTensor3 false none (fun _ => (defaultCos : K)) (fun _ => defaultSin) = .ok h ∧ h.apply x = x) := by
  refine ⟨by simp [eulerAnglesGet], ?_, ?_, ?_⟩
  · intro x
    funext i
    fin_cases i <;>
      simp [eulerTensor2, invertRotation, eulerRotationMatrix2, defaultCos, defaultSin, H.apply, Mat.mulVec, sumFin_eq,
        Fin.sum_univ_two, affMat2, affVec2]
  · intro a b c x
    refine ⟨_, eulerTensor3_upper false a b c _ _, eulerTensor3_lower false a b c _ _, ?_⟩
    simp only [defaultCos, defaultSin, Nat.cast_one, Nat.cast_zero, eulerProduct_default, invertRotation,
      Bool.false_eq_true, if_false, H.apply, one_mulVec]
  · intro x
    refine ⟨_, eulerTensor3_none false _ _, ?_⟩
    simp only [defaultCos, defaultSin, Nat.cast_one, Nat.cast_zero, eulerProduct_default, invertRotation,
      Bool.false_eq_true, if_false, H.apply, one_mulVec]

/-- `IsotropicScaling`: parameter 1 is the factor `exp(tanh(1 − 1)) = exp 0 = 1`. -/
theorem C06_identity_default_IsotropicScaling (x : Vec d K) :
    scalesGetArg (1 : K) = 0 ∧ (isotropicScalingTensor false (defaultScale : K)).apply x = x := by
  refine ⟨by simp [scalesGetArg], ?_⟩
  funext i
  simp [isotropicScalingTensor, scalingTransform, defaultScale, H.apply, diag_mulVec]

/-- `AnisotropicScaling`. -/
theorem C06_identity_default_AnisotropicScaling (x : Vec d K) :
    (anisotropicScalingTensor false (fun _ => (defaultScale : K))).apply x = x := by
  funext i
  simp [anisotropicScalingTensor, scalingTransform, defaultScale, H.apply, diag_mulVec]

/-- `Shearing`: parameter 0 is the angle `tanh(0)·π/4 = 0`, `tan 0 = 0`; any dimension. -/
theorem C06_identity_default_Shearing (x : Vec d K) :
    shearAnglesGet (0 : K) (314 / 100) = 0 ∧ (shearingTensor false (defaultTan : Nat → K)).apply x = x := by
  refine ⟨by simp [shearAnglesGet], ?_⟩
  have : (shearMatrix (defaultTan : Nat → K) : Mat d K) = Mat.one := by
    funext i j
    simp only [shearMatrix, defaultTan, Mat.one, Nat.cast_zero, Nat.cast_one]
    split_ifs <;> rfl
  simp only [shearingTensor, Bool.false_eq_true, if_false, H.apply, this, one_mulVec]

/-- Composites (`RigidTransform`, `SimilarityTransform`, `AffineTransform`, `FullAffineTransform`,
    `GenericSpatialTransform`, any `SequentialTransform`): if every member is the identity at construction, so is the
    composite — for member lists of any length and either evaluation mode. -/
theorem C06_identity_default_composite (ms : List (Member d K)) (g : Option (Lat d))
    (hm : ∀ m ∈ ms, ∀ g x, m.forward g x = x) (x : Vec d K) : seqForward ms g x = x := by
  have key : ∀ (ms : List (Member d K)), (∀ m ∈ ms, ∀ g x, m.forward g x = x) → ∀ g x, seqForwardLoop ms g x = x := by
    intro ms
    induction ms with
    | nil => intro _ _ _; rfl
    | cons m ms ih =>
        intro hm g x
        simp only [seqForwardLoop]
        rw [hm m (List.mem_cons_self) g x]
        exact ih (fun m' hm' => hm m' (List.mem_cons_of_mem _ hm')) none x
  unfold seqForward
  split
  · next hl =>
    rw [seqTensor_apply, ← seqForwardLoop_linear ms hl g x]
    exact key ms hm g x
  · exact key ms hm g x

end algebra

section ordered
variable {K : Type} [Field K] [LinearOrder K] [IsStrictOrderedRing K]

/-- `QuaternionRotation`: `reset_parameters` writes (w, x, y, z) = (1, 0, 0, 0) (`‖q‖ = 1`), the identity rotation. -/
theorem C06_identity_default_QuaternionRotation (eps : K) (heps : eps ≤ 1) (x : Vec 3 K) :
    (quaternionTensor false (defaultQuaternion : Vec 4 K) 1 eps).apply x = x := by
  have hc : korniaClampMin (1 : K) eps = 1 := korniaClampMin_of_le heps
  funext i
  fin_cases i <;>
    simp [quaternionTensor, invertRotation, quaternionToRotationMatrix, quaternionToRotationMatrixN,
      normalizeQuaternion, hc, defaultQuaternion, affVec4, affVec3, affMat3, H.apply, Mat.mulVec, sumFin_eq,
      Fin.sum_univ_three]

end ordered

section algebra2
variable {K : Type} [Field K] {d : Nat}

/-- `HomogeneousTransform`: `reset_parameters` writes `[I | 0]`. -/
theorem C06_identity_default_HomogeneousTransform (x : Vec d K) :
    (homogeneousTensor false (defaultHomMatrix : Mat d K) defaultHomOffset).apply x = x := by
  simp only [homogeneousTensor, Bool.false_eq_true, if_false, H.apply, defaultHomMatrix, one_mulVec]
  funext i; simp [Vec.add, defaultHomOffset]

/-! ## Matrix view -/

/-- `matrix()` is the same map as `tensor()`, for points and for vectors, for all three operand forms
    (`(N, D, 1)` translation, `(N, D, D)` affine, `(N, D, D+1)` homogeneous). -/
theorem C06_views_agree_matrix (h : H d K) (x : Vec d K) :
    (matrixOf h).apply x = h.apply x ∧ (matrixOf h).applyVec x = h.applyVec x :=
  ⟨toHom_apply h x, toHom_applyVec h x⟩

/-! ## Sequential composition -/

/-- `SequentialTransform`: `tensor()` of linear members is the left fold "listed order = order of application",
    for member lists of any length … -/
theorem C06_sequential_order_tensor (hs : List (H d K)) (x : Vec d K) :
    (seqTensor hs).apply x = hs.foldl (fun y h => h.apply y) x := seqTensor_apply hs x

/-- … and `forward()` — whichever branch it takes (composite matrix for all-linear members, member by member
    otherwise) — applies the members in the listed order. -/
theorem C06_sequential_order (ms : List (Member d K)) (g : Option (Lat d)) (x : Vec d K) :
    seqForward ms g x = seqForwardLoop ms g x ∧
    seqForward ms none x = ms.foldl (fun y m => m.forward none y) x := by
  have h1 : seqForward ms g x = seqForwardLoop ms g x := by
    unfold seqForward
    split
    · next hl => rw [seqTensor_apply, seqForwardLoop_linear ms hl g x]
    · rfl
  refine ⟨h1, ?_⟩
  have h2 : seqForward ms none x = seqForwardLoop ms none x := by
    unfold seqForward
    split
    · next hl => rw [seqTensor_apply, seqForwardLoop_linear ms hl none x]
    · rfl
  rw [h2, seqForwardLoop_none]

/-! ## Multi-level sum -/

/-- `MultiLevelTransform` adds the displacements of its members, `y = x + Σᵢ uᵢ(x)`, for member lists of any length and
    in every branch: no member, all members linear (composite matrix `Σ Aᵢ − (n−1)·I | Σ tᵢ`), or some member non-linear. -/
theorem C06_multilevel_sum (ms : List (Member d K)) (x : Vec d K) : mlForward ms none x = mlSpec ms x := by
  have hlin : ∀ (ms : List (Member d K)) (u : Vec d K), allLinear ms = true →
      ms.foldl (fun u t => u.add ((t.forward none x).sub x)) u
        = (linearTensors ms).foldl (fun u t => u.add ((t.apply x).sub x)) u := by
    intro ms
    induction ms with
    | nil => intro u _; rfl
    | cons m ms ih =>
        intro u h
        cases m with
        | linear hm =>
            have h' : allLinear ms = true := by simpa [allLinear, Member.isLinear] using h
            have e : (Member.linear hm).forward none x = hm.apply x := rfl
            simp only [List.foldl_cons, linearTensors, e]
            exact ih _ h'
        | nonlin fP fG => simp [allLinear, Member.isLinear] at h
  unfold mlForward mlSpec
  split
  · next he =>
    have : ms = [] := by simpa using he
    subst this
    funext i; simp [Vec.add]
  · split
    · next hl => rw [mlTensor_apply, hlin ms _ hl]
    · rw [mlForwardLoop_eq]

/-- the composite matrix is computed out of place: it is a function of the members' tensors only, so evaluating the
    composite leaves the members' parameters as they were (in the model, tensors are values; the implementation-side
    statement — no write into the first member — is checked by the oracle `ml_mutation`), and a single linear member
    is returned unchanged as a map. -/
theorem C06_multilevel_members_unchanged (h : H d K) (x : Vec d K) :
    (mlTensor [h]).apply x = h.apply x ∧ mlForward [.linear h] none x = h.apply x := by
  have e : (mlTensor [h]).apply x = h.apply x := by
    simp only [mlTensor, List.foldl_nil, List.isEmpty_nil, if_true]
    exact toHom_apply h x
  refine ⟨e, ?_⟩
  simp only [mlForward, List.isEmpty_cons, Bool.false_eq_true, if_false, allLinear, List.all_cons, Member.isLinear,
    List.all_nil, Bool.and_self, if_true, linearTensors]
  exact e

end algebra2

section ordered2
variable {K : Type} [Field K] [LinearOrder K] [IsStrictOrderedRing K] [FloorRing K] {d : Nat}

/-! ## Identity of freshly constructed non-rigid models -/

/-- a zero displacement field (what `u` is for zero parameters) is the identity in both evaluation modes. -/
theorem C06_identity_default_nonrigid (ac : Bool) (n : Fin d → Nat) (g : Option (Lat d)) (x : Vec d K) :
    (nonRigidMember ac n (fun _ _ => (0 : K))).forward g x = x := by
  have hz : ∀ (d : Nat) (x : Fin d → K), interpLin d (fun _ => (0 : K)) x = 0 := by
    intro d x
    have := interpLin_smul d (0 : K) (fun _ => (0 : K)) x
    simpa using this
  have hext : ∀ (size : Fin d → Nat), extZero size (fun _ => (0 : K)) = fun _ => 0 := by
    intro size; funext idx; simp [extZero]
  have hextB : ∀ (size : Fin d → Nat), extBorder size (fun _ => (0 : K)) = fun _ => 0 := by
    intro size; funext idx; simp [extBorder]
  cases g with
  | none =>
      have hs : sampleVField ac .border n (fun _ _ => (0 : K)) x = fun _ => 0 := by
        funext c
        simp only [sampleVField, gridSampleLin, hext, hz]
      simp only [nonRigidMember, Member.forward, warpPoint, hs]
      funext i; simp [Vec.add]
  | some l =>
      have hs : (fun c : Fin d => interpolateLin ac n l.shape (fun _ => (0 : K)) l.idx) = fun _ => 0 := by
        funext c
        simp only [interpolateLin, hextB, hz]
      simp only [nonRigidMember, Member.forward, warpGridPoint, hs]
      funext i; simp [Vec.add]

/-! ## Point API and dense displacement view -/

/-- `SpatialTransform.points(points, grid, axes, to_grid, to_axes)` (and `PointSetTransformer`) for *any* cube map
    `T`, any three valid grids and all 16 axes pairs: the result is the world map `W_T` conjugated with the
    coordinate maps of `(grid, axes)` and `(to_grid, to_axes)`. -/
theorem C06_views_agree_points (T : Vec d K → Vec d K) {tg g₁ g₂ : Grid d K} (ht : tg.Valid) (h₁ : g₁.Valid)
    (h₂ : g₂.Valid) (a b : Axes) (ha : g₁.CornersOK a) (hb : g₂.CornersOK b) (htc : tg.CornersOK (transformAxes tg))
    (s₁ s₂ : Bool) (hs₁ : s₁ = true → g₁.EqUpToAc tg) (hs₂ : s₂ = true → tg.EqUpToAc g₂) (x : Vec d K) :
    transformPoints T tg g₁ a g₂ b s₁ s₂ x
      = fromGrid g₂ b (toGrid g₂ .world (worldMap tg T (fromGrid g₁ .world (toGrid g₁ a x)))) :=
  transformPoints_eq T ht h₁ h₂ a b ha hb htc s₁ s₂ hs₁ hs₂ x

/-- in particular `points(…, axes=WORLD, to_axes=WORLD)` is `cubeToWorld ∘ T ∘ worldToCube`, whatever grids are
    named as `grid` / `to_grid`. -/
theorem C06_views_agree_points_world (T : Vec d K → Vec d K) {tg g₁ g₂ : Grid d K} (ht : tg.Valid) (h₁ : g₁.Valid)
    (h₂ : g₂.Valid) (htc : tg.CornersOK (transformAxes tg)) (s₁ s₂ : Bool) (hs₁ : s₁ = true → g₁.EqUpToAc tg)
    (hs₂ : s₂ = true → tg.EqUpToAc g₂) (w : Vec d K) :
    transformPoints T tg g₁ .world g₂ .world s₁ s₂ w = worldMap tg T w := by
  rw [transformPoints_eq T ht h₁ h₂ .world .world (cornersOK_world _) (cornersOK_world _) htc s₁ s₂ hs₁ hs₂,
    fromGrid_toGrid h₁ .world (cornersOK_world _), fromGrid_toGrid h₂ .world (cornersOK_world _)]

/-- `CompositeTransform.disp(grid)` on **any** grid (own, resized, foreign, either `align_corners`): the value at
    grid point `j` is `T(x_j) − x_j` expressed in the cube of that grid, where `T` acts in world space. -/
theorem C06_views_agree_disp (T : Vec d K → Vec d K) {tg g : Grid d K} {n : Fin d → Nat} (ht : tg.Valid) (hg : g.Valid)
    (hn : g.HasSize n) (h2 : ∀ i, 2 ≤ n i) (htc : tg.CornersOK (transformAxes tg)) (sameDomain : Bool)
    (hdom : sameDomain = true → ∀ p, fromGrid tg .world (toGrid tg (transformAxes tg) p)
        = fromGrid g .world (toGrid g (Axes.fromAlignCorners g.alignCorners) p)) (j : Vec d K) :
    dispComposite T tg g n sameDomain j
      = (fromGrid g (Axes.fromAlignCorners g.alignCorners) (toGrid g .world (worldMap tg T (fromGrid g .world j)))).sub
          (fromGrid g (Axes.fromAlignCorners g.alignCorners) j) :=
  dispComposite_eq T ht hg hn h2 htc sameDomain hdom j

/-- base-class `disp(grid)` of a plain linear transform on **any** grid — own, resized, foreign domain, either
    `align_corners` flag: the value at grid point `j` is `T(x_j) − x_j` in the cube of that grid (`affine_flow` when the domains
    coincide, conjugation through the grid maps otherwise; repair eb11384). -/
theorem C06_views_agree_disp_linear (h : H d K) {tg g : Grid d K} {n : Fin d → Nat} (ht : tg.Valid) (hg : g.Valid)
    (hn : g.HasSize n) (h2 : ∀ i, 2 ≤ n i) (htc : tg.CornersOK (transformAxes tg)) (sameDomain : Bool)
    (hdom : sameDomain = true → ∀ p, fromGrid tg .world (toGrid tg (transformAxes tg) p)
        = fromGrid g .world (toGrid g (Axes.fromAlignCorners g.alignCorners) p)) (j : Vec d K) :
    dispLinear h tg g n sameDomain j
      = (fromGrid g (Axes.fromAlignCorners g.alignCorners)
            (toGrid g .world (worldMap tg h.apply (fromGrid g .world j)))).sub
          (fromGrid g (Axes.fromAlignCorners g.alignCorners) j) := by
  rw [dispLinear_eq_dispComposite]
  exact dispComposite_eq h.apply ht hg hn h2 htc sameDomain hdom j

/-- non-rigid `disp(grid)` is expressed in the cube axes of `grid` (repair 8e0bb59). **Partial** (see header):
    (1) `grid` has the samples of the transform's grid (on which `u` is stored) but the other flag: the stored vector
    `u[j]`, a displacement in the transform's cube axes, re-expressed in the cube axes of `grid` (same index-space vector);
    (2) `grid` is a foreign grid with either flag (no rounding): `u` sampled at the position of grid point `j` — expressed in
    the cube of the field's grid — and converted *as a world-space vector* into the cube axes of `grid`. -/
theorem C06_views_agree_disp_nonrigid_partial {tg fg g : Grid d K} {n gridN fgN : Fin d → Nat} (hg : g.Valid)
    (hf : fg.Valid) (hgn : g.HasSize gridN) (h2 : ∀ i, 2 ≤ gridN i) (hfn : fg.HasSize fgN) (hf2 : ∀ i, 2 ≤ fgN i)
    (u : VField d K) (pad : Padding) (j : Fin d → Nat) :
    (tg.EqUpToAc g → g.alignCorners ≠ tg.alignCorners → ∀ rnd,
      dispNonRigid tg fg g n gridN u true true rnd pad j
        = fromGridLin g (Axes.fromAlignCorners g.alignCorners)
            (toGridLin tg (transformAxes tg) (u (fun i => ((j i : Nat) : Int))))) ∧
    dispNonRigid tg fg g n gridN u false false id pad j
      = fromGridLin g (Axes.fromAlignCorners g.alignCorners) (toGridLin g .world (fromGridLin fg .world
          (toGridLin fg (transformAxes tg) (sampleVField tg.alignCorners pad n u
            (fromGrid fg (transformAxes tg) (toGrid fg .world (fromGrid g .world (fun i => ((j i : Nat) : K))))))))) :=
  ⟨fun he hne rnd => dispNonRigid_other_convention hg hgn h2 he hne u rnd pad j,
    dispNonRigid_foreign hg hf hgn h2 hfn hf2 u pad j⟩

/-- **all views at once** for a linear transform with tensor `h` on its own grid `tg`: the displacement field at
    grid point `j` is `T(x_j) − x_j`, `matrix()` is the same map, and the world-coordinate point API is
    `cubeToWorld ∘ T ∘ worldToCube`. -/
theorem C06_views_agree (h : H d K) {tg : Grid d K} {n : Fin d → Nat} (ht : tg.Valid) (hn : tg.HasSize n)
    (h2 : ∀ i, 2 ≤ n i) (j w : Vec d K) :
    dispLinear h tg tg n true j
        = (h.apply (fromGrid tg (transformAxes tg) j)).sub (fromGrid tg (transformAxes tg) j) ∧
    (∀ x, (matrixOf h).apply x = h.apply x) ∧
    transformPoints h.apply tg tg .world tg .world true true w = worldMap tg h.apply w := by
  have htc : tg.CornersOK (transformAxes tg) := hn.cornersOK h2 _
  refine ⟨?_, fun x => (C06_views_agree_matrix h x).1, ?_⟩
  · simp only [dispLinear, dispLinearWith, dispCompositeMaps, if_true, affineFlowAt, coords_eq_fromGrid hn h2,
      transformAxes]
  · exact C06_views_agree_points_world h.apply ht ht ht htc true true (fun _ => Grid.EqUpToAc.refl _)
      (fun _ => Grid.EqUpToAc.refl _) w

/-! ## Image warping -/

/-- **`ImageTransformer`**, for ANY map `T : cube → cube` (linear or not) and any triple (transform grid, target
    grid, source grid) with either `align_corners` on each: the continuous source index at which the input image is
    sampled for target index `j` is `src.worldToIndex (W_T (tgt.indexToWorld j))`. -/
theorem C06_warp (T : Vec d K → Vec d K) {tg tgt src : Grid d K} {tgN srcN tgtN : Fin d → Nat} (ht : tg.Valid)
    (hg : tgt.Valid) (hs : src.Valid) (htn : tg.HasSize tgN) (hgn : tgt.HasSize tgtN) (hsn : src.HasSize srcN)
    (ht2 : ∀ i, 2 ≤ tgN i) (hg2 : ∀ i, 2 ≤ tgtN i) (hs2 : ∀ i, 2 ≤ srcN i) (sTT sTS : Bool)
    (hTT : sTT = true → tgt.EqUpToAc tg) (hTS : sTS = true → tg.EqUpToAc src) (j : Vec d K) (i : Fin d) :
    unnormalize tg.alignCorners ((srcN i : Nat) : K) (imageTransformerCoord T tg tgt src tgtN sTT sTS id j i)
      = toGrid src .world (worldMap tg T (fromGrid tgt .world j)) i :=
  imageTransformerCoord_unnormalized T ht hg hs htn hgn hsn ht2 hg2 hs2 sTT sTS hTT hTS j i

/-- hence the returned *value* is the (zero-extended) source image interpolated at `T(x)` in world space. -/
theorem C06_warp_value (T : Vec d K → Vec d K) {tg tgt src : Grid d K} {tgN srcN tgtN : Fin d → Nat} (ht : tg.Valid)
    (hg : tgt.Valid) (hs : src.Valid) (htn : tg.HasSize tgN) (hgn : tgt.HasSize tgtN) (hsn : src.HasSize srcN)
    (ht2 : ∀ i, 2 ≤ tgN i) (hg2 : ∀ i, 2 ≤ tgtN i) (hs2 : ∀ i, 2 ≤ srcN i) (sTT sTS : Bool)
    (hTT : sTT = true → tgt.EqUpToAc tg) (hTS : sTS = true → tg.EqUpToAc src) (img : (Fin d → Int) → K)
    (j : Vec d K) :
    imageTransformerValue T tg tgt src srcN tgtN sTT sTS id .zeros img j
      = interpLin d (extZero srcN img) (toGrid src .world (worldMap tg T (fromGrid tgt .world j))) := by
  simp only [imageTransformerValue, gridSampleLin]
  congr 1
  funext i
  exact C06_warp T ht hg hs htn hgn hsn ht2 hg2 hs2 sTT sTS hTT hTS j i

/-! ## Non-rigid models: grid evaluation vs point evaluation -/

/-- for a displacement-field model, `forward(grid points, grid=True)` (`x + resize(u)`) and
    `forward(points)` (`x + interp(u, x)`) agree on the field's own lattice: both add the stored sample `u[k]`. -/
theorem C06_nonrigid_grid_points_agree (ac : Bool) (n : Fin d → Nat) (h2 : ∀ i, 2 ≤ n i) (u : VField d K)
    (k : Fin d → Nat) (hk : ∀ i, k i < n i) :
    let x : Vec d K := latticePoint ac n (fun i => (k i : Int))
    (nonRigidMember ac n u).forward (some ⟨n, k⟩) x = (nonRigidMember ac n u).forward none x ∧
    (nonRigidMember ac n u).forward none x = x.add (u (fun i => (k i : Int))) := by
  intro x
  have hin : ∀ i, (0 : Int) ≤ (k i : Int) ∧ ((k i : Nat) : Int) < (n i : Int) := fun i =>
    ⟨Int.natCast_nonneg _, by exact_mod_cast hk i⟩
  -- point mode
  have hp : (nonRigidMember ac n u).forward none x = x.add (u (fun i => (k i : Int))) := by
    simp only [nonRigidMember, Member.forward, warpPoint]
    congr 1
    funext c
    simp only [sampleVField, gridSampleLin]
    have hx : (fun i => unnormalize ac ((n i : Nat) : K) (x i)) = fun i => (((k i : Nat) : Int) : K) := by
      funext i
      simp only [x, latticePoint]
      exact unnormalize_coordAt (n i) (h2 i) ac _
    have hcl : (fun i => clampCoord (n i) (unnormalize ac ((n i : Nat) : K) (x i)))
        = fun i => (((k i : Nat) : Int) : K) := by
      funext i
      rw [congrFun hx i]
      apply clampCoord_inside
      · exact_mod_cast (hin i).1
      · have : (k i : Int) ≤ (n i : Int) - 1 := by have := (hin i).2; omega
        have h' : (((k i : Nat) : Int) : K) ≤ ((n i : Int) : K) - 1 := by exact_mod_cast this
        simpa using h'
    rw [hcl, interpLin_at_index]
    simp only [extZero]
    rw [if_pos hin]
  refine ⟨?_, hp⟩
  rw [hp]
  simp only [nonRigidMember, Member.forward, warpGridPoint]
  congr 1
  funext c
  simp only [interpolateLin]
  have hsrc : (fun i => interpolateSrc ac (n i) (n i) (k i)) = fun i => ((((k i : Nat) : Int)) : K) := by
    funext i
    have h2' : (2 : K) ≤ ((n i : Nat) : K) := by exact_mod_cast h2 i
    have h0 : ((n i : Nat) : K) ≠ 0 := by intro e; rw [e] at h2'; linarith
    have h1 : ((n i : Nat) : K) - 1 ≠ 0 := by intro e; linarith
    have hm : ¬ (n i ≤ 1) := by have := h2 i; omega
    cases ac
    · simp only [interpolateSrc, Bool.false_eq_true, if_false, Nat.cast_one, Nat.cast_ofNat]
      have hs : ((k i : Nat) : K) + 1 / 2 = ((k i : Nat) : K) + 1 / 2 := rfl
      have e : (((k i : Nat) : K) + 1 / 2) * ((n i : Nat) : K) / ((n i : Nat) : K) - 1 / 2 = ((k i : Nat) : K) := by
        field_simp; ring
      rw [e]
      have hnn : ¬ (((k i : Nat) : K) < 0) := by
        have : (0 : K) ≤ ((k i : Nat) : K) := Nat.cast_nonneg _
        exact not_lt.mpr this
      simp only [Nat.cast_zero, hnn, if_false, Int.cast_natCast]
    · simp only [interpolateSrc, if_true, hm, if_false, Nat.cast_one, Int.cast_natCast]
      field_simp
  rw [hsrc, interpLin_at_index]
  simp only [extBorder]
  congr 1
  funext i
  simp only [clampIdx]
  have := (hin i)
  omega

/-- **`ImageTransformer` with a non-rigid transform** (buffered field `u` of size `n`), for ANY target grid (repair
    c2e2ce2): the transform is evaluated with `grid = isLattice`. If the flag is `false` — the mapped target coordinates are
    not the transform's lattice — the field is sampled at the target point; if it is `true` and the target lattice is the
    field's own lattice, the resized field is the field itself. In both cases the source image is sampled at
    `src.worldToIndex (W_T (tgt.indexToWorld k))` with `T(x) = x + u(x)`. -/
theorem C06_warp_nonrigid {tg tgt src : Grid d K} {tgN srcN tgtN n : Fin d → Nat} (u : VField d K) (ht : tg.Valid)
    (hg : tgt.Valid) (hs : src.Valid) (htn : tg.HasSize tgN) (hgn : tgt.HasSize tgtN) (hsn : src.HasSize srcN)
    (ht2 : ∀ i, 2 ≤ tgN i) (hg2 : ∀ i, 2 ≤ tgtN i) (hs2 : ∀ i, 2 ≤ srcN i) (sTT sTS : Bool)
    (hTT : sTT = true → tgt.EqUpToAc tg) (hTS : sTS = true → tg.EqUpToAc src) (isLattice : Bool) (k : Fin d → Nat)
    (hk : ∀ i, k i < tgtN i)
    (hlat : isLattice = true → tgtN = n ∧
      fromGrid tg (transformAxes tg) (toGrid tg .world (fromGrid tgt .world (fun i => ((k i : Nat) : K))))
        = latticePoint tg.alignCorners n (fun i => (k i : Int))) (i : Fin d) :
    unnormalize tg.alignCorners ((srcN i : Nat) : K)
        (imageTransformerMemberCoord (nonRigidMember tg.alignCorners n u) isLattice tg tgt src tgtN sTT sTS id k i)
      = toGrid src .world (worldMap tg (warpPoint tg.alignCorners n u) (fromGrid tgt .world (fun i => ((k i : Nat) : K)))) i := by
  unfold imageTransformerMemberCoord
  rw [C06_warp _ ht hg hs htn hgn hsn ht2 hg2 hs2 sTT sTS hTT hTS]
  congr 1
  simp only [worldMap]
  congr 2
  cases isLattice with
  | false => rfl
  | true =>
      obtain ⟨hn, hY⟩ := hlat rfl
      subst hn
      rw [hY]
      simp only [imageTransformerLat, if_true]
      exact (C06_nonrigid_grid_points_agree tg.alignCorners tgtN hg2 u k hk).1

end ordered2

/-! ## Non-vacuity -/

/-- two concrete valid oriented grids with ≥ 2 samples per axis and different `align_corners` (hypotheses of
    `C06_warp`, `C06_views_agree_points`, `C06_views_agree_disp`). -/
example : exampleGrid.Valid ∧ exampleGrid2.Valid ∧ exampleGrid.HasSize ![5, 4] ∧ exampleGrid2.HasSize ![3, 6] ∧
    (∀ a, exampleGrid.CornersOK a) ∧ exampleGrid.EqUpToAc exampleGrid :=
  ⟨exampleGrid_valid, exampleGrid2_valid, exampleGrid_hasSize, exampleGrid2_hasSize, exampleGrid_cornersOK,
    Grid.EqUpToAc.refl _⟩

/-- a non-trivial sequential composite: rotation by `(c, s) = (3/5, 4/5)` then translation `(1, 2)` maps `(1, 0)` to
    `(8/5, 14/5)`; as a multi-level composite of a non-linear and a linear member the hypotheses of
    `C06_multilevel_sum` are met (it has none beyond the member list). -/
example : seqForward [.linear (eulerTensor2 false ((3 : ℚ) / 5) (4 / 5)), .linear (translationTensor false (affVec2 1 2))]
    none (affVec2 1 0) 0 = 8 / 5 := by
  simp [seqForward, allLinear, Member.isLinear, linearTensors, seqTensor, eulerTensor2, translationTensor, translationH,
    invertRotation, eulerRotationMatrix2, H.matmul, H.apply, Mat.mulVec, sumFin, Vec.add, affMat2, affVec2]
  norm_num

example : allLinear [Member.nonlin (fun x : Vec 1 ℚ => x) (fun _ x => x), .linear (.aff Mat.one)] = false := rfl

/-- the hypotheses of `C06_views_agree_disp_nonrigid_partial` (1) and of `C06_warp_nonrigid` with the lattice flag `true` are
    met: the grid with the samples of `exampleGrid` and the other flag, and — target = transform grid — target sample `k`
    expressed in the transform's cube *is* lattice point `k`. -/
example : (exampleGrid.EqUpToAc { exampleGrid with alignCorners := false } ∧
      ({ exampleGrid with alignCorners := false } : Grid 2 ℚ).alignCorners ≠ exampleGrid.alignCorners) ∧
    ∀ k : Fin 2 → Nat,
      fromGrid exampleGrid (transformAxes exampleGrid)
          (toGrid exampleGrid .world (fromGrid exampleGrid .world (fun i => ((k i : Nat) : ℚ))))
        = latticePoint exampleGrid.alignCorners ![5, 4] (fun i => (k i : Int)) := by
  refine ⟨⟨⟨rfl, rfl, rfl, rfl⟩, by simp [exampleGrid]⟩, ?_⟩
  intro k
  rw [toGrid_fromGrid exampleGrid_valid .world (cornersOK_world _)]
  have := coords_eq_fromGrid exampleGrid_hasSize (by intro i; fin_cases i <;> simp) exampleGrid.alignCorners
    (fun i => ((k i : Nat) : ℚ))
  simp only [transformAxes, ← this]
  funext i; simp [latticePoint]

end Deepali
