/-
  Props/C07.lean — property C07: `inverse()` really inverts — T⁻¹(T(x)) = x = T(T⁻¹(x)) for every invertible
  transform model.  Only property theorems and non-vacuity examples; helpers in Proofs/Transforms.lean.

  OBLIGATIONS: C07_Translation_inverse C07_EulerRotation_inverse C07_QuaternionRotation_inverse
    C07_IsotropicScaling_inverse C07_AnisotropicScaling_inverse C07_Shearing_inverse
    C07_HomogeneousTransform_inverse C07_HomogeneousTransform_inverse_det C07_inverse_flag_involutive
    C07_sequential_inverse C07_sequential_inverse_maps C07_svf_affine_second_order_partial

  Partial: (1) the velocity-field clause is proved for scalar/diagonal generators only
  (`C07_svf_affine_second_order_partial`; full statement `C07_svf_second_order_Statement` needs analysis of smooth
  fields outside the model and is covered by the measured bound of the oracle `svf_inverse`); (2) the clause "the inverse
  shares the forward parameters, so it stays an inverse after those parameters are changed" (`C07_shared_params`) is a
  statement about the object state machine (Model/TransformState.lean, built with property C09) and is covered here by
  the oracle `shared_params` only; (3) floating-point accuracy is a tolerance of the correspondence.
  Known defect F-07 (`inverse(link=True)` / `.inv` raise TypeError for Parameter-held params) is an exception of the
  object plumbing, recorded by the oracle; the theorems describe what the inverse computes when it is obtained.
-/
import Deepali.Proofs.Transforms
import Deepali.Proofs.FlowAffine
import Mathlib.LinearAlgebra.Matrix.NonsingularInverse
import Mathlib.Algebra.Order.Ring.Abs
import Mathlib.Algebra.Order.Ring.Pow
import Mathlib.Tactic.NormNum
import Mathlib.Tactic.Linarith

set_option linter.unusedSectionVars false
set_option linter.unusedSimpArgs false
set_option linter.unnecessarySeqFocus false
set_option linter.unreachableTactic false
set_option linter.unusedTactic false

namespace Deepali
open Matrix

section algebra
variable {K : Type} [Field K] {d : Nat}

/-- a one-sided matrix inverse is two-sided. -/
theorem mat_mul_one_comm {A B : Mat d K} (h : A.mul B = Mat.one) : B.mul A = Mat.one := by
  have h' : toM A * toM B = 1 := by rw [← mmul_eq, h, one_eq]
  have h'' := mul_eq_one_comm.mp h'
  have : toM (B.mul A) = toM (Mat.one : Mat d K) := by rw [mmul_eq, h'', one_eq]
  exact this

/-- `Translation`: `tensor()` with `invert` (negated offset) undoes `tensor()` without, in both orders. -/
theorem C07_Translation_inverse (offset : Vec d K) :
    InversePair (translationTensor false offset).apply (translationTensor true offset).apply := by
  constructor <;> intro x <;> funext i <;>
    simp [translationTensor, translationH, H.apply, Vec.add, Vec.neg]

/-- `EulerRotation` (transpose when `invert`): 2-D, and 3-D for all 27 orders in upper/lower case and the default
    order, whenever `cᵢ² + sᵢ² = 1` (`cᵢ = cos θᵢ`, `sᵢ = sin θᵢ`). -/
theorem C07_EulerRotation_inverse :
    (∀ c s : K, c * c + s * s = 1 → InversePair (eulerTensor2 false c s).apply (eulerTensor2 true c s).apply) ∧
    (∀ (a b c : Axis) (cs sn : Vec 3 K), (∀ i, cs i * cs i + sn i * sn i = 1) → ∃ hf hi,
        eulerTensor3 false (some (orderName a b c)) cs sn = .ok hf ∧
        eulerTensor3 true (some (orderName a b c)) cs sn = .ok hi ∧
        eulerTensor3 false (some (orderNameLower a b c)) cs sn = .ok hf ∧
        eulerTensor3 true (some (orderNameLower a b c)) cs sn = .ok hi ∧ InversePair hf.apply hi.apply) ∧
    (∀ (cs sn : Vec 3 K), (∀ i, cs i * cs i + sn i * sn i = 1) → ∃ hf hi,
        eulerTensor3 false none cs sn = .ok hf ∧ eulerTensor3 true none cs sn = .ok hi ∧
        InversePair hf.apply hi.apply) := by
  refine ⟨?_, ?_, ?_⟩
  · intro c s h
    have h1 := euler2_orth c s h
    exact aff_inversePair (mat_mul_one_comm h1) h1
  · intro a b c cs sn hu
    refine ⟨_, _, eulerTensor3_upper false a b c cs sn, eulerTensor3_upper true a b c cs sn,
      eulerTensor3_lower false a b c cs sn, eulerTensor3_lower true a b c cs sn, ?_⟩
    exact aff_inversePair (eulerProduct_orth' a b c cs sn hu) (eulerProduct_orth a b c cs sn hu)
  · intro cs sn hu
    refine ⟨_, _, eulerTensor3_none false cs sn, eulerTensor3_none true cs sn, ?_⟩
    exact aff_inversePair (eulerProduct_orth' .Z .X .Z cs sn hu) (eulerProduct_orth .Z .X .Z cs sn hu)

/-- `IsotropicScaling` (`1 / scales` when `invert`), `s ≠ 0` (always true for `exp(tanh(·))`). -/
theorem C07_IsotropicScaling_inverse (s : K) (hs : s ≠ 0) :
    InversePair (isotropicScalingTensor (d := d) false s).apply (isotropicScalingTensor (d := d) true s).apply := by
  constructor <;> intro x <;> funext i <;>
    simp only [isotropicScalingTensor, scalingTransform, H.apply, diag_mulVec, Bool.false_eq_true, if_false, if_true,
      Nat.cast_one] <;> field_simp

/-- `AnisotropicScaling`, every factor non-zero. -/
theorem C07_AnisotropicScaling_inverse (s : Vec d K) (hs : ∀ i, s i ≠ 0) :
    InversePair (anisotropicScalingTensor false s).apply (anisotropicScalingTensor true s).apply := by
  constructor <;> intro x <;> funext i <;> have := hs i <;>
    simp only [anisotropicScalingTensor, scalingTransform, H.apply, diag_mulVec, Bool.false_eq_true, if_false, if_true,
      Nat.cast_one] <;> field_simp

/-- `Shearing` (`torch.inverse` when `invert`): the shear matrix is unit upper triangular, its determinant is 1 and
    the explicit inverse is `[[1, −t₀], [0, 1]]` resp. `[[1, −t₀, t₀t₂ − t₁], [0, 1, −t₂], [0, 0, 1]]`. -/
theorem C07_Shearing_inverse (t : Nat → K) :
    InversePair (shearingTensor (d := 2) false t).apply (shearingTensor (d := 2) true t).apply ∧
    InversePair (shearingTensor (d := 3) false t).apply (shearingTensor (d := 3) true t).apply ∧
    (∀ x : Vec 2 K, (shearingTensor (d := 2) true t).apply x = affVec2 (x 0 - t 0 * x 1) (x 1)) ∧
    (∀ x : Vec 3 K, (shearingTensor (d := 3) true t).apply x
        = affVec3 (x 0 - t 0 * x 1 + (t 0 * t 2 - t 1) * x 2) (x 1 - t 2 * x 2) (x 2)) := by
  have d2 : affineDet2 (shearMatrix (d := 2) t) = 1 := by simp [affineDet2, shearMatrix, triuIndex]
  have d3 : affineDet3 (shearMatrix (d := 3) t) = 1 := by simp [affineDet3, shearMatrix, triuIndex]
  refine ⟨?_, ?_, ?_, ?_⟩
  · simp only [shearingTensor, Bool.false_eq_true, if_false, if_true, matInv]
    exact aff_inversePair (matInv2_mul _ (by rw [d2]; exact one_ne_zero)) (mul_matInv2 _ (by rw [d2]; exact one_ne_zero))
  · simp only [shearingTensor, Bool.false_eq_true, if_false, if_true, matInv]
    exact aff_inversePair (matInv3_mul _ (by rw [d3]; exact one_ne_zero)) (mul_matInv3 _ (by rw [d3]; exact one_ne_zero))
  · intro x
    funext i
    fin_cases i <;>
      simp [shearingTensor, matInv, matInv2, d2, H.apply, Mat.mulVec, sumFin_eq, Fin.sum_univ_two, affMat2, affVec2,
        shearMatrix, triuIndex] <;> ring
  · intro x
    funext i
    fin_cases i <;>
      simp [shearingTensor, matInv, matInv3, d3, H.apply, Mat.mulVec, sumFin_eq, Fin.sum_univ_three, affMat3, affVec3,
        shearMatrix, triuIndex] <;> ring

/-- `HomogeneousTransform` (`torch.inverse` of `[[A, t], [0, 1]]` when `invert`, i.e. `[A⁻¹ | −A⁻¹t]`), for 2-D and
    3-D grids and any `A` with non-zero determinant. -/
theorem C07_HomogeneousTransform_inverse :
    (∀ (A : Mat 2 K) (t : Vec 2 K), affineDet2 A ≠ 0 →
        InversePair (homogeneousTensor false A t).apply (homogeneousTensor true A t).apply) ∧
    (∀ (A : Mat 3 K) (t : Vec 3 K), affineDet3 A ≠ 0 →
        InversePair (homogeneousTensor false A t).apply (homogeneousTensor true A t).apply) := by
  constructor
  · intro A t h
    simp only [homogeneousTensor, Bool.false_eq_true, if_false, if_true, matInv]
    exact hom_inversePair t (matInv2_mul A h) (mul_matInv2 A h)
  · intro A t h
    simp only [homogeneousTensor, Bool.false_eq_true, if_false, if_true, matInv]
    exact hom_inversePair t (matInv3_mul A h) (mul_matInv3 A h)

/-- the same with Mathlib's determinant: `IsUnit (det A)` is all that is needed. -/
theorem C07_HomogeneousTransform_inverse_det :
    (∀ (A : Mat 2 K) (t : Vec 2 K), IsUnit (toM A).det →
        InversePair (homogeneousTensor false A t).apply (homogeneousTensor true A t).apply) ∧
    (∀ (A : Mat 3 K) (t : Vec 3 K), IsUnit (toM A).det →
        InversePair (homogeneousTensor false A t).apply (homogeneousTensor true A t).apply) := by
  constructor
  · intro A t h
    apply C07_HomogeneousTransform_inverse.1 A t
    have : affineDet2 A = (toM A).det := by rw [Matrix.det_fin_two]; simp [affineDet2]
    rw [this]; exact h.ne_zero
  · intro A t h
    apply C07_HomogeneousTransform_inverse.2 A t
    rw [affineDet3_eq]; exact h.ne_zero

/-- `inverse()` flips the flag and shares the parameter map: inverting twice gives back the transform, and for an
    invertible class `tensor()` and `inverse().tensor()` undo each other whatever the current flag is. -/
theorem C07_inverse_flag_involutive (t : ParamTransform d K) :
    t.inverse.inverse = t ∧ t.inverse.tensorOf = t.tensorOf ∧
    (t.Invertible → InversePair t.tensor.apply t.inverse.tensor.apply) := by
  refine ⟨?_, rfl, ParamTransform.inverse_pair⟩
  cases t with
  | mk f i => simp [ParamTransform.inverse]

/-- `SequentialTransform.inverse()` (members reversed, each inverted) inverts the composite, in both orders, for
    member lists of **any length** (induction over the list) and whatever flags the members already carry. -/
theorem C07_sequential_inverse (ts : List (ParamTransform d K)) (h : ∀ t ∈ ts, t.Invertible) :
    InversePair (seqTensor (ts.map ParamTransform.tensor)).apply
      (seqTensor ((seqInverse ts).map ParamTransform.tensor)).apply ∧
    (seqInverse ts).length = ts.length ∧ seqInverse (seqInverse ts) = ts := by
  refine ⟨seqTensor_inverse ts h, by simp [seqInverse], ?_⟩
  have hinv : (ParamTransform.inverse ∘ ParamTransform.inverse : ParamTransform d K → ParamTransform d K) = id := by
    funext t; exact (C07_inverse_flag_involutive t).1
  simp only [seqInverse, List.map_reverse, List.reverse_reverse, List.map_map, hinv, List.map_id]

/-- the same for arbitrary (also non-linear) members given as maps with their inverses — e.g. a composite holding
    a velocity-field member: reversed order, each member inverted. -/
theorem C07_sequential_inverse_maps (ps : List ((Vec d K → Vec d K) × (Vec d K → Vec d K)))
    (h : ∀ p ∈ ps, InversePair p.1 p.2) :
    InversePair (fun x => ps.foldl (fun y p => p.1 y) x) (fun x => ps.reverse.foldl (fun y p => p.2 y) x) :=
  seq_inverse_maps ps h

end algebra

section quaternion
variable {K : Type} [Field K] [LinearOrder K] [IsStrictOrderedRing K]

/-- `QuaternionRotation` (transpose when `invert`) for any non-zero quaternion (`tensor()` normalises; `n = ‖q‖`). -/
theorem C07_QuaternionRotation_inverse (q : Vec 4 K) (n eps : K)
    (hn : n * n = q 0 * q 0 + q 1 * q 1 + q 2 * q 2 + q 3 * q 3) (hpos : 0 < n) (heps : eps ≤ n) :
    InversePair (quaternionTensor false q n eps).apply (quaternionTensor true q n eps).apply := by
  have hu := quatNormalize_unit q n eps hn hpos heps
  simp only [quaternionTensor, invertRotation, Bool.false_eq_true, if_false, if_true, quaternionToRotationMatrix]
  exact aff_inversePair (quatN_orth' _ hu) (quatN_orth _ hu)

/-! ## Velocity-field models: second-order accuracy for diagonal generators -/

/-- the full clause: for a smooth stationary velocity field the composition of the scaled-and-squared forward and
    backward maps deviates from the identity by a second-order term in the displacement amplitude.  Not provable in
    this model (needs analysis of smooth fields); kept as the statement the partial theorem is a special case of. -/
def C07_svf_second_order_Statement : Prop :=
  ∀ (ac : Bool) (n : Fin 1 → Nat) (v : VField 1 ℚ) (k : Nat), ∃ C : ℚ, ∀ idx, InBox n idx →
    |(composeFlows ac n (expv ac .border n 1 false k v) (expv ac .border n 1 true k v) idx) 0|
      ≤ C * (|(v idx) 0| * |(v idx) 0|)

/-- **partial** (diagonal generators): a velocity field `v(x) = a ⊙ x` is integrated by `k` squaring steps to the map
    `x ↦ (1 + aᵢ/2ᵏ)^(2ᵏ) xᵢ` and its negation to `x ↦ (1 − aᵢ/2ᵏ)^(2ᵏ) xᵢ` (exactly — `C11_closed_form`); applying one
    after the other in either order moves `xᵢ` by the factor `((1 − h)(1 + h))^(2ᵏ)` with `h = aᵢ/2ᵏ`, which differs
    from 1 by at most `2ᵏ h² = aᵢ²/2ᵏ`: second order in the amplitude, and halved by every additional step. -/
theorem C07_svf_affine_second_order_partial (a : K) (k : Nat) (x : K)
    (hsmall : (a / 2 ^ k) * (a / 2 ^ k) ≤ 1) :
    let h := a / 2 ^ k
    ((affMap (Mat.diag (fun _ : Fin 1 => 1 - h)) (fun _ => 0))^[2 ^ k]
        (((affMap (Mat.diag (fun _ : Fin 1 => 1 + h)) (fun _ => 0))^[2 ^ k]) (fun _ => x))) 0
      = ((1 - h) * (1 + h)) ^ (2 ^ k) * x ∧
    |((1 - h) * (1 + h)) ^ (2 ^ k) * x - x| ≤ a * a / 2 ^ k * |x| := by
  intro h
  have hit : ∀ (m : K) (N : Nat) (y : Vec 1 K),
      ((affMap (Mat.diag (fun _ : Fin 1 => m)) (fun _ => 0))^[N] y) 0 = m ^ N * y 0 := by
    intro m N
    induction N with
    | zero => intro y; simp
    | succ N ih =>
        intro y
        rw [Function.iterate_succ, Function.comp, ih]
        simp only [affMap, vadd_eq, Pi.add_apply, diag_mulVec]
        ring
  constructor
  · rw [hit, hit, mul_pow]; ring
  · have hy : (1 - h) * (1 + h) = 1 - h * h := by ring
    have h0 : 0 ≤ h * h := mul_self_nonneg h
    have hle : (1 - h * h) ^ (2 ^ k) ≤ 1 := pow_le_one₀ (by linarith) (by linarith)
    have hge : 1 - (2 ^ k : K) * (h * h) ≤ (1 - h * h) ^ (2 ^ k) := by
      have := one_add_mul_le_pow (show (-2 : K) ≤ -(h * h) by linarith) (2 ^ k)
      have e : (1 : K) + ((2 ^ k : Nat) : K) * -(h * h) = 1 - (2 ^ k : K) * (h * h) := by push_cast; ring
      have e2 : (1 + -(h * h)) = 1 - h * h := by ring
      rw [e, e2] at this
      exact this
    have hk : (0 : K) < 2 ^ k := by positivity
    have hb : (2 ^ k : K) * (h * h) = a * a / 2 ^ k := by
      simp only [h]; field_simp
    rw [hy]
    have : (1 - h * h) ^ (2 ^ k) * x - x = ((1 - h * h) ^ (2 ^ k) - 1) * x := by ring
    rw [this, abs_mul]
    apply mul_le_mul_of_nonneg_right _ (abs_nonneg x)
    rw [abs_le]
    constructor <;> linarith

end quaternion

/-! ## Non-vacuity -/

/-- `c = 3/5, s = 4/5` is a rotation; `q = (1/2, 1/2, 1/2, 1/2)` a unit quaternion (`n = 1`); the shear with
    `tan = (1, 2, 3)` has the stated inverse; a concrete invertible 2×2 matrix. -/
example : ((3 : ℚ) / 5) * (3 / 5) + (4 / 5) * (4 / 5) = 1 ∧
    (1 : ℚ) * 1 = (1 / 2) * (1 / 2) + (1 / 2) * (1 / 2) + (1 / 2) * (1 / 2) + (1 / 2) * (1 / 2) ∧
    affineDet2 (affMat2 (affVec2 (2 : ℚ) 1) (affVec2 0 1)) ≠ 0 := by
  refine ⟨by norm_num, by norm_num, ?_⟩
  simp [affineDet2, affMat2, affVec2]

/-- a concrete rigid transform and its inverse obtained through `SequentialTransform.inverse`: members
    `[rotation(3/5, 4/5), translation(1, 2)]`; the inverse composite maps `(8/5, 14/5)` back to `(1, 0)`. -/
example : (seqTensor ((seqInverse [⟨fun i => eulerTensor2 i ((3 : ℚ) / 5) (4 / 5), false⟩,
      ⟨fun i => translationTensor i (affVec2 1 2), false⟩]).map ParamTransform.tensor)).apply (affVec2 (8 / 5) (14 / 5)) 0 = 1 := by
  simp [seqInverse, ParamTransform.inverse, ParamTransform.tensor, seqTensor, eulerTensor2, translationTensor,
    translationH, invertRotation, eulerRotationMatrix2, H.matmul, H.apply, Mat.mulVec, Mat.transpose, sumFin, Vec.add,
    Vec.neg, affMat2, affVec2]
  norm_num

example : ((1 : ℚ) / 4 / 2 ^ 2) * (1 / 4 / 2 ^ 2) ≤ 1 := by norm_num

end Deepali
