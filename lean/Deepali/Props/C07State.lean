/-
  Props/C07State.lean — the state-machine clause of property C07 (`C07_shared_params`): forward and
  inverse transform keep reading the same parameters. Model: Model/TransformState.lean (shared with
  C09); helper lemmas: Proofs/TransformStateShare.lean.

  OBLIGATIONS: C07_shared_params C07_inverse_succeeds

  History: on the code before the repairs 3110eb9 / 20bab42 the clause was refuted (F-07:
  `inverse(link=True)` / `.inv` raised TypeError for `nn.Parameter` params); the model follows the
  repaired code and the clause is now proved in full.
-/
import Deepali.Proofs.TransformStateShare

set_option linter.unusedSectionVars false
set_option linter.unusedVariables false

namespace Deepali
open TState

/-- conclusion of the clause for a forward transform of class `cls` constructed with params kind
    `k` in world `w`, inverted with `(link, update_buffers)`, then subjected to `edits`:
    `inverse` succeeds, and a call of the forward followed by a call of the inverse read the same
    parameter content with opposite inversion flags (or both raise: nothing is held). -/
def SharedParamsHolds (w : World) (cls : Cls) (k : Kind) (v g : Nat) (link ub : Bool) (edits : List Edit) : Prop :=
  ∃ w1 i, step (step w (.mk cls k v g)).1 (.inverse w.nObj link ub) = (w1, .new i) ∧
    sharedAgree (step (run w1 (edits.map (Edit.toOp w.nObj i))) (.call w.nObj)).2
      (step (step (run w1 (edits.map (Edit.toOp w.nObj i))) (.call w.nObj)).1 (.call i)).2

/-- full clause: after ANY sequence (unbounded) of in-place parameter edits on either transform,
    evaluations, and — when linked (I-2) — `data_` replacement on the forward, forward and inverse
    read the same parameter version; for every invertible class, EVERY params kind (none,
    `nn.Parameter`, buffer, function, module), `link`, `update_buffers`, from every well-formed world. -/
theorem C07_shared_params (w : World) (hw : WF w) (cls : Cls) (hc : cls.invertible = true)
    (k : Kind) (v g : Nat) (link ub : Bool)
    (edits : List Edit) (ha : ∀ e ∈ edits, e.allowed link = true) :
    SharedParamsHolds w cls k v g link ub edits := by
  obtain ⟨w0, oF, hmk, hw0, hn0, hoF, hcls, hnl, _⟩ := mk_post hw (invertible_not_composite hc) k v g
  have hstep0 : (step w (.mk cls k v g)).1 = w0 := by rw [hmk]
  obtain ⟨w1, hinv, hsh⟩ := inverse_post hw0 hoF (by rw [hn0]; exact Nat.ne_of_lt (Nat.lt_succ_self _))
    (by rw [hcls]; exact hc) hnl link ub
  refine ⟨w1, w0.nObj, by rw [hstep0]; exact hinv, ?_⟩
  exact (hsh.run edits ha).agree

/-- in particular `inverse(link, update_buffers)` / `.inv` of a freshly constructed invertible
    transform never raises (the former F-07), whatever its params kind. -/
theorem C07_inverse_succeeds (w : World) (hw : WF w) (cls : Cls) (hc : cls.invertible = true)
    (k : Kind) (v g : Nat) (link ub : Bool) :
    ∃ w1 i, step (step w (.mk cls k v g)).1 (.inverse w.nObj link ub) = (w1, .new i) := by
  obtain ⟨w1, i, h, _⟩ := C07_shared_params w hw cls hc k v g link ub [] (fun _ he => by cases he)
  exact ⟨w1, i, h⟩

/-- non-vacuity for the default kind (`nn.Parameter`) with `link = True`: in-place edits on the
    forward and a `data_` replacement are both seen by the linked inverse. -/
example : (runOuts World.empty
    [.mk (.svf true) .param 3 0, .inverse 0 true true, .inplace 0 7, .call 0, .call 1, .data_ 0 8, .call 0, .call 1]).2
    = [.new 0, .new 1, .ok, .obs [⟨.lit 7, 0, false⟩], .obs [⟨.lit 7, 0, true⟩], .ok,
       .obs [⟨.lit 8, 0, false⟩], .obs [⟨.lit 8, 0, true⟩]] := by
  decide

/-- non-vacuity (linked, buffer-held params): data replaced on the forward, edited in place, the
    inverse then reads version 9 with the opposite flag. -/
example : (runOuts World.empty
    [.mk .svffd .buffer 3 0, .inverse 0 true true, .data_ 0 8, .inplace 0 9, .call 0, .call 1]).2
    = [.new 0, .new 1, .ok, .ok, .obs [⟨.lit 9, 0, false⟩], .obs [⟨.lit 9, 0, true⟩]] := by
  decide

/-- I-10 (modelled, not a violation): a linked inverse called BEFORE the forward still uses the
    prediction the forward last evaluated (condition 0), afterwards the new one (condition 2). -/
example : (runOuts World.empty
    [.mk (.svf false) (.fn 1) 0 0, .call 0, .inverse 0 true false, .condition_ 0 2, .call 1, .call 0, .call 1]).2
    = [.new 0, .obs [⟨.pred 1 0, 0, false⟩], .new 1, .ok, .obs [⟨.pred 1 0, 0, true⟩],
       .obs [⟨.pred 1 2, 0, false⟩], .obs [⟨.pred 1 2, 0, true⟩]] := by
  decide

end Deepali
