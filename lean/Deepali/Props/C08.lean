/-
  Props/C08.lean — property C08: homogeneous-transform and rotation algebra is exact for every
  operand form.  Only property theorems and non-vacuity examples live here; helper lemmas are in
  Deepali/Proofs/{HomogLaws,AffineEuler,AffineOrder,AffineKornia,AffineBroadcast}.lean.

  OBLIGATIONS: C08_hmatmul C08_hmatmul_vectors C08_hmatmul_toHom C08_hmm C08_n_ary C08_n_ary_vectors
    C08_as_matrix_same_map C08_homogeneous_matrix_offset C08_vectors_ignore_translation
    C08_euler_product C08_euler_product_matrix C08_euler_homogeneous C08_euler_2d
    C08_order_normalise C08_order_rejects
    C08_euler_orthogonal C08_euler_det_one C08_euler_invert_is_inverse
    C08_broadcast C08_broadcast_shapes C08_broadcast_nary C08_transform_broadcast
    C08_as_matrix_batched C08_hmm_batched
    C08_quat_matrix C08_quat_matrix_normalised C08_quat_sign
    C08_angleaxis_quat_matrix C08_matrix_quat_roundtrip
    C08_euler_angles_roundtrip C08_euler_angles_roundtrip_pos C08_euler_angles_2d
    C08_scaling_shear C08_scaling_matrix C08_shear_matrix C08_translation
-/
import Deepali.Proofs.HomogLaws
import Deepali.Proofs.AffineEuler
import Deepali.Proofs.AffineOrder
import Deepali.Proofs.AffineKornia
import Deepali.Proofs.AffineBroadcast
import Mathlib.Tactic.NormNum
import Mathlib.Tactic.FieldSimp
import Mathlib.Tactic.Linarith

set_option linter.unusedSectionVars false
set_option linter.unusedSimpArgs false
set_option linter.unnecessarySeqFocus false
set_option linter.unreachableTactic false
set_option linter.unusedTactic false

namespace Deepali
open Matrix

section algebra
variable {K : Type} [Field K] {d : Nat}

/-! ## Composition of the three operand forms -/

/-- all 9 ordered form pairs: transforming by the composite = transforming by `b`, then by `a`. -/
theorem C08_hmatmul (a b : H d K) (x : Vec d K) : (a.matmul b).apply x = a.apply (b.apply x) :=
  matmul_apply a b x

/-- … and for vectors. -/
theorem C08_hmatmul_vectors (a b : H d K) (v : Vec d K) :
    (a.matmul b).applyVec v = a.applyVec (b.applyVec v) :=
  matmul_applyVec a b v

/-- as full matrices: `[A|s] ∘ [B|t] = [A·B | A·t + s]`, for all 9 pairs. -/
theorem C08_hmatmul_toHom (a b : H d K) :
    (a.matmul b).toHom = (a.toHom.1.mul b.toHom.1, (a.toHom.1.mulVec b.toHom.2).add a.toHom.2) := by
  have hone : ∀ A : Mat d K, (Mat.one : Mat d K).mul A = A := fun A => by
    have : toM ((Mat.one : Mat d K).mul A) = toM A := by rw [mmul_eq, one_eq, Matrix.one_mul]
    exact this
  have mone : ∀ A : Mat d K, A.mul (Mat.one : Mat d K) = A := fun A => by
    have : toM (A.mul (Mat.one : Mat d K)) = toM A := by rw [mmul_eq, one_eq, Matrix.mul_one]
    exact this
  have z0 : ∀ A : Mat d K, A.mulVec (fun _ => ((0 : Nat) : K)) = fun _ => 0 := fun A => by
    rw [mulVec_eq]; funext i; simp [Matrix.mulVec, dotProduct]
  cases a <;> cases b <;>
    simp only [H.matmul, H.toHom, hone, mone, one_mulVec, z0, Prod.mk.injEq, true_and, and_true] <;>
    first
    | rfl
    | (funext i; simp [Vec.add]; try ring)
    | (refine ⟨?_, ?_⟩ <;> first | rfl | (funext i; simp [Vec.add]; try ring))

/-- `hmm(a, b)` is the composite as a full `(D, D+1)` matrix. -/
theorem C08_hmm (a b : H d K) (x v : Vec d K) :
    (a.hmm b).apply x = a.apply (b.apply x) ∧ (a.hmm b).applyVec v = a.applyVec (b.applyVec v) ∧
    (a.hmm b).kind = .homogeneous :=
  ⟨hmm_apply a b x, hmm_applyVec a b v, rfl⟩

/-- `homogeneous_matmul(*args)`: first argument applied last, any number of arguments. -/
theorem C08_n_ary (a : H d K) (bs : List (H d K)) (x : Vec d K) :
    (H.matmulN a bs).apply x = a.apply (bs.foldr (fun b y => b.apply y) x) :=
  matmulN_apply a bs x

theorem C08_n_ary_vectors (a : H d K) (bs : List (H d K)) (v : Vec d K) :
    (H.matmulN a bs).applyVec v = a.applyVec (bs.foldr (fun b y => b.applyVec y) v) := by
  induction bs generalizing a with
  | nil => rfl
  | cons b bs ih => simp only [H.matmulN, ih, matmul_applyVec, List.foldr]

/-- converting any form to a full matrix does not change the map (points and vectors). -/
theorem C08_as_matrix_same_map (a : H d K) (x : Vec d K) :
    (H.hom a.toHom.1 a.toHom.2).apply x = a.apply x ∧ (H.hom a.toHom.1 a.toHom.2).applyVec x = a.applyVec x :=
  ⟨toHom_apply a x, toHom_applyVec a x⟩

/-- `homogeneous_matrix(tensor, offset)` adds exactly the offset. -/
theorem C08_homogeneous_matrix_offset (a : H d K) (t x : Vec d K) :
    (a.homogeneousMatrix t).apply x = a.apply x + t ∧ (a.homogeneousMatrix t).applyVec x = a.applyVec x :=
  ⟨homogeneousMatrix_apply a t x, homogeneousMatrix_applyVec a t x⟩

/-- applying a transformation to vectors ignores exactly its translation: it is the difference of
    the point map, and it does not depend on the translation part at all. -/
theorem C08_vectors_ignore_translation (a : H d K) (A : Mat d K) (t t' x v : Vec d K) :
    a.applyVec v = a.apply (x + v) - a.apply x ∧
    (H.hom A t).applyVec v = (H.hom A t').applyVec v ∧ (H.hom A t).applyVec v = (H.aff A).applyVec v ∧
    (H.trans t).applyVec v = v :=
  ⟨applyVec_eq_sub a x v, rfl, rfl, rfl⟩

/-! ## Euler angles -/

/-- **all 27 order triples** (hence the 12 proper / Tait-Bryan ones), any batch element: the matrix
    `euler_rotation_matrix` builds is the product of the elementary rotations in the stated order
    (five hard-coded closed forms and the generic fallback). -/
theorem C08_euler_product (a b c : Axis) (cs sn : Vec 3 K) :
    eulerRotationMatrix3 (orderName a b c) cs sn
      = .ok (((a.rot (cs 0) (sn 0)).mul (b.rot (cs 1) (sn 1))).mul (c.rot (cs 2) (sn 2))) :=
  eulerRotationMatrix3_eq a b c cs sn

/-- the same with Mathlib's matrix product. -/
theorem C08_euler_product_matrix (a b c : Axis) (cs sn : Vec 3 K) (m : Mat 3 K)
    (h : eulerRotationMatrix3 (orderName a b c) cs sn = .ok m) :
    toM m = toM (a.rot (cs 0) (sn 0)) * toM (b.rot (cs 1) (sn 1)) * toM (c.rot (cs 2) (sn 2)) := by
  rw [C08_euler_product] at h
  simp only [Except.ok.injEq] at h
  rw [← h, mmul_eq, mmul_eq]

/-- either value of the `homogeneous` flag gives the same map (a zero translation column). -/
theorem C08_euler_homogeneous {d : Nat} (hg : Bool) (m : Mat d K) (x : Vec d K) :
    (asRotationH hg m).apply x = m.mulVec x ∧ (asRotationH hg m).applyVec x = m.mulVec x := by
  cases hg <;> simp [asRotationH, H.apply, H.applyVec, vadd_eq] <;> (funext i; simp)

/-- 2-D: `[[c, −s], [s, c]]`, a proper rotation. -/
theorem C08_euler_2d (c s : K) (h : c * c + s * s = 1) :
    (eulerRotationMatrix2 c s).mul (eulerRotationMatrix2 c s).transpose = Mat.one ∧
    affineDet2 (eulerRotationMatrix2 c s) = 1 ∧
    eulerRotationMatrix2 c s 0 0 = c ∧ eulerRotationMatrix2 c s 0 1 = -s ∧
    eulerRotationMatrix2 c s 1 0 = s ∧ eulerRotationMatrix2 c s 1 1 = c :=
  ⟨euler2_orth c s h, euler2_det c s h, rfl, rfl, rfl, rfl⟩

/-- Euler matrices are orthogonal … -/
theorem C08_euler_orthogonal (a b c : Axis) (cs sn : Vec 3 K) (m : Mat 3 K)
    (hu : ∀ i, cs i * cs i + sn i * sn i = 1)
    (h : eulerRotationMatrix3 (orderName a b c) cs sn = .ok m) :
    m.mul m.transpose = Mat.one ∧ m.transpose.mul m = Mat.one := by
  have key := eulerRotationMatrix3_ok a b c cs sn m h
  subst key
  exact ⟨eulerProduct_orth a b c cs sn hu, eulerProduct_orth' a b c cs sn hu⟩

/-- … with determinant one. -/
theorem C08_euler_det_one (a b c : Axis) (cs sn : Vec 3 K) (m : Mat 3 K)
    (hu : ∀ i, cs i * cs i + sn i * sn i = 1)
    (h : eulerRotationMatrix3 (orderName a b c) cs sn = .ok m) : affineDet3 m = 1 := by
  have key := eulerRotationMatrix3_ok a b c cs sn m h
  subst key
  exact eulerProduct_det a b c cs sn hu

/-- `EulerRotation.tensor()` with `invert=True` (transpose) is the inverse map. -/
theorem C08_euler_invert_is_inverse (a b c : Axis) (cs sn : Vec 3 K) (m : Mat 3 K) (x : Vec 3 K)
    (hu : ∀ i, cs i * cs i + sn i * sn i = 1)
    (h : eulerRotationMatrix3 (orderName a b c) cs sn = .ok m) :
    (invertRotation true m).mulVec (m.mulVec x) = x := by
  have ho := (C08_euler_orthogonal a b c cs sn m hu h).2
  simp only [invertRotation, if_true]
  rw [← mul_mulVec, ho, one_mulVec]

end algebra

/-! ### order strings -/

/-- **both notations parse to the same triple**, all 27 triples: `"XYZ"`, `"xyz"`, `"Rx o Ry o Rz"` and
    `"X o Y o Z"`; `None` means ZXZ; 2-D is always `Z`. -/
theorem C08_order_normalise (a b c : Axis) :
    eulerRotationOrder (some (orderName a b c)) 3 = .ok (orderName a b c) ∧
    eulerRotationOrder (some (orderNameLower a b c)) 3 = .ok (orderName a b c) ∧
    eulerRotationOrder (some (orderNotation a b c)) 3 = .ok (orderName a b c) ∧
    eulerRotationOrder (some (orderNotationUpper a b c)) 3 = .ok (orderName a b c) ∧
    eulerRotationOrder none 3 = .ok (orderName .Z .X .Z) ∧
    (∀ arg, eulerRotationOrder arg 2 = .ok ['Z']) :=
  ⟨order_upper a b c, order_lower a b c, order_notation a b c, order_notation_upper a b c, rfl, fun _ => rfl⟩

/-- rejection: whatever is returned for `ndim = 3` is one of the 27 triples (possibly followed by the
    single newline Python's `$` tolerates); concrete malformed strings are rejected. -/
theorem C08_order_rejects :
    (∀ arg o, eulerRotationOrder arg 3 = .ok o →
        ∃ a b c : Axis, o = orderName a b c ∨ o = orderName a b c ++ ['\n']) ∧
    eulerRotationOrder (some "XY".toList) 3 = .error "err:value" ∧
    eulerRotationOrder (some "XYZW".toList) 3 = .error "err:value" ∧
    eulerRotationOrder (some "ABC".toList) 3 = .error "err:value" ∧
    eulerRotationOrder (some "RX o RY o RZ".toList) 3 = .error "err:value" ∧
    eulerRotationOrder (some "Rx oRy o Rz".toList) 3 = .error "err:value" ∧
    eulerRotationOrder (some "".toList) 3 = .error "err:value" ∧
    eulerRotationOrder (some "Rx o Ry".toList) 3 = .error "err:value" ∧
    eulerRotationOrder (some "Rx o Ry o Rz o Rx".toList) 3 = .error "err:value" ∧
    eulerRotationOrder (some "X".toList) 3 = .error "err:value" ∧
    (∀ arg, eulerRotationOrder arg 4 = .error "err:notimpl") :=
  ⟨fun _ _ h => order_sound h, by decide, by decide, by decide, by decide,
    by decide, by decide, by decide, by decide, by decide, fun _ => rfl⟩

/-! ## Batches: leading-shape broadcasting -/

section batches
variable {K : Type} [Field K] {d : Nat}

/-- one step of `homogeneous_matmul` on batches: the leading shape is the one `bcLeading` computes
    (one of the operands' shapes), the operand form follows the 3×3 table, and **element-wise**
    the result is the composition of the matching (or the single, repeated) elements. -/
theorem C08_broadcast {a b c : HB d K} (h : a.matmul b = .ok c) :
    bcLeading a.lead b.lead = .ok c.lead ∧ (c.lead = a.lead ∨ c.lead = b.lead) ∧
    c.kind = a.kind.matmul b.kind ∧
    ∀ i x, (c.elem i).apply x
        = (a.elem (bcPick (hbcNumel a.lead) i)).apply ((b.elem (bcPick (hbcNumel b.lead) i)).apply x) ∧
      (c.elem i).applyVec x
        = (a.elem (bcPick (hbcNumel a.lead) i)).applyVec ((b.elem (bcPick (hbcNumel b.lead) i)).applyVec x) := by
  refine ⟨HB_matmul_lead h, bcLeading_cases (HB_matmul_lead h), HB_matmul_kind h, fun i x => ?_⟩
  rw [HB_matmul_elem h i]
  exact ⟨matmul_apply _ _ x, matmul_applyVec _ _ x⟩

/-- batch shapes (none, 1, N) on either side: all nine combinations are accepted with the expected
    result shape; different batch sizes are rejected. -/
theorem C08_broadcast_shapes (n m : Nat) (hn : 1 < n) (hm : 1 < m) (hne : n ≠ m) :
    bcLeading [] [] = .ok [] ∧ bcLeading [] [1] = .ok [1] ∧ bcLeading [1] [] = .ok [1] ∧
    bcLeading [1] [1] = .ok [1] ∧ bcLeading [n] [] = .ok [n] ∧ bcLeading [] [n] = .ok [n] ∧
    bcLeading [n] [1] = .ok [n] ∧ bcLeading [1] [n] = .ok [n] ∧ bcLeading [n] [n] = .ok [n] ∧
    bcLeading [n] [m] = .error "err:value" := by
  obtain ⟨h1, h2, h3, h4, h5, h6, h7, h8, h9⟩ := bcLeading_table n hn
  exact ⟨h1, h2, h3, h4, h5, h6, h7, h8, h9, bcLeading_mismatch n m hn hm hne⟩

/-- n-ary batched composition: whenever it returns, every element of the result applies the picked
    elements of the arguments one after the other (last argument first). -/
theorem C08_broadcast_nary (bs : List (HB d K)) :
    ∀ (a c : HB d K), HB.matmulN a bs = .ok c →
      ∀ i, ∃ (e0 : H d K) (es : List (H d K)), (∃ j, e0 = a.elem j) ∧ es.length = bs.length ∧
        ∀ x, (c.elem i).apply x = e0.apply (es.foldr (fun b y => b.apply y) x) := by
  induction bs with
  | nil =>
    intro a c h i
    simp only [HB.matmulN, Except.ok.injEq] at h
    subst h
    exact ⟨a.elem i, [], ⟨i, rfl⟩, rfl, fun x => rfl⟩
  | cons b bs ih =>
    intro a c h i
    simp only [HB.matmulN, bind, Except.bind] at h
    cases hab : a.matmul b with
    | error e => simp [hab] at h
    | ok ab =>
      simp only [hab] at h
      obtain ⟨e0, es, ⟨j, he0⟩, hlen, hx⟩ := ih ab c h i
      refine ⟨a.elem (bcPick (hbcNumel a.lead) j), b.elem (bcPick (hbcNumel b.lead) j) :: es, ⟨_, rfl⟩, by simp [hlen], ?_⟩
      intro x
      rw [hx x, he0, HB_matmul_elem hab j, matmul_apply]
      rfl

/-- `homogeneous_transform` on a batch of `n` transforms and a points tensor: output shape as
    `transformOutShape` computes it; output row `k` is the picked transform applied to the picked
    input row; with `vectors=True` only the linear part is applied. -/
theorem C08_transform_broadcast {n : Nat} {elem : Nat → H d K} {vectors : Bool} {pshape : List Nat}
    {pts : Nat → Vec d K} {out : List Nat} {rows : Nat → Vec d K}
    (h : homogeneousTransformB n elem vectors pshape pts = .ok (out, rows)) (k : Nat) :
    rows k = (if vectors then (elem (transformPick n pshape k).1).applyVec (pts (transformPick n pshape k).2)
              else (elem (transformPick n pshape k).1).apply (pts (transformPick n pshape k).2)) :=
  (homogeneousTransformB_rows h k).1

/-- `as_homogeneous_matrix` on a batch of **any leading shape** and any operand form: same leading
    shape, `(D, D+1)` form, and every element is the same map (points and vectors). -/
theorem C08_as_matrix_batched (a : HB d K) (i : Nat) (x : Vec d K) :
    (a.asMatrix.elem i).apply x = (a.elem i).apply x ∧ (a.asMatrix.elem i).applyVec x = (a.elem i).applyVec x ∧
    a.asMatrix.lead = a.lead ∧ a.asMatrix.kind = .homogeneous :=
  ⟨HB_asMatrix_apply a i x, HB_asMatrix_applyVec a i x, rfl, rfl⟩

/-- `hmm` on batches: succeeds exactly when `homogeneous_matmul` does, and is the composite as full matrices. -/
theorem C08_hmm_batched {a b c : HB d K} (h : a.hmm b = .ok c) :
    bcLeading a.lead b.lead = .ok c.lead ∧ c.kind = .homogeneous ∧
    ∀ i x, (c.elem i).apply x
        = (a.elem (bcPick (hbcNumel a.lead) i)).apply ((b.elem (bcPick (hbcNumel b.lead) i)).apply x) := by
  unfold HB.hmm at h
  cases hab : a.matmul b with
  | error e => simp [hab, bind, Except.bind] at h
  | ok ab =>
    simp only [hab, bind, Except.bind, pure, Except.pure, Except.ok.injEq] at h
    subst h
    refine ⟨(HB_matmul_lead hab : bcLeading a.lead b.lead = .ok ab.lead), rfl, fun i x => ?_⟩
    rw [HB_asMatrix_apply, HB_matmul_elem hab i, matmul_apply]

end batches

/-! ## Quaternions and angle-axis vectors -/

section quaternions
variable {K : Type} [Field K]

/-- a unit quaternion `(w, x, y, z)` gives a proper rotation. -/
theorem C08_quat_matrix (q : Vec 4 K) (h : q 0 * q 0 + q 1 * q 1 + q 2 * q 2 + q 3 * q 3 = 1) :
    (quaternionToRotationMatrixN q).mul (quaternionToRotationMatrixN q).transpose = Mat.one ∧
    (quaternionToRotationMatrixN q).transpose.mul (quaternionToRotationMatrixN q) = Mat.one ∧
    affineDet3 (quaternionToRotationMatrixN q) = 1 :=
  ⟨quatN_orth q h, quatN_orth' q h, quatN_det q h⟩

/-- `q` and `−q` are the same rotation. -/
theorem C08_quat_sign (q : Vec 4 K) :
    quaternionToRotationMatrixN (fun i => - q i) = quaternionToRotationMatrixN q := quatN_neg q

end quaternions

section quaternions_ordered
variable {K : Type} [Field K] [LinearOrder K] [IsStrictOrderedRing K]

/-- `quaternion_to_rotation_matrix` of *any* non-zero quaternion (it normalises first; `n = ‖q‖ ≥ eps`)
    is a proper rotation. -/
theorem C08_quat_matrix_normalised (q : Vec 4 K) (n eps : K)
    (hn : n * n = q 0 * q 0 + q 1 * q 1 + q 2 * q 2 + q 3 * q 3) (hpos : 0 < n) (heps : eps ≤ n) :
    (quaternionToRotationMatrix q n eps).mul (quaternionToRotationMatrix q n eps).transpose = Mat.one ∧
    affineDet3 (quaternionToRotationMatrix q n eps) = 1 := by
  have hu := quatNormalize_unit q n eps hn hpos heps
  exact ⟨quatN_orth _ hu, quatN_det _ hu⟩

/-- angle-axis → quaternion → matrix equals angle-axis → matrix (Rodrigues), given
    `θ² = a·a > 0` and the half-angle identities, for the formula without kornia's `+1e-6`. -/
theorem C08_angleaxis_quat_matrix (a : Vec 3 K) (theta c s sh ch eps2 : K)
    (hθ : theta * theta = a 0 * a 0 + a 1 * a 1 + a 2 * a 2) (hpos : 0 < a 0 * a 0 + a 1 * a 1 + a 2 * a 2)
    (heps : eps2 < a 0 * a 0 + a 1 * a 1 + a 2 * a 2)
    (hh : ch * ch + sh * sh = 1) (hc : c = ch * ch - sh * sh) (hs : s = 2 * sh * ch) :
    quaternionToRotationMatrixN (angleAxisToQuaternion a theta sh ch)
      = angleAxisToRotationMatrix a theta c s 0 eps2 :=
  angleAxis_routes_agree a theta c s sh ch eps2 hθ hpos heps hh hc hs

/-- matrix → quaternion → matrix is the identity on rotation matrices with positive trace
    (verification form: `r 0` is the square root the code takes). -/
theorem C08_matrix_quat_roundtrip (q r : Vec 4 K) (tiny : K)
    (hq : q 0 * q 0 + q 1 * q 1 + q 2 * q 2 + q 3 * q 3 = 1)
    (htr : 0 < quaternionToRotationMatrixN q 0 0 + quaternionToRotationMatrixN q 1 1 + quaternionToRotationMatrixN q 2 2)
    (hr : r 0 * r 0 = quaternionToRotationMatrixN q 0 0 + quaternionToRotationMatrixN q 1 1 + quaternionToRotationMatrixN q 2 2 + 1)
    (hr0 : 0 < r 0) (htiny : tiny ≤ r 0 * 2) :
    quaternionToRotationMatrixN (rotationMatrixToQuaternion (quaternionToRotationMatrixN q) r tiny)
      = quaternionToRotationMatrixN q :=
  rotationMatrixToQuaternion_roundtrip_trace q r tiny hq htr hr hr0 htiny

end quaternions_ordered

/-! ## Euler angles from a matrix -/

section angles
variable {K : Type} [Field K]

/-- round trip in verification form (orders XZX and ZXZ): for the matrix of angles `θ₀ θ₁ θ₂` the
    `(y, x)` pair handed to `atan2` for output index `k ∈ {0, 2}` is `sin θ₁ · (sin θ_k, cos θ_k)` of the
    **same** `k`, and index 1 receives `cos θ₁` for `acos`. -/
theorem C08_euler_angles_roundtrip (cs sn : Vec 3 K) :
    eulerRotationAngles3 ['X', 'Z', 'X'] (eulerXZX cs sn)
      = .ok ⟨(sn 1 * sn 0, sn 1 * cs 0), cs 1, (sn 1 * sn 2, sn 1 * cs 2)⟩ ∧
    eulerRotationAngles3 ['Z', 'X', 'Z'] (eulerZXZ cs sn)
      = .ok ⟨(sn 1 * sn 0, sn 1 * cs 0), cs 1, (sn 1 * sn 2, sn 1 * cs 2)⟩ := by
  constructor <;> simp [eulerRotationAngles3, eulerXZX, eulerZXZ, affMat3, affVec3] <;>
    (refine ⟨?_, ?_⟩ <;> ring)

/-- 2-D: the pair handed to `atan2` is exactly `(sin θ, cos θ)`. -/
theorem C08_euler_angles_2d (c s : K) : eulerRotationAngles2 (eulerRotationMatrix2 c s) = (s, c) := rfl

end angles

section angles_ordered
variable {K : Type} [Field K] [LinearOrder K] [IsStrictOrderedRing K]

/-- … hence for `sin θ₁ > 0` (i.e. `θ₁ ∈ (0, π)`, the range of `acos`) each pair is a *positive*
    multiple of `(sin θ_k, cos θ_k)`, which `atan2` maps back to `θ_k`; this goes through the order
    string of the API (`"XZX"`, `"ZXZ"` / `None`) and the matrix `euler_rotation_matrix` returns. -/
theorem C08_euler_angles_roundtrip_pos (a : Axis) (hX : a = .X ∨ a = .Z) (cs sn : Vec 3 K) (m : Mat 3 K)
    (hs : 0 < sn 1)
    (hm : eulerRotationMatrix3 (orderName a (if a = .X then .Z else .X) a) cs sn = .ok m) :
    ∃ (r : EulerAngleArgs K) (l : K), 0 < l ∧
      eulerRotationAngles3 (orderName a (if a = .X then .Z else .X) a) m = .ok r ∧
      r.a0 = (l * sn 0, l * cs 0) ∧ r.a1 = cs 1 ∧ r.a2 = (l * sn 2, l * cs 2) := by
  rcases hX with rfl | rfl
  · have : m = eulerXZX cs sn := by
      simpa [eulerRotationMatrix3, orderName, Axis.char] using hm.symm
    subst this
    exact ⟨_, sn 1, hs, (C08_euler_angles_roundtrip cs sn).1, rfl, rfl, rfl⟩
  · have : m = eulerZXZ cs sn := by
      simpa [eulerRotationMatrix3, orderName, Axis.char] using hm.symm
    subst this
    exact ⟨_, sn 1, hs, (C08_euler_angles_roundtrip cs sn).2, rfl, rfl, rfl⟩

end angles_ordered

/-! ## Scaling, shearing, translation and the parameter getters/setters -/

section elementary
variable {K : Type} [Field K] {d : Nat}

/-- the polynomial parts of the getters/setters invert each other: what `angles_`/`scales_` feed to
    `atanh` resp. store is mapped back by `angles()`/`scales()` (given `tanh ∘ atanh = id`). -/
theorem C08_scaling_shear (x pi : K) (hpi : pi ≠ 0) (h4 : (4 : K) ≠ 0) :
    eulerAnglesGet (eulerAnglesSetArg x pi) pi = x ∧ eulerAnglesSetArg (eulerAnglesGet x pi) pi = x ∧
    shearAnglesGet (shearAnglesSetArg x pi) pi = x ∧ shearAnglesSetArg (shearAnglesGet x pi) pi = x ∧
    scalesGetArg (scalesSetParam x) = x ∧ scalesSetParam (scalesGetArg x) = x := by
  refine ⟨?_, ?_, ?_, ?_, ?_, ?_⟩ <;>
    simp only [eulerAnglesGet, eulerAnglesSetArg, shearAnglesGet, shearAnglesSetArg, scalesGetArg, scalesSetParam,
      Nat.cast_ofNat, Nat.cast_one]
  · field_simp
  · field_simp
  · field_simp
  · field_simp
  · ring
  · ring

/-- `scaling_transform` scales each coordinate; scaling by `1/s` undoes scaling by `s`. -/
theorem C08_scaling_matrix (s x : Vec d K) (hs : ∀ i, s i ≠ 0) :
    (∀ i, (scalingTransform s).mulVec x i = s i * x i) ∧
    (scalingTransform (fun i => 1 / s i)).mulVec ((scalingTransform s).mulVec x) = x := by
  refine ⟨fun i => diag_mulVec s x i, ?_⟩
  funext i
  simp only [scalingTransform]
  rw [diag_mulVec, diag_mulVec]
  have := hs i
  field_simp

/-- `shear_matrix` in 2-D and 3-D: unit upper triangular with `tan` of the angles in row-major order. -/
theorem C08_shear_matrix (t : Nat → K) (x : Vec 2 K) (y : Vec 3 K) :
    (shearMatrix (d := 2) t).mulVec x = affVec2 (x 0 + t 0 * x 1) (x 1) ∧
    (shearMatrix (d := 3) t).mulVec y = affVec3 (y 0 + t 0 * y 1 + t 1 * y 2) (y 1 + t 2 * y 2) (y 2) := by
  constructor
  · funext i
    fin_cases i <;> simp [Mat.mulVec, sumFin_eq, Fin.sum_univ_two, shearMatrix, triuIndex, affVec2]
  · funext i
    fin_cases i <;> simp [Mat.mulVec, sumFin_eq, Fin.sum_univ_three, shearMatrix, triuIndex, affVec3] <;> ring

/-- `translation(offset)` in either representation adds the offset; vectors are unchanged. -/
theorem C08_translation (t x : Vec d K) (hg : Bool) :
    (translationH t hg).apply x = x + t ∧ (translationH t hg).applyVec x = x := by
  cases hg <;> simp [translationH, H.apply, H.applyVec, one_mulVec, vadd_eq]

end elementary

/-! ## Non-vacuity -/

/-- `c = 3/5, s = 4/5` satisfies `c² + s² = 1`; a concrete generic-order matrix is computed and is a
    rotation different from the identity. -/
example : ∃ (cs sn : Vec 3 ℚ) (m : Mat 3 ℚ), (∀ i, cs i * cs i + sn i * sn i = 1) ∧
    eulerRotationMatrix3 (orderName .Y .Z .X) cs sn = .ok m ∧ affineDet3 m = 1 := by
  have hu : ∀ i : Fin 3, (fun _ : Fin 3 => (3:ℚ)/5) i * (fun _ : Fin 3 => (3:ℚ)/5) i
      + (fun _ : Fin 3 => (4:ℚ)/5) i * (fun _ : Fin 3 => (4:ℚ)/5) i = 1 := fun _ => by norm_num
  exact ⟨fun _ => 3/5, fun _ => 4/5, _, hu, C08_euler_product .Y .Z .X _ _,
    C08_euler_det_one .Y .Z .X _ _ _ hu (C08_euler_product .Y .Z .X _ _)⟩

/-- … and it is not the identity: entry (0,0) of `Ry Rz Rx` at these values is `c·c = 9/25`. -/
example : (((Axis.Y.rot ((3:ℚ)/5) (4/5)).mul (Axis.Z.rot (3/5) (4/5))).mul (Axis.X.rot (3/5) (4/5))) 0 0 = 9/25 := by
  simp [affineMul3_apply, Axis.rot, rotX, rotY, rotZ, affMat3, affVec3]; norm_num

/-- a unit quaternion that is not the identity. -/
example : ((1:ℚ)/2) * (1/2) + (1/2) * (1/2) + (1/2) * (1/2) + (1/2) * (1/2) = 1 ∧
    quaternionToRotationMatrixN (fun _ : Fin 4 => (1:ℚ)/2) 0 0 = 0 := by
  constructor
  · norm_num
  · simp [quaternionToRotationMatrixN, affMat3, affVec3]; norm_num

/-- hypotheses of `C08_angleaxis_quat_matrix` / `C08_matrix_quat_roundtrip` are satisfiable:
    axis `(0, 0, 5)`-ish with rational half-angle values `ch = 4/5, sh = 3/5`. -/
example : ∃ (a : Vec 3 ℚ) (theta c s sh ch : ℚ),
    theta * theta = a 0 * a 0 + a 1 * a 1 + a 2 * a 2 ∧ 0 < a 0 * a 0 + a 1 * a 1 + a 2 * a 2 ∧
    ch * ch + sh * sh = 1 ∧ c = ch * ch - sh * sh ∧ s = 2 * sh * ch :=
  ⟨fun i => if i = 2 then 5 else 0, 5, 7/25, 24/25, 3/5, 4/5, by simp, by simp, by norm_num, by norm_num, by norm_num⟩

example : ∃ (q r : Vec 4 ℚ),
    q 0 * q 0 + q 1 * q 1 + q 2 * q 2 + q 3 * q 3 = 1 ∧
    r 0 * r 0 = quaternionToRotationMatrixN q 0 0 + quaternionToRotationMatrixN q 1 1 + quaternionToRotationMatrixN q 2 2 + 1 ∧
    0 < r 0 ∧ 0 < quaternionToRotationMatrixN q 0 0 + quaternionToRotationMatrixN q 1 1 + quaternionToRotationMatrixN q 2 2 := by
  refine ⟨fun i => if i = 0 then 4/5 else if i = 1 then 3/5 else 0, fun _ => 8/5, ?_, ?_, ?_, ?_⟩ <;>
    simp [quaternionToRotationMatrixN, affMat3, affVec3] <;> norm_num

/-- a batched translation `(3, 2, 1)` converted to full matrices (the former F-08a witness). -/
example : (HB.asMatrix (⟨[3], .translation, fun i => .trans (fun _ => (i : ℚ))⟩ : HB 2 ℚ)).lead = [3] := rfl

/-- a batched composition that succeeds: `(N, D, 1)` translations composed with one `(D, D)` matrix. -/
example : ∃ c : HB 2 ℚ, HB.matmul ⟨[3], .translation, fun i => .trans (fun _ => (i : ℚ))⟩
    ⟨[], .affine, fun _ => .aff Mat.one⟩ = .ok c ∧ c.lead = [3] ∧ c.kind = .homogeneous := by
  refine ⟨_, rfl, rfl, rfl⟩

end Deepali
