/-
  Props/C09.lean — property C09: a transform evaluates its current parameters and grid, never a
  stale snapshot (state machine of Model/TransformState.lean). Only property theorems and
  non-vacuity examples live here; helper lemmas are in Deepali/Proofs/TransformState*.lean.

  OBLIGATIONS: C09_reachable_wf C09_call_is_current C09_call_is_current_history
    C09_disp_after_replace C09_disp_after_replace_refuted C09_linked_follows_source
    C07_shared_params_partial C07_shared_params_refuted

  (`C07_shared_params_*` — the state-machine clause of C07 — live in Props/C07State.lean, which
  this file imports so that the C09 check audits them too.)

  Partial / not proved here:
  * `C09_disp_after_replace_Statement` (every class) is REFUTED by the code as it stands
    (finding F-09a: `BSplineTransform.grid_` with callable/linked params never clears the buffers);
    `C09_disp_after_replace` proves it with that case excluded.
  * `C09_regrid_preserves_world_Statement` (re-gridding preserves the world deformation) is a
    statement about the dense-field / B-spline layers (C10, C14), not about this state machine,
    which *assumes* it (a re-gridded tensor keeps its content version). It is kept as a labelled
    `def` and covered by the oracle `regrid_world` only.
-/
import Deepali.Proofs.TransformStateCurrent
import Deepali.Props.C07State

set_option linter.unusedSectionVars false
set_option linter.unusedVariables false

namespace Deepali
open TState

/-- every world reachable from the empty one by ANY history (unbounded length) satisfies the
    invariant: callable/linked transforms own a buffer `p`, a Parameter lives in the shared
    `_parameters` container only, container ids are allocated. -/
theorem C09_reachable_wf (ops : List Op) : WF (run World.empty ops) :=
  WF_run WF_empty ops

/-- `transform(x)` on a non-composite transform of a well-formed world observes EXACTLY the
    versions the object holds at that moment (`current`: its parameter content — for a linked
    transform what the linked-to transform's `data()` returns now, I-10 —, its grid, its inversion
    flag), or raises exactly when nothing is held. -/
theorem C09_call_is_current {w : World} (hw : WF w) (id : Nat) (o : Obj) (ho : w.objs id = some o)
    (hleaf : o.cls.isComposite = false) :
    (step w (.call id)).2 = outOfCurrent (current w id) :=
  call_leaf_current hw ho hleaf

/-- … hence after EVERY history (any operations, any order, any length) a final `call` outputs
    `current` of the world the history produced. -/
theorem C09_call_is_current_history (ops : List Op) (id : Nat) (o : Obj)
    (ho : (run World.empty ops).objs id = some o) (hleaf : o.cls.isComposite = false) :
    (runOuts World.empty (ops ++ [.call id])).2
      = (runOuts World.empty ops).2 ++ [outOfCurrent (current (run World.empty ops) id)] := by
  rw [runOuts_append, C09_call_is_current (C09_reachable_wf ops) id o ho hleaf]

/-- non-vacuity: a concrete history (construct, evaluate, in-place edit, replace data, re-grid)
    after which the call observes version 9 on grid 1 — not the snapshot taken earlier. -/
example : (runOuts World.empty
    [.mk (.svf false) .param 3 0, .call 0, .inplace 0 5, .disp 0, .data_ 0 9, .grid_ 0 1, .call 0]).2
    = [.new 0, .obs [⟨.lit 3, 0, false⟩], .ok, .obs [⟨.lit 3, 0, false⟩], .ok, .ok, .obs [⟨.lit 9, 1, false⟩]] := by
  decide

/-- the operations after which the property demands a fresh `disp()`: they replace what the
    transform holds. A `grid_` with the grid the transform already has replaces nothing
    (base.py returns early); `reset_parameters` of a transform without parameters is a no-op. -/
inductive Replaces (w : World) (id : Nat) (o : Obj) : Op → Prop
  | data_ (v : Nat) : Replaces w id o (.data_ id v)
  | grid_ (g : Nat) : g ≠ o.grid → Replaces w id o (.grid_ id g)
  | condition_ (c : Nat) : Replaces w id o (.condition_ id c)
  | reset : w.lookup o ≠ .none → Replaces w id o (.reset id)

/-- full clause: `disp()` right after a successful replacing operation observes the new state. -/
def C09_disp_after_replace_Statement : Prop :=
  ∀ (w : World), WF w → ∀ (id : Nat) (o : Obj), w.objs id = some o → o.cls.isComposite = false →
    ∀ op, Replaces w id o op → (step w op).2 = .ok →
      (step (step w op).1 (.disp id)).2 = outOfCurrent (current (step w op).1 id)

/-- proved part: every class and params kind, except `grid_` of a B-spline transform whose params
    are not a tensor (F-09a). Buffers were cleared, so `disp` recomputes from what is held. -/
theorem C09_disp_after_replace {w : World} (hw : WF w) (id : Nat) (o : Obj) (ho : w.objs id = some o)
    (hleaf : o.cls.isComposite = false) (op : Op) (hr : Replaces w id o op)
    (hb : ∀ g, op = .grid_ id g → o.cls.isBSpline = true → (w.lookup o).isTensor = true)
    (hok : (step w op).2 = .ok) :
    (step (step w op).1 (.disp id)).2 = outOfCurrent (current (step w op).1 id) := by
  have hw' := WF_step hw op
  have hcl : Cleared (step w op).1 id o.cls := by
    cases hr with
    | data_ v =>
      simp only [step, ho, hleaf] at hok ⊢
      cases hd : dataSet w id o (.lit v) with
      | error e => simp [hd] at hok
      | ok w' => simp only [hd]; exact Cleared.of_dataSet hd
    | grid_ g hg =>
      simp only [step, ho] at hok ⊢
      cases hs : gridSet w id o g with
      | mk w' e =>
        cases e with
        | some e => simp [hs] at hok
        | none => simp only [hs]; exact Cleared.of_gridSet ho hleaf hg (hb g rfl) hs
    | condition_ c =>
      simp only [step, ho]
      exact Cleared.of_condSet ho c
    | reset hn =>
      simp only [step, ho, hleaf] at hok ⊢
      cases hd : resetParams w id o with
      | error e => simp [hd] at hok
      | ok w' => simp only [hd]; exact Cleared.of_resetParams ho hn hd
  obtain ⟨o1, ho1, hu1, hc1⟩ := hcl
  exact disp_leaf_current_of_cleared hw' ho1 (by rw [hc1]; exact hleaf) hu1

/-- the full clause is violated by the code as it stands: an FFD with callable params, evaluated
    on grid 0, then `grid_(1)`: `disp()` still returns the buffer computed on grid 0. -/
theorem C09_disp_after_replace_refuted : ¬ C09_disp_after_replace_Statement := by
  intro h
  have hw := C09_reachable_wf [.mk .ffd (.fn 1) 0 0, .call 0]
  have := h _ hw 0 ⟨.ffd, 0, .dict (.fn 1), some 1, some (.snap ⟨.pred 1 0, 0, false⟩), none, 0, 0, false, []⟩
    (by decide) (by decide) (.grid_ 0 1) (.grid_ 1 (by decide)) (by decide)
  revert this
  decide

/-- non-vacuity of `C09_disp_after_replace`: SVF with Parameter params, stale buffer from an
    in-place edit, then `data_`: `disp` observes version 9. -/
example : (runOuts World.empty
    [.mk (.svf true) .param 3 0, .call 0, .inplace 0 5, .data_ 0 9, .disp 0]).2.getLast? = some (.obs [⟨.lit 9, 0, false⟩]) := by
  decide

/-- I-10 made precise. A transform whose params are LINKED to transform `s` reads what `s`'s
    `data()` returns: once `s` has been called, a call of the linked transform uses exactly the
    parameter content that call of `s` used (with its own grid and inversion flag). -/
theorem C09_linked_follows_source {w : World} (hw : WF w) (a s : Nat) (oa os : Obj)
    (ha : w.objs a = some oa) (hs : w.objs s = some os) (hne : a ≠ s)
    (hla : oa.cls.isComposite = false) (hls : os.cls.isComposite = false)
    (hlink : w.lookup oa = .obj s) (obsS : Obs) (hcall : (step w (.call s)).2 = .obs [obsS]) :
    (step (step w (.call s)).1 (.call a)).2 = .obs [⟨obsS.params, oa.grid, oa.invert⟩] :=
  linked_follows_source hw a s oa os ha hs hne hla hls hlink obsS hcall

/-- non-vacuity / I-10 reading: forward with callable params evaluated on condition 2, then the
    linked inverse: it uses that very prediction (`pred 1 2`) on its own grid with the opposite flag. -/
example : (runOuts World.empty
    [.mk (.svf false) (.fn 1) 0 0, .inverse 0 true false, .condition_ 0 2, .call 0, .call 1]).2.getLast?
    = some (.obs [⟨.pred 1 2, 0, true⟩]) := by
  decide

/-- STRETCH, NOT PROVED HERE — labelled statement only. "Changing the grid of a dense or spline
    model re-expresses its parameters so that the world-space deformation is preserved":
    `regrid g g' p` are the parameters re-expressed from grid `g` on grid `g'`, `world g p x` the
    world displacement they mean at world point `x`, `dom g x` that `x` lies in the domain of `g`.
    To be instantiated by the dense-field layer (C10: `FlowFields.sample` + `axes` rescaling — holds
    up to linear-interpolation error only, i.e. exactly for fields the interpolation reproduces) and
    by the B-spline layer (C14 `subdivide_same_function`, exact). The state machine above ASSUMES it
    (a re-gridded tensor keeps its content version); the clause is covered by the oracle
    `regrid_world` of harness/props/c09.py with a stated tolerance (exploration, not proof). -/
def C09_regrid_preserves_world_Statement {Field Grid Pt Vec : Type} (regrid : Grid → Grid → Field → Field)
    (world : Grid → Field → Pt → Vec) (dom : Grid → Pt → Prop) : Prop :=
  ∀ (g g' : Grid) (p : Field) (x : Pt), dom g x → dom g' x → world g' (regrid g g' p) x = world g p x

end Deepali
