/-
  Props/C09.lean — property C09: a transform evaluates its current parameters and grid, never a
  stale snapshot (state machine of Model/TransformState.lean). Only property theorems and
  non-vacuity examples live here; helper lemmas are in Deepali/Proofs/TransformState*.lean.

  OBLIGATIONS: C09_reachable_wf C09_reachable_alloc C09_call_is_current C09_call_is_current_history
    C09_call_is_current_composite C09_call_is_current_composite_history
    C09_disp_after_replace C09_linked_follows_source
    C07_shared_params C07_inverse_succeeds
    C09_regrid_dense_partial C09_regrid_bspline_partial

  (`C07_*` — the state-machine clause of C07 — live in Props/C07State.lean, which this file imports
  so that the C09 check audits them too.)

  History: before the repairs 1ce28a8 (B-spline `grid_` clears the buffers), 3110eb9 (`__copy__`
  copies `_parameters`), 20bab42 (`link_` with Parameter-held params) the clause
  `disp_after_replace` was refuted for B-spline transforms with callable params (F-09a) and
  `C07_shared_params` for (Parameter, link=True) (F-07). The model follows the repaired code; both
  are now proved without exception.

  Partial:
  * `C09_regrid_preserves_world_Statement` (re-gridding preserves the world deformation) is a
    statement about the dense-field / B-spline layers (C10, C14), not about this state machine,
    which *assumes* it (a re-gridded tensor keeps its content version). Proved of it:
    `C09_regrid_dense_partial` (the vector stored at every sample of the new grid has the world value
    of the old field's linear interpolant at that point, for any pair of grids and conventions) and
    `C09_regrid_bspline_partial` (control-grid refinement keeps the spline's value at every old
    sample). Not proved: that the interpolant of the NEW parameters agrees with the old one BETWEEN
    the new samples (true up to linear-interpolation error only; oracle `regrid_world`).
-/
import Deepali.Proofs.TransformStateCurrent
import Deepali.Proofs.TransformStateComposite
import Deepali.Props.C07State
import Deepali.Props.C10
import Deepali.Props.C14

set_option linter.unusedSectionVars false
set_option linter.unusedVariables false

namespace Deepali
open TState

/-- every world reachable from the empty one by ANY history (unbounded length) satisfies the
    invariant: callable/linked transforms own a buffer `p`, a Parameter lives in the shared
    `_parameters` container only, container ids are allocated. -/
theorem C09_reachable_wf (ops : List Op) : WF (run World.empty ops) :=
  WF_run WF_empty ops

/-- `transform(x)` on a non-composite transform of a well-formed world observes EXACTLY the
    versions the object holds at that moment (`current`: its parameter content — for a linked
    transform what the linked-to transform's `data()` returns now, I-10 —, its grid, its inversion
    flag), or raises exactly when nothing is held. -/
theorem C09_call_is_current {w : World} (hw : WF w) (id : Nat) (o : Obj) (ho : w.objs id = some o)
    (hleaf : o.cls.isComposite = false) :
    (step w (.call id)).2 = outOfCurrent (current w id) :=
  call_leaf_current hw ho hleaf

/-- … hence after EVERY history (any operations, any order, any length) a final `call` outputs
    `current` of the world the history produced. -/
theorem C09_call_is_current_history (ops : List Op) (id : Nat) (o : Obj)
    (ho : (run World.empty ops).objs id = some o) (hleaf : o.cls.isComposite = false) :
    (runOuts World.empty (ops ++ [.call id])).2
      = (runOuts World.empty ops).2 ++ [outOfCurrent (current (run World.empty ops) id)] := by
  rw [runOuts_append, C09_call_is_current (C09_reachable_wf ops) id o ho hleaf]

/-- second invariant of every reachable world: every tensor an object refers to (params slot,
    `_parameters` entry, buffers `p`, `u`, `v`) has been allocated — so evaluating one transform
    (which may allocate a prediction) never disturbs what another one holds. -/
theorem C09_reachable_alloc (ops : List Op) : CA (run World.empty ops) :=
  CA_run CA_empty ops

/-- `transform(x)` on a COMPOSITE (Sequential / MultiLevel): the pre-hook updates the members in
    order, `forward` reads each member's buffer; every member is observed with exactly what it
    holds at the moment of the call (`currents` = `current` of each member, first failure wins).
    Hypotheses: the members are distinct non-composite transforms and no member is linked to
    another member of the same composite (I-10: such a member would read what the other member
    evaluated *during* this very call). -/
theorem C09_call_is_current_composite {w : World} (hw : WF w) (hca : CA w) (id : Nat) (o : Obj)
    (ho : w.objs id = some o) (hcomp : o.cls.isComposite = true) (hnd : o.members.Nodup)
    (hleaf : ∀ m ∈ o.members, ∀ om, w.objs m = some om → om.cls.isComposite = false)
    (hind : ∀ m ∈ o.members, ∀ om s, w.objs m = some om → w.lookup om = .obj s → s ∉ o.members) :
    (step w (.call id)).2 = outOfCurrents (currents w o.members) :=
  call_composite_current hw hca ho hcomp hnd hleaf hind

/-- … after EVERY history. -/
theorem C09_call_is_current_composite_history (ops : List Op) (id : Nat) (o : Obj)
    (ho : (run World.empty ops).objs id = some o) (hcomp : o.cls.isComposite = true) (hnd : o.members.Nodup)
    (hleaf : ∀ m ∈ o.members, ∀ om, (run World.empty ops).objs m = some om → om.cls.isComposite = false)
    (hind : ∀ m ∈ o.members, ∀ om s, (run World.empty ops).objs m = some om →
      (run World.empty ops).lookup om = .obj s → s ∉ o.members) :
    (runOuts World.empty (ops ++ [.call id])).2
      = (runOuts World.empty ops).2 ++ [outOfCurrents (currents (run World.empty ops) o.members)] := by
  rw [runOuts_append, C09_call_is_current_composite (C09_reachable_wf ops) (C09_reachable_alloc ops) id o ho hcomp
    hnd hleaf hind]

/-- non-vacuity (composite): a Sequential of an SVF (Parameter) and an FFD with callable params;
    in-place edit and re-conditioning between two calls — the second call observes both changes. -/
example : (runOuts World.empty
    [.mk (.svf false) .param 3 0, .mk .ffd (.fn 1) 0 0, .mkcomp .seq [0, 1] 0, .call 2,
     .inplace 0 7, .condition_ 2 4, .call 2]).2.getLast? = some (.obs [⟨.lit 7, 0, false⟩, ⟨.pred 1 4, 0, false⟩]) := by
  decide

/-- re-base on the repair of F-15f/g (`CompositeTransform.__copy__` copies the children): conditioning a
    shallow copy of a composite (`composite.condition(c)`) leaves the ORIGINAL composite's members on
    their old conditioning (`pred 1 0`), the copy (object 3, children 4 and 5) uses the new one; the child
    copies still share parameter tensors with the original's children (in-place edit of object 4 is seen by
    object 0's call). -/
example : (runOuts World.empty
    [.mk (.dvf true) .buffer 3 0, .mk .ffd (.fn 1) 4 0, .mkcomp .seq [0, 1] 0, .condCopy 2 4, .disp 2, .disp 3,
     .inplace 4 9, .call 2]).2
    = [.new 0, .new 1, .new 2, .new 3, .obs [⟨.lit 3, 0, false⟩, ⟨.pred 1 0, 0, false⟩],
       .obs [⟨.lit 3, 0, false⟩, ⟨.pred 1 4, 0, false⟩], .ok, .obs [⟨.lit 9, 0, false⟩, ⟨.pred 1 0, 0, false⟩]] := by
  decide

/-- non-vacuity: a concrete history (construct, evaluate, in-place edit, replace data, re-grid)
    after which the call observes version 9 on grid 1 — not the snapshot taken earlier. -/
example : (runOuts World.empty
    [.mk (.svf false) .param 3 0, .call 0, .inplace 0 5, .disp 0, .data_ 0 9, .grid_ 0 1, .call 0]).2
    = [.new 0, .obs [⟨.lit 3, 0, false⟩], .ok, .obs [⟨.lit 3, 0, false⟩], .ok, .ok, .obs [⟨.lit 9, 1, false⟩]] := by
  decide

/-- the operations after which the property demands a fresh `disp()`: they replace what the
    transform holds. A `grid_` with the grid the transform already has replaces nothing
    (base.py returns early); `reset_parameters` of a transform without parameters is a no-op. -/
inductive Replaces (w : World) (id : Nat) (o : Obj) : Op → Prop
  | data_ (v : Nat) : Replaces w id o (.data_ id v)
  | grid_ (g : Nat) : g ≠ o.grid → Replaces w id o (.grid_ id g)
  | condition_ (c : Nat) : Replaces w id o (.condition_ id c)
  | reset : w.lookup o ≠ .none → Replaces w id o (.reset id)

/-- `disp()` right after a successful replacing operation observes the new state — every class
    (dense, B-spline) and every params kind: the buffers were cleared, so `disp` recomputes from
    what is held. -/
theorem C09_disp_after_replace {w : World} (hw : WF w) (id : Nat) (o : Obj) (ho : w.objs id = some o)
    (hleaf : o.cls.isComposite = false) (op : Op) (hr : Replaces w id o op)
    (hok : (step w op).2 = .ok) :
    (step (step w op).1 (.disp id)).2 = outOfCurrent (current (step w op).1 id) := by
  have hw' := WF_step hw op
  have hcl : Cleared (step w op).1 id o.cls := by
    cases hr with
    | data_ v =>
      simp only [step, ho, hleaf] at hok ⊢
      cases hd : dataSet w id o (.lit v) with
      | error e => simp [hd] at hok
      | ok w' => simp only [hd]; exact Cleared.of_dataSet hd
    | grid_ g hg =>
      simp only [step, ho] at hok ⊢
      cases hs : gridSet w id o g with
      | mk w' e =>
        cases e with
        | some e => simp [hs] at hok
        | none => simp only [hs]; exact Cleared.of_gridSet ho hleaf hg hs
    | condition_ c =>
      simp only [step, ho]
      exact Cleared.of_condSet ho c
    | reset hn =>
      simp only [step, ho, hleaf] at hok ⊢
      cases hd : resetParams w id o with
      | error e => simp [hd] at hok
      | ok w' => simp only [hd]; exact Cleared.of_resetParams ho hn hd
  obtain ⟨o1, ho1, hu1, hc1⟩ := hcl
  exact disp_leaf_current_of_cleared hw' ho1 (by rw [hc1]; exact hleaf) hu1

/-- non-vacuity for the former F-09a case: an FFD with callable params, evaluated on grid 0, then
    `grid_(1)`: `disp()` now recomputes on grid 1. -/
example : (runOuts World.empty [.mk .ffd (.fn 1) 0 0, .call 0, .grid_ 0 1, .disp 0]).2.getLast?
    = some (.obs [⟨.pred 1 0, 1, false⟩]) := by
  decide

/-- non-vacuity of `C09_disp_after_replace`: SVF with Parameter params, stale buffer from an
    in-place edit, then `data_`: `disp` observes version 9. -/
example : (runOuts World.empty
    [.mk (.svf true) .param 3 0, .call 0, .inplace 0 5, .data_ 0 9, .disp 0]).2.getLast? = some (.obs [⟨.lit 9, 0, false⟩]) := by
  decide

/-- I-10 made precise. A transform whose params are LINKED to transform `s` reads what `s`'s
    `data()` returns: once `s` has been called, a call of the linked transform uses exactly the
    parameter content that call of `s` used (with its own grid and inversion flag). -/
theorem C09_linked_follows_source {w : World} (hw : WF w) (a s : Nat) (oa os : Obj)
    (ha : w.objs a = some oa) (hs : w.objs s = some os) (hne : a ≠ s)
    (hla : oa.cls.isComposite = false) (hls : os.cls.isComposite = false)
    (hlink : w.lookup oa = .obj s) (obsS : Obs) (hcall : (step w (.call s)).2 = .obs [obsS]) :
    (step (step w (.call s)).1 (.call a)).2 = .obs [⟨obsS.params, oa.grid, oa.invert⟩] :=
  linked_follows_source hw a s oa os ha hs hne hla hls hlink obsS hcall

/-- non-vacuity / I-10 reading: forward with callable params evaluated on condition 2, then the
    linked inverse: it uses that very prediction (`pred 1 2`) on its own grid with the opposite flag. -/
example : (runOuts World.empty
    [.mk (.svf false) (.fn 1) 0 0, .inverse 0 true false, .condition_ 0 2, .call 0, .call 1]).2.getLast?
    = some (.obs [⟨.pred 1 2, 0, true⟩]) := by
  decide

/-- STRETCH, NOT PROVED HERE — labelled statement only. "Changing the grid of a dense or spline
    model re-expresses its parameters so that the world-space deformation is preserved":
    `regrid g g' p` are the parameters re-expressed from grid `g` on grid `g'`, `world g p x` the
    world displacement they mean at world point `x`, `dom g x` that `x` lies in the domain of `g`.
    To be instantiated by the dense-field layer (C10: `FlowFields.sample` + `axes` rescaling — holds
    up to linear-interpolation error only, i.e. exactly for fields the interpolation reproduces) and
    by the B-spline layer (C14 `subdivide_same_function`, exact). The state machine above ASSUMES it
    (a re-gridded tensor keeps its content version); the clause is covered by the oracle
    `regrid_world` of harness/props/c09.py with a stated tolerance (exploration, not proof). -/
def C09_regrid_preserves_world_Statement {Field Grid Pt Vec : Type} (regrid : Grid → Grid → Field → Field)
    (world : Grid → Field → Pt → Vec) (dom : Grid → Pt → Prop) : Prop :=
  ∀ (g g' : Grid) (p : Field) (x : Pt), dom g x → dom g' x → world g' (regrid g g' p) x = world g p x

section Regrid
variable {K : Type} [Field K] [LinearOrder K] [IsStrictOrderedRing K] [FloorRing K] {d : Nat}

/-- **dense models** (`DenseVectorFieldTransform.grid_`): whatever the old and new grids (size, spacing, orientation,
    centre) and their `align_corners` conventions (`a`, `a'` = cube axes of the old / new grid), the vector stored for a
    sample of the new grid means the same WORLD displacement as the old field's interpolated value `s` at that point.
    (Dropping either conversion — the seeded change C09-1 drops the second — breaks this equation.) -/
theorem C09_regrid_dense_partial {g g' : Grid d K} (h : g.Valid) (h' : g'.Valid) (a a' : Axes)
    (ha : g.CornersOK a) (ha' : g'.CornersOK a) (ha'' : g'.CornersOK a') (s : Vec d K) :
    g'.transformVectors a' .world (denseRegridAt g g' a a' s) = g.transformVectors a .world s := by
  have hw : g'.CornersOK .world := fun hc => by cases hc
  unfold denseRegridAt
  have hpi := congrFun (C10_axes_path_independent h' a a' .world ha' ha'' hw (fun _ => g.transformVectorsTo a g' a s)) (fun _ => 0)
  simp only [flowAxes] at hpi
  rw [hpi]
  exact C10_sample_rescale h h' a ha ha' s

/-- **spline models** (`BSplineTransform.grid_`, image size `m → 2m − 1` along an axis): the refined coefficients give
    the old spline value at every old sample (new sample `2x`), for every stride — `C14_ffd_refine_same_function`. -/
theorem C09_regrid_bspline_partial (m s : Nat) (hs : 1 ≤ s) (hm : 1 ≤ m) (c : List K)
    (hc : c.length = ctrlSize m s) (x : Nat) (hx : x < m) :
    getZ (evalWeights (weightTable s 0) (ffdRefine1d (2 * m - 1) s c)) (2 * x)
      = getZ (evalWeights (weightTable s 0) c) x :=
  C14_ffd_refine_same_function m s hs hm c hc x hx

/-- non-vacuity: a rotated anisotropic grid regridded to a grid of the other convention. -/
example : (exampleGrid : Grid 2 ℚ).Valid ∧ (exampleGrid2 : Grid 2 ℚ).Valid := ⟨exampleGrid_valid, exampleGrid2_valid⟩

end Regrid

end Deepali
