/-
  Props/C10.lean — property C10: flow fields mean the same displacement in every vector
  representation.

  OBLIGATIONS: C10_axes_invertible C10_axes_path_independent C10_axes_is_grid_vector_map
    C10_axes_index_meaning C10_exp_repr_independent C10_exp_index_meaning C10_sample_rescale
    C10_warp_position_repr_independent C10_exp_unrepaired_refuted
    C10_normalize_flow_is_grid_vector_map C10_denormalize_flow_is_grid_vector_map C10_normalize_flow_invertible
    C10_normalize_flow_side_length C10_normalize_flow_singleton_axis

  `C10_exp_repr_independent` is about `FlowFields.exp` as repaired by the `fix:` commit in /repo
  (the method used to exponentiate the unconverted tensor, see `C10_exp_unrepaired_refuted`).
-/
import Deepali.Proofs.FlowRepr
import Deepali.Proofs.Examples
import Deepali.Model.Regularizers

set_option linter.unusedSectionVars false

namespace Deepali
open Matrix
variable {K : Type} [Field K] [LinearOrder K] [IsStrictOrderedRing K] [FloorRing K] {d : Nat}

theorem flowAxes_eq {g : Grid d K} (h : g.Valid) (a b : Axes) (ha : g.CornersOK a) (hb : g.CornersOK b)
    (f : VField d K) : flowAxes g a b f = fun idx => fromGridLin g b (toGridLin g a (f idx)) := by
  funext idx; exact transformVectors_eq h a b ha hb (f idx)

/-- converting a→b→a returns the field (all 16 ordered pairs). -/
theorem C10_axes_invertible {g : Grid d K} (h : g.Valid) (a b : Axes) (ha : g.CornersOK a) (hb : g.CornersOK b)
    (f : VField d K) : flowAxes g b a (flowAxes g a b f) = f := by
  rw [flowAxes_eq h a b ha hb, flowAxes_eq h b a hb ha]
  funext idx; simp only [toGridLin_fromGridLin h b hb, fromGridLin_toGridLin h a ha]

/-- converting a→b→c equals a→c (all 64 triples). -/
theorem C10_axes_path_independent {g : Grid d K} (h : g.Valid) (a b c : Axes) (ha : g.CornersOK a)
    (hb : g.CornersOK b) (hc : g.CornersOK c) (f : VField d K) :
    flowAxes g b c (flowAxes g a b f) = flowAxes g a c f := by
  rw [flowAxes_eq h a b ha hb, flowAxes_eq h b c hb hc, flowAxes_eq h a c ha hc]
  funext idx; simp only [toGridLin_fromGridLin h b hb]

/-- the conversion is the grid's own vector map: the linear part of its point map. -/
theorem C10_axes_is_grid_vector_map {g : Grid d K} (h : g.Valid) (a b : Axes) (ha : g.CornersOK a)
    (hb : g.CornersOK b) (f : VField d K) (x : Vec d K) (idx : Fin d → Int) :
    flowAxes g a b f idx = g.applyTransform a b false (x + f idx) - g.applyTransform a b false x := by
  simp only [flowAxes]
  rw [transformVectors_eq h a b ha hb, ← applyTransform_vec_eq h a b ha hb,
    applyTransform_vec_eq h a b ha hb, applyTransform_eq h a b ha hb, applyTransform_eq h a b ha hb,
    toGrid_add, fromGrid_add]; abel

/-- every representation denotes one index-space displacement: converting to CUBE/CUBE_CORNERS and
    scaling by `n/2` resp. `(n−1)/2` gives `toGridLin`, whatever the representation. -/
theorem C10_axes_index_meaning {g : Grid d K} {n : Fin d → Nat} (h : g.Valid) (hn : g.HasSize n)
    (h2 : ∀ i, 2 ≤ n i) (a : Axes) (ac : Bool) (f : VField d K) :
    toIdxUnits ac n (flowAxes g a (Axes.fromAlignCorners ac) f) = fun idx => toGridLin g a (f idx) := by
  rw [flowAxes_eq h a _ (hn.cornersOK h2 a) (hn.cornersOK h2 _)]
  funext idx i
  have h2' : (2 : K) ≤ (n i : K) := by exact_mod_cast h2 i
  have h0 : (n i : K) ≠ 0 := by intro e; rw [e] at h2'; linarith
  have h1 : (n i : K) - 1 ≠ 0 := by intro e; linarith
  cases ac <;> simp only [toIdxUnits, idxScale, Axes.fromAlignCorners, fromGridLin, hn i, Bool.false_eq_true,
    if_false, if_true] <;> field_simp

/-- `FlowFields.exp` in index units is one and the same computation on the index-space
    displacement `toGridLin g a ∘ f`, for every representation `a` of the input. -/
theorem C10_exp_index_meaning {g : Grid d K} {n : Fin d → Nat} (h : g.Valid) (hn : g.HasSize n)
    (h2 : ∀ i, 2 ≤ n i) (a : Axes) (scale : K) (steps : Nat) (f : VField d K) :
    (fun idx => toGridLin g a (flowExp g n a scale steps f idx))
      = (if steps = 0 then (fun idx => Vec.smul scale (toGridLin g a (f idx)))
         else iter (expvStepIdx n) steps
            (fun idx => Vec.smul (scale / ((2 ^ steps : Nat) : K)) (toGridLin g a (f idx)))) := by
  have hca : g.CornersOK a := hn.cornersOK h2 a
  have hexp : expAxes a = Axes.fromAlignCorners (decide (a = .cubeCorners)) := by
    cases a <;> simp [expAxes, Axes.fromAlignCorners]
  have hcc : g.CornersOK (expAxes a) := hn.cornersOK h2 _
  have hid : ∀ (c : Axes) (E : VField d K), flowAxes g c c E = E := by
    intro c E; funext idx; cases c <;> simp [flowAxes, Grid.transformVectors]
  have e1 : (fun idx => toGridLin g a (flowExp g n a scale steps f idx))
      = toIdxUnits (decide (a = .cubeCorners)) n
          (expv (decide (a = .cubeCorners)) .border n scale false steps (flowAxes g a (expAxes a) f)) := by
    have key := C10_axes_index_meaning h hn h2 (expAxes a) (decide (a = .cubeCorners))
      (expv (decide (a = .cubeCorners)) .border n scale false steps (flowAxes g a (expAxes a) f))
    rw [← hexp, hid] at key
    rw [key]
    funext idx
    show toGridLin g a (flowAxes g (expAxes a) a _ idx) = _
    rw [flowAxes_eq h (expAxes a) a hcc hca]
    simp only [toGridLin_fromGridLin h a hca]
  rw [e1, expv_conj _ n h2]
  have e2 := C10_axes_index_meaning h hn h2 a (decide (a = .cubeCorners)) f
  rw [← hexp] at e2
  rw [e2]

/-- **exp is representation independent**: two inputs denoting the same index-space (hence world-
    space) field — in any two of the four representations, which also covers both align_corners
    conventions — give results denoting the same field. -/
theorem C10_exp_repr_independent {g : Grid d K} {n : Fin d → Nat} (h : g.Valid) (hn : g.HasSize n)
    (h2 : ∀ i, 2 ≤ n i) (a b : Axes) (scale : K) (steps : Nat) (f : VField d K) :
    flowAxes g b .world (flowExp g n b scale steps (flowAxes g a b f))
      = flowAxes g a .world (flowExp g n a scale steps f) := by
  have hca : g.CornersOK a := hn.cornersOK h2 a
  have hcb : g.CornersOK b := hn.cornersOK h2 b
  have hw : g.CornersOK .world := hn.cornersOK h2 _
  have ea := C10_exp_index_meaning h hn h2 a scale steps f
  have eb := C10_exp_index_meaning h hn h2 b scale steps (flowAxes g a b f)
  have hconv : ∀ idx, toGridLin g b (flowAxes g a b f idx) = toGridLin g a (f idx) := by
    intro idx; rw [flowAxes_eq h a b hca hcb]; simp only [toGridLin_fromGridLin h b hcb]
  simp only [hconv] at eb
  rw [flowAxes_eq h b .world hcb hw, flowAxes_eq h a .world hca hw]
  funext idx
  have := congrFun (ea.trans eb.symm) idx
  rw [this]

/-- resampling a field on another grid re-expresses the vectors so that their world value is kept
    (`FlowFields.sample`: `grid_transform_vectors(v, grid, axes, to_grid, axes)`). -/
theorem C10_sample_rescale {g g' : Grid d K} (h : g.Valid) (h' : g'.Valid) (a : Axes) (ha : g.CornersOK a)
    (ha' : g'.CornersOK a) (v : Vec d K) :
    g'.transformVectors a .world (g.transformVectorsTo a g' a v) = g.transformVectors a .world v := by
  have hw : ∀ g : Grid d K, g.CornersOK .world := fun _ hc => by cases hc
  by_cases haw : a = .world
  · subst haw; simp [Grid.transformVectorsTo, Grid.transformVectors]
  · simp only [Grid.transformVectorsTo, haw, false_and, if_false]
    have e := applyTransformTo_vec_eq h h' a a ha ha' v
    simp only [Grid.applyTransformTo, H.applyAs, if_true] at e
    rw [e, transformVectors_eq h' a .world ha' (hw _), transformVectors_eq h a .world ha (hw _),
      toGridLin_fromGridLin h' a ha']
    simp only [fromGridLin, toGridLin, affine_inverse_mulVec h']

/-- `FlowFields.warp_image`: the continuous index at which the image is sampled for grid point
    `idx` is `idx + (index-space displacement)`, whatever representation (and hence convention) the
    field is stored in. -/
theorem C10_warp_position_repr_independent {g : Grid d K} {n : Fin d → Nat} (h : g.Valid) (hn : g.HasSize n)
    (h2 : ∀ i, 2 ≤ n i) (a : Axes) (f : VField d K) (idx : Fin d → Int) (i : Fin d) :
    let ac := decide (a = .cubeCorners)
    unnormalize ac ((n i : Nat) : K)
        (((latticePoint ac n idx : Vec d K).add (flowAxes g a (Axes.fromAlignCorners ac) f idx)) i)
      = ((idx i : Int) : K) + toGridLin g a (f idx) i := by
  intro ac
  have e := congrFun (congrFun (C10_axes_index_meaning h hn h2 a ac f) idx) i
  simp only [toIdxUnits] at e
  have h2' : (2 : K) ≤ (n i : K) := by exact_mod_cast h2 i
  have h0 : (n i : K) ≠ 0 := by intro e; rw [e] at h2'; linarith
  have h1 : (n i : K) - 1 ≠ 0 := by intro e; linarith
  rw [← e]
  simp only [Vec.add, latticePoint, coordAt_affine _ (h2 i), idxScale]
  cases ac <;> simp only [unnormalize, Bool.false_eq_true, if_false, if_true, Nat.cast_one, Nat.cast_ofNat] <;>
    field_simp <;> ring

/-! ### the functional twins `core.flow.normalize_flow` / `denormalize_flow` (grid-index units <-> cube units) -/

/-- the cube representation that goes with an `align_corners` flag. -/
def cubeOf (ac : Bool) : Axes := if ac then .cubeCorners else .cube

/-- `normalize_flow(data, size=grid.size(), align_corners=ac)` (default side length 2) is the grid's own vector map
    GRID -> cube(ac) (`Grid.transform_vectors`), on every grid with at least two samples per axis. -/
theorem C10_normalize_flow_is_grid_vector_map {g : Grid d K} {n : Fin d → Nat} (hn : g.HasSize n) (h2 : ∀ i, 2 ≤ n i)
    (ac : Bool) (v : Vec d K) :
    Reg.normalizeFlow ac n (2 : K) v = g.transformVectors .grid (cubeOf ac) v := by
  funext i
  have hs : g.sizeTensor i = ((n i : Nat) : K) := hn i
  have h1 : 1 < n i := h2 i
  cases ac <;>
    simp [Reg.normalizeFlow, cubeOf, Grid.transformVectors, Vec.mul, hs, h1] <;> ring

/-- `denormalize_flow(data, size=grid.size(), align_corners=ac)` is the grid's vector map cube(ac) -> GRID. -/
theorem C10_denormalize_flow_is_grid_vector_map {g : Grid d K} {n : Fin d → Nat} (hn : g.HasSize n) (h2 : ∀ i, 2 ≤ n i)
    (ac : Bool) (v : Vec d K) :
    Reg.denormalizeFlow ac n (2 : K) v = g.transformVectors (cubeOf ac) .grid v := by
  funext i
  have hs : g.sizeTensor i = ((n i : Nat) : K) := hn i
  have h1 : 1 < n i := h2 i
  cases ac <;>
    simp [Reg.denormalizeFlow, cubeOf, Grid.transformVectors, Vec.mul, hs, h1] <;> ring

/-- the two functions invert each other, for every non-zero side length and both conventions, when every axis has at
    least two samples. -/
theorem C10_normalize_flow_invertible {n : Fin d → Nat} (h2 : ∀ i, 2 ≤ n i) (ac : Bool) (side : K) (hs : side ≠ 0)
    (v : Vec d K) :
    Reg.denormalizeFlow ac n side (Reg.normalizeFlow ac n side v) = v ∧
      Reg.normalizeFlow ac n side (Reg.denormalizeFlow ac n side v) = v := by
  have key : ∀ i, ((n i : Nat) : K) ≠ 0 ∧ ((n i : Nat) : K) - 1 ≠ 0 := by
    intro i
    have : (2 : K) ≤ (n i : K) := by exact_mod_cast h2 i
    constructor
    · intro e; rw [e] at this; linarith
    · intro e; linarith
  constructor <;> funext i <;> obtain ⟨k0, k1⟩ := key i <;> have h1 : 1 < n i := h2 i <;>
    cases ac <;> by_cases h : side = 1 <;>
    simp [Reg.denormalizeFlow, Reg.normalizeFlow, h1, h] <;> field_simp

/-- the `side_length` argument is a plain factor: cube vectors of side `s` are `s/2` times the cube vectors of side 2. -/
theorem C10_normalize_flow_side_length {n : Fin d → Nat} (ac : Bool) (side : K) (v : Vec d K) (i : Fin d) :
    Reg.normalizeFlow ac n side v i = side / 2 * Reg.normalizeFlow ac n (2 : K) v i := by
  by_cases h1 : 1 < n i <;> by_cases h : side = 1 <;> cases ac <;>
    simp [Reg.normalizeFlow, h1, h] <;> ring

/-- the branch the guards above exclude, stated outright: along an axis with at most one sample both functions return
    zero (`torch.where(size > 1, …, zero)`), i.e. they are NOT the grid's vector map there (which multiplies by `2 / n`). -/
theorem C10_normalize_flow_singleton_axis {n : Fin d → Nat} (ac : Bool) (side : K) (v : Vec d K) (i : Fin d)
    (h : n i ≤ 1) : Reg.normalizeFlow ac n side v i = 0 ∧ Reg.denormalizeFlow ac n side v i = 0 := by
  have h1 : ¬ 1 < n i := by omega
  constructor <;> simp [Reg.normalizeFlow, Reg.denormalizeFlow, h1]

/-- non-vacuity: a 3x2 grid meets the hypotheses, and the map is not the identity. -/
example : Reg.normalizeFlow false (fun i : Fin 2 => if i = 0 then 3 else 2) (2 : ℚ) (fun _ => 1) 0 = 2 / 3 := by
  simp [Reg.normalizeFlow]

/-- the method as it was before the repair is NOT representation independent: on a 1-D grid with
    3 samples, unit spacing, a constant GRID-axes field of 1/2 sample and zero steps it returns the
    field scaled as if it were given in cube units. -/
theorem C10_exp_unrepaired_refuted :
    ¬ (∀ (g : Grid 1 ℚ) (f : VField 1 ℚ),
        flowAxes g .grid .world (flowExpUnrepaired g (fun _ => 3) .grid 2 0 f)
          = flowAxes g .cube .world (flowExpUnrepaired g (fun _ => 3) .cube 2 0 (flowAxes g .grid .cube f))) := by
  intro hall
  have := hall ⟨fun _ => 3, fun _ => 0, fun _ => 1, fun _ _ => 1, true⟩ (fun _ _ => 1 / 2)
  have h0 := congrFun (congrFun this (fun _ => 0)) 0
  simp [flowAxes, flowExpUnrepaired, expAxes, expv, Grid.transformVectors, Grid.sizeTensor, Grid.affine, Mat.mul,
    Mat.diag, Mat.mulVec, sumFin, Vec.smul, Vec.mul, HasFloor.ceil] at h0
  norm_num at h0

end Deepali
