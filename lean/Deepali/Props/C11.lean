/-
  Props/C11.lean — property C11: scaling and squaring equals the closed form for affine
  velocity fields.

  OBLIGATIONS: C11_step C11_closed_form C11_closed_form_matrix_power C11_zero_steps C11_inverse_flag C11_inverse_is_negated_field
    C11_hull_invariant C11_convention_independent_hull C11_limit_diagonal_partial
    C11_expflow_inverse_state C11_svf_regrid_state

  Partial (DESIGN.md §5 C11): convergence to the matrix exponential as k grows is proved for
  diagonal generators only (`C11_limit_diagonal_partial`; the general matrix case and the
  second-order bound for smooth non-affine fields are analysis statements outside the model and are
  explored numerically by the harness — reported as exploration, not proof).
-/
import Deepali.Proofs.FlowHull
import Deepali.Proofs.AffPow
import Mathlib.Analysis.SpecialFunctions.Complex.LogBounds
import Deepali.Proofs.Examples
import Deepali.Model.ExpFlowState

set_option linter.unusedSectionVars false

namespace Deepali
open Matrix
variable {K : Type} [Field K] [LinearOrder K] [IsStrictOrderedRing K] [FloorRing K] {d : Nat}

/-- the affine velocity field `v(x) = H x + h` (normalised coordinates) sampled on the lattice. -/
def IsAffineField (ac : Bool) (n : Fin d → Nat) (H : Mat d K) (h : Vec d K) (flow : VField d K) : Prop :=
  ∀ idx, InBox n idx → flow idx = (H.mulVec (latticePoint ac n idx)).add h

/-- the first-order map `x ↦ x + s·v(x) = (I + sH) x + s h`. -/
def eulerMap (s : K) (H : Mat d K) (h : Vec d K) : Vec d K → Vec d K :=
  affMap (fun i j => (Mat.one : Mat d K) i j + s * H i j) (Vec.smul s h)

/-- one recursion step on the sampled displacement of a hull-preserving affine map `φ` yields the
    sampled displacement of `φ ∘ φ`: no clamping, no interpolation error, either convention,
    either padding mode, any dimension and grid size ≥ 2. -/
theorem C11_step (ac : Bool) (pad : Padding) (n : Fin d → Nat) (h2 : ∀ i, 2 ≤ n i)
    (M : Mat d K) (t : Vec d K) (disp : VField d K)
    (hd : ∀ idx, InBox n idx → disp idx = dispOf (affMap M t) (latticePoint ac n idx))
    (hinv : ∀ p : Vec d K, InHull ac n p → InHull ac n (affMap M t p))
    (idx : Fin d → Int) (hb : InBox n idx) :
    expvStep ac pad n disp idx = dispOf (affMap M t ∘ affMap M t) (latticePoint ac n idx) :=
  expvStep_affine ac pad n h2 M t disp hd (fun idx hb => hinv _ (latticePoint_inHull ac n h2 idx hb)) idx hb

theorem smul_affine_eq_dispOf (s : K) (H : Mat d K) (h x : Vec d K) :
    Vec.smul s ((H.mulVec x).add h) = dispOf (eulerMap s H h) x := by
  funext c
  simp only [Vec.smul, dispOf, eulerMap, affMap, vadd_eq, vsub_eq, Pi.add_apply, Pi.sub_apply, Mat.mulVec,
    sumFin_eq, add_mul, Finset.sum_add_distrib]
  have : ∑ j, (Mat.one : Mat d K) c j * x j = x c := by simp [Mat.one, Finset.sum_ite_eq]
  rw [this]
  have : ∑ j, s * H c j * x j = s * ∑ j, H c j * x j := by
    rw [Finset.mul_sum]; exact Finset.sum_congr rfl (fun j _ => by ring)
  rw [this]; ring

/-- **closed form**: for an affine velocity field with generator `(H, h)` whose first-order map
    `I + (scale/2^k)·(H, h)` keeps the sample hull invariant, `expv` with `k` squaring steps equals,
    at every grid point, the displacement of that map iterated `2^k` times, i.e. of
    `(I + H/2^k)^(2^k)` — exactly, for every `k`, either convention, either padding, any dimension. -/
theorem C11_closed_form (ac : Bool) (pad : Padding) (n : Fin d → Nat) (h2 : ∀ i, 2 ≤ n i) (scale : K)
    (steps : Nat) (H : Mat d K) (h : Vec d K) (flow : VField d K) (hf : IsAffineField ac n H h flow)
    (hinv : ∀ p : Vec d K, InHull ac n p →
      InHull ac n (eulerMap (scale / ((2 ^ steps : Nat) : K)) H h p))
    (idx : Fin d → Int) (hb : InBox n idx) :
    expv ac pad n scale false steps flow idx
      = dispOf ((eulerMap (scale / ((2 ^ steps : Nat) : K)) H h)^[2 ^ steps]) (latticePoint ac n idx) := by
  unfold expv
  simp only [Bool.false_eq_true, if_false]
  split
  · next h0 =>
    subst h0
    simp only [pow_zero, Nat.cast_one, div_one, Function.iterate_one]
    rw [hf idx hb, smul_affine_eq_dispOf]
  · exact iter_expvStep_affine ac pad n h2 steps _ _ _
      (fun idx hb => by rw [hf idx hb, smul_affine_eq_dispOf]; rfl) hinv idx hb

/-- the same closed form written with a matrix power, as the property states it: the displacement at
    grid point `x` is `(I + sH)^(2^k) x + (Σ_{i<2^k} (I + sH)^i) s h − x` with `s = scale / 2^k`
    (`^` is Mathlib's matrix power). -/
theorem C11_closed_form_matrix_power (ac : Bool) (pad : Padding) (n : Fin d → Nat) (h2 : ∀ i, 2 ≤ n i) (scale : K)
    (steps : Nat) (H : Mat d K) (h : Vec d K) (flow : VField d K) (hf : IsAffineField ac n H h flow)
    (hinv : ∀ p : Vec d K, InHull ac n p →
      InHull ac n (eulerMap (scale / ((2 ^ steps : Nat) : K)) H h p))
    (idx : Fin d → Int) (hb : InBox n idx) :
    let s : K := scale / ((2 ^ steps : Nat) : K)
    let M : Mat d K := fun i j => (Mat.one : Mat d K) i j + s * H i j
    expv ac pad n scale false steps flow idx
      = ((toM M) ^ (2 ^ steps)) *ᵥ (latticePoint ac n idx : Vec d K)
          + iterTrans M (Vec.smul s h) (2 ^ steps) - latticePoint ac n idx := by
  intro s M
  rw [C11_closed_form ac pad n h2 scale steps H h flow hf hinv idx hb]
  simp only [dispOf, eulerMap, vsub_eq]
  rw [affMap_iterate]

/-- zero steps return the scaled input. -/
theorem C11_zero_steps (ac : Bool) (pad : Padding) (n : Fin d → Nat) (scale : K) (flow : VField d K)
    (idx : Fin d → Int) : expv ac pad n scale false 0 flow idx = Vec.smul scale (flow idx) := by
  simp [expv]

/-- the `inverse` flag equals negating the scale … -/
theorem C11_inverse_flag (ac : Bool) (pad : Padding) (n : Fin d → Nat) (scale : K) (steps : Nat)
    (flow : VField d K) :
    expv ac pad n scale true steps flow = expv ac pad n (-scale) false steps flow := by
  simp [expv]

/-- … and equals negating the field. -/
theorem C11_inverse_is_negated_field (ac : Bool) (pad : Padding) (n : Fin d → Nat) (scale : K) (steps : Nat)
    (flow : VField d K) :
    expv ac pad n scale true steps flow = expv ac pad n scale false steps (fun idx => (flow idx).neg) := by
  have hs : ∀ (a : K) (v : Vec d K), Vec.smul (-a) v = Vec.smul a v.neg := by
    intro a v; funext i; simp [Vec.smul, Vec.neg]
  have e : -scale / ((2 ^ steps : Nat) : K) = -(scale / ((2 ^ steps : Nat) : K)) := neg_div _ _
  simp only [expv, if_true, Bool.false_eq_true, if_false, hs, e]

/-- a sufficient, checkable condition for hull invariance: rows of `M = I + sH` dominated in the
    weighted ∞-norm, which is what "(weighted) diagonally dominant with negative diagonal"
    generators give. -/
theorem C11_hull_invariant (ac : Bool) (n : Fin d → Nat) (h2 : ∀ i, 2 ≤ n i) (M : Mat d K) (t : Vec d K)
    (hdom : ∀ i, ∑ j, |M i j| * hullRadius ac (n j) + |t i| ≤ hullRadius ac (n i))
    (p : Vec d K) (hp : InHull ac n p) : InHull ac n (affMap M t p) :=
  affMap_hull_invariant ac n h2 M t hdom p hp

/-- the hull is the same set of *indices* in both conventions: lattice points of either
    convention un-normalise to the integer indices. -/
theorem C11_convention_independent_hull (ac : Bool) (n : Fin d → Nat) (h2 : ∀ i, 2 ≤ n i) (idx : Fin d → Int)
    (i : Fin d) : unnormalize ac ((n i : Nat) : K) ((latticePoint ac n idx : Vec d K) i) = ((idx i : Int) : K) := by
  simp only [latticePoint, unnormalize_coordAt _ (h2 i)]

/-- **partial** (diagonal generators, real scalars): the closed-form factor `(1 + a/2^k)^(2^k)` of
    `C11_closed_form_matrix_power` converges to `exp a` as the number of squaring steps grows, i.e. the
    result converges to the matrix exponential entrywise for `H = diag(a_1, …, a_d)`. The general
    (non-commuting) matrix case is not proved. -/
theorem C11_limit_diagonal_partial (a : ℝ) :
    Filter.Tendsto (fun k : ℕ => (1 + a / (2 : ℝ) ^ k) ^ (2 ^ k)) Filter.atTop (nhds (Real.exp a)) := by
  have h := Real.tendsto_one_add_div_pow_exp a
  have hsub : Filter.Tendsto (fun k : ℕ => 2 ^ k) Filter.atTop Filter.atTop :=
    tendsto_pow_atTop_atTop_of_one_lt (by norm_num)
  have := h.comp hsub
  refine this.congr (fun k => ?_)
  simp [Function.comp]

/-! ### the state of the exponential (`scale`, `steps`, `align_corners`) through the module and transform layers
  (Model/ExpFlowState.lean; the generated obligations `gen_expflow_*`, `gen_svf_*` of harness/gen/C11.lean.in tie these
  definitions to the current text of `ExpFlow.inverse` / `.inv` / `.forward` and of
  `StationaryVelocityFieldTransform.grid_` / `.inverse`). -/

/-- `ExpFlow.inverse()` (and the property `.inv`): `steps` and `align_corners` are kept, `scale` is negated, twice is the
    identity; applying the inverse module equals applying the module with `inverse=True`, which equals `expv` called with
    the module's `scale`, `steps`, `align_corners` and ITS `inverse=True` (`C11_inverse_flag`), i.e. "exp(−v) is computed
    by negating the scale" holds at the module layer with the convention the module was given. -/
theorem C11_expflow_inverse_state (cfg : ExpFlowCfg K) (n : Fin d → Nat) (v : VField d K) :
    cfg.inverse.steps = cfg.steps ∧ cfg.inverse.alignCorners = cfg.alignCorners ∧ cfg.inverse.scale = -cfg.scale
    ∧ cfg.inverse.inverse = cfg
    ∧ cfg.inverse.apply n v false = cfg.apply n v true
    ∧ cfg.apply n v true = expv cfg.alignCorners .border n cfg.scale true cfg.steps v
    ∧ cfg.apply n v false = expv cfg.alignCorners .border n cfg.scale false cfg.steps v := by
  refine ⟨rfl, rfl, ?_, ?_, rfl, ?_, rfl⟩
  · simp [ExpFlowCfg.inverse]
  · cases cfg; simp [ExpFlowCfg.inverse]
  · rw [C11_inverse_flag]; simp [ExpFlowCfg.apply, ExpFlowCfg.expvArgs]

/-- `StationaryVelocityFieldTransform.grid_` (re-gridding onto a grid whose `align_corners()` is `b`): `scale` and `steps`
    are kept and `align_corners` becomes `b`; re-gridding commutes with `inverse()`; re-gridding onto the same convention
    is the identity and re-gridding is idempotent; and the exponential an inverted, re-gridded transform evaluates
    (`update`: `self.exp(v)`) is `expv` with the NEGATED scale, the SAME steps and the NEW grid's convention — in either
    order of the two operations. -/
theorem C11_svf_regrid_state (cfg : ExpFlowCfg K) (b : Bool) (n : Fin d → Nat) (v : VField d K) :
    (svfRegrid cfg b).scale = cfg.scale ∧ (svfRegrid cfg b).steps = cfg.steps ∧ (svfRegrid cfg b).alignCorners = b
    ∧ svfRegrid (svfInverse cfg) b = svfInverse (svfRegrid cfg b)
    ∧ svfRegrid cfg cfg.alignCorners = cfg
    ∧ svfRegrid (svfRegrid cfg b) b = svfRegrid cfg b
    ∧ (svfRegrid cfg b).apply n v false = expv b .border n cfg.scale false cfg.steps v
    ∧ (svfRegrid (svfInverse cfg) b).apply n v false = expv b .border n (-cfg.scale) false cfg.steps v
    ∧ (svfInverse (svfRegrid cfg b)).apply n v false = expv b .border n (-cfg.scale) false cfg.steps v := by
  obtain ⟨s, k, a⟩ := cfg
  cases a <;> cases b <;>
    simp [svfRegrid, svfInverse, ExpFlowCfg.inverse, ExpFlowCfg.withAlignCorners, ExpFlowCfg.apply, ExpFlowCfg.expvArgs]

/-! non-vacuity: `scale = 1/2`, `steps = 5`, `align_corners = True`, inverted and re-gridded onto an `align_corners = False`
    grid — the flag really changes, the scale really flips, the steps stay. -/
example : svfRegrid (svfInverse (⟨1 / 2, 5, true⟩ : ExpFlowCfg ℚ)) false = ⟨-(1 / 2), 5, false⟩
    ∧ svfRegrid (⟨1 / 2, 5, true⟩ : ExpFlowCfg ℚ) true = ⟨1 / 2, 5, true⟩
    ∧ (⟨1 / 2, 5, true⟩ : ExpFlowCfg ℚ).inverse ≠ ⟨1 / 2, 5, true⟩ := by
  refine ⟨?_, ?_, ?_⟩ <;> simp [svfRegrid, svfInverse, ExpFlowCfg.inverse, ExpFlowCfg.withAlignCorners]
  norm_num

/-! ### non-vacuity: a contracting generator on a 5×4 grid satisfies the domination hypothesis -/

example : ∀ i : Fin 2, ∑ j, |(![![(1:ℚ)/2, 1/8], ![-1/8, 1/2]] : Mat 2 ℚ) i j| * hullRadius true ((![5, 4] : Fin 2 → Nat) j)
    + |(![1/8, -1/4] : Vec 2 ℚ) i| ≤ hullRadius true ((![5, 4] : Fin 2 → Nat) i) := by
  intro i; fin_cases i <;> simp [hullRadius, Fin.sum_univ_two, abs_of_pos] <;> norm_num

end Deepali
