/-
  Props/C12.lean — property C12: spatial derivatives of flow fields are exact on polynomial fields.
  Only property theorems and non-vacuity examples; helper lemmas are in Deepali/Proofs/FD*.lean.

  Conventions. A sampled affine function is `affField s h c idx = Σ_j s_j (h_j idx_j) + c`: the grid
  point `idx` has physical coordinate `x_j = h_j · idx_j` (an origin is absorbed in `c`), so `s_j` is
  the analytic partial derivative and `h_j = spacing[b, j]` of the batch item at hand. `sdStep` is one
  first-derivative step of `spatial_derivatives` (dilation 1), `finiteDifferences` the 1-D scheme of
  `finite_differences` (any dilation). The sign convention of the Lie bracket is the code's:
  `lie_bracket(v, u) = Jac(v) u − Jac(u) v`.

  Data-type entry point. `FlowFields.curl` / `FlowField.curl` (data/flow.py) derive the spacing they pass to `U.curl`
  from the axes of the flow field when the caller gives none (Model/CurlSpacing `curlDefaultSpacing`, re-translated
  from the source on every run, harness/gen/C12.lean.in). `C12_curl_default_spacing_is_axes_step`: that spacing is the
  step between neighbouring grid points in those axes (`fromGrid`, the C01 coordinate maps);
  `C12_flowfields_curl_affine`: hence the curl of an affine field of the axes coordinates is exact.

  Not proved here: `C12_bspline_mode` (values = analytic spline derivatives) belongs to C14 (the B-spline
  weights are taken as given); the dictionary logic of the B-spline branch IS proved (`*_bspline`), its
  values are tied by correspondence and an independent analytic oracle. `C12_jacdet_perm`:
  the permutation fallback of `jacobian_det` is dead code (D outside {2, 3} is rejected earlier).

  OBLIGATIONS: C12_fd_affine_forward C12_fd_affine_backward C12_fd_affine_central
    C12_fd_affine_forward_central_backward C12_sobel_prewitt_affine C12_fd_affine_dilation
    C12_spacing C12_spacing_forms
    C12_jacdet_2 C12_jacdet_3 C12_div C12_curl C12_lie_affine
    C12_jacobian_affine_2 C12_jacobian_affine_3 C12_div_curl_affine_2 C12_div_curl_affine_3
    C12_second_affine_zero C12_second_quadratic C12_mixed_symmetric C12_subset C12_subset_flow
    C12_subset_bspline C12_subset_flow_bspline C12_mixed_symmetric_bspline
    C12_curl_default_spacing_is_axes_step C12_flowfields_curl_affine

-/
import Deepali.Proofs.FDCalc
import Deepali.Proofs.FDQuad
import Deepali.Proofs.FDQuadAvg
import Deepali.Proofs.FDDict
import Deepali.Proofs.FDAffine2
import Deepali.Proofs.FDCurlSpacing
import Deepali.Proofs.Examples
import Mathlib.Tactic.NormNum
import Mathlib.Tactic.FinCases

set_option linter.unusedSectionVars false

namespace Deepali
open Matrix FD
variable {K : Type} [Field K] [CharZero K] {D : Nat}

/-! ### first derivatives of affine fields, one theorem per scheme (any dimension, any size) -/

/-- forward differences (replicate padding at the upper end): exact wherever `idx_a + 1` is inside. -/
theorem C12_fd_affine_forward (sz : Fin D → Nat) (s h : Fin D → K) (c : K) (a : Fin D) (hh : h a ≠ 0)
    (idx : Idx D) (h0 : 0 ≤ idx a) (h1 : idx a + 1 < sz a) :
    sdStep .forward sz h a (affField s h c) idx = s a := by
  rw [sdStep_noavg .forward rfl]
  have := fd_forward_affine (n := sz a) (dil := 1) (h := h a) ((affField_affineAlong s h c a).line idx) hh
    (by norm_num) h0 (by simpa using h1)
  simp only [SDMode.fdMode]; rw [this]; field_simp

/-- backward differences (replicate padding at the lower end): exact for `1 ≤ idx_a < n`. -/
theorem C12_fd_affine_backward (sz : Fin D → Nat) (s h : Fin D → K) (c : K) (a : Fin D) (hh : h a ≠ 0)
    (idx : Idx D) (h0 : 1 ≤ idx a) (h1 : idx a < sz a) :
    sdStep .backward sz h a (affField s h c) idx = s a := by
  rw [sdStep_noavg .backward rfl]
  have := fd_backward_affine (n := sz a) (dil := 1) (h := h a) ((affField_affineAlong s h c a).line idx) hh
    (by norm_num) (by simpa using h0) h1
  simp only [SDMode.fdMode]; rw [this]; field_simp

/-- central differences (replicate padding at both ends): exact at interior indices. -/
theorem C12_fd_affine_central (sz : Fin D → Nat) (s h : Fin D → K) (c : K) (a : Fin D) (hh : h a ≠ 0)
    (idx : Idx D) (h0 : 1 ≤ idx a) (h1 : idx a + 1 < sz a) :
    sdStep .central sz h a (affField s h c) idx = s a := by
  rw [sdStep_noavg .central rfl]
  have := fd_central_affine (n := sz a) (dil := 1) (h := h a) ((affField_affineAlong s h c a).line idx) hh
    (by norm_num) (by simpa using h0) (by simpa using h1)
  simp only [SDMode.fdMode]; rw [this]; field_simp

/-- forward_central_backward (the default): exact at EVERY grid point. -/
theorem C12_fd_affine_forward_central_backward (sz : Fin D → Nat) (s h : Fin D → K) (c : K) (a : Fin D)
    (hh : h a ≠ 0) (hn : 2 ≤ sz a) (idx : Idx D) (h0 : 0 ≤ idx a) (h1 : idx a < sz a) :
    sdStep .fcb sz h a (affField s h c) idx = s a := by
  rw [sdStep_noavg .fcb rfl]
  have := fd_fcb_affine (n := sz a) (dil := 1) (h := h a) ((affField_affineAlong s h c a).line idx) hh
    (by norm_num) (by simpa using hn) h0 h1
  simp only [SDMode.fdMode]; rw [this]; field_simp

/-- prewitt / sobel = replicate-padded 3-tap averaging along every other axis (repair of F-17d), then
    forward_central_backward: exact at EVERY grid point — any in-range index on the differentiated axis,
    no condition on the other coordinates (before the repair the zero-padded averaging needed margin 1
    on the perpendicular axes). -/
theorem C12_sobel_prewitt_affine (mode : SDMode) (hmode : mode = .prewitt ∨ mode = .sobel)
    (sz : Fin D → Nat) (s h : Fin D → K) (c : K) (a : Fin D) (hh : h a ≠ 0) (hn : 2 ≤ sz a)
    (idx : Idx D) (h0 : 0 ≤ idx a) (h1 : idx a < sz a) :
    sdStep mode sz h a (affField s h c) idx = s a := by
  have hF : AffineAlong (affField s h c) a (s a * h a) := affField_affineAlong s h c a
  rcases hmode with rfl | rfl
  · obtain ⟨hs, _⟩ := avgKernel_prewitt_ok (K := K) _ rfl
    rw [sdStep_avg_affine_everywhere .prewitt _ rfl rfl hs sz h a _ _ hF hh hn idx h0 h1]; field_simp
  · obtain ⟨hs, _⟩ := avgKernel_sobel_ok (K := K) _ rfl
    rw [sdStep_avg_affine_everywhere .sobel _ rfl rfl hs sz h a _ _ hF hh hn idx h0 h1]; field_simp

/-- `finite_differences` itself, any dilation `dil ≥ 1`, on a 1-D affine signal `f k = s·(h k) + c`:
    forward on `[0, n−dil)`, backward on `[dil, n)`, central on `[dil, n−dil)`,
    forward_central_backward on all of `[0, n)` (the code requires `n ≥ 2·dil`). -/
theorem C12_fd_affine_dilation (n dil : Nat) (hd : 0 < dil) (s h c : K) (hh : h ≠ 0) (k : Int) :
    let f : Int → K := fun k => s * (h * (k : K)) + c
    (0 ≤ k → k + dil < n → finiteDifferences .forward n dil h f k = s) ∧
    ((dil : Int) ≤ k → k < n → finiteDifferences .backward n dil h f k = s) ∧
    ((dil : Int) ≤ k → k + dil < n → finiteDifferences .central n dil h f k = s) ∧
    (2 * dil ≤ n → 0 ≤ k → k < n → finiteDifferences .fcb n dil h f k = s) := by
  intro f
  have hf : IsAffine1 f (s * h) := by intro k l; simp only [f]; ring
  refine ⟨fun h0 h1 => ?_, fun h0 h1 => ?_, fun h0 h1 => ?_, fun hn h0 h1 => ?_⟩
  · rw [fd_forward_affine hf hh hd h0 h1]; field_simp
  · rw [fd_backward_affine hf hh hd h0 h1]; field_simp
  · rw [fd_central_affine hf hh hd h0 h1]; field_simp
  · rw [fd_fcb_affine hf hh hd hn h0 h1]; field_simp

example : sdStep (α := Rat) .central (fun _ : Fin 2 => 5) (fun _ => 1 / 2) 0
    (affField (fun j => if j = 0 then 3 else 7) (fun _ => 1 / 2) 1) (fun _ => 2) = 3 :=
  C12_fd_affine_central _ _ _ _ 0 (by norm_num) _ (by decide) (by decide)

/-! ### spacing -/

/-- every scheme divides by the spacing entry of its own axis (`spacing[b, sdim]`): the value with
    spacing `h` is the unit-spacing value divided by `h a`, at every point, for every mode and field. -/
theorem C12_spacing (mode : SDMode) (sz : Fin D → Nat) (h : Fin D → K) (a : Fin D) (F : Arr D K) (idx : Idx D) :
    sdStep mode sz h a F idx = sdStep mode sz (fun _ => 1) a F idx / h a := by
  have q : ∀ X c : K, X / (h a * c) = X / (1 * c) / h a := by
    intro X c; rw [one_mul, div_div, mul_comm]
  have key : ∀ (G : Arr D K), alongAxis a (finiteDifferences mode.fdMode (sz a) 1 (h a)) G idx
      = alongAxis a (finiteDifferences mode.fdMode (sz a) 1 (1 : K)) G idx / h a := by
    intro G
    simp only [alongAxis]
    cases mode.fdMode <;> simp only [finiteDifferences, finiteDifference]
    · exact q _ _
    · exact q _ _
    · exact q _ _
    · split_ifs <;> exact q _ _
  unfold sdStep
  exact key _

/-- the accepted forms of the `spacing` argument are accepted and expand to the (N, D) matrix one
    expects: scalar; per-axis vector of length D; per-batch-item matrix N×D; per-batch-item
    isotropic N×1 (entries `spacing[b, d]`, `b < N`, `d < D`). -/
theorem C12_spacing_forms (N : Nat) :
    (∀ (s : K), ∃ m, expandSpacing N D (.scalar s) = .ok m ∧ ∀ b d, m b d = s) ∧
    (∀ (v : List K), v.length = D → ∃ m, expandSpacing N D (.vec v) = .ok m ∧
        ∀ b (d : Fin D), m b d = v.getD d 0) ∧
    (∀ (rows : List (List K)), rows.length = N → 1 < N → (∀ r ∈ rows, r.length = D) → 1 < D →
        ∃ m, expandSpacing N D (.mat rows) = .ok m ∧
          ∀ (b : Fin N) (d : Fin D), m b d = (rows.getD b []).getD d 0) ∧
    (∀ (rows : List (List K)), rows.length = N → 1 < N → (∀ r ∈ rows, r.length = 1) →
        ∃ m, expandSpacing N D (.mat rows) = .ok m ∧
          ∀ (b : Fin N) (d : Fin D), m b d = (rows.getD b []).getD 0 0) := by
  refine ⟨?_, ?_, ?_, ?_⟩
  · intro s
    exact ⟨_, rfl, fun _ _ => rfl⟩
  · intro v hv
    have hc : v.length = 1 ∨ v.length = D := Or.inr hv
    refine ⟨_, by simp only [expandSpacing]; rw [if_pos hc], ?_⟩
    intro b d
    by_cases h1 : v.length = 1
    · have : (d : Nat) = 0 := by omega
      simp [h1, this]
    · simp [h1]
  · intro rows hN hN1 hr hD
    match rows, hN, hr with
    | [], hN, _ => simp at hN; omega
    | r0 :: rs, hN, hr =>
      have hr0 : r0.length = D := hr r0 (by simp)
      have hall : ((r0 :: rs).all fun r => decide (r.length = r0.length)) = true := by
        simp only [List.all_eq_true, decide_eq_true_eq]
        intro r hrm; rw [hr r hrm, hr0]
      have hc : ((r0 :: rs).length = 1 ∨ (r0 :: rs).length = N) ∧ (r0.length = 1 ∨ r0.length = D) :=
        ⟨Or.inr hN, Or.inr hr0⟩
      refine ⟨_, by simp only [expandSpacing]; rw [if_pos hall, if_pos hc], ?_⟩
      intro b d
      have hN' : (r0 :: rs).length ≠ 1 := by omega
      have hD' : r0.length ≠ 1 := by omega
      have hrs : rs ≠ [] := by intro e; subst e; simp at hN'
      simp [hN', hD', hrs]
  · intro rows hN hN1 hr
    match rows, hN, hr with
    | [], hN, _ => simp at hN; omega
    | r0 :: rs, hN, hr =>
      have hr0 : r0.length = 1 := hr r0 (by simp)
      have hall : ((r0 :: rs).all fun r => decide (r.length = r0.length)) = true := by
        simp only [List.all_eq_true, decide_eq_true_eq]
        intro r hrm; rw [hr r hrm, hr0]
      have hc : ((r0 :: rs).length = 1 ∨ (r0 :: rs).length = N) ∧ (r0.length = 1 ∨ r0.length = D) :=
        ⟨Or.inr hN, Or.inl hr0⟩
      refine ⟨_, by simp only [expandSpacing]; rw [if_pos hall, if_pos hc], ?_⟩
      intro b d
      have hN' : (r0 :: rs).length ≠ 1 := by omega
      have hrs : rs ≠ [] := by intro e; subst e; simp at hN'
      simp [hN', hr0, hrs]

/-! ### determinant, divergence, curl, Lie bracket: the closed forms of the code -/

/-- 2-D closed form of `jacobian_det` = `Matrix.det` of the Jacobian, with and without identity. -/
theorem C12_jacdet_2 (J : Fin 2 → Fin 2 → K) (addId : Bool) :
    jacobianDetPt 2 (addIdentityPt addId J) = some (Matrix.det (toM J + (if addId then 1 else 0))) := by
  simp only [jacobianDetPt, det2_eq, addIdentityPt_eq]

/-- 3-D closed form of `jacobian_det` = `Matrix.det` of the Jacobian, with and without identity. -/
theorem C12_jacdet_3 (J : Fin 3 → Fin 3 → K) (addId : Bool) :
    jacobianDetPt 3 (addIdentityPt addId J) = some (Matrix.det (toM J + (if addId then 1 else 0))) := by
  simp only [jacobianDetPt, det3_eq, addIdentityPt_eq]

/-- the in-place sum of `divergence` is the trace of the Jacobian (any dimension ≥ 1). -/
theorem C12_div (J : Fin (D + 1) → Fin (D + 1) → K) : divergencePt J = some (Matrix.trace (toM J)) :=
  divergencePt_eq J

/-- `curl`: scalar `∂v/∂x − ∂u/∂y` in 2-D; `(∂w/∂y − ∂v/∂z, ∂u/∂z − ∂w/∂x, ∂v/∂x − ∂u/∂y)` in 3-D,
    i.e. component `k` is `J (k+2) (k+1) − J (k+1) (k+2)` (indices mod 3). -/
theorem C12_curl :
    (∀ J : Fin 2 → Fin 2 → K, curlPt 2 J = some [J 1 0 - J 0 1]) ∧
    (∀ J : Fin 3 → Fin 3 → K, ∃ c : Fin 3 → K, curlPt 3 J = some [c 0, c 1, c 2] ∧
        ∀ k : Fin 3, c k = J (k + 2) (k + 1) - J (k + 1) (k + 2)) := by
  refine ⟨fun J => rfl, fun J => ⟨fun k => J (k + 2) (k + 1) - J (k + 1) (k + 2), ?_, fun k => rfl⟩⟩
  rfl

section Pipeline

/-- the points at which every first derivative of an affine field is exact for a scheme. -/
def ExactAt (mode : SDMode) (sz : Fin D → Nat) (idx : Idx D) : Prop :=
  match mode with
  | .forward => ∀ a, 0 ≤ idx a ∧ idx a + 1 < (sz a : Int)
  | .backward => ∀ a, 1 ≤ idx a ∧ idx a < (sz a : Int)
  | .central => ∀ a, 1 ≤ idx a ∧ idx a + 1 < (sz a : Int)
  | _ => ∀ a, 0 ≤ idx a ∧ idx a < (sz a : Int) ∧ 2 ≤ sz a      -- forward_central_backward, prewitt, sobel: every point

theorem sdStep_affine_exact (mode : SDMode) (sz : Fin D → Nat) (s h : Fin D → K) (c : K) (hh : ∀ a, h a ≠ 0)
    (idx : Idx D) (hex : ExactAt mode sz idx) (a : Fin D) :
    sdStep mode sz h a (affField s h c) idx = s a := by
  cases mode
  · exact C12_fd_affine_forward sz s h c a (hh a) idx (hex a).1 (hex a).2
  · exact C12_fd_affine_backward sz s h c a (hh a) idx (hex a).1 (hex a).2
  · exact C12_fd_affine_central sz s h c a (hh a) idx (hex a).1 (hex a).2
  · exact C12_fd_affine_forward_central_backward sz s h c a (hh a) (hex a).2.2 idx (hex a).1 (hex a).2.1
  · exact C12_sobel_prewitt_affine .prewitt (Or.inl rfl) sz s h c a (hh a) (hex a).2.2 idx (hex a).1 (hex a).2.1
  · exact C12_sobel_prewitt_affine .sobel (Or.inr rfl) sz s h c a (hh a) (hex a).2.2 idx (hex a).1 (hex a).2.1

/-- 2-D: `jacobian_matrix` and `jacobian_det` (with / without identity) of the sampled affine flow
    `u(x) = A x + t`, through the whole dictionary pipeline of `flow_derivatives`, for every scheme,
    at every point where the scheme is exact (every grid point for forward_central_backward, prewitt, sobel). -/
theorem C12_jacobian_affine_2 (mode : SDMode) (sz : Fin 2 → Nat) (A : Fin 2 → Fin 2 → K) (h t : Fin 2 → K)
    (hh : ∀ a, h a ≠ 0) (addId : Bool) (idx : Idx 2) (hex : ExactAt mode sz idx) :
    jacobianMatrix id (sdStep mode sz h) addId (affFlow A h t) idx = some (addIdentityPt addId A) ∧
    jacobianDet id (sdStep mode sz h) addId (affFlow A h t) idx
      = some (Matrix.det (toM A + (if addId then 1 else 0))) := by
  have hJ : (fun i j => id (sdStep mode sz h j (affFlow A h t i)) idx) = A := by
    funext i j; exact sdStep_affine_exact mode sz (A i) h (t i) hh idx hex j
  constructor
  · simp only [jacobianMatrix, entriesAt_jac2, hJ, Option.map]
  · simp only [jacobianDet, entriesAt_jac2, hJ, Option.bind]; exact C12_jacdet_2 A addId

/-- 3-D version of `C12_jacobian_affine_2`. -/
theorem C12_jacobian_affine_3 (mode : SDMode) (sz : Fin 3 → Nat) (A : Fin 3 → Fin 3 → K) (h t : Fin 3 → K)
    (hh : ∀ a, h a ≠ 0) (addId : Bool) (idx : Idx 3) (hex : ExactAt mode sz idx) :
    jacobianMatrix id (sdStep mode sz h) addId (affFlow A h t) idx = some (addIdentityPt addId A) ∧
    jacobianDet id (sdStep mode sz h) addId (affFlow A h t) idx
      = some (Matrix.det (toM A + (if addId then 1 else 0))) := by
  have hJ : (fun i j => id (sdStep mode sz h j (affFlow A h t i)) idx) = A := by
    funext i j; exact sdStep_affine_exact mode sz (A i) h (t i) hh idx hex j
  constructor
  · simp only [jacobianMatrix, entriesAt_jac3, hJ, Option.map]
  · simp only [jacobianDet, entriesAt_jac3, hJ, Option.bind]; exact C12_jacdet_3 A addId

/-- 2-D divergence and curl of the sampled affine flow through the pipeline. -/
theorem C12_div_curl_affine_2 (mode : SDMode) (sz : Fin 2 → Nat) (A : Fin 2 → Fin 2 → K) (h t : Fin 2 → K)
    (hh : ∀ a, h a ≠ 0) (idx : Idx 2) (hex : ExactAt mode sz idx) :
    divergence id (sdStep mode sz h) (affFlow A h t) idx = some (Matrix.trace (toM A)) ∧
    curl id (sdStep mode sz h) (affFlow A h t) idx = some [A 1 0 - A 0 1] := by
  have hJ : ∀ i j, sdStep mode sz h j (affFlow A h t i) idx = A i j :=
    fun i j => sdStep_affine_exact mode sz (A i) h (t i) hh idx hex j
  constructor
  · rw [divergence_eq2]; simp only [id, hJ, Matrix.trace, Fin.sum_univ_two, Matrix.diag, toM_apply]
  · rw [curl_eq2]; simp only [id, hJ]

/-- 3-D divergence and curl of the sampled affine flow through the pipeline. -/
theorem C12_div_curl_affine_3 (mode : SDMode) (sz : Fin 3 → Nat) (A : Fin 3 → Fin 3 → K) (h t : Fin 3 → K)
    (hh : ∀ a, h a ≠ 0) (idx : Idx 3) (hex : ExactAt mode sz idx) :
    divergence id (sdStep mode sz h) (affFlow A h t) idx = some (Matrix.trace (toM A)) ∧
    curl id (sdStep mode sz h) (affFlow A h t) idx
      = some [A 2 1 - A 1 2, A 0 2 - A 2 0, A 1 0 - A 0 1] := by
  have hJ : ∀ i j, sdStep mode sz h j (affFlow A h t i) idx = A i j :=
    fun i j => sdStep_affine_exact mode sz (A i) h (t i) hh idx hex j
  constructor
  · rw [divergence_eq3]; simp only [id, hJ, Matrix.trace, Fin.sum_univ_three, Matrix.diag, toM_apply]
  · rw [curl_eq3]; simp only [id, hJ]

/-- Lie bracket of affine fields `v = A x + a`, `u = B x + b` (D = 2 or 3), through the pipeline:
    `lie_bracket(v, u) = Jac(v) u − Jac(u) v = (A B − B A) x + (A b − B a)` at every point where the
    scheme is exact (every grid point for forward_central_backward — the default — prewitt and sobel). -/
theorem C12_lie_affine (mode : SDMode) (hD : D = 2 ∨ D = 3) (sz : Fin D → Nat) (A B : Fin D → Fin D → K)
    (h a b : Fin D → K) (hh : ∀ d, h d ≠ 0) (idx : Idx D) (hex : ExactAt mode sz idx) :
    lieBracket id (sdStep mode sz h) (affFlow A h a) (affFlow B h b) idx
      = some ((toM A * toM B - toM B * toM A) *ᵥ (coordOf h idx) + ((toM A) *ᵥ b - (toM B) *ᵥ a)) := by
  have hJA : (fun i j => id (sdStep mode sz h j (affFlow A h a i)) idx) = A := by
    funext i j; exact sdStep_affine_exact mode sz (A i) h (a i) hh idx hex j
  have hJB : (fun i j => id (sdStep mode sz h j (affFlow B h b i)) idx) = B := by
    funext i j; exact sdStep_affine_exact mode sz (B i) h (b i) hh idx hex j
  have hv : (fun i => id (affFlow A h a i) idx) = (toM A) *ᵥ (coordOf h idx) + a := affFlow_apply A h a idx
  have hu : (fun i => id (affFlow B h b i) idx) = (toM B) *ᵥ (coordOf h idx) + b := affFlow_apply B h b idx
  have fin : lieBracketPt A B ((toM A) *ᵥ (coordOf h idx) + a) ((toM B) *ᵥ (coordOf h idx) + b)
      = (toM A * toM B - toM B * toM A) *ᵥ (coordOf h idx) + ((toM A) *ᵥ b - (toM B) *ᵥ a) := by
    rw [lieBracketPt_eq, lie_affine_algebra]
  rcases hD with rfl | rfl
  · simp only [lieBracket, entriesAt_jac2, hJA, hJB, Option.bind, Option.map, hv, hu, fin]
  · simp only [lieBracket, entriesAt_jac3, hJA, hJB, Option.bind, Option.map, hv, hu, fin]

example : ExactAt (D := 2) .fcb (fun _ => 5) (fun _ => 0) := by
  intro a; simp

end Pipeline

/-- second derivatives (two derivative steps, any pair of axes, mixed or not) of a sampled AFFINE field
    vanish at EVERY grid point for forward_central_backward (the default) and — since the repair of F-17d —
    for prewitt and sobel: these schemes return the exact constant first derivative at every point of the
    slab the second step reads from (replicate padding and the one-sided boundary stencils only read
    in-range samples). -/
theorem C12_second_affine_zero (mode : SDMode) (hmode : mode = .fcb ∨ mode = .prewitt ∨ mode = .sobel)
    (sz : Fin D → Nat) (hsz : ∀ d, 2 ≤ sz d) (s h : Fin D → K) (c : K) (hh : ∀ d, h d ≠ 0) (a b : Fin D)
    (idx : Idx D) (hbox : ∀ d, 0 ≤ idx d ∧ idx d < (sz d : Int)) :
    sdStep mode sz h b (sdStep mode sz h a (affField s h c)) idx = 0 := by
  have hfd : mode.fdMode = .fcb := by rcases hmode with rfl | rfl | rfl <;> rfl
  have hw : ∀ w : K × K × K, (mode.avgKernel : Option (K × K × K)) = some w → w.1 + w.2.1 + w.2.2 = 1 := by
    intro w hk
    rcases hmode with rfl | rfl | rfl
    · simp [SDMode.avgKernel] at hk
    · exact (avgKernel_prewitt_ok w hk).1
    · exact (avgKernel_sobel_ok w hk).1
  have hG : ∀ j : Idx D, 0 ≤ j a → j a < sz a → sdStep mode sz h a (affField s h c) j = s a := by
    intro j j0 j1
    rcases hmode with rfl | rfl | rfl
    · exact C12_fd_affine_forward_central_backward sz s h c a (hh a) (hsz a) j j0 j1
    · exact C12_sobel_prewitt_affine .prewitt (Or.inl rfl) sz s h c a (hh a) (hsz a) j j0 j1
    · exact C12_sobel_prewitt_affine .sobel (Or.inr rfl) sz s h c a (hh a) (hsz a) j j0 j1
  exact sdStep_const_slab mode hfd hw sz hsz h a b (s a) _ hG idx hbox

/-! ### stretch: second derivatives, mixed derivatives, key subsets -/

/-- margin-2 interior (the composed stencil of two derivative steps does not touch the padding). -/
def Interior2 (sz : Fin D → Nat) (idx : Idx D) : Prop := ∀ d, 2 ≤ idx d ∧ idx d + 2 < (sz d : Int)

/-- with EVERY scheme (forward, backward, central, forward_central_backward, prewitt, sobel), two
    derivative steps — the way `spatial_derivatives` composes second derivatives — of the sampled
    quadratic `Σ Q_ij x_i x_j + Σ L_i x_i + c` return the analytic `∂_a ∂_b = Q_ab + Q_ba` at every
    margin-2 interior point (any dimension, any size, any non-zero spacing). -/
theorem C12_second_quadratic (mode : SDMode) (sz : Fin D → Nat) (Q : Fin D → Fin D → K) (L h : Fin D → K)
    (c : K) (a b : Fin D) (hh : ∀ d, h d ≠ 0) (idx : Idx D) (hint : Interior2 sz idx) :
    sdStep mode sz h b (sdStep mode sz h a (quadField Q L h c)) idx = Q a b + Q b a := by
  by_cases hp : mode = .prewitt
  · subst hp
    obtain ⟨hs, hy⟩ := avgKernel_prewitt_ok (K := K) _ rfl
    exact sdStep_avg_quad_second .prewitt _ rfl rfl hs hy sz Q L h c a b hh idx hint
  by_cases hs : mode = .sobel
  · subst hs
    obtain ⟨hs, hy⟩ := avgKernel_sobel_ok (K := K) _ rfl
    exact sdStep_avg_quad_second .sobel _ rfl rfl hs hy sz Q L h c a b hh idx hint
  have hm : (mode.avgKernel : Option (K × K × K)) = none := by
    cases mode <;> simp_all [SDMode.avgKernel]
  exact sdStep_quad_second mode hm sz Q L h c a b (hh a) (hh b) idx (hint a) (hint b)

example : Interior2 (D := 2) (fun _ => 5) (fun _ => 2) := by intro d; simp

/-- mixed derivatives are symmetric: (1) in the returned dictionary a key and any permutation of its
    letters (same sorted key) carry the same value, for every mode; (2) for the schemes without
    averaging the two orders of differentiation agree as operators, on every field at every point. -/
theorem C12_mixed_symmetric {A : Type} (step : Fin D → A → A) (data : A) (which : List (DKey D)) :
    (∀ k k', k ∈ which → k' ∈ which → sortKey k = sortKey k' →
        assoc k (spatialDerivativesFD step data which) = assoc k' (spatialDerivativesFD step data which)) ∧
    (∀ (mode : SDMode), mode ≠ .prewitt ∧ mode ≠ .sobel → ∀ (sz : Fin D → Nat) (h : Fin D → K) (a b : Fin D),
        a ≠ b → ∀ F : Arr D K,
        sdStep mode sz h b (sdStep mode sz h a F) = sdStep mode sz h a (sdStep mode sz h b F)) := by
  constructor
  · intro k k' hk hk' hs
    unfold spatialDerivativesFD
    simp only
    rw [assoc_map_self _ _ k ((mem_dedupFirst k which).mpr hk),
      assoc_map_self _ _ k' ((mem_dedupFirst k' which).mpr hk'), hs]
  · intro mode hmode sz h a b hab F
    have hm : (mode.avgKernel : Option (K × K × K)) = none := by
      cases mode <;> simp_all [SDMode.avgKernel]
    have e : ∀ (c : Fin D) (G : Arr D K), sdStep mode sz h c G
        = alongAxis c (finiteDifferences mode.fdMode (sz c) 1 (h c)) G := by
      intro c G; funext idx; rw [sdStep_noavg mode hm]; rfl
    rw [e, e, e, e]
    exact alongAxis_comm_fd _ _ _ _ _ _ _ _ hab F

/-- requesting a subset returns the same values as requesting all: the value returned for a
    (non-empty) key is the chain of derivative steps along its sorted letters, whatever the set of
    requested keys (any number of keys, any orders, duplicates allowed). -/
theorem C12_subset {A : Type} (step : Fin D → A → A) (data : A) (which which' : List (DKey D)) (k : DKey D)
    (hne : k ≠ []) (hk : k ∈ which) (hk' : k ∈ which') :
    assoc k (spatialDerivativesFD step data which) = some (some (chain step (sortKey k) data)) ∧
    assoc k (spatialDerivativesFD step data which) = assoc k (spatialDerivativesFD step data which') := by
  rw [spatialDerivativesFD_spec step data which k hk hne, spatialDerivativesFD_spec step data which' k hk' hne]
  exact ⟨rfl, rfl⟩

/-- the same for `flow_derivatives` (grouping per component, sorted unique keys per component,
    lookup by sorted key): the value returned for `d<i>/d<k>` is the chain of derivative steps along
    the sorted letters of `k` applied to component `i`, for any two requests containing the key. -/
theorem C12_subset_flow {A : Type} (step : Fin D → A → A) (u : Fin D → A) (which which' : List (FKey D))
    (i : Fin D) (k : DKey D) (hne : k ≠ []) (hk : (i, k) ∈ which) (hk' : (i, k) ∈ which') :
    assoc (i, k) (flowDerivatives (fun i keys => spatialDerivativesFD step (u i) keys) which)
        = some (some (chain step (sortKey k) (u i))) ∧
    assoc (i, k) (flowDerivatives (fun i keys => spatialDerivativesFD step (u i) keys) which)
        = assoc (i, k) (flowDerivatives (fun i keys => spatialDerivativesFD step (u i) keys) which') := by
  rw [flowDerivatives_spec step u which i k hk hne, flowDerivatives_spec step u which' i k hk' hne]
  exact ⟨rfl, rfl⟩

/-! ### B-spline branch (dictionary logic; the B-spline derivative values `deriv code` are given, C14) -/

/-- `spatial_derivatives(mode="bspline")` (after fix 360bf64): every requested key is returned, with the
    value computed for its sorted code, whatever else is requested — so a subset request returns the
    same values as a full request. No condition on the key. -/
theorem C12_subset_bspline {A : Type} (deriv : DKey D → A) (which which' : List (DKey D)) (k : DKey D)
    (hk : k ∈ which) (hk' : k ∈ which') :
    assoc k (spatialDerivativesBSpline deriv which) = some (some (deriv (sortKey k))) ∧
    assoc k (spatialDerivativesBSpline deriv which) = assoc k (spatialDerivativesBSpline deriv which') := by
  rw [spatialDerivativesBSpline_spec deriv which k hk, spatialDerivativesBSpline_spec deriv which' k hk']
  exact ⟨rfl, rfl⟩

/-- the same through `flow_derivatives(mode="bspline")`. -/
theorem C12_subset_flow_bspline {A : Type} (deriv : Fin D → DKey D → A) (which which' : List (FKey D))
    (i : Fin D) (k : DKey D) (hk : (i, k) ∈ which) (hk' : (i, k) ∈ which') :
    assoc (i, k) (flowDerivatives (fun i keys => spatialDerivativesBSpline (deriv i) keys) which)
        = some (some (deriv i (sortKey k))) ∧
    assoc (i, k) (flowDerivatives (fun i keys => spatialDerivativesBSpline (deriv i) keys) which)
        = assoc (i, k) (flowDerivatives (fun i keys => spatialDerivativesBSpline (deriv i) keys) which') := by
  rw [flowDerivativesBSpline_spec deriv which i k hk, flowDerivativesBSpline_spec deriv which' i k hk']
  exact ⟨rfl, rfl⟩

/-- mixed derivatives are symmetric in B-spline mode: requested keys that are permutations of each other
    (same sorted key, e.g. "xy" / "yx") are both present and carry the same value — in
    `spatial_derivatives` and in `flow_derivatives`. -/
theorem C12_mixed_symmetric_bspline {A : Type} :
    (∀ (deriv : DKey D → A) (which : List (DKey D)) (k k' : DKey D), k ∈ which → k' ∈ which →
        sortKey k = sortKey k' →
        (assoc k (spatialDerivativesBSpline deriv which)).isSome ∧
        assoc k (spatialDerivativesBSpline deriv which) = assoc k' (spatialDerivativesBSpline deriv which)) ∧
    (∀ (deriv : Fin D → DKey D → A) (which : List (FKey D)) (i : Fin D) (k k' : DKey D), (i, k) ∈ which →
        (i, k') ∈ which → sortKey k = sortKey k' →
        assoc (i, k) (flowDerivatives (fun i keys => spatialDerivativesBSpline (deriv i) keys) which)
          = assoc (i, k') (flowDerivatives (fun i keys => spatialDerivativesBSpline (deriv i) keys) which)) := by
  constructor
  · intro deriv which k k' hk hk' hs
    rw [spatialDerivativesBSpline_spec deriv which k hk, spatialDerivativesBSpline_spec deriv which k' hk', hs]
    exact ⟨rfl, rfl⟩
  · intro deriv which i k k' hk hk' hs
    rw [flowDerivativesBSpline_spec deriv which i k hk, flowDerivativesBSpline_spec deriv which i k' hk', hs]

/-! ### the data-type entry point `FlowFields.curl`: default spacing derived from the axes of the flow field -/

section CurlEntry
variable {F : Type} [Field F] [LinearOrder F] [IsStrictOrderedRing F] [FloorRing F] {d : Nat}

/-- The spacing `FlowFields.curl` passes to `U.curl` when the caller gives none (`curlDefaultSpacing`, the if / elif
    chain on `self.axes()`) is exactly the step between neighbouring grid points expressed in the axes of the flow
    field. For a valid grid of integral size `n` (`2 ≤ n i` for CUBE_CORNERS), grid axis `i`, any (continuous) grid
    index `j`, with `e_i = Pi.single i 1` and `x = fromGrid g a` the coordinates of grid points w.r.t. axes `a`:
    * the spacing is non-zero (so the division of the finite-difference schemes is a genuine one);
    * GRID, CUBE, CUBE_CORNERS: `x(j + e_i) − x(j) = spacing_i • e_i` (axis-aligned lattice);
    * WORLD: `x(j + e_i) − x(j) = spacing_i • (column i of the direction matrix)`, a vector of squared length
      `spacing_i ^ 2` (orthonormal direction) — the lattice is axis-aligned in world space iff the direction is a
      signed permutation, and `U.curl` differentiates along GRID axes;
    * the values: `1`, `g.spacing i`, `2 / n i`, `2 / (n i − 1)`. -/
theorem C12_curl_default_spacing_is_axes_step {g : Grid d F} {n : Fin d → Nat} (hv : g.Valid) (hn : g.HasSize n)
    (a : Axes) (h2 : a = .cubeCorners → ∀ i, 2 ≤ n i) (j : Vec d F) (i : Fin d) :
    curlDefaultSpacing g a i ≠ 0 ∧
    (a ≠ .world →
      fromGrid g a (j + Pi.single i 1) - fromGrid g a j = Pi.single i (curlDefaultSpacing g a i)) ∧
    (a = .world →
      (∀ k, (fromGrid g a (j + Pi.single i 1) - fromGrid g a j) k = curlDefaultSpacing g a i * g.direction k i) ∧
      ∑ k, (fromGrid g a (j + Pi.single i 1) - fromGrid g a j) k ^ 2 = curlDefaultSpacing g a i ^ 2) ∧
    (curlDefaultSpacing g .grid i = 1 ∧ curlDefaultSpacing g .world i = g.spacing i ∧
      curlDefaultSpacing g .cube i = 2 / (n i : F) ∧ curlDefaultSpacing g .cubeCorners i = 2 / ((n i : F) - 1)) := by
  refine ⟨curlDefaultSpacing_ne hv hn a h2 i, fun ha => ?_, fun ha => ?_, ?_⟩
  · rw [fromGrid_step]
    funext k
    rw [fromGridLin_eq_spacing g a ha]
    by_cases hk : k = i
    · subst hk; simp
    · simp [hk]
  · subst ha
    have hstep : ∀ k, (fromGrid g .world (j + Pi.single i 1) - fromGrid g .world j) k
        = curlDefaultSpacing g .world i * g.direction k i := by
      intro k
      rw [fromGrid_step, curlDefaultSpacing_world]
      exact affine_mulVec_single g i k
    refine ⟨hstep, ?_⟩
    simp only [hstep, mul_pow, ← Finset.mul_sum]
    have : ∑ k, g.direction k i ^ 2 = 1 := by
      simpa [pow_two] using direction_col_sq hv i
    rw [this, mul_one]
  · refine ⟨curlDefaultSpacing_grid g i, curlDefaultSpacing_world g i, ?_, ?_⟩
    · rw [curlDefaultSpacing_cube, hn i]
    · rw [curlDefaultSpacing_cubeCorners, hn i]

/-- `FlowFields.curl()` (no `spacing` argument) of an affine field given in the axes of the flow field: for
    `a` ∈ {GRID, CUBE, CUBE_CORNERS}, a valid grid of integral size `n` (`2 ≤ n i` for CUBE_CORNERS), and the field
    `v(idx) = A · x(idx) + t` with `x = fromGrid g a` the coordinates of the grid points w.r.t. `a`, the curl computed
    through the whole `U.curl` pipeline with `curlDefaultSpacing g a`, by any finite-difference scheme, is the analytic
    curl of `A` at every point where the scheme is exact (every grid point for forward_central_backward — the
    default — prewitt and sobel). WORLD axes are excluded: there `U.curl` differentiates along the GRID axes with
    the world spacing, which is the analytic curl only for an axis-aligned direction (no theorem here; the
    `entry_points` oracle samples identity directions). -/
theorem C12_flowfields_curl_affine (mode : SDMode) (a : Axes) (ha : a ≠ .world) :
    (∀ {g : Grid 2 F} {n : Fin 2 → Nat}, g.Valid → g.HasSize n → (a = .cubeCorners → ∀ i, 2 ≤ n i) →
      ∀ (A : Fin 2 → Fin 2 → F) (t : Fin 2 → F) (idx : Idx 2), ExactAt mode n idx →
        curl id (sdStep mode n (curlDefaultSpacing g a))
          (fun i idx' => ((toM A) *ᵥ (fromGrid g a (idxVec idx')) + t) i) idx = some [A 1 0 - A 0 1]) ∧
    (∀ {g : Grid 3 F} {n : Fin 3 → Nat}, g.Valid → g.HasSize n → (a = .cubeCorners → ∀ i, 2 ≤ n i) →
      ∀ (A : Fin 3 → Fin 3 → F) (t : Fin 3 → F) (idx : Idx 3), ExactAt mode n idx →
        curl id (sdStep mode n (curlDefaultSpacing g a))
          (fun i idx' => ((toM A) *ᵥ (fromGrid g a (idxVec idx')) + t) i) idx
          = some [A 2 1 - A 1 2, A 0 2 - A 2 0, A 1 0 - A 0 1]) := by
  constructor
  · intro g n hv hn h2 A t idx hex
    rw [axesField_eq_affFlow g a ha A t]
    exact (C12_div_curl_affine_2 mode n A _ _ (fun i => curlDefaultSpacing_ne hv hn a h2 i) idx hex).2
  · intro g n hv hn h2 A t idx hex
    rw [axesField_eq_affFlow g a ha A t]
    exact (C12_div_curl_affine_3 mode n A _ _ (fun i => curlDefaultSpacing_ne hv hn a h2 i) idx hex).2

/-- non-vacuity: a valid 5 × 4 grid; in CUBE_CORNERS axes the default spacing is `(2/4, 2/3)`, in CUBE `(2/5, 2/4)`. -/
example : exampleGrid.Valid ∧ exampleGrid.HasSize ![5, 4] ∧ (∀ i, 2 ≤ (![5, 4] : Fin 2 → Nat) i) ∧
    curlDefaultSpacing exampleGrid .cubeCorners 0 = 1 / 2 ∧ curlDefaultSpacing exampleGrid .cubeCorners 1 = 2 / 3 ∧
    curlDefaultSpacing exampleGrid .cube 0 = 2 / 5 := by
  refine ⟨exampleGrid_valid, exampleGrid_hasSize, ?_, ?_, ?_, ?_⟩
  · intro i; fin_cases i <;> simp
  · rw [curlDefaultSpacing_cubeCorners, exampleGrid_size]; norm_num
  · rw [curlDefaultSpacing_cubeCorners, exampleGrid_size]; norm_num
  · rw [curlDefaultSpacing_cube, exampleGrid_size]; norm_num

end CurlEntry

end Deepali
