/-
  Props/C13.lean — property C13: composition of flows and velocity fields obeys its algebra.

  OBLIGATIONS: C13_compose_affine_exact C13_compose_zero_left C13_compose_zero_right
    C13_compose_convention C13_bracket_antisymm C13_bracket_add_left C13_bracket_smul_left
    C13_bracket_add_right C13_bch_commuting C13_expv_step_is_self_composition

  Partial (DESIGN.md §5 C13): "BCH error does not grow with the truncation order" and
  "logv(expv v) ≈ v within a bound independent of align_corners" are approximation statements
  about smooth non-affine fields; no closed form exists in the model. They are explored
  numerically by the harness with the stated bounds (exploration, not proof).
-/
import Deepali.Proofs.FlowHull

set_option linter.unusedSectionVars false

namespace Deepali
open Matrix
variable {K : Type} [Field K] [LinearOrder K] [IsStrictOrderedRing K] [FloorRing K] {d : Nat}

/-- composing two affine displacement fields is exact whenever the first keeps the lattice
    inside the sample hull (any dimension, size ≥ 2, either convention). -/
theorem C13_compose_affine_exact (ac : Bool) (n : Fin d → Nat) (h2 : ∀ i, 2 ≤ n i)
    (Mu Mv : Mat d K) (tu tv : Vec d K) (u v : VField d K)
    (hu : ∀ idx, InBox n idx → u idx = dispOf (affMap Mu tu) (latticePoint ac n idx))
    (hv : ∀ idx, InBox n idx → v idx = dispOf (affMap Mv tv) (latticePoint ac n idx))
    (hull : ∀ idx, InBox n idx → InHull ac n (affMap Mu tu (latticePoint ac n idx)))
    (idx : Fin d → Int) (hb : InBox n idx) :
    composeFlows ac n u v idx = dispOf (affMap Mv tv ∘ affMap Mu tu) (latticePoint ac n idx) :=
  composeFlows_affine ac n h2 Mu Mv tu tv u v hu hv hull idx hb

theorem sample_at_lattice (ac : Bool) (n : Fin d → Nat) (h2 : ∀ i, 2 ≤ n i) (img : (Fin d → Int) → K)
    (idx : Fin d → Int) (hb : InBox n idx) :
    gridSampleLin ac .border n img (latticePoint ac n idx) = img idx := by
  have hx : (fun i => unnormalize ac ((n i : Nat) : K) ((latticePoint ac n idx : Vec d K) i))
      = fun i => ((idx i : Int) : K) := by
    funext i; simp only [latticePoint, unnormalize_coordAt _ (h2 i)]
  have hh := latticePoint_inHull (K := K) ac n h2 idx hb
  have hcl : (fun i => clampCoord (n i) (unnormalize ac ((n i : Nat) : K) ((latticePoint ac n idx : Vec d K) i)))
      = fun i => ((idx i : Int) : K) := by
    funext i
    rw [clampCoord_inside _ _ (hh i).1 (hh i).2]
    exact congrFun hx i
  simp only [gridSampleLin, hcl]
  rw [interpLin_at_index]
  simp only [extZero, Nat.cast_zero]
  rw [if_pos (show ∀ i, 0 ≤ idx i ∧ idx i < (n i : Int) from hb)]

/-- the zero field is a left identity: `compose_flows(0, v) = v` at every grid point. -/
theorem C13_compose_zero_left (ac : Bool) (n : Fin d → Nat) (h2 : ∀ i, 2 ≤ n i) (v : VField d K)
    (idx : Fin d → Int) (hb : InBox n idx) :
    composeFlows ac n (fun _ _ => 0) v idx = v idx := by
  funext c
  have h0 : (latticePoint ac n idx : Vec d K).add (fun _ => (0 : K)) = latticePoint ac n idx := by
    funext i; simp [Vec.add]
  simp only [composeFlows, sampleVField, h0, sample_at_lattice ac n h2 _ idx hb, Vec.add, zero_add]

/-- … and a right identity: `compose_flows(u, 0) = u` everywhere. -/
theorem C13_compose_zero_right (ac : Bool) (n : Fin d → Nat) (u : VField d K) (idx : Fin d → Int) :
    composeFlows ac n u (fun _ _ => 0) idx = u idx := by
  funext c
  have hz : ∀ x : Fin d → K, interpLin d (extZero n (fun _ => (0 : K))) x = 0 := by
    intro x
    have e : extZero n (fun _ : Fin d → Int => (0 : K)) = fun idx => ∑ i, (0 : K) * ((idx i : Int) : K) + 0 := by
      funext idx; simp [extZero]
    rw [e, interpLin_affine]; simp
  simp only [composeFlows, sampleVField, gridSampleLin, hz, Vec.add, add_zero]

/-- the convention is honoured: the sampling position of `compose_flows` for grid point `idx`
    un-normalises, under the *given* `align_corners`, to the continuous index `idx + u_index`, where
    `u_index` is the displacement converted to index units with the same convention. -/
theorem C13_compose_convention (ac : Bool) (n : Fin d → Nat) (h2 : ∀ i, 2 ≤ n i) (u : Vec d K)
    (idx : Fin d → Int) (i : Fin d) :
    unnormalize ac ((n i : Nat) : K) (((latticePoint ac n idx : Vec d K).add u) i)
      = ((idx i : Int) : K) + (if ac then ((n i : K) - 1) / 2 else (n i : K) / 2) * u i := by
  have h2' : (2 : K) ≤ (n i : K) := by exact_mod_cast h2 i
  have h0 : (n i : K) ≠ 0 := by intro e; rw [e] at h2'; linarith
  have h1 : (n i : K) - 1 ≠ 0 := by intro e; linarith
  simp only [Vec.add, latticePoint, coordAt_affine _ (h2 i)]
  cases ac <;> simp only [unnormalize, Bool.false_eq_true, if_false, if_true, Nat.cast_one, Nat.cast_ofNat] <;>
    field_simp <;> ring

/-- one `expv` squaring step is the self-composition `compose_flows(d, d)` (border padding). -/
theorem C13_expv_step_is_self_composition (ac : Bool) (n : Fin d → Nat) (disp : VField d K) :
    expvStep ac .border n disp = composeFlows ac n disp disp := rfl

section bracket
variable (D : Fin d → (((Fin d → Int) → K) → ((Fin d → Int) → K)))

/-- the Lie bracket is antisymmetric, for any derivative stencil. -/
theorem C13_bracket_antisymm (v u : VField d K) (idx : Fin d → Int) (i : Fin d) :
    lieBracket D v u idx i = - lieBracket D u v idx i := by
  simp only [lieBracket]; ring

/-- additive in the first argument, for additive stencils. -/
theorem C13_bracket_add_left (hadd : ∀ j f g, D j (fun k => f k + g k) = fun k => D j f k + D j g k)
    (v w u : VField d K) (idx : Fin d → Int) (i : Fin d) :
    lieBracket D (v.add w) u idx i = lieBracket D v u idx i + lieBracket D w u idx i := by
  simp only [lieBracket, VField.add, Vec.add, hadd, sumFin_eq, add_mul, mul_add, Finset.sum_add_distrib]
  ring

/-- homogeneous in the first argument, for homogeneous stencils. -/
theorem C13_bracket_smul_left (hsmul : ∀ j (c : K) f, D j (fun k => c * f k) = fun k => c * D j f k)
    (c : K) (v u : VField d K) (idx : Fin d → Int) (i : Fin d) :
    lieBracket D (VField.smul c v) u idx i = c * lieBracket D v u idx i := by
  simp only [lieBracket, VField.smul, Vec.smul, hsmul, sumFin_eq, mul_sub, Finset.mul_sum]
  congr 1 <;> apply Finset.sum_congr rfl <;> intro j _ <;> ring

/-- additive in the second argument (by antisymmetry). -/
theorem C13_bracket_add_right (hadd : ∀ j f g, D j (fun k => f k + g k) = fun k => D j f k + D j g k)
    (v u w : VField d K) (idx : Fin d → Int) (i : Fin d) :
    lieBracket D v (u.add w) idx i = lieBracket D v u idx i + lieBracket D v w idx i := by
  rw [C13_bracket_antisymm, C13_bracket_add_left D hadd, C13_bracket_antisymm D u v, C13_bracket_antisymm D w v]
  ring

end bracket

/-- BCH composition reduces to the sum for commuting fields at *every* truncation order:
    if `[v,u] = 0` and the bracket of anything with the zero field is zero (true for every linear
    stencil), then `compose_svfs(u, v, bch_terms) = v + u` for all `bch_terms`. -/
theorem C13_bch_commuting (lb : VField d K → VField d K → VField d K) (u v : VField d K)
    (hcomm : lb v u = fun _ _ => 0) (hzero : ∀ a, lb a (fun _ _ => 0) = fun _ _ => 0) (bchTerms : Nat) :
    composeSvfs lb bchTerms u v = v.add u := by
  have z : ∀ (c : K) (w : VField d K), w.add (VField.smul c (fun _ _ => 0)) = w := by
    intro c w; funext idx i; simp [VField.add, VField.smul, Vec.add, Vec.smul]
  have z' : ∀ (c : K) (w : VField d K), w.sub (VField.smul c (fun _ _ => 0)) = w := by
    intro c w; funext idx i; simp [VField.sub, VField.smul, Vec.sub, Vec.smul]
  simp only [composeSvfs, bchCombine, hcomm, hzero, z, z', ite_self]

end Deepali
