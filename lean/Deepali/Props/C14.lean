/-
  Props/C14.lean — property C14: cubic B-spline evaluation, derivatives and subdivision are exact.
  Only property theorems and non-vacuity examples live here; helper lemmas are in
  Deepali/Proofs/BSpline{,Eval,Agree,Grid}.lean.  The model is Deepali/Model/BSpline.lean;
  `basis d` is the SPEC (analytic cubic B-spline and its derivatives, piecewise polynomial).

  OBLIGATIONS: C14_basis_is_textbook C14_basis_derivatives C14_basis_joins C14_weights_are_basis C14_value_is_basis
    C14_partition C14_deriv_sum_zero C14_linear_precision C14_eval_is_analytic_spline
    C14_ffd_linear_exact C14_deriv_linear_exact C14_two_algorithms_agree C14_two_algorithms_agree_axis
    C14_control_grid_covers C14_control_grid_minimal C14_coverage
    C14_subdivide_poly C14_subdivide_same_function C14_subdivide_iterate
    C14_ffd_refine_shape C14_ffd_refine_same_function
    C14_control_grid_placement C14_subdivide_api_1d C14_ffd_refine_api_1d
-/
import Deepali.Proofs.BSplineAgree
import Deepali.Proofs.BSplineGrid
import Mathlib.Tactic.FinCases
import Mathlib.Data.Rat.Floor

set_option linter.unusedSectionVars false

namespace Deepali
variable {K : Type} [Field K] [LinearOrder K] [IsStrictOrderedRing K]

/-! ### the SPEC is the cubic B-spline: derivative pieces, C² joins -/

/-- the SPEC `basis 0` is the textbook uniform cubic B-spline in truncated-power form,
    `B(x) = (1/6) Σ_{k=0}^{4} (−1)^k C(4,k) (x + 2 − k)₊³`, at every `x`. -/
theorem C14_basis_is_textbook (x : K) :
    basis 0 x = ((max (x + 2) 0) ^ 3 - 4 * (max (x + 1) 0) ^ 3 + 6 * (max x 0) ^ 3
      - 4 * (max (x - 1) 0) ^ 3 + (max (x - 2) 0) ^ 3) / 6 :=
  basis_truncated_power x

/-- the pieces listed in `basis d` for `d = 1, 2, 3` are the successive derivatives of the pieces of
    `basis 0` (exact Taylor expansion of each cubic piece). -/
theorem C14_basis_derivatives (i : Nat) (hi : i < 4) (x h : K) :
    basisPiece i 0 (x + h)
        = basisPiece i 0 x + basisPiece i 1 x * h + basisPiece i 2 x * h ^ 2 / 2 + basisPiece i 3 x * h ^ 3 / 6 ∧
    basisPiece i 1 (x + h) = basisPiece i 1 x + basisPiece i 2 x * h + basisPiece i 3 x * h ^ 2 / 2 ∧
    basisPiece i 2 (x + h) = basisPiece i 2 x + basisPiece i 3 x * h :=
  ⟨basisPiece_taylor i hi x h, basisPiece_taylor1 i hi x h, basisPiece_taylor2 i hi x h⟩

/-- value, first and second derivative are continuous across the knots and vanish at ±2. -/
theorem C14_basis_joins (d : Nat) (hd : d ≤ 2) :
    basisPiece 0 d (-2 : K) = 0 ∧ basisPiece 0 d (-1 : K) = basisPiece 1 d (-1) ∧
    basisPiece 1 d (0 : K) = basisPiece 2 d 0 ∧ basisPiece 2 d (1 : K) = basisPiece 3 d 1 ∧
    basisPiece 3 d (2 : K) = 0 :=
  basisPiece_joins d hd

/-! ### weights are the analytic basis -/

/-- every row of every weight table: `w_j(k/s) = B⁽ᵈ⁾(k/s − (j − 1))`, all strides at once,
    derivative orders 0..3. -/
theorem C14_weights_are_basis (s k d : Nat) (hk : k < s) (hd : d ≤ 3) :
    ∃ w : W4 K, (weightTable (α := K) s d)[k]? = some w ∧
      w.w0 = basis d ((k : K) / (s : K) - (-1)) ∧ w.w1 = basis d ((k : K) / (s : K) - 0) ∧
      w.w2 = basis d ((k : K) / (s : K) - 1) ∧ w.w3 = basis d ((k : K) / (s : K) - 2) := by
  have hs0 : (0 : K) < (s : K) := by exact_mod_cast (show 0 < s by omega)
  have ht0 : (0 : K) ≤ (k : K) / (s : K) := div_nonneg (Nat.cast_nonneg k) (le_of_lt hs0)
  have ht1 : (k : K) / (s : K) < 1 := by rw [div_lt_one hs0]; exact_mod_cast hk
  refine ⟨_, weightTable_getElem? s d k hk, ?_⟩
  obtain ⟨e0, e1, e2, e3⟩ := weightRow_eq_basis d hd _ ht0 ht1
  rw [sub_neg_eq_add, sub_zero]
  exact ⟨e0, e1, e2, e3⟩

/-- `kernels.cubic_bspline_value(x, d)` (dense kernel of the transposed algorithm) is the same
    analytic function for `d = 0, 1, 2`, at every `x`. -/
theorem C14_value_is_basis (d : Nat) (hd : d ≤ 2) (x : K) : cubicBSplineValue x d = some (basis d x) :=
  cubicBSplineValue_eq_basis d hd x

/-- partition of unity (any offset, in particular every `k/s`). -/
theorem C14_partition (t : K) : (weightRow 0 t).sum = 1 := by
  rw [weightRow_sum]; rfl

/-- derivative weights sum to zero (every order ≥ 1). -/
theorem C14_deriv_sum_zero (d : Nat) (hd : 1 ≤ d) (t : K) : (weightRow d t).sum = 0 := by
  rw [weightRow_sum, if_neg (by omega)]

/-- linear precision: `Σ_j w_j·(j − 1) = t` (and `= 1`, `0`, `0` for the derivative weights). -/
theorem C14_linear_precision (s k : Nat) (hk : k < s) :
    let w := weightRow 0 ((k : K) / (s : K))
    w.w0 * (-1) + w.w1 * 0 + w.w2 * 1 + w.w3 * 2 = (k : K) / (s : K) := by
  intro w
  have := weightRow_moment 0 ((k : K) / (s : K))
  simpa using this

/-! ### evaluated field -/

/-- sample `x` of the weight algorithm (any derivative order ≤ 3) is the analytic spline
    `Σ_i c_i · B⁽ᵈ⁾(x/s + 1 − i)`: control point `i` sits at image index `(i − 1)·s`. -/
theorem C14_eval_is_analytic_spline (s d : Nat) (hs : 1 ≤ s) (hd : d ≤ 3) (c : List K) (x : Nat)
    (hx : x < (c.length - 3) * s) :
    getZ (evalWeights (weightTable s d) c) x = splineSum c d ((x : K) / (s : K) + 1) :=
  evalWeights_is_spline s d hs hd c x hx

/-- coefficients that are a linear function of the control point position `(j − 1)·s` are
    reproduced exactly at every evaluated sample. -/
theorem C14_ffd_linear_exact (s : Nat) (hs : 1 ≤ s) (c : List K) (a b : K)
    (hc : ∀ j, j < c.length → getZ c j = a + b * (((j : Nat) : K) - 1) * (s : K))
    (x : Nat) (hx : x < (c.length - 3) * s) :
    getZ (evalWeights (weightTable s 0) c) x = a + b * (x : K) := by
  have := evalWeights_affine s hs 0 c a b hc x hx
  simpa using this

/-- the derivative modes on the same coefficients: first derivative (per control spacing)
    `b·s`, higher derivatives 0. -/
theorem C14_deriv_linear_exact (s d : Nat) (hs : 1 ≤ s) (hd : 1 ≤ d) (c : List K) (a b : K)
    (hc : ∀ j, j < c.length → getZ c j = a + b * (((j : Nat) : K) - 1) * (s : K))
    (x : Nat) (hx : x < (c.length - 3) * s) :
    getZ (evalWeights (weightTable s d) c) x = if d = 1 then b * (s : K) else 0 := by
  have := evalWeights_affine s hs d c a b hc x hx
  rw [if_neg (by omega)] at this
  exact this

example : ∀ j, j < ([-2, 0, 2, 4, 6] : List ℚ).length →
    getZ ([-2, 0, 2, 4, 6] : List ℚ) j = 0 + 1 * (((j : Nat) : ℚ) - 1) * ((2 : Nat) : ℚ) := by
  intro j hj
  simp only [List.length_cons, List.length_nil] at hj
  interval_cases j <;> simp [getZ] <;> norm_num

/-- the transposed-convolution algorithm with the dense kernel `cubic_bspline1d(s)` and the
    `[s : s + m]` slice returns exactly the cropped output of the weight algorithm, for every
    coefficient list, stride and crop size the control grid allows. -/
theorem C14_two_algorithms_agree (s : Nat) (hs : 1 ≤ s) (c : List K) (m : Nat)
    (hm : m ≤ (c.length - 3) * s) :
    kernel1dValues (α := K) s 0 = .ok (denseKernel s) ∧
    evalTranspose s (denseKernel s) c (some m) = evalWeightsCrop (weightTable s 0) c (some m) :=
  ⟨kernel1dValues_eq s hs, evalTranspose_eq_evalWeights_list s hs c m hm⟩

/-- lifted to any axis of an `(N, C, …, X)` tensor (separable application, D ≤ 3 and beyond). -/
theorem C14_two_algorithms_agree_axis (s : Nat) (hs : 1 ≤ s) (t : Tensor K) (axis m : Nat)
    (hm : m ≤ (t.shape.getD axis 1 - 3) * s) :
    t.mapAxis (fun c => evalTranspose s (denseKernel s) c (some m)) axis
      = t.mapAxis (fun c => evalWeightsCrop (weightTable s 0) c (some m)) axis := by
  apply mapAxis_congr
  intro l hl
  exact evalTranspose_eq_evalWeights_list s hs l m (by rw [hl]; exact hm)

/-! ### control grid -/

/-- the control grid always spans the image: `(n − 3)·s ≥ m` for every size and stride,
    divisible or not. -/
theorem C14_control_grid_covers (m s : Nat) (hs : 1 ≤ s) : m ≤ (ctrlSize m s - 3) * s :=
  ctrlSize_covers m s hs

/-- … with no control point to spare, and at least four of them. -/
theorem C14_control_grid_minimal (m s : Nat) (hs : 1 ≤ s) (hm : 1 ≤ m) :
    (ctrlSize m s - 4) * s < m ∧ 4 ≤ ctrlSize m s :=
  ⟨ctrlSize_minimal m s hs hm, ctrlSize_ge_four m s hs hm⟩

/-- hence the evaluated and cropped field has exactly the image size (both algorithms, any
    derivative order): the field covers the whole image grid. -/
theorem C14_coverage (m s d : Nat) (hs : 1 ≤ s) (c : List K) (hc : c.length = ctrlSize m s) :
    (evalWeightsCrop (weightTable s d) c (some m)).length = m ∧
    (evalTranspose s (denseKernel s) c (some m)).length = m := by
  have h := ctrlSize_covers m s hs
  have l2 : (evalWeightsCrop (weightTable s d) c (some m)).length = m := by
    simp only [evalWeightsCrop, List.length_take, evalWeights_length, weightTable_length, hc]
    omega
  refine ⟨l2, ?_⟩
  rw [evalTranspose_eq_evalWeights_list s hs c m (by rw [hc]; exact h)]
  simp only [evalWeightsCrop, List.length_take, evalWeights_length, weightTable_length, hc]
  omega

/-! ### subdivision -/

/-- the masks `[1/8, 3/4, 1/8]` and `[1/2, 1/2]`: on each knot interval the refined spline at
    parameter `2u` (first half) resp. `2u − 1` of the next refined interval (second half) is the
    original spline at `u` — polynomial identities in `u` and the coefficients. -/
theorem C14_subdivide_poly (u c0 c1 c2 c3 : K) :
    (weightRow 0 (2 * u)).dot (1 / 2 * c0 + 1 / 2 * c1) (1 / 8 * c0 + 3 / 4 * c1 + 1 / 8 * c2)
        (1 / 2 * c1 + 1 / 2 * c2) (1 / 8 * c1 + 3 / 4 * c2 + 1 / 8 * c3)
      = (weightRow 0 u).dot c0 c1 c2 c3 ∧
    (weightRow 0 (2 * u - 1)).dot (1 / 8 * c0 + 3 / 4 * c1 + 1 / 8 * c2) (1 / 2 * c1 + 1 / 2 * c2)
        (1 / 8 * c1 + 3 / 4 * c2 + 1 / 8 * c3) (1 / 2 * c2 + 1 / 2 * c3)
      = (weightRow 0 u).dot c0 c1 c2 c3 :=
  ⟨subdiv_poly_first u c0 c1 c2 c3, subdiv_poly_second u c0 c1 c2 c3⟩

/-- `subdivide_cubic_bspline` along one axis: every sample `x` of the original evaluated spline
    reappears as sample `s + 2x` of the refined one (zero padding at the ends never reaches the domain). -/
theorem C14_subdivide_same_function (s : Nat) (hs : 1 ≤ s) (c : List K) (x : Nat)
    (hx : x < (c.length - 3) * s) :
    getZ (evalWeights (weightTable s 0) (subdivide1d c)) (s + 2 * x)
      = getZ (evalWeights (weightTable s 0) c) x :=
  evalWeights_subdivide s hs c x hx

/-- repeated subdivision, any number of rounds. -/
theorem C14_subdivide_iterate (s : Nat) (hs : 1 ≤ s) (r : Nat) (c : List K) (x : Nat)
    (hx : x < (c.length - 3) * s) :
    getZ (evalWeights (weightTable s 0) (subdivide1d^[r] c)) ((2 ^ r - 1) * s + 2 ^ r * x)
      = getZ (evalWeights (weightTable s 0) c) x :=
  evalWeights_subdivide_iterate s hs r c x hx

/-- `BSplineTransform.grid_` (image size `m → 2m − 1`): the `narrow(dim, 1, …)` crop is always in
    range and yields exactly the control size of the refined grid. -/
theorem C14_ffd_refine_shape (m s : Nat) (hs : 1 ≤ s) (hm : 1 ≤ m) (c : List K)
    (hc : c.length = ctrlSize m s) :
    1 + ctrlSize (2 * m - 1) s ≤ (subdivide1d c).length ∧
    (ffdRefine1d (2 * m - 1) s c).length = ctrlSize (2 * m - 1) s := by
  refine ⟨?_, ffdRefine1d_length m s hs hm c hc⟩
  have := ctrlSize_refined_le m s hs hm
  rw [subdivide1d_length, hc]; omega

/-- … and the refined free-form deformation takes the old value at every old sample (new sample
    `2x` ↔ old sample `x`), for every image size ≥ 1 and stride ≥ 1, divisible or not. -/
theorem C14_ffd_refine_same_function (m s : Nat) (hs : 1 ≤ s) (hm : 1 ≤ m) (c : List K)
    (hc : c.length = ctrlSize m s) (x : Nat) (hx : x < m) :
    getZ (evalWeights (weightTable s 0) (ffdRefine1d (2 * m - 1) s c)) (2 * x)
      = getZ (evalWeights (weightTable s 0) c) x :=
  evalWeights_ffdRefine m s hs hm c hc x hx

example : ([1, 2, 0, -1, 3, 5] : List ℚ).length = ctrlSize 7 3 := by decide

/-- D = 1 through the API: `subdivide_cubic_bspline` on an `(N, C, X)` tensor succeeds (X ≥ 2) and is
    `subdivide1d` on every line, so `C14_subdivide_same_function`/`_iterate` apply to each of them. -/
theorem C14_subdivide_api_1d (t : Tensor K) (N C L : Nat) (hsh : t.shape = [N, C, L]) (hL : 2 ≤ L) :
    subdivideCubicBSpline t [0] = .ok (t.mapAxis subdivide1d 2) :=
  subdivide_api_1d t N C L hsh hL

/-- D = 1 through the API: `BSplineTransform.grid_` for image size `m → 2m − 1` succeeds on parameters
    of the control size and is `ffdRefine1d` (subdivide, then `narrow(dim, 1, …)`) on every line, so
    `C14_ffd_refine_same_function` applies to each of them. -/
theorem C14_ffd_refine_api_1d (t : Tensor K) (N C m s : Nat) (hs : 1 ≤ s) (hm : 1 ≤ m)
    (hsh : t.shape = [N, C, ctrlSize m s]) :
    ffdGridRefine t [m] [2 * m - 1] [s]
      = .ok ((t.mapAxis subdivide1d 2).mapAxis (fun c => (c.drop 1).take (ctrlSize (2 * m - 1) s)) 2) :=
  ffd_refine_api_1d t N C m s hs hm hsh

end Deepali

/-! ### control point grid placement (`cubic_bspline_control_point_grid`) -/
namespace Deepali
variable {K : Type} [Field K] [LinearOrder K] [IsStrictOrderedRing K] [FloorRing K] {d : Nat}

/-- placement of the control grid in world space, any dimension, any (even rotated, anisotropic) image
    grid, any strides ≥ 1: control index `j` lies at image index `(j − 1)·s` (one control point before
    the first sample, control spacing = `s` samples), and every image position `x ∈ [0, m − 1]` is the
    image of a control coordinate `j` with one control point before and two after it inside the control
    grid (`1 ≤ j`, `j + 2 < n`): the control grid covers the image grid. -/
theorem C14_control_grid_placement (g : Grid d K) (m s : Fin d → Nat) (hs : ∀ i, 1 ≤ s i) :
    (∀ j : Vec d K,
      (controlPointGrid g m s).applyTransform .grid .world false j
        = g.applyTransform .grid .world false (fun i => (j i - 1) * ((s i : Nat) : K))) ∧
    (∀ x : Vec d K, (∀ i, 0 ≤ x i ∧ x i ≤ ((m i : Nat) : K) - 1) →
      ∃ j : Vec d K, (∀ i, 1 ≤ j i ∧ j i + 2 < ((ctrlSize (m i) (s i) : Nat) : K)) ∧
        (controlPointGrid g m s).applyTransform .grid .world false j
          = g.applyTransform .grid .world false x) := by
  refine ⟨controlPointGrid_index_to_world g m s, ?_⟩
  intro x hx
  have hs0 : ∀ i, (0 : K) < ((s i : Nat) : K) := fun i => by exact_mod_cast hs i
  refine ⟨fun i => x i / ((s i : Nat) : K) + 1, ?_, ?_⟩
  · intro i
    have hc := ctrlSize_covers (m i) (s i) (hs i)
    obtain ⟨p, hp⟩ : ∃ p, ctrlSize (m i) (s i) = p + 3 := by
      unfold ctrlSize; split_ifs
      · exact ⟨_, rfl⟩
      · exact ⟨(m i) / (s i) + 1, by omega⟩
    rw [hp, Nat.add_sub_cancel] at hc
    have hcK : ((m i : Nat) : K) ≤ ((p : Nat) : K) * ((s i : Nat) : K) := by exact_mod_cast hc
    constructor
    · have : 0 ≤ x i / ((s i : Nat) : K) := div_nonneg (hx i).1 (le_of_lt (hs0 i))
      linarith
    · have : x i / ((s i : Nat) : K) < ((p : Nat) : K) := by
        rw [div_lt_iff₀ (hs0 i)]; linarith [(hx i).2]
      rw [hp]; push_cast; linarith
  · rw [controlPointGrid_index_to_world]
    congr 1
    funext i
    have := ne_of_gt (hs0 i)
    field_simp
    ring

example : ∀ i : Fin 2, 1 ≤ (![5, 3] : Fin 2 → Nat) i := by
  intro i; fin_cases i <;> simp

end Deepali
