/-
  Props/C15.lean — property C15: no hidden mutation (functions leave inputs alone, copies leave
  originals alone).  Only property theorems and non-vacuity examples; helper lemmas are in
  Deepali/Proofs/Heap.lean (trace semantics) and Deepali/Proofs/HeapObj.lean (object graphs).

  OBLIGATIONS: C15_monitor_sound C15_monitor_complete_for_writes C15_monitor_reject_witness
    C15_monitor_exact
    C15_frame C15_fresh_monitor_sound
    C15_grid_accessors_pure C15_grid_setters_refuted C15_cube_accessors_pure C15_image_accessors_pure
    C15_deepcopy_independent C15_deepcopy_fresh_grid C15_deepcopy_fresh_image C15_deepcopy_fresh_flowfield
    C15_shallow_copy_shares_data
    C15_transform_accessors_pure C15_composite_copy_owns_children
    C15_transform_shared_parameters_refuted C15_transform_shared_child_refuted

  Part 1 is a theorem about *executions*: a call of the tensor-level API is observed as an op
  trace; the harness sends every recorded trace to `safe` and compares the verdict with a direct
  bit-wise observation of the arguments.  What is proved here is that the verdict means what it
  says, for traces of any length, any heap and any contents written by the in-place ops.
-/
import Deepali.Proofs.Heap
import Deepali.Proofs.HeapObj

set_option linter.unusedSectionVars false

namespace Deepali

/-- **Monitor soundness.**  If the monitor accepts a trace, then for every initial heap in which
    the argument storages exist, and for every choice of the contents written by in-place and
    allocating ops (`writes step heap` — arbitrary, may depend on the whole heap), every argument
    storage reads the same after the call as before.  Unbounded trace length (induction). -/
theorem C15_monitor_sound {V : Type} (args : List Nat) (env : TEnv) (tr : Trace) (heap : Heap V)
    (hsafe : safe args env heap.next tr = true) (hargs : ∀ a ∈ args, a < heap.next)
    (writes : Nat → Heap V → V) :
    ∀ a ∈ args, (exec writes 0 env tr heap).read a = heap.read a :=
  exec_preserves_args writes args tr 0 env heap hsafe hargs

/-- **Rejections are not spurious (syntactic form).**  If the monitor rejects a well-formed trace,
    the trace contains an in-place op whose target tensor lives, at that point, in an argument
    storage — and everything before it is accepted. -/
theorem C15_monitor_complete_for_writes (args : List Nat) (env : TEnv) (next : Nat) (tr : Trace)
    (hwf : wfTrace env next tr = true) (hrej : safe args env next tr = false) :
    ∃ (pre post : Trace) (t s : Nat), tr = pre ++ TrOp.inplace t :: post ∧ safe args env next pre = true ∧
      (finalEnv env next pre).lookup t = some s ∧ s ∈ args :=
  safe_false_split args tr env next hwf hrej

/-- **Rejections are not spurious (semantic form).**  If the monitor rejects a well-formed trace
    then there is an execution that changes an argument: for any two distinct contents `v₀ ≠ v₁`,
    starting from the heap that reads `v₀` everywhere and writing `v₁` in every in-place op, some
    argument storage reads `v₁` at the end. -/
theorem C15_monitor_reject_witness {V : Type} (args : List Nat) (env : TEnv) (next : Nat) (tr : Trace)
    (hwf : wfTrace env next tr = true) (hargs : ∀ a ∈ args, a < next)
    (hrej : safe args env next tr = false) (v0 v1 : V) (hne : v0 ≠ v1) :
    ∃ a ∈ args, (exec (fun _ _ => v1) 0 env tr ⟨fun _ => v0, next⟩).read a ≠ (⟨fun _ => v0, next⟩ : Heap V).read a := by
  obtain ⟨a, ha, h⟩ := exec_const_hits v1 args tr 0 env ⟨fun _ => v0, next⟩ hwf hargs hrej
  exact ⟨a, ha, by rw [h]; exact fun e => hne e.symm⟩

/-- **The monitor is exact** on well-formed traces: it accepts iff no execution whatsoever can
    change an argument storage (for a content type with at least two values). -/
theorem C15_monitor_exact {V : Type} (args : List Nat) (env : TEnv) (next : Nat) (tr : Trace)
    (hwf : wfTrace env next tr = true) (hargs : ∀ a ∈ args, a < next) (v0 v1 : V) (hne : v0 ≠ v1) :
    safe args env next tr = true ↔
      ∀ (read : Nat → V) (writes : Nat → Heap V → V), ∀ a ∈ args,
        (exec writes 0 env tr ⟨read, next⟩).read a = read a := by
  constructor
  · intro hs read writes a ha
    exact C15_monitor_sound args env tr ⟨read, next⟩ hs hargs writes a ha
  · intro h
    by_contra hs
    have hrej : safe args env next tr = false := by simpa using hs
    obtain ⟨a, ha, hd⟩ := C15_monitor_reject_witness args env next tr hwf hargs hrej v0 v1 hne
    exact hd (h (fun _ => v0) (fun _ _ => v1) a ha)

/-! Non-vacuity: a concrete trace in the shape the tracer records for
    `normalize_image(x)` (accepted) and for `normalize_image(x, inplace=True)` (rejected), with the
    argument `x` = tensor 0 in storage 0; and a view chain `y = x.view(...); y.add_(1)`. -/
example : safe [0] [(0, 0)] 1 [.fresh 1, .fresh 2, .fresh 3, .fresh 4, .fresh 5] = true := by decide
example : safe [0] [(0, 0)] 1 [.fresh 1, .fresh 2, .inplace 0, .inplace 0] = false := by decide
example : safe [0] [(0, 0)] 1 [.view 1 0, .aliasOf 2 1, .inplace 2] = false := by decide
example : safe [0] [(0, 0)] 1 [.fresh 1, .view 2 1, .inplace 2, .inplace 1] = true := by decide
example : wfTrace [(0, 0)] 1 [.view 1 0, .aliasOf 2 1, .inplace 2] = true := by decide
example : writtenArgs [0, 1] [(0, 0), (7, 1)] 2 [.view 1 7, .inplace 1, .fresh 2, .inplace 2] = [1] := by decide
/-- the hypotheses of `C15_monitor_sound` are satisfiable with a non-trivial trace and heap -/
example : ∀ a ∈ [0, 1], (exec (fun k (h : Heap Nat) => h.read 0 + k + 100) 0 [(0, 0), (7, 1)]
      [.view 1 7, .fresh 2, .view 3 2, .inplace 3, .inplace 2] ⟨fun s => s + 10, 2⟩).read a = a + 10 := by
  have h := C15_monitor_sound (V := Nat) [0, 1] [(0, 0), (7, 1)]
    [.view 1 7, .fresh 2, .view 3 2, .inplace 3, .inplace 2] ⟨fun s => s + 10, 2⟩ (by decide)
    (by decide) (fun k h => h.read 0 + k + 100)
  exact h


/-! ## Part 2: accessors and copies on the object-graph model -/

/-- every node that existed before the program is exactly as it was (identity, type, content, entries) -/
def Preserves (st st' : OState) : Prop := ∀ n, n < st.heap.next → st'.heap.node n = st.heap.node n

/-- … and therefore so is everything observable of every pre-existing object: its whole reachable
    tree (attributes, tensors and their contents, containers, children), to any depth -/
theorem Preserves.view {st st' : OState} (h : Preserves st st') (hc : Closed st.heap st.heap.next)
    (fuel root : Nat) (hr : root < st.heap.next) :
    viewVal st'.heap fuel (.ref root) = viewVal st.heap fuel (.ref root) :=
  view_eq st.heap st'.heap st.heap.next hc h fuel (.ref root) (fun m hm => by cases hm; exact hr)

/-- **Frame theorem** for arbitrary programs (any commands, any length, incl. the `Module.__setattr__`
    protocol): a pre-existing node that the run does not record as written is unchanged; so if no node
    of a reference-closed set `S` is written, every object in `S` looks exactly as before. -/
theorem C15_frame (st : OState) (ps : List Prog) (S : Nat → Prop) (hc : ClosedSet st.heap S)
    (hold : ∀ n, S n → n < st.heap.next) (hw : ∀ n ∈ (runProgs st ps).touched, ¬ S n) :
    ∀ (fuel root : Nat), S root → viewVal (runProgs st ps).heap fuel (.ref root) = viewVal st.heap fuel (.ref root) := by
  intro fuel root hroot
  have hok := runProgs_ok ps st
  apply view_eq_of_set st.heap (runProgs st ps).heap S hc
  · intro n hn
    exact hok.frame n (hold n hn) (fun hin => hw n hin hn)
  · intro m hm; cases hm; exact hroot

/-- **Soundness of the static monitor** `freshOnly`: a primitive program in which every write goes
    through a register that the program itself filled with a newly allocated node leaves all
    pre-existing nodes alone — in every heap. -/
theorem C15_fresh_monitor_sound (l : List Prim) (h : freshOnly [] l = true) (st : OState) :
    Preserves st (runCmds st (prims l)) :=
  prims_preserve l h st

theorem freshOnly_gridAccessor (s : GridSetter) (data : Nat) : freshOnly [] (gridAccessorPrims s data) = true := by
  cases s with
  | center f => cases f <;> rfl
  | origin => rfl
  | spacing f => cases f <;> rfl
  | direction f => cases f <;> rfl
  | alignCorners b => rfl

/-- **Grid accessors are pure.**  `align_corners(b)`, `center(x)`, `origin(x)`, `spacing(x)`,
    `direction(x)` — for every argument form, in every heap (the receiver may share its attribute
    tensors with any number of other grids) — leave every existing object unchanged; in particular
    the receiver's whole state. -/
theorem C15_grid_accessors_pure (s : GridSetter) (data : Nat) (st : OState) :
    Preserves st (runProg st (gridAccessorProg s data)) :=
  prims_preserve _ (freshOnly_gridAccessor s data) st

/-- The underscore setters are *not* pure (sanity of the model, and what the mutant
    "`center()` calls `self.center_`" turns into): a concrete grid whose `_center` entry changes. -/
def canonGridHeap : OHeap :=
  { node := fun n =>
      match n with
      | 1 => ⟨tGrid, 0, [(kSize, .ref 2), (kCenter, .ref 4), (kSpacing, .ref 6), (kDirection, .ref 8), (kAlignCorners, .imm 1)]⟩
      | 2 => ⟨tTensor, 0, [(kData, .ref 3)]⟩
      | 4 => ⟨tTensor, 0, [(kData, .ref 5)]⟩
      | 6 => ⟨tTensor, 0, [(kData, .ref 7)]⟩
      | 8 => ⟨tTensor, 0, [(kData, .ref 9)]⟩
      | 10 => ⟨tTensor, 0, [(kData, .ref 11)]⟩     -- a tensor argument
      | 3 => ⟨tOther, 3, []⟩ | 5 => ⟨tOther, 5, []⟩ | 7 => ⟨tOther, 7, []⟩ | 9 => ⟨tOther, 9, []⟩ | 11 => ⟨tOther, 11, []⟩
      | _ => ⟨tNone, 0, []⟩,
    next := 12 }

def canonGridState : OState := initState canonGridHeap (fun r => if r = 0 then 1 else if r = 1 then 10 else 0)

theorem C15_grid_setters_refuted :
    ¬ (∀ (s : GridSetter) (data : Nat) (st : OState), Preserves st (runProg st (gridSetterProg s data))) := by
  intro h
  have := h (.center .converted) 77 canonGridState 1 (by decide)
  revert this
  decide

theorem freshOnly_cubeAccessor (s : CubeSetter) (data : Nat) : freshOnly [] (cubeAccessorPrims s data) = true := by
  cases s with
  | center f => cases f <;> rfl
  | origin => rfl
  | direction f => cases f <;> rfl
  | extent f => cases f <;> rfl

/-- **Cube accessors are pure** (`center`, `origin`, `direction`, `extent` with argument). -/
theorem C15_cube_accessors_pure (s : CubeSetter) (data : Nat) (st : OState) :
    Preserves st (runProg st (cubeAccessorProg s data)) :=
  prims_preserve _ (freshOnly_cubeAccessor s data) st

def deepA : List Prim :=
  [.copyNode 10 0, .load 12 0 kData, .copyNode 13 12, .store 10 kData 13, .load 18 0 kGrid, .newNode 19 tTuple 0]

def deepBlock (i : Nat) : List Prim :=
  [Prim.load 14 18 (100 + i)] ++ cloneSlotsP 15 14 gridSlots ++ [.store 19 (100 + i) 15]

def gridBlock (i : Nat) : List Prim := [Prim.store 11 (100 + i) 1]

theorem deepBatch_eq (data n : Nat) :
    imageOpPrims data (.deepBatch n) = deepA ++ (List.range n).flatMap deepBlock ++ [.store 10 kGrid 19] := rfl

theorem gridOfBatch_eq (data n : Nat) :
    imageOpPrims data (.gridOfBatch n) =
      [.copyNode 10 0, .newNode 11 tTuple 0] ++ (List.range n).flatMap gridBlock ++ [.store 10 kGrid 11] := rfl

theorem deepBlock_ok (i : Nat) : ∃ F', freshFinal [19, 10] (deepBlock i) = some F' ∧ ∀ r ∈ [19, 10], r ∈ F' :=
  ⟨_, rfl, by decide⟩

theorem gridBlock_ok (i : Nat) : ∃ F', freshFinal [11, 10] (gridBlock i) = some F' ∧ ∀ r ∈ [11, 10], r ∈ F' :=
  ⟨[11, 10], rfl, fun _ h => h⟩

theorem freshOnly_sandwich (A C : List Prim) (block : Nat → List Prim) (K FA : List Nat) (l : List Nat)
    (hA : freshFinal [] A = some FA) (hKA : ∀ r ∈ K, r ∈ FA)
    (hK : ∀ i, ∃ F', freshFinal K (block i) = some F' ∧ ∀ r ∈ K, r ∈ F')
    (hC : ∀ G, (∀ r ∈ K, r ∈ G) → (freshFinal G C).isSome = true) :
    freshOnly [] (A ++ l.flatMap block ++ C) = true := by
  obtain ⟨G', hG', hKG⟩ := freshFinal_loop block K hK l FA hKA
  rw [freshOnly_eq, freshFinal_append, freshFinal_append, hA]
  simp only [Option.bind_some, hG']
  exact hC G' hKG

theorem freshOnly_imageOp (data : Nat) (op : ImageOp) : freshOnly [] (imageOpPrims data op) = true := by
  cases op with
  | gridOfImage => rfl
  | shallow => rfl
  | functional => rfl
  | deepImage => rfl
  | gridOfBatch n =>
      rw [gridOfBatch_eq]
      refine freshOnly_sandwich _ _ gridBlock [11, 10] [11, 10] _ rfl (fun _ h => h) gridBlock_ok ?_
      intro G hG
      have h10 : 10 ∈ G := hG 10 (by decide)
      simp [freshFinal, freshStep, h10]
  | deepBatch n =>
      rw [deepBatch_eq]
      refine freshOnly_sandwich deepA _ deepBlock [19, 10] [19, 13, 10] _ rfl (by decide) deepBlock_ok ?_
      intro G hG
      have h10 : 10 ∈ G := hG 10 (by decide)
      simp [freshFinal, freshStep, h10]

/-- **Image / ImageBatch / FlowField / FlowFields operations are pure**: `grid(g)`, shallow copies
    (`copy.copy`, which since commit 5463a8b also works for flow fields), every functional method, and the
    deep copies — for every batch size `n`, in every heap, whatever further attributes the object carries
    (`_axes` of flow fields is copied with the object node) — leave every existing object unchanged. -/
theorem C15_image_accessors_pure (op : ImageOp) (data : Nat) (st : OState) :
    Preserves st (runProg st (imageOpProg op data)) :=
  prims_preserve _ (freshOnly_imageOp data op) st

/-- **Deep copies are independent in both directions.**  Let `So` and `Sc` be the (reference-closed)
    node sets of the original and of the copy, and suppose they are disjoint (see
    `C15_deepcopy_fresh_*` for the copies deepali makes).  Then for every later program `ps`
    whatsoever: (→) if `ps` writes no node of the original — every node of the copy is then a
    permitted target — the original looks exactly as before; (←) if `ps` writes no node of the
    copy, the copy looks exactly as before. -/
theorem C15_deepcopy_independent (st : OState) (So Sc : Nat → Prop)
    (hdisj : ∀ n, Sc n → ¬ So n)
    (hco : ClosedSet st.heap So) (hcc : ClosedSet st.heap Sc)
    (holdo : ∀ n, So n → n < st.heap.next) (holdc : ∀ n, Sc n → n < st.heap.next) (ps : List Prog) :
    ((∀ n ∈ (runProgs st ps).touched, ¬ So n) →
        ∀ fuel root, So root → viewVal (runProgs st ps).heap fuel (.ref root) = viewVal st.heap fuel (.ref root)) ∧
    ((∀ n ∈ (runProgs st ps).touched, ¬ Sc n) →
        ∀ fuel root, Sc root → viewVal (runProgs st ps).heap fuel (.ref root) = viewVal st.heap fuel (.ref root)) ∧
    -- the two hypotheses are compatible with arbitrary modification of the other side:
    (∀ n, Sc n → ¬ So n) ∧ (∀ n, So n → ¬ Sc n) :=
  ⟨fun hw => C15_frame st ps So hco holdo hw, fun hw => C15_frame st ps Sc hcc holdc hw,
   hdisj, fun n ho hc => hdisj n hc ho⟩

/-- decidable form of "the nodes in `[lo, hi)` only refer to nodes in `[lo, hi)`" -/
def closedInterval (h : OHeap) (lo hi : Nat) : Bool :=
  (List.range hi).all (fun n => n < lo || (h.node n).entries.all (fun e =>
    match e.2 with
    | .ref m => decide (lo ≤ m ∧ m < hi)
    | .imm _ => true))

/-- `Grid.clone()` / `copy.deepcopy(grid)` on the canonical grid: the copy's nodes are exactly the
    newly allocated ones `[12, 21)`; they are closed under references and contain the result, so the copy
    shares nothing with the original (whose nodes `[0, 12)` are closed and unchanged). -/
theorem C15_deepcopy_fresh_grid :
    let st' := runProg canonGridState gridCloneProg
    st'.halted = false ∧ st'.heap.next = 21 ∧ 12 ≤ st'.regs 10 ∧ st'.regs 10 < 21 ∧
    closedInterval st'.heap 12 21 = true ∧ closedInterval st'.heap 0 12 = true ∧
    (List.range 12).all (fun n => st'.heap.node n == canonGridHeap.node n) = true := by
  decide

/-- canonical image: object 12 with storage 13 and the canonical grid (node 1) as `_grid` -/
def canonImageHeap : OHeap :=
  { node := fun n => if n = 12 then ⟨tImage, 0, [(kData, .ref 13), (kGrid, .ref 1)]⟩
                     else if n = 13 then ⟨tOther, 13, []⟩ else canonGridHeap.node n,
    next := 14 }

def canonImageState : OState := initState canonImageHeap (fun r => if r = 0 then 12 else if r = 1 then 1 else 0)

/-- `Image.__deepcopy__` on the canonical image: same statement (new nodes `[14, 25)`). -/
theorem C15_deepcopy_fresh_image :
    let st' := runProg canonImageState (imageOpProg .deepImage 0)
    st'.halted = false ∧ st'.heap.next = 25 ∧ 14 ≤ st'.regs 10 ∧ st'.regs 10 < 25 ∧
    closedInterval st'.heap 14 25 = true ∧ closedInterval st'.heap 0 14 = true ∧
    (List.range 14).all (fun n => st'.heap.node n == canonImageHeap.node n) = true := by
  decide

/-- canonical flow field: object 12 with storage 13, the canonical grid (node 1) as `_grid` and `_axes` -/
def canonFlowHeap : OHeap :=
  { node := fun n => if n = 12 then ⟨tImage, 0, [(kData, .ref 13), (kGrid, .ref 1), (kAxes, .imm 3)]⟩
                     else if n = 13 then ⟨tOther, 13, []⟩ else canonGridHeap.node n,
    next := 14 }

/-- canonical batch of two flow fields: object 12, storage 13, `_grid` = tuple 14 of the grids 1 and 15 -/
def canonFlowBatchHeap : OHeap :=
  { node := fun n => if n = 12 then ⟨tImage, 0, [(kData, .ref 13), (kGrid, .ref 14), (kAxes, .imm 3)]⟩
                     else if n = 13 then ⟨tOther, 13, []⟩
                     else if n = 14 then ⟨tTuple, 0, [(100, .ref 1), (101, .ref 15)]⟩
                     else if n = 15 then ⟨tGrid, 0, [(kSize, .ref 2), (kCenter, .ref 4), (kSpacing, .ref 6), (kDirection, .ref 8), (kAlignCorners, .imm 0)]⟩
                     else canonGridHeap.node n,
    next := 16 }

def onObject (h : OHeap) (self arg : Nat) : OState := initState h (fun r => if r = 0 then self else if r = 1 then arg else 0)

/-- run `p` with the *result* of the previous program as receiver -/
def thenOnResult (st : OState) (p : Prog) : OState :=
  runProg { st with regs := fun r => if r = 0 then st.regs 10 else 0 } p

/-- `FlowField.__deepcopy__` / `FlowFields.__deepcopy__` (inherited from Image / ImageBatch) on the canonical flow
    field and the canonical batch of two: the copy's nodes are exactly the newly allocated interval, closed under
    references, it keeps `_axes`, and every node of the original is unchanged. -/
theorem C15_deepcopy_fresh_flowfield :
    (let st' := runProg (onObject canonFlowHeap 12 0) (imageOpProg .deepImage 0)
     st'.halted = false ∧ st'.heap.next = 25 ∧ 14 ≤ st'.regs 10 ∧ st'.regs 10 < 25 ∧
     closedInterval st'.heap 14 25 = true ∧ closedInterval st'.heap 0 14 = true ∧
     lookupEntry (st'.heap.node (st'.regs 10)).entries kAxes = some (.imm 3) ∧
     (List.range 14).all (fun n => st'.heap.node n == canonFlowHeap.node n) = true) ∧
    (let st' := runProg (onObject canonFlowBatchHeap 12 0) (imageOpProg (.deepBatch 2) 0)
     st'.halted = false ∧ st'.heap.next = 37 ∧ 16 ≤ st'.regs 10 ∧ st'.regs 10 < 37 ∧
     closedInterval st'.heap 16 37 = true ∧ closedInterval st'.heap 0 16 = true ∧
     lookupEntry (st'.heap.node (st'.regs 10)).entries kAxes = some (.imm 3) ∧
     (List.range 16).all (fun n => st'.heap.node n == canonFlowBatchHeap.node n) = true) := by
  decide +kernel

/-- **Shallow copies share the data** (what the model predicts and the `image_programs` stream confirms, now also
    for flow fields): `copy.copy(flow)` and `flow.grid(g)` leave the original unchanged *when they are made*, but the
    new object lives on the same storage — an in-place write through the copy (`copy.add_(…)`) changes the
    original's data (node 13) and nothing else of it; the same write through a deep copy changes nothing. -/
theorem C15_shallow_copy_shares_data :
    (let st2 := thenOnResult (runProg (onObject canonFlowHeap 12 0) (imageOpProg .shallow 0)) (imagePokeProg 99)
     st2.halted = false ∧ st2.heap.node 13 ≠ canonFlowHeap.node 13 ∧
     (List.range 14).all (fun n => n == 13 || st2.heap.node n == canonFlowHeap.node n) = true) ∧
    (let st2 := thenOnResult (runProg (onObject canonFlowHeap 12 1) (imageOpProg .gridOfImage 0)) (imagePokeProg 99)
     st2.halted = false ∧ st2.heap.node 13 ≠ canonFlowHeap.node 13) ∧
    (let st2 := thenOnResult (runProg (onObject canonFlowHeap 12 0) (imageOpProg .deepImage 0)) (imagePokeProg 99)
     st2.halted = false ∧ (List.range 14).all (fun n => st2.heap.node n == canonFlowHeap.node n) = true) := by
  decide

/-! ### Transforms: which accessors are pure depends on where `params` lives -/

/-- the full statement: every with-argument accessor leaves the receiver alone — for every parameter kind and
    class of leaf transform, and for composite transforms (`condition(x)`, `grid(g)`): no node of the receiver's
    graph changes, so no slot of the receiver and no slot of the receiver's children does -/
def C15_transform_accessors_Statement : Prop :=
  (∀ (isParam svf : Bool) (a : TAcc), canonPure isParam svf a = true) ∧
  canonCompositePure false = true ∧ canonCompositePure true = true

/-- **The full statement holds** (code with `__copy__` copying the `_parameters` container, 3110eb9; the repaired
    `StationaryVelocityFieldTransform.grid_`, 35474ea; and `CompositeTransform.__copy__` owning shallow copies of
    the children, F-15f/g): on the canonical graphs every with-argument accessor — `condition`, `grid`, `data`,
    `unlink`, `inverse`, `matrix` of a leaf transform (parameter- or buffer-held `params`, with or without an `exp`
    child), `condition` and `grid` of a composite — leaves every node reachable from the receiver as it was. -/
theorem C15_transform_accessors_pure : C15_transform_accessors_Statement := by
  refine ⟨?_, ?_, ?_⟩
  · intro isParam svf a; cases isParam <;> cases svf <;> cases a <;> decide
  · decide +kernel
  · decide +kernel

/-- the stationary-velocity `grid(g)` really takes the copy-the-child path on the canonical graph: the result's
    `exp` is a new node carrying the new flag, the original's is node 15 with the old one -/
example :
    let st := canonRun false true .grid
    st.halted = false ∧ deref st (deref st (st.regs 10) kModules) kExp ≠ 15 ∧
    lookupEntry (st.heap.node (deref st (deref st (st.regs 10) kModules) kExp)).entries kAlignCorners = some (.imm 2) ∧
    lookupEntry (st.heap.node 15).entries kAlignCorners = some (.imm 1) := by decide

/-- child `i` of the composite held in register `r` -/
def childOf (st : OState) (r i : Nat) : Nat :=
  deref st (deref st (attrNode st (st.regs r) kTransforms) kModules) (100 + i)

/-- **The shallow copy of a composite owns copies of its children** — and the accessor acts on them:
    after `condition(x)` on the canonical composite the result's child is a new node (not 18) that carries the new
    `_args` (the tuple, node 13) and has lost its buffered `u`, while it still shares the parameter tensor (node 9)
    with the original's child; the original's child keeps `_args`, its buffers dict (node 20) still holds `u`. -/
theorem C15_composite_copy_owns_children :
    let st := canonCompositeRun false
    st.halted = false ∧ childOf st 10 0 ≠ 18 ∧ 26 ≤ childOf st 10 0 ∧
    lookupEntry (st.heap.node (childOf st 10 0)).entries kArgs = some (.ref 13) ∧
    lookupEntry (st.heap.node (deref st (childOf st 10 0) kBuffers)).entries kU = none ∧
    lookupEntry (st.heap.node (deref st (childOf st 10 0) kBuffers)).entries kParams = some (.ref 9) ∧
    childOf st 0 0 = 18 ∧ lookupEntry (st.heap.node 18).entries kArgs = some (.imm 0) ∧
    lookupEntry (st.heap.node 20).entries kU = some (.ref 24) := by
  decide +kernel

/-- **Why the `_parameters` container must be copied** (F-15a, repaired upstream by commit 3110eb9):
    with the earlier `__copy__`, which shared `_parameters`, `data(arg)` on a transform whose `params`
    is an `nn.Parameter` rewrites node 2 — the *original's* parameter container; with buffer-held
    parameters it did not. -/
theorem C15_transform_shared_parameters_refuted :
    (canonRunDataOld true).heap.node 2 ≠ (canonTransformHeap true false).node 2 ∧
    (List.range 16).all (fun n => (canonRunDataOld false).heap.node n == (canonTransformHeap false false).node n) = true := by
  decide

/-- **Why a composite must copy its children** (F-15f, F-15g, repaired by `CompositeTransform.__copy__`): with the
    earlier copy (base `__copy__` only, children shared) `condition(x)` rewrote the original's child (node 18: `_args`,
    `_kwargs`) and cleared its buffered `u` (nodes 20, 22), and `grid(g)` with another grid cleared the child's
    buffers (nodes 20, 22).  A statement about the pre-repair variant of the model (`sharedChildren = true`), like
    `C15_transform_shared_parameters_refuted`; the current code violates neither. -/
theorem C15_transform_shared_child_refuted :
    canonCompositeChangedOld false = [18, 20, 22] ∧ canonCompositeChangedOld true = [20, 22] := by
  decide

end Deepali
